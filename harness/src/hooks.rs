//! Direct access to the Integer trait and slice re-chunking through the cfg(bva_verif) hook.

use crate::val::*;
use bva::Bit;

#[cfg(bva_verif)]
use bva::verif_hooks::{IArray, IArrayMut, Integer};

#[cfg(bva_verif)]
fn int_ops<I: Integer + TryFrom<u128> + Into<u128>>(c: &Case) -> Res
where
    <I as TryFrom<u128>>::Error: std::fmt::Debug,
{
    let cv = |x: u128| I::try_from(x).unwrap();
    match c.op {
        90 => {
            let mut a = cv(c.a(1));
            let cy = a.cadd(cv(c.a(2)), cv(c.a(3)));
            Res::Ok(vec![Item::N(a.into()), Item::N(cy.into())])
        }
        91 => {
            let mut a = cv(c.a(1));
            let cy = a.csub(cv(c.a(2)), cv(c.a(3)));
            Res::Ok(vec![Item::N(a.into()), Item::N(cy.into())])
        }
        92 => {
            let (lo, hi) = cv(c.a(1)).wmul(cv(c.a(2)));
            Res::Ok(vec![Item::N(lo.into()), Item::N(hi.into())])
        }
        93 => Res::Ok(vec![Item::N(I::mask(c.a(1) as usize).into())]),
        _ => {
            let x = cv(c.a(1));
            Res::Ok(vec![
                Item::N(x.leading_zeros() as u128),
                Item::N(x.leading_ones() as u128),
                Item::N(x.trailing_zeros() as u128),
                Item::N(x.trailing_ones() as u128),
            ])
        }
    }
}

// usize does not implement Into<u128>: go through u64 arithmetic on a newtype-free path
#[cfg(bva_verif)]
fn int_ops_usize(c: &Case) -> Res {
    let cv = |x: u128| x as usize;
    match c.op {
        90 => {
            let mut a = cv(c.a(1));
            let cy = a.cadd(cv(c.a(2)), cv(c.a(3)));
            Res::Ok(vec![Item::N(a as u128), Item::N(cy as u128)])
        }
        91 => {
            let mut a = cv(c.a(1));
            let cy = a.csub(cv(c.a(2)), cv(c.a(3)));
            Res::Ok(vec![Item::N(a as u128), Item::N(cy as u128)])
        }
        92 => {
            let (lo, hi) = Integer::wmul(&cv(c.a(1)), cv(c.a(2)));
            Res::Ok(vec![Item::N(lo as u128), Item::N(hi as u128)])
        }
        93 => Res::Ok(vec![Item::N(<usize as Integer>::mask(c.a(1) as usize) as u128)]),
        _ => {
            let x = cv(c.a(1));
            Res::Ok(vec![
                Item::N(Integer::leading_zeros(&x) as u128),
                Item::N(Integer::leading_ones(&x) as u128),
                Item::N(Integer::trailing_zeros(&x) as u128),
                Item::N(Integer::trailing_ones(&x) as u128),
            ])
        }
    }
}

#[cfg(bva_verif)]
fn slice_ops(c: &Case) -> Res {
    // args: w, j, idx, (v); list 0: the words
    macro_rules! with_i { ($i:ty) => {{
        let mut d: Vec<$i> = c.l(0).iter().map(|x| *x as $i).collect();
        macro_rules! with_j { ($j:ty) => {{
            if c.op == 95 {
                let n = IArray::int_len::<$j>(&d[..]);
                let g: Option<$j> = IArray::get_int::<$j>(&d[..], c.a(2) as usize);
                Res::Ok(vec![Item::N(n as u128), Item::N(g.unwrap_or(0) as u128), Item::N(g.is_some() as u128)])
            } else {
                let _ = IArrayMut::set_int::<$j>(&mut d[..], c.a(2) as usize, c.a(3) as $j);
                Res::Ok(vec![Item::L(d.iter().map(|x| *x as u128).collect())])
            }
        }}}
        match c.a(1) { 8 => with_j!(u8), 16 => with_j!(u16), 32 => with_j!(u32), 64 => with_j!(u64), _ => with_j!(u128) }
    }}}
    match c.a(0) {
        8 => with_i!(u8),
        16 => with_i!(u16),
        32 => with_i!(u32),
        64 => with_i!(u64),
        _ => with_i!(u128),
    }
}

pub fn exec_hook(c: &Case) -> Res {
    if c.op == 97 {
        // Bit <-> integer / bool conversions: arg0 = x, arg1 = type bits (1 = bool)
        let x = c.a(0);
        let b: Bit = match c.a(1) {
            1 => Bit::from(x != 0),
            8 => Bit::from(x as u8),
            16 => Bit::from(x as u16),
            32 => Bit::from(x as u32),
            64 => Bit::from(x as u64),
            128 => Bit::from(x),
            _ => Bit::from(x as usize),
        };
        let back: u128 = match c.a(1) {
            1 => bool::from(b) as u128,
            8 => u8::from(b) as u128,
            16 => u16::from(b) as u128,
            32 => u32::from(b) as u128,
            64 => u64::from(b) as u128,
            128 => u128::from(b),
            _ => usize::from(b) as u128,
        };
        macro_rules! consts {
            ($t:ty) => {
                (<$t>::from(Bit::Zero) as u128, <$t>::from(Bit::One) as u128)
            };
        }
        let (z, o) = match c.a(1) {
            1 => consts!(bool),
            8 => consts!(u8),
            16 => consts!(u16),
            32 => consts!(u32),
            64 => consts!(u64),
            128 => consts!(u128),
            _ => consts!(usize),
        };
        let chars = |b: Bit| -> Vec<u128> { format!("{}", b).chars().map(|ch| ch as u128).collect() };
        return Res::Ok(vec![Item::N((b == Bit::One) as u128), Item::N(back), Item::N(z), Item::N(o), Item::L(chars(Bit::Zero)), Item::L(chars(Bit::One))]);
    }
    #[cfg(bva_verif)]
    {
        if c.op >= 95 {
            return slice_ops(c);
        }
        // arg 4 = 1 selects usize among the 64-bit types
        return match (c.a(0), c.a(4)) {
            (8, _) => int_ops::<u8>(c),
            (16, _) => int_ops::<u16>(c),
            (32, _) => int_ops::<u32>(c),
            (64, 0) => int_ops::<u64>(c),
            (64, _) => int_ops_usize(c),
            _ => int_ops::<u128>(c),
        };
    }
    #[allow(unreachable_code)]
    Res::Err(96, 0)
}
