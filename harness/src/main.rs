//! Correspondence harness: runs generated cases against the real bva crate and writes one
//! trace line per case (inputs and observed result) for the OCaml driver / Coq model.

mod exec;
mod gen;
mod hooks;
mod kinds;
mod val;

use std::io::{BufRead, Write};

fn main() {
    // panics are observations, not noise
    std::panic::set_hook(Box::new(|_| {}));
    kinds::check_target_assumptions();
    let args: Vec<String> = std::env::args().collect();
    let profile: u32 = if cfg!(debug_assertions) { 0 } else { 1 };
    match args.get(1).map(|s| &s[..]) {
        Some("gen") => {
            let prop = &args[2];
            let thorough = args[3] == "thorough";
            let seed: u64 = args[4].parse().expect("seed");
            let out = std::fs::File::create(&args[5]).expect("create trace");
            let skip: Vec<u64> = std::env::var("VERIF_SKIP").unwrap_or_default().split(',').filter_map(|x| x.trim().parse().ok()).collect();
            let mut ctx = gen::Ctx {
                capped: std::cell::Cell::new(false),
                max_len: std::cell::Cell::new(usize::MAX),
                skip,
                allow_huge: std::cell::Cell::new(false),
                rng: gen::Rng(std::cell::Cell::new(seed ^ 0x5DEECE66D ^ ((profile as u64) << 40))),
                out: std::cell::RefCell::new(std::io::BufWriter::with_capacity(1 << 20, out)),
                profile,
                thorough,
                n: std::cell::Cell::new(0),
            };
            // corpus first
            if let Some(corpus) = args.get(6) {
                if let Ok(f) = std::fs::File::open(corpus) {
                    for line in std::io::BufReader::new(f).lines() {
                        let line = line.unwrap();
                        if line.trim().is_empty() || line.starts_with('#') {
                            continue;
                        }
                        let (c, _) = val::dec_case(&line);
                        ctx.emit(c);
                    }
                }
            }
            gen::generate(&mut ctx, prop);
            ctx.out.borrow_mut().flush().unwrap();
            println!("generated {} cases profile={}{}", ctx.n.get(), profile, if ctx.capped.get() { " CAPPED" } else { "" });
        }
        Some("replay") => {
            let stdin = std::io::stdin();
            for line in stdin.lock().lines() {
                let line = line.unwrap();
                if line.trim().is_empty() || line.starts_with('#') {
                    continue;
                }
                let (c, _) = val::dec_case(&line);
                let r = exec::exec(&c);
                println!("{} > {}", val::enc_case(&c, profile), val::enc_res(&r));
            }
        }
        _ => {
            eprintln!("usage: harness gen <prop> <quick|thorough> <seed> <out> [corpus] | harness replay < cases");
            std::process::exit(2);
        }
    }
}
