//! Case generators, one per property.  Every random choice derives from one SplitMix64 state.

use crate::exec::{exec, FMT_SPECS};
use crate::val::*;
use std::io::Write;

pub struct Rng(pub std::cell::Cell<u64>);
impl Rng {
    pub fn next(&self) -> u64 {
        self.0.set(self.0.get().wrapping_add(0x9E3779B97F4A7C15));
        let mut z = self.0.get();
        z = (z ^ (z >> 30)).wrapping_mul(0xBF58476D1CE4E5B9);
        z = (z ^ (z >> 27)).wrapping_mul(0x94D049BB133111EB);
        z ^ (z >> 31)
    }
    pub fn below(&self, n: u64) -> u64 {
        if n == 0 {
            0
        } else {
            self.next() % n
        }
    }
    pub fn pick<T: Clone>(&self, v: &[T]) -> T {
        v[self.below(v.len() as u64) as usize].clone()
    }
    pub fn chance(&self, num: u64, den: u64) -> bool {
        self.below(den) < num
    }
}

pub struct Ctx {
    /// set when the bound on the number of cases cut the generation short
    pub capped: std::cell::Cell<bool>,
    /// upper bound on the lengths `rand_len` chooses (operations whose model evaluation is quadratic in the length)
    pub max_len: std::cell::Cell<usize>,
    /// indices (in emission order) of cases that must not be executed, see `emit`
    pub skip: Vec<u64>,
    /// lengths far beyond the usual range (thousands of bits) for the cheap operations: set by the
    /// generators whose model evaluation is linear or quadratic in the number of words only
    pub allow_huge: std::cell::Cell<bool>,
    pub rng: Rng,
    pub out: std::cell::RefCell<std::io::BufWriter<std::fs::File>>,
    pub profile: u32,
    pub thorough: bool,
    pub n: std::cell::Cell<u64>,
}

impl Ctx {
    pub fn emit(&self, c: Case) -> Res {
        // a hard bound on the size of a trace (the generators are sized well below it; a generator that turns out
        // to explode - e.g. "every rotation amount of every lattice value" on a 2560-bit type - is cut here)
        if self.n.get() >= (if self.thorough { 1_500_000 } else { 400_000 }) {
            self.capped.set(true);
            return Res::Panic;
        }
        // a case listed in `skip` killed the process in an earlier attempt (an abort cannot be caught): it is not
        // executed again, its outcome is recorded as the panic class
        let r = if self.skip.contains(&self.n.get()) { Res::Panic } else { exec(&c) };
        let mut out = self.out.borrow_mut();
        writeln!(out, "{} > {}", enc_case(&c, self.profile), enc_res(&r)).unwrap();
        // every line reaches the file before the next case runs, so that the number of lines identifies a fatal case
        out.flush().unwrap();
        self.n.set(self.n.get() + 1);
        r
    }
    fn scale(&self, quick: u64, thorough: u64) -> u64 {
        if self.thorough {
            thorough
        } else {
            quick
        }
    }
}

// ---------------------------------------------------------------------------------------------
// values

pub fn limbs_mask(limbs: &mut Vec<u64>, len: usize) {
    let n = (len + 63) / 64;
    limbs.resize(n, 0);
    if len % 64 != 0 {
        limbs[n - 1] &= (1u64 << (len % 64)) - 1;
    }
}

/// Build a canonical raw value: `limbs` (u64, little endian) truncated to `len` bits, packed
/// into the kind's storage words; `spare` extra zero words (dynamic storage only); `dynmode`
/// forces a Bv onto the heap even when it would fit inline.
pub fn make_val(kid: u8, len: usize, limbs: &[u64], spare: usize, dynmode: bool) -> Val {
    let mut l = limbs.to_vec();
    limbs_mask(&mut l, len);
    let (tag, w, n) = kind_desc(kid);
    let w = w as usize;
    let get_bits = |pos: usize, cnt: usize| -> u128 {
        // cnt <= 128 bits starting at pos
        let mut r: u128 = 0;
        let mut k = 0;
        while k < cnt {
            let p = pos + k;
            let limb = l.get(p / 64).copied().unwrap_or(0);
            let take = (64 - p % 64).min(cnt - k);
            let chunk = if take == 64 { limb } else { (limb >> (p % 64)) & ((1u64 << take) - 1) };
            r |= (chunk as u128) << k;
            k += take;
        }
        r
    };
    if tag == 0 {
        let words = (0..n as usize).map(|i| get_bits(i * w, w)).collect();
        Val { kid, afix: false, len, words }
    } else if tag == 2 && len <= 128 && !dynmode {
        Val { kid, afix: true, len, words: vec![get_bits(0, 64), get_bits(64, 64)] }
    } else {
        let nw = (len + 63) / 64 + spare;
        let words = (0..nw).map(|i| get_bits(i * 64, 64)).collect();
        Val { kid, afix: false, len, words }
    }
}

fn boundary_lens(kid: u8, thorough: bool) -> Vec<usize> {
    let (tag, w, n) = kind_desc(kid);
    let w = w as usize;
    let mut v: Vec<usize> = vec![0, 1, 2, 7, 8, 9];
    if tag == 0 {
        let cap = w * n as usize;
        for x in [w - 1, w, w + 1, 2 * w - 1, 2 * w, 2 * w + 1, cap - 1, cap] {
            v.push(x);
        }
        v.retain(|x| *x <= cap);
    } else {
        v.extend_from_slice(&[63, 64, 65, 127, 128, 129, 191, 192, 193, 255, 256, 257, 319, 320, 321, 383, 384, 385, 447, 448, 449, 511, 512, 513, 575, 576, 577, 640, 1023, 1024, 1025]);
        if thorough {
            v.extend_from_slice(&[511, 512, 513, 1023, 1024, 1025, 2047, 2048, 2049, 4095, 4096, 4097]);
        }
    }
    v.sort();
    v.dedup();
    v
}

pub fn rand_len(ctx: &mut Ctx, kid: u8) -> usize {
    if !kind_is_fixed(kid) && ctx.allow_huge.get() && ctx.rng.chance(1, if ctx.thorough { 12 } else { 40 }) {
        // (lengths beyond 16 000 bits are exercised by dedicated cases of C06 and C13 only: comparison and multiplication
        // in the model are quadratic in the number of words)
        return ctx.rng.pick(&[4160usize, 4224, 6400, 8192, 8256, 8320, 12800]) + ctx.rng.below(3) as usize - 1;
    }
    let mut b = boundary_lens(kid, ctx.thorough);
    b.retain(|l| *l <= ctx.max_len.get());
    if ctx.rng.chance(3, 4) {
        ctx.rng.pick(&b)
    } else if kind_is_fixed(kid) {
        ctx.rng.below(kind_cap(kid).min(ctx.max_len.get()) as u64 + 1) as usize
    } else {
        let m = ctx.scale(700, 1100);
        ctx.rng.below(m) as usize
    }
}

fn set_bit(l: &mut [u64], i: usize) {
    if i / 64 < l.len() {
        l[i / 64] |= 1u64 << (i % 64);
    }
}
fn clear_bit(l: &mut [u64], i: usize) {
    if i / 64 < l.len() {
        l[i / 64] &= !(1u64 << (i % 64));
    }
}

/// The boundary lattice of values for a length (before truncation to the length).
pub fn lattice(len: usize, rng: &Rng) -> Vec<Vec<u64>> {
    let n = (len + 63) / 64;
    let zero = vec![0u64; n];
    let ones = vec![u64::MAX; n];
    let mut out = vec![zero.clone(), ones.clone()];
    if len == 0 {
        return vec![vec![]];
    }
    let mut one = zero.clone();
    one[0] = 1;
    out.push(one);
    let mut top = zero.clone();
    set_bit(&mut top, len - 1);
    out.push(top);
    // word boundaries of every storage width
    let mut bounds: Vec<usize> = vec![];
    for k in [8usize, 16, 32, 64, 128] {
        let mut b = k;
        while b <= len && bounds.len() < 24 {
            bounds.push(b);
            b += k;
        }
    }
    bounds.sort();
    bounds.dedup();
    for &b in &bounds {
        for d in [b.wrapping_sub(1), b, b + 1] {
            if d < len {
                let mut p = zero.clone();
                set_bit(&mut p, d); // 2^d
                out.push(p.clone());
                let mut q = ones.clone(); // single zero in a run of ones
                clear_bit(&mut q, d);
                out.push(q);
                // 2^d - 1 : low d bits set
                let mut lo = zero.clone();
                for i in 0..d {
                    set_bit(&mut lo, i);
                }
                out.push(lo.clone());
                // 2^d + 1
                p[0] |= 1;
                out.push(p);
                // high part set from d upwards
                let mut hi = ones.clone();
                for i in 0..d {
                    clear_bit(&mut hi, i);
                }
                out.push(hi);
            }
        }
    }
    out.push(vec![0x5555_5555_5555_5555; n]);
    out.push(vec![0xAAAA_AAAA_AAAA_AAAA; n]);
    // sparse and dense random
    let mut sp = zero.clone();
    for _ in 0..3 {
        let i = rng.below(len as u64) as usize;
        set_bit(&mut sp, i);
    }
    out.push(sp);
    let mut de = ones.clone();
    for _ in 0..3 {
        let i = rng.below(len as u64) as usize;
        clear_bit(&mut de, i);
    }
    out.push(de);
    out.push((0..n).map(|_| rng.next()).collect());
    out
}

/// values with a few isolated set bits, a few isolated cleared bits, or all-ones words between small words
pub fn sparse_limbs(rng: &Rng, len: usize) -> Vec<u64> {
    let n = (len + 63) / 64;
    let mut l = match rng.below(3) {
        0 => vec![0u64; n],
        1 => vec![u64::MAX; n],
        _ => (0..n).map(|i| if i % 2 == 0 { rng.below(8) } else { u64::MAX }).collect(),
    };
    if len > 0 {
        for _ in 0..(1 + rng.below(4)) {
            let i = rng.below(len as u64) as usize;
            l[i / 64] ^= 1u64 << (i % 64);
        }
    }
    limbs_mask(&mut l, len);
    l
}

pub fn rand_limbs(ctx: &mut Ctx, len: usize) -> Vec<u64> {
    if ctx.rng.chance(1, 6) {
        return sparse_limbs(&ctx.rng, len);
    }
    if ctx.rng.chance(2, 3) {
        let l = lattice(len, &ctx.rng);
        ctx.rng.pick(&l)
    } else {
        (0..(len + 63) / 64).map(|_| ctx.rng.next()).collect()
    }
}

pub fn val_of_len(ctx: &mut Ctx, kid: u8, len: usize) -> Val {
    let limbs = rand_limbs(ctx, len);
    // spare storage words of the dynamic / heap-auto values: none (half), a few, and -- one in eight of the others -- more
    // than any small internal buffer (8, 9, 16, 17, 63..65 words, or a few hundred), as `with_capacity(1024)` or a
    // truncated long vector leave behind
    let spare = if ctx.rng.chance(1, 2) {
        match ctx.rng.below(16) {
            0..=13 => 1 + ctx.rng.below(3) as usize,
            14 => 4 + ctx.rng.below(14) as usize,
            _ => ctx.rng.pick(&[8usize, 9, 16, 17, 31, 63, 64, 65, 130, 300]),
        }
    } else {
        0
    };
    let dynmode = ctx.rng.chance(1, 3);
    make_val(kid, len, &limbs, spare, dynmode)
}

pub fn rand_val(ctx: &mut Ctx, kid: u8) -> Val {
    let len = rand_len(ctx, kid);
    val_of_len(ctx, kid, len)
}

pub fn rand_kind(ctx: &mut Ctx) -> u8 {
    ctx.rng.below(NKINDS as u64) as u8
}

/// all values of a small length
fn all_vals(kid: u8, len: usize) -> Vec<Val> {
    (0..(1u64 << len)).map(|x| make_val(kid, len, &[x], 0, false)).collect()
}

const UINT_TYPES: [u128; 6] = [8, 16, 32, 64, 128, 65]; // 65 = usize
/// width in bits of a native type code
pub fn tb(t: u128) -> u128 {
    if t == 65 { 64 } else { t }
}
/// 1 when the type code means usize
pub fn us(t: u128) -> u128 {
    (t == 65) as u128
}

fn uint_lattice(ctx: &mut Ctx, t: u128) -> u128 {
    let bits = if t == 65 { 64 } else { t as u32 };
    let max: u128 = if bits == 128 { u128::MAX } else { (1u128 << bits) - 1 };
    let cands: Vec<u128> = vec![
        0, 1, 2, 3, 7, 8, 9, 10, 15, 16, 17, 63, 64, 65, 127, 128, 129, 255, 256, 257, max, max - 1, max >> 1, (max >> 1) + 1,
        1u128 << 32, (1u128 << 32) - 1, u64::MAX as u128, (u64::MAX as u128) + 1, (u64::MAX as u128) + 2, 1u128 << 127,
    ];
    let x = if ctx.rng.chance(2, 3) { ctx.rng.pick(&cands) } else { ((ctx.rng.next() as u128) << 64) | ctx.rng.next() as u128 };
    x & max
}

// ---------------------------------------------------------------------------------------------
// operator cases

fn binop_cases(ctx: &mut Ctx, ops: &[u32], per_pair: u64, forms: &[u32]) {
    // every ordered pairing of the 16 kinds
    for ka in 0..NKINDS {
        for kb in 0..NKINDS {
            for _ in 0..per_pair {
                let a = rand_val(ctx, ka);
                // right operand shorter / equal / longer than the left one
                let b = match ctx.rng.below(4) {
                    0 => {
                        let lb = a.len.min(kind_cap_or(kb, 1100));
                        val_of_len(ctx, kb, lb)
                    }
                    _ => rand_val(ctx, kb),
                };
                let op = ctx.rng.pick(ops);
                let form = ctx.rng.pick(forms);
                ctx.emit(Case::new(op).form(form).val(a).val(b));
            }
        }
    }
}

fn kind_cap_or(kid: u8, dflt: usize) -> usize {
    if kind_is_fixed(kid) {
        kind_cap(kid)
    } else {
        dflt
    }
}

fn uintop_cases(ctx: &mut Ctx, ops: &[u32], per_kind: u64) {
    for ka in 0..NKINDS {
        for t in UINT_TYPES {
            for _ in 0..per_kind {
                let a = rand_val(ctx, ka);
                let x = uint_lattice(ctx, t);
                let op = ctx.rng.pick(ops);
                let form = ctx.rng.below(6) as u32;
                ctx.emit(Case::new(op).form(form).arg(tb(t)).arg(x).arg(us(t)).val(a));
            }
        }
    }
}

fn small_scope_binops(ctx: &mut Ctx, ops: &[u32], maxlen: usize, kinds: &[u8]) {
    for &ka in kinds {
        for &kb in kinds {
            for la in 0..=maxlen {
                for lb in 0..=maxlen {
                    if la > kind_cap(ka).max(if kind_is_fixed(ka) { 0 } else { 999 }) {
                        continue;
                    }
                    for a in all_vals(ka, la) {
                        for b in all_vals(kb, lb) {
                            for &op in ops {
                                ctx.emit(Case::new(op).form(3).val(a.clone()).val(b.clone()));
                            }
                        }
                    }
                }
            }
        }
    }
}

const REP_KINDS: [u8; 8] = [0, 2, 4, 8, 11, 14, 15, 18];

/// the same object on both sides of an operator: `&a op &a`
fn alias_cases(ctx: &mut Ctx, ops: &[u32], per_kind: u64) {
    for k in 0..NKINDS {
        for _ in 0..per_kind {
            let a = rand_val(ctx, k);
            let op = ctx.rng.pick(ops);
            if (op == 69 || op == 70) && limbs_of(&a).iter().all(|x| *x == 0) {
                continue;
            }
            ctx.emit(Case::new(op).form(6).val(a.clone()).val(a));
        }
        // all-ones at odd and even word counts: squaring carries
        for len in [64usize, 128, 129, 192, 256, 320] {
            if len <= kind_cap_or(k, 100000) {
                let a = make_val(k, len, &vec![u64::MAX; (len + 63) / 64], 0, false);
                for &op in ops {
                    if op != 69 && op != 70 {
                        ctx.emit(Case::new(op).form(6).val(a.clone()).val(a.clone()));
                    }
                }
            }
        }
    }
}

/// multiplication and addition / subtraction with small-word operands: vectors whose words are small integers, equal
/// neighbours, or all ones with a few isolated holes, against an all-ones / single-word / sparse multiplier; every form.
/// (partial sums that hit exactly 0xFFFF..FF and then receive a carry, several words below the top)
fn small_word_arith_cases(ctx: &mut Ctx, ops: &[u32]) {
    for ka in [KD, KA, 20, 9, 25] {
        for nwords in [3usize, 4, 5, 6, 9] {
            let la = nwords * 64;
            if la > kind_cap_or(ka, 100000) {
                continue;
            }
            for pat in 0..6 {
                let a: Vec<u64> = match pat {
                    0 => vec![5, 3, 3, 7, 2, 2, 9, 1, 4][..nwords].to_vec(),
                    1 => (0..nwords).map(|i| [9u64, 2, 2, 1, 1, 6, 6, 3, 3][i]).collect(),
                    2 => (0..nwords).map(|_| 1 + ctx.rng.below(6)).collect(),
                    3 => (0..nwords).map(|i| if i % 2 == 0 { u64::MAX - ctx.rng.below(4) } else { ctx.rng.below(4) }).collect(),
                    4 => sparse_limbs(&ctx.rng, la),
                    _ => (0..nwords).map(|_| u64::MAX - ctx.rng.below(3)).collect(),
                };
                let av = make_val(ka, la, &a, ctx.rng.below(2) as usize, true);
                for kb in [KD, KA, 7] {
                    for lb in [64usize, 128] {
                        if lb > kind_cap_or(kb, 100000) {
                            continue;
                        }
                        let b: Vec<u64> = match ctx.rng.below(3) { 0 => vec![u64::MAX; lb / 64], 1 => vec![u64::MAX - 1; lb / 64], _ => sparse_limbs(&ctx.rng, lb) };
                        let bv = make_val(kb, lb, &b, ctx.rng.below(2) as usize, ctx.rng.chance(1, 2));
                        let op = ctx.rng.pick(ops);
                        for form in 0..6 {
                            ctx.emit(Case::new(op).form(form).val(av.clone()).val(bv.clone()));
                        }
                    }
                }
                // the same multiplier as a native integer
                for form in 0..6 {
                    ctx.emit(Case::new(ctx.rng.pick(ops)).form(form).arg(tb(64)).arg(u64::MAX as u128).arg(us(64)).val(av.clone()));
                }
            }
        }
    }
    // a type with more than 255 words: dense operands (column sums of more than 255 carries)
    let ones = make_val(25, 2400, &vec![u64::MAX; 38], 0, false);
    let dense = make_val(25, 2400, &(0..38).map(|_| ctx.rng.next() | 0x8080_8080_8080_8080).collect::<Vec<u64>>(), 0, false);
    for (x, y) in [(ones.clone(), ones.clone()), (dense.clone(), ones.clone()), (dense.clone(), dense.clone())] {
        for op in ops {
            ctx.emit(Case::new(*op).form(ctx.rng.below(6) as u32).val(x.clone()).val(y.clone()));
        }
    }
}

fn gen_c01(ctx: &mut Ctx) {
    small_word_arith_cases(ctx, &[66, 67, 68, 68]);
    wide_native_on_short(ctx, &[66, 67, 68]);
    ctx.allow_huge.set(true);
    let na = ctx.scale(12, 120);
    alias_cases(ctx, &[66, 67, 68], na);
    // both operands thousands of bits long (dynamic storage only): blocking, tiling and long carry chains
    let huge = [4160usize, 4224, 6400, 8192, 8320, 12800];
    for &la in &huge {
        for &lb in &huge {
            for pat in 0..(if ctx.thorough { 4 } else { 2 }) {
                let ka = ctx.rng.pick(&[KD, KA]);
                let kb = ctx.rng.pick(&[KD, KA]);
                let (x, y) = match pat {
                    0 => (vec![u64::MAX; (la + 63) / 64], vec![u64::MAX; (lb + 63) / 64]),
                    _ => (rand_limbs(ctx, la), rand_limbs(ctx, lb)),
                };
                let a = make_val(ka, la, &x, ctx.rng.below(2) as usize, true);
                let b = make_val(kb, lb, &y, ctx.rng.below(2) as usize, true);
                let op = if pat == 0 { 68 } else { ctx.rng.pick(&[66u32, 67, 68, 68]) };
                ctx.emit(Case::new(op).form(ctx.rng.below(6) as u32).val(a).val(b));
            }
        }
    }
    let pp = ctx.scale(12, 120);
    binop_cases(ctx, &[66, 67, 68], pp, &[0, 1, 2, 3, 4, 5]);
    let pk = ctx.scale(20, 200);
    uintop_cases(ctx, &[66, 67, 68], pk);
    let ml = if ctx.thorough { 3 } else { 2 };
    small_scope_binops(ctx, &[66, 67, 68], ml, &REP_KINDS);
    integer_trait_cases(ctx);
}

fn integer_trait_cases(ctx: &mut Ctx) {
    // cadd / csub / wmul / mask of each Integer impl; exhaustive for u8 in thorough
    let widths: [(u128, u128); 6] = [(8, 0), (16, 0), (32, 0), (64, 0), (64, 1), (128, 0)];
    for (w, us) in widths {
        let max: u128 = if w == 128 { u128::MAX } else { (1u128 << w) - 1 };
        let h = w / 2;
        let lat: Vec<u128> = vec![0, 1, 2, max, max - 1, max >> 1, (max >> 1) + 1, 0x55 & max, max / 3, (1u128 << h) & max, ((1u128 << h) - 1) & max, ((1u128 << h) + 1) & max,
                                  (2u128 << h) & max, (3u128 << h) & max, (max << h) & max, ((max << h) | 1) & max, (1u128 << (h - 1)) & max, ((1u128 << h) | (1u128 << (h - 1))) & max];
        for &a in &lat {
            for &b in &lat {
                for cy in [0u128, 1, max] {
                    ctx.emit(Case::new(90).arg(w).arg(a).arg(b).arg(cy).arg(us));
                    ctx.emit(Case::new(91).arg(w).arg(a).arg(b).arg(cy).arg(us));
                }
                ctx.emit(Case::new(92).arg(w).arg(a).arg(b).arg(0).arg(us));
            }
            ctx.emit(Case::new(94).arg(w).arg(a).arg(0).arg(0).arg(us));
        }
        for l in 0..=(w + 2) {
            ctx.emit(Case::new(93).arg(w).arg(l).arg(0).arg(0).arg(us));
        }
        let n = ctx.scale(300, 5000);
        for _ in 0..n {
            let a = (((ctx.rng.next() as u128) << 64) | ctx.rng.next() as u128) & max;
            let b = (((ctx.rng.next() as u128) << 64) | ctx.rng.next() as u128) & max;
            let cy = ctx.rng.below(2) as u128;
            ctx.emit(Case::new(90).arg(w).arg(a).arg(b).arg(cy).arg(us));
            ctx.emit(Case::new(91).arg(w).arg(a).arg(b).arg(cy).arg(us));
            ctx.emit(Case::new(92).arg(w).arg(a).arg(b).arg(0).arg(us));
            ctx.emit(Case::new(94).arg(w).arg(a >> ctx.rng.below(w as u64)).arg(0).arg(0).arg(us));
        }
    }
    if ctx.thorough {
        for a in 0..256u128 {
            for b in 0..256u128 {
                for cy in 0..2u128 {
                    ctx.emit(Case::new(90).arg(8).arg(a).arg(b).arg(cy).arg(0));
                    ctx.emit(Case::new(91).arg(8).arg(a).arg(b).arg(cy).arg(0));
                }
                ctx.emit(Case::new(92).arg(8).arg(a).arg(b).arg(0).arg(0));
            }
        }
    }
}

/// a = q*b + r with structured q, b, r (r in {0, 1, b-1}), long operands included: quotient digit
/// estimates, add-back steps and exact multiples are certain rather than 2^-64
fn division_lattice(ctx: &mut Ctx) {
    let kinds: [u8; 4] = [KD, KA, 9, 17];
    let lens: Vec<usize> = if ctx.thorough { vec![64, 128, 192, 320, 576, 640, 1024] } else { vec![64, 128, 192, 320, 576] };
    for &ka in &kinds {
        for &la in &lens {
            if la > kind_cap_or(ka, 100000) {
                continue;
            }
            for lb_words in 1..=((la + 63) / 64).min(4) {
                for pat in 0..4 {
                    // divisor of lb_words words: all ones / top bit + 1 / alternating / random
                    let mut b: Vec<u64> = match pat {
                        0 => vec![u64::MAX; lb_words],
                        1 => { let mut t = vec![0u64; lb_words]; t[lb_words - 1] = 1u64 << 63; t[0] |= 1; t }
                        2 => vec![0x5555_5555_5555_5555; lb_words],
                        _ => (0..lb_words).map(|_| ctx.rng.next() | 1).collect(),
                    };
                    if b.iter().all(|x| *x == 0) { b[0] = 1; }
                    // a = (2^la - 1) rounded down to a multiple of b, plus r: computed with the crate itself would be
                    // circular, so build a as all-ones / all-ones minus small / 2^(la-1): near-multiples arise from the
                    // all-ones divisor patterns (2^k - 1 divides 2^(k*m) - 1)
                    for apat in 0..4 {
                        let mut a: Vec<u64> = vec![u64::MAX; (la + 63) / 64];
                        match apat {
                            1 => a[0] = u64::MAX - 1,
                            2 => { for x in a.iter_mut() { *x = 0; } let n = a.len(); a[n - 1] = 1u64 << ((la - 1) % 64); }
                            3 => { for x in a.iter_mut() { *x = ctx.rng.next(); } }
                            _ => {}
                        }
                        let av = make_val(ka, la, &a, ctx.rng.below(3) as usize, ctx.rng.chance(1, 3));
                        let kb = ctx.rng.pick(&[KD, KA, 9, 17, 11]);
                        let lb = (lb_words * 64).min(kind_cap_or(kb, 100000));
                        let bv = make_val(kb, lb, &b, ctx.rng.below(2) as usize, ctx.rng.chance(1, 3));
                        ctx.emit(Case::new(71).val(av.clone()).val(bv.clone()));
                        ctx.emit(Case::new(69 + ctx.rng.below(2) as u32).form(ctx.rng.below(6) as u32).val(av).val(bv));
                    }
                }
            }
        }
    }
}

/// x against x + 2^k for k at and beyond every 64-bit boundary: operands that agree on all low words
fn high_word_pairs(ctx: &mut Ctx) {
    for ka in 0..NKINDS {
        for kb in 0..NKINDS {
            let la = rand_len(ctx, ka).min(700);
            let limbs = rand_limbs(ctx, la);
            let a = make_val(ka, la, &limbs, ctx.rng.below(3) as usize, ctx.rng.chance(1, 2));
            let capb = kind_cap_or(kb, 700);
            for k in [63usize, 64, 65, 127, 128, 129, 191, 192, 200, 255, 256, 319] {
                if k < capb {
                    let mut l2 = limbs_of(&a);
                    let lb = (k + 1 + ctx.rng.below(3) as usize).max(la.min(capb)).min(capb);
                    l2.resize((lb + 63) / 64, 0);
                    l2[k / 64] ^= 1u64 << (k % 64);
                    let b = make_val(kb, lb, &l2, ctx.rng.below(3) as usize, ctx.rng.chance(1, 2));
                    ctx.emit(Case::new(34).val(a.clone()).val(b.clone()));
                    ctx.emit(Case::new(34).val(b.clone()).val(a.clone()));
                    ctx.emit(Case::new(35).val(a.clone()).val(b));
                }
            }
        }
    }
}

fn gen_c02(ctx: &mut Ctx) {
    ctx.max_len.set(1100);
    let na = ctx.scale(8, 80);
    alias_cases(ctx, &[69, 70], na);
    division_lattice(ctx);
    // a divisor LONGER than the dividend (bits set at and beyond the dividend's length and beyond 128), every storage
    // mode of the dividend (inline, heap, heap-but-short), every form: the quotient is 0 or tiny, the remainder the dividend
    for ka in [KA, KD, 8, 0, 11] {
        for la in [1usize, 8, 64, 100, 127, 128] {
            if la > kind_cap_or(ka, 100000) {
                continue;
            }
            for dynmode in [false, true] {
                for kb in [KD, KA, 9, 20] {
                    for lb in [129usize, 130, 192, 256] {
                        if lb > kind_cap_or(kb, 100000) {
                            continue;
                        }
                        let al = rand_limbs(ctx, la);
                        let a = make_val(ka, la, &al, ctx.rng.below(2) as usize, dynmode);
                        let mut bl = vec![0u64; (lb + 63) / 64];
                        match ctx.rng.below(4) {
                            0 => { bl[2] = 1; }                                  // only bit 128
                            1 => { bl[2] = 1; bl[0] = al.get(0).copied().unwrap_or(1) | 1; }   // bit 128 + the dividend's low word
                            2 => { bl[0] = 3; let n = bl.len(); bl[n - 1] = 1; }
                            _ => { bl[0] = (al.get(0).copied().unwrap_or(2) >> 1) | 1; }       // low part about half the dividend
                        }
                        let b = make_val(kb, lb, &bl, ctx.rng.below(2) as usize, ctx.rng.chance(1, 2));
                        for form in 0..6 {
                            ctx.emit(Case::new(69 + ctx.rng.below(2) as u32).form(form).val(a.clone()).val(b.clone()));
                        }
                        ctx.emit(Case::new(71).val(a).val(b));
                    }
                }
            }
        }
    }
    // sparse divisors 2^k + c (interior zero words) under dividends 2^m + d: quotient-digit over-estimates with a
    // zero word in the (normalised) divisor, remainders of the form b - 1
    for ka in [KD, KA, 20, 22] {
        for k in [65usize, 127, 128, 129, 189, 191, 192, 250, 320] {
            for (dm, d) in [(2usize, 3u64), (1, 1), (3, 0), (64, 5), (66, 1)] {
                let la = k + dm + 1;
                if la > kind_cap_or(ka, 100000) {
                    continue;
                }
                let mut a = vec![0u64; (la + 63) / 64];
                a[(k + dm) / 64] |= 1u64 << ((k + dm) % 64);
                a[0] |= d;
                let mut b = vec![0u64; (k + 1 + 63) / 64];
                b[k / 64] |= 1u64 << (k % 64);
                b[0] |= ctx.rng.pick(&[1u64, 1, 3]);
                let kb = ctx.rng.pick(&[KD, KA, 20, 22]);
                let av = make_val(ka, la, &a, ctx.rng.below(2) as usize, true);
                let bv = make_val(kb, k + 1 + ctx.rng.below(3) as usize, &b, ctx.rng.below(2) as usize, true);
                ctx.emit(Case::new(71).val(av.clone()).val(bv.clone()));
                // a + (b - 1): remainder b - 1 when a is a multiple; and all-ones of that length
                let ones = make_val(ka, la, &vec![u64::MAX; (la + 63) / 64], 0, true);
                ctx.emit(Case::new(71).val(ones).val(bv.clone()));
                ctx.emit(Case::new(69 + ctx.rng.below(2) as u32).form(ctx.rng.below(6) as u32).val(av).val(bv));
            }
        }
    }
    // zero and empty dividends against zero and empty divisors: every form of /, % and div_rem must panic
    for ka in 0..NKINDS {
        for kb in 0..NKINDS {
            if !(ka == kb || ka >= KD && ka <= KA || kb >= KD && kb <= KA || ctx.rng.chance(1, 6)) {
                continue;
            }
            for la in [0usize, 8.min(kind_cap_or(ka, 8)), 130.min(kind_cap_or(ka, 130))] {
                for lb in [0usize, 8.min(kind_cap_or(kb, 8)), 130.min(kind_cap_or(kb, 130))] {
                    let a = make_val(ka, la, &[0], ctx.rng.below(2) as usize, ctx.rng.chance(1, 2));
                    let b = make_val(kb, lb, &[0], ctx.rng.below(2) as usize, ctx.rng.chance(1, 2));
                    ctx.emit(Case::new(71).val(a.clone()).val(b.clone()));
                    ctx.emit(Case::new(69 + ctx.rng.below(2) as u32).form(ctx.rng.below(6) as u32).val(a).val(b));
                }
            }
        }
    }
    let pp = ctx.scale(10, 80);
    for ka in 0..NKINDS {
        for kb in 0..NKINDS {
            for _ in 0..pp {
                let a = rand_val(ctx, ka);
                // divisor: small / about the size of the dividend / larger; sometimes zero or empty
                let lb = rand_len(ctx, kb);
                let mut limbs = rand_limbs(ctx, lb);
                match ctx.rng.below(6) {
                    0 => limbs = vec![ctx.rng.below(16) + 1],
                    1 => {
                        // keep only about as many significant bits as the dividend has
                        let keep = a.len.min(lb);
                        limbs_mask(&mut limbs, keep);
                        limbs_mask(&mut limbs, lb);
                    }
                    2 => limbs = vec![0],
                    _ => {}
                }
                let b = make_val(kb, lb, &limbs, (ctx.rng.below(3)) as usize, ctx.rng.chance(1, 4));
                let op = ctx.rng.pick(&[69u32, 70, 71]);
                let form = if op == 71 { 0 } else { ctx.rng.below(6) as u32 };
                ctx.emit(Case::new(op).form(form).val(a).val(b));
            }
        }
    }
    let pk = ctx.scale(15, 150);
    uintop_cases(ctx, &[69, 70], pk);
    let ml = if ctx.thorough { 3 } else { 2 };
    small_scope_binops(ctx, &[69, 70, 71], ml, &REP_KINDS);
}

/// wide native operands (u64 / u128 / usize with high bits set) on short vectors that own more storage than they
/// use: every bitwise and arithmetic operator, all six forms
fn wide_native_on_short(ctx: &mut Ctx, ops: &[u32]) {
    for ka in [KD, KA, 9, 11, 20] {
        for len in [0usize, 1, 8, 40, 63, 64, 65, 100, 127, 128] {
            if len > kind_cap_or(ka, 100000) {
                continue;
            }
            for spare in [1usize, 3] {
                let limbs = rand_limbs(ctx, len);
                let a = make_val(ka, len, &limbs, spare, true);
                for (t, x) in [(128u128, u128::MAX), (128, 1u128 << 64), (128, (1u128 << 64) | 5), (128, 1u128 << 127), (64, u64::MAX as u128), (64, 1u128 << 63), (65, 1u128 << 40)] {
                    let op = ctx.rng.pick(ops);
                    if (op == 69 || op == 70) && x == 0 {
                        continue;
                    }
                    for form in 0..6 {
                        ctx.emit(Case::new(op).form(form).arg(tb(t)).arg(x).arg(us(t)).val(a.clone()));
                    }
                }
            }
        }
    }
}

fn gen_c04(ctx: &mut Ctx) {
    wide_native_on_short(ctx, &[63, 64, 65]);
    ctx.allow_huge.set(true);
    let na = ctx.scale(8, 80);
    alias_cases(ctx, &[63, 64, 65], na);
    let pp = ctx.scale(12, 120);
    binop_cases(ctx, &[63, 64, 65], pp, &[0, 1, 2, 3, 4, 5]);
    let pk = ctx.scale(20, 200);
    uintop_cases(ctx, &[63, 64, 65], pk);
    let ml = if ctx.thorough { 3 } else { 2 };
    small_scope_binops(ctx, &[63, 64, 65], ml, &REP_KINDS);
    let n = ctx.scale(60, 600);
    for ka in 0..NKINDS {
        for _ in 0..n {
            let a = rand_val(ctx, ka);
            let form = ctx.rng.pick(&[0u32, 2]);
            ctx.emit(Case::new(60).form(form).val(a));
        }
    }
}

fn shift_amounts(ctx: &mut Ctx, t: u128, len: usize) -> u128 {
    let bits = if t == 65 { 64 } else { t as u32 };
    let max: u128 = if bits == 128 { u128::MAX } else { (1u128 << bits) - 1 };
    let l = len as u128;
    let cands = [0, 1, 2, 7, 8, 9, 15, 16, 17, 31, 32, 33, 63, 64, 65, 127, 128, 129, 191, 192, 193, 255, 256, 257, 320, 384, l.wrapping_sub(1), l, l + 1, l / 2,
        l.saturating_sub(64), l.saturating_sub(65), l.saturating_sub(128), (l / 64) * 64, (l / 128) * 128, max, max - 1,
        (1u128 << 32), (1u128 << 32) + 1, (1u128 << 32) + 7, (1u128 << 33) + 3, (1u128 << 40) + 63, (1u128 << 63) + 5, (1u128 << 64) + 3, (1u128 << 100) + 1,
        u64::MAX as u128, (u64::MAX as u128) + 1, (u64::MAX as u128) + 2, 1u128 << 127];
    (if ctx.rng.chance(3, 4) { ctx.rng.pick(&cands) } else { ctx.rng.below(len as u64 + 3) as u128 }) & max
}

/// shift amounts of type u128 (and u64) whose value is >= the length but whose low 64 / 32 bits are small:
/// every form, both directions, every kind (a conversion of the amount that truncates is certain to show)
fn wide_shift_amounts(ctx: &mut Ctx) {
    for ka in 0..NKINDS {
        let len = match kind_cap_or(ka, 0) { 0 => ctx.rng.pick(&[70usize, 130, 200]), c => c };
        let limbs = vec![u64::MAX; (len + 63) / 64];
        let a = make_val(ka, len, &limbs, ctx.rng.below(2) as usize, ctx.rng.chance(1, 2));
        for (t, k) in [(128u128, 1u128 << 64), (128, (1 << 64) + 1), (128, (1 << 64) + 3), (128, (1 << 65) + 2), (128, (1 << 100) + 1), (128, (1 << 127) + 5),
                       (64, 1 << 32), (64, (1 << 32) + 1), (64, (1 << 33) + 3), (64, (1 << 63) + 2), (65, (1 << 32) + 1), (65, (1 << 40) + 2)] {
            for sop in [61u32, 62] {
                for form in 0..6 {
                    ctx.emit(Case::new(sop).form(form).arg(tb(t)).arg(k).arg(us(t)).val(a.clone()));
                }
            }
        }
    }
}

fn gen_c05(ctx: &mut Ctx) {
    wide_shift_amounts(ctx);
    ctx.allow_huge.set(true);
    let n = ctx.scale(25, 250);
    for ka in 0..NKINDS {
        for t in UINT_TYPES {
            for _ in 0..n {
                let a = rand_val(ctx, ka);
                let k = shift_amounts(ctx, t, a.len);
                let op = ctx.rng.pick(&[61u32, 62]);
                let form = ctx.rng.below(6) as u32;
                ctx.emit(Case::new(op).form(form).arg(tb(t)).arg(k).arg(us(t)).val(a));
            }
        }
        // every k in 0..=n+2 for small n
        let maxn = if ctx.thorough { 20 } else { 10 };
        for len in 0..=maxn.min(kind_cap_or(ka, 999)) {
            for k in 0..=(len as u128 + 2) {
                let a = val_of_len(ctx, ka, len);
                ctx.emit(Case::new(61).form(2).arg(64).arg(k).arg(1).val(a.clone()));
                ctx.emit(Case::new(62).form(2).arg(64).arg(k).arg(1).val(a.clone()));
                ctx.emit(Case::new(61).form(4).arg(8).arg(k).val(a.clone()));
                ctx.emit(Case::new(62).form(4).arg(8).arg(k).val(a));
            }
        }
        for _ in 0..n * 2 {
            let a = rand_val(ctx, ka);
            let b = ctx.rng.below(2) as u128;
            ctx.emit(Case::new(52 + ctx.rng.below(2) as u32).arg(b).val(a));
        }
    }
}

fn gen_c06(ctx: &mut Ctx) {
    ctx.allow_huge.set(true);
    // word-aligned rotations (length and amount multiples of 64) of vectors owning spare storage words
    for k in [KD, KA] {
        for len in [128usize, 192, 256, 320, 512] {
            for spare in [0usize, 1, 2] {
                let l: Vec<u64> = (0..len / 64).map(|_| ctx.rng.next() | 1).collect();
                let a = make_val(k, len, &l, spare, true);
                for r in (64..len).step_by(64) {
                    ctx.emit(Case::new(54).arg(r as u128).val(a.clone()));
                    ctx.emit(Case::new(55).arg(r as u128).val(a.clone()));
                }
            }
        }
    }
    // rotations of vectors longer than any internal stash (256 words = 16384 bits), amounts beyond it
    for k in [KD, KA] {
        for len in [16385usize, 20000, 33001] {
            let l = rand_limbs(ctx, len);
            let a = make_val(k, len, &l, ctx.rng.below(2) as usize, true);
            for r in [1usize, 64, 16384, 16385, 16484, len - 16385, len - 1, len] {
                ctx.emit(Case::new(54).arg(r as u128).val(a.clone()));
                ctx.emit(Case::new(55).arg(r as u128).val(a.clone()));
            }
        }
    }
    let n = ctx.scale(60, 600);
    for ka in 0..NKINDS {
        for _ in 0..n {
            let a = rand_val(ctx, ka);
            let w = kind_w(ka);
            let k = match ctx.rng.below(8) {
                0 => 0,
                1 => a.len,
                2 => a.len / 2,
                3 => a.len.saturating_sub(1),
                // whole words of the storage type / of 64 bits (fast paths, chunk alignment)
                4 => (w * (1 + ctx.rng.below(3) as usize)).min(a.len),
                5 => (64 * (1 + ctx.rng.below(3) as usize)).min(a.len),
                6 => a.len - (a.len % w.max(1)).min(a.len),
                _ => ctx.rng.below(a.len as u64 + 1) as usize,
            };
            ctx.emit(Case::new(54 + ctx.rng.below(2) as u32).arg(k as u128).val(a));
        }
        // an empty vector rotated by any amount is unchanged (with and without spare storage)
        for k in [1u128, 7, 8, 63, 64, 65, 1 << 32, 1 << 63, u64::MAX as u128] {
            let e = make_val(ka, 0, &[], ctx.rng.below(3) as usize, ctx.rng.chance(1, 2));
            ctx.emit(Case::new(54).arg(k).val(e.clone()));
            ctx.emit(Case::new(55).arg(k).val(e));
        }
        // all k for every lattice value of small and boundary lengths
        let lens: Vec<usize> = boundary_lens(ka, false).into_iter().filter(|l| *l <= 66 || ctx.thorough).collect();
        for len in lens {
            let lat = lattice(len, &ctx.rng);
            let vals: Vec<Vec<u64>> = if ctx.thorough { lat } else { lat.into_iter().take(12).collect() };
            for limbs in vals {
                let ks: Vec<usize> = if len <= 18 || (ctx.thorough && len <= 34) { (0..=len).collect() } else {
                    let mut v = vec![0, 1, 7, 8, 9, 63, 64, 65, len / 2, len - 65.min(len), len - 64.min(len), len - 1, len];
                    v.retain(|k| *k <= len);
                    v.sort();
                    v.dedup();
                    v
                };
                for k in ks {
                    let a = make_val(ka, len, &limbs, 0, false);
                    ctx.emit(Case::new(54).arg(k as u128).val(a.clone()));
                    ctx.emit(Case::new(55).arg(k as u128).val(a));
                }
            }
        }
    }
}

fn rand_bits(ctx: &mut Ctx, n: usize) -> Vec<u128> {
    (0..n).map(|_| ctx.rng.below(2) as u128).collect()
}

/// one random edit step on `a` (operand of a random kind); returns the case
fn edit_case(ctx: &mut Ctx, a: &Val) -> Case {
    let room = kind_cap_or(a.kid, a.len + 200).saturating_sub(a.len);
    let over = ctx.rng.chance(1, 12); // the malformed stream: growth beyond a fixed capacity
    let pick_growth = |ctx: &mut Ctx| -> usize {
        if over && kind_is_fixed(a.kid) {
            room + 1 + ctx.rng.below(3) as usize
        } else {
            match ctx.rng.below(4) {
                0 => 0,
                1 => room.min(1),
                2 => room,
                _ => ctx.rng.below(room as u64 + 1) as usize,
            }
        }
    };
    match ctx.rng.below(13) {
        0 => {
            // in-range indices only: what a release build does with an out-of-range index is not
            // prescribed, and a history must not continue from such a state
            if a.len == 0 {
                Case::new(42).val(a.clone())
            } else {
                Case::new(40).arg(ctx.rng.below(a.len as u64) as u128).arg(ctx.rng.below(2) as u128).val(a.clone())
            }
        }
        1 => {
            if room == 0 && !over {
                Case::new(42).val(a.clone())
            } else {
                Case::new(41).arg(ctx.rng.below(2) as u128).val(a.clone())
            }
        }
        2 => Case::new(42).val(a.clone()),
        3 => {
            let nl = if ctx.rng.chance(1, 2) { ctx.rng.below(a.len as u64 + 1) as usize } else { a.len + pick_growth(ctx) };
            Case::new(43).arg(nl as u128).arg(ctx.rng.below(2) as u128).val(a.clone())
        }
        4 => Case::new(44).arg(ctx.rng.below(a.len as u64 + 3) as u128).val(a.clone()),
        5 => {
            let nl = if ctx.rng.chance(1, 3) { ctx.rng.below(a.len as u64 + 1) as usize } else { a.len + pick_growth(ctx) };
            Case::new(45).arg(nl as u128).val(a.clone())
        }
        6 | 7 | 8 => {
            let kb = rand_kind(ctx);
            let g = pick_growth(ctx).min(kind_cap_or(kb, 100000));
            let b = val_of_len(ctx, kb, g);
            let op = ctx.rng.pick(&[46u32, 47, 48]);
            let mut c = Case::new(op);
            if op == 48 {
                c = c.arg(ctx.rng.below(a.len as u64 + 1) as u128);
            }
            c.val(a.clone()).val(b)
        }
        9 => {
            let g = pick_growth(ctx).min(70);
            let bits = rand_bits(ctx, g);
            let n = bits.len();
            hint_args(ctx, Case::new(58), n).val(a.clone()).list(bits)
        }
        10 => Case::new(49 + ctx.rng.below(2) as u32).arg(ctx.rng.below(a.len as u64 + 1) as u128).val(a.clone()),
        11 => {
            let s = ctx.rng.below(a.len as u64 + 1) as usize;
            let e = s + ctx.rng.below((a.len - s) as u64 + 1) as usize;
            Case::new(51).arg(s as u128).arg(e as u128).val(a.clone())
        }
        _ => {
            if kind_is_fixed(a.kid) {
                Case::new(42).val(a.clone())
            } else if ctx.rng.chance(1, 2) {
                Case::new(56).arg(ctx.rng.pick(&[0u128, 1, 63, 64, 65, 128, 129, 200])).val(a.clone())
            } else {
                Case::new(57).val(a.clone())
            }
        }
    }
}

fn first_vec(r: &Res) -> Option<Val> {
    if let Res::Ok(items) = r {
        for it in items {
            if let Item::V(v) = it {
                return Some(v.clone());
            }
        }
    }
    None
}

/// histories: each step is emitted as a case whose input is the state the crate itself reached
fn histories(ctx: &mut Ctx, count: u64, steps: u64, with_arith: bool, kinds: &[u8]) {
    for _ in 0..count {
        let kid = ctx.rng.pick(kinds);
        let mut cur = if ctx.rng.chance(1, 3) { make_val(kid, 0, &[], 0, false) } else { rand_val(ctx, kid) };
        let n = 1 + ctx.rng.below(steps);
        for _ in 0..n {
            let c = if with_arith && ctx.rng.chance(1, 3) {
                arith_step(ctx, &cur)
            } else {
                edit_case(ctx, &cur)
            };
            let r = ctx.emit(c);
            match first_vec(&r) {
                Some(v) if v.kid == cur.kid => cur = v,
                _ => {}
            }
            // observers on the reached state
            if ctx.rng.chance(1, 3) {
                observer_battery(ctx, &cur, 2);
            }
        }
        observer_battery(ctx, &cur, 6);
    }
}

fn arith_step(ctx: &mut Ctx, a: &Val) -> Case {
    let kb = rand_kind(ctx);
    let b = rand_val(ctx, kb);
    match ctx.rng.below(6) {
        0 => Case::new(60).form(ctx.rng.pick(&[0u32, 2])).val(a.clone()),
        1 => {
            let t = ctx.rng.pick(&UINT_TYPES);
            let k = shift_amounts(ctx, t, a.len);
            Case::new(61 + ctx.rng.below(2) as u32).form(ctx.rng.below(6) as u32).arg(tb(t)).arg(k).arg(us(t)).val(a.clone())
        }
        2 => {
            let t = ctx.rng.pick(&UINT_TYPES);
            let x = uint_lattice(ctx, t);
            Case::new(63 + ctx.rng.below(6) as u32).form(ctx.rng.below(6) as u32).arg(tb(t)).arg(x).arg(us(t)).val(a.clone())
        }
        3 => Case::new(54 + ctx.rng.below(2) as u32).arg(ctx.rng.below(a.len as u64 + 1) as u128).val(a.clone()),
        _ => Case::new(63 + ctx.rng.below(6) as u32).form(ctx.rng.below(6) as u32).val(a.clone()).val(b),
    }
}

fn observer_battery(ctx: &mut Ctx, a: &Val, n: u64) {
    for _ in 0..n {
        let c = match ctx.rng.below(14) {
            0 => Case::new(22).arg(ctx.rng.below(2) as u128).val(a.clone()),
            1 => Case::new(27).arg(ctx.rng.below(4) as u128).val(a.clone()),
            2 => Case::new(28).val(a.clone()),
            3 => Case::new(29).val(a.clone()),
            4 => {
                let sp = ctx.rng.pick(&FMT_SPECS);
                // decimal formatting is quadratic in the model: only for moderately long vectors
                // decimal: the model is consulted up to 300 bits (slow above 200), beyond that the verdict is PROP only (cheap)
                let which = if a.len > 200 && a.len <= 300 || a.len > 520 { 1 + ctx.rng.below(4) } else { ctx.rng.below(5) };
                let mut c = Case::new(31).arg(which as u128);
                for x in sp {
                    c = c.arg(x);
                }
                c.val(a.clone())
            }
            5 => Case::new(32).val(a.clone()),
            6 => { let t = ctx.rng.pick(&UINT_TYPES); Case::new(33).arg(tb(t)).arg(us(t)).val(a.clone()) }
            7 => {
                let kb = rand_kind(ctx);
                let b = if ctx.rng.chance(1, 2) { same_value_other(ctx, a, kb) } else { rand_val(ctx, kb) };
                Case::new(34 + ctx.rng.below(2) as u32).val(a.clone()).val(b)
            }
            8 => Case::new(11).kind(rand_kind(ctx)).form(ctx.rng.below(2) as u32).val(a.clone()),
            9 => Case::new(20).val(a.clone()),
            10 => Case::new(25 + ctx.rng.below(2) as u32).val(a.clone()),
            11 => iter_case(ctx, a),
            12 => Case::new(21).val(a.clone()),
            _ => {
                if a.len > 0 {
                    Case::new(24).arg(ctx.rng.below(a.len as u64) as u128).val(a.clone())
                } else {
                    Case::new(36).val(a.clone())
                }
            }
        };
        ctx.emit(c);
    }
}

/// the same numeric value in another kind, possibly with a different length / storage
fn same_value_other(ctx: &mut Ctx, a: &Val, kb: u8) -> Val {
    let limbs = limbs_of(a);
    let sig = sig_bits(&limbs);
    let cap = kind_cap_or(kb, 100000);
    if sig > cap {
        return rand_val(ctx, kb);
    }
    let len = match ctx.rng.below(3) {
        0 => sig,
        1 => a.len.max(sig).min(cap),
        _ => (sig + ctx.rng.below(70) as usize).min(cap),
    };
    make_val(kb, len, &limbs, ctx.rng.below(3) as usize, ctx.rng.chance(1, 2))
}

pub fn limbs_of(a: &Val) -> Vec<u64> {
    let w = kind_w(a.kid);
    let n = (a.len + 63) / 64;
    let mut out = vec![0u64; n];
    for i in 0..a.len {
        let word = a.words.get(i / w).copied().unwrap_or(0);
        if (word >> (i % w)) & 1 == 1 {
            out[i / 64] |= 1u64 << (i % 64);
        }
    }
    out
}

fn sig_bits(l: &[u64]) -> usize {
    for i in (0..l.len()).rev() {
        if l[i] != 0 {
            return i * 64 + 64 - l[i].leading_zeros() as usize;
        }
    }
    0
}

/// size-hint arguments for FromIterator / Extend cases: [lower bound; mode], see exec.rs `hinted`
fn hint_args(ctx: &mut Ctx, c: Case, n: usize) -> Case {
    match ctx.rng.below(8) {
        0 | 1 => c.arg(n as u128),
        2 => c.arg(0),
        3 => c.arg(ctx.rng.below(n as u64 + 1) as u128).arg(1),
        4 => c.arg(ctx.rng.below(n as u64 + 1) as u128).arg(2),
        5 => c.arg(n as u128).arg(3),
        6 => c.arg(0).arg(2),
        _ => c.arg(ctx.rng.below(n as u64 + 1) as u128).arg(4),
    }
}

fn iter_case(ctx: &mut Ctx, a: &Val) -> Case {
    let n = 1 + ctx.rng.below(10);
    let mut calls: Vec<u128> = vec![];
    let mut rem = a.len as u128;
    let mut revs = 0;
    for i in 0..n {
        let code = match ctx.rng.below(12) {
            0 | 1 => 0,
            2 | 3 => 1,
            4 | 5 => 2,
            6 | 7 => 3,
            8 => 4,
            9 => {
                if i + 1 == n { 5 } else { 4 }
            }
            10 => {
                if i + 1 == n { 6 } else { 0 }
            }
            _ => {
                if revs < 2 { revs += 1; 7 } else { 0 }
            }
        };
        let arg: u128 = if code == 2 || code == 3 {
            let cands = [0, 1, rem.wrapping_sub(1), rem, rem + 1, 1u128 << 63, (u64::MAX - 1) as u128, u64::MAX as u128];
            let x = if ctx.rng.chance(2, 3) { ctx.rng.pick(&cands) } else { ctx.rng.below(a.len as u64 + 2) as u128 };
            x & (u64::MAX as u128)
        } else {
            0
        };
        match code {
            0 | 1 => rem = rem.saturating_sub(1),
            2 | 3 => rem = rem.saturating_sub(arg.saturating_add(1)),
            _ => {}
        }
        calls.push(code);
        calls.push(arg);
    }
    // every third sequence ends in a run of next (or next_back) calls long enough to exhaust the iterator; the harness
    // issues that run through fold / for_each / collect / rfold / ... (argument 0 selects which)
    let mut consumer = 0u128;
    if ctx.rng.chance(1, 3) && a.len <= 600 {
        while let Some(&code) = calls.get(calls.len().wrapping_sub(2)) {
            if code >= 5 { calls.truncate(calls.len() - 2); } else { break; }
        }
        let code = ctx.rng.below(2) as u128;
        for _ in 0..(rem as usize + 1 + ctx.rng.below(2) as usize) {
            calls.push(code);
            calls.push(0);
        }
        consumer = 1 + ctx.rng.below(5) as u128;
    }
    Case::new(30).form(ctx.rng.below(2) as u32).arg(consumer).val(a.clone()).list(calls)
}

/// zeros / ones / repeat / with_capacity of every kind at boundary lengths (within capacity)
fn ctor_cases(ctx: &mut Ctx) {
    for k in 0..NKINDS {
        for len in boundary_lens(k, ctx.thorough) {
            ctx.emit(Case::new(1).kind(k).arg(len as u128));
            ctx.emit(Case::new(2).kind(k).arg(len as u128));
            ctx.emit(Case::new(13).kind(k).arg(0).arg(len as u128));
            ctx.emit(Case::new(13).kind(k).arg(1).arg(len as u128));
            ctx.emit(Case::new(3).kind(k).arg(len as u128));
        }
    }
}

/// clone_from / clone_into onto a destination with its own history (longer, all ones, spare capacity), then observers
/// and one more operation on the result
fn clone_from_cases(ctx: &mut Ctx) {
    let n = ctx.scale(12, 120);
    for k in 0..NKINDS {
        for _ in 0..n {
            let dst = if ctx.rng.chance(1, 2) {
                let len = rand_len(ctx, k);
                make_val(k, len, &vec![u64::MAX; (len + 63) / 64], ctx.rng.below(3) as usize, ctx.rng.chance(1, 2))
            } else {
                rand_val(ctx, k)
            };
            let src = if ctx.rng.chance(1, 2) {
                let len = ctx.rng.below(dst.len as u64 + 1) as usize;
                make_val(k, len, &vec![0; (len + 63) / 64], ctx.rng.below(2) as usize, ctx.rng.chance(1, 2))
            } else {
                rand_val(ctx, k)
            };
            let r = ctx.emit(Case::new(14).form(ctx.rng.below(2) as u32).val(dst).val(src));
            if let Some(v) = first_vec(&r) {
                observer_battery(ctx, &v, 1);
                let c = edit_case(ctx, &v);
                ctx.emit(c);
                ctx.emit(Case::new(43).arg((v.len + 70).min(kind_cap_or(k, 100000)) as u128).arg(0).val(v));
            }
        }
    }
}

fn gen_c03(ctx: &mut Ctx) {
    clone_from_cases(ctx);
    ctor_cases(ctx);
    let all: Vec<u8> = (0..NKINDS).collect();
    let n = ctx.scale(1500, 30000);
    histories(ctx, n, 12, true, &all);
}

/// insert / append / prepend with the relations in-place implementations care about: index + infix length a multiple of
/// 64, infix a whole number of words, index on a word boundary, spare storage for at least the infix, non-periodic tail
fn insert_alignment_cases(ctx: &mut Ctx) {
    for ka in [KD, KA, 9, 17, 20] {
        let cap = kind_cap_or(ka, 100000);
        for &len in &[70usize, 100, 128, 192, 256, 300] {
            for &idx in &[0usize, 1, 20, 63, 64, 65, 128] {
                for &n in &[1usize, 44, 63, 64, 65, 108, 128, 192] {
                    if idx > len || len + n > cap {
                        continue;
                    }
                    let interesting = (idx + n) % 64 == 0 || n % 64 == 0 || idx % 64 == 0;
                    if !interesting && !ctx.rng.chance(1, 4) {
                        continue;
                    }
                    let limbs: Vec<u64> = (0..(len + 63) / 64).map(|i| 0x0123_4567_89ab_cdefu64.rotate_left(i as u32 * 7) ^ ctx.rng.next()).collect();
                    let a = make_val(ka, len, &limbs, (n + 63) / 64 + ctx.rng.below(2) as usize, true);
                    let kb = ctx.rng.pick(&[KD, KA, 9, 8]);
                    if n > kind_cap_or(kb, 100000) {
                        continue;
                    }
                    let x = match ctx.rng.below(3) {
                        0 => make_val(kb, n, &vec![0; (n + 63) / 64], 0, false),
                        1 => make_val(kb, n, &vec![u64::MAX; (n + 63) / 64], 0, false),
                        _ => { let l = rand_limbs(ctx, n); make_val(kb, n, &l, ctx.rng.below(2) as usize, ctx.rng.chance(1, 2)) }
                    };
                    ctx.emit(Case::new(48).arg(idx as u128).val(a.clone()).val(x.clone()));
                    if idx == 0 {
                        ctx.emit(Case::new(47).val(a.clone()).val(x.clone()));
                    }
                    if idx == len {
                        ctx.emit(Case::new(46).val(a.clone()).val(x));
                    }
                }
            }
        }
    }
}

/// extend with an iterator that understates what it will yield (legal: only the lower bound is a promise), on
/// vectors that the extension carries across the inline limit of the auto type / up to and beyond a fixed capacity
fn extend_understated_cases(ctx: &mut Ctx) {
    for ka in [KA, KD, 8, 11, 4] {
        let cap = kind_cap_or(ka, 100000);
        for len0 in [0usize, 20, 90, 100, 120, 127, 128] {
            if len0 > cap {
                continue;
            }
            for g in [1usize, 8, 29, 40, 129] {
                for (lo, mode) in [(0u128, 1u128), (0, 2), (0, 4), (1, 1), (g as u128 / 2, 4)] {
                    for dynmode in [false, true] {
                        if dynmode && ka != KA {
                            continue;
                        }
                        let l = rand_limbs(ctx, len0);
                        let a = make_val(ka, len0, &l, 0, dynmode);
                        let bits = rand_bits(ctx, g);
                        ctx.emit(Case::new(58).arg(lo).arg(mode).val(a).list(bits));
                    }
                }
            }
        }
    }
}

fn gen_c07(ctx: &mut Ctx) {
    insert_alignment_cases(ctx);
    extend_understated_cases(ctx);
    let all: Vec<u8> = (0..NKINDS).collect();
    let n = ctx.scale(2000, 40000);
    histories(ctx, n, 10, false, &all);
    // collect from an iterator
    let m = ctx.scale(40, 400);
    for k in 0..NKINDS {
        for _ in 0..m {
            let len = rand_len(ctx, k);
            let bits = rand_bits(ctx, len);
            let c = hint_args(ctx, Case::new(10).kind(k), len);
            ctx.emit(c.list(bits));
        }
    }
    // empty operands for append / prepend / insert on every pairing
    for ka in 0..NKINDS {
        for kb in 0..NKINDS {
            let a = rand_val(ctx, ka);
            let e = make_val(kb, 0, &[], ctx.rng.below(2) as usize, ctx.rng.chance(1, 2));
            ctx.emit(Case::new(46).val(a.clone()).val(e.clone()));
            ctx.emit(Case::new(47).val(a.clone()).val(e.clone()));
            ctx.emit(Case::new(48).arg(ctx.rng.below(a.len as u64 + 1) as u128).val(a).val(e));
        }
    }
}

fn gen_c08(ctx: &mut Ctx) {
    let n = ctx.scale(80, 800);
    for ka in 0..NKINDS {
        // all (s, e) and split points for small lengths
        let maxn = if ctx.thorough { 12 } else { 7 };
        for len in 0..=maxn.min(kind_cap_or(ka, 999)) {
            let a = val_of_len(ctx, ka, len);
            for s in 0..=len {
                for e in s..=len {
                    ctx.emit(Case::new(51).arg(s as u128).arg(e as u128).val(a.clone()));
                }
                ctx.emit(Case::new(49).arg(s as u128).val(a.clone()));
                ctx.emit(Case::new(50).arg(s as u128).val(a.clone()));
            }
        }
        for len in boundary_lens(ka, ctx.thorough) {
            for spare in 0..3usize {
                for limbs in [vec![u64::MAX; (len + 63) / 64], { let mut t = vec![0u64; (len + 63) / 64]; if len > 0 { t[(len - 1) / 64] |= 1u64 << ((len - 1) % 64); t[0] |= 1; } t }, vec![0u64; (len + 63) / 64]] {
                    let a = make_val(ka, len, &limbs, spare, spare % 2 == 1);
                    ctx.emit(Case::new(25).val(a.clone()));
                    ctx.emit(Case::new(26).val(a.clone()));
                    ctx.emit(Case::new(49).arg((len / 2) as u128).val(a.clone()));
                    ctx.emit(Case::new(51).arg(0).arg(len as u128).val(a));
                }
            }
        }
        for _ in 0..n {
            let a = rand_val(ctx, ka);
            let pts: Vec<usize> = vec![0, 1, 7, 8, 9, 63, 64, 65, 127, 128, 129, a.len / 2, a.len.saturating_sub(1), a.len]
                .into_iter().filter(|p| *p <= a.len).collect();
            let s = if ctx.rng.chance(2, 3) { ctx.rng.pick(&pts) } else { ctx.rng.below(a.len as u64 + 1) as usize };
            let e = if ctx.rng.chance(1, 2) {
                let later: Vec<usize> = pts.iter().copied().filter(|p| *p >= s).collect();
                ctx.rng.pick(&later)
            } else {
                s + ctx.rng.below((a.len - s) as u64 + 1) as usize
            };
            match ctx.rng.below(5) {
                0 => ctx.emit(Case::new(49).arg(s as u128).val(a)),
                1 => ctx.emit(Case::new(50).arg(s as u128).val(a)),
                2 => ctx.emit(Case::new(25 + ctx.rng.below(2) as u32).val(a)),
                _ => ctx.emit(Case::new(51).arg(s as u128).arg(e as u128).val(a)),
            };
        }
    }
}

fn gen_c09(ctx: &mut Ctx) {
    // the model's cross-type comparison costs seconds on 12 800-bit operands: the huge class only in the quick tier,
    // where it is 1 case in 40
    ctx.allow_huge.set(!ctx.thorough);
    high_word_pairs(ctx);
    let pp = ctx.scale(14, 140);
    for ka in 0..NKINDS {
        for kb in 0..NKINDS {
            for _ in 0..pp {
                let a = rand_val(ctx, ka);
                let b = match ctx.rng.below(4) {
                    0 => same_value_other(ctx, &a, kb),
                    1 => {
                        // differ in exactly one bit
                        let mut limbs = limbs_of(&a);
                        let cap = kind_cap_or(kb, 100000);
                        let len = a.len.min(cap);
                        if len > 0 {
                            let i = ctx.rng.below(len as u64) as usize;
                            limbs[i / 64] ^= 1u64 << (i % 64);
                        }
                        make_val(kb, len, &limbs, ctx.rng.below(3) as usize, ctx.rng.chance(1, 2))
                    }
                    _ => rand_val(ctx, kb),
                };
                ctx.emit(Case::new(34).val(a.clone()).val(b.clone()));
                ctx.emit(Case::new(35).val(a.clone()).val(b.clone()));
                ctx.emit(Case::new(35).val(b).val(a));
            }
        }
    }
    let ml = if ctx.thorough { 3 } else { 2 };
    small_scope_binops(ctx, &[34, 35], ml, &REP_KINDS);
}

fn gen_c10(ctx: &mut Ctx) {
    let n = ctx.scale(400, 4000);
    for ka in 0..NKINDS {
        for _ in 0..n {
            let a = rand_val(ctx, ka);
            let b = if ctx.rng.chance(3, 4) { same_value_other(ctx, &a, ka) } else { rand_val(ctx, ka) };
            ctx.emit(Case::new(37).val(a.clone()).val(b));
            ctx.emit(Case::new(32).val(a));
        }
    }
}

/// the degenerate fixed type without any storage word: capacity 0, only the empty vector
fn zero_word_cases(ctx: &mut Ctx) {
    let z = make_val(KZ, 0, &[], 0, false);
    for t in UINT_TYPES {
        for x in [0u128, 1, 255] {
            ctx.emit(Case::new(8).kind(KZ).arg(tb(t)).arg(x).arg(us(t)));
        }
        ctx.emit(Case::new(33).arg(tb(t)).arg(us(t)).val(z.clone()));
    }
    for which in 0..5u128 {
        let mut c = Case::new(31).arg(which);
        for x in FMT_SPECS[1] {
            c = c.arg(x);
        }
        ctx.emit(c.val(z.clone()));
    }
    for len in [0u128, 1] {
        ctx.emit(Case::new(1).kind(KZ).arg(len));
        ctx.emit(Case::new(2).kind(KZ).arg(len));
    }
    ctx.emit(Case::new(41).arg(1).val(z.clone()));
    ctx.emit(Case::new(42).val(z.clone()));
    ctx.emit(Case::new(29).val(z.clone()));
    ctx.emit(Case::new(28).val(z.clone()));
    ctx.emit(Case::new(32).val(z.clone()));
    ctx.emit(Case::new(22).arg(0).val(z.clone()));
    ctx.emit(Case::new(4).kind(KZ).list(vec![]));
    ctx.emit(Case::new(4).kind(KZ).list(vec![48]));
    ctx.emit(Case::new(6).kind(KZ).arg(0).list(vec![]));
    // the whole interface on the only value of the type: observers, edits, arithmetic, constructors, conversions
    observer_battery(ctx, &z, 1);
    for _ in 0..60 {
        let c = edit_case(ctx, &z);
        ctx.emit(c);
        let c = arith_step(ctx, &z);
        ctx.emit(c);
        let c = iter_case(ctx, &z);
        ctx.emit(c);
    }
    for len in [0u128, 1, 8] {
        ctx.emit(Case::new(3).kind(KZ).arg(len));
        ctx.emit(Case::new(13).kind(KZ).arg(1).arg(len));
        ctx.emit(Case::new(7).kind(KZ).arg(len).arg(0).list(vec![0xff, 0xff]));
        ctx.emit(Case::new(10).kind(KZ).arg(len).list((0..len).map(|_| 1).collect()));
        ctx.emit(Case::new(5).kind(KZ).list((0..len / 4).map(|_| 0x66).collect()));
        ctx.emit(Case::new(9).kind(KZ).arg(8).arg(8).list((0..len / 8).map(|_| 0).collect()));
    }
    for k in 0..NKINDS {
        for len in [0usize, 1] {
            let a = make_val(k, len, &[1], 0, false);
            ctx.emit(Case::new(11).kind(KZ).val(a.clone()));
            ctx.emit(Case::new(11).kind(KZ).form(1).val(a.clone()));
            ctx.emit(Case::new(34).val(z.clone()).val(a.clone()));
            ctx.emit(Case::new(34).val(a.clone()).val(z.clone()));
            ctx.emit(Case::new(47).val(a.clone()).val(z.clone()));
            ctx.emit(Case::new(48).arg(0).val(a.clone()).val(z.clone()));
            ctx.emit(Case::new(48).arg(0).val(z.clone()).val(a.clone()));
            ctx.emit(Case::new(71).val(z.clone()).val(a.clone()));
            ctx.emit(Case::new(71).val(a).val(z.clone()));
        }
        ctx.emit(Case::new(11).kind(k).form(1).val(z.clone()));
    }
    ctx.emit(Case::new(37).val(z.clone()).val(z.clone()));
    for k in [0u8, 8, KD, KA] {
        let a = rand_val(ctx, k);
        ctx.emit(Case::new(66).form(3).val(a.clone()).val(z.clone()));
        ctx.emit(Case::new(66).form(3).val(z.clone()).val(a.clone()));
        ctx.emit(Case::new(35).val(z.clone()).val(a.clone()));
        ctx.emit(Case::new(11).kind(k).val(z.clone()));
        ctx.emit(Case::new(46).val(a).val(z.clone()));
    }
}

fn gen_c11(ctx: &mut Ctx) {
    zero_word_cases(ctx);
    for k in 0..NKINDS {
        for t in UINT_TYPES {
            let n = ctx.scale(40, 400);
            for _ in 0..n {
                let x = uint_lattice(ctx, t);
                ctx.emit(Case::new(8).kind(k).form(ctx.rng.below(2) as u32).arg(tb(t)).arg(x).arg(us(t)));
                let a = if ctx.rng.chance(1, 2) {
                    // a vector holding x exactly, or one bit more
                    let cap = kind_cap_or(k, 100000);
                    let limbs = vec![x as u64, (x >> 64) as u64];
                    let sig = sig_bits(&limbs);
                    let len = (sig + ctx.rng.below(3) as usize).min(cap);
                    make_val(k, len, &limbs, ctx.rng.below(3) as usize, ctx.rng.chance(1, 2))
                } else {
                    rand_val(ctx, k)
                };
                ctx.emit(Case::new(33).form(ctx.rng.below(2) as u32).arg(tb(t)).arg(us(t)).val(a));
            }
            // slices
            for cnt in 0..5usize {
                let l: Vec<u128> = (0..cnt).map(|_| uint_lattice(ctx, t)).collect();
                ctx.emit(Case::new(9).kind(k).arg(tb(t)).arg(us(t)).list(l));
            }
        }
        ctx.emit(Case::new(33).arg(8).val(make_val(k, 0, &[], 0, false)));
        ctx.emit(Case::new(33).arg(64).val(make_val(k, 0, &[], 1, true)));
    }
    // exhaustive u8 (and u16 in thorough) into every kind and back
    for k in 0..NKINDS {
        for x in 0..256u128 {
            ctx.emit(Case::new(8).kind(k).arg(8).arg(x));
        }
        if ctx.thorough && [0u8, 4, 5, 8, 11, 13, KD, KA].contains(&k) {
            for x in 0..65536u128 {
                ctx.emit(Case::new(8).kind(k).arg(16).arg(x));
            }
        } else {
            for x in (0..65536u128).step_by(97) {
                ctx.emit(Case::new(8).kind(k).arg(16).arg(x));
            }
        }
    }
    for x in [0u128, 1, 2, 255, 256, u64::MAX as u128, u128::MAX] {
        for t in [1u128, 8, 16, 32, 64, 128, 65] {
            let m: u128 = match t { 1 => 1, 8 => 0xff, 16 => 0xffff, 32 => 0xffff_ffff, 128 => u128::MAX, _ => u64::MAX as u128 };
            ctx.emit(Case::new(97).arg(x & m).arg(t));
        }
    }
}

fn gen_c12(ctx: &mut Ctx) {
    ctx.allow_huge.set(true);
    let pp = ctx.scale(14, 140);
    for ks in 0..NKINDS {
        for kt in 0..NKINDS {
            for _ in 0..pp {
                let a = if ctx.rng.chance(1, 3) {
                    // exactly at / just beyond the target capacity
                    let cap = kind_cap_or(kt, 300);
                    let len = (cap + ctx.rng.below(3) as usize).saturating_sub(1).min(kind_cap_or(ks, 100000));
                    val_of_len(ctx, ks, len)
                } else {
                    rand_val(ctx, ks)
                };
                ctx.emit(Case::new(11).kind(kt).form(ctx.rng.below(2) as u32).val(a));
            }
        }
        for _ in 0..pp * 4 {
            let a = rand_val(ctx, ks);
            ctx.emit(Case::new(12).val(a));
        }
    }
    slice_rechunk_cases(ctx);
}

fn slice_rechunk_cases(ctx: &mut Ctx) {
    for w in [8u128, 16, 32, 64, 128] {
        for j in [8u128, 16, 32, 64, 128] {
            for n in 0..5usize {
                let max: u128 = if w == 128 { u128::MAX } else { (1u128 << w) - 1 };
                let d: Vec<u128> = (0..n).map(|_| (((ctx.rng.next() as u128) << 64) | ctx.rng.next() as u128) & max).collect();
                for idx in 0..(n as u128 * 16 + 2).min(40) {
                    ctx.emit(Case::new(95).arg(w).arg(j).arg(idx).list(d.clone()));
                    let jm: u128 = if j == 128 { u128::MAX } else { (1u128 << j) - 1 };
                    let v = (((ctx.rng.next() as u128) << 64) | ctx.rng.next() as u128) & jm;
                    ctx.emit(Case::new(96).arg(w).arg(j).arg(idx).arg(v).list(d.clone()));
                }
            }
        }
    }
}

/// write() into sinks that fill up: room for exactly / one less / one more than / half of / none of the
/// ceil(len/8) bytes, every number of bytes per call, the harness's own sink and std's `&mut [u8]` and Cursor
fn sink_cases(ctx: &mut Ctx, a: &Val, all: bool) {
    let nb = ((a.len + 7) / 8) as u128;
    let caps = [nb, nb.saturating_sub(1), nb + 1, nb / 2, 0, ctx.rng.below(nb as u64 + 1) as u128, nb + 1 + ctx.rng.below(9) as u128, nb.saturating_sub(8)];
    for (i, cap) in caps.iter().enumerate() {
        if !all && i >= 3 && !ctx.rng.chance(1, 3) {
            continue;
        }
        let e = ctx.rng.below(2) as u128;
        let chunk = ctx.rng.pick(&[1u128, 2, 3, 7, 8, 9, 64, 4096, 1 << 40]);
        let f0 = if ctx.rng.chance(1, 3) { 3 } else { 0 };
        ctx.emit(Case::new(38).form(f0).arg(e).arg(*cap).arg(chunk).val(a.clone()));
        let f = 1 + ctx.rng.below(2) as u32;
        ctx.emit(Case::new(38).form(f).arg(e).arg(*cap).arg(1 << 40).val(a.clone()));
    }
}

fn gen_c13(ctx: &mut Ctx) {
    // serialisation of vectors longer than any internal buffer (4 KiB = 32768 bits), both byte orders, every residue class
    // of the length modulo 64 that matters (0, 1, 4, 56, 57, 63)
    for k in [KD, KA] {
        for len in [32768usize, 32769, 33000, 40001, 40004, 40056, 40057, 40063, 65600] {
            let l = rand_limbs(ctx, len);
            let a = make_val(k, len, &l, ctx.rng.below(2) as usize, true);
            for e in [0u128, 1] {
                ctx.emit(Case::new(22).arg(e).val(a.clone()));
                ctx.emit(Case::new(23).arg(e).arg(0).val(a.clone()));
            }
            if len == 32769 || len == 40057 {
                sink_cases(ctx, &a, false);
            }
        }
    }
    // short vectors in large allocations (with_capacity / truncate leave them): the number of storage words exceeds
    // what the length needs by more than any stack buffer
    for k in [KD, KA] {
        for spare in [7usize, 8, 9, 15, 16, 17, 64, 127, 128, 129, 513] {
            for len in [0usize, 1, 20, 63, 64, 65, 129, 200, 512, 1000] {
                let l = rand_limbs(ctx, len);
                let a = make_val(k, len, &l, spare, true);
                for e in [0u128, 1] {
                    ctx.emit(Case::new(22).arg(e).val(a.clone()));
                    ctx.emit(Case::new(23).arg(e).arg(ctx.rng.below(4) as u128).val(a.clone()));
                }
                if spare % 8 == 1 {
                    sink_cases(ctx, &a, false);
                }
            }
        }
    }
    let n = ctx.scale(100, 1000);
    for k in 0..NKINDS {
        for i in 0..n {
            let a = rand_val(ctx, k);
            if i % 4 == 0 {
                sink_cases(ctx, &a, i % 16 == 0);
            }
            ctx.emit(Case::new(22).arg(ctx.rng.below(2) as u128).val(a.clone()));
            ctx.emit(Case::new(23).arg(ctx.rng.below(2) as u128).arg(ctx.rng.below(4) as u128).val(a));
            // from_bytes: around capacity
            let capb = kind_cap_or(k, 320) / 8;
            let nb = if ctx.rng.chance(1, 5) { capb + 1 + ctx.rng.below(2) as usize } else { ctx.rng.below(capb as u64 + 1) as usize };
            let bytes: Vec<u128> = (0..nb).map(|_| if ctx.rng.chance(1, 4) { 0xff } else { ctx.rng.below(256) as u128 }).collect();
            ctx.emit(Case::new(6).kind(k).arg(ctx.rng.below(2) as u128).list(bytes));
            // read: lengths not multiple of 8, surplus bits set, short and long readers
            let len = match ctx.rng.below(8) {
                0 => kind_cap_or(k, 300) + 1 + ctx.rng.below(9) as usize,
                _ => rand_len(ctx, k),
            };
            let need = (len + 7) / 8;
            let have = match ctx.rng.below(6) {
                0 => need.saturating_sub(1 + ctx.rng.below(2) as usize),
                1 => need + 1 + ctx.rng.below(3) as usize,
                _ => need,
            };
            let rd: Vec<u128> = (0..have).map(|_| if ctx.rng.chance(1, 2) { 0xff } else { ctx.rng.below(256) as u128 }).collect();
            ctx.emit(Case::new(7).kind(k).arg(len as u128).arg(ctx.rng.below(2) as u128).arg(ctx.rng.below(4) as u128).list(rd));
        }
    }
}

fn big_mul_add(l: &mut Vec<u64>, m: u64, a: u64) {
    let mut carry = a as u128;
    for x in l.iter_mut() {
        let t = (*x as u128) * (m as u128) + carry;
        *x = t as u64;
        carry = t >> 64;
    }
    if carry != 0 {
        l.push(carry as u64);
    }
}

/// values whose decimal expansion has structure: powers of ten and their neighbours, 19-digit groups
/// (the chunk a u64 holds) that are zero, one, all nines or 10^18, up to `maxbits` bits
fn decimal_structured(ctx: &mut Ctx, maxbits: usize) -> Vec<Vec<u64>> {
    const P19: u64 = 10_000_000_000_000_000_000;
    let mut out: Vec<Vec<u64>> = vec![];
    let groups = maxbits / 63 + 1;
    for _ in 0..(if ctx.thorough { 60 } else { 14 }) {
        let g = 1 + ctx.rng.below(groups as u64) as usize;
        let mut v: Vec<u64> = vec![0];
        for i in 0..g {
            let d = match ctx.rng.below(7) {
                0 | 1 => 0,
                2 => 1,
                3 => P19 - 1,
                4 => P19 / 10,
                5 => ctx.rng.below(1000),
                _ => ctx.rng.below(P19),
            };
            let d = if i == 0 && d == 0 { 1 + ctx.rng.below(9) } else { d };
            big_mul_add(&mut v, P19, d);
        }
        out.push(v);
    }
    let k = ctx.rng.below(((maxbits as u64) * 3 / 10).max(1)) as usize;
    let mut v: Vec<u64> = vec![1];
    for _ in 0..k {
        big_mul_add(&mut v, 10, 0);
    }
    out.push(v.clone());
    let mut w = v.clone();
    big_mul_add(&mut w, 1, 1);
    out.push(w);
    // 10^k - 1
    let mut w = v;
    for x in w.iter_mut() {
        let (y, b) = x.overflowing_sub(1);
        *x = y;
        if !b { break; }
    }
    out.push(w);
    out.retain(|v| sig_bits(v) <= maxbits);
    out
}

fn decimal_cases(ctx: &mut Ctx) {
    let maxlen = if ctx.thorough { 1100 } else { 450 };
    for k in 0..NKINDS {
        let cap = kind_cap_or(k, maxlen).min(maxlen);
        for v in decimal_structured(ctx, cap) {
            let sb = sig_bits(&v);
            let len = (sb + ctx.rng.below(3) as usize).min(cap);
            if len > 200 && len <= 300 && !ctx.rng.chance(1, 8) {
                continue; // the band where the model is consulted and slow
            }
            let a = make_val(k, len, &v, ctx.rng.below(2) as usize, ctx.rng.chance(1, 3));
            let sp = ctx.rng.pick(&FMT_SPECS);
            let mut c = Case::new(31).arg(0);
            for x in sp { c = c.arg(x); }
            ctx.emit(c.val(a.clone()));
            ctx.emit(Case::new(31).arg(0).arg(0).arg(0).arg(0).arg(0).arg(32).arg(0).val(a));
        }
    }
}

/// lengths at which 2^len barely exceeds a power of ten (an estimate of the number of decimal digits from the bit length
/// is most likely to be one short exactly there), with the largest values
fn digit_count_boundary_cases(ctx: &mut Ctx) {
    // (the crate's own decimal conversion is cubic in the length too: the longest only in the thorough tier)
    let lens: &[usize] = if ctx.thorough { &[10, 20, 30, 93, 103, 113, 196, 299, 392, 485, 578, 681, 877, 970, 1073, 1166, 1269, 1362] } else { &[10, 20, 30, 93, 103, 196, 299, 485, 681, 877] };
    for k in [KD, KA, 20, 22, 16] {
        for &len in lens {
            // the model's decimal conversion is cubic in the length: the long ones only once in the quick tier
            if len > kind_cap_or(k, 100000) || (!ctx.thorough && len > 700 && k != KD) {
                continue;
            }
            let words = (len + 63) / 64;
            let mut almost = vec![u64::MAX; words];
            almost[0] = u64::MAX - ctx.rng.below(1000);
            for (j, v) in [vec![u64::MAX; words], almost].into_iter().enumerate() {
                ctx.emit(Case::new(31).arg(0).arg(0).arg(0).arg(0).arg(0).arg(32).arg(0).val(make_val(k, len, &v, 0, true)));
            }
        }
    }
}

fn gen_c14(ctx: &mut Ctx) {
    digit_count_boundary_cases(ctx);
    decimal_cases(ctx);
    zero_word_cases(ctx);
    let n = ctx.scale(12, 120);
    for k in 0..NKINDS {
        for which in 0..5u128 {
            for sp in FMT_SPECS {
                for _ in 0..n {
                    // values with zero top nibble / octal group, value 0, empty
                    let a = match ctx.rng.below(6) {
                        0 => make_val(k, 0, &[], 0, false),
                        1 => {
                            let len = rand_len(ctx, k);
                            make_val(k, len, &[0], 0, false)
                        }
                        2 => {
                            let len = rand_len(ctx, k);
                            let mut limbs = rand_limbs(ctx, len);
                            let keep = len.saturating_sub(1 + ctx.rng.below(5) as usize);
                            limbs_mask(&mut limbs, keep);
                            make_val(k, len, &limbs, 0, ctx.rng.chance(1, 3))
                        }
                        _ => rand_val(ctx, k),
                    };
                    // decimal formatting of long vectors is quadratic in the model: cap the length
                    if which == 0 && (a.len > 200 && a.len <= 300 || a.len > (if ctx.thorough { 1100 } else { 520 })) {
                        continue;
                    }
                    let mut c = Case::new(31).arg(which);
                    for x in sp {
                        c = c.arg(x);
                    }
                    ctx.emit(c.val(a));
                }
            }
        }
    }
}

fn gen_c15(ctx: &mut Ctx) {
    let n = ctx.scale(150, 1500);
    let bad: [u128; 18] = [0x32, 0x20, 0x2f, 0x3a, 0x67, 0x47, 0x60, 0x40, 0xe9, 0x20ac, 0x1f600, 0x660, 0x2b, 0x2d, 0x5f, 0x2e, 0x78, 0x0];
    for k in 0..NKINDS {
        for _ in 0..n {
            let hex = ctx.rng.chance(1, 2);
            let unit = if hex { 4 } else { 1 };
            let capc = kind_cap_or(k, 300) / unit;
            let nch = match ctx.rng.below(8) {
                0 => capc + 1 + ctx.rng.below(2) as usize,
                1 => capc,
                2 => 0,
                _ => ctx.rng.below(capc as u64 + 1) as usize,
            };
            let mut s: Vec<u128> = (0..nch)
                .map(|_| {
                    if hex {
                        let d = ctx.rng.below(22);
                        (if d < 10 { 48 + d } else if d < 16 { 87 + d } else { 55 + d - 6 }) as u128
                    } else {
                        48 + ctx.rng.below(2) as u128
                    }
                })
                .collect();
            // the malformed stream: one or two offending characters
            if nch > 0 && ctx.rng.chance(1, 4) {
                let i = match ctx.rng.below(3) { 0 => 0, 1 => nch - 1, _ => ctx.rng.below(nch as u64) as usize };
                s[i] = ctx.rng.pick(&bad);
                if hex && s[i] == 0x32 { s[i] = 0x67; }
                if ctx.rng.chance(1, 3) {
                    let j = ctx.rng.below(nch as u64) as usize;
                    s[j] = if hex { 0x67 } else { 0x32 };
                }
            }
            ctx.emit(Case::new(if hex { 5 } else { 4 }).kind(k).list(s));
        }
    }
    // one offending character (sign, separator, prefix letter) at every position of strings long enough to be
    // processed in groups (8, 16, 32 or 64 characters at a time)
    for k in [KD, KA, 11, 16, 17] {
        for hex in [false, true] {
            let unit = if hex { 4 } else { 1 };
            let lens: &[usize] = if hex { &[16, 17, 32, 33, 48] } else { &[64, 65, 128, 130] };
            for &nch in lens {
                if nch * unit > kind_cap_or(k, 100000) {
                    continue;
                }
                let step = if ctx.thorough || hex { 1 } else { 3 };
                for i in (0..nch).step_by(step).chain([nch - 1, nch - 16.min(nch), nch - 8.min(nch)]) {
                    let mut s: Vec<u128> = (0..nch).map(|_| if hex { 48 + ctx.rng.below(10) as u128 } else { 48 + ctx.rng.below(2) as u128 }).collect();
                    s[i] = ctx.rng.pick(&[0x2bu128, 0x2d, 0x2b, 0x5f, 0x20]);
                    ctx.emit(Case::new(if hex { 5 } else { 4 }).kind(k).list(s));
                }
            }
        }
    }
    // code points whose low byte (or low 16 bits) is a valid digit: truncating casts must not accept them
    for k in 0..NKINDS {
        for hex in [false, true] {
            let digits: &[u128] = if hex { &[0x30, 0x31, 0x39, 0x41, 0x46, 0x61, 0x66] } else { &[0x30, 0x31] };
            for &d in digits {
                for off in [0x100u128, 0x200, 0x400, 0x600, 0x630 - 0x30, 0xff00 - 0x20 + 0x20, 0x1_0000, 0x1_f600, 0x2_0000, 0x10_0000, 0x80] {
                    let cp = d + off;
                    if (0xd800..0xe000).contains(&cp) || cp > 0x10ffff {
                        continue;
                    }
                    let unit = if hex { 4 } else { 1 };
                    let nch = (1 + ctx.rng.below(6) as usize).min(kind_cap(k).max(if kind_is_fixed(k) { 0 } else { 64 }) / unit).max(1);
                    let mut s: Vec<u128> = (0..nch).map(|_| 48 + ctx.rng.below(2) as u128).collect();
                    let i = ctx.rng.below(nch as u64) as usize;
                    s[i] = cp;
                    ctx.emit(Case::new(if hex { 5 } else { 4 }).kind(k).list(s));
                }
            }
        }
    }
    // Bv around the inline limit measured in chars and in bytes
    for nch in [31usize, 32, 33, 127, 128, 129] {
        for bad_at in [None, Some(0usize), Some(nch - 1)] {
            for hex in [false, true] {
                let mut s: Vec<u128> = (0..nch).map(|_| 48 + ctx.rng.below(2) as u128).collect();
                if let Some(i) = bad_at {
                    s[i] = 0x20ac;
                }
                ctx.emit(Case::new(if hex { 5 } else { 4 }).kind(KA).list(s));
            }
        }
    }
}

fn gen_c16(ctx: &mut Ctx) {
    // run lengths beyond 2^32 on a vector of 2^32 + 8 bits (harness-only oracle, op 99)
    ctx.emit(Case::new(99).arg(1).arg(14));
    ctx.emit(Case::new(99).arg(1).arg(15));
    ctor_cases(ctx);
    let n = ctx.scale(30, 300);
    for k in 0..NKINDS {
        for len in boundary_lens(k, ctx.thorough) {
            let lat = lattice(len, &ctx.rng);
            let keep = if len > 260 && !ctx.thorough { 24 } else { lat.len() };
            for limbs in lat.into_iter().take(keep) {
                let a = make_val(k, len, &limbs, ctx.rng.below(3) as usize, ctx.rng.chance(1, 3));
                for which in 0..4u128 {
                    ctx.emit(Case::new(27).arg(which).val(a.clone()));
                }
                ctx.emit(Case::new(28).val(a.clone()));
                ctx.emit(Case::new(29).val(a));
            }
        }
        for _ in 0..n {
            let a = rand_val(ctx, k);
            ctx.emit(Case::new(27).arg(ctx.rng.below(4) as u128).val(a.clone()));
            ctx.emit(Case::new(28).val(a));
        }
    }
}

fn gen_c17(ctx: &mut Ctx) {
    // iterators over a vector of 2^32 + 8 bits against a range iterator (harness-only oracle, op 99)
    ctx.emit(Case::new(99).arg(1).arg(14));
    ctx.emit(Case::new(99).arg(1).arg(15));
    let n = ctx.scale(500, 5000);
    for k in 0..NKINDS {
        for _ in 0..n {
            let a = if ctx.rng.chance(1, 2) { let l = ctx.rng.below(12) as usize; val_of_len(ctx, k, l.min(kind_cap_or(k, 99))) } else { rand_val(ctx, k) };
            let c = iter_case(ctx, &a);
            ctx.emit(c);
        }
    }
}

fn gen_c18(ctx: &mut Ctx) {
    extend_understated_cases(ctx);
    ctor_cases(ctx);
    let n = ctx.scale(2000, 12000);
    histories(ctx, n, 12, true, &[KD, KA, KD, KA, 8, 2]);
    for k in [KD, KA, 0, 8] {
        for c in [0u128, 1, 63, 64, 65, 127, 128, 129, 192, 193, 1000] {
            ctx.emit(Case::new(3).kind(k).arg(c));
        }
    }
    let m = ctx.scale(300, 3000);
    for _ in 0..m {
        let k = ctx.rng.pick(&[KD, KA]);
        let a = rand_val(ctx, k);
        ctx.emit(Case::new(56).arg(ctx.rng.pick(&[0u128, 1, 63, 64, 65, 127, 128, 129, 500])).val(a.clone()));
        ctx.emit(Case::new(57).val(a.clone()));
        ctx.emit(Case::new(20).val(a.clone()));
        // capacity bookkeeping of collect / extend under every kind of size hint
        let g = ctx.rng.pick(&[0usize, 1, 63, 64, 65, 128, 129, 200]);
        let bits = rand_bits(ctx, g);
        let c = hint_args(ctx, Case::new(58), g);
        ctx.emit(c.val(a).list(bits.clone()));
        let c = hint_args(ctx, Case::new(10).kind(k), g);
        ctx.emit(c.list(bits));
    }
}

fn gen_c19(ctx: &mut Ctx) {
    zero_word_cases(ctx);
    for k in fixed_kinds() {
        let cap = kind_cap(k);
        let w = kind_w(k);
        for c in [cap - 1, cap, cap + 1, cap + w, 2 * cap + 3] {
            ctx.emit(Case::new(1).kind(k).arg(c as u128));
            ctx.emit(Case::new(2).kind(k).arg(c as u128));
            ctx.emit(Case::new(13).kind(k).arg(1).arg(c as u128));
        }
        let reps = ctx.scale(6, 40);
        for _ in 0..reps {
            for len in [cap.saturating_sub(w), cap - 1, cap] {
                for grow in [0usize, 1, 2, w, w + 1] {
                    let a = val_of_len(ctx, k, len);
                    let b = ctx.rng.below(2) as u128;
                    if grow == 1 {
                        ctx.emit(Case::new(41).arg(b).val(a.clone()));
                    }
                    ctx.emit(Case::new(43).arg((len + grow) as u128).arg(b).val(a.clone()));
                    ctx.emit(Case::new(45).arg((len + grow) as u128).val(a.clone()));
                    let kb = rand_kind(ctx);
                    if grow <= kind_cap_or(kb, 9999) {
                        let s = val_of_len(ctx, kb, grow);
                        ctx.emit(Case::new(46).val(a.clone()).val(s.clone()));
                        ctx.emit(Case::new(47).val(a.clone()).val(s.clone()));
                        ctx.emit(Case::new(48).arg(ctx.rng.below(len as u64 + 1) as u128).val(a.clone()).val(s));
                    }
                    let bits = rand_bits(ctx, grow);
                    { let c = hint_args(ctx, Case::new(58), grow); ctx.emit(c.val(a.clone()).list(bits)); }
                    let bits = rand_bits(ctx, len + grow);
                    { let c = hint_args(ctx, Case::new(10).kind(k), len + grow); ctx.emit(c.list(bits)); }
                    // out-of-range indices
                    ctx.emit(Case::new(24).arg((len + grow) as u128).val(a.clone()));
                    ctx.emit(Case::new(40).arg((len + grow) as u128).arg(b).val(a.clone()));
                    ctx.emit(Case::new(51).arg(0).arg((len + grow) as u128).val(a.clone()));
                    ctx.emit(Case::new(51).arg((len + grow) as u128).arg((len + grow) as u128).val(a.clone()));
                    ctx.emit(Case::new(49).arg((len + grow) as u128).val(a));
                }
            }
            // constructors from data beyond the capacity
            let nb = cap / 8 + ctx.rng.below(3) as usize;
            let bytes: Vec<u128> = (0..nb).map(|_| ctx.rng.below(256) as u128).collect();
            ctx.emit(Case::new(6).kind(k).arg(ctx.rng.below(2) as u128).list(bytes.clone()));
            ctx.emit(Case::new(7).kind(k).arg((cap + ctx.rng.below(3) as usize) as u128).arg(0).arg(ctx.rng.below(4) as u128).list(bytes));
            let s: Vec<u128> = (0..cap + ctx.rng.below(3) as usize).map(|_| 48 + ctx.rng.below(2) as u128).collect();
            ctx.emit(Case::new(4).kind(k).list(s));
            let s: Vec<u128> = (0..cap / 4 + ctx.rng.below(3) as usize).map(|_| 48 + ctx.rng.below(10) as u128).collect();
            ctx.emit(Case::new(5).kind(k).list(s));
            let ks = rand_kind(ctx);
            let len = (cap + ctx.rng.below(3) as usize).min(kind_cap_or(ks, 99999));
            let a = val_of_len(ctx, ks, len);
            ctx.emit(Case::new(11).kind(k).val(a));
            for t in UINT_TYPES {
                let x = uint_lattice(ctx, t);
                ctx.emit(Case::new(8).kind(k).arg(tb(t)).arg(x).arg(us(t)));
            }
        }
    }
}

fn gen_c20(ctx: &mut Ctx) {
    small_word_arith_cases(ctx, &[66, 67, 68, 68, 63, 64, 65]);
    wide_native_on_short(ctx, &[63, 64, 65, 66, 67, 68, 69, 70]);
    wide_shift_amounts(ctx);
    let na = ctx.scale(6, 60);
    alias_cases(ctx, &[63, 64, 65, 66, 67, 68, 69, 70], na);
    // every operator x every form for every pairing of storage classes (fixed narrow / fixed wide /
    // heap / auto inline / auto heap), so that each delegating impl is executed at least once
    let classes: [(u8, bool); 6] = [(0, false), (4, false), (8, false), (KD, false), (KA, false), (KA, true)];
    for (ka, da) in classes {
        for (kb, db) in classes {
            for op in 63..=70u32 {
                for form in 0..6u32 {
                    let la = rand_len(ctx, ka).max(1);
                    let la = if ka == KA && da { la.max(3) } else { la };
                    let limbs = rand_limbs(ctx, la);
                    let a = make_val(ka, la, &limbs, (da as usize) * 2, da);
                    let lb = rand_len(ctx, kb).max(1);
                    let mut lb_limbs = rand_limbs(ctx, lb);
                    if lb_limbs.iter().all(|x| *x == 0) {
                        lb_limbs[0] = 3;
                    }
                    let b = make_val(kb, lb, &lb_limbs, (db as usize) * 2, db);
                    ctx.emit(Case::new(op).form(form).val(a).val(b));
                }
            }
        }
    }
    // every form of every operator on the same operands
    let pp = ctx.scale(2, 20);
    for ka in 0..NKINDS {
        for kb in 0..NKINDS {
            for _ in 0..pp {
                let a = rand_val(ctx, ka);
                let mut b = rand_val(ctx, kb);
                if ctx.rng.chance(1, 2) {
                    let lb = b.len;
                    b = make_val(kb, lb, &[ctx.rng.below(1000) + 1], 0, false);
                }
                let op = 63 + ctx.rng.below(8) as u32;
                for form in 0..6 {
                    ctx.emit(Case::new(op).form(form).val(a.clone()).val(b.clone()));
                }
            }
        }
    }
    let pk = ctx.scale(6, 60);
    for ka in 0..NKINDS {
        for t in UINT_TYPES {
            for _ in 0..pk {
                let a = rand_val(ctx, ka);
                let x = uint_lattice(ctx, t);
                let op = 63 + ctx.rng.below(8) as u32;
                for form in 0..6 {
                    ctx.emit(Case::new(op).form(form).arg(tb(t)).arg(x).arg(us(t)).val(a.clone()));
                }
                // the same operation with a vector built from x
                let b = ctx.emit(Case::new(8).kind(if kind_is_fixed(ka) { 8 } else { ka }).arg(tb(t)).arg(x).arg(us(t)));
                if let Some(bv) = first_vec(&b) {
                    ctx.emit(Case::new(op).form(3).val(a.clone()).val(bv));
                }
                let k = shift_amounts(ctx, t, a.len);
                let sop = 61 + ctx.rng.below(2) as u32;
                for form in 0..6 {
                    ctx.emit(Case::new(sop).form(form).arg(tb(t)).arg(k).arg(us(t)).val(a.clone()));
                }
                ctx.emit(Case::new(60).form(0).val(a.clone()));
                ctx.emit(Case::new(60).form(2).val(a));
            }
        }
    }
}

pub fn generate(ctx: &mut Ctx, prop: &str) {
    match prop {
        "C01" => gen_c01(ctx),
        "C02" => gen_c02(ctx),
        "C03" => gen_c03(ctx),
        "C04" => gen_c04(ctx),
        "C05" => gen_c05(ctx),
        "C06" => gen_c06(ctx),
        "C07" => gen_c07(ctx),
        "C08" => gen_c08(ctx),
        "C09" => gen_c09(ctx),
        "C10" => gen_c10(ctx),
        "C11" => gen_c11(ctx),
        "C12" => gen_c12(ctx),
        "C13" => gen_c13(ctx),
        "C14" => gen_c14(ctx),
        "C15" => gen_c15(ctx),
        "C16" => gen_c16(ctx),
        "C17" => gen_c17(ctx),
        "C18" => gen_c18(ctx),
        "C19" => gen_c19(ctx),
        "C20" => gen_c20(ctx),
        _ => panic!("unknown property {}", prop),
    }
}
