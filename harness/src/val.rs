//! Raw values, cases, results and their one-line text encoding (shared with Model/Run.v).

#[derive(Clone, Debug, PartialEq, Eq, Hash)]
pub struct Val {
    pub kid: u8,          // kind id, see kinds.rs
    pub afix: bool,       // for Bv: stored inline (Bv::Fixed)
    pub len: usize,
    pub words: Vec<u128>, // storage words, least significant first
}

#[derive(Clone, Debug, PartialEq, Eq)]
pub enum Item {
    V(Val),
    N(u128),
    L(Vec<u128>),
}

#[derive(Clone, Debug, PartialEq, Eq)]
pub enum Res {
    Ok(Vec<Item>),
    Panic,
    Err(u8, u128), // 2 ECap, 3 EFmt(i), 4 EEof, 5 EInvalidInput, 6 EInvalidData, >= 9 harness oracle failures
}

#[derive(Clone, Debug, PartialEq, Eq)]
pub struct Case {
    pub op: u32,
    pub form: u32,
    pub kind: u8, // target kind of constructors / conversions (kind id), 255 = none
    pub args: Vec<u128>,
    pub vals: Vec<Val>,
    pub lists: Vec<Vec<u128>>,
}

impl Case {
    pub fn new(op: u32) -> Case {
        Case { op, form: 0, kind: 255, args: vec![], vals: vec![], lists: vec![] }
    }
    pub fn kind(mut self, k: u8) -> Case {
        self.kind = k;
        self
    }
    pub fn form(mut self, f: u32) -> Case {
        self.form = f;
        self
    }
    pub fn arg(mut self, a: u128) -> Case {
        self.args.push(a);
        self
    }
    pub fn val(mut self, v: Val) -> Case {
        self.vals.push(v);
        self
    }
    pub fn list(mut self, l: Vec<u128>) -> Case {
        self.lists.push(l);
        self
    }
    pub fn a(&self, i: usize) -> u128 {
        self.args.get(i).copied().unwrap_or(0)
    }
    pub fn l(&self, i: usize) -> &[u128] {
        self.lists.get(i).map(|v| &v[..]).unwrap_or(&[])
    }
}

pub fn kind_desc(kid: u8) -> (u8, u32, u32) {
    // (tag 0 F / 1 D / 2 A, word bits, word count)
    match kid {
        0 => (0, 8, 1),
        1 => (0, 8, 2),
        2 => (0, 8, 3),
        3 => (0, 16, 1),
        4 => (0, 16, 2),
        5 => (0, 32, 1),
        6 => (0, 32, 3),
        7 => (0, 64, 1),
        8 => (0, 64, 2),
        9 => (0, 64, 3),
        10 => (0, 128, 1),
        11 => (0, 128, 2),
        12 => (0, 64, 1), // usize
        13 => (0, 64, 2), // usize
        14 => (1, 64, 0),
        15 => (2, 64, 0),
        16 => (0, 128, 3),
        17 => (0, 64, 5),
        18 => (0, 16, 4),
        19 => (0, 64, 4), // Bv256
        20 => (0, 64, 8), // Bv512
        21 => (0, 8, 9),
        22 => (0, 64, 40), // wider than any alias: 2560 bits
        23 => (0, 16, 7),
        24 => (0, 8, 11),
        25 => (0, 8, 300), // more than 255 words
        _ => (0, 8, 0), // 26: the degenerate zero-word type Bvf<u8,0>, only in dedicated cases
    }
}

pub const NKINDS: u8 = 26;
pub const KD: u8 = 14;
pub const KA: u8 = 15;

pub fn kind_is_fixed(kid: u8) -> bool {
    kid < 14 || kid >= 16
}
pub const KZ: u8 = 26; // Bvf<u8,0>
pub fn fixed_kinds() -> Vec<u8> {
    (0..NKINDS).filter(|k| kind_is_fixed(*k)).collect()
}
pub fn kind_cap(kid: u8) -> usize {
    let (_, w, n) = kind_desc(kid);
    (w * n) as usize
}
pub fn kind_w(kid: u8) -> usize {
    kind_desc(kid).1 as usize
}

fn enc_val(v: &Val, out: &mut String) {
    use std::fmt::Write;
    let (tag, w, _) = kind_desc(v.kid);
    let t = match tag {
        0 => 0,
        1 => 1,
        _ => {
            if v.afix {
                2
            } else {
                3
            }
        }
    };
    write!(out, "1 {:x} {:x} {:x}", t, w, v.len).unwrap();
    for x in &v.words {
        write!(out, " {:x}", x).unwrap();
    }
}

pub fn enc_case(c: &Case, profile: u32) -> String {
    use std::fmt::Write;
    let mut s = String::new();
    write!(s, "0 {:x} {:x} {:x}", c.op, c.form, profile).unwrap();
    // harness-only field 6: kind ids of the operands (the model ignores unknown tags)
    write!(s, " | 6 {:x}", c.kind).unwrap();
    for v in &c.vals {
        write!(s, " {:x}", v.kid).unwrap();
    }
    if c.kind != 255 {
        let (tag, w, n) = kind_desc(c.kind);
        write!(s, " | 4 {:x} {:x} {:x}", tag, w, n).unwrap();
    }
    if !c.args.is_empty() {
        s.push_str(" | 2");
        for a in &c.args {
            write!(s, " {:x}", a).unwrap();
        }
    }
    for v in &c.vals {
        s.push_str(" | ");
        enc_val(v, &mut s);
    }
    for l in &c.lists {
        s.push_str(" | 3");
        for x in l {
            write!(s, " {:x}", x).unwrap();
        }
    }
    s
}

pub fn enc_res(r: &Res) -> String {
    use std::fmt::Write;
    let mut s = String::new();
    match r {
        Res::Panic => s.push_str("5 1"),
        Res::Err(code, arg) => write!(s, "5 {:x} {:x}", code, arg).unwrap(),
        Res::Ok(items) => {
            s.push_str("5 0");
            for it in items {
                s.push_str(" | ");
                match it {
                    Item::V(v) => enc_val(v, &mut s),
                    Item::N(n) => write!(s, "2 {:x}", n).unwrap(),
                    Item::L(l) => {
                        s.push('3');
                        for x in l {
                            write!(s, " {:x}", x).unwrap();
                        }
                    }
                }
            }
        }
    }
    s
}

fn parse_nums(f: &str) -> Vec<u128> {
    f.split_whitespace().map(|t| u128::from_str_radix(t, 16).expect("hex")).collect()
}

/// Parse the input side of a trace line back into a case (for replay).
pub fn dec_case(line: &str) -> (Case, u32) {
    let input = line.split('>').next().unwrap();
    let mut c = Case::new(0);
    let mut profile = 0;
    let mut kids: Vec<u8> = vec![];
    let mut vi = 0;
    for f in input.split('|') {
        let n = parse_nums(f);
        if n.is_empty() {
            continue;
        }
        match n[0] {
            0 => {
                c.op = n[1] as u32;
                c.form = n[2] as u32;
                profile = n[3] as u32;
            }
            6 => {
                c.kind = n[1] as u8;
                kids = n[2..].iter().map(|x| *x as u8).collect();
            }
            2 => c.args = n[1..].to_vec(),
            1 => {
                let kid = kids[vi];
                vi += 1;
                c.vals.push(Val { kid, afix: n[1] == 2, len: n[3] as usize, words: n[4..].to_vec() });
            }
            3 => c.lists.push(n[1..].to_vec()),
            _ => {}
        }
    }
    (c, profile)
}
