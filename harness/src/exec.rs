//! Executes one case against the real crate and reports what was observed.

use crate::kinds::Raw;
use crate::val::*;
use crate::with_kind;
use bva::{Bit, BitVector, Bv, Bvd, Bvf, ConvertionError, Endianness};
use std::convert::Infallible;
use std::hash::{Hash, Hasher};
use std::panic::{catch_unwind, AssertUnwindSafe};

thread_local! {
    static POST_PANIC_BAD: std::cell::Cell<bool> = std::cell::Cell::new(false);
}

/// Looks at the subject of an in-place operation while a panic unwinds through it: a refused growth must not
/// leave the vector with len > capacity (C19: "never ends up with len > capacity").
struct PanicWatch<A: BitVector>(*const A);
impl<A: BitVector> Drop for PanicWatch<A> {
    fn drop(&mut self) {
        if std::thread::panicking() {
            // the pointee is a local of the frame being unwound, declared before the watch: still alive here
            let a = unsafe { &*self.0 };
            if a.len() > a.capacity() {
                POST_PANIC_BAD.with(|f| f.set(true));
            }
        }
    }
}

pub fn exec(c: &Case) -> Res {
    POST_PANIC_BAD.with(|f| f.set(false));
    match catch_unwind(AssertUnwindSafe(|| exec_inner(c))) {
        Ok(r) => r,
        Err(_) => {
            if POST_PANIC_BAD.with(|f| f.get()) {
                // the operation panicked (fine) but left its subject with len > capacity
                Res::Err(16, 0)
            } else {
                Res::Panic
            }
        }
    }
}

// ---------------------------------------------------------------------------------------------

fn bit_of(x: u128) -> Bit {
    if x == 0 {
        Bit::Zero
    } else {
        Bit::One
    }
}
fn bit_n(b: Bit) -> u128 {
    match b {
        Bit::Zero => 0,
        Bit::One => 1,
    }
}
fn obit_n(b: Option<Bit>) -> u128 {
    match b {
        Some(b) => bit_n(b),
        None => 2,
    }
}
fn endian(x: u128) -> Endianness {
    if x == 0 {
        Endianness::Little
    } else {
        Endianness::Big
    }
}
fn string_of(l: &[u128]) -> String {
    l.iter().map(|c| char::from_u32(*c as u32).unwrap_or('?')).collect()
}
fn v1<T: Raw>(x: &T) -> Res {
    Res::Ok(vec![Item::V(x.to_raw())])
}
fn n1(x: u128) -> Res {
    Res::Ok(vec![Item::N(x)])
}
fn l1(l: Vec<u128>) -> Res {
    Res::Ok(vec![Item::L(l)])
}

pub trait ErrCode {
    fn code(&self) -> Res;
}
impl ErrCode for ConvertionError {
    fn code(&self) -> Res {
        match self {
            ConvertionError::NotEnoughCapacity => Res::Err(2, 0),
            ConvertionError::InvalidFormat(i) => Res::Err(3, *i as u128),
        }
    }
}
impl ErrCode for Infallible {
    fn code(&self) -> Res {
        Res::Err(99, 0)
    }
}
fn io_code(e: &std::io::Error) -> Res {
    match e.kind() {
        std::io::ErrorKind::UnexpectedEof => Res::Err(4, 0),
        std::io::ErrorKind::InvalidInput => Res::Err(5, 0),
        std::io::ErrorKind::InvalidData => Res::Err(6, 0),
        _ => Res::Err(98, 0),
    }
}

// ---------------------------------------------------------------------------------------------
// per-kind capabilities that are not part of the BitVector trait

pub trait Extra: BitVector + Raw {
    fn from_u(t: u128, us: u128, x: u128, byref: bool) -> Res;
    fn to_u(&self, t: u128, us: u128, byval: bool) -> Res;
    fn from_sl(j: u128, us: u128, l: &[u128]) -> Res;
    fn reserve_(&mut self, _k: usize) {}
    fn shrink_(&mut self) {}
    fn not_(&self, byref: bool) -> Self;
    fn shift_(&self, left: bool, t: u128, us: u128, k: u128, form: u32) -> Self;
    fn op_uint(&self, op: u32, t: u128, us: u128, x: u128, form: u32) -> Self;
    fn hash_tokens(&self) -> Vec<u128>;
    fn iter_ref(&self) -> bva::BitIterator<'_, Self>;
    fn fmt_(&self, which: u128, spec: [u128; 6]) -> Option<String>;
    // by-value conversions (the by-reference ones are generic, see pair_generic)
    fn conv_from_dyn(s: Bvd) -> Res;
    fn conv_from_auto(s: Bv) -> Res;
    fn conv_into_dyn(self) -> Res;
    fn conv_into_auto(self) -> Res;
}

/// A Hasher recording the calls it receives as (bits, value) pairs.
#[derive(Default)]
pub struct RecHasher {
    pub tokens: Vec<u128>,
}
impl Hasher for RecHasher {
    fn finish(&self) -> u64 {
        0
    }
    fn write(&mut self, bytes: &[u8]) {
        self.tokens.push(1000 + bytes.len() as u128);
        for b in bytes {
            self.tokens.push(*b as u128);
        }
    }
    fn write_u8(&mut self, i: u8) {
        self.tokens.push(8);
        self.tokens.push(i as u128);
    }
    fn write_u16(&mut self, i: u16) {
        self.tokens.push(16);
        self.tokens.push(i as u128);
    }
    fn write_u32(&mut self, i: u32) {
        self.tokens.push(32);
        self.tokens.push(i as u128);
    }
    fn write_u64(&mut self, i: u64) {
        self.tokens.push(64);
        self.tokens.push(i as u128);
    }
    fn write_u128(&mut self, i: u128) {
        self.tokens.push(128);
        self.tokens.push(i);
    }
    fn write_usize(&mut self, i: usize) {
        self.tokens.push(64);
        self.tokens.push(i as u128);
    }
}

// $t: width in bits; $us != 0 selects usize among the 64-bit types
macro_rules! uint_dispatch {
    ($t:expr, $us:expr, $x:expr, $u:ident => $e:expr) => {
        match ($t, $us) {
            (8, _) => { type $u = u8; let x = $x as u8; $e(x) }
            (16, _) => { type $u = u16; let x = $x as u16; $e(x) }
            (32, _) => { type $u = u32; let x = $x as u32; $e(x) }
            (64, 0) => { type $u = u64; let x = $x as u64; $e(x) }
            (128, _) => { type $u = u128; let x = $x as u128; $e(x) }
            _ => { type $u = usize; let x = $x as usize; $e(x) }
        }
    };
}

// form: 0 a.b  1 a.&b  2 &a.b  3 &a.&b  4 a.=b  5 a.=&b
macro_rules! forms {
    ($a:expr, $b:expr, $form:expr, $op:tt, $opa:tt) => {
        match $form {
            0 => $a.clone() $op $b.clone(),
            1 => $a.clone() $op &$b,
            2 => &$a $op $b.clone(),
            3 => &$a $op &$b,
            4 => { let mut r = $a.clone(); r $opa $b.clone(); r }
            _ => { let mut r = $a.clone(); r $opa &$b; r }
        }
    };
}

macro_rules! all_ops {
    ($a:expr, $b:expr, $op:expr, $form:expr) => {
        match $op {
            63 => forms!($a, $b, $form, &, &=),
            64 => forms!($a, $b, $form, |, |=),
            65 => forms!($a, $b, $form, ^, ^=),
            66 => forms!($a, $b, $form, +, +=),
            67 => forms!($a, $b, $form, -, -=),
            68 => forms!($a, $b, $form, *, *=),
            69 => forms!($a, $b, $form, /, /=),
            _ => forms!($a, $b, $form, %, %=),
        }
    };
}

// format-spec matrix: (plus, alt, zero, width, fill, align) -> format string, per radix
macro_rules! fmt_specs {
    ($v:expr, $spec:expr, $r:literal) => {
        match $spec {
            [0, 0, 0, 0, 32, 0] => Some(format!(concat!("{:", $r, "}"), $v)),
            [0, 1, 0, 0, 32, 0] => Some(format!(concat!("{:#", $r, "}"), $v)),
            [1, 0, 0, 0, 32, 0] => Some(format!(concat!("{:+", $r, "}"), $v)),
            [1, 1, 0, 0, 32, 0] => Some(format!(concat!("{:+#", $r, "}"), $v)),
            [0, 0, 1, 12, 32, 0] => Some(format!(concat!("{:012", $r, "}"), $v)),
            [0, 1, 1, 12, 32, 0] => Some(format!(concat!("{:#012", $r, "}"), $v)),
            [1, 1, 1, 12, 32, 0] => Some(format!(concat!("{:+#012", $r, "}"), $v)),
            [0, 0, 0, 12, 32, 0] => Some(format!(concat!("{:12", $r, "}"), $v)),
            [0, 0, 0, 12, 32, 1] => Some(format!(concat!("{:<12", $r, "}"), $v)),
            [0, 0, 0, 12, 32, 2] => Some(format!(concat!("{:^12", $r, "}"), $v)),
            [0, 0, 0, 12, 32, 3] => Some(format!(concat!("{:>12", $r, "}"), $v)),
            [0, 1, 0, 13, 42, 1] => Some(format!(concat!("{:*<#13", $r, "}"), $v)),
            [0, 1, 0, 13, 42, 2] => Some(format!(concat!("{:*^#13", $r, "}"), $v)),
            [1, 0, 0, 13, 95, 3] => Some(format!(concat!("{:_>+13", $r, "}"), $v)),
            [0, 1, 1, 13, 42, 1] => Some(format!(concat!("{:*<#013", $r, "}"), $v)),
            [0, 0, 0, 3, 32, 0] => Some(format!(concat!("{:3", $r, "}"), $v)),
            [1, 1, 1, 70, 32, 0] => Some(format!(concat!("{:+#070", $r, "}"), $v)),
            [0, 0, 0, 70, 45, 2] => Some(format!(concat!("{:-^70", $r, "}"), $v)),
            [0, 0, 1, 20, 32, 1] => Some(format!(concat!("{:<020", $r, "}"), $v)),
            [0, 0, 1, 20, 32, 2] => Some(format!(concat!("{:^020", $r, "}"), $v)),
            [1, 0, 1, 20, 32, 3] => Some(format!(concat!("{:>+020", $r, "}"), $v)),
            [1, 1, 1, 24, 42, 2] => Some(format!(concat!("{:*^+#024", $r, "}"), $v)),
            [0, 1, 1, 9, 95, 1] => Some(format!(concat!("{:_<#09", $r, "}"), $v)),
            [0, 0, 0, 0, 32, 12] => Some(format!(concat!("{:.2", $r, "}"), $v)),
            [0, 0, 0, 12, 32, 13] => Some(format!(concat!("{:12.3", $r, "}"), $v)),
            [0, 1, 0, 0, 32, 12] => Some(format!(concat!("{:#.2", $r, "}"), $v)),
            _ => None,
        }
    };
}

pub const FMT_SPECS: [[u128; 6]; 26] = [
    [0, 0, 0, 0, 32, 0],
    [0, 1, 0, 0, 32, 0],
    [1, 0, 0, 0, 32, 0],
    [1, 1, 0, 0, 32, 0],
    [0, 0, 1, 12, 32, 0],
    [0, 1, 1, 12, 32, 0],
    [1, 1, 1, 12, 32, 0],
    [0, 0, 0, 12, 32, 0],
    [0, 0, 0, 12, 32, 1],
    [0, 0, 0, 12, 32, 2],
    [0, 0, 0, 12, 32, 3],
    [0, 1, 0, 13, 42, 1],
    [0, 1, 0, 13, 42, 2],
    [1, 0, 0, 13, 95, 3],
    [0, 1, 1, 13, 42, 1],
    [0, 0, 0, 3, 32, 0],
    [1, 1, 1, 70, 32, 0],
    [0, 0, 0, 70, 45, 2],
    // the `0` flag together with an explicit alignment / fill (std ignores both under `0`)
    [0, 0, 1, 20, 32, 1],
    [0, 0, 1, 20, 32, 2],
    [1, 0, 1, 20, 32, 3],
    [1, 1, 1, 24, 42, 2],
    [0, 1, 1, 9, 95, 1],
    // a precision (`.N`), which integer formatting ignores: alignment codes 12 / 13 stand for "default alignment, with a
    // precision of 2 / 3" (the model treats any other alignment code as the default, which is what std does)
    [0, 0, 0, 0, 32, 12],
    [0, 0, 0, 12, 32, 13],
    [0, 1, 0, 0, 32, 12],
];

macro_rules! fmt_all {
    ($v:expr, $which:expr, $spec:expr) => {
        match $which {
            0 => fmt_specs!($v, $spec, ""),
            1 => fmt_specs!($v, $spec, "b"),
            2 => fmt_specs!($v, $spec, "o"),
            3 => fmt_specs!($v, $spec, "x"),
            _ => fmt_specs!($v, $spec, "X"),
        }
    };
}

pub fn fmt_u128(v: u128, which: u128, spec: [u128; 6]) -> Option<String> {
    fmt_all!(v, which, spec)
}

macro_rules! extra_common {
    () => {
        fn not_(&self, byref: bool) -> Self {
            if byref {
                !self
            } else {
                !self.clone()
            }
        }
        fn shift_(&self, left: bool, t: u128, us: u128, k: u128, form: u32) -> Self {
            let a = self;
            uint_dispatch!(t, us, k, U => |k: U| {
                if left {
                    match form {
                        0 => a.clone() << k,
                        1 => a.clone() << &k,
                        2 => a << k,
                        3 => a << &k,
                        4 => { let mut r = a.clone(); r <<= k; r }
                        _ => { let mut r = a.clone(); r <<= &k; r }
                    }
                } else {
                    match form {
                        0 => a.clone() >> k,
                        1 => a.clone() >> &k,
                        2 => a >> k,
                        3 => a >> &k,
                        4 => { let mut r = a.clone(); r >>= k; r }
                        _ => { let mut r = a.clone(); r >>= &k; r }
                    }
                }
            })
        }
        fn op_uint(&self, op: u32, t: u128, us: u128, x: u128, form: u32) -> Self {
            let a = self;
            uint_dispatch!(t, us, x, U => |x: U| all_ops!((*a), x, op, form))
        }
        fn hash_tokens(&self) -> Vec<u128> {
            let mut h = RecHasher::default();
            self.hash(&mut h);
            h.tokens
        }
        fn iter_ref(&self) -> bva::BitIterator<'_, Self> {
            self.into_iter()
        }
        fn fmt_(&self, which: u128, spec: [u128; 6]) -> Option<String> {
            fmt_all!(self, which, spec)
        }
    };
}

macro_rules! extra_fixed {
    ($i:ty, $n:expr) => {
        impl Extra for Bvf<$i, $n> {
            fn from_u(t: u128, us: u128, x: u128, byref: bool) -> Res {
                let r = uint_dispatch!(t, us, x, U => |x: U| if byref { Self::try_from(&x) } else { Self::try_from(x) });
                match r {
                    Ok(v) => v1(&v),
                    Err(e) => e.code(),
                }
            }
            fn to_u(&self, t: u128, us: u128, byval: bool) -> Res {
                let a = self;
                macro_rules! go { ($u:ty) => {
                    match if byval { <$u>::try_from(a.clone()) } else { <$u>::try_from(a) } {
                        Ok(v) => n1(v as u128),
                        Err(e) => e.code(),
                    }
                }}
                match (t, us) { (8, _) => go!(u8), (16, _) => go!(u16), (32, _) => go!(u32), (64, 0) => go!(u64), (128, _) => go!(u128), _ => go!(usize) }
            }
            fn from_sl(j: u128, us: u128, l: &[u128]) -> Res {
                macro_rules! go { ($u:ty) => {{
                    let s: Vec<$u> = l.iter().map(|x| *x as $u).collect();
                    match Self::try_from(&s[..]) { Ok(v) => v1(&v), Err(e) => e.code() }
                }}}
                match (j, us) { (8, _) => go!(u8), (16, _) => go!(u16), (32, _) => go!(u32), (64, 0) => go!(u64), (128, _) => go!(u128), _ => go!(usize) }
            }
            fn conv_from_dyn(s: Bvd) -> Res {
                match Self::try_from(s) { Ok(v) => v1(&v), Err(e) => e.code() }
            }
            fn conv_from_auto(s: Bv) -> Res {
                match Self::try_from(s) { Ok(v) => v1(&v), Err(e) => e.code() }
            }
            fn conv_into_dyn(self) -> Res {
                v1(&Bvd::from(self))
            }
            fn conv_into_auto(self) -> Res {
                v1(&Bv::from(self))
            }
            extra_common!();
        }
    };
}

extra_fixed!(u8, 1);
extra_fixed!(u8, 2);
extra_fixed!(u8, 3);
extra_fixed!(u16, 1);
extra_fixed!(u16, 2);
extra_fixed!(u32, 1);
extra_fixed!(u32, 3);
extra_fixed!(u64, 1);
extra_fixed!(u64, 2);
extra_fixed!(u64, 3);
extra_fixed!(u128, 1);
extra_fixed!(u128, 2);
extra_fixed!(usize, 1);
extra_fixed!(usize, 2);
extra_fixed!(u128, 3);
extra_fixed!(u64, 5);
extra_fixed!(u16, 4);
extra_fixed!(u64, 4);
extra_fixed!(u64, 8);
extra_fixed!(u8, 9);
extra_fixed!(u64, 40);
extra_fixed!(u16, 7);
extra_fixed!(u8, 11);
extra_fixed!(u8, 300);
extra_fixed!(u8, 0);

macro_rules! extra_dyn {
    ($ty:ty) => {
        impl Extra for $ty {
            fn from_u(t: u128, us: u128, x: u128, byref: bool) -> Res {
                let r = uint_dispatch!(t, us, x, U => |x: U| if byref { Self::from(&x) } else { Self::from(x) });
                v1(&r)
            }
            fn to_u(&self, t: u128, us: u128, byval: bool) -> Res {
                let a = self;
                macro_rules! go { ($u:ty) => {
                    match if byval { <$u>::try_from(a.clone()) } else { <$u>::try_from(a) } {
                        Ok(v) => n1(v as u128),
                        Err(e) => e.code(),
                    }
                }}
                match (t, us) { (8, _) => go!(u8), (16, _) => go!(u16), (32, _) => go!(u32), (64, 0) => go!(u64), (128, _) => go!(u128), _ => go!(usize) }
            }
            fn from_sl(j: u128, us: u128, l: &[u128]) -> Res {
                macro_rules! go { ($u:ty) => {{
                    let s: Vec<$u> = l.iter().map(|x| *x as $u).collect();
                    v1(&Self::from(&s[..]))
                }}}
                match (j, us) { (8, _) => go!(u8), (16, _) => go!(u16), (32, _) => go!(u32), (64, 0) => go!(u64), (128, _) => go!(u128), _ => go!(usize) }
            }
            fn reserve_(&mut self, k: usize) {
                self.reserve(k)
            }
            fn shrink_(&mut self) {
                self.shrink_to_fit()
            }
            fn conv_from_dyn(s: Bvd) -> Res {
                v1(&<$ty>::from(s))
            }
            fn conv_from_auto(s: Bv) -> Res {
                v1(&<$ty>::from(s))
            }
            fn conv_into_dyn(self) -> Res {
                v1(&Bvd::from(self))
            }
            fn conv_into_auto(self) -> Res {
                v1(&Bv::from(self))
            }
            extra_common!();
        }
    };
}
extra_dyn!(Bvd);
extra_dyn!(Bv);

// ---------------------------------------------------------------------------------------------

/// an iterator reporting an arbitrary size hint (honest lower bound, loose or absent upper bound)
struct HintIter<I: Iterator<Item = Bit>> {
    it: I,
    lo: usize,
    hi: Option<usize>,
}
impl<I: Iterator<Item = Bit>> Iterator for HintIter<I> {
    type Item = Bit;
    fn next(&mut self) -> Option<Bit> {
        self.it.next()
    }
    fn size_hint(&self) -> (usize, Option<usize>) {
        (self.lo, self.hi)
    }
}
fn hinted(bits: Vec<Bit>, lo: usize, mode: u128) -> HintIter<std::vec::IntoIter<Bit>> {
    let n = bits.len();
    let hi = match mode {
        1 => None,
        2 => Some(usize::MAX),
        3 => Some(n),
        _ => Some(n.max(lo).saturating_mul(2)),
    };
    HintIter { it: bits.into_iter(), lo: lo.min(n), hi }
}

/// a reader that hands out at most `chunk` bytes per read() call (short reads are legal for io::Read)
struct Dribble {
    data: Vec<u8>,
    pos: usize,
    chunk: usize,
    calls: usize,
}
impl std::io::Read for Dribble {
    fn read(&mut self, buf: &mut [u8]) -> std::io::Result<usize> {
        if self.chunk == 0 {
            // mode 3: every other call is interrupted (callers must retry), the others hand out two bytes
            self.calls += 1;
            if self.calls % 2 == 1 {
                return Err(std::io::Error::from(std::io::ErrorKind::Interrupted));
            }
            let n = buf.len().min(2).min(self.data.len() - self.pos);
            buf[..n].copy_from_slice(&self.data[self.pos..self.pos + n]);
            self.pos += n;
            return Ok(n);
        }
        let n = buf.len().min(self.chunk).min(self.data.len() - self.pos);
        buf[..n].copy_from_slice(&self.data[self.pos..self.pos + n]);
        self.pos += n;
        Ok(n)
    }
}

/// a writer that accepts at most `chunk` bytes per write() call (short writes are legal for io::Write)
struct ShortWriter {
    data: Vec<u8>,
    chunk: usize,
    calls: usize,
}
impl std::io::Write for ShortWriter {
    fn write(&mut self, buf: &[u8]) -> std::io::Result<usize> {
        if self.chunk == 0 {
            self.calls += 1;
            if self.calls % 2 == 1 {
                return Err(std::io::Error::from(std::io::ErrorKind::Interrupted));
            }
            let n = buf.len().min(2);
            self.data.extend_from_slice(&buf[..n]);
            return Ok(n);
        }
        let n = buf.len().min(self.chunk);
        self.data.extend_from_slice(&buf[..n]);
        Ok(n)
    }
    fn flush(&mut self) -> std::io::Result<()> {
        Ok(())
    }
}

/// A sink that takes at most `chunk` bytes per call and `cap` bytes in all, then answers Ok(0) (as a full
/// `&mut [u8]` does); the model of it is `write_all_sink` in coq/Model/Run.v.
struct BoundedSink {
    data: Vec<u8>,
    cap: usize,
    chunk: usize,
    intr: bool, // every other call is interrupted (write_all must retry; the outcome may not depend on it)
    calls: usize,
}
impl std::io::Write for BoundedSink {
    fn write(&mut self, buf: &[u8]) -> std::io::Result<usize> {
        self.calls += 1;
        if self.intr && self.calls % 2 == 1 {
            return Err(std::io::Error::from(std::io::ErrorKind::Interrupted));
        }
        let n = buf.len().min(self.chunk).min(self.cap - self.data.len());
        self.data.extend_from_slice(&buf[..n]);
        Ok(n)
    }
    fn flush(&mut self) -> std::io::Result<()> {
        Ok(())
    }
}

/// Oracle 1 (harness only, op 99): the bit iterator of a vector of 2^32 + 8 bits (all zero but two) against
/// the same calls on a range iterator over the indices.  Lazily zeroed storage; every call used is O(1).
fn huge_iter_oracle<A: BitVector>() -> bool {
    let n: usize = (1usize << 32) + 8;
    let hot = [n - 3, (1usize << 32) - 2];
    let mut v = A::zeros(n);
    let mut ok = true;
    // run lengths of 2^32 and more (a u32 accumulator would wrap or overflow): first with the single hot bit n - 3
    v.set(hot[0], Bit::One);
    ok &= v.trailing_zeros() == n - 3 && v.leading_zeros() == 2 && v.trailing_ones() == 0 && v.leading_ones() == 0;
    ok &= v.significant_bits() == n - 2 && !v.is_zero();
    v.set(hot[1], Bit::One);
    let bit = |i: usize| if hot.contains(&i) { Bit::One } else { Bit::Zero };
    {
        let it = v.iter();
        let r = 0..n;
        ok &= it.size_hint() == r.size_hint();
        ok &= v.iter().count() == n;
        ok &= v.iter().last() == Some(bit(n - 1));
        ok &= v.iter().rev().nth(2) == Some(bit(n - 3));
    }
    ok &= v.trailing_zeros() == (1usize << 32) - 2 && v.leading_zeros() == 2;
    let mut it = v.iter();
    let mut r = 0..n;
    for step in [0usize, 5, 1 << 31, (1 << 31) - 9, 0, 1, 3, 1 << 32] {
        let (x, y) = (it.nth(step), r.nth(step));
        ok &= x == y.map(bit) && it.size_hint() == r.size_hint();
        let (x, y) = (it.next_back(), r.next_back());
        ok &= x == y.map(bit) && it.size_hint() == r.size_hint();
    }
    let mut it = v.iter();
    let mut r = 0..n;
    for step in [2usize, 5, 0, 1 << 32, 0] {
        let (x, y) = (it.nth_back(step), r.nth_back(step));
        ok &= x == y.map(bit) && it.size_hint() == r.size_hint();
        let (x, y) = (it.next(), r.next());
        ok &= x == y.map(bit);
    }
    ok
}

fn oracle(c: &Case) -> Res {
    let ok = match (c.a(0), c.a(1)) {
        (1, 14) => huge_iter_oracle::<Bvd>(),
        (1, _) => huge_iter_oracle::<Bv>(),
        _ => return Res::Err(97, 9),
    };
    n1(ok as u128)
}

enum It<'a, A: BitVector> {
    F(bva::BitIterator<'a, A>),
    R(std::iter::Rev<bva::BitIterator<'a, A>>),
    RR(std::iter::Rev<std::iter::Rev<bva::BitIterator<'a, A>>>),
}

/// Runs the call sequence on the crate's iterator and, side by side, on a slice iterator over
/// the bits; returns the crate's answers, or Err(10) at the first disagreement.
fn run_iter<A: Extra>(a: &A, calls: &[u128], via_into_iter: bool, consumer: u128) -> Res {
    let bits: Vec<Bit> = (0..a.len()).map(|i| a.get(i)).collect();
    let before = a.to_raw();
    let mut out: Vec<u128> = vec![];
    let mut it = It::F(if via_into_iter { a.iter_ref() } else { a.iter() });
    enum St<'b> {
        F(std::slice::Iter<'b, Bit>),
        R(std::iter::Rev<std::slice::Iter<'b, Bit>>),
        RR(std::iter::Rev<std::iter::Rev<std::slice::Iter<'b, Bit>>>),
    }
    let mut st = St::F(bits.iter());
    let mut k = 0;
    let mut done = false;
    while k + 1 < calls.len() && !done {
        let code = calls[k];
        let n = calls[k + 1] as usize;
        // A trailing run of `next` (or of `next_back`) calls long enough to exhaust the iterator is issued through one
        // of std's consuming methods instead (fold / for_each / collect / rfold / ...): they must yield exactly what
        // the repeated calls yield, so the trace - and the model - still list the individual calls.
        if consumer != 0 && code <= 1 && calls[k..].chunks(2).all(|c| c[0] == code) {
            let m = (calls.len() - k) / 2;
            let left = match &st { St::F(s) => s.len(), St::R(s) => s.len(), St::RR(s) => s.len() };
            if m > left {
                macro_rules! drain {
                    ($i:expr) => {{
                        let mut v: Vec<Bit> = vec![];
                        match (code, consumer) {
                            (0, 1) => v = $i.fold(v, |mut acc, b| { acc.push(b); acc }),
                            (0, 2) => $i.for_each(|b| v.push(b)),
                            (0, 3) => v = $i.collect(),
                            (0, 4) => { for b in $i { v.push(b); } }
                            (0, _) => { v.extend($i); }
                            (_, 1) => v = $i.rfold(v, |mut acc, b| { acc.push(b); acc }),
                            (_, 2) => $i.rev().for_each(|b| v.push(b)),
                            (_, 3) => v = $i.rev().collect(),
                            (_, _) => v = $i.rev().fold(v, |mut acc, b| { acc.push(b); acc }),
                        }
                        v
                    }};
                }
                let got: Vec<Bit> = match it { It::F(i) => drain!(i), It::R(i) => drain!(i), It::RR(i) => drain!(i) };
                let want: Vec<Bit> = match st { St::F(s) => drain!(s.copied()), St::R(s) => drain!(s.copied()), St::RR(s) => drain!(s.copied()) };
                if got != want {
                    return Res::Err(10, (k / 2) as u128);
                }
                for j in 0..m {
                    out.push(match got.get(j) { Some(b) => bit_n(*b), None => 2 });
                }
                if a.to_raw() != before {
                    return Res::Err(11, 0);
                }
                return l1(out);
            }
        }
        k += 2;
        macro_rules! both {
            ($i:ident, $s:ident, $e_i:expr, $e_s:expr) => {{
                let x: u128 = match &mut it {
                    It::F($i) => $e_i,
                    It::R($i) => $e_i,
                    It::RR($i) => $e_i,
                };
                let y: u128 = match &mut st {
                    St::F($s) => $e_s,
                    St::R($s) => $e_s,
                    St::RR($s) => $e_s,
                };
                if x != y {
                    return Res::Err(10, (k / 2) as u128);
                }
                out.push(x);
            }};
        }
        match code {
            0 => both!(i, s, obit_n(i.next()), obit_n(s.next().copied())),
            1 => both!(i, s, obit_n(i.next_back()), obit_n(s.next_back().copied())),
            2 => both!(i, s, obit_n(i.nth(n)), obit_n(s.nth(n).copied())),
            3 => both!(i, s, obit_n(i.nth_back(n)), obit_n(s.nth_back(n).copied())),
            4 => both!(i, s, { let h = i.size_hint(); if h.1 != Some(h.0) { u128::MAX } else { h.0 as u128 } }, s.size_hint().0 as u128),
            5 => {
                // count consumes the iterator: last call of the sequence
                let x = match it { It::F(i) => i.count(), It::R(i) => i.count(), It::RR(i) => i.count() } as u128;
                let y = match st { St::F(s) => s.count(), St::R(s) => s.count(), St::RR(s) => s.count() } as u128;
                if x != y {
                    return Res::Err(10, (k / 2) as u128);
                }
                out.push(x);
                done = true;
                it = It::F(a.iter());
                st = St::F(bits.iter());
            }
            6 => {
                let x = obit_n(match it { It::F(i) => i.last(), It::R(i) => i.last(), It::RR(i) => i.last() });
                let y = obit_n(match st { St::F(s) => s.last().copied(), St::R(s) => s.last().copied(), St::RR(s) => s.last().copied() });
                if x != y {
                    return Res::Err(10, (k / 2) as u128);
                }
                out.push(x);
                done = true;
                it = It::F(a.iter());
                st = St::F(bits.iter());
            }
            _ => {
                it = match it {
                    It::F(i) => It::R(i.rev()),
                    It::R(i) => It::RR(i.rev()),
                    It::RR(i) => It::RR(i),
                };
                st = match st {
                    St::F(s) => St::R(s.rev()),
                    St::R(s) => St::RR(s.rev()),
                    St::RR(s) => St::RR(s),
                };
                out.push(3);
            }
        }
    }
    drop(it);
    if a.to_raw() != before {
        return Res::Err(11, 0);
    }
    l1(out)
}

fn ctor<K: Extra + FromIterator<Bit>>(c: &Case) -> Res {
    match c.op {
        1 => v1(&K::zeros(c.a(0) as usize)),
        2 => v1(&K::ones(c.a(0) as usize)),
        3 => v1(&K::with_capacity(c.a(0) as usize)),
        4 => match K::from_binary(string_of(c.l(0))) {
            Ok(v) => v1(&v),
            Err(e) => e.code(),
        },
        5 => match K::from_hex(string_of(c.l(0))) {
            Ok(v) => v1(&v),
            Err(e) => e.code(),
        },
        6 => {
            let bytes: Vec<u8> = c.l(0).iter().map(|x| *x as u8).collect();
            match K::from_bytes(&bytes, endian(c.a(0))) {
                Ok(v) => v1(&v),
                Err(e) => e.code(),
            }
        }
        7 => {
            let bytes: Vec<u8> = c.l(0).iter().map(|x| *x as u8).collect();
            if c.a(2) == 0 {
                let mut rd = std::io::Cursor::new(bytes.clone());
                match K::read(&mut rd, c.a(0) as usize, endian(c.a(1))) {
                    Ok(v) => Res::Ok(vec![Item::V(v.to_raw()), Item::N((bytes.len() as u64 - rd.position()) as u128)]),
                    Err(e) => io_code(&e),
                }
            } else {
                // arg 2: 1 = one byte per read() call, 2 = three bytes per call
                let mut rd = Dribble { data: bytes.clone(), pos: 0, chunk: match c.a(2) { 1 => 1, 2 => 3, _ => 0 }, calls: 0 };
                match K::read(&mut rd, c.a(0) as usize, endian(c.a(1))) {
                    Ok(v) => Res::Ok(vec![Item::V(v.to_raw()), Item::N((bytes.len() - rd.pos) as u128)]),
                    Err(e) => io_code(&e),
                }
            }
        }
        8 => K::from_u(c.a(0), c.a(2), c.a(1), c.form == 1),
        9 => K::from_sl(c.a(0), c.a(1), c.l(0)),
        10 => {
            let bits: Vec<Bit> = c.l(0).iter().map(|b| bit_of(*b)).collect();
            // arg 0: size_hint lower bound; arg 1: 0 natural iterator, 1..4 explicit hint (lo, None | MAX | exact | loose)
            let v: K = if c.a(1) != 0 {
                hinted(bits, c.a(0) as usize, c.a(1)).collect()
            } else if c.a(0) as usize == bits.len() {
                bits.into_iter().collect()
            } else {
                // an iterator whose size_hint lower bound is 0
                bits.into_iter().filter(|_| true).collect()
            };
            v1(&v)
        }
        13 => v1(&K::repeat(bit_of(c.a(0)), c.a(1) as usize)),
        _ => Res::Err(97, 0),
    }
}

fn unary<A: Extra + Extend<Bit>>(c: &Case) -> Res {
    let a0 = A::from_raw(&c.vals[0]);
    let mut a = a0.clone();
    let _watch = PanicWatch(&a as *const A);
    match c.op {
        12 => v1(&a),
        20 => n1(a.capacity() as u128),
        21 => n1(a.len() as u128),
        22 => l1(a.to_vec(endian(c.a(0))).iter().map(|b| *b as u128).collect()),
        23 => {
            // arg 1: 0 = Vec<u8>; 1 / 2 = a writer that accepts at most one / three bytes per write() call
            if c.a(1) == 0 {
                let mut buf: Vec<u8> = vec![];
                match a.write(&mut buf, endian(c.a(0))) {
                    Ok(()) => l1(buf.iter().map(|b| *b as u128).collect()),
                    Err(e) => io_code(&e),
                }
            } else {
                let mut w = ShortWriter { data: vec![], chunk: match c.a(1) { 1 => 1, 2 => 3, _ => 0 }, calls: 0 };
                match a.write(&mut w, endian(c.a(0))) {
                    Ok(()) => l1(w.data.iter().map(|b| *b as u128).collect()),
                    Err(e) => io_code(&e),
                }
            }
        }
        38 => {
            // write into a sink with room for arg 1 bytes in all, taking at most arg 2 bytes per write() call, which
            // answers Ok(0) once full.  form 0: the harness's own sink (3: the same, every other call interrupted); 1: std's `&mut [u8]`; 2: std's Cursor<&mut [u8]>
            let cap = c.a(1) as usize;
            let (r, got): (std::io::Result<()>, Vec<u8>) = match c.form {
                1 => {
                    let mut store = vec![0u8; cap];
                    let (r, left) = {
                        let mut sl: &mut [u8] = &mut store[..];
                        let r = a.write(&mut sl, endian(c.a(0)));
                        (r, sl.len())
                    };
                    store.truncate(cap - left);
                    (r, store)
                }
                2 => {
                    let mut store = vec![0u8; cap];
                    let (r, pos) = {
                        let mut cur = std::io::Cursor::new(&mut store[..]);
                        let r = a.write(&mut cur, endian(c.a(0)));
                        (r, cur.position() as usize)
                    };
                    store.truncate(pos);
                    (r, store)
                }
                _ => {
                    let mut w = BoundedSink { data: vec![], cap, chunk: (c.a(2).min(1 << 40)) as usize, intr: c.form == 3, calls: 0 };
                    let r = a.write(&mut w, endian(c.a(0)));
                    (r, w.data)
                }
            };
            let st = match r {
                Ok(()) => 0,
                Err(_) => 1,
            };
            Res::Ok(vec![Item::L(got.iter().map(|b| *b as u128).collect()), Item::N(st)])
        }
        24 => n1(bit_n(a.get(c.a(0) as usize))),
        25 => n1(obit_n(a.first())),
        26 => n1(obit_n(a.last())),
        27 => n1(match c.a(0) {
            0 => a.leading_zeros(),
            1 => a.leading_ones(),
            2 => a.trailing_zeros(),
            _ => a.trailing_ones(),
        } as u128),
        28 => n1(a.significant_bits() as u128),
        29 => n1(a.is_zero() as u128),
        30 => run_iter(&a, c.l(0), c.form == 1, c.a(0)),
        31 => {
            let spec = [c.a(1), c.a(2), c.a(3), c.a(4), c.a(5), c.a(6)];
            match a.fmt_(c.a(0), spec) {
                Some(s) => {
                    // oracle: Rust's own formatting of the same unsigned integer, when it fits
                    if a.significant_bits() <= 128 {
                        let v = (0..a.len().min(128)).fold(0u128, |acc, i| acc | (bit_n(a.get(i)) << i));
                        if fmt_u128(v, c.a(0), spec).as_deref() != Some(&s[..]) {
                            return Res::Err(12, 0);
                        }
                    }
                    l1(s.chars().map(|ch| ch as u128).collect())
                }
                None => Res::Err(97, 1),
            }
        }
        32 => l1(a.hash_tokens()),
        33 => a.to_u(c.a(0), c.a(1), c.form == 1),
        36 => n1(a.is_empty() as u128),
        40 => {
            a.set(c.a(0) as usize, bit_of(c.a(1)));
            v1(&a)
        }
        41 => {
            a.push(bit_of(c.a(0)));
            v1(&a)
        }
        42 => {
            let b = a.pop();
            Res::Ok(vec![Item::V(a.to_raw()), Item::N(obit_n(b))])
        }
        43 => {
            a.resize(c.a(0) as usize, bit_of(c.a(1)));
            v1(&a)
        }
        44 => {
            a.truncate(c.a(0) as usize);
            v1(&a)
        }
        45 => {
            a.sign_extend(c.a(0) as usize);
            v1(&a)
        }
        49 => {
            let hi = a.split_off(c.a(0) as usize);
            Res::Ok(vec![Item::V(a.to_raw()), Item::V(hi.to_raw())])
        }
        50 => {
            let (hi, lo) = a.split(c.a(0) as usize);
            Res::Ok(vec![Item::V(hi.to_raw()), Item::V(lo.to_raw())])
        }
        51 => {
            let r = a.copy_range(c.a(0) as usize..c.a(1) as usize);
            if a.to_raw() != c.vals[0] {
                return Res::Err(11, 0);
            }
            v1(&r)
        }
        52 => {
            let b = a.shl_in(bit_of(c.a(0)));
            Res::Ok(vec![Item::V(a.to_raw()), Item::N(bit_n(b))])
        }
        53 => {
            let b = a.shr_in(bit_of(c.a(0)));
            Res::Ok(vec![Item::V(a.to_raw()), Item::N(bit_n(b))])
        }
        54 => {
            a.rotl(c.a(0) as usize);
            v1(&a)
        }
        55 => {
            a.rotr(c.a(0) as usize);
            v1(&a)
        }
        56 => {
            a.reserve_(c.a(0) as usize);
            v1(&a)
        }
        57 => {
            a.shrink_();
            v1(&a)
        }
        58 => {
            let bits: Vec<Bit> = c.l(0).iter().map(|b| bit_of(*b)).collect();
            if c.a(1) != 0 {
                a.extend(hinted(bits, c.a(0) as usize, c.a(1)));
            } else if c.a(0) as usize == bits.len() {
                a.extend(bits.into_iter());
            } else {
                a.extend(bits.into_iter().filter(|_| true));
            }
            v1(&a)
        }
        60 => {
            let r = a0.not_(c.form == 2 || c.form == 3);
            if a0.to_raw() != c.vals[0] {
                return Res::Err(11, 0);
            }
            v1(&r)
        }
        61 | 62 => {
            let r = a0.shift_(c.op == 61, c.a(0), c.a(2), c.a(1), c.form);
            if a0.to_raw() != c.vals[0] {
                return Res::Err(11, 0);
            }
            v1(&r)
        }
        63..=70 => {
            let r = a0.op_uint(c.op, c.a(0), c.a(2), c.a(1), c.form);
            if a0.to_raw() != c.vals[0] {
                return Res::Err(11, 0);
            }
            v1(&r)
        }
        _ => Res::Err(97, 2),
    }
}

/// operations taking a second vector through a generic `B: BitVector` parameter
fn pair_generic<A, B>(c: &Case) -> Res
where
    A: Extra + for<'a> TryFrom<&'a B, Error: std::fmt::Debug + ErrCode> + PartialEq<B> + PartialOrd<B>,
    B: Extra,
{
    let mut a = A::from_raw(&c.vals[0]);
    let b = B::from_raw(&c.vals[1]);
    let _watch = PanicWatch(&a as *const A);
    let r = match c.op {
        11 => match A::try_from(&b) {
            Ok(v) => v1(&v),
            Err(e) => e.code(),
        },
        34 | 35 => {
            let eq = a == b;
            let ne = a != b;
            let pc = a.partial_cmp(&b);
            let (lt, le, gt, ge) = (a < b, a <= b, a > b, a >= b);
            let ord = match pc {
                Some(std::cmp::Ordering::Less) => 0u128,
                Some(std::cmp::Ordering::Equal) => 1,
                Some(std::cmp::Ordering::Greater) => 2,
                None => return Res::Err(13, 0),
            };
            // PartialEq, PartialOrd and the derived operators never disagree
            if ne == eq || eq != (ord == 1) || lt != (ord == 0) || gt != (ord == 2) || le != (ord <= 1) || ge != (ord >= 1) {
                return Res::Err(13, 1);
            }
            if c.op == 34 {
                n1(eq as u128)
            } else {
                n1(ord)
            }
        }
        46 => {
            a.append(&b);
            v1(&a)
        }
        47 => {
            a.prepend(&b);
            v1(&a)
        }
        48 => {
            a.insert(c.a(0) as usize, &b);
            v1(&a)
        }
        71 => {
            let (q, r) = a.div_rem(&b);
            if a.to_raw() != c.vals[0] {
                return Res::Err(11, 0);
            }
            Res::Ok(vec![Item::V(q.to_raw()), Item::V(r.to_raw())])
        }
        _ => Res::Err(97, 3),
    };
    if b.to_raw() != c.vals[1] {
        return Res::Err(11, 1);
    }
    r
}

fn hash_pair<A: Extra>(c: &Case) -> Res {
    let a = A::from_raw(&c.vals[0]);
    let b = A::from_raw(&c.vals[1]);
    let eq = a == b;
    if eq {
        // end-to-end: a HashSet holding one finds the other
        let mut set = std::collections::HashSet::new();
        set.insert(a.clone());
        if !set.contains(&b) {
            return Res::Err(15, 0);
        }
    }
    Res::Ok(vec![Item::N(eq as u128), Item::L(a.hash_tokens()), Item::L(b.hash_tokens())])
}

/// Ord::cmp and Eq on two values of the same type (in addition to the generic pair checks)
fn same_type_cmp<A: Extra + Ord>(c: &Case) -> Option<Res> {
    let a = A::from_raw(&c.vals[0]);
    let b = A::from_raw(&c.vals[1]);
    let ord = a.cmp(&b);
    if Some(ord) != a.partial_cmp(&b) || (ord == std::cmp::Ordering::Equal) != (a == b) {
        return Some(Res::Err(13, 2));
    }
    if a.cmp(&a) != std::cmp::Ordering::Equal || b.cmp(&a) != ord.reverse() {
        return Some(Res::Err(13, 3));
    }
    // std's provided methods on top of cmp (a type may override them): max / min / clamp, and the reference forms
    use std::cmp::Ordering::*;
    let mx = a.clone().max(b.clone());
    let mn = a.clone().min(b.clone());
    let want_max = if ord == Greater { &a } else { &b };
    let want_min = if ord == Greater { &b } else { &a };
    if mx.to_raw() != want_max.to_raw() || mn.to_raw() != want_min.to_raw() {
        return Some(Res::Err(13, 4));
    }
    let cl = a.clone().clamp(mn.clone(), mx.clone());
    if cl.to_raw() != a.to_raw() {
        return Some(Res::Err(13, 5));
    }
    if (&a).cmp(&&b) != ord || (&a == &b) != (ord == Equal) {
        return Some(Res::Err(13, 6));
    }
    None
}

macro_rules! pair_ops {
    ($c:expr, $A:ident, $B:ident) => {{
        #[inline(never)]
        fn run(c: &Case) -> Res {
            let a = <$A>::from_raw(&c.vals[0]);
            let b = <$B>::from_raw(&c.vals[1]);
            let r: $A = all_ops!(a, b, c.op, c.form);
            if a.to_raw() != c.vals[0] || b.to_raw() != c.vals[1] {
                return Res::Err(11, 0);
            }
            v1(&r)
        }
        run($c)
    }};
}

/// both operands are the SAME object: `&a op &a`, `a == a`, `a.cmp(&a)`
macro_rules! self_ops {
    ($c:expr, $A:ident) => {{
        #[inline(never)]
        fn run(c: &Case) -> Res {
            let a = <$A>::from_raw(&c.vals[0]);
            let r: $A = match c.op {
                63 => &a & &a,
                64 => &a | &a,
                65 => &a ^ &a,
                66 => &a + &a,
                67 => &a - &a,
                68 => &a * &a,
                69 => &a / &a,
                _ => &a % &a,
            };
            if a.to_raw() != c.vals[0] {
                return Res::Err(11, 0);
            }
            v1(&r)
        }
        run($c)
    }};
}

macro_rules! pair_gen {
    ($c:expr, $A:ident, $B:ident) => {{
        #[inline(never)]
        fn run(c: &Case) -> Res {
            pair_generic::<$A, $B>(c)
        }
        run($c)
    }};
}

fn exec_inner(c: &Case) -> Res {
    match c.op {
        1..=10 | 13 => with_kind!(c.kind, K => ctor::<K>(c)),
        11 if c.form == 1 && (c.kind == KD || c.kind == KA || c.vals[0].kid == KD || c.vals[0].kid == KA) => {
            // by-value conversions exist between the fixed types and Bvd / Bv, and between Bvd and Bv
            let src = &c.vals[0];
            if src.kid == KD && c.kind != KD {
                let s = <Bvd as Raw>::from_raw(src);
                with_kind!(c.kind, K => K::conv_from_dyn(s))
            } else if src.kid == KA && c.kind != KA {
                let s = <Bv as Raw>::from_raw(src);
                with_kind!(c.kind, K => K::conv_from_auto(s))
            } else if c.kind == KD && src.kid != KD {
                with_kind!(src.kid, S => S::from_raw(src).conv_into_dyn())
            } else if c.kind == KA && src.kid != KA {
                with_kind!(src.kid, S => S::from_raw(src).conv_into_auto())
            } else {
                let cc = Case { form: 0, ..c.clone() };
                exec_inner(&cc)
            }
        }
        11 => {
            let ks = c.vals[0].kid;
            // conversion target first: A = target, B = source
            let cc = Case { vals: vec![Val { kid: c.kind, afix: true, len: 0, words: vec![0; kind_desc(c.kind).2 as usize] }, c.vals[0].clone()], ..c.clone() };
            with_kind!(c.kind, A => with_kind!(ks, B => pair_gen!(&cc, A, B)))
        }
        14 => with_kind!(c.vals[0].kid, A => {
            // Clone::clone_from (form 0) / ToOwned::clone_into (form 1) between two values of one type
            let mut d = <A as Raw>::from_raw(&c.vals[0]);
            let s = <A as Raw>::from_raw(&c.vals[1]);
            if c.form == 1 {
                s.clone_into(&mut d);
            } else {
                d.clone_from(&s);
            }
            if s.to_raw() != c.vals[1] {
                return Res::Err(11, 1);
            }
            Res::Ok(vec![Item::V(d.to_raw())])
        }),
        34 | 35 if c.vals[0].kid == c.vals[1].kid => {
            if let Some(r) = with_kind!(c.vals[0].kid, A => same_type_cmp::<A>(c)) {
                return r;
            }
            with_kind!(c.vals[0].kid, A => with_kind!(c.vals[1].kid, B => pair_gen!(c, A, B)))
        }
        34 | 35 | 46 | 47 | 48 | 71 => {
            with_kind!(c.vals[0].kid, A => with_kind!(c.vals[1].kid, B => pair_gen!(c, A, B)))
        }
        63..=70 if c.vals.len() == 2 && c.form == 6 && c.vals[0] == c.vals[1] => {
            with_kind!(c.vals[0].kid, A => self_ops!(c, A))
        }
        63..=70 if c.vals.len() == 2 => {
            with_kind!(c.vals[0].kid, A => with_kind!(c.vals[1].kid, B => pair_ops!(c, A, B)))
        }
        37 => with_kind!(c.vals[0].kid, A => hash_pair::<A>(c)),
        90..=97 => crate::hooks::exec_hook(c),
        99 => oracle(c),
        _ => with_kind!(c.vals[0].kid, A => unary::<A>(c)),
    }
}
