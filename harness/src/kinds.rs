//! The 22 concrete bit-vector types of the matrix (plus the zero-word type), raw construction / observation, and the
//! dispatch macros that select a concrete type from a kind id.

use crate::val::*;
use bva::{Bv, BitVector, Bvd, Bvf};

pub trait Raw: Sized + Clone {
    const KID: u8;
    fn from_raw(v: &Val) -> Self;
    fn to_raw(&self) -> Val;
}

macro_rules! raw_fixed {
    ($kid:expr, $i:ty, $n:expr) => {
        impl Raw for Bvf<$i, $n> {
            const KID: u8 = $kid;
            fn from_raw(v: &Val) -> Self {
                let mut d = [0 as $i; $n];
                for (k, w) in v.words.iter().enumerate() {
                    d[k] = *w as $i;
                }
                Bvf::<$i, $n>::new(d, v.len)
            }
            fn to_raw(&self) -> Val {
                let (d, len) = self.clone().into_inner();
                Val { kid: $kid, afix: false, len, words: d.iter().map(|x| *x as u128).collect() }
            }
        }
    };
}

raw_fixed!(0, u8, 1);
raw_fixed!(1, u8, 2);
raw_fixed!(2, u8, 3);
raw_fixed!(3, u16, 1);
raw_fixed!(4, u16, 2);
raw_fixed!(5, u32, 1);
raw_fixed!(6, u32, 3);
raw_fixed!(7, u64, 1);
raw_fixed!(8, u64, 2);
raw_fixed!(9, u64, 3);
raw_fixed!(10, u128, 1);
raw_fixed!(11, u128, 2);
raw_fixed!(12, usize, 1);
raw_fixed!(13, usize, 2);
raw_fixed!(16, u128, 3);
raw_fixed!(17, u64, 5);
raw_fixed!(18, u16, 4);
raw_fixed!(19, u64, 4);
raw_fixed!(20, u64, 8);
raw_fixed!(21, u8, 9);
raw_fixed!(22, u64, 40);
raw_fixed!(23, u16, 7);
raw_fixed!(24, u8, 11);
raw_fixed!(25, u8, 300);
raw_fixed!(26, u8, 0);

impl Raw for Bvd {
    const KID: u8 = 14;
    fn from_raw(v: &Val) -> Self {
        let d: Vec<u64> = v.words.iter().map(|x| *x as u64).collect();
        Bvd::new(d.into_boxed_slice(), v.len)
    }
    fn to_raw(&self) -> Val {
        let (d, len) = self.clone().into_inner();
        Val { kid: 14, afix: false, len, words: d.iter().map(|x| *x as u128).collect() }
    }
}

impl Raw for Bv {
    const KID: u8 = 15;
    fn from_raw(v: &Val) -> Self {
        if v.afix {
            let mut d = [0u64; 2];
            for (k, w) in v.words.iter().enumerate() {
                d[k] = *w as u64;
            }
            Bv::Fixed(Bvf::<u64, 2>::new(d, v.len))
        } else {
            let d: Vec<u64> = v.words.iter().map(|x| *x as u64).collect();
            Bv::Dynamic(Bvd::new(d.into_boxed_slice(), v.len))
        }
    }
    fn to_raw(&self) -> Val {
        match self {
            Bv::Fixed(b) => {
                let (d, len) = b.clone().into_inner();
                Val { kid: 15, afix: true, len, words: d.iter().map(|x| *x as u128).collect() }
            }
            Bv::Dynamic(b) => {
                let (d, len) = b.clone().into_inner();
                Val { kid: 15, afix: false, len, words: d.iter().map(|x| *x as u128).collect() }
            }
        }
    }
}

/// `with_kind!(kid, T => expr)`: evaluate `expr` with `T` bound to the concrete type.
#[macro_export]
macro_rules! with_kind {
    ($kid:expr, $t:ident => $e:expr) => {
        match $kid {
            0 => { type $t = bva::Bvf<u8, 1>; $e }
            1 => { type $t = bva::Bvf<u8, 2>; $e }
            2 => { type $t = bva::Bvf<u8, 3>; $e }
            3 => { type $t = bva::Bvf<u16, 1>; $e }
            4 => { type $t = bva::Bvf<u16, 2>; $e }
            5 => { type $t = bva::Bvf<u32, 1>; $e }
            6 => { type $t = bva::Bvf<u32, 3>; $e }
            7 => { type $t = bva::Bvf<u64, 1>; $e }
            8 => { type $t = bva::Bvf<u64, 2>; $e }
            9 => { type $t = bva::Bvf<u64, 3>; $e }
            10 => { type $t = bva::Bvf<u128, 1>; $e }
            11 => { type $t = bva::Bvf<u128, 2>; $e }
            12 => { type $t = bva::Bvf<usize, 1>; $e }
            13 => { type $t = bva::Bvf<usize, 2>; $e }
            14 => { type $t = bva::Bvd; $e }
            15 => { type $t = bva::Bv; $e }
            16 => { type $t = bva::Bvf<u128, 3>; $e }
            17 => { type $t = bva::Bvf<u64, 5>; $e }
            18 => { type $t = bva::Bvf<u16, 4>; $e }
            19 => { type $t = bva::Bvf<u64, 4>; $e }
            20 => { type $t = bva::Bvf<u64, 8>; $e }
            21 => { type $t = bva::Bvf<u8, 9>; $e }
            22 => { type $t = bva::Bvf<u64, 40>; $e }
            23 => { type $t = bva::Bvf<u16, 7>; $e }
            24 => { type $t = bva::Bvf<u8, 11>; $e }
            25 => { type $t = bva::Bvf<u8, 300>; $e }
            _ => { type $t = bva::Bvf<u8, 0>; $e }
        }
    };
}

pub fn check_target_assumptions() {
    assert_eq!(usize::BITS, 64, "A2: usize is 64 bits");
    assert!(cfg!(target_endian = "little"), "A3: little endian");
    // Bvp = Bvf<u64,2>
    let b = Bv::zeros(1);
    match b {
        Bv::Fixed(f) => assert_eq!(f.capacity(), 128),
        _ => panic!("A2: short Bv is not inline"),
    }
}
