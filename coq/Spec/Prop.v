(* The property relation, evaluated on a case and an observed result: `spec_case` computes,
   from the abstractions of the inputs only (never through the model), what the properties
   require of the result; `prop_case` compares an observed result (from the implementation or
   from the model) with it.  A result vector must have the right type and length, be
   canonical (no stored bit beyond its length, len <= capacity) and have the required value. *)
From BVA Require Import Base.Prelude Base.Result Base.Words Base.Limbs.
From BVA Require Import Model.Core Model.Ops Model.Arith Model.Conv Model.Auto Model.Run Spec.Spec.

Inductive sitem :=
| SV (k : kind) (v : bv) (caplo : N) (caphi : option N)   (* a vector of type k, value v, capacity bounds *)
| SN (n : N)
| SNge (n : N)
| SL (l : list N)
| SAny.                                                   (* any number or list -- never a vector: a result
                                                            vector is always constrained (type, canonicity, value) *)

Inductive sres :=
| SOk (l : list sitem)
| SPanic
| SErr (e : err)
| SErrAny            (* some Err, which one is not prescribed *)
| SFree.             (* the properties do not constrain this case *)

Definition sv (k : kind) (v : bv) : sitem := SV k v 0 None.

Definition kind_fixed (k : kind) : bool := match k with KF _ _ => true | _ => false end.
Definition kind_cap (k : kind) : N := match k with KF w n => w * n | _ => 0 end.
(* does a length fit the type *)
Definition fits (k : kind) (len : N) : bool := negb (kind_fixed k) || (len <=? kind_cap k).

Definition kind_matches (k : kind) (x : bvx) : bool :=
  match k, x with
  | KF w n, XF w' v => (w =? w') && (n =? lenw (wd v))
  | KD, XD _ => true
  | KA, XA _ _ => true
  | _, _ => false
  end.

(* capacity of a freshly constructed vector of this length (for shrink_to_fit) *)
Definition fresh_cap (k : kind) (len : N) : N :=
  match k with
  | KF w n => w * n
  | KD => 64 * ((len + 63) / 64)
  | KA => if len <=? 128 then 128 else 64 * ((len + 63) / 64)
  end.

Definition bv_eqb (a b : bv) : bool := (blen a =? blen b) && (bval a =? bval b).

Definition item_ok (s : sitem) (i : item) : bool :=
  match s, i with
  | SV k v lo hi, IV x =>
      kind_matches k x && canonb x && bv_eqb (abs x) v && (lo <=? x_capacity x)
      && match hi with Some h => x_capacity x <=? h | None => true end
  | SN n, IN m => n =? m
  | SNge n, IN m => n <=? m
  | SL l, IL m => list_eqb l m
  | SAny, IN _ | SAny, IL _ => true
  | _, _ => false
  end.

Fixpoint items_ok (s : list sitem) (i : list item) : bool :=
  match s, i with
  | [], [] => true
  | a :: s', b :: i' => item_ok a b && items_ok s' i'
  | _, _ => false
  end.

Definition res_ok (s : sres) (r : result) : bool :=
  match s, r with
  | SFree, _ => true
  | SOk l, Ok i => items_ok l i
  | SPanic, Panic => true
  | SErr e, Err f => err_eqb e f
  | SErrAny, Err _ => true
  | _, _ => false
  end.

(* ------------------------------------------------------------------ helpers *)

Definition sval (c : case) (i : nat) : option (kind * bv) :=
  match nth_error (c_vals c) i with Some x => Some (kind_of x, abs x) | None => None end.

(* right operand of a binary operator as a specification value *)
Definition srhs (c : case) : option bv :=
  match nth_error (c_vals c) 1 with
  | Some x => Some (abs x)
  | None => Some (mkbv (arg c 0) (trunc (arg c 0) (arg c 1)))
  end.

Definition dbg_or_free (P : profile) : sres := match P with Debug => SPanic | Release => SFree end.

Definition all_valid (digit : N -> option N) (s : list N) : bool :=
  forallb (fun ch => match digit ch with Some _ => true | None => false end) s.
Fixpoint first_invalid (digit : N -> option N) (s : list N) (i : N) : N :=
  match s with
  | [] => i
  | ch :: r => match digit ch with Some _ => first_invalid digit r (i + 1) | None => i end
  end.
Definition digit_vals (digit : N -> option N) (s : list N) : list N :=
  map (fun ch => match digit ch with Some d => d | None => 0 end) s.

Definition s_parse (k : kind) (digit : N -> option N) (sh : N) (s : list N) : sres :=
  let len := lenw s * sh in
  if all_valid digit s then
    if fits k len then SOk [sv k (mkbv len (val_of_digits (pow2 sh) (digit_vals digit s)))]
    else SErr ECap
  else if fits k len then SErr (EFmt (first_invalid digit s 0))
  else SFree.

Definition bytes_value (l : list N) (e : endian) : N :=
  val_of_bytes_le (match e with Little => l | Big => rev l end).

(* slice iterator over the remaining sub-list [s, e) of the bits *)
Definition sbit (a : bv) (i : N) : N := N.b2n (N.testbit (bval a) i).
Fixpoint s_iter (a : bv) (rv : bool) (s e : N) (cs : list icall) : list N :=
  match cs with
  | [] => []
  | c :: r =>
      let front := fun n => if n <? e - s then (s + n + 1, e, sbit a (s + n)) else (e, e, 2) in
      let back := fun n => if n <? e - s then (s, e - (n + 1), sbit a (e - (n + 1))) else (s, s, 2) in
      let '(s', e', ans) :=
        match c with
        | INext => if rv then back 0 else front 0
        | INextBack => if rv then front 0 else back 0
        | INth n => if rv then back n else front n
        | INthBack n => if rv then front n else back n
        | ISizeHint | ICount => (s, e, e - s)
        | ILast => if s <? e then (s, e, sbit a (if rv then s else e - 1)) else (s, e, 2)
        | IRev => (s, e, 3)
        end in
      let rv' := match c with IRev => negb rv | _ => rv end in
      ans :: s_iter a rv' s' e' r
  end.

Definition s_fmt (which : N) (a : bv) : list N * list N :=
  match which with
  | 0 => ([], map (fun d => 48 + d) (digits_dec (bval a)))
  | 1 => ([48; 98], map (fun d => 48 + d) (digits_pow2 1 (bval a)))
  | 2 => ([48; 111], map (fun d => 48 + d) (digits_pow2 3 (bval a)))
  | 3 => ([48; 120], map (digit_char false) (digits_pow2 4 (bval a)))
  | _ => ([48; 120], map (digit_char true) (digits_pow2 4 (bval a)))
  end.

(* ------------------------------------------------------------------ the relation, per operation *)

Definition spec_case (c : case) : sres :=
  let P := c_prof c in
  let k := c_kind c in
  let a0 := arg c 0 in let a1 := arg c 1 in
  match c_op c with
  | 1 => if fits k a0 then SOk [sv k (s_zeros a0)] else SPanic
  | 2 => if fits k a0 then SOk [sv k (s_ones a0)] else SPanic
  | 3 => SOk [SV k (s_zeros 0) (if kind_fixed k then 0 else a0) None]
  | 4 => s_parse k bin_digit 1 (lst c 0)
  | 5 => s_parse k hex_digit 4 (lst c 0)
  | 6 => let b := lst c 0 in
         if fits k (8 * lenw b) then SOk [sv k (mkbv (8 * lenw b) (bytes_value b (endian_of a0)))]
         else SErr ECap
  | 7 => let rd := lst c 0 in let len := a0 in let nb := (len + 7) / 8 in
         if negb (fits k len) || (lenw rd <? nb) then SErrAny
         else SOk [sv k (mkbv len (trunc len (bytes_value (firstn (N.to_nat nb) rd) (endian_of a1))));
                   SN (lenw rd - nb)]
  | 8 => let t := a0 in let x := a1 in
         if kind_fixed k then
           if N.size x <=? kind_cap k then SOk [sv k (mkbv (N.min t (kind_cap k)) x)] else SErr ECap
         else SOk [sv k (mkbv t x)]
  | 9 => let j := a0 in let l := lst c 0 in
         if fits k (lenw l * j)
         then SOk [sv k (mkbv (lenw l * j) (val_of_digits (pow2 j) (rev (map (trunc j) l))))]
         else SErr ECap
  | 10 => let bits := lst c 0 in
          if fits k (lenw bits) then SOk [sv k (bv_of_bits bits)] else SPanic
  | 11 => match sval c 0 with
          | Some (_, a) => if fits k (blen a) then SOk [sv k a] else SErr ECap
          | None => SFree end
  | 12 => match sval c 0 with Some (ka, a) => SOk [sv ka a] | None => SFree end
  | 14 => match sval c 1 with Some (kb, b) => SOk [sv kb b] | None => SFree end
  | 13 => if fits k a1 then SOk [sv k (s_fill a1 a0)] else SPanic
  | _ =>
  match sval c 0 with
  | None =>
      (* operations without a vector operand *)
      match c_op c with
      | 90 => let s := arg c 1 + arg c 2 + arg c 3 in
              SOk [SN (trunc a0 s); SN (N.shiftr s a0)]
      | 91 => let w := a0 in let a := arg c 1 in let b := arg c 2 in let cy := arg c 3 in
              let borrow := if a <? b + cy then (if a + pow2 w <? b + cy then 2 else 1) else 0 in
              SOk [SN (a + borrow * pow2 w - b - cy); SN borrow]
      | 92 => let p := arg c 1 * arg c 2 in SOk [SN (trunc a0 p); SN (N.shiftr p a0)]
      | 93 => SOk [SN (N.ones (N.min a1 a0))]
      | 97 => let b := if a0 =? 0 then 0 else 1 in SOk [SN b; SN b; SN 0; SN 1; SL [48]; SL [49]]
      | 99 => SOk [SN 1]
      | _ => SFree
      end
  | Some (ka, a) =>
      let n := blen a in
      let same := fun v => SOk [sv ka v] in
      match c_op c with
      | 20 => SOk [SNge n]
      | 21 => SOk [SN n]
      | 22 | 23 => SOk [SL (match endian_of a0 with Little => bytes_le a | Big => rev (bytes_le a) end)]
      | 24 => if a0 <? n then SOk [SN (sbit a a0)] else dbg_or_free P
      (* write into a sink with room for a1 bytes: success exactly when all ceil(len/8) bytes fit, and then the sink
         holds exactly those bytes; otherwise an error (what a full sink received meanwhile is not prescribed) *)
      | 38 => let bytes := match endian_of a0 with Little => bytes_le a | Big => rev (bytes_le a) end in
              if lenw bytes <=? a1 then SOk [SL bytes; SN 0] else SOk [SAny; SN 1]
      | 25 => SOk [SN (if 0 <? n then sbit a 0 else 2)]
      | 26 => SOk [SN (if 0 <? n then sbit a (n - 1) else 2)]
      | 27 => SOk [SN (match a0 with
                       | 0 => s_leading_zeros a | 1 => s_leading_ones a
                       | 2 => s_trailing_zeros a | _ => s_trailing_ones a end)]
      | 28 => SOk [SN (s_sigbits a)]
      | 29 => SOk [SN (b2n (bval a =? 0))]
      | 30 => SOk [SL (s_iter a false 0 n (decode_calls (lst c 0)))]
      | 31 => let '(pre, digits) := s_fmt a0 a in
              let spec := mkfspec (negb (arg c 1 =? 0)) (negb (arg c 2 =? 0)) (negb (arg c 3 =? 0))
                                  (arg c 4) (arg c 5) (arg c 6) in
              SOk [SL (pad_integral spec pre digits)]
      | 32 => SFree
      | 33 => if s_sigbits a <=? a0 then SOk [SN (bval a)] else SErr ECap
      | 34 => match sval c 1 with Some (_, b) => SOk [SN (b2n (bval a =? bval b))] | None => SFree end
      | 35 => match sval c 1 with Some (_, b) => SOk [SN (cmp2n (N.compare (bval a) (bval b)))] | None => SFree end
      | 36 => SOk [SN (b2n (n =? 0))]
      | 40 => if a0 <? n then same (s_set a a0 a1) else dbg_or_free P
      | 41 => if fits ka (n + 1) then same (s_push a a0) else SPanic
      | 42 => if n =? 0 then SOk [sv ka a; SN 2]
              else SOk [sv ka (s_slice a 0 (n - 1)); SN (sbit a (n - 1))]
      | 43 => if fits ka a0 || (a0 <=? n) then same (s_resize a a0 a1) else SPanic
      | 44 => same (s_truncate a a0)
      | 45 => if fits ka a0 || (a0 <=? n) then same (s_sign_extend a a0) else SPanic
      | 46 => match sval c 1 with
              | Some (_, s) => if fits ka (n + blen s) then same (s_append a s) else SPanic
              | None => SFree end
      | 47 => match sval c 1 with
              | Some (_, s) => if fits ka (n + blen s) then same (s_prepend a s) else SPanic
              | None => SFree end
      | 48 => match sval c 1 with
              | Some (_, s) =>
                  if a0 <=? n then
                    if fits ka (n + blen s) then same (s_insert a a0 s) else SPanic
                  else dbg_or_free P
              | None => SFree end
      | 49 => if a0 <=? n then SOk [sv ka (s_slice a 0 a0); sv ka (s_slice a a0 n)] else dbg_or_free P
      | 50 => if a0 <=? n then SOk [sv ka (s_slice a a0 n); sv ka (s_slice a 0 a0)] else dbg_or_free P
      | 51 => if (a0 <=? a1) && (a1 <=? n) then same (s_slice a a0 a1)
              else if (n <? a0) || (n <? a1) then dbg_or_free P else SFree
      | 52 => let '(r, b) := s_shl_in a (if a0 =? 0 then 0 else 1) in SOk [sv ka r; SN b]
      | 53 => let '(r, b) := s_shr_in a (if a0 =? 0 then 0 else 1) in SOk [sv ka r; SN b]
      | 54 => if a0 <=? n then same (s_rotl a a0) else if n =? 0 then same a else SFree
      | 55 => if a0 <=? n then same (s_rotr a a0) else if n =? 0 then same a else SFree
      | 56 => SOk [SV ka a (if kind_fixed ka then 0 else n + a0) None]
      | 57 => SOk [SV ka a 0 (Some (fresh_cap ka n))]
      | 58 => let bits := lst c 0 in
              if fits ka (n + lenw bits) then same (s_concat a (bv_of_bits bits)) else SPanic
      | 60 => same (s_not a)
      | 61 => same (s_shl a a1)
      | 62 => same (s_shr a a1)
      | 63 => match srhs c with Some b => same (s_and a b) | None => SFree end
      | 64 => match srhs c with Some b => same (s_or a b) | None => SFree end
      | 65 => match srhs c with Some b => same (s_xor a b) | None => SFree end
      | 66 => match srhs c with Some b => same (s_add a b) | None => SFree end
      | 67 => match srhs c with Some b => same (s_sub a b) | None => SFree end
      | 68 => match srhs c with Some b => same (s_mul a b) | None => SFree end
      | 69 => match srhs c with
              | Some b => if bval b =? 0 then SPanic else same (s_div a b) | None => SFree end
      | 70 => match srhs c with
              | Some b => if bval b =? 0 then SPanic else same (s_rem a b) | None => SFree end
      | 71 => match sval c 1 with
              | Some (_, b) => if bval b =? 0 then SPanic else SOk [sv ka (s_div a b); sv ka (s_rem a b)]
              | None => SFree end
      | _ => SFree
      end
  end
  end.

(* C10: two values of one type; observed [eq; tokens a; tokens b]: eq must be numeric equality,
   and equal values must have fed identical tokens to the Hasher *)
Definition prop_hash_pair (c : case) (observed : result) : bool :=
  match sval c 0, sval c 1, observed with
  | Some (_, a), Some (_, b), Ok [IN e; IL ha; IL hb] =>
      let eq := bval a =? bval b in
      (e =? b2n eq) && (negb eq || list_eqb ha hb)
  | _, _, _ => false
  end.

Definition prop_case (c : case) (observed : result) : bool :=
  if c_op c =? 37 then prop_hash_pair c observed else res_ok (spec_case c) observed.

(* for the driver's messages: the required result rendered as a pseudo result (a vector is
   shown as a dynamic one holding its value in a single big word) *)
Definition spec_show (c : case) : result :=
  match spec_case c with
  | SOk l => Ok (map (fun s => match s with
                              | SV _ v _ _ => IV (XD (mkwv [bval v] (blen v)))
                              | SN n | SNge n => IN n
                              | SL l => IL l
                              | SAny => IN 0 end) l)
  | SPanic => Panic
  | SErr e => Err e
  | SErrAny => Err EInvalidData
  | SFree => OutOfFuel
  end.
