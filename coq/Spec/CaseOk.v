(* The hypotheses of the master theorem (Proofs/Master.v), as a boolean on cases so that the
   driver can also count how many generated cases lie inside the theorem's scope:
   every vector operand is canonical with one of the crate's word widths, scalar arguments are
   values of the native type they stand for, lists are well-formed, lengths obey A1. *)
From BVA Require Import Base.Prelude Base.Result Base.Words Base.Limbs.
From BVA Require Import Model.Core Model.Ops Model.Arith Model.Conv Model.Auto Model.Run Spec.Spec Spec.Prop.

Definition std_widthb (w : N) : bool :=
  (w =? 8) || (w =? 16) || (w =? 32) || (w =? 64) || (w =? 128).

Definition goodb (x : bvx) : bool := canonb x && std_widthb (xw x).

Definition kind_okb (k : kind) : bool :=
  match k with KF w n => std_widthb w && (0 <=? n) | _ => true end.

Definition A1 : N := pow2 62.          (* every length is below 2^62 *)

Definition all_lt (b : N) (l : list N) : bool := forallb (fun x => x <? b) l.
Definition nvals (c : case) (n : nat) : bool := Nat.eqb (length (c_vals c)) n.

Definition same_typeb (a b : bvx) : bool :=
  match a, b with
  | XF w1 _, XF w2 _ => w1 =? w2
  | XD _, XD _ => true
  | XA _ _, XA _ _ => true
  | _, _ => false
  end.

Fixpoint calls_okb (l : list N) : bool :=
  match l with
  | c :: a :: r => (c <=? 7) && (a <? pow2 64) && calls_okb r
  | [] => true
  | _ => false
  end.

(* a binary operator: two vectors, or one vector and a native integer [t; x] *)
Definition binop_okb (c : case) : bool :=
  nvals c 2 || (nvals c 1 && std_widthb (arg c 0) && (arg c 1 <? pow2 (arg c 0))).

Definition len0 (c : case) : N := match c_vals c with x :: _ => xlen x | [] => 0 end.
Definition len1 (c : case) : N := match c_vals c with _ :: y :: _ => xlen y | _ => 0 end.

(* decimal formatting divides by ten in the vector's own type; the length obeys A1 *)
Definition disp_okb (c : case) : bool := len0 c <? A1.

Definition args_okb (c : case) : bool :=
  match c_op c with
  | 1 | 2 | 3 | 13 => nvals c 0
  | 4 | 5 => nvals c 0
  | 6 => nvals c 0 && all_lt 256 (lst c 0)
  | 7 => nvals c 0 && all_lt 256 (lst c 0)
  | 8 => nvals c 0 && std_widthb (arg c 0) && (arg c 1 <? pow2 (arg c 0))
  | 9 => nvals c 0 && std_widthb (arg c 0) && all_lt (pow2 (arg c 0)) (lst c 0)
  | 10 => nvals c 0 && all_lt 2 (lst c 0)
  | 11 | 12 => nvals c 1
  | 14 => nvals c 2
  | 20 | 21 | 22 | 23 | 24 | 25 | 26 | 27 | 28 | 29 | 32 | 36 => nvals c 1
  | 30 => nvals c 1 && calls_okb (lst c 0)
  | 31 => nvals c 1 && ((1 <=? arg c 0) || disp_okb c) && (arg c 0 <=? 4)
  | 33 => nvals c 1 && std_widthb (arg c 0)
  | 34 | 35 => nvals c 2
  | 37 => nvals c 2 && match c_vals c with a :: b :: _ => same_typeb a b | _ => false end
  | 38 => nvals c 1 && (1 <=? arg c 2)
  | 40 => nvals c 1 && (arg c 1 <=? 1)
  | 41 => nvals c 1 && (arg c 0 <=? 1)
  | 42 => nvals c 1
  | 43 => nvals c 1 && (arg c 1 <=? 1) && (arg c 0 <? A1)
  | 44 | 45 => nvals c 1 && (arg c 0 <? A1)
  | 46 | 47 => nvals c 2 && (len0 c + len1 c <? A1)
  | 48 => nvals c 2 && (len0 c + len1 c <? A1)
  | 49 | 50 | 51 => nvals c 1
  | 52 | 53 => nvals c 1 && (arg c 0 <=? 1)
  | 54 | 55 => nvals c 1
  | 56 => nvals c 1 && (len0 c + arg c 0 <? A1)
  | 57 => nvals c 1
  | 58 => nvals c 1 && all_lt 2 (lst c 0) && (len0 c + lenw (lst c 0) <? A1)
  | 60 => nvals c 1
  | 61 | 62 => nvals c 1 && std_widthb (arg c 0) && (arg c 1 <? pow2 (arg c 0)) && (len0 c <? A1)
  | 63 | 64 | 65 | 66 | 67 | 68 | 69 | 70 => binop_okb c && (len0 c <? A1)
  | 71 => nvals c 2 && (len0 c <? A1)
  | 90 | 91 => std_widthb (arg c 0) && (arg c 1 <? pow2 (arg c 0)) && (arg c 2 <? pow2 (arg c 0)) && (arg c 3 <? pow2 (arg c 0))
  | 92 => std_widthb (arg c 0) && (arg c 1 <? pow2 (arg c 0)) && (arg c 2 <? pow2 (arg c 0))
  | 93 => std_widthb (arg c 0)
  | 97 => true
  | _ => false
  end.

(* A1 on every length: the model computes with unbounded numbers where the crate computes in `usize`
   (`(len + 7) / 8`, `len + additional`, ...); the two agree only while no such expression wraps, which
   A1 guarantees.  Operand lengths are bounded by addressable memory in any execution; length
   *arguments* are arbitrary `usize` values, so the scope has to say it. *)
Definition lens_okb (c : case) : bool :=
  forallb (fun x => xlen x <? A1) (c_vals c) &&
  match c_op c with
  | 1 | 2 | 3 | 7 | 43 | 45 => arg c 0 <? A1
  | 13 => arg c 1 <? A1
  | 56 => len0 c + arg c 0 <? A1
  | _ => true
  end.

Definition case_okb (c : case) : bool :=
  forallb goodb (c_vals c) && kind_okb (c_kind c) && args_okb c && lens_okb c.

(* The verdicts the driver computes on every trace line.  Inside the length bound they are the
   correspondence (model = implementation) and the property relation.  Outside it - a length argument
   no address space can hold - neither the model nor the specification value is computed (both involve
   numbers like 2^(2^64)); running out of memory (a panic, or an abort which the check reports as a
   panic) and errors are accepted, and a normal return must still be a canonical vector (so len <=
   capacity) with the requested length, respectively the requested capacity. *)
Definition want_len (c : case) : option N :=
  match c_op c with
  | 1 | 2 | 7 | 43 | 45 => Some (arg c 0)
  | 13 => Some (arg c 1)
  | _ => None
  end.

Definition want_cap (c : case) : option N :=
  match c_op c with
  | 3 => if kind_fixed (c_kind c) then None else Some (arg c 0)
  | 56 => Some (len0 c + arg c 0)
  | _ => None
  end.

Definition beyond_ok (c : case) (r : result) : bool :=
  match r with
  | Ok (IV x :: _) =>
      (* len <= capacity is part of canonb; asked first, behind an `if`, so that an evaluator which computes both
         arguments of && (vm_compute) never builds 2^len for a claimed length no storage can back *)
      if xlen x <=? x_capacity x then
        canonb x &&
        match want_len c with Some n => xlen x =? n | None => true end &&
        match want_cap c with Some n => n <=? x_capacity x | None => true end
      else false
  | _ => true
  end.

Definition prop_verdict (c : case) (observed : result) : bool :=
  if lens_okb c then prop_case c observed else beyond_ok c observed.

(* Decimal formatting of a long vector: the code (and so the model) divides the whole vector by ten once per
   digit with a bit-serial division - cubic in the length, tens of seconds per case beyond a few hundred bits.
   There the model is not evaluated; nothing is lost, because the result holds no vector and the specification
   is exact: the property verdict alone says that the crate printed exactly the decimal digits of the value. *)
Definition cap0 (c : case) : N := match c_vals c with x :: _ => x_capacity x | [] => 0 end.
Definition costly (c : case) : bool := (c_op c =? 31) && (arg c 0 =? 0) && ((300 <? len0 c) || (1100 <? cap0 c)).

Definition model_consulted (c : case) : bool := lens_okb c && negb (costly c).

Definition corr_verdict (c : case) (observed : result) : bool :=
  if model_consulted c then result_eqb (run_case c) observed else true.
