(* The specification layer: a bit vector is a length and an unsigned value; every operation
   of the API is an arithmetic function on that pair, in the vocabulary of the properties.
   `abs` maps a model state to its specification value; `Canon` is the representation
   invariant (every stored bit at an index >= len is zero, len <= capacity). *)
From BVA Require Import Base.Prelude Base.Result Base.Words Base.Limbs.
From BVA Require Import Model.Core Model.Auto.

Record bv := mkbv { blen : N; bval : N }.

Definition bv_wf (v : bv) : Prop := bval v < 2 ^ blen v.
Definition bit (v : bv) (i : N) : bool := (i <? blen v) && N.testbit (bval v) i.

Definition trunc (n x : N) : N := N.land x (N.ones n).          (* x mod 2^n *)

(* ------------------------------------------------------------------ abstraction *)

Definition abs_wv (w : N) (v : wv) : bv := mkbv (wl v) (trunc (wl v) (raw w (wd v))).
Definition abs (x : bvx) : bv := abs_wv (xw x) (xv x).

Definition canon_wv (w : N) (v : wv) : Prop :=
  words_ok w (wd v) /\ wl v <= w * lenw (wd v) /\ raw w (wd v) < 2 ^ wl v.

Definition Canon (x : bvx) : Prop :=
  canon_wv (xw x) (xv x) /\
  match x with
  | XF w _ => 0 < w /\ w mod 8 = 0
  | XD _ => True
  | XA true v => lenw (wd v) = 2
  | XA false _ => True
  end.

Definition canon_wvb (w : N) (v : wv) : bool :=
  words_okb w (wd v) && (wl v <=? w * lenw (wd v)) && (raw w (wd v) <? pow2 (wl v)).

Definition canonb (x : bvx) : bool :=
  canon_wvb (xw x) (xv x) &&
  match x with
  | XF w _ => (0 <? w) && (w mod 8 =? 0)
  | XA true v => lenw (wd v) =? 2
  | _ => true
  end.

(* ------------------------------------------------------------------ operations on (len, val) *)

Definition s_zeros (n : N) : bv := mkbv n 0.
Definition s_ones (n : N) : bv := mkbv n (N.ones n).

Definition s_add (a b : bv) : bv := mkbv (blen a) (trunc (blen a) (bval a + bval b)).
Definition s_sub (a b : bv) : bv :=
  mkbv (blen a) (trunc (blen a) (bval a + pow2 (blen a) - trunc (blen a) (bval b))).
Definition s_mul (a b : bv) : bv := mkbv (blen a) (trunc (blen a) (bval a * bval b)).
Definition s_div (a b : bv) : bv := mkbv (blen a) (bval a / bval b).
Definition s_rem (a b : bv) : bv := mkbv (blen a) (bval a mod bval b).

Definition s_and (a b : bv) : bv := mkbv (blen a) (N.land (bval a) (trunc (blen a) (bval b))).
Definition s_or (a b : bv) : bv := mkbv (blen a) (N.lor (bval a) (trunc (blen a) (bval b))).
Definition s_xor (a b : bv) : bv := mkbv (blen a) (N.lxor (bval a) (trunc (blen a) (bval b))).
Definition s_not (a : bv) : bv := mkbv (blen a) (N.lxor (bval a) (N.ones (blen a))).

Definition s_shl (a : bv) (k : N) : bv :=
  mkbv (blen a) (if k <? blen a then trunc (blen a) (N.shiftl (bval a) k) else 0).
Definition s_shr (a : bv) (k : N) : bv :=
  mkbv (blen a) (if k <? blen a then N.shiftr (bval a) k else 0).

(* shift by one with a bit supplied at the vacated end; returns the bit that fell off *)
Definition s_shl_in (a : bv) (b : N) : bv * N :=
  if blen a =? 0 then (a, b)
  else (mkbv (blen a) (trunc (blen a) (2 * bval a + b)), N.b2n (N.testbit (bval a) (blen a - 1))).
Definition s_shr_in (a : bv) (b : N) : bv * N :=
  if blen a =? 0 then (a, b)
  else (mkbv (blen a) (N.shiftr (bval a) 1 + N.shiftl b (blen a - 1)), N.b2n (N.testbit (bval a) 0)).

Definition s_rotl (a : bv) (k : N) : bv :=
  let n := blen a in
  mkbv n (trunc n (N.lor (N.shiftl (bval a) k) (N.shiftr (bval a) (n - k)))).
Definition s_rotr (a : bv) (k : N) : bv :=
  let n := blen a in
  mkbv n (trunc n (N.lor (N.shiftr (bval a) k) (N.shiftl (bval a) (n - k)))).

(* edits: concatenation arithmetic *)
Definition s_concat (lo hi : bv) : bv := mkbv (blen lo + blen hi) (bval lo + N.shiftl (bval hi) (blen lo)).
Definition s_slice (a : bv) (s e : N) : bv := mkbv (e - s) (trunc (e - s) (N.shiftr (bval a) s)).
Definition s_fill (n b : N) : bv := if b =? 0 then s_zeros n else s_ones n.

Definition s_push (a : bv) (b : N) : bv := s_concat a (mkbv 1 (if b =? 0 then 0 else 1)).
Definition s_resize (a : bv) (n b : N) : bv :=
  if n <? blen a then s_slice a 0 n else s_concat a (s_fill (n - blen a) b).
Definition s_top (a : bv) : N := if blen a =? 0 then 0 else N.b2n (N.testbit (bval a) (blen a - 1)).
Definition s_sign_extend (a : bv) (n : N) : bv := if blen a <? n then s_resize a n (s_top a) else a.
Definition s_truncate (a : bv) (n : N) : bv := if n <? blen a then s_slice a 0 n else a.
Definition s_append (a x : bv) : bv := s_concat a x.
Definition s_prepend (a x : bv) : bv := s_concat x a.
Definition s_insert (a : bv) (i : N) (x : bv) : bv :=
  s_concat (s_concat (s_slice a 0 i) x) (s_slice a i (blen a)).
Definition s_set (a : bv) (i b : N) : bv :=
  mkbv (blen a) (if b =? 0 then N.ldiff (bval a) (pow2 i) else N.lor (bval a) (pow2 i)).

(* list of bits, bit 0 first *)
Definition bits_of (a : bv) : list N := map (fun i => N.b2n (N.testbit (bval a) i)) (nrange (blen a)).
Fixpoint val_of_bits (l : list N) : N :=
  match l with [] => 0 | b :: r => (if b =? 0 then 0 else 1) + 2 * val_of_bits r end.
Definition bv_of_bits (l : list N) : bv := mkbv (lenw l) (val_of_bits l).

(* value of a big-endian digit string (most significant first) *)
Definition val_of_digits (base : N) (ds : list N) : N := fold_left (fun acc d => acc * base + d) ds 0.

(* bytes: little endian, byte j carries bits 8j..8j+7 *)
Definition bytes_le (a : bv) : list N :=
  map (fun j => trunc 8 (N.shiftr (bval a) (8 * j))) (nrange ((blen a + 7) / 8)).
Fixpoint val_of_bytes_le (l : list N) : N :=
  match l with [] => 0 | b :: r => b + 256 * val_of_bytes_le r end.

(* run lengths *)
Fixpoint count_run (b : bool) (bits : list bool) : N :=
  match bits with
  | [] => 0
  | x :: r => if Bool.eqb x b then 1 + count_run b r else 0
  end.
Definition bools_of (a : bv) : list bool := map (N.testbit (bval a)) (nrange (blen a)).
Definition s_leading_zeros (a : bv) : N := blen a - N.size (bval a).
Definition s_leading_ones (a : bv) : N := count_run true (rev (bools_of a)).
Definition s_trailing_zeros (a : bv) : N := count_run false (bools_of a).
Definition s_trailing_ones (a : bv) : N := count_run true (bools_of a).
Definition s_sigbits (a : bv) : N := N.size (bval a).

(* minimal digits of a number in a power-of-two base (most significant first), "0" for zero *)
Fixpoint digits_pow2_fuel (fuel : nat) (sh x : N) (acc : list N) : list N :=
  match fuel with
  | O => acc
  | S f => if x =? 0 then acc
           else digits_pow2_fuel f sh (N.shiftr x sh) (trunc sh x :: acc)
  end.
Definition digits_pow2 (sh x : N) : list N :=
  if x =? 0 then [0] else digits_pow2_fuel (S (N.to_nat (N.size x))) sh x [].
Fixpoint digits_dec_fuel (fuel : nat) (x : N) (acc : list N) : list N :=
  match fuel with
  | O => acc
  | S f => if x =? 0 then acc else digits_dec_fuel f (x / 10) (x mod 10 :: acc)
  end.
Definition digits_dec (x : N) : list N :=
  if x =? 0 then [0] else digits_dec_fuel (S (N.to_nat (N.size x))) x [].
