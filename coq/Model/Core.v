(* Model of the storage layer: the vector state, IArray / IArrayMut (utils.rs and the three
   wrappers in fixed.rs, dynamic.rs, auto.rs), mod2n, capacity helpers.
   No proofs in Model/.  One Gallina function per Rust body; `w` is the storage word width in
   bits (BIT_UNIT), `j` the width of the integer type J of a generic get_int/set_int call. *)
From BVA Require Import Base.Prelude Base.Result Base.Words Base.Limbs.

(* data: [I; N] or Box<[u64]>, least significant word first.  length: usize *)
Record wv := mkwv { wd : list N; wl : N }.

(* A value of one of the three public types.
   XF w v : Bvf<I,N> with I of w bits and N = |wd v|     (usize is w = 64)
   XD v   : Bvd (w = 64)
   XA fx v: Bv; fx = true is Bv::Fixed(Bvf<u64,2>), fx = false is Bv::Dynamic(Bvd) *)
Inductive bvx :=
| XF (w : N) (v : wv)
| XD (v : wv)
| XA (fx : bool) (v : wv).

Definition xw (x : bvx) : N := match x with XF w _ => w | _ => 64 end.
Definition xv (x : bvx) : wv := match x with XF _ v => v | XD v => v | XA _ v => v end.
Definition xlen (x : bvx) : N := wl (xv x).
Definition xdata (x : bvx) : list N := wd (xv x).

(* usize wrapping_sub(1) *)
Definition wsub1 (n : N) : N := if n =? 0 then N.ones 64 else n - 1.
(* length.wrapping_sub(1) % BIT_UNIT + 1 *)
Definition lastbits (w len : N) : N := wsub1 len mod w + 1.

(* Bvf::capacity_from_bit_len *)
Definition cfbl_f (w len : N) : N := (len + w - 1) / w.
(* Bvd::capacity_from_byte_len / capacity_from_bit_len *)
Definition cfbyl_d (bytes : N) : N := (bytes + 8 - 1) / 8.
Definition cfbl_d (len : N) : N := cfbyl_d ((len + 7) / 8).
(* capacity in bits *)
Definition capw (w : N) (d : list N) : N := w * lenw d.

(* Bvf::mod2n *)
Definition mod2n (w : N) (d : list N) (n : N) : list N :=
  mapi (fun i x => N.land x (maskw w (N.min (n - N.min n (i * w)) w))) d.

(* `if let Some(l) = data.last_mut() { l = f(l) }` *)
Fixpoint upd_last (f : N -> N) (d : list N) : list N :=
  match d with
  | [] => []
  | [x] => [f x]
  | x :: r => x :: upd_last f r
  end.

(* `if let Some(l) = data.get_mut(i) { l = f(l) }` *)
Definition upd_at (d : list N) (i : N) (f : N -> N) : list N :=
  if i <? lenw d then setw d i (f (getw d i)) else d.

(* `for i in a..b { data[i] = c }` with Rust's bounds check *)
Definition fill_range (d : list N) (a b c : N) : outcome (list N) :=
  if (a <? b) && (lenw d <? b) then Panic
  else Ok (mapi (fun i x => if (a <=? i) && (i <? b) then c else x) d).

(* ------------------------------------------------------------------ IArray for [I] *)

(* int_len::<J>(): (size_of_val(self) + size_of::<J>() - 1) / size_of::<J>() *)
Definition slice_int_len (w j : N) (d : list N) : N :=
  (lenw d * (w / 8) + j / 8 - 1) / (j / 8).

(* get_int::<J>(idx); the align_to branch is little-endian re-chunking (assumption A3) *)
Definition slice_get_int (w j : N) (d : list N) (idx : N) : option N :=
  if j <=? w then
    let r := w / j in
    if idx <? lenw d * r
    then Some (wrap j (shrw (getw d (idx / r)) (j * (idx mod r))))
    else None
  else
    let s := j / w in
    if slice_int_len w j d <=? idx then None
    else Some (fold_left (fun v i => N.lor v (shlw j (getw d (idx * s + i)) (w * i))) (nrange s) 0).

(* IArrayMut for [I]: set_int::<J>(idx, v); the previous value it returns is unused in the crate *)
Definition slice_set_int (w j : N) (d : list N) (idx v : N) : option (list N) :=
  if j <=? w then
    let r := w / j in
    if idx <? lenw d * r
    then let wi := idx / r in
         Some (setw d wi (write_word w (getw d wi) (j * (idx mod r)) j v))
    else None
  else
    let s := j / w in
    if slice_int_len w j d <=? idx then None
    else Some (fold_left (fun d' i => setw d' (idx * s + i) (wrap w (shrw v (w * i)))) (nrange s) d).

(* IArray for Bvf / Bvd (identical bodies) *)
Definition v_int_len (j : N) (v : wv) : N := (wl v + j - 1) / j.

Definition v_get_int (w j : N) (v : wv) (idx : N) : option N :=
  if idx * j <? wl v
  then option_map (fun x => N.land x (maskw j (wl v - idx * j))) (slice_get_int w j (wd v) idx)
  else None.

Definition v_set_int (w j : N) (v : wv) (idx x : N) : wv :=
  if idx * j <? wl v
  then match slice_set_int w j (wd v) idx (N.land x (maskw j (wl v - idx * j))) with
       | Some d => mkwv d (wl v)
       | None => v
       end
  else v.

(* the generic `B: BitVector` operand seen through IArray (Bv dispatches to its variant) *)
Definition x_int_len (j : N) (x : bvx) : N := v_int_len j (xv x).
Definition x_get_int (j : N) (x : bvx) (idx : N) : option N := v_get_int (xw x) j (xv x) idx.

Definition odefault (o : option N) (d : N) : N := match o with Some x => x | None => d end.

(* rebuild a value of the same type around new storage *)
Definition x_with (x : bvx) (v : wv) : bvx :=
  match x with XF w _ => XF w v | XD _ => XD v | XA fx _ => XA fx v end.
