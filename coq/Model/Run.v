(* The case interpreter used by both evaluators (extracted OCaml driver and vm_compute):
   a `case` is one application of one public operation to concrete inputs; `run_case` is
   what the model says the crate does.  The numeric operation codes are shared with the Rust
   harness (harness/src/ops.rs) and listed in DESIGN.md. *)
From BVA Require Import Base.Prelude Base.Result Base.Words Base.Limbs.
From BVA Require Import Model.Core Model.Ops Model.Arith Model.Conv Model.Auto.

Inductive item := IV (x : bvx) | IN (n : N) | IL (l : list N).
Definition result := outcome (list item).

Record case := mkcase {
  c_op : N;                 (* operation code *)
  c_form : N;               (* operator form: 0 a.b  1 a.&b  2 &a.b  3 &a.&b  4 a.=b  5 a.=&b *)
  c_prof : profile;
  c_kind : kind;            (* target type of constructors / conversions *)
  c_args : list N;          (* scalar arguments *)
  c_vals : list bvx;        (* vector operands *)
  c_lists : list (list N)   (* bytes, code points, bits, integer slices, iterator calls *)
}.

Definition arg (c : case) (i : nat) : N := nth i (c_args c) 0.
Definition lst (c : case) (i : nat) : list N := nth i (c_lists c) [].
Definition val (c : case) (i : nat) : outcome bvx :=
  match nth_error (c_vals c) i with Some x => Ok x | None => OutOfFuel end.

Definition endian_of (n : N) : endian := if n =? 0 then Little else Big.
Definition b2n (b : bool) : N := if b then 1 else 0.
Definition opt2n (o : option N) : N := match o with Some b => b | None => 2 end.
Definition cmp2n (c : comparison) : N := match c with Lt => 0 | Eq => 1 | Gt => 2 end.

Definition ret_v (m : outcome bvx) : result := let! x := m in Ok [IV x].
Definition ret_n (m : outcome N) : result := let! n := m in Ok [IN n].
Definition ret_l (m : outcome (list N)) : result := let! l := m in Ok [IL l].

(* iterator calls are encoded as pairs [code; argument] *)
Fixpoint decode_calls (l : list N) : list icall :=
  match l with
  | c :: a :: r =>
      (match c with
       | 0 => INext | 1 => INextBack | 2 => INth a | 3 => INthBack a
       | 4 => ISizeHint | 5 => ICount | 6 => ILast | _ => IRev
       end) :: decode_calls r
  | _ => []
  end.

(* the right operand of a binary operator: a vector, or a native integer [t; x] which the
   impl first turns into a vector of the left operand's flavour *)
Definition rhs_of (c : case) (lhs : bvx) : outcome bvx :=
  match nth_error (c_vals c) 1 with
  | Some r => Ok r
  | None => lift_uint lhs (arg c 0) (arg c 1)
  end.

Definition byref_lhs (c : case) : bool := (c_form c =? 2) || (c_form c =? 3).

Definition flatten_pairs (l : list (N * N)) : list N :=
  flat_map (fun p => [fst p; snd p]) l.

(* std's `io::Write::write_all` driving a sink that accepts at most `chunk` bytes per `write()` call and
   `cap` bytes in all, after which `write()` returns Ok(0) (a full `&mut [u8]`, a `Cursor` over a fixed slice,
   a quota-limited writer): each round hands the sink what is left of the buffer, `Ok(0)` ends the loop with
   `ErrorKind::WriteZero`.  Returns what the sink holds and the status 0 = Ok(()), 1 = Err (2: out of fuel;
   one unit of fuel per byte and one more suffice because every round but the failing one takes a byte). *)
Fixpoint write_all_sink (fuel : nat) (chunk cap : N) (buf acc : list N) : list N * N :=
  match fuel with
  | O => (acc, 2)
  | S f =>
      match buf with
      | [] => (acc, 0)
      | _ :: _ =>
          let n := N.min (N.min chunk cap) (lenw buf) in
          if n =? 0 then (acc, 1)
          else write_all_sink f chunk (cap - n) (skipn (N.to_nat n) buf) (acc ++ firstn (N.to_nat n) buf)
      end
  end.

Definition run_case (c : case) : result :=
  let P := c_prof c in
  let k := c_kind c in
  match c_op c with
  (* ---- constructors *)
  | 1 => ret_v (k_zeros k (arg c 0))
  | 2 => ret_v (k_ones k (arg c 0))
  | 3 => ret_v (k_with_capacity k (arg c 0))
  | 4 => ret_v (k_from_binary k (lst c 0))
  | 5 => ret_v (k_from_hex k (lst c 0))
  | 6 => ret_v (k_from_bytes k (lst c 0) (endian_of (arg c 0)))
  | 7 => let! (x, r) := k_read k (lst c 0) (arg c 0) (endian_of (arg c 1)) in Ok [IV x; IN (lenw r)]
  | 8 => ret_v (k_from_uint k (arg c 0) (arg c 1))
  | 9 => ret_v (k_from_slice k (arg c 0) (lst c 0))
  | 10 => ret_v (k_from_iter P k (arg c 0) (lst c 0))
  | 11 => let! x := val c 0 in ret_v (convert k x)
  | 12 => let! x := val c 0 in Ok [IV x]
  | 13 => ret_v (if arg c 0 =? 0 then k_zeros k (arg c 1) else k_ones k (arg c 1))
  (* Clone::clone_from(&mut dst, &src) with the derived Clone: `*dst = src.clone()`, the storage of src as it is *)
  | 14 => let! _ := val c 0 in let! y := val c 1 in Ok [IV y]
  (* ---- observers *)
  | 20 => let! x := val c 0 in Ok [IN (x_capacity x)]
  | 21 => let! x := val c 0 in Ok [IN (xlen x)]
  | 22 | 23 => let! x := val c 0 in ret_l (x_to_vec x (endian_of (arg c 0)))
  | 24 => let! x := val c 0 in ret_n (x_get P x (arg c 0))
  | 25 => let! x := val c 0 in ret_n (x_first P x)
  | 26 => let! x := val c 0 in ret_n (x_last P x)
  | 27 => let! x := val c 0 in Ok [IN (x_count (arg c 0) x)]
  | 28 => let! x := val c 0 in ret_n (x_sigbits P x)
  | 29 => let! x := val c 0 in let! z := x_is_zero x in Ok [IN (b2n z)]
  | 30 => let! x := val c 0 in
          ret_l (iter_run (x_get P x) false (0, xlen x) (decode_calls (lst c 0)))
  | 31 => let! x := val c 0 in
          let! (pre, digits) := x_fmt_digits P (arg c 0) x in
          let spec := mkfspec (negb (arg c 1 =? 0)) (negb (arg c 2 =? 0)) (negb (arg c 3 =? 0))
                              (arg c 4) (arg c 5) (arg c 6) in
          Ok [IL (pad_integral spec pre digits)]
  | 32 => let! x := val c 0 in let! h := x_hash P x in Ok [IL (flatten_pairs h)]
  | 33 => let! x := val c 0 in ret_n (x_to_uint P x (arg c 0))
  | 34 => let! a := val c 0 in let! b := val c 1 in Ok [IN (b2n (x_eq a b))]
  | 35 => let! a := val c 0 in let! b := val c 1 in Ok [IN (cmp2n (x_cmp a b))]
  | 36 => let! x := val c 0 in Ok [IN (b2n (xlen x =? 0))]
  | 37 => let! a := val c 0 in let! b := val c 1 in
          let! ha := x_hash P a in let! hb := x_hash P b in
          Ok [IN (b2n (x_eq a b)); IL (flatten_pairs ha); IL (flatten_pairs hb)]
  (* ---- edits *)
  (* write(&mut sink, e) into a bounded sink: args [endianness; total capacity in bytes; bytes per write() call] *)
  | 38 => let! x := val c 0 in
          let! bytes := x_to_vec x (endian_of (arg c 0)) in
          let '(out, st) := write_all_sink (S (length bytes)) (arg c 2) (arg c 1) bytes [] in
          Ok [IL out; IN st]
  | 40 => let! x := val c 0 in ret_v (x_set P x (arg c 0) (arg c 1))
  | 41 => let! x := val c 0 in ret_v (x_push P x (arg c 0))
  | 42 => let! x := val c 0 in let! (y, o) := x_pop P x in Ok [IV y; IN (opt2n o)]
  | 43 => let! x := val c 0 in ret_v (x_resize x (arg c 0) (arg c 1))
  | 44 => let! x := val c 0 in ret_v (x_truncate x (arg c 0))
  | 45 => let! x := val c 0 in ret_v (x_sign_extend P x (arg c 0))
  | 46 => let! x := val c 0 in let! s := val c 1 in ret_v (x_append x s)
  | 47 => let! x := val c 0 in let! s := val c 1 in ret_v (x_prepend x s)
  | 48 => let! x := val c 0 in let! s := val c 1 in ret_v (x_insert P x (arg c 0) s)
  | 49 => let! x := val c 0 in let! (lo, hi) := x_split_off P x (arg c 0) in Ok [IV lo; IV hi]
  | 50 => let! x := val c 0 in let! (lo, hi) := x_split_off P x (arg c 0) in Ok [IV hi; IV lo]
  | 51 => let! x := val c 0 in ret_v (x_copy_range P x (arg c 0) (arg c 1))
  | 52 => let! x := val c 0 in let '(y, b) := x_shl_in x (arg c 0) in Ok [IV y; IN b]
  | 53 => let! x := val c 0 in let '(y, b) := x_shr_in x (arg c 0) in Ok [IV y; IN b]
  | 54 => let! x := val c 0 in ret_v (x_rotl x (arg c 0))
  | 55 => let! x := val c 0 in ret_v (x_rotr x (arg c 0))
  | 56 => let! x := val c 0 in ret_v (x_reserve x (arg c 0))
  | 57 => let! x := val c 0 in ret_v (x_shrink_to_fit x)
  | 58 => let! x := val c 0 in ret_v (x_extend P x (arg c 0) (lst c 0))
  (* ---- operators *)
  | 60 => let! x := val c 0 in ret_v (x_not (byref_lhs c) x)
  | 61 => let! x := val c 0 in ret_v (x_shl (byref_lhs c) x (arg c 1))
  | 62 => let! x := val c 0 in ret_v (x_shr (byref_lhs c) x (arg c 1))
  | 63 => let! a := val c 0 in let! b := rhs_of c a in ret_v (x_bitop OpAnd a b)
  | 64 => let! a := val c 0 in let! b := rhs_of c a in ret_v (x_bitop OpOr a b)
  | 65 => let! a := val c 0 in let! b := rhs_of c a in ret_v (x_bitop OpXor a b)
  | 66 => let! a := val c 0 in let! b := rhs_of c a in ret_v (x_addsub OpAdd a b)
  | 67 => let! a := val c 0 in let! b := rhs_of c a in ret_v (x_addsub OpSub a b)
  | 68 => let! a := val c 0 in let! b := rhs_of c a in ret_v (x_mul P a b)
  | 69 => let! a := val c 0 in let! b := rhs_of c a in
          let! (q, _) := x_divrem_op P a b in Ok [IV q]
  | 70 => let! a := val c 0 in let! b := rhs_of c a in
          let! (_, r) := x_divrem_op P a b in Ok [IV r]
  | 71 => let! a := val c 0 in let! b := val c 1 in
          let! (q, r) := x_div_rem P a b in Ok [IV q; IV r]
  (* ---- the Integer trait and the slice re-chunking, reached through the cfg(bva_verif) hook *)
  | 90 => let '(v, cy) := cadd (arg c 0) (arg c 1) (arg c 2) (arg c 3) in Ok [IN v; IN cy]
  | 91 => let '(v, cy) := csub (arg c 0) (arg c 1) (arg c 2) (arg c 3) in Ok [IN v; IN cy]
  | 92 => let '(lo, hi) := wmul (arg c 0) (arg c 1) (arg c 2) in Ok [IN lo; IN hi]
  | 93 => Ok [IN (maskw (arg c 0) (arg c 1))]
  | 94 => let w := arg c 0 in let x := arg c 1 in Ok [IN (clz w x); IN (clo w x); IN (ctz w x); IN (cto w x)]
  | 95 => Ok [IN (slice_int_len (arg c 0) (arg c 1) (lst c 0));
              IN (match slice_get_int (arg c 0) (arg c 1) (lst c 0) (arg c 2) with Some x => x | None => 0 end);
              IN (match slice_get_int (arg c 0) (arg c 1) (lst c 0) (arg c 2) with Some _ => 1 | None => 0 end)]
  | 96 => Ok [IL (match slice_set_int (arg c 0) (arg c 1) (lst c 0) (arg c 2) (arg c 3) with
                  Some d => d | None => lst c 0 end)]
  (* ---- Bit conversions *)
  (* bit.rs: `From<uN> for Bit` (0 -> Zero, anything else -> One), observed directly; `From<Bit> for uN` of that
     bit; `From<Bit>` of the two constants Zero, One; `Display` of Zero, One.  Bits are numbered Zero = 0, One = 1. *)
  | 97 => let b := match arg c 0 with 0 => 0 | _ => 1 end in
          Ok [IN b; IN (match b with 0 => 0 | _ => 1 end); IN 0; IN 1; IL [48]; IL [49]]
  (* ---- verdict of an oracle that lives in the harness only (nothing of the crate is modelled here):
     1 = the oracle agreed *)
  | 99 => Ok [IN 1]
  | _ => OutOfFuel
  end.

(* ------------------------------------------------------------------ decoding a trace line *)

(* A line is a list of fields; a field is a list of numbers whose head is its tag:
   0 header [0; op; form; profile]      1 vector [1; tag; w; len; words...]  (tag 0 F, 1 D, 2 A fixed, 3 A dynamic)
   2 scalars [2; a0; a1; ...]           3 list [3; x0; x1; ...]              4 kind [4; tag; w; n] (tag 0 F, 1 D, 2 A)
   5 result status [5; 0 ok | 1 panic | 2 err ECap | 3 err EFmt i | 4 EEof | 5 EInvalidInput | 6 EInvalidData; i] *)

Definition decode_vec (f : list N) : option bvx :=
  match f with
  | tag :: w :: len :: ws =>
      Some (match tag with
            | 0 => XF w (mkwv ws len)
            | 1 => XD (mkwv ws len)
            | 2 => XA true (mkwv ws len)
            | _ => XA false (mkwv ws len)
            end)
  | _ => None
  end.

Definition decode_kind (f : list N) : kind :=
  match f with
  | 0 :: w :: n :: _ => KF w n
  | 1 :: _ => KD
  | _ => KA
  end.

Fixpoint decode_fields (fs : list (list N)) (c : case) : case :=
  match fs with
  | [] => c
  | (t :: f) :: r =>
      let c' :=
        match t with
        | 0 => match f with
               | op :: form :: p :: _ =>
                   mkcase op form (if p =? 0 then Debug else Release) (c_kind c) (c_args c) (c_vals c) (c_lists c)
               | _ => c end
        | 1 => match decode_vec f with
               | Some x => mkcase (c_op c) (c_form c) (c_prof c) (c_kind c) (c_args c) (c_vals c ++ [x]) (c_lists c)
               | None => c end
        | 2 => mkcase (c_op c) (c_form c) (c_prof c) (c_kind c) f (c_vals c) (c_lists c)
        | 3 => mkcase (c_op c) (c_form c) (c_prof c) (c_kind c) (c_args c) (c_vals c) (c_lists c ++ [f])
        | 4 => mkcase (c_op c) (c_form c) (c_prof c) (decode_kind f) (c_args c) (c_vals c) (c_lists c)
        | _ => c
        end in
      decode_fields r c'
  | [] :: r => decode_fields r c
  end.

Definition empty_case : case := mkcase 0 0 Debug KA [] [] [].
Definition decode_case (fs : list (list N)) : case := decode_fields fs empty_case.

Fixpoint decode_items (fs : list (list N)) : list item :=
  match fs with
  | [] => []
  | (1 :: f) :: r => match decode_vec f with Some x => IV x :: decode_items r | None => decode_items r end
  | (2 :: n :: _) :: r => IN n :: decode_items r
  | (3 :: l) :: r => IL l :: decode_items r
  | _ :: r => decode_items r
  end.

Definition decode_result (fs : list (list N)) : result :=
  match fs with
  | (5 :: st :: rest) :: items =>
      match st with
      | 0 => Ok (decode_items items)
      | 1 => Panic
      | 2 => Err ECap
      | 3 => Err (EFmt (nth 0 rest 0))
      | 4 => Err EEof
      | 5 => Err EInvalidInput
      | _ => Err EInvalidData
      end
  | _ => OutOfFuel
  end.

(* ------------------------------------------------------------------ comparing results *)

Fixpoint list_eqb (a b : list N) : bool :=
  match a, b with
  | [], [] => true
  | x :: a', y :: b' => (x =? y) && list_eqb a' b'
  | _, _ => false
  end.

Definition wv_eqb (a b : wv) : bool := (wl a =? wl b) && list_eqb (wd a) (wd b).

Definition bvx_eqb (a b : bvx) : bool :=
  match a, b with
  | XF w1 v1, XF w2 v2 => (w1 =? w2) && wv_eqb v1 v2
  | XD v1, XD v2 => wv_eqb v1 v2
  | XA f1 v1, XA f2 v2 => Bool.eqb f1 f2 && wv_eqb v1 v2
  | _, _ => false
  end.

Definition item_eqb (a b : item) : bool :=
  match a, b with
  | IV x, IV y => bvx_eqb x y
  | IN x, IN y => x =? y
  | IL x, IL y => list_eqb x y
  | _, _ => false
  end.

Fixpoint items_eqb (a b : list item) : bool :=
  match a, b with
  | [], [] => true
  | x :: a', y :: b' => item_eqb x y && items_eqb a' b'
  | _, _ => false
  end.

Definition err_eqb (a b : err) : bool :=
  match a, b with
  | ECap, ECap | EEof, EEof | EInvalidInput, EInvalidInput | EInvalidData, EInvalidData => true
  | EFmt i, EFmt j => i =? j
  | _, _ => false
  end.

Definition result_eqb (a b : result) : bool :=
  match a, b with
  | Ok x, Ok y => items_eqb x y
  | Panic, Panic => true
  | Err e, Err f => err_eqb e f
  | _, _ => false
  end.

(* CORR verdict for one decoded trace line *)
Definition corr_line (input output : list (list N)) : bool :=
  result_eqb (run_case (decode_case input)) (decode_result output).
