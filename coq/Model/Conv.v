(* Model of conversions (integers, slices, between implementations), Hash, formatting digits,
   the bit iterator, FromIterator / Extend.  Conventions as in Ops.v. *)
From BVA Require Import Base.Prelude Base.Result Base.Words Base.Limbs Model.Core Model.Ops Model.Arith.

(* ------------------------------------------------------------------ native integers *)

(* TryFrom<uT> for Bvf<I,N>; t = bits of T *)
Definition f_from_uint (w n t x : N) : outcome wv :=
  if t <=? w then
    (* match data.first_mut() { Some(d) => *d = cast(int), None if int == 0 => (), None => Err };
       length min(T::BITS, capacity): a type without storage words holds only the value 0 *)
    if 0 <? n then Ok (mkwv (setw (zerosw n) 0 x) (N.min t (w * n)))
    else if x =? 0 then Ok (mkwv (zerosw n) (N.min t (w * n))) else Err ECap
  else
    if w * n <? N.size x then Err ECap
    else
      (* int.checked_shr(i * BIT_UNIT).unwrap_or(0) as I *)
      let d := mapi (fun i _ => if i * w <? t then wrap w (shrw x (i * w)) else 0) (zerosw n) in
      Ok (mkwv d (N.min t (w * n))).

(* TryFrom<&Bvf<I,N>> for uT (repaired: empty vector gives 0) *)
Definition f_to_uint (w t sig : N) (v : wv) : outcome N :=
  if t <? sig then Err ECap else Ok (odefault (v_get_int w t v 0) 0).

(* From<uT> for Bvd: the one-element array [st] re-chunked into u64 words *)
Definition d_from_uint (t x : N) : outcome wv :=
  let arr := [x] in
  let! d := omap_list (fun i => unwrap (slice_get_int t W64 arr i)) (nrange (slice_int_len t W64 arr)) in
  Ok (mkwv d t).

(* TryFrom<&Bvd> for uT *)
Definition d_to_uint (t sig : N) (v : wv) : outcome N :=
  if t <? sig then Err ECap
  else
    fold_left (fun acc i =>
                 let! r := acc in
                 let! x := geto (wd v) i in
                 (* r.checked_shl(64).unwrap_or(0) | data[i] as T *)
                 Ok (N.lor (if W64 <? t then shlw t r W64 else 0) (wrap t x)))
              (rev (nrange (cfbl_d (wl v)))) (Ok 0).

(* ------------------------------------------------------------------ slices of integers *)

(* TryFrom<&[J]> for Bvf<I,N> *)
Definition f_from_slice (w n j : N) (s : list N) : outcome wv :=
  if lenw s * j <=? w * n then
    let! z := f_zeros w n (lenw s * j) in
    Ok (fold_left (fun v p => v_set_int w j v (fst p) (snd p)) (enum s) z)
  else Err ECap.

(* From<&[I]> for Bvd *)
Definition d_from_slice (j : N) (s : list N) : wv :=
  fold_left (fun v p => v_set_int W64 j v (fst p) (snd p)) (enum s) (d_zeros (lenw s * j)).

(* ------------------------------------------------------------------ between implementations *)

(* TryFrom<&Bvf<I1,N1>> for Bvf<I2,N2> *)
Definition f_from_f (w2 n2 : N) (w1 : N) (src : wv) : outcome wv :=
  if w2 * n2 <? wl src then Err ECap
  else
    let k := N.min n2 (v_int_len w2 src) in
    let! d := fold_left (fun acc i => let! d := acc in
                                      let! x := unwrap (v_get_int w1 w2 src i) in
                                      seto d i x)
                        (nrange k) (Ok (zerosw n2)) in
    Ok (mkwv d (wl src)).

(* TryFrom<&Bvd> for Bvf<I,N> *)
Definition f_from_d (w n : N) (src : wv) : outcome wv :=
  if w * n <? wl src then Err ECap
  else Ok (mkwv (mapi (fun i _ => odefault (v_get_int W64 w src i) 0) (zerosw n)) (wl src)).

(* TryFrom<&Bv> for Bvf<I,N>; src is the Bv's current variant (either is a 64-bit word vector) *)
Definition f_from_a (w n : N) (src : wv) : outcome wv :=
  if w * n <? wl src then Err ECap
  else
    let! d := fold_left (fun acc i => let! d := acc in
                                      let! x := unwrap (v_get_int W64 w src i) in
                                      seto d i x)
                        (nrange (v_int_len w src)) (Ok (zerosw n)) in
    Ok (mkwv d (wl src)).

(* From<&Bvf<I,N>> for Bvd *)
Definition d_from_f (w : N) (src : wv) : outcome wv :=
  let! d := omap_list (fun i => unwrap (v_get_int w W64 src i)) (nrange (v_int_len W64 src)) in
  Ok (mkwv d (wl src)).

(* ------------------------------------------------------------------ Hash (repaired: the value only) *)

(* tokens fed to the Hasher: (width in bits, value) per write_uN call; first the number of
   significant bits (as usize), then the words holding them *)
Definition f_hash (w sig : N) (v : wv) : outcome (list (N * N)) :=
  let! ws := omap_list (fun i => let! x := geto (wd v) i in Ok (w, x)) (nrange (cfbl_f w sig)) in
  Ok ((W64, sig) :: ws).
Definition d_hash (sig : N) (v : wv) : outcome (list (N * N)) :=
  let! ws := omap_list (fun i => let! x := geto (wd v) i in Ok (W64, x)) (nrange (cfbl_d sig)) in
  Ok ((W64, sig) :: ws).
(* Hash for Bv: get_int::<u64>(i).unwrap() *)
Definition a_hash (sig : N) (v : wv) : outcome (list (N * N)) :=
  let! ws := omap_list (fun i => let! x := unwrap (v_get_int W64 W64 v i) in Ok (W64, x)) (nrange ((sig + 63) / 64)) in
  Ok ((W64, sig) :: ws).

(* ------------------------------------------------------------------ formatting digits *)

Definition digit_char (upper : bool) (x : N) : N :=
  if x <? 10 then 48 + x else (if upper then 55 else 87) + x.

(* Binary: skip leading zeros from the top with get(), then emit; "0" when empty *)
Fixpoint bin_digits_loop (getb : N -> outcome N) (n : nat) (started : bool) (acc : list N)
  : outcome (list N) :=
  match n with
  | O => Ok (rev acc)
  | S k =>
      let! b := getb (N.of_nat k) in
      if (negb started) && (b =? 0) then bin_digits_loop getb k false acc
      else bin_digits_loop getb k true ((48 + b) :: acc)
  end.
Definition fmt_binary (P : profile) (w : N) (v : wv) : outcome (list N) :=
  let! s := bin_digits_loop (v_get P w v) (N.to_nat (wl v)) false [] in
  Ok (if lenw s =? 0 then [48] else s).

(* LowerHex / UpperHex: nibbles straight from storage, (len+3)/4 of them *)
Fixpoint hex_digits_loop (w : N) (d : list N) (upper : bool) (n : nat) (started : bool) (acc : list N)
  : outcome (list N) :=
  match n with
  | O => Ok (rev acc)
  | S k =>
      let i := N.of_nat k in
      let nu := w / 4 in
      let! x := geto d (i / nu) in
      let nib := N.land (wrap 8 (shrw x ((i mod nu) * 4))) 15 in
      if (negb started) && (nib =? 0) then hex_digits_loop w d upper k false acc
      else hex_digits_loop w d upper k true (digit_char upper nib :: acc)
  end.
Definition fmt_hex (w : N) (v : wv) (upper : bool) : outcome (list N) :=
  let! s := hex_digits_loop w (wd v) upper (N.to_nat ((wl v + 3) / 4)) false [] in
  Ok (if lenw s =? 0 then [48] else s).

(* Octal: triples from the iterator (bit 0 first), truncated after the last non-zero one *)
Fixpoint oct_groups (bits : list N) : list N :=
  match bits with
  | [] => []
  | b0 :: [] => [b0]
  | b0 :: b1 :: [] => [2 * b1 + b0]
  | b0 :: b1 :: b2 :: r => (4 * b2 + 2 * b1 + b0) :: oct_groups r
  end.
Definition last_nz (l : list N) : N :=
  fst (fold_left (fun (st : N * N) x => let '(nz, i) := st in ((if x =? 0 then nz else i), i + 1)) l (0, 0)).
Definition fmt_octal (P : profile) (w : N) (v : wv) : outcome (list N) :=
  let! bits := omap_list (v_get P w v) (nrange (wl v)) in
  let s := oct_groups bits in
  let s := if lenw s =? 0 then [0] else s in
  let s := firstn (N.to_nat (last_nz s + 1)) s in
  Ok (map (fun x => 48 + x) (rev s)).

(* core::fmt::Formatter::pad_integral(true, prefix, digits) as documented:
   flags: plus (+), alt (#), zero (0), width, fill, align (0 none/default, 1 <, 2 ^, 3 >) *)
Record fspec := mkfspec { f_plus : bool; f_alt : bool; f_zero : bool; f_width : N; f_fill : N; f_align : N }.

Definition repeatc (c n : N) : list N := repeat c (N.to_nat n).

Definition pad_integral (f : fspec) (prefix digits : list N) : list N :=
  let sign := if f_plus f then [43] else [] in
  let pre := if f_alt f then prefix else [] in
  let body := sign ++ pre ++ digits in
  let n := lenw body in
  if f_width f <=? n then body
  else
    let pad := f_width f - n in
    if f_zero f then sign ++ pre ++ repeatc 48 pad ++ digits
    else
      let fill := f_fill f in
      match f_align f with
      | 1 => body ++ repeatc fill pad
      | 2 => repeatc fill (pad / 2) ++ body ++ repeatc fill ((pad + 1) / 2)
      | _ => repeatc fill pad ++ body        (* numbers default to right alignment *)
      end.

(* ------------------------------------------------------------------ bit iterator (iter.rs, repaired) *)

Inductive icall :=
| INext | INextBack | INth (n : N) | INthBack (n : N) | ISizeHint | ICount | ILast
| IRev.   (* wrap the iterator in std's Rev adaptor: front and back calls swap from here on *)

(* answers: a bit is 0/1, None is 2; size_hint / count return the number *)
Definition iter_step (getb : N -> outcome N) (st : N * N) (c : icall) : outcome (N * N * N) :=
  let '(s, e) := st in
  match c with
  | INext => if s <? e then let! b := getb s in Ok (s + 1, e, b) else Ok (s, e, 2)
  | INextBack => if s <? e then let! b := getb (e - 1) in Ok (s, e - 1, b) else Ok (s, e, 2)
  | INth n => if n <? e - s then let! b := getb (s + n) in Ok (s + n + 1, e, b) else Ok (e, e, 2)
  | INthBack n => if n <? e - s then let! b := getb (e - (n + 1)) in Ok (s, e - (n + 1), b) else Ok (s, s, 2)
  | ISizeHint => Ok (s, e, e - s)
  | ICount => Ok (s, e, e - s)
  | ILast => if s <? e then let! b := getb (e - 1) in Ok (s, e, b) else Ok (s, e, 2)
  | IRev => Ok (s, e, 3)
  end.

(* Rev<I>: next = next_back, nth = nth_back and vice versa; size_hint passes through; count
   and last are the Iterator defaults (fold over next_back): the number left, and the last
   item produced from the back, i.e. the front one *)
Definition rev_call (getb : N -> outcome N) (st : N * N) (c : icall) : outcome (N * N * N) :=
  let '(s, e) := st in
  match c with
  | INext => iter_step getb st INextBack
  | INextBack => iter_step getb st INext
  | INth n => iter_step getb st (INthBack n)
  | INthBack n => iter_step getb st (INth n)
  | ILast => if s <? e then let! b := getb s in Ok (s, e, b) else Ok (s, e, 2)
  | c => iter_step getb st c
  end.

Fixpoint iter_run (getb : N -> outcome N) (rv : bool) (st : N * N) (cs : list icall) : outcome (list N) :=
  match cs with
  | [] => Ok []
  | c :: r =>
      let! (s, e, a) := (if rv then rev_call else iter_step) getb st c in
      let rv' := match c with IRev => negb rv | _ => rv end in
      let! rest := iter_run getb rv' (s, e) r in
      Ok (a :: rest)
  end.
