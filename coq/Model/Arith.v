(* Model of the operator bodies of fixed.rs and dynamic.rs: Not, & | ^, + -, *, comparisons.
   Conventions as in Ops.v.  A right-hand operand of a generic impl is a `bvx`; the impl
   that the Rust compiler selects for an operand pairing is chosen in Run.v / Auto.v. *)
From BVA Require Import Base.Prelude Base.Result Base.Words Base.Limbs Model.Core Model.Ops.

Inductive bitop := OpAnd | OpOr | OpXor.
Definition bitop_fn (o : bitop) : N -> N -> N :=
  match o with OpAnd => N.land | OpOr => N.lor | OpXor => N.lxor end.

Inductive addop := OpAdd | OpSub.

(* `a + b` on words of type I: overflow check panics in Debug, wraps in Release *)
Definition wadd (P : profile) (w a b : N) : outcome N :=
  if a + b <? pow2 w then Ok (a + b)
  else match P with Debug => Panic | Release => Ok (wrap w (a + b)) end.

(* ------------------------------------------------------------------ Not *)

(* Not for Bvf: all N words, then mod2n *)
Definition f_not (w : N) (v : wv) : wv :=
  mkwv (mod2n w (map (notw w) (wd v)) (wl v)) (wl v).

Definition mask_top64 (d : list N) (len : N) : list N :=
  upd_at d (len / W64) (fun l => N.land l (maskw W64 (len mod W64))).

(* Not for Bvd (by value): `for i in 0..cfbl(len) { data[i] = !data[i] }`, then mask one word *)
Definition d_not (v : wv) : outcome wv :=
  let k := cfbl_d (wl v) in
  if lenw (wd v) <? k then Panic
  else
    let d := mapi (fun i x => if i <? k then notw W64 x else x) (wd v) in
    Ok (mkwv (mask_top64 d (wl v)) (wl v)).

(* Not for &Bvd: fresh storage holding exactly the used words *)
Definition d_not_ref (v : wv) : outcome wv :=
  let k := cfbl_d (wl v) in
  if lenw (wd v) <? k then Panic
  else
    let d := map (notw W64) (firstn (N.to_nat k) (wd v)) in
    Ok (mkwv (mask_top64 d (wl v)) (wl v)).

(* ------------------------------------------------------------------ & | ^ (assign forms) *)

(* BitXxxAssign<&Bvf<I2,N2>> for Bvf<I1,N1> (w1 = self, rhs of width w2), repaired: mod2n *)
Definition f_bitop_f (o : bitop) (w1 : N) (v : wv) (w2 : N) (r : wv) : wv :=
  let f := bitop_fn o in
  let d :=
    if w1 =? w2 then
      (* for i in 0..min(N1,N2) { self[i] op= rhs.data[i] }  for i in N2..N1 { self[i] op= 0 } *)
      mapi (fun i x => f x (getw (wd r) i)) (wd v)
    else
      mapi (fun i x => f x (odefault (v_get_int w2 w1 r i) 0)) (wd v) in
  mkwv (mod2n w1 d (wl v)) (wl v).

(* BitXxxAssign<&Bvd> for Bvf<I,N> *)
Definition f_bitop_d (o : bitop) (w : N) (v : wv) (r : wv) : wv :=
  let f := bitop_fn o in
  mkwv (mod2n w (mapi (fun i x => f x (odefault (v_get_int W64 w r i) 0)) (wd v)) (wl v)) (wl v).

(* BitXxxAssign<&Bvd> for Bvd, repaired: final mask *)
Definition d_bitop_d (o : bitop) (v r : wv) : outcome wv :=
  let f := bitop_fn o in
  let ks := cfbl_d (wl v) in let kr := cfbl_d (wl r) in
  if (lenw (wd v) <? ks) || (lenw (wd r) <? N.min ks kr) then Panic
  else
    let d := mapi (fun i x => if i <? N.min ks kr then f x (getw (wd r) i)
                              else if (kr <=? i) && (i <? ks) then f x 0 else x) (wd v) in
    Ok (mkwv (mask_top64 d (wl v)) (wl v)).

(* BitXxxAssign<&Bvf<I,N>> for Bvd, repaired: bounded by the used words, final mask *)
Definition d_bitop_f (o : bitop) (v : wv) (w2 : N) (r : wv) : outcome wv :=
  let f := bitop_fn o in
  let ks := cfbl_d (wl v) in
  let kr := v_int_len W64 r in
  if lenw (wd v) <? ks then Panic
  else
    let m := N.min kr ks in
    let! d := omap_list (fun p : N * N =>
                           let '(i, x) := p in
                           if i <? m then let! y := unwrap (v_get_int w2 W64 r i) in Ok (f x y)
                           else if i <? ks then Ok (f x 0) else Ok x)
                        (enum (wd v)) in
    Ok (mkwv (mask_top64 d (wl v)) (wl v)).

(* ------------------------------------------------------------------ + - (assign forms) *)

(* a carry chain over the words of `d`, the i-th right-hand word being `rhs i` *)
Fixpoint carry_chain (step : N -> N -> N -> N * N) (rhs : N -> N) (d : list N) (i c : N) : list N * N :=
  match d with
  | [] => ([], c)
  | x :: r =>
      let '(y, c') := step x (rhs i) c in
      let '(r', c'') := carry_chain step rhs r (i + 1) c' in
      (y :: r', c'')
  end.

Definition cstep (o : addop) (w : N) : N -> N -> N -> N * N :=
  match o with OpAdd => cadd w | OpSub => csub w end.

(* AddAssign / SubAssign<&Bvf<I2,N2>> for Bvf<I1,N1> *)
Definition f_addsub_f (o : addop) (w1 : N) (v : wv) (w2 : N) (r : wv) : wv :=
  let rhs := if w1 =? w2 then (fun i => getw (wd r) i)
             else (fun i => odefault (v_get_int w2 w1 r i) 0) in
  let '(d, _) := carry_chain (cstep o w1) rhs (wd v) 0 0 in
  mkwv (mod2n w1 d (wl v)) (wl v).

(* AddAssign / SubAssign<&Bvd> for Bvf<I,N> *)
Definition f_addsub_d (o : addop) (w : N) (v r : wv) : wv :=
  let '(d, _) := carry_chain (cstep o w) (fun i => odefault (v_get_int W64 w r i) 0) (wd v) 0 0 in
  mkwv (mod2n w d (wl v)) (wl v).

(* the Bvd variants use two overflowing operations per word, carry first, and `c1 | c2` *)
Definition ostep (o : addop) : N -> N -> N -> N * N :=
  fun x y c =>
    let op := match o with OpAdd => oadd W64 | OpSub => osub W64 end in
    let '(d1, c1) := op x c in
    let '(d2, c2) := op d1 y in
    (d2, N.lor c1 c2).

(* one loop over word indices [a, b) of d applying `step x (rhs i) carry`; checked indexing *)
Definition chain_range (step : N -> N -> N -> N * N) (rhs : N -> outcome N)
           (d : list N) (a b c : N) : outcome (list N * N) :=
  fold_left (fun acc i =>
               let! (d, c) := acc in
               let! x := geto d i in
               let! y := rhs i in
               let '(z, c') := step x y c in
               let! d' := seto d i z in
               Ok (d', c'))
            (map (fun i => a + i) (nrange (b - a))) (Ok (d, c)).

(* AddAssign / SubAssign<&Bvd> for Bvd *)
Definition d_addsub_d (o : addop) (v r : wv) : outcome wv :=
  let ks := cfbl_d (wl v) in let kr := cfbl_d (wl r) in
  let! (d1, c1) := chain_range (ostep o) (fun i => geto (wd r) i) (wd v) 0 (N.min ks kr) 0 in
  let! (d2, _) := chain_range (ostep o) (fun _ => Ok 0) d1 kr ks c1 in
  Ok (mkwv (mask_top64 d2 (wl v)) (wl v)).

(* AddAssign / SubAssign<&Bvf<I,N>> for Bvd, repaired: first loop bounded by the used words *)
Definition d_addsub_f (o : addop) (v : wv) (w2 : N) (r : wv) : outcome wv :=
  let ks := cfbl_d (wl v) in
  let kr := v_int_len W64 r in
  let! (d1, c1) := chain_range (ostep o) (fun i => unwrap (v_get_int w2 W64 r i)) (wd v) 0 (N.min kr ks) 0 in
  let! (d2, _) := chain_range (ostep o) (fun _ => Ok 0) d1 kr ks c1 in
  Ok (mkwv (mask_top64 d2 (wl v)) (wl v)).

(* ------------------------------------------------------------------ * *)

(* inner loop: for j in 0..n { (lo,hi) = a.wmul(rhs j); carry = res[i+j].cadd(lo, carry) + hi } *)
Fixpoint mul_row (P : profile) (w a : N) (rhs : N -> N) (res : list N) (i j : N) (n : nat) (carry : N)
  : outcome (list N) :=
  match n with
  | O => Ok res
  | S n' =>
      let '(lo, hi) := wmul w a (rhs j) in
      let! x := geto res (i + j) in
      let '(y, c) := cadd w x lo carry in
      let! res' := seto res (i + j) y in
      let! carry' := wadd P w c hi in
      mul_row P w a rhs res' i (j + 1) n' carry'
  end.

(* outer loop: for i in 0..len { row i with len - i columns } *)
Definition mul_rows (P : profile) (w : N) (a : list N) (rhs : N -> N) (res : list N) (len : N)
  : outcome (list N) :=
  fold_left (fun acc i =>
               let! res := acc in
               let! ai := geto a i in
               mul_row P w ai rhs res i 0 (N.to_nat (len - i)) 0)
            (nrange len) (Ok res).

(* Mul<&Bvf<I2,N2>> for &Bvf<I1,N1> and Mul<&Bvd> for &Bvf<I,N>: rhs through get_int::<I1> *)
Definition f_mul (P : profile) (w1 : N) (v : wv) (w2 : N) (r : wv) : outcome wv :=
  let n := lenw (wd v) in
  let! res := f_zeros w1 n (wl v) in
  let len := v_int_len w1 res in
  let! d := mul_rows P w1 (wd v) (fun j => odefault (v_get_int w2 w1 r j) 0) (wd res) len in
  Ok (mkwv (mod2n w1 d (wl v)) (wl v)).

(* Mul<&Bvd> for &Bvd: raw right-hand words *)
Definition d_mul_d (P : profile) (v r : wv) : outcome wv :=
  let res := d_zeros (wl v) in
  let len := cfbl_d (wl res) in
  let! d := mul_rows P W64 (wd v) (fun j => getw (wd r) j) (wd res) len in
  Ok (mkwv (mask_top64 d (wl v)) (wl v)).

(* Mul<&Bvf<I,N>> for &Bvd *)
Definition d_mul_f (P : profile) (v : wv) (w2 : N) (r : wv) : outcome wv :=
  let res := d_zeros (wl v) in
  let len := v_int_len W64 res in
  let! d := mul_rows P W64 (wd v) (fun j => odefault (v_get_int w2 W64 r j) 0) (wd res) len in
  Ok (mkwv (mask_top64 d (wl v)) (wl v)).

(* ------------------------------------------------------------------ comparisons *)

(* lexicographic scan from the top: `for i in (0..n).rev() { match a(i).cmp(b(i)) { Equal => continue, o => return o } }` *)
Definition cmp_words (a b : N -> N) (n : N) : comparison :=
  fold_left (fun acc i => match acc with Eq => N.compare (a i) (b i) | o => o end)
            (rev (nrange n)) Eq.
Definition eq_words (a b : N -> N) (n : N) : bool :=
  forallb (fun i => a i =? b i) (nrange n).

(* PartialEq / PartialOrd<Bvf<I1,N1>> for Bvf<I2,N2>: both sides through get_int::<I1> *)
Definition ff_words (w_self : N) (s : wv) (w_other : N) (o : wv) :=
  (fun i => odefault (v_get_int w_self w_other s i) 0,
   fun i => odefault (v_get_int w_other w_other o i) 0,
   N.max (v_int_len w_other s) (v_int_len w_other o)).
Definition f_eq_f w1 s w2 o := let '(a, b, n) := ff_words w1 s w2 o in eq_words a b n.
Definition f_cmp_f w1 s w2 o := let '(a, b, n) := ff_words w1 s w2 o in cmp_words a b n.

(* PartialEq / Ord for Bvd: every allocated word of both *)
Definition dd_words (s o : wv) :=
  (fun i => getw (wd s) i, fun i => getw (wd o) i, N.max (lenw (wd s)) (lenw (wd o))).
Definition d_eq_d s o := let '(a, b, n) := dd_words s o in eq_words a b n.
Definition d_cmp_d s o := let '(a, b, n) := dd_words s o in cmp_words a b n.

(* PartialEq / PartialOrd<Bvf<I,N>> for Bvd: note the bound max(self.len() in BITS, int_len) *)
Definition df_words (s : wv) (w2 : N) (o : wv) :=
  (fun i => getw (wd s) i, fun i => odefault (v_get_int w2 W64 o i) 0,
   N.max (wl s) (v_int_len W64 o)).
Definition d_eq_f s w2 o := let '(a, b, n) := df_words s w2 o in eq_words a b n.
Definition d_cmp_f s w2 o := let '(a, b, n) := df_words s w2 o in cmp_words a b n.

Definition cmp_rev (c : comparison) : comparison := CompOpp c.
