(* Model of auto.rs (Bv dispatches on its variant, promotes and demotes) together with the
   type-level dispatch the Rust compiler performs for each operand pairing: every function
   here takes values of the three public types (`bvx`) and selects the fixed.rs / dynamic.rs
   body that the corresponding impl runs.  Trait default methods of lib.rs (truncate,
   sign_extend, insert, split_off, split, first, last, significant_bits) are here as well. *)
From BVA Require Import Base.Prelude Base.Result Base.Words Base.Limbs.
From BVA Require Import Model.Core Model.Ops Model.Arith Model.Conv.

Inductive kind := KF (w n : N) | KD | KA.

Definition BVP_W : N := 64.      (* Bvp = Bv128 = Bvf<u64,2> on a 64-bit target *)
Definition BVP_N : N := 2.
Definition BVP_CAP : N := 128.

Definition kind_of (x : bvx) : kind :=
  match x with XF w v => KF w (lenw (wd v)) | XD _ => KD | XA _ _ => KA end.

(* a Bv seen as the variant it currently holds *)
Definition core (x : bvx) : bvx :=
  match x with XA true v => XF BVP_W v | XA false v => XD v | _ => x end.
(* put a result of the variant's method back into the enum *)
Definition rewrap (x : bvx) (r : bvx) : bvx :=
  match x with XA fx _ => XA fx (xv r) | _ => r end.

(* ------------------------------------------------------------------ constructors *)

Definition k_zeros (k : kind) (len : N) : outcome bvx :=
  match k with
  | KF w n => let! v := f_zeros w n len in Ok (XF w v)
  | KD => Ok (XD (d_zeros len))
  | KA => if len <=? BVP_CAP then let! v := f_zeros BVP_W BVP_N len in Ok (XA true v)
          else Ok (XA false (d_zeros len))
  end.

Definition k_ones (k : kind) (len : N) : outcome bvx :=
  match k with
  | KF w n => let! v := f_ones w n len in Ok (XF w v)
  | KD => Ok (XD (d_ones len))
  | KA => if len <=? BVP_CAP then let! v := f_ones BVP_W BVP_N len in Ok (XA true v)
          else Ok (XA false (d_ones len))
  end.

Definition k_with_capacity (k : kind) (c : N) : outcome bvx :=
  match k with
  | KF w n => let! v := f_with_capacity w n c in Ok (XF w v)
  | KD => Ok (XD (d_with_capacity c))
  | KA => if c <=? BVP_CAP then let! v := f_with_capacity BVP_W BVP_N c in Ok (XA true v)
          else Ok (XA false (d_with_capacity c))
  end.

Definition k_from_binary (k : kind) (s : list N) : outcome bvx :=
  match k with
  | KF w n => let! v := f_from_binary w n s in Ok (XF w v)
  | KD => let! v := d_from_binary s in Ok (XD v)
  | KA => if utf8_len s <=? BVP_CAP then let! v := f_from_binary BVP_W BVP_N s in Ok (XA true v)
          else let! v := d_from_binary s in Ok (XA false v)
  end.

Definition k_from_hex (k : kind) (s : list N) : outcome bvx :=
  match k with
  | KF w n => let! v := f_from_hex w n s in Ok (XF w v)
  | KD => let! v := d_from_hex s in Ok (XD v)
  | KA => if utf8_len s * 4 <=? BVP_CAP then let! v := f_from_hex BVP_W BVP_N s in Ok (XA true v)
          else let! v := d_from_hex s in Ok (XA false v)
  end.

Definition k_from_bytes (k : kind) (b : list N) (e : endian) : outcome bvx :=
  match k with
  | KF w n => let! v := f_from_bytes w n b e in Ok (XF w v)
  | KD => Ok (XD (d_from_bytes b e))
  | KA => if lenw b * 8 <=? BVP_CAP then let! v := f_from_bytes BVP_W BVP_N b e in Ok (XA true v)
          else Ok (XA false (d_from_bytes b e))
  end.

Definition k_read (k : kind) (reader : list N) (len : N) (e : endian) : outcome (bvx * list N) :=
  match k with
  | KF w n => let! (v, r) := f_read w n reader len e in Ok (XF w v, r)
  | KD => let! (v, r) := d_read reader len e in Ok (XD v, r)
  | KA => if len <=? BVP_CAP then let! (v, r) := f_read BVP_W BVP_N reader len e in Ok (XA true v, r)
          else let! (v, r) := d_read reader len e in Ok (XA false v, r)
  end.

(* TryFrom<uT> / From<uT>; t = width of the integer type *)
Definition k_from_uint (k : kind) (t x : N) : outcome bvx :=
  match k with
  | KF w n => let! v := f_from_uint w n t x in Ok (XF w v)
  | KD => let! v := d_from_uint t x in Ok (XD v)
  | KA => if t <=? BVP_CAP
          then match f_from_uint BVP_W BVP_N t x with
               | Ok v => Ok (XA true v) | _ => Panic (* .unwrap() *) end
          else let! v := d_from_uint t x in Ok (XA false v)
  end.

(* ------------------------------------------------------------------ simple observers *)

Definition x_capacity (x : bvx) : N :=
  match x with XA true _ => BVP_CAP | _ => capw (xw x) (xdata x) end.

Definition x_get (P : profile) (x : bvx) (i : N) : outcome N := v_get P (xw x) (xv x) i.

Definition x_to_vec (x : bvx) (e : endian) : outcome (list N) := v_to_vec (xw x) (xv x) e.

Definition is_fixed (x : bvx) : bool :=
  match x with XF _ _ => true | XD _ => false | XA fx _ => fx end.

Definition x_is_zero (x : bvx) : outcome bool :=
  if is_fixed x then Ok (f_is_zero (xv x)) else d_is_zero (xv x).

Definition x_count (which : N) (x : bvx) : N :=
  let w := xw x in
  let cf := if is_fixed x then cfbl_f w else cfbl_d in
  match which with
  | 0 => v_leading false cf w (xv x)
  | 1 => v_leading true cf w (xv x)
  | 2 => v_trailing false cf w (xv x)
  | _ => v_trailing true cf w (xv x)
  end.

Definition x_sigbits (P : profile) (x : bvx) : outcome N := v_sigbits P (x_count 0 x) (xv x).

Definition x_first (P : profile) (x : bvx) : outcome N :=
  if 0 <? xlen x then x_get P x 0 else Ok 2.
Definition x_last (P : profile) (x : bvx) : outcome N :=
  if 0 <? xlen x then x_get P x (xlen x - 1) else Ok 2.

(* ------------------------------------------------------------------ conversions between types *)

(* TryFrom<&B> for Bvf<I,N> *)
Definition to_fixed (w n : N) (src : bvx) : outcome wv :=
  match src with
  | XF w1 v => f_from_f w n w1 v
  | XD v => f_from_d w n v
  | XA _ v => f_from_a w n v
  end.

(* From<&B> for Bvd; `byval` matters only for storage reuse, which a value model cannot see *)
Definition to_dyn (src : bvx) : outcome wv :=
  match src with
  | XF w v => d_from_f w v
  | XD v => Ok v
  | XA true v => d_from_f BVP_W v
  | XA false v => Ok v
  end.

(* From<&B> for Bv *)
Definition to_auto (src : bvx) : outcome bvx :=
  match src with
  | XF w v =>
      if capw w (wd v) <=? BVP_CAP
      then match f_from_f BVP_W BVP_N w v with Ok r => Ok (XA true r) | _ => Panic end
      else let! r := d_from_f w v in Ok (XA false r)
  | XD v =>
      match f_from_d BVP_W BVP_N v with
      | Ok r => Ok (XA true r)
      | _ => Ok (XA false v)
      end
  | XA fx v => Ok (XA fx v)
  end.

Definition convert (k : kind) (src : bvx) : outcome bvx :=
  match k with
  | KF w n => let! v := to_fixed w n src in Ok (XF w v)
  | KD => let! v := to_dyn src in Ok (XD v)
  | KA => to_auto src
  end.

(* ------------------------------------------------------------------ reserve / shrink *)

Definition x_reserve (x : bvx) (additional : N) : outcome bvx :=
  match x with
  | XF _ _ => Ok x                          (* no such method on Bvf; never called *)
  | XD v => Ok (XD (d_reserve v additional))
  | XA true v =>
      if BVP_CAP <? wl v + additional
      then let! d := d_from_f BVP_W v in Ok (XA false (d_reserve d additional))
      else Ok x
  | XA false v => Ok (XA false (d_reserve v additional))
  end.

Definition x_shrink_to_fit (x : bvx) : outcome bvx :=
  match x with
  | XF _ _ => Ok x
  | XD v => Ok (XD (d_shrink_to_fit v))
  | XA true _ => Ok x
  | XA false v =>
      if wl v <=? BVP_CAP
      then match f_from_d BVP_W BVP_N v with Ok r => Ok (XA true r) | _ => Panic end
      else Ok (XA false (d_shrink_to_fit v))
  end.

(* ------------------------------------------------------------------ edits *)

Definition x_set (P : profile) (x : bvx) (i b : N) : outcome bvx :=
  let! v := v_set P (xw x) (xv x) i b in Ok (x_with x v).

Definition core_push (P : profile) (x : bvx) (b : N) : outcome bvx :=
  if is_fixed x then let! v := f_push P (xw x) (xv x) b in Ok (x_with x v)
  else let! v := d_push P (xv x) b in Ok (x_with x v).

Definition x_push (P : profile) (x : bvx) (b : N) : outcome bvx :=
  match x with
  | XA _ _ => let! x1 := x_reserve x 1 in core_push P x1 b
  | _ => core_push P x b
  end.

Definition x_pop (P : profile) (x : bvx) : outcome (bvx * option N) :=
  let! (v, o) := v_pop P (xw x) (xv x) in Ok (x_with x v, o).

Definition core_resize (x : bvx) (new_len b : N) : outcome bvx :=
  let! v := v_resize (is_fixed x) (xw x) (xv x) new_len b in Ok (x_with x v).

Definition x_resize (x : bvx) (new_len b : N) : outcome bvx :=
  match x with
  | XA _ _ =>
      let! x1 := if xlen x <? new_len then x_reserve x (new_len - xlen x) else Ok x in
      core_resize x1 new_len b
  | _ => core_resize x new_len b
  end.

(* BitVector::truncate (default) *)
Definition x_truncate (x : bvx) (new_len : N) : outcome bvx :=
  if new_len <? xlen x then x_resize x new_len 0 else Ok x.

(* BitVector::sign_extend (default) *)
Definition x_sign_extend (P : profile) (x : bvx) (new_len : N) : outcome bvx :=
  if xlen x <? new_len then
    let! sign := if xlen x =? 0 then Ok 0 else x_get P x (xlen x - 1) in
    x_resize x new_len sign
  else Ok x.

Definition x_shl_assign (x : bvx) (k : N) : outcome bvx :=
  let! v := v_shl_assign (xw x) (xv x) k in Ok (x_with x v).
Definition x_shr_assign (x : bvx) (k : N) : outcome bvx :=
  let! v := v_shr_assign (xw x) (xv x) k in Ok (x_with x v).

(* Bvf::append: byte-granular splice through get_int::<u8> / set_int::<u8> *)
Definition f_append (w : N) (v : wv) (suffix : bvx) : outcome wv :=
  let offset := wl v mod 8 in
  let slide := wl v / 8 in
  let! v1 := f_resize w v (wl v + xlen suffix) 0 in
  let nb := x_int_len 8 suffix in                 (* get_int::<u8>(i) is Some exactly for i < nb *)
  let gb := fun i => odefault (x_get_int 8 suffix i) 0 in
  if offset =? 0 then
    Ok (fold_left (fun acc i => v_set_int w 8 acc (i + slide) (gb i)) (nrange nb) v1)
  else if 0 <? nb then
    let v2 := v_set_int w 8 v1 slide
                (N.lor (odefault (v_get_int w 8 v1 slide) 0) (shlw 8 (gb 0) offset)) in
    let rev_offset := 8 - offset in
    let v3 := fold_left (fun acc i =>
                           v_set_int w 8 acc (i + slide)
                             (N.lor (shrw (gb (i - 1)) rev_offset) (shlw 8 (gb i) offset)))
                        (map (fun i => i + 1) (nrange (nb - 1))) v2 in
    Ok (v_set_int w 8 v3 (nb + slide) (shrw (gb (nb - 1)) rev_offset))
  else Ok v1.

(* Bvd::append: word-granular, `self.data[i + slide] = ..` with bounds checks *)
Definition d_append (v : wv) (suffix : bvx) : outcome wv :=
  let offset := wl v mod W64 in
  let slide := wl v / W64 in
  let! v1 := d_resize v (wl v + xlen suffix) 0 in
  let nb := x_int_len W64 suffix in
  let gb := fun i => odefault (x_get_int W64 suffix i) 0 in
  if offset =? 0 then
    let! d := fold_left (fun acc i => let! d := acc in seto d (i + slide) (gb i)) (nrange nb) (Ok (wd v1)) in
    Ok (mkwv d (wl v1))
  else if 0 <? nb then
    let! x0 := geto (wd v1) slide in
    let! d0 := seto (wd v1) slide (N.lor x0 (shlw W64 (gb 0) offset)) in
    let rev_offset := W64 - offset in
    let! d1 := fold_left (fun acc i =>
                            let! d := acc in
                            seto d (i + slide) (N.lor (shrw (gb (i - 1)) rev_offset) (shlw W64 (gb i) offset)))
                         (map (fun i => i + 1) (nrange (nb - 1))) (Ok d0) in
    Ok (mkwv (upd_at d1 (nb + slide) (fun _ => shrw (gb (nb - 1)) rev_offset)) (wl v1))
  else Ok v1.

(* Bvf::prepend (repaired: an empty prefix changes nothing) *)
Definition f_prepend (w : N) (v : wv) (prefix : bvx) : outcome wv :=
  if xlen prefix =? 0 then Ok v
  else
    let! v1 := f_resize w v (wl v + xlen prefix) 0 in
    let! v2 := v_shl_assign w v1 (xlen prefix) in
    let last := x_int_len 8 prefix - 1 in
    let! v3 := fold_left (fun acc i => let! a := acc in
                                       let! b := unwrap (x_get_int 8 prefix i) in
                                       Ok (v_set_int w 8 a i b))
                         (nrange last) (Ok v2) in
    let! a := unwrap (v_get_int w 8 v3 last) in
    let! b := unwrap (x_get_int 8 prefix last) in
    Ok (v_set_int w 8 v3 last (N.lor a b)).

(* Bvd::prepend (repaired likewise) *)
Definition d_prepend (v : wv) (prefix : bvx) : outcome wv :=
  if xlen prefix =? 0 then Ok v
  else
    let! v1 := d_resize v (wl v + xlen prefix) 0 in
    let! v2 := v_shl_assign W64 v1 (xlen prefix) in
    let last := x_int_len W64 prefix - 1 in
    let! d3 := fold_left (fun acc i => let! d := acc in
                                       let! b := unwrap (x_get_int W64 prefix i) in
                                       seto d i b)
                         (nrange last) (Ok (wd v2)) in
    let! b := unwrap (x_get_int W64 prefix last) in
    Ok (mkwv (upd_at d3 last (fun a => N.lor a b)) (wl v2)).

Definition x_append (x : bvx) (suffix : bvx) : outcome bvx :=
  match x with
  | XF w v => let! r := f_append w v suffix in Ok (XF w r)
  | XD v => let! r := d_append v suffix in Ok (XD r)
  | XA true v =>
      if wl v + xlen suffix <=? BVP_CAP
      then let! r := f_append BVP_W v suffix in Ok (XA true r)
      else let! d := d_from_f BVP_W v in let! r := d_append d suffix in Ok (XA false r)
  | XA false v => let! r := d_append v suffix in Ok (XA false r)
  end.

Definition x_prepend (x : bvx) (prefix : bvx) : outcome bvx :=
  match x with
  | XF w v => let! r := f_prepend w v prefix in Ok (XF w r)
  | XD v => let! r := d_prepend v prefix in Ok (XD r)
  | XA true v =>
      if wl v + xlen prefix <=? BVP_CAP
      then let! r := f_prepend BVP_W v prefix in Ok (XA true r)
      else let! d := d_from_f BVP_W v in let! r := d_prepend d prefix in Ok (XA false r)
  | XA false v => let! r := d_prepend v prefix in Ok (XA false r)
  end.

Definition x_copy_range (P : profile) (x : bvx) (s e : N) : outcome bvx :=
  match x with
  | XF w v => let! r := f_copy_range P w v s e in Ok (XF w r)
  | XD v => let! r := d_copy_range P v s e in Ok (XD r)
  | XA true v => let! r := f_copy_range P BVP_W v s e in Ok (XA true r)
  | XA false v =>
      let! r := d_copy_range P v s e in
      if wl r <=? BVP_CAP
      then match f_from_d BVP_W BVP_N r with Ok f => Ok (XA true f) | _ => Panic end
      else Ok (XA false r)
  end.

(* BitVector::split_off (default): returns (low part kept in place, high part) *)
Definition x_split_off (P : profile) (x : bvx) (i : N) : outcome (bvx * bvx) :=
  let! high := x_copy_range P x i (xlen x) in
  let! low := x_resize x i 0 in
  Ok (low, high).

(* BitVector::insert (default) *)
Definition x_insert (P : profile) (x : bvx) (i : N) (infix : bvx) : outcome bvx :=
  let! (low, tmp) := x_split_off P x i in
  let! a := x_append low infix in
  x_append a tmp.

Definition x_shl_in (x : bvx) (b : N) : bvx * N :=
  let '(v, c) := v_shl_in (xw x) (xv x) b in (x_with x v, c).
Definition x_shr_in (x : bvx) (b : N) : bvx * N :=
  let '(v, c) := v_shr_in (xw x) (xv x) b in (x_with x v, c).
Definition x_rotl (x : bvx) (r : N) : outcome bvx :=
  let! v := v_rotl (xw x) (xv x) r in Ok (x_with x v).
Definition x_rotr (x : bvx) (r : N) : outcome bvx :=
  let! v := v_rotr (xw x) (xv x) r in Ok (x_with x v).

(* FromIterator: with_capacity(size_hint().0) then push each; Extend: reserve(hint) then push *)
Definition k_from_iter (P : profile) (k : kind) (hint : N) (bits : list N) : outcome bvx :=
  let! z := k_with_capacity k hint in
  fold_left (fun acc b => let! x := acc in x_push P x b) bits (Ok z).

Definition x_extend (P : profile) (x : bvx) (hint : N) (bits : list N) : outcome bvx :=
  let! x0 := match x with XF _ _ => Ok x | _ => x_reserve x hint end in
  fold_left (fun acc b => let! y := acc in x_push P y b) bits (Ok x0).

(* ------------------------------------------------------------------ operators *)

(* Not, by value or by reference *)
Definition x_not (byref : bool) (x : bvx) : outcome bvx :=
  match x with
  | XF w v => Ok (XF w (f_not w v))
  | XD v => let! r := (if byref then d_not_ref v else d_not v) in Ok (XD r)
  | XA true v => Ok (XA true (f_not BVP_W v))
  | XA false v => let! r := (if byref then d_not_ref v else d_not v) in Ok (XA false r)
  end.

(* Shl / Shr; only `&Bvd << k` and `&Bvd >> k` have bodies of their own
   (`&Bv << k` clones and shifts in place) *)
Definition x_shl (byref : bool) (x : bvx) (k : N) : outcome bvx :=
  match x with
  | XD v => if byref then let! r := d_shl_ref v k in Ok (XD r) else x_shl_assign x k
  | _ => x_shl_assign x k
  end.
Definition x_shr (byref : bool) (x : bvx) (k : N) : outcome bvx :=
  match x with
  | XD v => if byref then let! r := d_shr_ref v k in Ok (XD r) else x_shr_assign x k
  | _ => x_shr_assign x k
  end.

(* the right-hand side an operator impl receives when the user passes a native integer *)
Definition lift_uint (lhs : bvx) (t x : N) : outcome bvx :=
  if is_fixed lhs
  then match f_from_uint BVP_W BVP_N t x with Ok v => Ok (XF BVP_W v) | _ => Panic end
  else let! v := d_from_uint t x in Ok (XD v).

Definition x_bitop (o : bitop) (lhs rhs : bvx) : outcome bvx :=
  let l := core lhs in let r := core rhs in
  let! res :=
    match l, r with
    | XF w v, XF w2 r => Ok (XF w (f_bitop_f o w v w2 r))
    | XF w v, XD r => Ok (XF w (f_bitop_d o w v r))
    | XD v, XF w2 r => let! y := d_bitop_f o v w2 r in Ok (XD y)
    | XD v, XD r => let! y := d_bitop_d o v r in Ok (XD y)
    | _, _ => Panic
    end in
  Ok (rewrap lhs res).

Definition x_addsub (o : addop) (lhs rhs : bvx) : outcome bvx :=
  let l := core lhs in let r := core rhs in
  let! res :=
    match l, r with
    | XF w v, XF w2 r => Ok (XF w (f_addsub_f o w v w2 r))
    | XF w v, XD r => Ok (XF w (f_addsub_d o w v r))
    | XD v, XF w2 r => let! y := d_addsub_f o v w2 r in Ok (XD y)
    | XD v, XD r => let! y := d_addsub_d o v r in Ok (XD y)
    | _, _ => Panic
    end in
  Ok (rewrap lhs res).

Definition x_mul (P : profile) (lhs rhs : bvx) : outcome bvx :=
  let l := core lhs in let r := core rhs in
  let! res :=
    match l, r with
    | XF w v, XF w2 r => let! y := f_mul P w v w2 r in Ok (XF w y)
    | XF w v, XD r => let! y := f_mul P w v W64 r in Ok (XF w y)
    | XD v, XF w2 r => let! y := d_mul_f P v w2 r in Ok (XD y)
    | XD v, XD r => let! y := d_mul_d P v r in Ok (XD y)
    | _, _ => Panic
    end in
  Ok (rewrap lhs res).

(* PartialEq::eq(self, other), as dispatched for the pairing *)
Definition x_eq (s o : bvx) : bool :=
  match core s, core o with
  | XF w1 a, XF w2 b => f_eq_f w1 a w2 b
  | XF w1 a, XD b => d_eq_f b w1 a                (* other.eq(self) *)
  | XD a, XF w2 b => d_eq_f a w2 b
  | XD a, XD b => d_eq_d a b
  | _, _ => false
  end.

(* PartialOrd::partial_cmp(self, other) (never None) *)
Definition x_cmp (s o : bvx) : comparison :=
  match core s, core o with
  | XF w1 a, XF w2 b => f_cmp_f w1 a w2 b
  | XF w1 a, XD b => cmp_rev (d_cmp_f b w1 a)     (* other.partial_cmp(self).reverse() *)
  | XD a, XF w2 b => d_cmp_f a w2 b
  | XD a, XD b => d_cmp_d a b
  | _, _ => Eq
  end.

(* ------------------------------------------------------------------ division *)

(* the compare / subtract / set / shift loop shared by the three div_rem bodies *)
Fixpoint div_loop (P : profile) (n : nat) (rem divisor quotient : bvx) : outcome (bvx * bvx) :=
  let step :=
    match x_cmp rem divisor with
    | Lt => Ok (rem, quotient)
    | _ => let! rem' := x_addsub OpSub rem divisor in
           let! q' := x_set P quotient (N.of_nat n) 1 in
           Ok (rem', q')
    end in
  let! (rem', q') := step in
  let! divisor' := x_shr_assign divisor 1 in
  match n with
  | O => Ok (q', rem')
  | S n' => div_loop P n' rem' divisor' q'
  end.

(* BitVector::div_rem for Bvf / Bvd / Bv; `divisor` is the generic B *)
Definition x_div_rem (P : profile) (x divisor : bvx) : outcome (bvx * bvx) :=
  let! z := x_is_zero divisor in
  let! _ := assert_ (negb z) in
  let! quotient := k_zeros (kind_of x) (xlen x) in
  let rem := x in
  let! sd := x_sigbits P divisor in
  let! ss := x_sigbits P x in
  if ss <? sd then Ok (quotient, rem)
  else
    let shift := ss - sd in
    let! dv :=
      match x with
      | XF w v =>
          (* repaired: only the significant bits of the divisor have to fit *)
          let! low := x_copy_range P divisor 0 sd in
          match to_fixed w (lenw (wd v)) low with Ok r => Ok (XF w r) | _ => Panic end
      | XD _ => let! r := to_dyn divisor in Ok (XD r)
      | XA _ _ => to_auto divisor
      end in
    let! dv1 := x_resize dv (xlen x) 0 in
    let! dv2 := x_shl_assign dv1 shift in
    div_loop P (N.to_nat shift) rem dv2 quotient.

(* Div / Rem operators: div_rem with B the variant of the right operand; a Bv on the left
   delegates to its variant *)
Definition x_divrem_op (P : profile) (lhs rhs : bvx) : outcome (bvx * bvx) :=
  let! (q, r) := x_div_rem P (core lhs) (core rhs) in
  Ok (rewrap lhs q, rewrap lhs r).

(* ------------------------------------------------------------------ Display *)

(* while !quotient.is_zero() { (quotient, remainder) = quotient.div_rem(&base); push digit }
   `mkbase` is the construction of the constant ten in the vector's own type: the fixed type builds it
   inside the loop (only a non-zero value needs it), the heap type before the loop (it cannot fail) *)
Fixpoint dec_loop (P : profile) (fuel : nat) (q : bvx) (mkbase : outcome bvx) (acc : list N) : outcome (list N) :=
  match fuel with
  | O => OutOfFuel
  | S f =>
      let! z := x_is_zero q in
      if z then Ok acc
      else
        let! base := mkbase in
        let! (q', r) := x_div_rem P q base in
        let! sig := x_sigbits P r in
        let! d := (if is_fixed r then f_to_uint (xw r) 32 sig (xv r) else d_to_uint 32 sig (xv r)) in
        (* char::from_digit(d, 10).unwrap() *)
        let! _ := assert_ (d <? 10) in
        dec_loop P f q' mkbase ((48 + d) :: acc)
  end.

Definition fmt_display (P : profile) (x : bvx) : outcome (list N) :=
  let c := core x in
  let! s :=
    match c with
    | XF w v =>
        dec_loop P (S (N.to_nat (xlen x))) c
                 (match f_from_uint w (lenw (wd v)) 8 10 with Ok b => Ok (XF w b) | _ => Panic end) []
    | _ =>
        let! b := d_from_uint 8 10 in
        dec_loop P (S (N.to_nat (xlen x))) c (Ok (XD b)) []
    end in
  Ok (if lenw s =? 0 then [48] else s).

Definition x_fmt_digits (P : profile) (which : N) (x : bvx) : outcome (list N * list N) :=
  match which with
  | 0 => let! s := fmt_display P x in Ok ([], s)
  | 1 => let! s := fmt_binary P (xw x) (xv x) in Ok ([48; 98], s)
  | 2 => let! s := fmt_octal P (xw x) (xv x) in Ok ([48; 111], s)
  | 3 => let! s := fmt_hex (xw x) (xv x) false in Ok ([48; 120], s)
  | _ => let! s := fmt_hex (xw x) (xv x) true in Ok ([48; 120], s)
  end.

(* ------------------------------------------------------------------ Hash, integers *)

Definition x_hash (P : profile) (x : bvx) : outcome (list (N * N)) :=
  let! sig := x_sigbits P x in
  match x with
  | XF w v => f_hash w sig v
  | XD v => d_hash sig v
  | XA _ v => a_hash sig v
  end.

Definition x_to_uint (P : profile) (x : bvx) (t : N) : outcome N :=
  let! sig := x_sigbits P x in
  if is_fixed x then f_to_uint (xw x) t sig (xv x) else d_to_uint t sig (xv x).

(* From<&[I]> / TryFrom<&[J]> *)
Definition k_from_slice (k : kind) (j : N) (s : list N) : outcome bvx :=
  match k with
  | KF w n => let! v := f_from_slice w n j s in Ok (XF w v)
  | KD => Ok (XD (d_from_slice j s))
  | KA =>
      let! z := k_zeros KA (lenw s * j) in
      Ok (fold_left (fun x p => x_with x (v_set_int W64 j (xv x) (fst p) (snd p))) (enum s) z)
  end.
