(* Model of the BitVector trait bodies of fixed.rs (prefix f_) and dynamic.rs (prefix d_);
   bodies that are textually the same algorithm in both files are written once with the word
   width w as a parameter (prefix v_).  Repaired defects (see DESIGN.md par. 8) are modelled as
   repaired.  No proofs in Model/. *)
From BVA Require Import Base.Prelude Base.Result Base.Words Base.Limbs Model.Core.

Definition W64 : N := 64.

(* ------------------------------------------------------------------ constructors *)

Definition f_zeros (w n len : N) : outcome wv :=
  let! _ := assert_ (len <=? w * n) in Ok (mkwv (zerosw n) len).

Definition f_ones (w n len : N) : outcome wv :=
  let! _ := assert_ (len <=? w * n) in
  Ok (mkwv (mod2n w (repeat (wmax w) (N.to_nat n)) len) len).

Definition f_with_capacity (w n : N) (_ : N) : outcome wv := f_zeros w n 0.

Definition d_zeros (len : N) : wv := mkwv (zerosw (cfbl_d len)) len.

Definition d_ones (len : N) : wv :=
  mkwv (upd_last (fun l => N.land l (maskw W64 (lastbits W64 len)))
                 (repeat (wmax W64) (N.to_nat (cfbl_d len)))) len.

Definition d_with_capacity (c : N) : wv := mkwv (zerosw (cfbl_d c)) 0.

(* Bvd::reserve *)
Definition d_reserve (v : wv) (additional : N) : wv :=
  let newcap := wl v + additional in
  if lenw (wd v) <? cfbl_d newcap
  then mkwv (wd v ++ zerosw (cfbl_d newcap - lenw (wd v))) (wl v)
  else v.

(* Bvd::shrink_to_fit; `new_data[i] = self.data[i]` for i < new length <= old length *)
Definition d_shrink_to_fit (v : wv) : wv :=
  if cfbl_d (wl v) <? lenw (wd v)
  then mkwv (firstn (N.to_nat (cfbl_d (wl v))) (wd v)) (wl v)
  else v.

(* ------------------------------------------------------------------ get / set *)

Definition v_get (P : profile) (w : N) (v : wv) (i : N) : outcome N :=
  let! _ := dassert P (i <? wl v) in
  let! x := geto (wd v) (i / w) in
  Ok (N.land (shrw x (i mod w)) 1).

Definition v_set (P : profile) (w : N) (v : wv) (i b : N) : outcome wv :=
  let! _ := dassert P (i <? wl v) in
  let! x := geto (wd v) (i / w) in
  let! d := seto (wd v) (i / w)
              (N.lor (N.land x (notw w (shlw w 1 (i mod w)))) (shlw w b (i mod w))) in
  Ok (mkwv d (wl v)).

(* ------------------------------------------------------------------ parsing *)

(* a string is its list of code points *)
Definition utf8_len1 (c : N) : N :=
  if c <? 128 then 1 else if c <? 2048 then 2 else if c <? 65536 then 3 else 4.
Definition utf8_len (s : list N) : N := fold_left (fun a c => a + utf8_len1 c) s 0.

Definition bin_digit (c : N) : option N :=
  if c =? 48 then Some 0 else if c =? 49 then Some 1 else None.
(* char::to_digit(16) *)
Definition hex_digit (c : N) : option N :=
  if (48 <=? c) && (c <=? 57) then Some (c - 48)
  else if (97 <=? c) && (c <=? 102) then Some (c - 87)
  else if (65 <=? c) && (c <=? 70) then Some (c - 55)
  else None.

(* the shared loop of from_binary / from_hex:
     for (i, c) in chars.enumerate() { j = idx(i); data[j] = (data[j] << sh) | digit(c)? } *)
Fixpoint parse_loop (w sh : N) (digit : N -> option N) (idx : N -> N)
         (s : list N) (i : N) (d : list N) : outcome (list N) :=
  match s with
  | [] => Ok d
  | c :: r =>
      match digit c with
      | None => Err (EFmt i)
      | Some x =>
          let j := idx i in
          let! y := geto d j in
          let! d' := seto d j (N.lor (shlw w y sh) x) in
          parse_loop w sh digit idx r (i + 1) d'
      end
  end.

Definition f_from_binary (w n : N) (s : list N) : outcome wv :=
  let length := lenw s in
  if w * n <? length then Err ECap
  else
    let! d := parse_loop w 1 bin_digit (fun i => (length - 1 - i) / w) s 0 (zerosw n) in
    Ok (mkwv d length).

Definition f_from_hex (w n : N) (s : list N) : outcome wv :=
  let length := lenw s in
  if w * n <? length * 4 then Err ECap
  else
    let! d := parse_loop w 4 hex_digit (fun i => (length - 1 - i) / (w / 4)) s 0 (zerosw n) in
    Ok (mkwv d (length * 4)).

Definition d_from_binary (s : list N) : outcome wv :=
  let length := lenw s in
  let offset := (W64 - length mod W64) mod W64 in
  let n := cfbl_d length in
  let! d := parse_loop W64 1 bin_digit (fun i => n - 1 - (i + offset) / W64) s 0 (zerosw n) in
  Ok (mkwv d length).

Definition d_from_hex (s : list N) : outcome wv :=
  let length := lenw s in
  let offset := (16 - length mod 16) mod 16 in
  let n := cfbyl_d ((length + 1) / 2) in
  let! d := parse_loop W64 4 hex_digit (fun i => n - 1 - (i + offset) / 16) s 0 (zerosw n) in
  Ok (mkwv d (length * 4)).

(* ------------------------------------------------------------------ bytes *)

Inductive endian := Little | Big.

(* enumerate: [(0,b0); (1,b1); ...] *)
Definition enum (l : list N) : list (N * N) := combine (nrange (lenw l)) l.

(* data[j] = (data[j] << 8) | b      (j statically in range: j <= (byte_length-1)/BYTE_UNIT < N) *)
Definition push_byte (w : N) (d : list N) (j b : N) : list N :=
  setw d j (N.lor (shlw w (getw d j) 8) b).

Definition f_from_bytes (w n : N) (bytes : list N) (e : endian) : outcome wv :=
  let bl := lenw bytes in
  if w * n <? bl * 8 then Err ECap
  else
    let bu := w / 8 in
    let d0 := zerosw n in
    let d :=
      match e with
      | Little =>
          if bu =? 1
          then fold_left (fun d p => setw d (fst p) (snd p)) (rev (enum bytes)) d0
          else fold_left (fun d p => push_byte w d (fst p / bu) (snd p)) (rev (enum bytes)) d0
      | Big =>
          if bu =? 1
          then fold_left (fun d p => setw d (bl - 1 - fst p) (snd p)) (enum bytes) d0
          else fold_left (fun d p => push_byte w d ((bl - 1 - fst p) / bu) (snd p)) (enum bytes) d0
      end in
    Ok (mkwv d (bl * 8)).

Definition d_from_bytes (bytes : list N) (e : endian) : wv :=
  let bl := lenw bytes in
  let n := cfbyl_d bl in
  let offset := (8 - bl mod 8) mod 8 in
  let step := fun d (p : N * N) => push_byte W64 d (n - 1 - (fst p + offset) / 8) (snd p) in
  let d :=
    match e with
    | Little => fold_left step (enum (rev bytes)) (zerosw n)
    | Big => fold_left step (enum bytes) (zerosw n)
    end in
  mkwv d (bl * 8).

Fixpoint omap_list {A B} (f : A -> outcome B) (l : list A) : outcome (list B) :=
  match l with
  | [] => Ok []
  | a :: r => let! b := f a in let! bs := omap_list f r in Ok (b :: bs)
  end.

(* to_vec: buf[i] = (data[i / BYTE_UNIT] >> ((i % BYTE_UNIT) * 8)) as u8 *)
Definition v_to_vec (w : N) (v : wv) (e : endian) : outcome (list N) :=
  let nb := (wl v + 7) / 8 in
  let bu := w / 8 in
  let! buf := omap_list (fun i => let! x := geto (wd v) (i / bu) in
                                  Ok (wrap 8 (shrw x ((i mod bu) * 8)))) (nrange nb) in
  Ok (match e with Little => buf | Big => rev buf end).

(* read: returns the vector and the unread rest of the reader *)
Definition f_read (w n : N) (reader : list N) (len : N) (e : endian) : outcome (wv * list N) :=
  if w * n <? len then Err EInvalidInput
  else
    let nb := (len + 7) / 8 in
    if lenw reader <? nb then Err EEof
    else
      let buf := firstn (N.to_nat nb) reader in
      match f_from_bytes w n buf e with
      | Ok bv => Ok (mkwv (mod2n w (wd bv) len) len, skipn (N.to_nat nb) reader)
      | Err _ => Err EInvalidData
      | Panic => Panic
      | OutOfFuel => OutOfFuel
      end.

Definition d_read (reader : list N) (len : N) (e : endian) : outcome (wv * list N) :=
  let nb := (len + 7) / 8 in
  if lenw reader <? nb then Err EEof
  else
    let buf := firstn (N.to_nat nb) reader in
    let bv := d_from_bytes buf e in
    Ok (mkwv (upd_last (fun l => N.land l (maskw W64 (lastbits W64 len))) (wd bv)) len,
        skipn (N.to_nat nb) reader).

(* ------------------------------------------------------------------ copy_range *)

Definition f_copy_range (P : profile) (w : N) (v : wv) (s e : N) : outcome wv :=
  let n := lenw (wd v) in
  let! _ := dassert P ((s <=? wl v) && (e <=? wl v)) in
  let length := e - N.min s e in
  let offset := s / w in
  let slide := s mod w in
  let k := cfbl_f w length in
  let! d :=
    if 0 <? slide then
      fold_left (fun acc i =>
                   let! d := acc in
                   let! x := geto (wd v) (i + offset) in
                   seto d i (N.lor (shrw x slide) (shlw w (getw (wd v) (i + offset + 1)) (w - slide))))
                (nrange k) (Ok (zerosw n))
    else
      (* data[..k].copy_from_slice(&self.data[offset..k + offset]) *)
      if (k <=? n) && (k + offset <=? n)
      then Ok (firstn (N.to_nat k) (skipn (N.to_nat offset) (wd v)) ++ zerosw (n - k))
      else Panic in
  Ok (mkwv (upd_at d (length / w) (fun l => N.land l (maskw w (lastbits w length)))) length).

Definition d_copy_range (P : profile) (v : wv) (s e : N) : outcome wv :=
  let! _ := dassert P ((s <=? wl v) && (e <=? wl v)) in
  let length := e - N.min s e in
  let offset := s / W64 in
  let slide := s mod W64 in
  let k := cfbl_d length in
  let! d :=
    omap_list (fun i =>
                 let! x := geto (wd v) (i + offset) in
                 (* checked_shl(64 - slide).unwrap_or(0) *)
                 let hi := if W64 - slide <? W64
                           then shlw W64 (getw (wd v) (i + offset + 1)) (W64 - slide) else 0 in
                 Ok (N.lor (shrw x slide) hi))
              (nrange k) in
  Ok (mkwv (upd_last (fun l => N.land l (maskw W64 (lastbits W64 length))) d) length).

(* ------------------------------------------------------------------ push / pop / resize *)

Definition f_push (P : profile) (w : N) (v : wv) (b : N) : outcome wv :=
  let! _ := assert_ (wl v <? capw w (wd v)) in
  v_set P w (mkwv (wd v) (wl v + 1)) (wl v) b.

Definition d_push (P : profile) (v : wv) (b : N) : outcome wv :=
  let v1 := d_reserve v 1 in
  v_set P W64 (mkwv (wd v1) (wl v1 + 1)) (wl v1) b.

Definition v_pop (P : profile) (w : N) (v : wv) : outcome (wv * option N) :=
  if wl v =? 0 then Ok (v, None)
  else
    let! b := v_get P w v (wl v - 1) in
    let! v' := v_set P w v (wl v - 1) 0 in
    Ok (mkwv (wd v') (wl v - 1), Some b).

(* the body shared by Bvf::resize and Bvd::resize; `fixed` selects the capacity assert
   (Bvf) or the reserve (Bvd) of the growing branch; cfbl is the type's capacity_from_bit_len *)
Definition v_resize (fixed : bool) (w : N) (v : wv) (new_len b : N) : outcome wv :=
  let cfbl := if fixed then cfbl_f w else cfbl_d in
  if new_len <? wl v then
    let! d1 := fill_range (wd v) (new_len / w + 1) (cfbl (wl v)) 0 in
    let d2 := upd_at d1 (new_len / w) (fun l => N.land l (maskw w (new_len mod w))) in
    Ok (mkwv d2 new_len)
  else if wl v <? new_len then
    let! v0 := if fixed then (let! _ := assert_ (new_len <=? capw w (wd v)) in Ok v)
               else Ok (d_reserve v (new_len - wl v)) in
    let sign := if b =? 0 then 0 else wmax w in
    let d1 := upd_at (wd v0) (wl v / w)
                     (fun l => N.lor l (N.land sign (notw w (maskw w (wl v mod w))))) in
    let! d2 := fill_range d1 (wl v / w + 1) (cfbl new_len) sign in
    let d3 := upd_at d2 (new_len / w) (fun l => N.land l (maskw w (new_len mod w))) in
    Ok (mkwv d3 new_len)
  else Ok v.

Definition f_resize := v_resize true.
Definition d_resize := v_resize false W64.

(* ------------------------------------------------------------------ shifts by one *)

Definition v_shl_in (w : N) (v : wv) (bit : N) : wv * N :=
  let q := wl v / w in
  let r := wl v mod w in
  let '(d1, c1) :=
    fold_left (fun (st : list N * N) i =>
                 let '(d, carry) := st in
                 let x := getw d i in
                 (setw d i (N.lor (shlw w x 1) carry), N.land (shrw x (w - 1)) 1))
              (nrange q) (wd v, bit) in
  if r =? 0 then (mkwv d1 (wl v), c1)
  else
    let x := getw d1 q in
    (mkwv (setw d1 q (N.land (N.lor (shlw w x 1) c1) (maskw w r))) (wl v),
     N.land (shrw x (r - 1)) 1).

Definition v_shr_in (w : N) (v : wv) (bit : N) : wv * N :=
  let q := wl v / w in
  let r := wl v mod w in
  let '(d0, c0) :=
    if r =? 0 then (wd v, bit)
    else
      let x := getw (wd v) q in
      (setw (wd v) q (N.lor (shrw x 1) (shlw w bit (r - 1))), N.land x 1) in
  let '(d1, c1) :=
    fold_left (fun (st : list N * N) i =>
                 let '(d, carry) := st in
                 let x := getw d i in
                 (setw d i (N.lor (shrw x 1) (shlw w carry (w - 1))), N.land x 1))
              (rev (nrange q)) (d0, c0) in
  (mkwv d1 (wl v), c1).

(* ------------------------------------------------------------------ shifts by k *)

(* usize::try_from(rhs).map_or(usize::MAX, |s| s) *)
Definition shift_amount (k : N) : N := if k <? pow2 64 then k else N.ones 64.

(* `x |= v << o` on the word holding bit position pos *)
Definition or_bits (w : N) (d : list N) (pos v : N) : list N :=
  setw d (pos / w) (N.lor (getw d (pos / w)) (shlw w v (pos mod w))).
(* `x &= !(mask(l) << o)` *)
Definition clear_bits (w : N) (d : list N) (pos l : N) : list N := write_bits w d pos l 0.

(* first `while` loop of shl_assign; new_idx runs downwards *)
Fixpoint shl_loop1 (fuel : nat) (w shift : N) (d : list N) (new_idx : N) : outcome (list N * N) :=
  match fuel with
  | O => OutOfFuel
  | S f =>
      if shift <? new_idx then
        let l := N.min (wsub1 new_idx mod w + 1) (wsub1 (new_idx - shift) mod w + 1) in
        let new_idx' := new_idx - l in
        let old_idx := new_idx' - shift in
        let x := read_bits w d old_idx l in
        shl_loop1 f w shift (write_bits w d new_idx' l x) new_idx'
      else Ok (d, new_idx)
  end.

(* second `while` loop: zero what is left below *)
Fixpoint shl_loop2 (fuel : nat) (w : N) (d : list N) (new_idx : N) : outcome (list N) :=
  match fuel with
  | O => OutOfFuel
  | S f =>
      if 0 <? new_idx then
        let l := wsub1 new_idx mod w + 1 in
        shl_loop2 f w (clear_bits w d (new_idx - l) l) (new_idx - l)
      else Ok d
  end.

Definition v_shl_assign (w : N) (v : wv) (k : N) : outcome wv :=
  let shift := shift_amount k in
  if shift =? 0 then Ok v
  else
    let fuel := S (N.to_nat (wl v)) in
    let! (d1, idx) := shl_loop1 fuel w shift (wd v) (wl v) in
    let! d2 := shl_loop2 fuel w d1 idx in
    Ok (mkwv d2 (wl v)).

Fixpoint shr_loop1 (fuel : nat) (w shift len : N) (d : list N) (new_idx : N) : outcome (list N * N) :=
  match fuel with
  | O => OutOfFuel
  | S f =>
      if new_idx + shift <? len then
        let old_idx := new_idx + shift in
        let l := N.min (w - new_idx mod w) (w - old_idx mod w) in
        let x := read_bits w d old_idx l in
        shr_loop1 f w shift len (write_bits w d new_idx l x) (new_idx + l)
      else Ok (d, new_idx)
  end.

Fixpoint shr_loop2 (fuel : nat) (w len : N) (d : list N) (new_idx : N) : outcome (list N) :=
  match fuel with
  | O => OutOfFuel
  | S f =>
      if new_idx <? len then
        let l := w - new_idx mod w in
        shr_loop2 f w len (clear_bits w d new_idx l) (new_idx + l)
      else Ok d
  end.

Definition v_shr_assign (w : N) (v : wv) (k : N) : outcome wv :=
  let shift := shift_amount k in
  if shift =? 0 then Ok v
  else
    let fuel := S (N.to_nat (wl v)) in
    let! (d1, idx) := shr_loop1 fuel w shift (wl v) (wd v) 0 in
    let! d2 := shr_loop2 fuel w (wl v) d1 idx in
    Ok (mkwv d2 (wl v)).

(* Shl<uN> for &Bvd: fresh storage of exactly the used words, first loop only *)
Fixpoint shl_ref_loop (fuel : nat) (shift : N) (src dst : list N) (new_idx : N) : outcome (list N) :=
  match fuel with
  | O => OutOfFuel
  | S f =>
      if shift <? new_idx then
        let l := N.min (wsub1 new_idx mod W64 + 1) (wsub1 (new_idx - shift) mod W64 + 1) in
        let new_idx' := new_idx - l in
        let old_idx := new_idx' - shift in
        shl_ref_loop f shift src (or_bits W64 dst new_idx' (read_bits W64 src old_idx l)) new_idx'
      else Ok dst
  end.

Definition d_shl_ref (v : wv) (k : N) : outcome wv :=
  let shift := shift_amount k in
  let! d := shl_ref_loop (S (N.to_nat (wl v))) shift (wd v) (zerosw (cfbl_d (wl v))) (wl v) in
  Ok (mkwv d (wl v)).

Fixpoint shr_ref_loop (fuel : nat) (shift len : N) (src dst : list N) (new_idx : N) : outcome (list N) :=
  match fuel with
  | O => OutOfFuel
  | S f =>
      if new_idx + shift <? len then
        let old_idx := new_idx + shift in
        let l := N.min (W64 - new_idx mod W64) (W64 - old_idx mod W64) in
        shr_ref_loop f shift len src (or_bits W64 dst new_idx (read_bits W64 src old_idx l)) (new_idx + l)
      else Ok dst
  end.

Definition d_shr_ref (v : wv) (k : N) : outcome wv :=
  let shift := shift_amount k in
  let! d := shr_ref_loop (S (N.to_nat (wl v))) shift (wl v) (wd v) (zerosw (cfbl_d (wl v))) 0 in
  Ok (mkwv d (wl v)).

(* ------------------------------------------------------------------ rotations *)

Definition min4 (a b c d : N) : N := N.min (N.min (N.min a b) c) d.

Fixpoint rotl_loop (fuel : nat) (w rot len : N) (src dst : list N) (old_idx : N) : outcome (list N) :=
  match fuel with
  | O => OutOfFuel
  | S f =>
      if old_idx <? len then
        let new_idx := (old_idx + rot) mod len in
        let l := min4 (w - new_idx mod w) (w - old_idx mod w) (len - new_idx) (len - old_idx) in
        rotl_loop f w rot len src (or_bits w dst new_idx (read_bits w src old_idx l)) (old_idx + l)
      else Ok dst
  end.

Definition v_rotl (w : N) (v : wv) (rot : N) : outcome wv :=
  let! d := rotl_loop (S (N.to_nat (wl v))) w rot (wl v) (wd v) (zerosw (lenw (wd v))) 0 in
  Ok (mkwv d (wl v)).

Fixpoint rotr_loop (fuel : nat) (w rot len : N) (src dst : list N) (new_idx : N) : outcome (list N) :=
  match fuel with
  | O => OutOfFuel
  | S f =>
      if new_idx <? len then
        let old_idx := (new_idx + rot) mod len in
        let l := min4 (w - new_idx mod w) (w - old_idx mod w) (len - new_idx) (len - old_idx) in
        rotr_loop f w rot len src (or_bits w dst new_idx (read_bits w src old_idx l)) (new_idx + l)
      else Ok dst
  end.

Definition v_rotr (w : N) (v : wv) (rot : N) : outcome wv :=
  let! d := rotr_loop (S (N.to_nat (wl v))) w rot (wl v) (wd v) (zerosw (lenw (wd v))) 0 in
  Ok (mkwv d (wl v)).

(* ------------------------------------------------------------------ bit counts *)

(* the `while v == stop && i > 0 { v = data[i-1]; count += cnt(v); i -= 1 }` scan, over the
   words below the top one, most significant first *)
Fixpoint scan_words (cnt : N -> N) (stop : N) (ws : list N) (v count : N) : N :=
  match ws with
  | [] => count
  | x :: r => if v =? stop then scan_words cnt stop r x (count + cnt x) else count
  end.

Definition v_leading (ones : bool) (cfbl : N -> N) (w : N) (v : wv) : N :=
  let i := cfbl (wl v) in
  if 0 <? i then
    let lastbit := (wl v - 1) mod w + 1 in
    let top := getw (wd v) (i - 1) in
    let v0 := if ones then N.lor top (notw w (maskw w lastbit)) else N.land top (maskw w lastbit) in
    let cnt := if ones then clo w else clz w in
    let count := cnt v0 - (w - lastbit) in
    scan_words cnt (if ones then wmax w else 0) (rev (firstn (N.to_nat (i - 1)) (wd v))) v0 count
  else 0.

(* `while v == stop && i < n-1 { v = data[i]; count += cnt(v); i += 1 }` returns (v, count, i) *)
Fixpoint scan_up (cnt : N -> N) (stop : N) (ws : list N) (v count i : N) : N * N * N :=
  match ws with
  | [] => (v, count, i)
  | x :: r => if v =? stop then scan_up cnt stop r x (count + cnt x) (i + 1) else (v, count, i)
  end.

Definition v_trailing (ones : bool) (cfbl : N -> N) (w : N) (v : wv) : N :=
  let n := cfbl (wl v) in
  if 0 <? n then
    let stop := if ones then wmax w else 0 in
    let cnt := if ones then cto w else ctz w in
    let '(v1, count, i) := scan_up cnt stop (firstn (N.to_nat (n - 1)) (wd v)) stop 0 0 in
    if v1 =? stop then
      let lastbit := (wl v - 1) mod w + 1 in
      count + N.min (cnt (getw (wd v) i)) lastbit
    else count
  else 0.

Definition f_leading_zeros w := v_leading false (cfbl_f w) w.
Definition f_leading_ones w := v_leading true (cfbl_f w) w.
Definition f_trailing_zeros w := v_trailing false (cfbl_f w) w.
Definition f_trailing_ones w := v_trailing true (cfbl_f w) w.
Definition d_leading_zeros := v_leading false cfbl_d W64.
Definition d_leading_ones := v_leading true cfbl_d W64.
Definition d_trailing_zeros := v_trailing false cfbl_d W64.
Definition d_trailing_ones := v_trailing true cfbl_d W64.

Definition f_is_zero (v : wv) : bool := forallb (fun x => x =? 0) (wd v).
(* self.data[0..cfbl(len)].iter().all(..): slicing panics beyond the allocation *)
Definition d_is_zero (v : wv) : outcome bool :=
  if lenw (wd v) <? cfbl_d (wl v) then Panic
  else Ok (forallb (fun x => x =? 0) (firstn (N.to_nat (cfbl_d (wl v))) (wd v))).

(* BitVector::significant_bits (default method): len - leading_zeros *)
Definition v_sigbits (P : profile) (lz : N) (v : wv) : outcome N := usub P (wl v) lz.
