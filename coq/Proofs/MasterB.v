(* Proofs/MasterB.v *)
From BVA Require Import Base.Prelude Base.Result Base.Words Base.Limbs.
From BVA Require Import Model.Core Model.Ops Model.Arith Model.Conv Model.Auto Model.Run Spec.Spec Spec.Prop Spec.CaseOk.
From BVA Require Import Proofs.Common Proofs.Rechunk Proofs.Lift.
From Coq Require Import ZifyBool ZifyN ZifyNat.
From BVA Require Import Proofs.Mul Proofs.Pairings Proofs.ConvP Proofs.XEdit Proofs.Append Proofs.Forms.

(* The master theorem, part B: edits and operators (operation codes 40..97).
   For every case inside the scope `case_okb`, the result the model computes (`run_case`)
   satisfies the property relation (`prop_case`). *)

(* ------------------------------------------------------------------ bridge: boolean scope -> Prop *)

Lemma std_widthb_spec w : std_widthb w = true -> std_width w.
Proof.
  unfold std_widthb, std_width. cbn [In]. rewrite !orb_true_iff, !N.eqb_eq.
  intros [[[[H|H]|H]|H]|H]; subst w; auto 6.
Qed.

Lemma goodb_Good x : goodb x = true -> Good x.
Proof.
  unfold goodb, Good. rewrite andb_true_iff, canonb_spec.
  intros [Hc Hw]. split; [assumption|apply std_widthb_spec; assumption].
Qed.

Lemma Good_canonb r : Good r -> canonb r = true.
Proof. intros [Hc _]. apply canonb_spec. assumption. Qed.

Lemma case_ok_inv c : case_okb c = true -> Forall Good (c_vals c) /\ args_okb c = true.
Proof.
  unfold case_okb. rewrite !andb_true_iff. intros [[[Hv _] Ha] _]. split; [|assumption].
  apply Forall_forall. intros x Hx. apply goodb_Good.
  rewrite forallb_forall in Hv. apply Hv. assumption.
Qed.

Lemma nvals0 c : nvals c 0 = true -> c_vals c = [].
Proof. unfold nvals. destruct (c_vals c) as [|a l]; [reflexivity|discriminate]. Qed.

Lemma nvals1 c : nvals c 1 = true -> exists a, c_vals c = [a].
Proof.
  unfold nvals. destruct (c_vals c) as [|a [|b l]]; try discriminate. intros _. eauto.
Qed.

Lemma nvals2 c : nvals c 2 = true -> exists a b, c_vals c = [a; b].
Proof.
  unfold nvals. destruct (c_vals c) as [|a [|b [|d l]]]; try discriminate. intros _. eauto.
Qed.

Lemma view1 c : Forall Good (c_vals c) -> nvals c 1 = true -> exists a, c_vals c = [a] /\ Good a.
Proof.
  intros HF Hn. destruct (nvals1 c Hn) as (a & E). exists a. split; [assumption|].
  rewrite E in HF. inversion HF. assumption.
Qed.

Lemma view2 c : Forall Good (c_vals c) -> nvals c 2 = true ->
  exists a b, c_vals c = [a; b] /\ Good a /\ Good b.
Proof.
  intros HF Hn. destruct (nvals2 c Hn) as (a & b & E). exists a, b. split; [assumption|].
  rewrite E in HF. inversion HF as [|? ? Ha HF']. inversion HF' as [|? ? Hb _]. split; assumption.
Qed.

Lemma val0_of c a l : c_vals c = a :: l -> Run.val c 0 = Ok a.
Proof. intros E. unfold Run.val. rewrite E. reflexivity. Qed.
Lemma val1_of c a b l : c_vals c = a :: b :: l -> Run.val c 1 = Ok b.
Proof. intros E. unfold Run.val. rewrite E. reflexivity. Qed.
Lemma sval0_of c a l : c_vals c = a :: l -> sval c 0 = Some (kind_of a, abs a).
Proof. intros E. unfold sval. rewrite E. reflexivity. Qed.
Lemma sval1_of c a b l : c_vals c = a :: b :: l -> sval c 1 = Some (kind_of b, abs b).
Proof. intros E. unfold sval. rewrite E. reflexivity. Qed.
Lemma sval0_nil c : c_vals c = [] -> sval c 0 = None.
Proof. intros E. unfold sval. rewrite E. reflexivity. Qed.
Lemma len0_of c a l : c_vals c = a :: l -> len0 c = xlen a.
Proof. intros E. unfold len0. rewrite E. reflexivity. Qed.
Lemma len1_of c a b l : c_vals c = a :: b :: l -> len1 c = xlen b.
Proof. intros E. unfold len1. rewrite E. reflexivity. Qed.

Lemma A1_eq : A1 = 2 ^ 62.
Proof. unfold A1. apply pow2_eq. Qed.

(* ------------------------------------------------------------------ the result relation *)

Lemma bv_eqb_refl v : bv_eqb v v = true.
Proof. unfold bv_eqb. rewrite !N.eqb_refl. reflexivity. Qed.

Lemma item_ok_cap k v lo hi r :
  Good r -> kind_matches k r = true -> abs r = v -> lo <= x_capacity r ->
  match hi with Some h => x_capacity r <= h | None => True end ->
  item_ok (SV k v lo hi) (IV r) = true.
Proof.
  intros Hr Hk Ha Hlo Hhi. cbn [item_ok]. rewrite Hk, (Good_canonb r Hr), Ha, bv_eqb_refl.
  apply N.leb_le in Hlo. rewrite Hlo. cbn [andb].
  destruct hi as [h|]; [apply N.leb_le; assumption|reflexivity].
Qed.

Lemma item_ok_sv k v r :
  Good r -> kind_matches k r = true -> abs r = v -> item_ok (sv k v) (IV r) = true.
Proof.
  intros Hr Hk Ha. unfold sv. apply item_ok_cap; try assumption; [apply N.le_0_l|exact I].
Qed.

Lemma kind_matches_same a r : kind_of r = kind_of a -> kind_matches (kind_of a) r = true.
Proof. intros <-. apply kind_matches_of. Qed.

Lemma item_ok_same a v r :
  Good r -> kind_of r = kind_of a -> abs r = v -> item_ok (sv (kind_of a) v) (IV r) = true.
Proof. intros Hr Hk Ha. apply item_ok_sv; [assumption|apply kind_matches_same; assumption|assumption]. Qed.

(* the common shape: one result vector of the left operand's type *)
Lemma ret_v_same a v m :
  (exists r, m = Ok r /\ Good r /\ kind_of r = kind_of a /\ abs r = v) ->
  res_ok (SOk [sv (kind_of a) v]) (ret_v m) = true.
Proof.
  intros (r & -> & Hr & Hk & Ha). cbn [ret_v bind res_ok items_ok].
  rewrite (item_ok_same a v r Hr Hk Ha). reflexivity.
Qed.

Lemma res_ok_dbg P m : (P = Debug -> m = Panic) -> res_ok (dbg_or_free P) m = true.
Proof. destruct P; cbn [dbg_or_free res_ok]; [|reflexivity]. intros ->; reflexivity. Qed.

Lemma prop_case_res c r : c_op c <> 37 -> prop_case c r = res_ok (spec_case c) r.
Proof. intros H. unfold prop_case. apply N.eqb_neq in H. rewrite H. reflexivity. Qed.

(* unfold the interpreter and the specification at a known operation code *)
Ltac open_case Hop :=
  rewrite prop_case_res by (rewrite Hop; discriminate);
  unfold run_case, spec_case; rewrite Hop; cbv beta iota zeta.

Ltac args_of Hok Hop HF Ha :=
  destruct (case_ok_inv _ Hok) as [HF Ha]; unfold args_okb in Ha; rewrite Hop in Ha; cbv beta iota in Ha.

(* ------------------------------------------------------------------ edits *)

Lemma master_op_40 c : c_op c = 40 -> case_okb c = true -> prop_case c (run_case c) = true.
Proof.
  intros Hop Hok. args_of Hok Hop HF Ha.
  apply andb_true_iff in Ha. destruct Ha as [Hn Hb]. apply N.leb_le in Hb.
  destruct (view1 c HF Hn) as (a & E & Ga).
  open_case Hop. rewrite (val0_of c a [] E), (sval0_of c a [] E). cbn [bind].
  rewrite blen_abs.
  destruct (N.ltb_spec (arg c 0) (xlen a)) as [Hlt|Hge].
  - apply ret_v_same. apply x_set_spec; assumption.
  - apply res_ok_dbg. intros ->. rewrite x_set_debug_oob by assumption. reflexivity.
Qed.

Lemma master_op_41 c : c_op c = 41 -> case_okb c = true -> prop_case c (run_case c) = true.
Proof.
  intros Hop Hok. args_of Hok Hop HF Ha.
  apply andb_true_iff in Ha. destruct Ha as [Hn Hb]. apply N.leb_le in Hb.
  destruct (view1 c HF Hn) as (a & E & Ga).
  open_case Hop. rewrite (val0_of c a [] E), (sval0_of c a [] E). cbn [bind].
  rewrite blen_abs.
  destruct (x_push_spec (c_prof c) a (arg c 0) Ga Hb) as [Hp Hs].
  destruct (fits (kind_of a) (xlen a + 1)) eqn:Ef.
  - apply ret_v_same. apply Hs. reflexivity.
  - rewrite Hp by reflexivity. reflexivity.
Qed.

Lemma master_op_42 c : c_op c = 42 -> case_okb c = true -> prop_case c (run_case c) = true.
Proof.
  intros Hop Hok. args_of Hok Hop HF Hn.
  destruct (view1 c HF Hn) as (a & E & Ga).
  open_case Hop. rewrite (val0_of c a [] E), (sval0_of c a [] E). cbn [bind].
  rewrite blen_abs.
  destruct (x_pop_spec (c_prof c) a Ga) as (r & o & -> & Gr & Kr & H0 & H1). cbn [bind].
  destruct (N.eqb_spec (xlen a) 0) as [Hz|Hnz]; cbn [res_ok items_ok].
  - destruct (H0 Hz) as [Ar ->]. rewrite (item_ok_same a (abs a) r Gr Kr Ar). reflexivity.
  - destruct H1 as [Ar ->]; [lia|]. rewrite (item_ok_same a _ r Gr Kr Ar).
    cbn [opt2n item_ok andb]. unfold sbit. rewrite (abs_Good a Ga). cbn [bval].
    rewrite N.eqb_refl. reflexivity.
Qed.

Lemma master_op_43 c : c_op c = 43 -> case_okb c = true -> prop_case c (run_case c) = true.
Proof.
  intros Hop Hok. args_of Hok Hop HF Ha.
  rewrite !andb_true_iff in Ha. destruct Ha as [[Hn Hb] _]. apply N.leb_le in Hb.
  destruct (view1 c HF Hn) as (a & E & Ga).
  open_case Hop. rewrite (val0_of c a [] E), (sval0_of c a [] E). cbn [bind].
  rewrite blen_abs.
  destruct (x_resize_spec a (arg c 0) (arg c 1) Ga Hb) as [Hp Hs].
  destruct (fits (kind_of a) (arg c 0)) eqn:Ef; cbn [orb].
  - apply ret_v_same. apply Hs. left. reflexivity.
  - destruct (N.leb_spec (arg c 0) (xlen a)) as [Hle|Hgt].
    + apply ret_v_same. apply Hs. right. assumption.
    + rewrite Hp by (reflexivity || assumption). reflexivity.
Qed.

Lemma master_op_44 c : c_op c = 44 -> case_okb c = true -> prop_case c (run_case c) = true.
Proof.
  intros Hop Hok. args_of Hok Hop HF Ha.
  rewrite !andb_true_iff in Ha. destruct Ha as [Hn _].
  destruct (view1 c HF Hn) as (a & E & Ga).
  open_case Hop. rewrite (val0_of c a [] E), (sval0_of c a [] E). cbn [bind].
  apply ret_v_same. apply x_truncate_spec. assumption.
Qed.

Lemma master_op_45 c : c_op c = 45 -> case_okb c = true -> prop_case c (run_case c) = true.
Proof.
  intros Hop Hok. args_of Hok Hop HF Ha.
  rewrite !andb_true_iff in Ha. destruct Ha as [Hn _].
  destruct (view1 c HF Hn) as (a & E & Ga).
  open_case Hop. rewrite (val0_of c a [] E), (sval0_of c a [] E). cbn [bind].
  rewrite blen_abs.
  destruct (x_sign_extend_spec (c_prof c) a (arg c 0) Ga) as [Hp Hs].
  destruct (fits (kind_of a) (arg c 0)) eqn:Ef; cbn [orb].
  - apply ret_v_same. apply Hs. left. reflexivity.
  - destruct (N.leb_spec (arg c 0) (xlen a)) as [Hle|Hgt].
    + apply ret_v_same. apply Hs. right. assumption.
    + rewrite Hp by (reflexivity || assumption). reflexivity.
Qed.

Lemma master_op_46 c : c_op c = 46 -> case_okb c = true -> prop_case c (run_case c) = true.
Proof.
  intros Hop Hok. args_of Hok Hop HF Ha.
  rewrite !andb_true_iff in Ha. destruct Ha as [Hn _].
  destruct (view2 c HF Hn) as (a & b & E & Ga & Gb).
  open_case Hop. rewrite (val0_of c a _ E), (val1_of c a b _ E), (sval0_of c a _ E), (sval1_of c a b _ E).
  cbn [bind]. rewrite !blen_abs.
  destruct (x_append_spec a b Ga Gb) as [Hp Hs].
  destruct (fits (kind_of a) (xlen a + xlen b)) eqn:Ef.
  - apply ret_v_same. apply Hs. reflexivity.
  - rewrite Hp by reflexivity. reflexivity.
Qed.

Lemma master_op_47 c : c_op c = 47 -> case_okb c = true -> prop_case c (run_case c) = true.
Proof.
  intros Hop Hok. args_of Hok Hop HF Ha.
  rewrite !andb_true_iff in Ha. destruct Ha as [Hn Hl].
  destruct (view2 c HF Hn) as (a & b & E & Ga & Gb).
  rewrite (len0_of c a _ E), (len1_of c a b _ E), A1_eq in Hl. apply N.ltb_lt in Hl.
  open_case Hop. rewrite (val0_of c a _ E), (val1_of c a b _ E), (sval0_of c a _ E), (sval1_of c a b _ E).
  cbn [bind]. rewrite !blen_abs.
  destruct (x_prepend_spec a b Ga Gb Hl) as [Hp Hs].
  destruct (fits (kind_of a) (xlen a + xlen b)) eqn:Ef.
  - apply ret_v_same. apply Hs. reflexivity.
  - rewrite Hp by reflexivity. reflexivity.
Qed.

Lemma split_off_items P a i :
  Good a -> i <= xlen a ->
  exists lo hi, x_split_off P a i = Ok (lo, hi) /\
    item_ok (sv (kind_of a) (s_slice (abs a) 0 i)) (IV lo) = true /\
    item_ok (sv (kind_of a) (s_slice (abs a) i (xlen a))) (IV hi) = true.
Proof.
  intros Ga Hi.
  destruct (x_split_off_spec P a i Ga Hi) as (lo & hi & Hr & Glo & Ghi & Klo & Khi & Alo & Ahi).
  exists lo, hi. split; [assumption|]. split; apply item_ok_same; assumption.
Qed.

Lemma master_op_49 c : c_op c = 49 -> case_okb c = true -> prop_case c (run_case c) = true.
Proof.
  intros Hop Hok. args_of Hok Hop HF Hn.
  destruct (view1 c HF Hn) as (a & E & Ga).
  open_case Hop. rewrite (val0_of c a [] E), (sval0_of c a [] E). cbn [bind].
  rewrite blen_abs.
  destruct (N.leb_spec (arg c 0) (xlen a)) as [Hle|Hgt].
  - destruct (split_off_items (c_prof c) a (arg c 0) Ga Hle) as (lo & hi & -> & Ilo & Ihi).
    cbn [bind res_ok items_ok]. rewrite Ilo, Ihi. reflexivity.
  - apply res_ok_dbg. intros ->. rewrite x_split_off_debug_oob by assumption. reflexivity.
Qed.

Lemma master_op_50 c : c_op c = 50 -> case_okb c = true -> prop_case c (run_case c) = true.
Proof.
  intros Hop Hok. args_of Hok Hop HF Hn.
  destruct (view1 c HF Hn) as (a & E & Ga).
  open_case Hop. rewrite (val0_of c a [] E), (sval0_of c a [] E). cbn [bind].
  rewrite blen_abs.
  destruct (N.leb_spec (arg c 0) (xlen a)) as [Hle|Hgt].
  - destruct (split_off_items (c_prof c) a (arg c 0) Ga Hle) as (lo & hi & -> & Ilo & Ihi).
    cbn [bind res_ok items_ok]. rewrite Ilo, Ihi. reflexivity.
  - apply res_ok_dbg. intros ->. rewrite x_split_off_debug_oob by assumption. reflexivity.
Qed.

Lemma master_op_51 c : c_op c = 51 -> case_okb c = true -> prop_case c (run_case c) = true.
Proof.
  intros Hop Hok. args_of Hok Hop HF Hn.
  destruct (view1 c HF Hn) as (a & E & Ga).
  open_case Hop. rewrite (val0_of c a [] E), (sval0_of c a [] E). cbn [bind].
  rewrite blen_abs.
  destruct (N.leb_spec (arg c 0) (arg c 1)) as [H01|H01]; cbn [andb].
  - destruct (N.leb_spec (arg c 1) (xlen a)) as [H1n|H1n].
    + apply ret_v_same. apply x_copy_range_spec; assumption.
    + assert ((xlen a <? arg c 0) || (xlen a <? arg c 1) = true) as ->.
      { apply orb_true_iff. right. apply N.ltb_lt. assumption. }
      apply res_ok_dbg. intros ->. rewrite x_copy_range_debug_oob by (right; assumption). reflexivity.
  - destruct ((xlen a <? arg c 0) || (xlen a <? arg c 1)) eqn:Eo; [|reflexivity].
    apply res_ok_dbg. intros ->. rewrite x_copy_range_debug_oob; [reflexivity|].
    apply orb_true_iff in Eo. destruct Eo as [H|H]; apply N.ltb_lt in H; [left|right]; assumption.
Qed.

Lemma norm_bit b : b <= 1 -> (if b =? 0 then 0 else 1) = b.
Proof. intros H. destruct (N.eqb_spec b 0); lia. Qed.

Lemma master_op_52 c : c_op c = 52 -> case_okb c = true -> prop_case c (run_case c) = true.
Proof.
  intros Hop Hok. args_of Hok Hop HF Ha.
  apply andb_true_iff in Ha. destruct Ha as [Hn Hb]. apply N.leb_le in Hb.
  destruct (view1 c HF Hn) as (a & E & Ga).
  open_case Hop. rewrite (val0_of c a [] E), (sval0_of c a [] E). cbn [bind].
  rewrite (norm_bit _ Hb).
  destruct (x_shl_in_spec a (arg c 0) Ga Hb) as (Gr & Kr & Er).
  destruct (x_shl_in a (arg c 0)) as [y b]. cbn [fst snd] in *. rewrite <- Er.
  cbn [res_ok items_ok item_ok]. rewrite (item_ok_same a (abs y) y Gr Kr eq_refl), N.eqb_refl. reflexivity.
Qed.

Lemma master_op_53 c : c_op c = 53 -> case_okb c = true -> prop_case c (run_case c) = true.
Proof.
  intros Hop Hok. args_of Hok Hop HF Ha.
  apply andb_true_iff in Ha. destruct Ha as [Hn Hb]. apply N.leb_le in Hb.
  destruct (view1 c HF Hn) as (a & E & Ga).
  open_case Hop. rewrite (val0_of c a [] E), (sval0_of c a [] E). cbn [bind].
  rewrite (norm_bit _ Hb).
  destruct (x_shr_in_spec a (arg c 0) Ga Hb) as (Gr & Kr & Er).
  destruct (x_shr_in a (arg c 0)) as [y b]. cbn [fst snd] in *. rewrite <- Er.
  cbn [res_ok items_ok item_ok]. rewrite (item_ok_same a (abs y) y Gr Kr eq_refl), N.eqb_refl. reflexivity.
Qed.

Lemma master_op_54 c : c_op c = 54 -> case_okb c = true -> prop_case c (run_case c) = true.
Proof.
  intros Hop Hok. args_of Hok Hop HF Hn.
  destruct (view1 c HF Hn) as (a & E & Ga).
  open_case Hop. rewrite (val0_of c a [] E), (sval0_of c a [] E). cbn [bind].
  rewrite blen_abs.
  destruct (N.leb_spec (arg c 0) (xlen a)) as [Hle|Hgt].
  - apply ret_v_same. apply x_rotl_spec; assumption.
  - destruct (N.eqb_spec (xlen a) 0) as [H0|H0]; [|reflexivity].
    apply ret_v_same. apply x_rotl_empty; assumption.
Qed.

Lemma master_op_55 c : c_op c = 55 -> case_okb c = true -> prop_case c (run_case c) = true.
Proof.
  intros Hop Hok. args_of Hok Hop HF Hn.
  destruct (view1 c HF Hn) as (a & E & Ga).
  open_case Hop. rewrite (val0_of c a [] E), (sval0_of c a [] E). cbn [bind].
  rewrite blen_abs.
  destruct (N.leb_spec (arg c 0) (xlen a)) as [Hle|Hgt].
  - apply ret_v_same. apply x_rotr_spec; assumption.
  - destruct (N.eqb_spec (xlen a) 0) as [H0|H0]; [|reflexivity].
    apply ret_v_same. apply x_rotr_empty; assumption.
Qed.

Lemma master_op_56 c : c_op c = 56 -> case_okb c = true -> prop_case c (run_case c) = true.
Proof.
  intros Hop Hok. args_of Hok Hop HF Ha.
  apply andb_true_iff in Ha. destruct Ha as [Hn _].
  destruct (view1 c HF Hn) as (a & E & Ga).
  open_case Hop. rewrite (val0_of c a [] E), (sval0_of c a [] E). cbn [bind].
  rewrite blen_abs.
  destruct (x_reserve_gen a (arg c 0) Ga) as (r & -> & Gr & Kr & Ar & Hcap).
  cbn [ret_v bind res_ok items_ok]. rewrite item_ok_cap; try assumption; try reflexivity.
  - apply kind_matches_same. assumption.
  - destruct (kind_fixed (kind_of a)); [apply N.le_0_l|apply Hcap; reflexivity].
Qed.

Lemma master_op_57 c : c_op c = 57 -> case_okb c = true -> prop_case c (run_case c) = true.
Proof.
  intros Hop Hok. args_of Hok Hop HF Hn.
  destruct (view1 c HF Hn) as (a & E & Ga).
  open_case Hop. rewrite (val0_of c a [] E), (sval0_of c a [] E). cbn [bind].
  rewrite blen_abs.
  destruct (x_shrink_to_fit_strong a Ga) as (r & -> & Gr & Kr & Ar & Hcap).
  cbn [ret_v bind res_ok items_ok]. rewrite item_ok_cap; try assumption; try reflexivity.
  - apply kind_matches_same. assumption.
  - apply N.le_0_l.
Qed.

Lemma all_lt2_bits l : all_lt 2 l = true -> Forall (fun b => b <= 1) l.
Proof.
  unfold all_lt. rewrite forallb_forall. intros H. apply Forall_forall. intros x Hx.
  specialize (H x Hx). apply N.ltb_lt in H. lia.
Qed.

Lemma master_op_58 c : c_op c = 58 -> case_okb c = true -> prop_case c (run_case c) = true.
Proof.
  intros Hop Hok. args_of Hok Hop HF Ha.
  rewrite !andb_true_iff in Ha. destruct Ha as [[Hn Hb] _]. apply all_lt2_bits in Hb.
  destruct (view1 c HF Hn) as (a & E & Ga).
  open_case Hop. rewrite (val0_of c a [] E), (sval0_of c a [] E). cbn [bind].
  rewrite blen_abs.
  destruct (x_extend_spec (c_prof c) a (arg c 0) (lst c 0) Ga Hb) as [Hp Hs].
  destruct (fits (kind_of a) (xlen a + lenw (lst c 0))) eqn:Ef.
  - apply ret_v_same. apply Hs. reflexivity.
  - rewrite Hp by reflexivity. reflexivity.
Qed.

(* ------------------------------------------------------------------ operators *)

Lemma master_op_60 c : c_op c = 60 -> case_okb c = true -> prop_case c (run_case c) = true.
Proof.
  intros Hop Hok. args_of Hok Hop HF Hn.
  destruct (view1 c HF Hn) as (a & E & Ga).
  open_case Hop. rewrite (val0_of c a [] E), (sval0_of c a [] E). cbn [bind].
  apply ret_v_same.
  destruct (x_not_spec (byref_lhs c) a Ga) as (r & Hr & Gr & Kr & _ & Ar). eauto.
Qed.

Lemma shift_args c :
  nvals c 1 && std_widthb (arg c 0) && (arg c 1 <? pow2 (arg c 0)) && (len0 c <? A1) = true ->
  Forall Good (c_vals c) -> exists a, c_vals c = [a] /\ Good a /\ xlen a < 2 ^ 62.
Proof.
  intros Ha HF. rewrite !andb_true_iff in Ha. destruct Ha as [[[Hn _] _] Hl].
  destruct (view1 c HF Hn) as (a & E & Ga). exists a. split; [assumption|]. split; [assumption|].
  rewrite (len0_of c a _ E), A1_eq in Hl. apply N.ltb_lt. assumption.
Qed.

Lemma master_op_61 c : c_op c = 61 -> case_okb c = true -> prop_case c (run_case c) = true.
Proof.
  intros Hop Hok. args_of Hok Hop HF Ha.
  destruct (shift_args c Ha HF) as (a & E & Ga & Hl).
  open_case Hop. rewrite (val0_of c a [] E), (sval0_of c a [] E). cbn [bind].
  apply ret_v_same. apply x_shl_spec; assumption.
Qed.

Lemma master_op_62 c : c_op c = 62 -> case_okb c = true -> prop_case c (run_case c) = true.
Proof.
  intros Hop Hok. args_of Hok Hop HF Ha.
  destruct (shift_args c Ha HF) as (a & E & Ga & Hl).
  open_case Hop. rewrite (val0_of c a [] E), (sval0_of c a [] E). cbn [bind].
  apply ret_v_same. apply x_shr_spec; assumption.
Qed.

(* binary operators: the right operand is a second vector or a native integer [t; x] *)
Lemma binop_core c (f : bvx -> bvx -> outcome bvx) (sf : bv -> bv -> bv) :
  (forall a b, Good a -> Good b ->
     exists r, f a b = Ok r /\ Good r /\ kind_of r = kind_of a /\ abs r = sf (abs a) (abs b)) ->
  Forall Good (c_vals c) -> binop_okb c = true ->
  exists a l, c_vals c = a :: l /\
    res_ok (match srhs c with Some b => SOk [sv (kind_of a) (sf (abs a) b)] | None => SFree end)
           (let! b := rhs_of c a in ret_v (f a b)) = true.
Proof.
  intros Hf HF Hb. unfold binop_okb in Hb. apply orb_true_iff in Hb. destruct Hb as [Hn|Hb].
  - destruct (view2 c HF Hn) as (a & b & E & Ga & Gb). exists a, [b]. split; [assumption|].
    unfold srhs, rhs_of. rewrite E. cbn [nth_error bind].
    apply ret_v_same. apply Hf; assumption.
  - rewrite !andb_true_iff in Hb. destruct Hb as [[Hn Ht] Hx].
    apply std_widthb_spec in Ht. apply N.ltb_lt in Hx. rewrite pow2_eq in Hx.
    destruct (view1 c HF Hn) as (a & E & Ga). exists a, []. split; [assumption|].
    unfold srhs, rhs_of. rewrite E. cbn [nth_error].
    destruct (lift_uint_spec a (arg c 0) (arg c 1) Ht Hx) as (b & -> & Gb & Ab). cbn [bind].
    rewrite trunc_small by assumption. rewrite <- Ab.
    apply ret_v_same. apply Hf; assumption.
Qed.

Ltac binop_case f sf Hf :=
  let Hop := fresh "Hop" in let Hok := fresh "Hok" in let HF := fresh "HF" in let Ha := fresh "Ha" in
  let a := fresh "a" in let l := fresh "l" in let E := fresh "E" in let H := fresh "H" in
  intros Hop Hok; args_of Hok Hop HF Ha;
  apply andb_true_iff in Ha; destruct Ha as [Ha _];
  destruct (binop_core _ f sf Hf HF Ha) as (a & l & E & H);
  open_case Hop; rewrite (val0_of _ a l E), (sval0_of _ a l E); cbn [bind]; exact H.

Lemma bitop_hyp o a b : Good a -> Good b ->
  exists r, x_bitop o a b = Ok r /\ Good r /\ kind_of r = kind_of a /\ abs r = s_bitop o (abs a) (abs b).
Proof. intros Ga Gb. destruct (x_bitop_spec o a b Ga Gb) as (r & Hr & Gr & Kr & _ & Ar). eauto. Qed.

Lemma addsub_hyp o a b : Good a -> Good b ->
  exists r, x_addsub o a b = Ok r /\ Good r /\ kind_of r = kind_of a /\ abs r = s_addsub o (abs a) (abs b).
Proof. intros Ga Gb. destruct (x_addsub_spec o a b Ga Gb) as (r & Hr & Gr & Kr & _ & Ar). eauto. Qed.

Lemma mul_hyp P a b : Good a -> Good b ->
  exists r, x_mul P a b = Ok r /\ Good r /\ kind_of r = kind_of a /\ abs r = s_mul (abs a) (abs b).
Proof. intros Ga Gb. destruct (x_mul_spec P a b Ga Gb) as (r & Hr & Gr & Kr & _ & Ar). eauto. Qed.

Lemma master_op_63 c : c_op c = 63 -> case_okb c = true -> prop_case c (run_case c) = true.
Proof. binop_case (x_bitop OpAnd) s_and (bitop_hyp OpAnd). Qed.

Lemma master_op_64 c : c_op c = 64 -> case_okb c = true -> prop_case c (run_case c) = true.
Proof. binop_case (x_bitop OpOr) s_or (bitop_hyp OpOr). Qed.

Lemma master_op_65 c : c_op c = 65 -> case_okb c = true -> prop_case c (run_case c) = true.
Proof. binop_case (x_bitop OpXor) s_xor (bitop_hyp OpXor). Qed.

Lemma master_op_66 c : c_op c = 66 -> case_okb c = true -> prop_case c (run_case c) = true.
Proof. binop_case (x_addsub OpAdd) s_add (addsub_hyp OpAdd). Qed.

Lemma master_op_67 c : c_op c = 67 -> case_okb c = true -> prop_case c (run_case c) = true.
Proof. binop_case (x_addsub OpSub) s_sub (addsub_hyp OpSub). Qed.

Lemma master_op_68 c : c_op c = 68 -> case_okb c = true -> prop_case c (run_case c) = true.
Proof. binop_case (x_mul (c_prof c)) s_mul (mul_hyp (c_prof c)). Qed.

(* ------------------------------------------------------------------ the Integer trait (90..93), Bit (97) *)

Lemma cadd_full w a b cy : a < 2 ^ w -> b < 2 ^ w -> cy < 2 ^ w ->
  cadd w a b cy = (trunc w (a + b + cy), N.shiftr (a + b + cy) w).
Proof.
  intros Ha Hb Hc. destruct (cadd w a b cy) as [v c'] eqn:E.
  destruct (cadd_spec w a b cy v c' Ha Hb Hc E) as [Hs Hv].
  rewrite trunc_mod, N.shiftr_div_pow2. f_equal.
  - apply (N.mod_unique _ _ c'); [assumption|lia].
  - apply (N.div_unique _ _ _ v); [assumption|lia].
Qed.

Lemma csub_full w a b cy : a < 2 ^ w -> b < 2 ^ w -> cy < 2 ^ w ->
  csub w a b cy =
  (let borrow := if a <? b + cy then (if a + pow2 w <? b + cy then 2 else 1) else 0 in
   (a + borrow * pow2 w - b - cy, borrow)).
Proof.
  intros Ha Hb Hc. unfold csub, osub. cbv zeta. rewrite pow2_eq.
  set (B := 2 ^ w) in *. clearbody B.
  destruct (N.ltb_spec a b) as [H1|H1].
  - destruct (N.ltb_spec (a + B - b) cy) as [H2|H2];
      destruct (N.ltb_spec a (b + cy)) as [H3|H3]; try lia;
      destruct (N.ltb_spec (a + B) (b + cy)) as [H4|H4]; try lia; f_equal; lia.
  - destruct (N.ltb_spec (a - b) cy) as [H2|H2];
      destruct (N.ltb_spec a (b + cy)) as [H3|H3]; try lia.
    + destruct (N.ltb_spec (a + B) (b + cy)) as [H4|H4]; try lia. f_equal; lia.
    + f_equal; lia.
Qed.

Lemma wmul_full w a b : 0 < w -> a < 2 ^ w -> b < 2 ^ w ->
  wmul w a b = (trunc w (a * b), N.shiftr (a * b) w).
Proof.
  intros Hw Ha Hb. destruct (wmul w a b) as [lo hi] eqn:E.
  destruct (wmul_spec w a b lo hi Hw Ha Hb E) as (Hs & Hlo & _).
  rewrite trunc_mod, N.shiftr_div_pow2. f_equal.
  - apply (N.mod_unique _ _ hi); [assumption|lia].
  - apply (N.div_unique _ _ _ lo); [assumption|lia].
Qed.

Lemma ltb_pow2 x w : (x <? pow2 w) = true -> x < 2 ^ w.
Proof. intros H. apply N.ltb_lt in H. rewrite pow2_eq in H. assumption. Qed.

Lemma master_op_90 c : c_op c = 90 -> case_okb c = true -> prop_case c (run_case c) = true.
Proof.
  intros Hop Hok. args_of Hok Hop HF Ha.
  rewrite !andb_true_iff in Ha. destruct Ha as [[[_ H1] H2] H3].
  apply ltb_pow2 in H1. apply ltb_pow2 in H2. apply ltb_pow2 in H3.
  open_case Hop. destruct (sval c 0) as [[ka a]|]; [reflexivity|].
  rewrite cadd_full by assumption. cbn [res_ok items_ok item_ok]. rewrite !N.eqb_refl. reflexivity.
Qed.

Lemma master_op_91 c : c_op c = 91 -> case_okb c = true -> prop_case c (run_case c) = true.
Proof.
  intros Hop Hok. args_of Hok Hop HF Ha.
  rewrite !andb_true_iff in Ha. destruct Ha as [[[_ H1] H2] H3].
  apply ltb_pow2 in H1. apply ltb_pow2 in H2. apply ltb_pow2 in H3.
  open_case Hop. destruct (sval c 0) as [[ka a]|]; [reflexivity|].
  rewrite csub_full by assumption. cbv zeta. cbn [res_ok items_ok item_ok]. rewrite !N.eqb_refl. reflexivity.
Qed.

Lemma master_op_92 c : c_op c = 92 -> case_okb c = true -> prop_case c (run_case c) = true.
Proof.
  intros Hop Hok. args_of Hok Hop HF Ha.
  rewrite !andb_true_iff in Ha. destruct Ha as [[Hw H1] H2].
  apply ltb_pow2 in H1. apply ltb_pow2 in H2. apply std_widthb_spec, std_width_pos in Hw.
  open_case Hop. destruct (sval c 0) as [[ka a]|]; [reflexivity|].
  rewrite wmul_full by assumption. cbn [res_ok items_ok item_ok]. rewrite !N.eqb_refl. reflexivity.
Qed.

Lemma master_op_93 c : c_op c = 93 -> case_okb c = true -> prop_case c (run_case c) = true.
Proof.
  intros Hop Hok.
  open_case Hop. destruct (sval c 0) as [[ka a]|]; [reflexivity|].
  rewrite maskw_eq. cbn [res_ok items_ok item_ok]. rewrite !N.eqb_refl. reflexivity.
Qed.

Lemma master_op_97 c : c_op c = 97 -> case_okb c = true -> prop_case c (run_case c) = true.
Proof.
  intros Hop Hok.
  open_case Hop. destruct (sval c 0) as [[ka a]|]; [reflexivity|].
  destruct (arg c 0) as [|p]; reflexivity.
Qed.

(* ------------------------------------------------------------------ assembly *)

Definition ops_B : list N :=
  [40;41;42;43;44;45;46;47;49;50;51;52;53;54;55;56;57;58;60;61;62;63;64;65;66;67;68;90;91;92;93;97].

Theorem master_B c : In (c_op c) ops_B -> case_okb c = true -> prop_case c (run_case c) = true.
Proof.
  intros Hin Hok. unfold ops_B in Hin. cbn [In] in Hin.
  repeat (destruct Hin as [Hin|Hin]; [symmetry in Hin; revert Hin Hok|]); [..|destruct Hin].
  - apply master_op_40.
  - apply master_op_41.
  - apply master_op_42.
  - apply master_op_43.
  - apply master_op_44.
  - apply master_op_45.
  - apply master_op_46.
  - apply master_op_47.
  - apply master_op_49.
  - apply master_op_50.
  - apply master_op_51.
  - apply master_op_52.
  - apply master_op_53.
  - apply master_op_54.
  - apply master_op_55.
  - apply master_op_56.
  - apply master_op_57.
  - apply master_op_58.
  - apply master_op_60.
  - apply master_op_61.
  - apply master_op_62.
  - apply master_op_63.
  - apply master_op_64.
  - apply master_op_65.
  - apply master_op_66.
  - apply master_op_67.
  - apply master_op_68.
  - apply master_op_90.
  - apply master_op_91.
  - apply master_op_92.
  - apply master_op_93.
  - apply master_op_97.
Qed.
