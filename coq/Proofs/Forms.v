(* Operator forms (property C20) and native right-hand operands.
   The model's interpreter `run_case` consults the form of an operator application only for
   `!`, `<<` and `>>` (whose by-reference versions on the heap type have bodies of their own);
   every other operator delegates to one body, so its result does not depend on the form at all. *)
From BVA Require Import Base.Prelude Base.Result Base.Words Base.Limbs.
From BVA Require Import Model.Core Model.Ops Model.Arith Model.Conv Model.Auto Model.Run Spec.Spec Spec.Prop.
From BVA Require Import Proofs.Common Proofs.Rechunk Proofs.Lift Proofs.Pairings Proofs.ConvP.
From Coq Require Import ZifyBool ZifyN ZifyNat.

Definition set_form (c : case) (f : N) : case :=
  mkcase (c_op c) f (c_prof c) (c_kind c) (c_args c) (c_vals c) (c_lists c).

Lemma run_case_form_irrelevant c f :
  c_op c <> 60 -> c_op c <> 61 -> c_op c <> 62 -> run_case (set_form c f) = run_case c.
Proof.
  intros H60 H61 H62. unfold run_case.
  change (c_op (set_form c f)) with (c_op c).
  change (c_prof (set_form c f)) with (c_prof c).
  change (c_kind (set_form c f)) with (c_kind c).
  destruct (c_op c) as [|p]; [reflexivity|].
  do 8 (try (destruct p as [p|p|]; try reflexivity; try (exfalso; congruence))).
Qed.

(* native right-hand operand: the impl first builds a vector of the left operand's flavour
   holding x with the integer type's width, then applies the vector operator *)
Theorem x_addsub_native o a t x :
  Good a -> std_width t -> x < 2 ^ t ->
  exists b r, lift_uint a t x = Ok b /\ x_addsub o a b = Ok r /\ Good r /\ kind_of r = kind_of a /\
              abs r = s_addsub o (abs a) (mkbv t x).
Proof.
  intros Ha Ht Hx. destruct (lift_uint_spec a t x Ht Hx) as (b & Hb & Gb & Ab).
  destruct (x_addsub_spec o a b Ha Gb) as (r & Hr & Gr & Kr & _ & Ar).
  exists b, r. rewrite Ab in Ar. auto.
Qed.

Theorem x_mul_native P a t x :
  Good a -> std_width t -> x < 2 ^ t ->
  exists b r, lift_uint a t x = Ok b /\ x_mul P a b = Ok r /\ Good r /\ kind_of r = kind_of a /\
              abs r = s_mul (abs a) (mkbv t x).
Proof.
  intros Ha Ht Hx. destruct (lift_uint_spec a t x Ht Hx) as (b & Hb & Gb & Ab).
  destruct (x_mul_spec P a b Ha Gb) as (r & Hr & Gr & Kr & _ & Ar).
  exists b, r. rewrite Ab in Ar. auto.
Qed.

Theorem x_bitop_native o a t x :
  Good a -> std_width t -> x < 2 ^ t ->
  exists b r, lift_uint a t x = Ok b /\ x_bitop o a b = Ok r /\ Good r /\ kind_of r = kind_of a /\
              abs r = s_bitop o (abs a) (mkbv t x).
Proof.
  intros Ha Ht Hx. destruct (lift_uint_spec a t x Ht Hx) as (b & Hb & Gb & Ab).
  destruct (x_bitop_spec o a b Ha Gb) as (r & Hr & Gr & Kr & _ & Ar).
  exists b, r. rewrite Ab in Ar. auto.
Qed.

(* `!a` and `!&a` agree on length and bits *)
Theorem x_not_forms_agree a :
  Good a -> exists r1 r2, x_not false a = Ok r1 /\ x_not true a = Ok r2 /\ abs r1 = abs r2.
Proof.
  intros Ha.
  destruct (x_not_spec false a Ha) as (r1 & H1 & _ & _ & _ & A1).
  destruct (x_not_spec true a Ha) as (r2 & H2 & _ & _ & _ & A2).
  exists r1, r2. rewrite A1, A2. auto.
Qed.
