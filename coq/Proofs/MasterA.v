(* Proofs/MasterA.v *)
From BVA Require Import Base.Prelude Base.Result Base.Words Base.Limbs.
From BVA Require Import Model.Core Model.Ops Model.Arith Model.Conv Model.Auto Model.Run Spec.Spec Spec.Prop Spec.CaseOk.
From BVA Require Import Proofs.Common Proofs.Rechunk Proofs.Lift.
From Coq Require Import ZifyBool ZifyN ZifyNat.
From BVA Require Import Proofs.Pairings Proofs.ConvP Proofs.XEdit Proofs.XObs Proofs.FmtParse Proofs.Forms Proofs.Div.
From BVA Require Proofs.Sink.

(* The master theorem, part A: constructors and observers (operation codes 1..37).
   For every case inside the scope `case_okb`, what the model computes (`run_case`) satisfies
   the property relation (`prop_case`). *)

(* ------------------------------------------------------------------ boolean scope -> Prop *)

Lemma std_widthb_ok w : std_widthb w = true -> std_width w.
Proof.
  unfold std_widthb, std_width. cbn [In]. rewrite !orb_true_iff, !N.eqb_eq.
  intros [[[[H|H]|H]|H]|H]; subst; auto 6.
Qed.

Lemma goodb_Good x : goodb x = true -> Good x.
Proof.
  unfold goodb. rewrite andb_true_iff. intros [Hc Hw].
  split; [apply canonb_spec; exact Hc|apply std_widthb_ok; exact Hw].
Qed.

Lemma Good_canonb x : Good x -> canonb x = true.
Proof. intros [Hc _]. apply canonb_spec. exact Hc. Qed.

Lemma kind_okb_ok k : kind_okb k = true -> XEdit.kind_ok k.
Proof.
  destruct k as [w n| |]; cbn [kind_okb XEdit.kind_ok]; try (intros _; exact I).
  rewrite andb_true_iff. intros [Hw Hn]. split; [apply std_widthb_ok; exact Hw|apply N.leb_le; exact Hn].
Qed.

Lemma all_lt_Forall b l : all_lt b l = true -> Forall (fun x => x < b) l.
Proof.
  unfold all_lt. rewrite forallb_forall, Forall_forall. intros H x Hx. apply N.ltb_lt, H, Hx.
Qed.

Lemma all_lt2_Forall l : all_lt 2 l = true -> Forall (fun x => x <= 1) l.
Proof.
  intros H. apply all_lt_Forall in H. rewrite Forall_forall in *. intros x Hx. specialize (H x Hx). lia.
Qed.

Lemma case_ok_parts c : case_okb c = true ->
  forallb goodb (c_vals c) = true /\ XEdit.kind_ok (c_kind c) /\ args_okb c = true.
Proof.
  unfold case_okb. rewrite !andb_true_iff. intros [[[Hv Hk] Ha] _].
  split; [exact Hv|]. split; [apply kind_okb_ok; exact Hk|exact Ha].
Qed.

(* the operands *)
Lemma ok1 c : forallb goodb (c_vals c) = true -> nvals c 1 = true ->
  exists x, Good x /\ Run.val c 0 = Ok x /\ sval c 0 = Some (kind_of x, abs x).
Proof.
  unfold nvals, Run.val, sval. destruct (c_vals c) as [|x [|y r]]; cbn [length Nat.eqb]; try discriminate.
  cbn [forallb nth_error]. rewrite andb_true_iff. intros [Hx _] _.
  exists x. split; [apply goodb_Good; exact Hx|]. split; reflexivity.
Qed.

Lemma ok1e c : forallb goodb (c_vals c) = true -> nvals c 1 = true ->
  exists x, c_vals c = [x] /\ Good x /\ Run.val c 0 = Ok x /\ sval c 0 = Some (kind_of x, abs x).
Proof.
  unfold nvals, Run.val, sval. destruct (c_vals c) as [|x [|y r]]; cbn [length Nat.eqb]; try discriminate.
  cbn [forallb nth_error]. rewrite andb_true_iff. intros [Hx _] _.
  exists x. split; [reflexivity|]. split; [apply goodb_Good; exact Hx|]. split; reflexivity.
Qed.

Lemma ok2 c : forallb goodb (c_vals c) = true -> nvals c 2 = true ->
  exists a b, c_vals c = [a; b] /\ Good a /\ Good b /\ Run.val c 0 = Ok a /\ Run.val c 1 = Ok b /\
              sval c 0 = Some (kind_of a, abs a) /\ sval c 1 = Some (kind_of b, abs b).
Proof.
  unfold nvals, Run.val, sval. destruct (c_vals c) as [|x [|y [|z r]]]; cbn [length Nat.eqb]; try discriminate.
  cbn [forallb nth_error]. rewrite !andb_true_iff. intros (Hx & Hy & _) _.
  exists x, y. split; [reflexivity|]. split; [apply goodb_Good; exact Hx|].
  split; [apply goodb_Good; exact Hy|]. repeat split; reflexivity.
Qed.

(* ------------------------------------------------------------------ comparing with the specification *)

Lemma list_eqb_refl l : list_eqb l l = true.
Proof. induction l as [|x l IH]; cbn [list_eqb]; [reflexivity|]. rewrite N.eqb_refl, IH. reflexivity. Qed.

Lemma bv_eqb_refl v : bv_eqb v v = true.
Proof. unfold bv_eqb. rewrite !N.eqb_refl. reflexivity. Qed.

Lemma item_ok_SV k v lo r : Good r -> kind_matches k r = true -> abs r = v -> lo <= x_capacity r ->
  item_ok (SV k v lo None) (IV r) = true.
Proof.
  intros Hg Hk <- Hlo. cbn [item_ok]. rewrite Hk, (Good_canonb r Hg), bv_eqb_refl.
  cbn [andb]. rewrite andb_true_r. apply N.leb_le. exact Hlo.
Qed.

Lemma item_ok_sv k v r : Good r -> kind_matches k r = true -> abs r = v -> item_ok (sv k v) (IV r) = true.
Proof. intros Hg Hk Ha. unfold sv. apply item_ok_SV; try assumption. lia. Qed.

Lemma item_ok_sv_of a v r : Good r -> kind_of r = kind_of a -> abs r = v -> item_ok (sv (kind_of a) v) (IV r) = true.
Proof. intros Hg Hk Ha. apply item_ok_sv; try assumption. rewrite <- Hk. apply kind_matches_of. Qed.

(* a constructor-shaped result *)
Lemma res_ok_ctor k v (m : outcome bvx) :
  (exists r, m = Ok r /\ Good r /\ kind_matches k r = true /\ abs r = v) ->
  res_ok (SOk [sv k v]) (ret_v m) = true.
Proof.
  intros (r & -> & Hg & Hk & Ha). unfold ret_v. cbn [bind res_ok items_ok].
  rewrite item_ok_sv by assumption. reflexivity.
Qed.

Lemma res_ok_SN n : res_ok (SOk [SN n]) (Ok [IN n]) = true.
Proof. cbn [res_ok items_ok item_ok]. rewrite N.eqb_refl. reflexivity. Qed.

Lemma res_ok_SL l : res_ok (SOk [SL l]) (Ok [IL l]) = true.
Proof. cbn [res_ok items_ok item_ok]. rewrite list_eqb_refl. reflexivity. Qed.

Lemma prop_case_ne c r : c_op c <> 37 -> prop_case c r = res_ok (spec_case c) r.
Proof. intros H. unfold prop_case. apply N.eqb_neq in H. rewrite H. reflexivity. Qed.

(* common opening: split the scope hypothesis, expose the branch of the three dispatchers *)
Ltac open_case c Hop Hok Hv Hk Ha :=
  intros Hop Hok; apply case_ok_parts in Hok; destruct Hok as (Hv & Hk & Ha);
  rewrite (prop_case_ne c) by (rewrite Hop; discriminate);
  unfold args_okb in Ha; rewrite Hop in Ha; cbv beta iota in Ha;
  unfold run_case, spec_case; rewrite Hop; cbv beta iota zeta.

(* ------------------------------------------------------------------ constructors *)

Lemma master_op_1 c : c_op c = 1 -> case_okb c = true -> prop_case c (run_case c) = true.
Proof.
  open_case c Hop Hok Hv Hk Ha.
  destruct (k_zeros_spec (c_kind c) (arg c 0) Hk) as [HP HO].
  destruct (fits (c_kind c) (arg c 0)).
  - apply res_ok_ctor. apply HO. reflexivity.
  - rewrite HP by reflexivity. reflexivity.
Qed.

Lemma master_op_2 c : c_op c = 2 -> case_okb c = true -> prop_case c (run_case c) = true.
Proof.
  open_case c Hop Hok Hv Hk Ha.
  destruct (k_ones_spec (c_kind c) (arg c 0) Hk) as [HP HO].
  destruct (fits (c_kind c) (arg c 0)).
  - apply res_ok_ctor. apply HO. reflexivity.
  - rewrite HP by reflexivity. reflexivity.
Qed.

Lemma master_op_3 c : c_op c = 3 -> case_okb c = true -> prop_case c (run_case c) = true.
Proof.
  open_case c Hop Hok Hv Hk Ha.
  destruct (k_with_capacity_spec (c_kind c) (arg c 0) Hk) as (r & -> & Hg & Hm & Habs & Hcap).
  unfold ret_v. cbn [bind res_ok items_ok]. rewrite item_ok_SV; try assumption; [reflexivity|].
  destruct (kind_fixed (c_kind c)); [lia|]. apply Hcap. reflexivity.
Qed.

Lemma master_op_13 c : c_op c = 13 -> case_okb c = true -> prop_case c (run_case c) = true.
Proof.
  open_case c Hop Hok Hv Hk Ha.
  destruct (k_zeros_spec (c_kind c) (arg c 1) Hk) as [HPz HOz].
  destruct (k_ones_spec (c_kind c) (arg c 1) Hk) as [HPo HOo].
  unfold s_fill.
  destruct (fits (c_kind c) (arg c 1)); destruct (arg c 0 =? 0).
  - apply res_ok_ctor. apply HOz. reflexivity.
  - apply res_ok_ctor. apply HOo. reflexivity.
  - rewrite HPz by reflexivity. reflexivity.
  - rewrite HPo by reflexivity. reflexivity.
Qed.

(* from_binary / from_hex: the parsing theorems are stated against `s_parse` itself *)
Lemma res_ok_parse k digit sh s (m : outcome bvx) :
  match s_parse k digit sh s with
  | SOk [SV k' v _ _] => exists r, m = Ok r /\ Good r /\ kind_matches k r = true /\ abs r = v
  | SErr e => m = Err e
  | _ => True
  end ->
  res_ok (s_parse k digit sh s) (ret_v m) = true.
Proof.
  unfold s_parse. destruct (all_valid digit s); destruct (fits k (lenw s * sh)); unfold sv; cbv beta iota.
  - intros H. apply (res_ok_ctor k). exact H.
  - intros ->. reflexivity.
  - intros ->. cbn [ret_v bind res_ok err_eqb]. apply N.eqb_refl.
  - intros _. reflexivity.
Qed.

Lemma master_op_4 c : c_op c = 4 -> case_okb c = true -> prop_case c (run_case c) = true.
Proof.
  open_case c Hop Hok Hv Hk Ha. apply res_ok_parse. apply k_from_binary_spec. exact Hk.
Qed.

Lemma master_op_5 c : c_op c = 5 -> case_okb c = true -> prop_case c (run_case c) = true.
Proof.
  open_case c Hop Hok Hv Hk Ha. apply res_ok_parse. apply k_from_hex_spec. exact Hk.
Qed.

(* ------------------------------------------------------------------ bytes *)

Lemma master_op_6 c : c_op c = 6 -> case_okb c = true -> prop_case c (run_case c) = true.
Proof.
  open_case c Hop Hok Hv Hk Ha. apply andb_true_iff in Ha. destruct Ha as [_ Hb]. apply all_lt_Forall in Hb.
  destruct (k_from_bytes_spec (c_kind c) (lst c 0) (endian_of (arg c 0)) Hk Hb) as [HE HO].
  destruct (fits (c_kind c) (8 * lenw (lst c 0))).
  - apply res_ok_ctor. apply HO. reflexivity.
  - rewrite HE by reflexivity. reflexivity.
Qed.

Lemma lenw_skipn (l : list N) n : lenw (skipn (N.to_nat n) l) = lenw l - n.
Proof. unfold lenw. rewrite skipn_length. lia. Qed.

Lemma master_op_7 c : c_op c = 7 -> case_okb c = true -> prop_case c (run_case c) = true.
Proof.
  open_case c Hop Hok Hv Hk Ha. apply andb_true_iff in Ha. destruct Ha as [_ Hb]. apply all_lt_Forall in Hb.
  destruct (k_read_spec (c_kind c) (lst c 0) (arg c 0) (endian_of (arg c 1)) Hk Hb) as [HE HO].
  destruct (fits (c_kind c) (arg c 0)); cbn [negb orb].
  - destruct (N.ltb_spec (lenw (lst c 0)) ((arg c 0 + 7) / 8)) as [Hlt|Hge].
    + destruct HE as [e ->]; [right; exact Hlt|]. reflexivity.
    + destruct (HO eq_refl Hge) as (r & -> & Hg & Hm & Habs). cbn [bind res_ok items_ok item_ok].
      rewrite lenw_skipn, N.eqb_refl. rewrite trunc_mod.
      rewrite item_ok_sv by assumption. reflexivity.
  - destruct HE as [e ->]; [left; reflexivity|]. reflexivity.
Qed.

(* ------------------------------------------------------------------ integers, slices, iterators *)

Lemma master_op_8 c : c_op c = 8 -> case_okb c = true -> prop_case c (run_case c) = true.
Proof.
  open_case c Hop Hok Hv Hk Ha. apply andb_true_iff in Ha. destruct Ha as [Ha Hx].
  apply andb_true_iff in Ha. destruct Ha as [_ Ht]. apply std_widthb_ok in Ht.
  apply N.ltb_lt in Hx. rewrite pow2_eq in Hx.
  destruct (k_from_uint_spec (c_kind c) (arg c 0) (arg c 1) Hk Ht Hx) as [HE HO].
  destruct (kind_fixed (c_kind c)).
  - destruct (N.leb_spec (N.size (arg c 1)) (kind_cap (c_kind c))) as [Hle|Hgt].
    + apply res_ok_ctor. apply HO. right. exact Hle.
    + rewrite HE by (reflexivity || assumption). reflexivity.
  - apply res_ok_ctor. apply HO. left. reflexivity.
Qed.

Lemma raw_val_of_digits j s : Forall (fun x => x < 2 ^ j) s ->
  raw j s = val_of_digits (pow2 j) (rev (map (trunc j) s)).
Proof.
  induction 1 as [|x r Hx Hr IH]; [reflexivity|].
  cbn [raw map rev]. rewrite vod_snoc, <- IH, trunc_small by exact Hx.
  rewrite N.shiftl_mul_pow2, pow2_eq. lia.
Qed.

Lemma master_op_9 c : c_op c = 9 -> case_okb c = true -> prop_case c (run_case c) = true.
Proof.
  open_case c Hop Hok Hv Hk Ha. apply andb_true_iff in Ha. destruct Ha as [Ha Hl].
  apply andb_true_iff in Ha. destruct Ha as [_ Ht]. apply std_widthb_ok in Ht.
  apply all_lt_Forall in Hl. rewrite pow2_eq in Hl.
  destruct (k_from_slice_spec (c_kind c) (arg c 0) (lst c 0) Hk Ht Hl) as [HE HO].
  destruct (fits (c_kind c) (lenw (lst c 0) * arg c 0)).
  - apply res_ok_ctor. rewrite <- raw_val_of_digits by exact Hl. apply HO. reflexivity.
  - rewrite HE by reflexivity. reflexivity.
Qed.

Lemma master_op_10 c : c_op c = 10 -> case_okb c = true -> prop_case c (run_case c) = true.
Proof.
  open_case c Hop Hok Hv Hk Ha. apply andb_true_iff in Ha. destruct Ha as [_ Hb]. apply all_lt2_Forall in Hb.
  destruct (k_from_iter_spec (c_prof c) (c_kind c) (arg c 0) (lst c 0) Hk Hb) as [HP HO].
  destruct (fits (c_kind c) (lenw (lst c 0))).
  - apply res_ok_ctor. apply HO. reflexivity.
  - rewrite HP by reflexivity. reflexivity.
Qed.

(* ------------------------------------------------------------------ conversions *)

Lemma master_op_11 c : c_op c = 11 -> case_okb c = true -> prop_case c (run_case c) = true.
Proof.
  open_case c Hop Hok Hv Hk Ha. destruct (ok1 c Hv Ha) as (x & Hg & -> & ->). cbn [bind]. cbv beta iota.
  destruct (convert_spec (c_kind c) x Hk Hg) as [HE HO]. rewrite blen_abs.
  destruct (fits (c_kind c) (xlen x)).
  - apply res_ok_ctor. apply HO. reflexivity.
  - rewrite HE by reflexivity. reflexivity.
Qed.

Lemma master_op_12 c : c_op c = 12 -> case_okb c = true -> prop_case c (run_case c) = true.
Proof.
  open_case c Hop Hok Hv Hk Ha. destruct (ok1 c Hv Ha) as (x & Hg & -> & ->). cbn [bind]. cbv beta iota.
  cbn [res_ok items_ok]. rewrite item_ok_sv_of by (assumption || reflexivity). reflexivity.
Qed.

Lemma master_op_14 c : c_op c = 14 -> case_okb c = true -> prop_case c (run_case c) = true.
Proof.
  open_case c Hop Hok Hv Hk Ha.
  destruct (ok2 c Hv Ha) as (a & b & _ & Hga & Hgb & -> & -> & _ & ->). cbn [bind]. cbv beta iota.
  cbn [res_ok items_ok]. rewrite item_ok_sv_of by (assumption || reflexivity). reflexivity.
Qed.

(* ------------------------------------------------------------------ observers *)

(* opening for an operation on one vector operand (args_okb = nvals c 1 && rest) *)
Ltac one_operand c Hv Hn x Hg :=
  destruct (ok1 c Hv Hn) as (x & Hg & -> & ->); cbn [bind]; cbv beta iota; rewrite ?blen_abs.

Lemma master_op_20 c : c_op c = 20 -> case_okb c = true -> prop_case c (run_case c) = true.
Proof.
  open_case c Hop Hok Hv Hk Ha. one_operand c Hv Ha x Hg.
  cbn [res_ok items_ok item_ok]. rewrite andb_true_r. apply N.leb_le. apply x_capacity_ge_len. exact Hg.
Qed.

Lemma master_op_21 c : c_op c = 21 -> case_okb c = true -> prop_case c (run_case c) = true.
Proof. open_case c Hop Hok Hv Hk Ha. one_operand c Hv Ha x Hg. apply res_ok_SN. Qed.

Lemma master_op_22 c : c_op c = 22 -> case_okb c = true -> prop_case c (run_case c) = true.
Proof.
  open_case c Hop Hok Hv Hk Ha. one_operand c Hv Ha x Hg.
  rewrite x_to_vec_spec by exact Hg. apply res_ok_SL.
Qed.

Lemma master_op_23 c : c_op c = 23 -> case_okb c = true -> prop_case c (run_case c) = true.
Proof.
  open_case c Hop Hok Hv Hk Ha. one_operand c Hv Ha x Hg.
  rewrite x_to_vec_spec by exact Hg. apply res_ok_SL.
Qed.

(* write into a bounded sink *)
Lemma master_op_38 c : c_op c = 38 -> case_okb c = true -> prop_case c (run_case c) = true.
Proof.
  open_case c Hop Hok Hv Hk Ha.
  apply andb_true_iff in Ha. destruct Ha as [Ha Hch]. apply N.leb_le in Hch.
  one_operand c Hv Ha x Hg.
  rewrite x_to_vec_spec by exact Hg. cbn [bind]. cbv beta.
  set (bytes := match endian_of (arg c 0) with Little => bytes_le (abs x) | Big => rev (bytes_le (abs x)) end).
  rewrite Sink.write_all_sink_spec by lia.
  destruct (N.leb_spec (lenw bytes) (arg c 1)) as [Hle|Hgt].
  - rewrite N.min_r by assumption. unfold lenw. rewrite Nat2N.id, firstn_all. cbn [app].
    cbn [res_ok items_ok item_ok]. rewrite list_eqb_refl, N.eqb_refl. reflexivity.
  - cbn [res_ok items_ok item_ok]. reflexivity.
Qed.

Lemma sbit_abs x i : Good x -> sbit (abs x) i = N.b2n (N.testbit (Lift.val x) i).
Proof. intros Hg. unfold sbit. rewrite (abs_Good x Hg). reflexivity. Qed.

Lemma master_op_24 c : c_op c = 24 -> case_okb c = true -> prop_case c (run_case c) = true.
Proof.
  open_case c Hop Hok Hv Hk Ha. one_operand c Hv Ha x Hg.
  destruct (N.ltb_spec (arg c 0) (xlen x)) as [Hlt|Hge].
  - rewrite x_get_spec by assumption. rewrite sbit_abs by exact Hg. apply res_ok_SN.
  - destruct (c_prof c); cbn [dbg_or_free]; [|reflexivity].
    rewrite x_get_debug_oob by exact Hge. reflexivity.
Qed.

Lemma master_op_25 c : c_op c = 25 -> case_okb c = true -> prop_case c (run_case c) = true.
Proof.
  open_case c Hop Hok Hv Hk Ha. one_operand c Hv Ha x Hg.
  rewrite x_first_spec by exact Hg. apply res_ok_SN.
Qed.

Lemma master_op_26 c : c_op c = 26 -> case_okb c = true -> prop_case c (run_case c) = true.
Proof.
  open_case c Hop Hok Hv Hk Ha. one_operand c Hv Ha x Hg.
  rewrite x_last_spec by exact Hg. apply res_ok_SN.
Qed.

Lemma master_op_27 c : c_op c = 27 -> case_okb c = true -> prop_case c (run_case c) = true.
Proof.
  open_case c Hop Hok Hv Hk Ha. one_operand c Hv Ha x Hg.
  rewrite x_count_spec by exact Hg. apply res_ok_SN.
Qed.

Lemma master_op_28 c : c_op c = 28 -> case_okb c = true -> prop_case c (run_case c) = true.
Proof.
  open_case c Hop Hok Hv Hk Ha. one_operand c Hv Ha x Hg.
  rewrite x_sigbits_spec' by exact Hg. apply res_ok_SN.
Qed.

Lemma master_op_29 c : c_op c = 29 -> case_okb c = true -> prop_case c (run_case c) = true.
Proof.
  open_case c Hop Hok Hv Hk Ha. one_operand c Hv Ha x Hg.
  rewrite x_is_zero_spec by exact Hg. apply res_ok_SN.
Qed.

Lemma master_op_30 c : c_op c = 30 -> case_okb c = true -> prop_case c (run_case c) = true.
Proof.
  open_case c Hop Hok Hv Hk Ha. apply andb_true_iff in Ha. destruct Ha as [Ha _]. one_operand c Hv Ha x Hg.
  rewrite x_iter_spec by exact Hg. apply res_ok_SL.
Qed.

Lemma master_op_31 c : c_op c = 31 -> case_okb c = true -> prop_case c (run_case c) = true.
Proof.
  open_case c Hop Hok Hv Hk Ha. apply andb_true_iff in Ha. destruct Ha as [Ha _].
  apply andb_true_iff in Ha. destruct Ha as [Ha H1].
  destruct (ok1e c Hv Ha) as (x & Ec & Hg & -> & ->); cbn [bind]; cbv beta iota; rewrite ?blen_abs.
  apply orb_true_iff in H1. destruct H1 as [H1|H1].
  - apply N.leb_le in H1.
    rewrite x_fmt_digits_spec by assumption. cbn [bind].
    destruct (s_fmt (arg c 0) (abs x)) as [pre digits]. apply res_ok_SL.
  - (* decimal: which = 0 unless the first disjunct holds; split on it *)
    destruct (N.leb_spec 1 (arg c 0)) as [H1'|H0].
    + rewrite x_fmt_digits_spec by assumption. cbn [bind].
      destruct (s_fmt (arg c 0) (abs x)) as [pre digits]. apply res_ok_SL.
    + assert (arg c 0 = 0) as E0 by lia. rewrite E0.
      unfold disp_okb in H1.
      unfold len0 in H1. rewrite Ec in H1. apply N.ltb_lt in H1. unfold A1 in H1. rewrite pow2_eq in H1.
      rewrite Div.x_fmt_digits_display; try assumption.
      cbn [bind]. destruct (s_fmt 0 (abs x)) as [pre digits]. apply res_ok_SL.
Qed.

Lemma master_op_32 c : c_op c = 32 -> case_okb c = true -> prop_case c (run_case c) = true.
Proof.
  open_case c Hop Hok Hv Hk Ha. one_operand c Hv Ha x Hg. reflexivity.
Qed.

Lemma master_op_33 c : c_op c = 33 -> case_okb c = true -> prop_case c (run_case c) = true.
Proof.
  open_case c Hop Hok Hv Hk Ha. apply andb_true_iff in Ha. destruct Ha as [Ha Ht]. apply std_widthb_ok in Ht.
  one_operand c Hv Ha x Hg.
  rewrite x_to_uint_spec by assumption. unfold s_sigbits. rewrite (abs_Good x Hg). cbn [bval].
  destruct (N.size (Lift.val x) <=? arg c 0); [apply res_ok_SN|reflexivity].
Qed.

Ltac two_operands c Hv Hn a b Ec Hga Hgb :=
  destruct (ok2 c Hv Hn) as (a & b & Ec & Hga & Hgb & -> & -> & -> & ->); cbn [bind]; cbv beta iota.

Lemma master_op_34 c : c_op c = 34 -> case_okb c = true -> prop_case c (run_case c) = true.
Proof.
  open_case c Hop Hok Hv Hk Ha. two_operands c Hv Ha a b Ec Hga Hgb.
  rewrite x_eq_spec by assumption. apply res_ok_SN.
Qed.

Lemma master_op_35 c : c_op c = 35 -> case_okb c = true -> prop_case c (run_case c) = true.
Proof.
  open_case c Hop Hok Hv Hk Ha. two_operands c Hv Ha a b Ec Hga Hgb.
  rewrite x_cmp_spec by assumption. apply res_ok_SN.
Qed.

Lemma master_op_36 c : c_op c = 36 -> case_okb c = true -> prop_case c (run_case c) = true.
Proof. open_case c Hop Hok Hv Hk Ha. one_operand c Hv Ha x Hg. apply res_ok_SN. Qed.

(* ------------------------------------------------------------------ C10: Hash and Eq agree *)

Lemma same_typeb_ok a b : same_typeb a b = true -> XObs.same_type a b.
Proof.
  destruct a, b; cbn [same_typeb XObs.same_type]; try discriminate; try (intros _; exact I).
  apply N.eqb_eq.
Qed.

Lemma master_op_37 c : c_op c = 37 -> case_okb c = true -> prop_case c (run_case c) = true.
Proof.
  intros Hop Hok. apply case_ok_parts in Hok. destruct Hok as (Hv & Hk & Ha).
  unfold args_okb in Ha. rewrite Hop in Ha. cbv beta iota in Ha.
  apply andb_true_iff in Ha. destruct Ha as [Hn Hst].
  unfold prop_case, run_case. rewrite Hop. cbv beta iota zeta. change (37 =? 37) with true. cbv iota.
  unfold prop_hash_pair.
  destruct (ok2 c Hv Hn) as (a & b & Ec & Hga & Hgb & -> & -> & -> & ->). cbn [bind]. cbv beta iota.
  rewrite Ec in Hst. apply same_typeb_ok in Hst.
  destruct (x_hash_ok (c_prof c) a Hga) as [ha Eha]. destruct (x_hash_ok (c_prof c) b Hgb) as [hb Ehb].
  rewrite Eha, Ehb. cbn [bind]. cbv beta iota.
  rewrite (x_eq_spec a b Hga Hgb), N.eqb_refl. cbn [andb].
  destruct (N.eqb_spec (bval (abs a)) (bval (abs b))) as [E|E]; [|reflexivity].
  rewrite (abs_Good a Hga), (abs_Good b Hgb) in E. cbn [bval] in E.
  rewrite (x_hash_eq (c_prof c) a b Hga Hgb Hst E), Ehb in Eha. injection Eha as <-.
  cbn [negb orb]. apply list_eqb_refl.
Qed.

(* ------------------------------------------------------------------ assembly *)

Definition ops_A : list N :=
  [1;2;3;4;5;6;7;8;9;10;11;12;13;14;20;21;22;23;24;25;26;27;28;29;30;31;32;33;34;35;36;37;38].

Theorem master_A c : In (c_op c) ops_A -> case_okb c = true -> prop_case c (run_case c) = true.
Proof.
  unfold ops_A. cbn [In]. intros H.
  repeat (destruct H as [H|H];
          [symmetry in H; revert H;
           first [ apply master_op_1 | apply master_op_2 | apply master_op_3 | apply master_op_4
                 | apply master_op_5 | apply master_op_6 | apply master_op_7 | apply master_op_8
                 | apply master_op_9 | apply master_op_10 | apply master_op_11 | apply master_op_12
                 | apply master_op_13 | apply master_op_14 | apply master_op_20 | apply master_op_21 | apply master_op_22
                 | apply master_op_23 | apply master_op_24 | apply master_op_25 | apply master_op_26
                 | apply master_op_27 | apply master_op_28 | apply master_op_29 | apply master_op_30
                 | apply master_op_31 | apply master_op_32 | apply master_op_33 | apply master_op_34
                 | apply master_op_35 | apply master_op_36 | apply master_op_37 | apply master_op_38 ]|]).
  contradiction.
Qed.
