(* Proofs/MasterA.v *)
From BVA Require Import Base.Prelude Base.Result Base.Words Base.Limbs.
From BVA Require Import Model.Core Model.Ops Model.Arith Model.Conv Model.Auto Model.Run Spec.Spec Spec.Prop Spec.CaseOk.
From BVA Require Import Proofs.Common Proofs.Rechunk Proofs.Lift.
From Coq Require Import ZifyBool ZifyN ZifyNat.
