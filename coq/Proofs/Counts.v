(* Proofs/Counts.v *)
From BVA Require Import Base.Prelude Base.Result Base.Words Base.Limbs.
From BVA Require Import Model.Core Model.Ops Model.Arith Model.Conv Model.Auto Spec.Spec Proofs.Common.
From Coq Require Import ZifyBool ZifyN ZifyNat.

(* ------------------------------------------------------------------ capacity *)

Lemma cfbl_d_eq len : cfbl_d len = cfbl_f 64 len.
Proof.
  unfold cfbl_d, cfbyl_d, cfbl_f.
  pose proof (div_mod_eq (len + 7) 8). pose proof (mod_lt' (len + 7) 8 eq_refl).
  pose proof (div_mod_eq ((len + 7) / 8 + 8 - 1) 8). pose proof (mod_lt' ((len + 7) / 8 + 8 - 1) 8 eq_refl).
  pose proof (div_mod_eq (len + 64 - 1) 64). pose proof (mod_lt' (len + 64 - 1) 64 eq_refl).
  lia.
Qed.

(* ------------------------------------------------------------------ is_zero *)

Lemma forallb_zero_raw w d : forallb (fun x => x =? 0) d = (raw w d =? 0).
Proof.
  induction d as [|x r IH]; [reflexivity|].
  cbn [forallb]. rewrite IH, raw_cons. pose proof (pow2_pos w).
  destruct (N.eqb_spec x 0); destruct (N.eqb_spec (raw w r) 0); destruct (N.eqb_spec (x + 2 ^ w * raw w r) 0);
    cbn; try reflexivity; nia.
Qed.

Lemma f_is_zero_spec w v : 0 < w -> canon_wv w v -> f_is_zero v = (raw w (wd v) =? 0).
Proof. intros _ _. apply forallb_zero_raw. Qed.

(* splitting the storage at word k *)
Lemma lenw_firstn k d : k <= lenw d -> lenw (firstn (N.to_nat k) d) = k.
Proof. intros H. unfold lenw in *. rewrite firstn_length. lia. Qed.

Lemma words_ok_firstn w k d : words_ok w d -> words_ok w (firstn k d).
Proof.
  intros H. unfold words_ok in *. apply Forall_forall. intros x Hx.
  rewrite Forall_forall in H. apply H. rewrite <- (firstn_skipn k d). apply in_or_app. left. assumption.
Qed.

Lemma words_ok_skipn w k d : words_ok w d -> words_ok w (skipn k d).
Proof.
  intros H. unfold words_ok in *. apply Forall_forall. intros x Hx.
  rewrite Forall_forall in H. apply H. rewrite <- (firstn_skipn k d). apply in_or_app. right. assumption.
Qed.

Lemma raw_split w k d : 0 < w -> k <= lenw d ->
  raw w d = raw w (firstn (N.to_nat k) d) + 2 ^ (w * k) * raw w (skipn (N.to_nat k) d).
Proof.
  intros Hw Hk. rewrite <- (firstn_skipn (N.to_nat k) d) at 1.
  rewrite raw_app by assumption. rewrite lenw_firstn by assumption. reflexivity.
Qed.

(* the words at and above index k vanish when the value fits in w*k bits *)
Lemma raw_firstn_small w k d : 0 < w -> k <= lenw d -> raw w d < 2 ^ (w * k) ->
  raw w (firstn (N.to_nat k) d) = raw w d.
Proof.
  intros Hw Hk Hlt. rewrite (raw_split w k d Hw Hk) in Hlt |- *.
  pose proof (pow2_pos (w * k)).
  assert (raw w (skipn (N.to_nat k) d) = 0) as -> by nia. lia.
Qed.

Lemma cfbl_f_le w len n : 0 < w -> len <= w * n -> cfbl_f w len <= n.
Proof. intros Hw H. unfold cfbl_f. apply ceil_div_spec; assumption. Qed.

Lemma cfbl_f_ge w len : 0 < w -> len <= w * cfbl_f w len.
Proof. intros Hw. unfold cfbl_f. apply ceil_div_spec; [assumption|lia]. Qed.

Lemma d_is_zero_spec v : canon_wv 64 v -> d_is_zero v = Ok (raw 64 (wd v) =? 0).
Proof.
  intros (Hok & Hl & Hr). unfold d_is_zero. rewrite cfbl_d_eq.
  assert (cfbl_f 64 (wl v) <= lenw (wd v)) as Hn by (apply cfbl_f_le; [reflexivity|assumption]).
  destruct (N.ltb_spec (lenw (wd v)) (cfbl_f 64 (wl v))); [lia|].
  rewrite (forallb_zero_raw 64). rewrite raw_firstn_small; [reflexivity|reflexivity|assumption|].
  eapply N.lt_le_trans; [exact Hr|]. apply pow2_le. apply cfbl_f_ge. reflexivity.
Qed.

(* ------------------------------------------------------------------ N.size of a concatenation *)

Lemma size_ge_of_le y m : 2 ^ m <= y -> m + 1 <= N.size y.
Proof.
  intros H. pose proof (size_lt_pow2 y) as Hs.
  destruct (N.le_gt_cases (m + 1) (N.size y)) as [|Hlt]; [assumption|exfalso].
  assert (2 ^ N.size y <= 2 ^ m) by (apply pow2_le; lia). lia.
Qed.

Lemma size_concat a x n : a < 2 ^ n -> x <> 0 -> N.size (a + 2 ^ n * x) = n + N.size x.
Proof.
  intros Ha Hx. apply N.le_antisymm.
  - apply size_le_of_lt. apply concat_lt; [assumption|apply size_lt_pow2].
  - rewrite (N.size_log2 x) by assumption.
    replace (n + N.succ (N.log2 x)) with (n + N.log2 x + 1) by lia.
    apply size_ge_of_le. rewrite pow2_add.
    assert (2 ^ N.log2 x <= x) by (apply N.log2_spec; lia).
    pose proof (pow2_pos n). nia.
Qed.

Lemma size_0 : N.size 0 = 0.
Proof. reflexivity. Qed.

(* ------------------------------------------------------------------ top word of a canonical vector *)

Lemma cfbl_f_0 w : 0 < w -> cfbl_f w 0 = 0.
Proof. intros Hw. unfold cfbl_f. apply N.div_small. lia. Qed.

Lemma cfbl_f_pos w len : 0 < w -> 0 < len ->
  cfbl_f w len = (len - 1) / w + 1 /\ len = w * ((len - 1) / w) + ((len - 1) mod w + 1) /\
  (len - 1) mod w + 1 <= w.
Proof.
  intros Hw Hl. pose proof (div_mod_eq (len - 1) w) as E. pose proof (mod_lt' (len - 1) w Hw) as Hm.
  split; [|split; lia].
  unfold cfbl_f.
  destruct (divmod_unique (len + w - 1) w ((len - 1) / w + 1) ((len - 1) mod w) Hw) as [-> _];
    [rewrite N.mul_add_distr_l; lia|assumption|reflexivity].
Qed.

Lemma skipn_getw d k : k < lenw d ->
  skipn (N.to_nat k) d = getw d k :: skipn (S (N.to_nat k)) d.
Proof.
  unfold lenw, getw. intros Hn. assert (N.to_nat k < length d)%nat as H by lia. clear Hn.
  revert H. generalize (N.to_nat k) as n. intros n. revert d. induction n as [|n IH]; intros [|x r] H; cbn [length] in H; try lia.
  - reflexivity.
  - cbn [skipn nth]. rewrite IH by lia. reflexivity.
Qed.

Lemma canon_top w v : 0 < w -> canon_wv w v -> 0 < wl v ->
  let k := cfbl_f w (wl v) - 1 in
  let lb := (wl v - 1) mod w + 1 in
  let lo := firstn (N.to_nat k) (wd v) in
  cfbl_f w (wl v) = k + 1 /\ wl v = w * k + lb /\ 1 <= lb /\ lb <= w /\
  lenw lo = k /\ words_ok w lo /\ getw (wd v) k < 2 ^ lb /\
  raw w (wd v) = raw w lo + 2 ^ (w * k) * getw (wd v) k.
Proof.
  intros Hw (Hok & Hl & Hr) Hpos k lb lo.
  destruct (cfbl_f_pos w (wl v) Hw Hpos) as (E1 & E2 & E3).
  assert (k = (wl v - 1) / w) as Hk by (unfold k; lia).
  fold lb in E2, E3. rewrite <- Hk in E2.
  assert (k < lenw (wd v)) as Hklt by nia.
  split; [lia|]. split; [assumption|]. split; [lia|]. split; [assumption|].
  split; [apply lenw_firstn; lia|]. split; [apply words_ok_firstn; assumption|].
  pose proof (raw_split w k (wd v) Hw (N.lt_le_incl _ _ Hklt)) as Es. fold lo in Es.
  rewrite skipn_getw in Es by assumption. rewrite raw_cons in Es.
  set (y := getw (wd v) k) in *. set (R := raw w (skipn (S (N.to_nat k)) (wd v))) in *.
  rewrite E2 in Hr. rewrite pow2_add in Hr. rewrite Es in Hr.
  pose proof (pow2_pos (w * k)). pose proof (pow2_pos w).
  assert (2 ^ lb <= 2 ^ w) by (apply pow2_le; assumption).
  assert (y + 2 ^ w * R < 2 ^ lb) as Hy by nia.
  assert (R = 0) as HR by nia.
  rewrite HR in *. split; [lia|]. rewrite Es. f_equal. f_equal. lia.
Qed.

(* ------------------------------------------------------------------ leading zeros *)

Lemma raw_snoc w lo x : 0 < w -> raw w (lo ++ [x]) = raw w lo + 2 ^ (w * lenw lo) * x.
Proof. intros Hw. rewrite raw_app by assumption. rewrite raw_cons, raw_nil. f_equal. f_equal. lia. Qed.

Lemma size_raw_le w lo : words_ok w lo -> N.size (raw w lo) <= w * lenw lo.
Proof. intros H. apply size_le_of_lt, raw_lt. assumption. Qed.

Lemma scan_lz w lo : 0 < w -> words_ok w lo -> forall v count,
  scan_words (clz w) 0 (rev lo) v count =
  count + (if v =? 0 then w * lenw lo - N.size (raw w lo) else 0).
Proof.
  intros Hw. induction lo as [|x lo IH] using rev_ind; intros Hok v count.
  - cbn [rev scan_words]. rewrite lenw_nil, N.mul_0_r. destruct (v =? 0); lia.
  - apply Forall_app in Hok. destruct Hok as [Hlo Hx]. inversion Hx as [|? ? Hx' _]; subst.
    rewrite rev_unit. cbn [scan_words].
    destruct (N.eqb_spec v 0) as [Hv|Hv]; [|lia].
    rewrite IH by assumption. rewrite raw_snoc by assumption.
    rewrite (lenw_app w Hw), lenw_cons, lenw_nil.
    pose proof (size_raw_le w lo Hlo) as Hs. unfold clz.
    destruct (N.eqb_spec x 0) as [->|Hx0].
    + rewrite size_0, N.mul_0_r, N.add_0_r. lia.
    + rewrite size_concat by (try apply raw_lt; assumption).
      pose proof (size_le_of_lt x w Hx'). lia.
Qed.

Lemma lz_final w lo t lb : words_ok w lo -> t < 2 ^ lb -> lb <= w ->
  (w - N.size t) - (w - lb) + (if t =? 0 then w * lenw lo - N.size (raw w lo) else 0)
  = w * lenw lo + lb - N.size (raw w lo + 2 ^ (w * lenw lo) * t).
Proof.
  intros Hlo Ht Hlb. pose proof (size_raw_le w lo Hlo) as Hs. pose proof (size_le_of_lt t lb Ht) as Hst.
  destruct (N.eqb_spec t 0) as [->|Ht0].
  - rewrite size_0, N.mul_0_r, N.add_0_r. lia.
  - rewrite size_concat by (try apply raw_lt; assumption). lia.
Qed.

Lemma land_maskw_small w t lb : t < 2 ^ lb -> lb <= w -> N.land t (maskw w lb) = t.
Proof.
  intros Ht Hlb. rewrite maskw_eq, N.min_l by assumption. rewrite land_ones_mod. apply N.mod_small. assumption.
Qed.

Lemma leading_zeros_spec w v :
  0 < w -> canon_wv w v ->
  v_leading false (cfbl_f w) w v = s_leading_zeros (mkbv (wl v) (raw w (wd v))).
Proof.
  intros Hw Hc. unfold v_leading, s_leading_zeros. cbn [blen bval].
  destruct (N.eq_dec (wl v) 0) as [Hz|Hnz].
  - rewrite Hz, cfbl_f_0 by assumption. reflexivity.
  - cbv zeta.
    destruct (canon_top w v Hw Hc) as (E1 & E2 & Hlb1 & Hlb & Hlen & Hlo & Htop & Hraw); [lia|].
    set (k := cfbl_f w (wl v) - 1) in *. set (lb := (wl v - 1) mod w + 1) in *.
    set (lo := firstn (N.to_nat k) (wd v)) in *. set (top := getw (wd v) k) in *.
    destruct (N.ltb_spec 0 (cfbl_f w (wl v))); [|lia].
    rewrite land_maskw_small by assumption.
    rewrite scan_lz by assumption. unfold clz.
    rewrite Hraw, E2, Hlen.
    pose proof (lz_final w lo top lb Hlo Htop Hlb) as HF. rewrite Hlen in HF. exact HF.
Qed.

Lemma leading_zeros_le w v : 0 < w -> canon_wv w v -> v_leading false (cfbl_f w) w v <= wl v.
Proof.
  intros Hw Hc. rewrite leading_zeros_spec by assumption. unfold s_leading_zeros. cbn [blen bval]. lia.
Qed.

Lemma lz_plus_sigbits w v :
  0 < w -> canon_wv w v -> v_leading false (cfbl_f w) w v + N.size (raw w (wd v)) = wl v.
Proof.
  intros Hw Hc. rewrite leading_zeros_spec by assumption. unfold s_leading_zeros. cbn [blen bval].
  destruct Hc as (_ & _ & Hr). pose proof (size_le_of_lt _ _ Hr). lia.
Qed.

(* ------------------------------------------------------------------ complements *)

Lemma eqb_wmax_notw w x : x < 2 ^ w -> (x =? wmax w) = (notw w x =? 0).
Proof.
  intros Hx. rewrite notw_eq by assumption. unfold wmax. rewrite ones_eq.
  destruct (N.eqb_spec x (2 ^ w - 1)); destruct (N.eqb_spec (2 ^ w - 1 - x) 0); try reflexivity; lia.
Qed.

Lemma words_ok_map_notw w lo : words_ok w lo -> words_ok w (map (notw w) lo).
Proof.
  intros H. unfold words_ok in *. induction H as [|x r Hx Hr IH]; cbn [map]; constructor.
  - apply notw_lt. assumption.
  - assumption.
Qed.

Lemma lenw_map f lo : lenw (map f lo) = lenw lo.
Proof. unfold lenw. rewrite map_length. reflexivity. Qed.

(* arithmetic form of the complement of a concatenation *)
Lemma notw_concat n m a b : a < 2 ^ n -> b < 2 ^ m ->
  notw (n + m) (a + 2 ^ n * b) = notw n a + 2 ^ n * notw m b.
Proof.
  intros Ha Hb. rewrite !notw_eq by (try apply concat_lt; assumption).
  rewrite pow2_add. pose proof (pow2_pos n). pose proof (pow2_pos m).
  assert (2 ^ n * (2 ^ m - 1 - b) + 2 ^ n * (b + 1) = 2 ^ n * 2 ^ m) as E.
  { rewrite <- N.mul_add_distr_l. f_equal. lia. }
  rewrite N.mul_add_distr_l, N.mul_1_r in E.
  set (P := 2 ^ n) in *. set (X := P * (2 ^ m - 1 - b)) in *. set (Y := P * b) in *. set (Z := P * 2 ^ m) in *.
  clearbody X Y Z P. lia.
Qed.

Lemma raw_map_notw w lo : words_ok w lo -> raw w (map (notw w) lo) = notw (w * lenw lo) (raw w lo).
Proof.
  intros H. induction H as [|x r Hx Hr IH].
  - cbn [map]. rewrite raw_nil, lenw_nil, N.mul_0_r. reflexivity.
  - cbn [map]. rewrite !raw_cons, lenw_cons, IH.
    replace (w * (lenw r + 1)) with (w + w * lenw r) by lia.
    symmetry. apply notw_concat; [assumption|apply raw_lt; assumption].
Qed.

Lemma notw_split w lo top lb : words_ok w lo -> top < 2 ^ lb ->
  notw (w * lenw lo + lb) (raw w lo + 2 ^ (w * lenw lo) * top)
  = raw w (map (notw w) lo) + 2 ^ (w * lenw lo) * notw lb top.
Proof.
  intros Hlo Ht. rewrite raw_map_notw by assumption. apply notw_concat; [apply raw_lt|]; assumption.
Qed.

(* the top word of the `ones` scans: spare bits are filled with ones, complementing gives the
   complement of the significant part *)
Lemma top_fill_lt w top lb : top < 2 ^ lb -> lb <= w -> N.lor top (notw w (maskw w lb)) < 2 ^ w.
Proof.
  intros Ht Hlb. apply lt_pow2_of_bits. intros i Hi.
  rewrite N.lor_spec, notw_testbit, maskw_testbit.
  rewrite (testbit_high top lb i) by (assumption || lia).
  assert (i <? w = false) as -> by (apply N.ltb_ge; assumption).
  rewrite andb_false_r. reflexivity.
Qed.

Lemma notw_top_fill w top lb : top < 2 ^ lb -> lb <= w ->
  notw w (N.lor top (notw w (maskw w lb))) = notw lb top.
Proof.
  intros Ht Hlb. apply N.bits_inj. intro i.
  rewrite !notw_testbit, N.lor_spec, notw_testbit, maskw_testbit.
  destruct (N.ltb_spec i lb) as [Hi|Hi].
  - assert (i <? w = true) as -> by (apply N.ltb_lt; lia). cbn. rewrite orb_false_r. reflexivity.
  - rewrite (testbit_high top lb i) by assumption. cbn. destruct (i <? w); reflexivity.
Qed.

(* ------------------------------------------------------------------ count_run over bit lists *)

Lemma count_run_negb (f : N -> bool) l :
  count_run true (map f l) = count_run false (map (fun i => negb (f i)) l).
Proof.
  induction l as [|x r IH]; [reflexivity|]. cbn [map count_run]. rewrite IH.
  destruct (f x); reflexivity.
Qed.

Lemma bools_notw len x :
  map (N.testbit (notw len x)) (nrange len) = map (fun i => negb (N.testbit x i)) (nrange len).
Proof.
  apply map_ext_in. intros i Hi. apply In_nrange in Hi. rewrite notw_testbit.
  apply N.ltb_lt in Hi. rewrite Hi. apply xorb_true_r.
Qed.

Lemma count_run_ones_notw len x :
  count_run true (map (N.testbit x) (nrange len)) = count_run false (map (N.testbit (notw len x)) (nrange len)).
Proof. rewrite bools_notw. apply count_run_negb. Qed.

Lemma count_run_ones_notw_rev len x :
  count_run true (rev (map (N.testbit x) (nrange len)))
  = count_run false (rev (map (N.testbit (notw len x)) (nrange len))).
Proof. rewrite bools_notw, <- !map_rev. apply count_run_negb. Qed.

Lemma lead_zeros_list len : forall y, y < 2 ^ len ->
  count_run false (rev (map (N.testbit y) (nrange len))) = len - N.size y.
Proof.
  induction len as [|len IH] using N.peano_ind; intros y Hy.
  - rewrite nrange_0. cbn [map rev count_run]. lia.
  - rewrite <- N.add_1_r in *. rewrite nrange_succ, map_app, rev_app_distr. cbn [map rev app count_run].
    destruct (N.testbit y len) eqn:Hb; cbn [Bool.eqb].
    + assert (2 ^ len <= y) as Hge.
      { destruct (N.le_gt_cases (2 ^ len) y) as [|Hlt]; [assumption|].
        rewrite (testbit_high y len len) in Hb by (assumption || lia). discriminate. }
      pose proof (size_ge_of_le y len Hge). lia.
    + assert (y < 2 ^ len) as Hlt.
      { apply lt_pow2_of_bits. intros i Hi. destruct (N.eq_dec i len) as [->|Hne]; [assumption|].
        apply (testbit_high y (len + 1)); [assumption|lia]. }
      rewrite IH by assumption. pose proof (size_le_of_lt y len Hlt). lia.
Qed.

Lemma s_leading_ones_eq len x : x < 2 ^ len ->
  s_leading_ones (mkbv len x) = len - N.size (notw len x).
Proof.
  intros Hx. unfold s_leading_ones, bools_of. cbn [blen bval].
  rewrite count_run_ones_notw_rev. apply lead_zeros_list. apply notw_lt. assumption.
Qed.

(* ------------------------------------------------------------------ leading ones *)

Lemma scan_words_ones w ws : words_ok w ws -> forall v count, v < 2 ^ w ->
  scan_words (clo w) (wmax w) ws v count = scan_words (clz w) 0 (map (notw w) ws) (notw w v) count.
Proof.
  intros H. induction H as [|x r Hx Hr IH]; intros v count Hv; [reflexivity|].
  cbn [map scan_words]. rewrite eqb_wmax_notw by assumption.
  destruct (notw w v =? 0); [|reflexivity]. rewrite IH by assumption. reflexivity.
Qed.

Lemma words_ok_rev w lo : words_ok w lo -> words_ok w (rev lo).
Proof. intros H. unfold words_ok in *. apply Forall_rev. assumption. Qed.

Lemma leading_ones_spec w v :
  0 < w -> canon_wv w v ->
  v_leading true (cfbl_f w) w v = s_leading_ones (mkbv (wl v) (raw w (wd v))).
Proof.
  intros Hw Hc. rewrite s_leading_ones_eq by apply Hc. unfold v_leading.
  destruct (N.eq_dec (wl v) 0) as [Hz|Hnz].
  - rewrite Hz, cfbl_f_0 by assumption. reflexivity.
  - cbv zeta.
    destruct (canon_top w v Hw Hc) as (E1 & E2 & Hlb1 & Hlb & Hlen & Hlo & Htop & Hraw); [lia|].
    set (k := cfbl_f w (wl v) - 1) in *. set (lb := (wl v - 1) mod w + 1) in *.
    set (lo := firstn (N.to_nat k) (wd v)) in *. set (top := getw (wd v) k) in *.
    destruct (N.ltb_spec 0 (cfbl_f w (wl v))); [|lia].
    rewrite scan_words_ones by (try apply words_ok_rev; try apply top_fill_lt; assumption).
    unfold clo. rewrite notw_top_fill by assumption. rewrite map_rev.
    pose proof (words_ok_map_notw w lo Hlo) as Hlo'.
    rewrite scan_lz by assumption. unfold clz. rewrite lenw_map.
    rewrite Hraw, E2, Hlen.
    pose proof (notw_split w lo top lb Hlo Htop) as HS. rewrite Hlen in HS. rewrite HS.
    pose proof (lz_final w (map (notw w) lo) (notw lb top) lb Hlo' (notw_lt _ _ Htop) Hlb) as HF.
    rewrite lenw_map, Hlen in HF. exact HF.
Qed.

(* ------------------------------------------------------------------ trailing zeros of a number *)

Lemma ctz_pos_spec p :
  N.testbit (N.pos p) (ctz_pos p) = true /\ forall j, j < ctz_pos p -> N.testbit (N.pos p) j = false.
Proof.
  induction p as [p IH|p IH|]; cbn [ctz_pos].
  - split; [reflexivity|]. intros j Hj. lia.
  - destruct IH as [H1 H2]. change (N.pos p~0) with (2 * N.pos p). split.
    + rewrite N.testbit_even_succ by lia. assumption.
    + intros j Hj. destruct (N.eq_dec j 0) as [->|Hj0]; [apply N.testbit_even_0|].
      replace j with (N.succ (j - 1)) by lia. rewrite N.testbit_even_succ by lia. apply H2. lia.
  - split; [reflexivity|]. intros j Hj. lia.
Qed.

Lemma ctz_spec w x : x <> 0 ->
  N.testbit x (ctz w x) = true /\ forall j, j < ctz w x -> N.testbit x j = false.
Proof. destruct x as [|p]; [congruence|]. intros _. apply ctz_pos_spec. Qed.

Lemma ctz_unique w x k : x <> 0 -> N.testbit x k = true -> (forall j, j < k -> N.testbit x j = false) ->
  ctz w x = k.
Proof.
  intros Hx Hk Hlow. destruct (ctz_spec w x Hx) as [H1 H2].
  destruct (N.lt_trichotomy (ctz w x) k) as [Hlt|[Heq|Hgt]]; [|assumption|].
  - rewrite (Hlow _ Hlt) in H1. discriminate.
  - rewrite (H2 _ Hgt) in Hk. discriminate.
Qed.

Lemma ctz_lt w x n : x <> 0 -> x < 2 ^ n -> ctz w x < n.
Proof.
  intros Hx Hlt. destruct (ctz_spec w x Hx) as [H1 _].
  destruct (N.lt_ge_cases (ctz w x) n) as [|Hge]; [assumption|].
  rewrite (testbit_high x n _ Hlt Hge) in H1. discriminate.
Qed.

Lemma ctz_0 w : ctz w 0 = w.
Proof. reflexivity. Qed.

(* T len x = number of trailing zero bits of x, seen as a len-bit number *)
Definition tzn (len x : N) : N := N.min len (ctz len x).

Lemma tzn_concat n m x y : x < 2 ^ n ->
  tzn (n + m) (x + 2 ^ n * y) = if x =? 0 then n + tzn m y else ctz n x.
Proof.
  intros Hx. unfold tzn. destruct (N.eqb_spec x 0) as [->|Hx0].
  - rewrite N.add_0_l. destruct (N.eq_dec y 0) as [->|Hy0].
    + rewrite N.mul_0_r, !ctz_0. lia.
    + destruct (ctz_spec m y Hy0) as [H1 H2].
      rewrite (ctz_unique (n + m) (2 ^ n * y) (n + ctz m y)).
      * lia.
      * pose proof (pow2_pos n). nia.
      * rewrite N.mul_comm, mul_pow2_testbit.
        assert (n <=? n + ctz m y = true) as -> by (apply N.leb_le; lia).
        replace (n + ctz m y - n) with (ctz m y) by lia. assumption.
      * intros j Hj. rewrite N.mul_comm, mul_pow2_testbit.
        destruct (N.leb_spec n j); [|reflexivity]. apply H2. lia.
  - destruct (ctz_spec n x Hx0) as [H1 H2]. pose proof (ctz_lt n x n Hx0 Hx) as Hc.
    rewrite (ctz_unique (n + m) (x + 2 ^ n * y) (ctz n x)).
    + lia.
    + lia.
    + rewrite concat_testbit by assumption.
      assert (ctz n x <? n = true) as -> by (apply N.ltb_lt; assumption). assumption.
    + intros j Hj. rewrite concat_testbit by assumption.
      assert (j <? n = true) as -> by (apply N.ltb_lt; lia). apply H2. assumption.
Qed.

Lemma nrange_shift n : nrange (n + 1) = 0 :: map N.succ (nrange n).
Proof.
  unfold nrange. replace (N.to_nat (n + 1)) with (S (N.to_nat n)) by lia.
  cbn [seq map]. f_equal. rewrite <- seq_shift, !map_map. apply map_ext. intros a. lia.
Qed.

Lemma tzn_spec len : forall x, count_run false (map (N.testbit x) (nrange len)) = tzn len x.
Proof.
  unfold tzn. induction len as [|len IH] using N.peano_ind; intros x.
  - rewrite nrange_0. cbn [map count_run]. lia.
  - rewrite <- N.add_1_r. rewrite nrange_shift. cbn [map count_run]. rewrite map_map.
    rewrite (map_ext (fun i => N.testbit x (N.succ i)) (N.testbit (N.div2 x)))
      by (intros i; apply N.testbit_succ_r_div2; lia).
    rewrite IH.
    destruct x as [|[p|p|]].
    + change (N.testbit 0 0) with false. change (N.div2 0) with 0. cbn [Bool.eqb]. rewrite !ctz_0. lia.
    + change (N.testbit (N.pos p~1) 0) with true. cbn [Bool.eqb ctz ctz_pos]. lia.
    + change (N.testbit (N.pos p~0) 0) with false. change (N.div2 (N.pos p~0)) with (N.pos p).
      cbn [Bool.eqb ctz ctz_pos]. lia.
    + change (N.testbit 1 0) with true. cbn [Bool.eqb ctz ctz_pos]. lia.
Qed.

Lemma tzn_ext len a b : (forall i, i < len -> N.testbit a i = N.testbit b i) -> tzn len a = tzn len b.
Proof.
  intros H. rewrite <- !tzn_spec. f_equal. apply map_ext_in. intros i Hi. apply H. apply In_nrange. assumption.
Qed.

Lemma tzn_width w lb a : lb <= w -> N.min (ctz w a) lb = tzn lb a.
Proof. intros H. unfold tzn. destruct a as [|p]; cbn [ctz]; lia. Qed.

Lemma s_trailing_zeros_eq len x : s_trailing_zeros (mkbv len x) = tzn len x.
Proof. unfold s_trailing_zeros, bools_of. cbn [blen bval]. apply tzn_spec. Qed.

Lemma s_trailing_ones_eq len x : s_trailing_ones (mkbv len x) = tzn len (notw len x).
Proof.
  unfold s_trailing_ones, bools_of. cbn [blen bval]. rewrite count_run_ones_notw. apply tzn_spec.
Qed.

(* ------------------------------------------------------------------ the upward scan *)

Fixpoint trail (cnt : N -> N) (stop top : N) (ws : list N) : N :=
  match ws with
  | [] => top
  | x :: r => if x =? stop then cnt x + trail cnt stop top r else cnt x
  end.

Lemma scan_up_nostop cnt stop ws v c i : v <> stop -> scan_up cnt stop ws v c i = (v, c, i).
Proof.
  intros H. destruct ws as [|x r]; [reflexivity|]. cbn [scan_up].
  destruct (N.eqb_spec v stop); [contradiction|reflexivity].
Qed.

Lemma scan_up_res cnt stop (g : N -> N) ws : forall count i,
  (let '(v1, c, i1) := scan_up cnt stop ws stop count i in if v1 =? stop then c + g i1 else c)
  = count + trail cnt stop (g (i + lenw ws)) ws.
Proof.
  induction ws as [|x r IH]; intros count i.
  - cbn [scan_up trail]. rewrite N.eqb_refl, lenw_nil, N.add_0_r. reflexivity.
  - cbn [scan_up trail]. rewrite N.eqb_refl. rewrite lenw_cons.
    destruct (N.eqb_spec x stop) as [->|Hx].
    + rewrite IH. replace (i + 1 + lenw r) with (i + (lenw r + 1)) by lia. lia.
    + rewrite scan_up_nostop by assumption.
      destruct (N.eqb_spec x stop); [contradiction|reflexivity].
Qed.

Lemma trail_tz w lo t lb topc : words_ok w lo -> t < 2 ^ lb -> topc = tzn lb t ->
  trail (ctz w) 0 topc lo = tzn (w * lenw lo + lb) (raw w lo + 2 ^ (w * lenw lo) * t).
Proof.
  intros Hlo Ht ->. induction Hlo as [|x r Hx Hr IH].
  - cbn [trail]. rewrite raw_nil, lenw_nil, N.mul_0_r, N.pow_0_r, N.mul_1_l, !N.add_0_l. reflexivity.
  - cbn [trail]. rewrite raw_cons, lenw_cons, IH.
    replace (w * (lenw r + 1) + lb) with (w + (w * lenw r + lb)) by lia.
    replace (x + 2 ^ w * raw w r + 2 ^ (w * (lenw r + 1)) * t)
      with (x + 2 ^ w * (raw w r + 2 ^ (w * lenw r) * t)).
    + rewrite (tzn_concat w _ x) by assumption. destruct (N.eqb_spec x 0) as [->|]; [rewrite ctz_0|]; reflexivity.
    + replace (w * (lenw r + 1)) with (w + w * lenw r) by lia. rewrite pow2_add.
      rewrite N.mul_add_distr_l, N.mul_assoc, N.add_assoc. reflexivity.
Qed.

Lemma trail_ones w lo topc : words_ok w lo ->
  trail (cto w) (wmax w) topc lo = trail (ctz w) 0 topc (map (notw w) lo).
Proof.
  intros H. induction H as [|x r Hx Hr IH]; [reflexivity|].
  cbn [map trail]. rewrite eqb_wmax_notw by assumption. rewrite IH. reflexivity.
Qed.

Lemma trailing_zeros_spec w v :
  0 < w -> canon_wv w v ->
  v_trailing false (cfbl_f w) w v = s_trailing_zeros (mkbv (wl v) (raw w (wd v))).
Proof.
  intros Hw Hc. rewrite s_trailing_zeros_eq. unfold v_trailing.
  destruct (N.eq_dec (wl v) 0) as [Hz|Hnz].
  - rewrite Hz, cfbl_f_0 by assumption. unfold tzn. cbn [N.ltb]. rewrite N.min_0_l. reflexivity.
  - cbv zeta.
    destruct (canon_top w v Hw Hc) as (E1 & E2 & Hlb1 & Hlb & Hlen & Hlo & Htop & Hraw); [lia|].
    set (k := cfbl_f w (wl v) - 1) in *. set (lb := (wl v - 1) mod w + 1) in *.
    set (lo := firstn (N.to_nat k) (wd v)) in *.
    destruct (N.ltb_spec 0 (cfbl_f w (wl v))); [|lia].
    rewrite (scan_up_res (ctz w) 0 (fun i => N.min (ctz w (getw (wd v) i)) lb) lo 0 0).
    rewrite !N.add_0_l, Hlen. set (top := getw (wd v) k) in *.
    rewrite (trail_tz w lo top lb) by (try assumption; apply tzn_width; assumption).
    rewrite Hlen, Hraw, <- E2. reflexivity.
Qed.

Lemma trailing_ones_spec w v :
  0 < w -> canon_wv w v ->
  v_trailing true (cfbl_f w) w v = s_trailing_ones (mkbv (wl v) (raw w (wd v))).
Proof.
  intros Hw Hc. rewrite s_trailing_ones_eq. unfold v_trailing.
  destruct (N.eq_dec (wl v) 0) as [Hz|Hnz].
  - rewrite Hz, cfbl_f_0 by assumption. unfold tzn. cbn [N.ltb]. rewrite N.min_0_l. reflexivity.
  - cbv zeta.
    destruct (canon_top w v Hw Hc) as (E1 & E2 & Hlb1 & Hlb & Hlen & Hlo & Htop & Hraw); [lia|].
    set (k := cfbl_f w (wl v) - 1) in *. set (lb := (wl v - 1) mod w + 1) in *.
    set (lo := firstn (N.to_nat k) (wd v)) in *.
    destruct (N.ltb_spec 0 (cfbl_f w (wl v))); [|lia].
    rewrite (scan_up_res (cto w) (wmax w) (fun i => N.min (cto w (getw (wd v) i)) lb) lo 0 0).
    rewrite !N.add_0_l, Hlen. set (top := getw (wd v) k) in *.
    rewrite trail_ones by assumption.
    pose proof (words_ok_map_notw w lo Hlo) as Hlo'.
    assert (N.min (cto w top) lb = tzn lb (notw lb top)) as Hg.
    { unfold cto. rewrite tzn_width by assumption. apply tzn_ext. intros i Hi. rewrite !notw_testbit.
      f_equal. destruct (N.ltb_spec i lb); destruct (N.ltb_spec i w); try reflexivity; lia. }
    rewrite (trail_tz w (map (notw w) lo) (notw lb top) lb _ Hlo' (notw_lt _ _ Htop) Hg).
    rewrite lenw_map, Hlen, Hraw, E2.
    pose proof (notw_split w lo top lb Hlo Htop) as HS. rewrite Hlen in HS. rewrite HS. reflexivity.
Qed.
