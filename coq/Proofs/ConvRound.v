(* Proofs/ConvRound.v: C11 / C12 round trips as single statements, composed from the conversion theorems:
   an integer turned into a vector and back is the same integer; a vector converted to another type that can hold
   its length and back is the same type, length and bits. *)
From BVA Require Import Base.Prelude Base.Result Base.Words Base.Limbs.
From BVA Require Import Model.Core Model.Ops Model.Arith Model.Conv Model.Auto Model.Run Spec.Spec Spec.Prop.
From BVA Require Import Proofs.Common Proofs.Rechunk Proofs.Lift.
From Coq Require Import ZifyBool ZifyN ZifyNat.
From BVA Require Import Proofs.ConvP.
From BVA Require Proofs.XEdit Proofs.RoundTrip.

Lemma size_le_of_lt x t : x < 2 ^ t -> N.size x <= t.
Proof.
  intros H. destruct (N.eq_dec x 0) as [->|Hx]; [apply N.le_0_l|].
  rewrite N.size_log2 by assumption. apply N.le_succ_l. apply N.log2_lt_pow2; lia.
Qed.

Lemma abs_val_eq r len x : Good r -> abs r = mkbv len x -> xlen r = len /\ val r = x.
Proof. intros Hg H. rewrite (XEdit.abs_Good r Hg) in H. injection H as H1 H2. split; assumption. Qed.

Theorem uint_roundtrip P k t x :
  kind_ok k -> std_width t -> x < 2 ^ t ->
  kind_fixed k = false \/ N.size x <= kind_cap k ->
  exists r, k_from_uint k t x = Ok r /\ Good r /\ kind_matches k r = true /\ x_to_uint P r t = Ok x.
Proof.
  intros Hk Ht Hx Hfit.
  destruct (k_from_uint_spec k t x Hk Ht Hx) as [_ Hok].
  destruct (Hok Hfit) as (r & Er & Gr & Kr & Ar).
  exists r. repeat (split; [assumption|]).
  destruct (abs_val_eq r _ x Gr Ar) as [_ Hv].
  rewrite (x_to_uint_spec P r t Gr Ht), Hv.
  pose proof (size_le_of_lt x t Hx) as Hs. apply N.leb_le in Hs. rewrite Hs. reflexivity.
Qed.

Theorem convert_roundtrip k x :
  kind_ok k -> Good x -> fits k (xlen x) = true ->
  exists y, convert k x = Ok y /\ Good y /\ kind_matches k y = true /\ abs y = abs x /\
  exists z, convert (kind_of x) y = Ok z /\ Good z /\ kind_matches (kind_of x) z = true /\ abs z = abs x.
Proof.
  intros Hk Hg Hf.
  destruct (convert_spec k x Hk Hg) as [_ Hok]. destruct (Hok Hf) as (y & Ey & Gy & Ky & Ay).
  exists y. repeat (split; [assumption|]).
  assert (xlen y = xlen x) as Hl by (rewrite <- (XEdit.blen_abs y), Ay; apply XEdit.blen_abs).
  destruct (convert_spec (kind_of x) y (RoundTrip.Good_kind_ok x Hg) Gy) as [_ Hok2].
  rewrite Hl in Hok2. destruct (Hok2 (RoundTrip.Good_fits x Hg)) as (z & Ez & Gz & Kz & Az).
  exists z. repeat (split; [assumption|]). rewrite Az. exact Ay.
Qed.

Example conv_roundtrip_concrete :
  k_from_uint (KF 8 3) 32 0x1234 = Ok (XF 8 (mkwv [0x34; 0x12; 0] 24)) /\
  x_to_uint Debug (XF 8 (mkwv [0x34; 0x12; 0] 24)) 32 = Ok 0x1234 /\
  convert KD (XF 8 (mkwv [0x34; 0x12; 0] 24)) = Ok (XD (mkwv [0x1234] 24)) /\
  convert (KF 8 3) (XD (mkwv [0x1234] 24)) = Ok (XF 8 (mkwv [0x34; 0x12; 0] 24)).
Proof. vm_compute. repeat split; reflexivity. Qed.
