(* Proofs/Div.v *)
From BVA Require Import Base.Prelude Base.Result Base.Words Base.Limbs.
From BVA Require Import Model.Core Model.Ops Model.Arith Model.Conv Model.Auto Model.Run Spec.Spec Spec.Prop.
From BVA Require Import Proofs.Common Proofs.Rechunk Proofs.Lift.
From Coq Require Import ZifyBool ZifyN ZifyNat.
From BVA Require Import Proofs.Edit Proofs.Pairings Proofs.ConvP Proofs.XEdit Proofs.XObs Proofs.Append.

(* Division with remainder (property C02), insert, and decimal formatting (property C14). *)

(* ------------------------------------------------------------------ arithmetic *)

Lemma div_rem_identity a b : b <> 0 -> (a / b) * b + a mod b = a /\ a mod b < b.
Proof.
  intros H. split.
  - rewrite N.mul_comm. symmetry. apply N.div_mod. assumption.
  - apply N.mod_lt. assumption.
Qed.

Lemma size_low x : x <> 0 -> 2 ^ (N.size x - 1) <= x.
Proof.
  intros H. rewrite N.size_log2 by assumption. rewrite N.sub_1_r, N.pred_succ.
  apply N.log2_spec. lia.
Qed.

Lemma size_pos x : x <> 0 -> 1 <= N.size x.
Proof. intros H. rewrite N.size_log2 by assumption. lia. Qed.

(* the early return: fewer significant bits than the divisor *)
Lemma small_div A B : B <> 0 -> N.size A < N.size B -> A / B = 0 /\ A mod B = A.
Proof.
  intros HB H. assert (A < B) as Hlt.
  { apply N.lt_le_trans with (2 ^ N.size A); [apply size_lt_pow2|].
    apply N.le_trans with (2 ^ (N.size B - 1)); [apply pow2_le; lia|apply size_low; assumption]. }
  split; [apply N.div_small|apply N.mod_small]; assumption.
Qed.

Lemma pow2_succ j : 2 ^ (j + 1) = 2 * 2 ^ j.
Proof. rewrite N.add_1_r. apply N.pow_succ_r'. Qed.

Lemma mod_pow2_succ_0 Q j : Q mod 2 ^ (j + 1) = 0 -> exists c, Q = 2 ^ (j + 1) * c.
Proof.
  intros H. exists (Q / 2 ^ (j + 1)). pose proof (div_mod_eq Q (2 ^ (j + 1))) as E. rewrite H in E. lia.
Qed.

Lemma lor_bit Q j : Q mod 2 ^ (j + 1) = 0 -> N.lor Q (2 ^ j) = Q + 2 ^ j.
Proof.
  intros H. destruct (mod_pow2_succ_0 Q j H) as [c ->].
  rewrite N.lor_comm, lor_disjoint_add; [lia|]. apply pow2_lt. lia.
Qed.

Lemma step_keep Q j : Q mod 2 ^ (j + 1) = 0 -> Q mod 2 ^ j = 0.
Proof.
  intros H. destruct (mod_pow2_succ_0 Q j H) as [c ->]. rewrite pow2_succ.
  replace (2 * 2 ^ j * c) with ((2 * c) * 2 ^ j) by lia. apply N.mod_mul, pow2_ne0.
Qed.

Lemma step_sub A B j Q R :
  R < B * 2 ^ (j + 1) -> B * 2 ^ j <= R -> Q mod 2 ^ (j + 1) = 0 -> A = Q * B + R ->
  R - B * 2 ^ j < B * 2 ^ j /\ (Q + 2 ^ j) mod 2 ^ j = 0 /\ A = (Q + 2 ^ j) * B + (R - B * 2 ^ j).
Proof.
  intros HR HD HQ HA. destruct (mod_pow2_succ_0 Q j HQ) as [c ->]. rewrite pow2_succ in *.
  set (p := 2 ^ j) in *. split; [lia|]. split; [|lia].
  replace (2 * p * c + p) with ((2 * c + 1) * p) by lia. apply N.mod_mul. unfold p. apply pow2_ne0.
Qed.

Lemma half_shift B j : N.shiftr (B * 2 ^ (j + 1)) 1 = B * 2 ^ j.
Proof.
  rewrite N.shiftr_div_pow2, pow2_succ. change (2 ^ 1) with 2.
  replace (B * (2 * 2 ^ j)) with ((B * 2 ^ j) * 2) by lia. apply N.div_mul. lia.
Qed.

(* ------------------------------------------------------------------ value-level views of the operations used *)

Lemma abs_inv r n x : Good r -> abs r = mkbv n x -> xlen r = n /\ val r = x.
Proof. intros Hr H. rewrite (abs_Good r Hr) in H. injection H as H1 H2. split; assumption. Qed.

Lemma cmp_val a b : Good a -> Good b -> x_cmp a b = N.compare (val a) (val b).
Proof.
  intros Ha Hb. rewrite (x_cmp_spec a b Ha Hb), (abs_Good a Ha), (abs_Good b Hb). reflexivity.
Qed.

Lemma sub_val a b : Good a -> Good b -> val b <= val a ->
  exists r, x_addsub OpSub a b = Ok r /\ Good r /\ kind_of r = kind_of a /\ xlen r = xlen a /\
            val r = val a - val b.
Proof.
  intros Ha Hb Hle. destruct (x_addsub_spec OpSub a b Ha Hb) as (r & E & Hr & Hk & _ & Habs).
  exists r. split; [exact E|]. split; [exact Hr|]. split; [exact Hk|].
  apply abs_inv; [exact Hr|]. rewrite Habs, (abs_Good a Ha), (abs_Good b Hb).
  cbn [s_addsub]. unfold s_sub. cbn [blen bval]. f_equal.
  pose proof (Good_val_lt a Ha) as Hlt.
  rewrite pow2_eq, (trunc_small (xlen a) (val b)) by lia. rewrite trunc_mod.
  replace (val a + 2 ^ xlen a - val b) with ((val a - val b) + 1 * 2 ^ xlen a) by lia.
  rewrite N.mod_add by apply pow2_ne0. apply N.mod_small. lia.
Qed.

Lemma set1_val P q i : Good q -> i < xlen q -> val q mod 2 ^ (i + 1) = 0 ->
  exists r, x_set P q i 1 = Ok r /\ Good r /\ kind_of r = kind_of q /\ xlen r = xlen q /\
            val r = val q + 2 ^ i.
Proof.
  intros Hq Hi Hm. destruct (x_set_spec P q i 1 Hq Hi ltac:(lia)) as (r & E & Hr & Hk & Habs).
  exists r. split; [exact E|]. split; [exact Hr|]. split; [exact Hk|].
  apply abs_inv; [exact Hr|]. rewrite Habs, (abs_Good q Hq). unfold s_set. cbn [blen bval].
  change (1 =? 0) with false. cbv iota. rewrite pow2_eq, lor_bit by assumption. reflexivity.
Qed.

Lemma shr1_val d : Good d -> xlen d < 2 ^ 62 ->
  exists r, x_shr_assign d 1 = Ok r /\ Good r /\ kind_of r = kind_of d /\ xlen r = xlen d /\
            (1 < xlen d -> val r = N.shiftr (val d) 1).
Proof.
  intros Hd Hl. destruct (x_shr_assign_spec d 1 Hd Hl) as (r & E & Hr & Hk & Habs).
  exists r. split; [exact E|]. split; [exact Hr|]. split; [exact Hk|].
  rewrite (abs_Good d Hd) in Habs. unfold s_shr in Habs. cbn [blen bval] in Habs.
  apply (abs_inv r _ _ Hr) in Habs. destruct Habs as [H1 H2]. split; [exact H1|].
  intros H. rewrite H2. assert (1 <? xlen d = true) as -> by (apply N.ltb_lt; assumption). reflexivity.
Qed.

(* ------------------------------------------------------------------ the loop *)

Lemma div_loop_spec P A B n K : 0 < B -> n < 2 ^ 62 ->
  forall k rem dv q,
    Good rem -> Good dv -> Good q -> xlen rem = n -> xlen dv = n -> xlen q = n ->
    kind_of rem = K -> kind_of q = K -> N.of_nat k < n ->
    val dv = B * 2 ^ N.of_nat k -> val rem < B * 2 ^ (N.of_nat k + 1) ->
    val q mod 2 ^ (N.of_nat k + 1) = 0 -> A = val q * B + val rem ->
    exists q' r', div_loop P k rem dv q = Ok (q', r') /\ Good q' /\ Good r' /\
                  kind_of q' = K /\ kind_of r' = K /\ xlen q' = n /\ xlen r' = n /\
                  val q' = A / B /\ val r' = A mod B.
Proof.
  intros HB Hn. induction k as [|k IH]; intros rem dv q Hrem Hdv Hq Lr Ld Lq Kr Kq Hk Vd Vr Vq HA.
  - (* last iteration *)
    cbn [div_loop]. rewrite (cmp_val rem dv Hrem Hdv).
    change (N.of_nat 0) with 0 in *. change (0 + 1) with 1 in *. rewrite N.pow_0_r, N.mul_1_r in Vd.
    assert (exists q' r', (match val rem ?= val dv with
                           | Lt => Ok (rem, q)
                           | _ => let! rem' := x_addsub OpSub rem dv in
                                  let! q' := x_set P q 0 1 in Ok (rem', q')
                           end) = Ok (r', q') /\ Good q' /\ Good r' /\ kind_of q' = K /\ kind_of r' = K /\
                          xlen q' = n /\ xlen r' = n /\ val r' < B /\ A = val q' * B + val r')
      as (q' & r' & E & Hq' & Hr' & Kq' & Kr' & Lq' & Lr' & Vr' & HA').
    { destruct (N.compare_spec (val rem) (val dv)) as [He|Hlt|Hgt].
      - destruct (sub_val rem dv Hrem Hdv ltac:(lia)) as (r' & -> & Hr' & Kr' & Lr' & Vr').
        destruct (set1_val P q 0 Hq ltac:(lia) Vq) as (q' & -> & Hq' & Kq' & Lq' & Vq').
        exists q', r'. cbn [bind]. split; [reflexivity|]. repeat (split; [congruence|]).
        rewrite Vr', Vq'. split; lia.
      - exists q, rem. split; [reflexivity|]. repeat (split; [assumption|]). split; lia.
      - destruct (sub_val rem dv Hrem Hdv ltac:(lia)) as (r' & -> & Hr' & Kr' & Lr' & Vr').
        destruct (set1_val P q 0 Hq ltac:(lia) Vq) as (q' & -> & Hq' & Kq' & Lq' & Vq').
        exists q', r'. cbn [bind]. split; [reflexivity|]. repeat (split; [congruence|]).
        rewrite Vr', Vq'. change (2 ^ 1) with 2 in Vr. change (2 ^ 0) with 1. split; lia. }
    rewrite E. cbn [bind]. clear E.
    assert (xlen dv < 2 ^ 62) as Hdl by (rewrite Ld; exact Hn).
    destruct (shr1_val dv Hdv Hdl) as (dv' & -> & _). cbn [bind].
    exists q', r'. split; [reflexivity|]. repeat (split; [assumption|]).
    split; [apply (N.div_unique A B (val q') (val r'))|apply (N.mod_unique A B (val q') (val r'))];
      try assumption; lia.
  - (* iteration k + 1 *)
    cbn [div_loop]. rewrite (cmp_val rem dv Hrem Hdv).
    rewrite Nat2N.inj_succ, <- N.add_1_r in *. set (j := N.of_nat k) in *.
    assert (exists q' r', (match val rem ?= val dv with
                           | Lt => Ok (rem, q)
                           | _ => let! rem' := x_addsub OpSub rem dv in
                                  let! q' := x_set P q (j + 1) 1 in Ok (rem', q')
                           end) = Ok (r', q') /\ Good q' /\ Good r' /\ kind_of q' = K /\ kind_of r' = K /\
                          xlen q' = n /\ xlen r' = n /\ val r' < B * 2 ^ (j + 1) /\
                          val q' mod 2 ^ (j + 1) = 0 /\ A = val q' * B + val r')
      as (q' & r' & E & Hq' & Hr' & Kq' & Kr' & Lq' & Lr' & Vr' & Vq' & HA').
    { destruct (N.compare_spec (val rem) (val dv)) as [He|Hlt|Hgt].
      - destruct (sub_val rem dv Hrem Hdv ltac:(lia)) as (r' & -> & Hr' & Kr' & Lr' & Vr').
        destruct (set1_val P q (j + 1) Hq ltac:(lia) Vq) as (q' & -> & Hq' & Kq' & Lq' & Vq').
        exists q', r'. cbn [bind]. split; [reflexivity|]. repeat (split; [congruence|]).
        rewrite Vr', Vq', Vd. apply (step_sub A B (j + 1)); try assumption. lia.
      - exists q, rem. split; [reflexivity|]. repeat (split; [assumption|]).
        split; [lia|]. split; [apply step_keep; assumption|assumption].
      - destruct (sub_val rem dv Hrem Hdv ltac:(lia)) as (r' & -> & Hr' & Kr' & Lr' & Vr').
        destruct (set1_val P q (j + 1) Hq ltac:(lia) Vq) as (q' & -> & Hq' & Kq' & Lq' & Vq').
        exists q', r'. cbn [bind]. split; [reflexivity|]. repeat (split; [congruence|]).
        rewrite Vr', Vq', Vd. apply (step_sub A B (j + 1)); try assumption. lia. }
    rewrite E. cbn [bind]. clear E.
    assert (xlen dv < 2 ^ 62) as Hdl by (rewrite Ld; exact Hn).
    destruct (shr1_val dv Hdv Hdl) as (dv' & -> & Hdv' & _ & Ld' & Vd'). cbn [bind].
    assert (1 < xlen dv) as H1 by (clear - Hk Ld; lia).
    specialize (Vd' H1).
    apply IH; try assumption.
    + congruence.
    + clear - Hk. lia.
    + rewrite Vd', Vd. apply half_shift.
Qed.

(* ------------------------------------------------------------------ div_rem *)

(* zeros of the dividend's own type and length always exist (also for an array of zero words) *)
Lemma k_zeros_self a : Good a ->
  exists q, k_zeros (kind_of a) (xlen a) = Ok q /\ Good q /\ kind_of q = kind_of a /\ xlen q = xlen a /\ val q = 0.
Proof.
  intros Ha. destruct a as [w v|v|fx v].
  - cbn [kind_of k_zeros]. pose proof (Good_wv _ Ha) as (_ & Hl & _). cbn [xw xv] in Hl.
    destruct (f_zeros_spec w (lenw (wd v)) (xlen (XF w v)) Hl) as (z & -> & Hc & Hlz & Hn & Hr). cbn [bind].
    exists (XF w z). split; [reflexivity|]. split; [apply ConvP.Good_XF; [apply Ha|assumption]|].
    split; [cbn [kind_of]; rewrite Hn; reflexivity|]. split; assumption.
  - destruct (k_zeros_spec KD (xlen (XD v)) I) as [_ H]. destruct (H eq_refl) as (q & E & Hq & Km & Habs).
    exists q. split; [exact E|]. split; [exact Hq|]. split; [apply kind_of_matches; exact Km|].
    apply abs_inv; assumption.
  - destruct (k_zeros_spec KA (xlen (XA fx v)) I) as [_ H]. destruct (H eq_refl) as (q & E & Hq & Km & Habs).
    exists q. split; [exact E|]. split; [exact Hq|]. split; [apply kind_of_matches; exact Km|].
    apply abs_inv; assumption.
Qed.

(* the divisor converted to the dividend's type *)
Lemma divisor_conv P a b : Good a -> Good b -> N.size (val b) <= xlen a ->
  exists dv,
    match a with
    | XF w v =>
        let! low := x_copy_range P b 0 (N.size (val b)) in
        match to_fixed w (lenw (wd v)) low with Ok r => Ok (XF w r) | _ => Panic end
    | XD _ => let! r := to_dyn b in Ok (XD r)
    | XA _ _ => to_auto b
    end = Ok dv /\ Good dv /\ kind_of dv = kind_of a /\ val dv = val b.
Proof.
  intros Ha Hb Hs. destruct a as [w v|v|fx v].
  - destruct (x_copy_range_spec P b 0 (N.size (val b)) Hb (N.le_0_l _) (size_val_le b Hb))
      as (low & -> & Hlow & _ & Alow). cbn [bind].
    rewrite (abs_Good b Hb) in Alow. unfold s_slice in Alow. cbn [bval] in Alow.
    rewrite N.sub_0_r, N.shiftr_0_r, trunc_small in Alow by apply size_lt_pow2.
    apply (abs_inv low _ _ Hlow) in Alow. destruct Alow as [Ll Vl].
    pose proof (Good_wv _ Ha) as (_ & Hcap & _). cbn [xw xv] in Hcap. unfold xlen in Hs. cbn [xv] in Hs.
    destruct (to_fixed_spec w (lenw (wd v)) low (proj2 Ha) Hlow) as [_ H].
    destruct H as (r & -> & Hc & _ & Hn & Hr); [lia|].
    exists (XF w r). split; [reflexivity|]. split; [apply ConvP.Good_XF; [apply Ha|assumption]|].
    split; [cbn [kind_of]; rewrite Hn; reflexivity|]. unfold val at 1, xdata. cbn [xw xv]. congruence.
  - destruct (to_dyn_spec b Hb) as (r & -> & Hc & _ & Hr). cbn [bind].
    exists (XD r). split; [reflexivity|]. split; [apply ConvP.Good_XD; assumption|]. split; [reflexivity|exact Hr].
  - destruct (to_auto_spec b Hb) as (r & -> & Hr & Km & _ & Vr).
    exists r. split; [reflexivity|]. split; [assumption|]. split; [apply kind_of_matches; exact Km|exact Vr].
Qed.

Lemma is_zero_val b : Good b -> x_is_zero b = Ok (val b =? 0).
Proof. intros Hb. rewrite (x_is_zero_spec b Hb), (abs_Good b Hb). reflexivity. Qed.

Theorem x_div_rem_zero P a b : Good a -> Good b -> val b = 0 -> x_div_rem P a b = Panic.
Proof.
  intros Ha Hb H0. unfold x_div_rem. rewrite (is_zero_val b Hb). cbn [bind].
  rewrite H0. reflexivity.
Qed.

Theorem x_div_rem_spec P a b :
  Good a -> Good b -> xlen a < 2 ^ 62 -> val b <> 0 ->
  exists q r, x_div_rem P a b = Ok (q, r) /\ Good q /\ Good r /\
              kind_of q = kind_of a /\ kind_of r = kind_of a /\
              abs q = s_div (abs a) (abs b) /\ abs r = s_rem (abs a) (abs b).
Proof.
  intros Ha Hb Hlen Hnz.
  assert (forall q r, Good q -> Good r -> xlen q = xlen a -> xlen r = xlen a ->
                      val q = val a / val b -> val r = val a mod val b ->
                      abs q = s_div (abs a) (abs b) /\ abs r = s_rem (abs a) (abs b)) as Hfin.
  { intros q r Hq Hr Lq Lr Vq Vr. rewrite (abs_Good a Ha), (abs_Good b Hb). unfold s_div, s_rem. cbn [blen bval].
    split; apply abs_of; try assumption; [apply Hq|apply Hr]. }
  unfold x_div_rem. rewrite (is_zero_val b Hb). cbn [bind].
  assert (val b =? 0 = false) as -> by (apply N.eqb_neq; assumption). cbn [negb assert_ bind].
  destruct (k_zeros_self a Ha) as (q0 & -> & Hq0 & Kq0 & Lq0 & Vq0). cbn [bind].
  rewrite (ConvP.x_sigbits_spec P b Hb), (ConvP.x_sigbits_spec P a Ha). cbn [bind].
  pose proof (size_val_le a Ha) as Hsa. pose proof (size_pos (val b) Hnz) as Hsb.
  destruct (N.ltb_spec (N.size (val a)) (N.size (val b))) as [Hlt|Hge].
  - destruct (small_div (val a) (val b) Hnz Hlt) as [Ed Em].
    exists q0, a. split; [reflexivity|]. split; [assumption|]. split; [assumption|].
    split; [assumption|]. split; [reflexivity|]. apply Hfin; try assumption; congruence.
  - set (sd := N.size (val b)) in *. set (ss := N.size (val a)) in *.
    destruct (divisor_conv P a b Ha Hb ltac:(fold sd; lia)) as (dv & E & Hdv & Kdv & Vdv).
    fold sd in E. rewrite E. clear E. cbn [bind].
    assert (val b < 2 ^ sd) as Hbs by apply size_lt_pow2.
    (* resize to the dividend's length *)
    destruct (x_resize_spec dv (xlen a) 0 Hdv ltac:(lia)) as [_ Hr].
    destruct Hr as (dv1 & -> & Hdv1 & Kdv1 & Adv1); [left; rewrite Kdv; apply fits_self; assumption|]. cbn [bind].
    rewrite (abs_Good dv Hdv), <- resize_val in Adv1. apply (abs_inv dv1 _ _ Hdv1) in Adv1. destruct Adv1 as [Ldv1 Vdv1].
    assert (val dv1 = val b) as Vdv1'.
    { rewrite Vdv1, Vdv. destruct (xlen a <? xlen dv).
      - apply N.mod_small. apply N.lt_le_trans with (2 ^ sd); [assumption|apply pow2_le; lia].
      - change (0 =? 0) with true. cbv iota. apply N.add_0_r. }
    clear Vdv1.
    (* shift left: nothing is lost *)
    destruct (x_shl_assign_spec dv1 (ss - sd) Hdv1 ltac:(lia)) as (dv2 & -> & Hdv2 & Kdv2 & Adv2). cbn [bind].
    rewrite (abs_Good dv1 Hdv1) in Adv2. unfold s_shl in Adv2. cbn [blen bval] in Adv2.
    apply (abs_inv dv2 _ _ Hdv2) in Adv2. destruct Adv2 as [Ldv2 Vdv2].
    assert (val b * 2 ^ (ss - sd) < 2 ^ xlen a) as Hfit.
    { apply N.lt_le_trans with (2 ^ sd * 2 ^ (ss - sd)).
      - apply N.mul_lt_mono_pos_r; [apply pow2_pos|assumption].
      - rewrite <- pow2_add. apply pow2_le. lia. }
    assert (val dv2 = val b * 2 ^ (ss - sd)) as Vdv2'.
    { rewrite Vdv2, Ldv1. assert (ss - sd <? xlen a = true) as -> by (apply N.ltb_lt; lia).
      rewrite Vdv1', N.shiftl_mul_pow2. apply trunc_small. assumption. }
    clear Vdv2.
    destruct (div_loop_spec P (val a) (val b) (xlen a) (kind_of a) ltac:(lia) Hlen
                (N.to_nat (ss - sd)) a dv2 q0) as (q & r & -> & Hq & Hr & Kq & Kr & Lq & Lr & Vq & Vr);
      try assumption; try reflexivity; try congruence; rewrite ?N2Nat.id.
    + lia.
    + assumption.
    + apply N.lt_le_trans with (2 ^ ss); [apply size_lt_pow2|].
      apply N.le_trans with (2 ^ (sd - 1) * 2 ^ (ss - sd + 1)).
      * rewrite <- pow2_add. apply pow2_le. lia.
      * apply N.mul_le_mono_r. apply size_low. assumption.
    + rewrite Vq0. apply N.mod_0_l, pow2_ne0.
    + rewrite Vq0. lia.
    + exists q, r. split; [reflexivity|]. split; [assumption|]. split; [assumption|].
      split; [assumption|]. split; [assumption|]. apply Hfin; assumption.
Qed.

(* ------------------------------------------------------------------ the / and % operators *)

Lemma xlen_core x : xlen (core x) = xlen x.
Proof. destruct x as [w v|v|[|] v]; reflexivity. Qed.

Lemma rewrap_good lhs q : Good lhs -> Good q -> kind_of q = kind_of (core lhs) ->
  Good (rewrap lhs q) /\ kind_of (rewrap lhs q) = kind_of lhs /\ abs (rewrap lhs q) = abs q.
Proof.
  intros Hl Hq Hk. destruct lhs as [w v|v|[|] v]; cbn [rewrap core kind_of] in *.
  - split; [assumption|]. split; [assumption|reflexivity].
  - split; [assumption|]. split; [assumption|reflexivity].
  - destruct q as [w' u|u|fx u]; try discriminate Hk. cbn [kind_of] in Hk. injection Hk as Hw Hn. subst w'.
    cbn [xv]. split; [|split; reflexivity].
    apply ConvP.Good_XA_fixed; [exact (Good_wv _ Hq)|]. rewrite Hn. apply Hl.
  - destruct q as [w' u|u|fx u]; try discriminate Hk.
    cbn [xv]. split; [|split; reflexivity].
    apply ConvP.Good_XA_dyn. exact (Good_wv _ Hq).
Qed.

Theorem x_divrem_op_zero P a b : Good a -> Good b -> val b = 0 -> x_divrem_op P a b = Panic.
Proof.
  intros Ha Hb H0. unfold x_divrem_op.
  rewrite x_div_rem_zero; [reflexivity|apply Good_core; assumption|apply Good_core; assumption|].
  rewrite val_core. assumption.
Qed.

Theorem x_divrem_op_spec P a b :
  Good a -> Good b -> xlen a < 2 ^ 62 -> val b <> 0 ->
  exists q r, x_divrem_op P a b = Ok (q, r) /\ Good q /\ Good r /\
              kind_of q = kind_of a /\ kind_of r = kind_of a /\
              abs q = s_div (abs a) (abs b) /\ abs r = s_rem (abs a) (abs b).
Proof.
  intros Ha Hb Hlen Hnz. unfold x_divrem_op.
  destruct (x_div_rem_spec P (core a) (core b) (Good_core a Ha) (Good_core b Hb))
    as (q & r & -> & Hq & Hr & Kq & Kr & Aq & Ar); [rewrite xlen_core; assumption|rewrite val_core; assumption|].
  cbn [bind]. rewrite !abs_core in *.
  destruct (rewrap_good a q Ha Hq Kq) as (G1 & G2 & G3).
  destruct (rewrap_good a r Ha Hr Kr) as (G4 & G5 & G6).
  exists (rewrap a q), (rewrap a r). split; [reflexivity|]. repeat (split; [assumption|]).
  split; congruence.
Qed.

(* a native unsigned divisor behaves as the vector built from it (C20), and a native zero panics (C02) *)
Theorem x_divrem_native P a t x :
  Good a -> std_width t -> x < 2 ^ t -> xlen a < 2 ^ 62 -> x <> 0 ->
  exists b q r, lift_uint a t x = Ok b /\ x_divrem_op P a b = Ok (q, r) /\ Good q /\ Good r /\
                kind_of q = kind_of a /\ kind_of r = kind_of a /\
                abs q = s_div (abs a) (mkbv t x) /\ abs r = s_rem (abs a) (mkbv t x).
Proof.
  intros Ha Ht Hx Hl Hnz. destruct (lift_uint_spec a t x Ht Hx) as (b & Hb & Gb & Ab).
  assert (val b = x) as Hv.
  { rewrite (abs_Good b Gb) in Ab. injection Ab as _ E. exact E. }
  destruct (x_divrem_op_spec P a b Ha Gb Hl) as (q & r & E & Gq & Gr & Kq & Kr & Aq & Ar); [rewrite Hv; exact Hnz|].
  exists b, q, r. rewrite Ab in Aq, Ar. auto 10.
Qed.

Theorem x_divrem_native_zero P a t :
  Good a -> std_width t ->
  exists b, lift_uint a t 0 = Ok b /\ x_divrem_op P a b = Panic.
Proof.
  intros Ha Ht. destruct (lift_uint_spec a t 0 Ht) as (b & Hb & Gb & Ab); [apply pow2_pos|].
  exists b. split; [exact Hb|]. apply x_divrem_op_zero; try assumption.
  rewrite (abs_Good b Gb) in Ab. injection Ab as _ E. exact E.
Qed.

(* ------------------------------------------------------------------ insert *)

Theorem x_insert_spec P a i x :
  Good a -> Good x -> i <= xlen a ->
  (fits (kind_of a) (xlen a + xlen x) = false -> x_insert P a i x = Panic) /\
  (fits (kind_of a) (xlen a + xlen x) = true ->
   exists r, x_insert P a i x = Ok r /\ Good r /\ kind_of r = kind_of a /\ abs r = s_insert (abs a) i (abs x)).
Proof.
  intros Ha Hx Hi. unfold x_insert.
  destruct (x_split_off_spec P a i Ha Hi) as (lo & hi & -> & Hlo & Hhi & Klo & Khi & Alo & Ahi). cbn [bind].
  assert (xlen lo = i) as Llo by (rewrite <- blen_abs, Alo; cbn [s_slice blen]; lia).
  assert (xlen hi = xlen a - i) as Lhi by (rewrite <- blen_abs, Ahi; reflexivity).
  destruct (x_append_spec lo x Hlo Hx) as [P1 O1]. rewrite Klo, Llo in P1, O1.
  destruct (fits (kind_of a) (i + xlen x)) eqn:F1.
  - destruct (O1 eq_refl) as (m & -> & Hm & Km & Am). cbn [bind].
    assert (xlen m = i + xlen x) as Lm.
    { rewrite <- blen_abs, Am. unfold s_append, s_concat. cbn [blen]. rewrite !blen_abs. lia. }
    destruct (x_append_spec m hi Hm Hhi) as [P2 O2]. rewrite Km, Lm, Lhi in P2, O2.
    replace (i + xlen x + (xlen a - i)) with (xlen a + xlen x) in P2, O2 by lia.
    split; [exact P2|]. intros F2. destruct (O2 F2) as (r & -> & Hr & Kr & Ar).
    exists r. split; [reflexivity|]. split; [assumption|]. split; [assumption|].
    rewrite Ar, Am, Alo, Ahi. reflexivity.
  - rewrite (P1 eq_refl). cbn [bind]. split; [reflexivity|]. intros F2.
    rewrite (fits_mono (kind_of a) (i + xlen x) (xlen a + xlen x) ltac:(lia) F2) in F1. discriminate F1.
Qed.

Theorem x_insert_debug_oob a i x : xlen a < i -> x_insert Debug a i x = Panic.
Proof. intros H. unfold x_insert. rewrite x_split_off_debug_oob by assumption. reflexivity. Qed.

(* ------------------------------------------------------------------ decimal formatting *)

Local Notation dch := (fun d : N => 48 + d).

Lemma size_div10 x : x <> 0 -> N.size (x / 10) < N.size x.
Proof.
  intros H. pose proof (size_pos x H) as Hs. pose proof (size_lt_pow2 x) as Hx.
  assert (N.size (x / 10) <= N.size x - 1) as Hle; [|lia].
  apply size_le_of_lt. replace (N.size x) with ((N.size x - 1) + 1) in Hx by lia. rewrite pow2_succ in Hx.
  generalize dependent (2 ^ (N.size x - 1)). intros p Hp. lia.
Qed.

(* any sufficient fuel gives the same digits *)
Lemma ddf_fuel f1 : forall f2 x acc,
  (N.to_nat (N.size x) < f1)%nat -> (N.to_nat (N.size x) < f2)%nat ->
  digits_dec_fuel f1 x acc = digits_dec_fuel f2 x acc.
Proof.
  induction f1 as [|f1 IH]; intros f2 x acc H1 H2; [lia|]. destruct f2 as [|f2]; [lia|].
  cbn [digits_dec_fuel]. destruct (N.eqb_spec x 0) as [|Hx]; [reflexivity|].
  pose proof (size_div10 x Hx). apply IH; lia.
Qed.

Lemma ddf_nonempty f : forall x acc, acc <> [] -> digits_dec_fuel f x acc <> [].
Proof.
  induction f as [|f IH]; intros x acc H; cbn [digits_dec_fuel]; [assumption|].
  destruct (x =? 0); [assumption|]. apply IH. discriminate.
Qed.

Lemma std_width_32 : std_width 32.
Proof. unfold std_width. cbn [In]. auto. Qed.
Lemma std_width_8 : std_width 8.
Proof. unfold std_width. cbn [In]. auto. Qed.

(* the digit of a remainder below ten, as `u32::try_from(&remainder).unwrap()` *)
Lemma digit_to_uint P r : Good r -> val r < 10 ->
  (let! sig := x_sigbits P r in
   if is_fixed r then f_to_uint (xw r) 32 sig (xv r) else d_to_uint 32 sig (xv r)) = Ok (val r).
Proof.
  intros Hr Hlt. pose proof (x_to_uint_spec P r 32 Hr std_width_32) as HU. unfold x_to_uint in HU.
  rewrite HU. assert (N.size (val r) <=? 32 = true) as ->; [|reflexivity].
  apply N.leb_le. apply N.le_trans with 4; [|lia]. apply size_le_of_lt. change (2 ^ 4) with 16. lia.
Qed.

Lemma dec_loop_spec P base : Good base -> val base = 10 ->
  forall f q acc, Good q -> xlen q < 2 ^ 62 -> (N.to_nat (N.size (val q)) < f)%nat ->
  dec_loop P f q (Ok base) (map dch acc) = Ok (map dch (digits_dec_fuel f (val q) acc)).
Proof.
  intros Hb Vb. induction f as [|f IH]; intros q acc Hq Hl Hf; [lia|].
  cbn [dec_loop digits_dec_fuel]. rewrite (is_zero_val q Hq). cbn [bind].
  destruct (N.eqb_spec (val q) 0) as [E|Hnz]; [reflexivity|].
  destruct (x_div_rem_spec P q base Hq Hb Hl ltac:(lia)) as (q' & r & -> & Hq' & Hr & _ & _ & Aq & Ar). cbn [bind].
  rewrite (abs_Good q Hq), (abs_Good base Hb) in Aq, Ar. unfold s_div, s_rem in Aq, Ar. cbn [blen bval] in Aq, Ar.
  rewrite Vb in Aq, Ar.
  apply (abs_inv q' _ _ Hq') in Aq. destruct Aq as [Lq' Vq'].
  apply (abs_inv r _ _ Hr) in Ar. destruct Ar as [_ Vr].
  assert (val r < 10) as Hr10 by (rewrite Vr; apply N.mod_lt; lia).
  pose proof (digit_to_uint P r Hr Hr10) as HU.
  destruct (x_sigbits P r) as [sig| | |]; cbn [bind] in HU |- *; try discriminate HU.
  rewrite HU. cbn [bind].
  assert (val r <? 10 = true) as -> by (apply N.ltb_lt; assumption). cbn [assert_ bind].
  rewrite Vr. change (48 + val q mod 10 :: map dch acc) with (map dch (val q mod 10 :: acc)).
  rewrite <- Vq'. apply IH; [assumption|lia|].
  rewrite Vq'. pose proof (size_div10 (val q) Hnz). lia.
Qed.

(* a zero value leaves the loop before the base is built: `mkbase` may be anything *)
Lemma dec_loop_zero P f q mkbase acc : Good q -> val q = 0 -> dec_loop P (S f) q mkbase acc = Ok acc.
Proof.
  intros Hq E. cbn [dec_loop]. rewrite (is_zero_val q Hq), E. reflexivity.
Qed.

(* the base `B::try_from(10u8).unwrap()` of a fixed type with at least one storage word *)
Lemma display_base_fixed w n : std_width w -> 0 < n ->
  exists base, match f_from_uint w n 8 10 with Ok b => Ok (XF w b) | _ => Panic end = Ok base /\
               Good base /\ val base = 10.
Proof.
  intros Hw Hn. destruct (f_from_uint_spec w n 8 10 (std_width_pos w Hw) eq_refl) as [_ H].
  destruct H as (r & -> & Hc & _ & _ & Hr).
  - change (N.size 10) with 4. pose proof (std_width_ge8 w Hw).
    apply N.le_trans with (8 * 1); [lia|]. apply N.mul_le_mono; lia.
  - exists (XF w r). split; [reflexivity|]. split; [apply ConvP.Good_XF; assumption|exact Hr].
Qed.

(* ... and of the heap type *)
Lemma display_base_dyn :
  exists b, d_from_uint 8 10 = Ok b /\ Good (XD b) /\ val (XD b) = 10.
Proof.
  destruct (d_from_uint_spec 8 10 std_width_8 eq_refl) as (r & -> & Hc & _ & Hr).
  exists r. split; [reflexivity|]. split; [apply ConvP.Good_XD; assumption|exact Hr].
Qed.

(* a fixed vector without storage words has the value 0 *)
Lemma val_no_word w v : Good (XF w v) -> lenw (wd v) = 0 -> val (XF w v) = 0.
Proof.
  intros [[(_ & Hl & Hr) _] _] Hn. unfold val, xdata. cbn [xw xv] in *.
  rewrite Hn, N.mul_0_r in Hl. assert (wl v = 0) as E by lia. rewrite E in Hr.
  change (2 ^ 0) with 1 in Hr. lia.
Qed.

(* the digit loop of Display, whatever the variant: the fixed type builds ten inside the loop, which a
   zero value (in particular every value of a type without storage words) never reaches *)
Lemma display_loop P a : Good a -> xlen a < 2 ^ 62 ->
  match core a with
  | XF w v =>
      dec_loop P (S (N.to_nat (xlen a))) (core a)
               (match f_from_uint w (lenw (wd v)) 8 10 with Ok b => Ok (XF w b) | _ => Panic end) []
  | _ =>
      let! b := d_from_uint 8 10 in
      dec_loop P (S (N.to_nat (xlen a))) (core a) (Ok (XD b)) []
  end = Ok (map dch (digits_dec_fuel (S (N.to_nat (xlen a))) (val a) [])).
Proof.
  intros Ha Hl. pose proof (Good_core a Ha) as Hc. pose proof (size_val_le a Ha) as Hs.
  assert (forall base, Good base -> val base = 10 ->
            dec_loop P (S (N.to_nat (xlen a))) (core a) (Ok base) [] =
            Ok (map dch (digits_dec_fuel (S (N.to_nat (xlen a))) (val a) []))) as HL.
  { intros base Hb Vb.
    pose proof (dec_loop_spec P base Hb Vb (S (N.to_nat (xlen a))) (core a) [] Hc) as HL.
    rewrite xlen_core, val_core in HL. change (map dch []) with (@nil N) in HL.
    apply HL; [assumption|lia]. }
  assert (forall mk, val a = 0 ->
            dec_loop P (S (N.to_nat (xlen a))) (core a) mk [] =
            Ok (map dch (digits_dec_fuel (S (N.to_nat (xlen a))) (val a) []))) as HZ.
  { intros mk E. rewrite dec_loop_zero by (try assumption; rewrite val_core; assumption).
    cbn [digits_dec_fuel]. rewrite E. reflexivity. }
  assert (forall w v, core a = XF w v ->
            dec_loop P (S (N.to_nat (xlen a))) (core a)
              (match f_from_uint w (lenw (wd v)) 8 10 with Ok b => Ok (XF w b) | _ => Panic end) [] =
            Ok (map dch (digits_dec_fuel (S (N.to_nat (xlen a))) (val a) []))) as HF.
  { intros w v E. rewrite E in Hc.
    destruct (N.eqb_spec (lenw (wd v)) 0) as [Hn|Hn].
    - apply HZ. rewrite <- val_core, E. apply val_no_word; assumption.
    - destruct (display_base_fixed w (lenw (wd v))) as (base & -> & Hb & Vb); [apply Hc|lia|].
      apply HL; assumption. }
  assert ((let! b := d_from_uint 8 10 in dec_loop P (S (N.to_nat (xlen a))) (core a) (Ok (XD b)) []) =
          Ok (map dch (digits_dec_fuel (S (N.to_nat (xlen a))) (val a) []))) as HD.
  { destruct display_base_dyn as (b & -> & Hb & Vb). cbn [bind]. apply HL; assumption. }
  destruct (core a) as [w v|v|fx v] eqn:E; [apply HF; reflexivity|exact HD|exact HD].
Qed.

(* decimal formatting needs no hypothesis on the number of storage words any more: for `Bvf<I, 0>`
   (which `Good` admits, with length 0) the value is 0, the loop body never runs, and "0" is printed *)
Theorem fmt_display_spec P a :
  Good a -> xlen a < 2 ^ 62 ->
  fmt_display P a = Ok (map (fun d => 48 + d) (digits_dec (val a))).
Proof.
  intros Ha Hl. unfold fmt_display. cbv zeta. rewrite (display_loop P a Ha Hl). cbn [bind].
  pose proof (size_val_le a Ha) as Hs.
  f_equal. unfold digits_dec.
  destruct (N.eqb_spec (val a) 0) as [E|Hnz].
  - rewrite E. reflexivity.
  - rewrite (ddf_fuel _ (S (N.to_nat (N.size (val a)))) (val a) []) by lia.
    set (s := digits_dec_fuel _ _ _).
    assert (s <> []) as Hne.
    { unfold s. cbn [digits_dec_fuel]. assert (val a =? 0 = false) as -> by (apply N.eqb_neq; assumption).
      apply ddf_nonempty. discriminate. }
    destruct s as [|d s']; [contradiction|]. reflexivity.
Qed.

Theorem x_fmt_digits_display P a :
  Good a -> xlen a < 2 ^ 62 -> x_fmt_digits P 0 a = Ok (s_fmt 0 (abs a)).
Proof.
  intros Ha Hl. cbn [x_fmt_digits]. rewrite (fmt_display_spec P a Ha Hl). cbn [bind].
  rewrite (abs_Good a Ha). reflexivity.
Qed.

(* the earlier statements, with the (now superfluous) hypothesis that the kind has a storage word *)
Theorem fmt_display_spec_fixed P a :
  Good a -> XEdit.kind_ok (kind_of a) -> xlen a < 2 ^ 62 ->
  fmt_display P a = Ok (map (fun d => 48 + d) (digits_dec (val a))).
Proof. intros Ha _ Hl. apply fmt_display_spec; assumption. Qed.

Theorem x_fmt_digits_display_fixed P a :
  Good a -> XEdit.kind_ok (kind_of a) -> xlen a < 2 ^ 62 -> x_fmt_digits P 0 a = Ok (s_fmt 0 (abs a)).
Proof. intros Ha _ Hl. apply x_fmt_digits_display; assumption. Qed.

Theorem fmt_display_spec_partial P a :
  Good a -> XEdit.kind_ok (kind_of a) -> xlen a < 2 ^ 62 ->
  fmt_display P a = Ok (map (fun d => 48 + d) (digits_dec (val a))).
Proof. apply fmt_display_spec_fixed. Qed.

Theorem x_fmt_digits_display_partial P a :
  Good a -> XEdit.kind_ok (kind_of a) -> xlen a < 2 ^ 62 -> x_fmt_digits P 0 a = Ok (s_fmt 0 (abs a)).
Proof. apply x_fmt_digits_display_fixed. Qed.
