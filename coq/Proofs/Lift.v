(* Notions shared by the value-level (bvx) theorems: the numeric value of a vector, the
   storage widths the crate instantiates, canonical values of the three public types. *)
From BVA Require Import Base.Prelude Base.Result Base.Words Base.Limbs.
From BVA Require Import Model.Core Model.Ops Model.Arith Model.Conv Model.Auto Spec.Spec Proofs.Common Proofs.Rechunk.
From Coq Require Import ZifyBool ZifyN ZifyNat.

(* u8, u16, u32, u64 (and usize), u128 *)
Definition std_width (w : N) : Prop := In w [8; 16; 32; 64; 128].

Definition val (x : bvx) : N := raw (xw x) (xdata x).

(* a canonical value whose word type is one of the crate's *)
Definition Good (x : bvx) : Prop := Canon x /\ std_width (xw x).

Lemma std_width_pos w : std_width w -> 0 < w.
Proof. unfold std_width. cbn [In]. intros [<-|[<-|[<-|[<-|[<-|[]]]]]]; lia. Qed.

Lemma std_width_mod8 w : std_width w -> w mod 8 = 0.
Proof. unfold std_width. cbn [In]. intros [<-|[<-|[<-|[<-|[<-|[]]]]]]; reflexivity. Qed.

Lemma std_width_64 : std_width 64.
Proof. unfold std_width. cbn [In]. auto. Qed.

Lemma std_widths_ok w j : std_width w -> std_width j -> widths_ok w j.
Proof. apply widths_ok_cases. Qed.

Lemma Canon_wv x : Canon x -> canon_wv (xw x) (xv x).
Proof. intros [H _]. exact H. Qed.

Lemma abs_Canon x : Canon x -> abs x = mkbv (xlen x) (val x).
Proof. intros H. unfold abs, val, xlen, xdata. apply abs_canon. apply Canon_wv. assumption. Qed.

Lemma val_lt x : Canon x -> val x < 2 ^ xlen x.
Proof. intros [(_ & _ & H) _]. exact H. Qed.

Lemma xw_core x : xw (core x) = xw x.
Proof. destruct x as [w v|v|[|] v]; reflexivity. Qed.
Lemma xv_core x : xv (core x) = xv x.
Proof. destruct x as [w v|v|[|] v]; reflexivity. Qed.
Lemma val_core x : val (core x) = val x.
Proof. destruct x as [w v|v|[|] v]; reflexivity. Qed.
Lemma abs_core x : abs (core x) = abs x.
Proof. destruct x as [w v|v|[|] v]; reflexivity. Qed.

Lemma Canon_core x : Canon x -> Canon (core x).
Proof.
  destruct x as [w v|v|[|] v]; cbn [core]; intros [Hc Hx]; try (split; assumption).
  split; [exact Hc|]. split; reflexivity.
Qed.

Lemma Good_core x : Good x -> Good (core x).
Proof. intros [Hc Hw]. split; [apply Canon_core; assumption|rewrite xw_core; assumption]. Qed.

Lemma Good_of_Canon_D v : Canon (XD v) -> Good (XD v).
Proof. intros H. split; [assumption|apply std_width_64]. Qed.
Lemma Good_of_Canon_A fx v : Canon (XA fx v) -> Good (XA fx v).
Proof. intros H. split; [assumption|apply std_width_64]. Qed.

(* core is one of the two storage flavours *)
Lemma core_cases x : (exists w v, core x = XF w v) \/ (exists v, core x = XD v).
Proof. destruct x as [w v|v|[|] v]; cbn [core]; eauto. Qed.

(* constructors of Canon from the storage-level invariant *)
Lemma Canon_XF w v : canon_wv w v -> 0 < w -> w mod 8 = 0 -> Canon (XF w v).
Proof. intros H Hw H8. split; [exact H|split; assumption]. Qed.
Lemma Canon_XD v : canon_wv 64 v -> Canon (XD v).
Proof. intros H. split; [exact H|exact I]. Qed.
Lemma Canon_XA_fixed v : canon_wv 64 v -> lenw (wd v) = 2 -> Canon (XA true v).
Proof. intros H Hl. split; [exact H|exact Hl]. Qed.
Lemma Canon_XA_dyn v : canon_wv 64 v -> Canon (XA false v).
Proof. intros H. split; [exact H|exact I]. Qed.

(* capacity of a canonical value is at least its length *)
Lemma len_le_capacity x : Canon x -> xlen x <= x_capacity x.
Proof.
  intros [(_ & Hl & _) Hx]. destruct x as [w v|v|[|] v]; cbn [x_capacity xw xdata xv xlen] in *;
    unfold capw, xlen; cbn [xv]; try assumption.
  unfold BVP_CAP. rewrite Hx in Hl. lia.
Qed.
