(* Proofs/Edit.v: get / set / push / pop / resize / reserve / shrink_to_fit / zeros / ones.
   Storage facts are stated on the raw value; resize is decomposed into three bit-range
   operations (or_bits_spec, fill_bits, mask_bits). *)
From BVA Require Import Base.Prelude Base.Result Base.Words Base.Limbs.
From BVA Require Import Model.Core Model.Ops Model.Arith Model.Conv Model.Auto Spec.Spec Proofs.Common.
From Coq Require Import ZifyBool ZifyN ZifyNat.

(* ------------------------------------------------------------------ arithmetic helpers *)

(* let lia see through division and modulo by literals *)
#[local] Ltac Zify.zify_post_hook ::= Z.div_mod_to_equations.

Lemma cfbl_d_eq' len : cfbl_d len = (len + 63) / 64.
Proof. unfold cfbl_d, cfbyl_d. lia. Qed.

Lemma cfbl_d_f len : cfbl_d len = cfbl_f 64 len.
Proof. rewrite cfbl_d_eq'. unfold cfbl_f. replace (len + 64 - 1) with (len + 63) by lia. reflexivity. Qed.

Lemma cfbl_d_ge len : len <= 64 * cfbl_d len.
Proof. rewrite cfbl_d_eq'. lia. Qed.

Lemma cfbl_d_le len n : len <= 64 * n -> cfbl_d len <= n.
Proof. intros H. rewrite cfbl_d_eq'. lia. Qed.

Lemma testbit_1 j : N.testbit 1 j = (j =? 0).
Proof.
  change 1 with (N.ones 1). rewrite ones_testbit.
  destruct (N.ltb_spec j 1); destruct (N.eqb_spec j 0); try reflexivity; lia.
Qed.

Lemma testbit_bit b j : b <= 1 -> N.testbit b j = (b =? 1) && (j =? 0).
Proof.
  intros H. assert (b = 0 \/ b = 1) as [-> | ->] by lia.
  - rewrite N.bits_0. reflexivity.
  - rewrite testbit_1. reflexivity.
Qed.

Lemma land_1_bit x : N.land x 1 = N.b2n (N.testbit x 0).
Proof. change 1 with (N.ones 1). rewrite N.land_ones. change (2 ^ 1) with 2. symmetry. apply N.bit0_mod. Qed.

Lemma ones_concat a b : N.ones a + 2 ^ a * N.ones b = N.ones (a + b).
Proof.
  rewrite !ones_eq, pow2_add. pose proof (pow2_pos a). pose proof (pow2_pos b). nia.
Qed.

(* div / mod by the width *)
Lemma div_lt_iff w j b : 0 < w -> (j / w < b <-> j < w * b).
Proof.
  intros Hw. pose proof (div_mod_eq j w). pose proof (mod_lt' j w Hw). split; intros; nia.
Qed.

Lemma div_le_iff w j a : 0 < w -> (a <= j / w <-> w * a <= j).
Proof.
  intros Hw. pose proof (div_mod_eq j w). pose proof (mod_lt' j w Hw). split; intros; nia.
Qed.

Lemma div_eq_iff w j k : 0 < w -> (j / w = k <-> w * k <= j /\ j < w * k + w).
Proof.
  intros Hw. pose proof (div_lt_iff w j (k + 1) Hw). pose proof (div_le_iff w j k Hw).
  rewrite N.mul_add_distr_l, N.mul_1_r in *. lia.
Qed.

Lemma ltb_div w j b : 0 < w -> (j / w <? b) = (j <? w * b).
Proof.
  intros Hw. pose proof (div_lt_iff w j b Hw).
  destruct (N.ltb_spec (j / w) b); destruct (N.ltb_spec j (w * b)); try reflexivity; lia.
Qed.

Lemma leb_div w j a : 0 < w -> (a <=? j / w) = (w * a <=? j).
Proof.
  intros Hw. pose proof (div_le_iff w j a Hw).
  destruct (N.leb_spec a (j / w)); destruct (N.leb_spec (w * a) j); try reflexivity; lia.
Qed.

(* make a nonlinear term opaque for lia *)
Ltac hide t := let x := fresh "x" in let E := fresh "E" in remember t as x eqn:E; clear E.

(* ------------------------------------------------------------------ get / set *)

Lemma v_get_spec P w v i :
  0 < w -> canon_wv w v -> i < wl v -> v_get P w v i = Ok (N.b2n (N.testbit (raw w (wd v)) i)).
Proof.
  intros Hw (Hd & Hl & Hr) Hi. unfold v_get.
  assert (dassert P (i <? wl v) = Ok tt) as ->.
  { apply N.ltb_lt in Hi. destruct P; cbn; rewrite ?Hi; reflexivity. }
  cbn [bind]. rewrite geto_ok by (apply div_lt_of_lt_mul; [assumption|lia]).
  cbn [bind]. rewrite land_1_bit, shrw_testbit, N.add_0_l, raw_testbit by assumption. reflexivity.
Qed.

Lemma v_get_debug_oob w v i : wl v <= i -> v_get Debug w v i = Panic.
Proof.
  intros H. unfold v_get. cbn [dassert]. apply N.ltb_ge in H. rewrite H. reflexivity.
Qed.

(* the word written by set *)
Lemma set_word_testbit w x k b m :
  x < 2 ^ w -> k < w -> b <= 1 ->
  N.testbit (N.lor (N.land x (notw w (shlw w 1 k))) (shlw w b k)) m =
  if m =? k then (b =? 1) else N.testbit x m.
Proof.
  intros Hx Hk Hb.
  rewrite N.lor_spec, N.land_spec, notw_testbit, !shlw_testbit, testbit_1, (testbit_bit b) by assumption.
  destruct (N.ltb_spec m w) as [Hm|Hm].
  - destruct (N.eqb_spec m k) as [->|Hne].
    + rewrite N.leb_refl, N.sub_diag. cbn. rewrite andb_false_r, andb_true_r. reflexivity.
    + destruct (N.leb_spec k m).
      * assert (m - k =? 0 = false) as -> by (apply N.eqb_neq; lia).
        cbn. rewrite !andb_false_r, andb_true_r. apply orb_false_r.
      * cbn. rewrite andb_true_r. apply orb_false_r.
  - rewrite (testbit_high x w m) by assumption. cbn.
    destruct (N.eqb_spec m k); [lia|reflexivity].
Qed.

Lemma set_word_lt w x k b : x < 2 ^ w ->
  N.lor (N.land x (notw w (shlw w 1 k))) (shlw w b k) < 2 ^ w.
Proof.
  intros Hx. apply lt_pow2_of_bits. intros i Hi.
  rewrite N.lor_spec, N.land_spec, shlw_testbit, (testbit_high x w i) by assumption.
  assert (i <? w = false) as -> by (apply N.ltb_ge; assumption). reflexivity.
Qed.

Lemma same_bit_iff w i j : 0 < w -> (j = i <-> j / w = i / w /\ j mod w = i mod w).
Proof.
  intros Hw. split; [intros ->; auto|]. intros [H1 H2].
  rewrite (div_mod_eq j w), (div_mod_eq i w), H1, H2. reflexivity.
Qed.

Lemma v_set_spec P w v i b :
  0 < w -> canon_wv w v -> i < wl v -> b <= 1 ->
  exists v', v_set P w v i b = Ok v' /\ canon_wv w v' /\ wl v' = wl v /\ lenw (wd v') = lenw (wd v) /\
    forall j, N.testbit (raw w (wd v')) j = if j =? i then (b =? 1) else N.testbit (raw w (wd v)) j.
Proof.
  intros Hw Hc Hi Hb. pose proof Hc as (Hd & Hl & Hr). unfold v_set.
  assert (dassert P (i <? wl v) = Ok tt) as ->.
  { apply N.ltb_lt in Hi. destruct P; cbn; rewrite ?Hi; reflexivity. }
  assert (i / w < lenw (wd v)) as Hq by (apply div_lt_of_lt_mul; [assumption|lia]).
  cbn [bind]. rewrite geto_ok by assumption. cbn [bind]. rewrite seto_ok by assumption. cbn [bind].
  eexists. split; [reflexivity|]. cbn [wd wl].
  set (x' := N.lor _ _).
  assert (x' < 2 ^ w) as Hx' by (apply set_word_lt, getw_ok; assumption).
  assert (words_ok w (setw (wd v) (i / w) x')) as Hd' by (apply words_ok_setw; assumption).
  assert (forall j, N.testbit (raw w (setw (wd v) (i / w) x')) j =
                    if j =? i then (b =? 1) else N.testbit (raw w (wd v)) j) as Hbits.
  { intros j. rewrite !raw_testbit by assumption. rewrite getw_setw.
    apply N.ltb_lt in Hq. rewrite Hq, andb_true_r.
    pose proof (same_bit_iff w i j Hw) as Hs.
    destruct (N.eqb_spec (i / w) (j / w)) as [Hqe|Hqe].
    - unfold x'. rewrite set_word_testbit by (try apply getw_ok; try apply mod_lt'; assumption).
      rewrite Hqe.
      destruct (N.eqb_spec (j mod w) (i mod w)); destruct (N.eqb_spec j i); try reflexivity.
      + exfalso. apply n. apply Hs. split; [symmetry|]; assumption.
      + exfalso. apply n. subst. reflexivity.
    - destruct (N.eqb_spec j i) as [->|]; [congruence|reflexivity]. }
  split; [|split; [reflexivity|split; [apply lenw_setw|exact Hbits]]].
  apply canon_of_bits; [assumption|rewrite lenw_setw; assumption|].
  intros j Hj. rewrite Hbits. destruct (N.eqb_spec j i); [lia|].
  apply (testbit_high _ (wl v)); assumption.
Qed.

Lemma v_set_debug_oob w v i b : wl v <= i -> v_set Debug w v i b = Panic.
Proof.
  intros H. unfold v_set. cbn [dassert]. apply N.ltb_ge in H. rewrite H. reflexivity.
Qed.

(* ------------------------------------------------------------------ zeros / ones *)

Lemma f_zeros_spec w n len : len <= w * n ->
  exists v, f_zeros w n len = Ok v /\ canon_wv w v /\ wl v = len /\ lenw (wd v) = n /\ raw w (wd v) = 0.
Proof.
  intros H. unfold f_zeros. apply N.leb_le in H. rewrite H. cbn [assert_ bind]. apply N.leb_le in H.
  eexists. split; [reflexivity|]. cbn [wd wl].
  split; [apply canon_zeros; assumption|]. split; [reflexivity|].
  split; [apply lenw_zerosw|apply raw_zerosw].
Qed.

Lemma f_zeros_panics w n len : w * n < len -> f_zeros w n len = Panic.
Proof. intros H. unfold f_zeros. apply N.leb_gt in H. rewrite H. reflexivity. Qed.

Lemma lenw_app' d1 d2 : lenw (d1 ++ d2) = lenw d1 + lenw d2.
Proof. unfold lenw. rewrite app_length. lia. Qed.

Lemma lenw_repeat x k : lenw (repeat x k) = N.of_nat k.
Proof. unfold lenw. rewrite repeat_length. reflexivity. Qed.

Lemma words_ok_repeat w x k : x < 2 ^ w -> words_ok w (repeat x k).
Proof. intros. apply Forall_repeat. assumption. Qed.

Lemma raw_repeat_ones w k : raw w (repeat (wmax w) k) = N.ones (w * N.of_nat k).
Proof.
  induction k as [|k IH].
  - cbn [repeat]. rewrite raw_nil. replace (w * N.of_nat 0) with 0 by lia. reflexivity.
  - cbn [repeat]. rewrite raw_cons, IH. unfold wmax. rewrite ones_concat. f_equal. lia.
Qed.

Lemma ones_mod len m : len <= m -> N.ones m mod 2 ^ len = N.ones len.
Proof.
  intros H. apply N.bits_inj. intro j. rewrite mod_pow2_testbit, !ones_testbit.
  destruct (N.ltb_spec j len); destruct (N.ltb_spec j m); try reflexivity; lia.
Qed.

Lemma f_ones_spec w n len : 0 < w -> len <= w * n ->
  exists v, f_ones w n len = Ok v /\ canon_wv w v /\ wl v = len /\ lenw (wd v) = n /\ raw w (wd v) = N.ones len.
Proof.
  intros Hw H. unfold f_ones. apply N.leb_le in H. rewrite H. cbn [assert_ bind]. apply N.leb_le in H.
  eexists. split; [reflexivity|]. cbn [wd wl].
  assert (words_ok w (repeat (wmax w) (N.to_nat n))) as Hd by (apply words_ok_repeat, wmax_lt).
  assert (raw w (mod2n w (repeat (wmax w) (N.to_nat n)) len) = N.ones len) as Hr.
  { rewrite raw_mod2n, raw_repeat_ones by assumption. apply ones_mod. lia. }
  assert (lenw (mod2n w (repeat (wmax w) (N.to_nat n)) len) = n) as Hl.
  { rewrite lenw_mod2n, lenw_repeat. lia. }
  split; [|split; [reflexivity|split; assumption]].
  unfold canon_wv. cbn [wd wl]. rewrite Hr, Hl.
  split; [apply words_ok_mod2n; assumption|]. split; [assumption|apply ones_lt].
Qed.

Lemma f_ones_panics w n len : w * n < len -> f_ones w n len = Panic.
Proof. intros H. unfold f_ones. apply N.leb_gt in H. rewrite H. reflexivity. Qed.

Lemma d_zeros_spec len : canon_wv 64 (d_zeros len) /\ wl (d_zeros len) = len /\ raw 64 (wd (d_zeros len)) = 0
                         /\ lenw (wd (d_zeros len)) = cfbl_d len.
Proof.
  unfold d_zeros. cbn [wd wl].
  split; [apply canon_zeros, cfbl_d_ge|]. split; [reflexivity|].
  split; [apply raw_zerosw|apply lenw_zerosw].
Qed.

Lemma upd_last_snoc f l x : upd_last f (l ++ [x]) = l ++ [f x].
Proof.
  induction l as [|y r IH]; [reflexivity|].
  cbn [app]. cbn [upd_last]. rewrite IH.
  destruct (r ++ [x]) eqn:E; [destruct r; discriminate|reflexivity].
Qed.

Lemma upd_last_repeat f x k : upd_last f (repeat x (S k)) = repeat x k ++ [f x].
Proof. cbn [repeat]. rewrite repeat_cons. apply upd_last_snoc. Qed.

Lemma d_ones_spec len : canon_wv 64 (d_ones len) /\ wl (d_ones len) = len /\ raw 64 (wd (d_ones len)) = N.ones len
                        /\ lenw (wd (d_ones len)) = cfbl_d len.
Proof.
  unfold d_ones, W64. cbn [wd wl].
  set (d := upd_last _ _).
  assert (words_ok 64 d /\ lenw d = cfbl_d len /\ raw 64 d = N.ones len) as (Hd & Hl & Hr).
  { unfold d. clear d. destruct (N.eq_dec len 0) as [->|Hne].
    - change (N.to_nat (cfbl_d 0)) with O. cbn [repeat upd_last].
      split; [constructor|]. split; reflexivity.
    - assert (cfbl_d len = (len - 1) / 64 + 1) as Hc by (rewrite cfbl_d_eq'; lia).
      replace (N.to_nat (cfbl_d len)) with (S (N.to_nat ((len - 1) / 64))) by lia.
      rewrite upd_last_repeat.
      assert (lastbits 64 len = (len - 1) mod 64 + 1) as ->.
      { unfold lastbits, wsub1. destruct (N.eqb_spec len 0); [contradiction|reflexivity]. }
      assert (N.land (wmax 64) (maskw 64 ((len - 1) mod 64 + 1)) = N.ones ((len - 1) mod 64 + 1)) as ->.
      { rewrite maskw_eq, N.min_l by lia. unfold wmax. rewrite N.land_comm, N.land_ones.
        apply N.mod_small. eapply N.lt_le_trans; [apply ones_lt|]. apply pow2_le. lia. }
      split; [|split].
      + apply words_ok_app; [apply words_ok_repeat, wmax_lt|].
        constructor; [|constructor]. eapply N.lt_le_trans; [apply ones_lt|]. apply pow2_le. lia.
      + rewrite lenw_app', lenw_repeat, Hc. unfold lenw. cbn [length]. lia.
      + rewrite raw_app by lia. rewrite raw_repeat_ones, lenw_repeat, raw_cons, raw_nil, N.mul_0_r, N.add_0_r.
        rewrite ones_concat. f_equal. lia. }
  split; [|split; [reflexivity|split; assumption]].
  unfold canon_wv. cbn [wd wl]. rewrite Hl, Hr.
  split; [assumption|]. split; [apply cfbl_d_ge|apply ones_lt].
Qed.

(* ------------------------------------------------------------------ reserve / shrink_to_fit *)

Lemma d_reserve_spec v k :
  canon_wv 64 v ->
  canon_wv 64 (d_reserve v k) /\ wl (d_reserve v k) = wl v /\ raw 64 (wd (d_reserve v k)) = raw 64 (wd v) /\
  wl v + k <= 64 * lenw (wd (d_reserve v k)) /\ lenw (wd v) <= lenw (wd (d_reserve v k)).
Proof.
  intros (Hd & Hl & Hr). unfold d_reserve.
  pose proof (cfbl_d_ge (wl v + k)) as Hc.
  destruct (N.ltb_spec (lenw (wd v)) (cfbl_d (wl v + k))) as [Hlt|Hge]; cbn [wd wl].
  - rewrite raw_app_zeros by lia. rewrite lenw_app', lenw_zerosw.
    split; [|split; [reflexivity|split; [reflexivity|split; lia]]].
    unfold canon_wv. cbn [wd wl]. rewrite raw_app_zeros by lia. rewrite lenw_app', lenw_zerosw.
    split; [apply words_ok_app; [assumption|apply words_ok_zerosw]|]. split; [lia|assumption].
  - split; [repeat split; assumption|]. split; [reflexivity|]. split; [reflexivity|]. split; lia.
Qed.

Lemma raw_firstn w d k len :
  0 < w -> raw w d < 2 ^ len -> len <= w * N.of_nat k -> (k <= length d)%nat -> raw w (firstn k d) = raw w d.
Proof.
  intros Hw Hr Hl Hk. rewrite <- (firstn_skipn k d) at 2. rewrite raw_app by assumption.
  assert (lenw (firstn k d) = N.of_nat k) as El by (unfold lenw; rewrite firstn_length; lia).
  rewrite El.
  destruct (N.eq_dec (raw w (skipn k d)) 0) as [->|Hne]; [lia|exfalso].
  rewrite <- (firstn_skipn k d), raw_app, El in Hr by assumption.
  pose proof (pow2_le len (w * N.of_nat k) Hl). pose proof (pow2_pos (w * N.of_nat k)). nia.
Qed.

Lemma d_shrink_spec v :
  canon_wv 64 v ->
  canon_wv 64 (d_shrink_to_fit v) /\ wl (d_shrink_to_fit v) = wl v /\
  raw 64 (wd (d_shrink_to_fit v)) = raw 64 (wd v) /\ lenw (wd (d_shrink_to_fit v)) <= lenw (wd v) /\
  (cfbl_d (wl v) <= lenw (wd v) -> lenw (wd (d_shrink_to_fit v)) = cfbl_d (wl v)).
Proof.
  intros (Hd & Hl & Hr). unfold d_shrink_to_fit.
  pose proof (cfbl_d_ge (wl v)) as Hc. pose proof (cfbl_d_le (wl v) _ Hl) as Hc'.
  destruct (N.ltb_spec (cfbl_d (wl v)) (lenw (wd v))) as [Hlt|Hge]; cbn [wd wl].
  - set (k := N.to_nat (cfbl_d (wl v))).
    assert (lenw (firstn k (wd v)) = cfbl_d (wl v)) as El.
    { unfold lenw in *. rewrite firstn_length. lia. }
    assert (raw 64 (firstn k (wd v)) = raw 64 (wd v)) as Er.
    { apply (raw_firstn 64 _ _ (wl v)); [lia|assumption|lia|unfold lenw in *; lia]. }
    rewrite El, Er.
    split; [|split; [reflexivity|split; [reflexivity|split; [lia|reflexivity]]]].
    unfold canon_wv. cbn [wd wl]. rewrite El, Er.
    split; [|split; assumption].
    unfold words_ok in *. rewrite <- (firstn_skipn k (wd v)) in Hd. apply Forall_app in Hd. apply Hd.
  - split; [repeat split; assumption|]. split; [reflexivity|]. split; [reflexivity|]. split; lia.
Qed.

(* ------------------------------------------------------------------ push / pop *)

Lemma push_core P w v b :
  0 < w -> canon_wv w v -> b <= 1 -> wl v < w * lenw (wd v) ->
  exists v', v_set P w (mkwv (wd v) (wl v + 1)) (wl v) b = Ok v' /\ canon_wv w v' /\ wl v' = wl v + 1 /\
    lenw (wd v') = lenw (wd v) /\ raw w (wd v') = raw w (wd v) + b * 2 ^ wl v.
Proof.
  intros Hw (Hd & Hl & Hr) Hb Hcap.
  assert (canon_wv w (mkwv (wd v) (wl v + 1))) as Hc1.
  { unfold canon_wv. cbn [wd wl]. split; [assumption|]. split; [lia|].
    eapply N.lt_le_trans; [exact Hr|]. apply pow2_le. lia. }
  destruct (v_set_spec P w (mkwv (wd v) (wl v + 1)) (wl v) b Hw Hc1) as (v' & E & Hc' & Hl' & Hn' & Hbits);
    [cbn [wl]; lia|assumption|].
  cbn [wd wl] in *. exists v'. split; [exact E|]. split; [assumption|]. split; [assumption|].
  split; [assumption|].
  apply N.bits_inj. intro j. rewrite Hbits, (N.mul_comm b), concat_testbit by assumption.
  rewrite (testbit_bit b) by assumption.
  destruct (N.eqb_spec j (wl v)) as [->|Hne].
  - rewrite N.ltb_irrefl, N.sub_diag. cbn. rewrite andb_true_r. reflexivity.
  - destruct (N.ltb_spec j (wl v)); [reflexivity|].
    rewrite (testbit_high _ (wl v) j) by assumption.
    assert (j - wl v =? 0 = false) as -> by (apply N.eqb_neq; lia).
    rewrite andb_false_r. reflexivity.
Qed.

Lemma f_push_spec P w v b :
  0 < w -> canon_wv w v -> b <= 1 -> wl v < w * lenw (wd v) ->
  exists v', f_push P w v b = Ok v' /\ canon_wv w v' /\ wl v' = wl v + 1 /\ lenw (wd v') = lenw (wd v) /\
    raw w (wd v') = raw w (wd v) + b * 2 ^ wl v.
Proof.
  intros Hw Hc Hb Hcap. unfold f_push, capw.
  apply N.ltb_lt in Hcap. rewrite Hcap. apply N.ltb_lt in Hcap. cbn [assert_ bind].
  apply push_core; assumption.
Qed.

Lemma f_push_full_panics P w v b : w * lenw (wd v) <= wl v -> f_push P w v b = Panic.
Proof. intros H. unfold f_push, capw. apply N.ltb_ge in H. rewrite H. reflexivity. Qed.

Lemma d_push_spec P v b :
  canon_wv 64 v -> b <= 1 ->
  exists v', d_push P v b = Ok v' /\ canon_wv 64 v' /\ wl v' = wl v + 1 /\
    raw 64 (wd v') = raw 64 (wd v) + b * 2 ^ wl v.
Proof.
  intros Hc Hb. unfold d_push, W64.
  destruct (d_reserve_spec v 1 Hc) as (Hc1 & Hl1 & Hr1 & Hcap & Hn1).
  destruct (push_core P 64 (d_reserve v 1) b) as (v' & E & Hc' & Hl' & Hn' & Hr'); try assumption; try lia.
  exists v'. split; [exact E|]. split; [assumption|]. split; [lia|]. rewrite Hr', Hr1, Hl1. reflexivity.
Qed.

Lemma v_pop_spec P w v :
  0 < w -> canon_wv w v ->
  exists v' o, v_pop P w v = Ok (v', o) /\ canon_wv w v' /\ lenw (wd v') = lenw (wd v) /\
    (wl v = 0 -> v' = v /\ o = None) /\
    (0 < wl v -> wl v' = wl v - 1 /\ raw w (wd v') = raw w (wd v) mod 2 ^ (wl v - 1) /\
                 o = Some (N.b2n (N.testbit (raw w (wd v)) (wl v - 1)))).
Proof.
  intros Hw Hc. unfold v_pop. destruct (N.eqb_spec (wl v) 0) as [Hz|Hnz].
  - exists v, None. split; [reflexivity|]. split; [assumption|]. split; [reflexivity|].
    split; [auto|lia].
  - rewrite v_get_spec by (assumption || lia). cbn [bind].
    destruct (v_set_spec P w v (wl v - 1) 0 Hw Hc) as (v' & E & Hc' & Hl' & Hn' & Hbits); [lia|lia|].
    rewrite E. cbn [bind].
    eexists _, _. split; [reflexivity|]. cbn [wd wl].
    destruct Hc' as (Hd' & Hcap' & Hr').
    assert (raw w (wd v') = raw w (wd v) mod 2 ^ (wl v - 1)) as Er.
    { apply N.bits_inj. intro j. rewrite Hbits, mod_pow2_testbit.
      destruct (N.eqb_spec j (wl v - 1)) as [->|Hne].
      - rewrite N.ltb_irrefl. reflexivity.
      - destruct (N.ltb_spec j (wl v - 1)); [reflexivity|].
        apply (canon_raw_high w v); [assumption|lia]. }
    split; [|split; [assumption|split; [lia|intros _; split; [reflexivity|split; [assumption|reflexivity]]]]].
    unfold canon_wv. cbn [wd wl]. split; [assumption|]. split; [lia|].
    rewrite Er. apply N.mod_lt, pow2_ne0.
Qed.

(* ------------------------------------------------------------------ resize *)

Lemma land_lt w x m : x < 2 ^ w -> N.land x m < 2 ^ w.
Proof.
  intros Hx. apply lt_pow2_of_bits. intros i Hi.
  rewrite N.land_spec, (testbit_high x w i) by assumption. reflexivity.
Qed.

Lemma lor_lt w x y : x < 2 ^ w -> y < 2 ^ w -> N.lor x y < 2 ^ w.
Proof.
  intros Hx Hy. apply lt_pow2_of_bits. intros i Hi.
  rewrite N.lor_spec, (testbit_high x w i), (testbit_high y w i) by assumption. reflexivity.
Qed.

Definition signw (w b : N) : N := if b =? 0 then 0 else wmax w.

Lemma signw_lt w b : signw w b < 2 ^ w.
Proof. unfold signw. destruct (b =? 0); [apply pow2_pos|apply wmax_lt]. Qed.

Lemma signw_testbit w b r : N.testbit (signw w b) r = negb (b =? 0) && (r <? w).
Proof.
  unfold signw, wmax. destruct (b =? 0); cbn [negb andb]; [apply N.bits_0|apply ones_testbit].
Qed.

(* one word replaced *)
Lemma upd_word_bits w d k f j :
  0 < w -> words_ok w d -> k < lenw d -> f (getw d k) < 2 ^ w ->
  N.testbit (raw w (upd_at d k f)) j =
  if j / w =? k then N.testbit (f (getw d k)) (j mod w) else N.testbit (raw w d) j.
Proof.
  intros Hw Hd Hk Hf.
  rewrite !raw_testbit by (try apply words_ok_upd_at; assumption).
  rewrite getw_upd_at. apply N.ltb_lt in Hk. rewrite Hk, andb_true_r.
  rewrite (N.eqb_sym k). destruct (j / w =? k); reflexivity.
Qed.

(* words a .. b-1 overwritten with c *)
Lemma fill_words_ok w d a b c :
  words_ok w d -> c < 2 ^ w -> words_ok w (mapi (fun i x => if (a <=? i) && (i <? b) then c else x) d).
Proof.
  intros Hd Hc. apply words_ok_mapi. intros i Hi.
  destruct ((a <=? i) && (i <? b)); [assumption|apply getw_ok; assumption].
Qed.

Lemma fill_bits w d a b c j :
  0 < w -> words_ok w d -> c < 2 ^ w ->
  N.testbit (raw w (mapi (fun i x => if (a <=? i) && (i <? b) then c else x) d)) j =
  if (w * a <=? j) && (j <? w * b) && (j <? w * lenw d) then N.testbit c (j mod w) else N.testbit (raw w d) j.
Proof.
  intros Hw Hd Hc.
  rewrite !raw_testbit by (try apply fill_words_ok; assumption).
  rewrite <- !ltb_div, <- leb_div by assumption.
  destruct (N.ltb_spec (j / w) (lenw d)) as [Hlt|Hge].
  - rewrite getw_mapi by assumption. rewrite andb_true_r.
    destruct ((a <=? j / w) && (j / w <? b)); reflexivity.
  - rewrite getw_mapi_high, getw_high by assumption. rewrite andb_false_r. reflexivity.
Qed.

(* bits n .. end of the word containing n cleared *)
Lemma mask_bits w d n j :
  0 < w -> words_ok w d ->
  N.testbit (raw w (upd_at d (n / w) (fun l => N.land l (maskw w (n mod w))))) j =
  if (n <=? j) && (j <? w * (n / w) + w) then false else N.testbit (raw w d) j.
Proof.
  intros Hw Hd.
  pose proof (div_mod_eq n w) as En. pose proof (mod_lt' n w Hw) as Hn.
  pose proof (div_mod_eq j w) as Ej. pose proof (mod_lt' j w Hw) as Hj.
  destruct (N.lt_ge_cases (n / w) (lenw d)) as [Hlt|Hge].
  - rewrite upd_word_bits by (try apply land_lt, getw_ok; assumption).
    destruct (N.eqb_spec (j / w) (n / w)) as [He|Hne].
    + rewrite N.land_spec, maskw_testbit, raw_testbit, He by assumption.
      rewrite He in Ej. clear He Hlt Hd. hide (w * (n / w)). hide (j mod w). hide (n mod w).
      hide (N.testbit (getw d (n / w)) x0).
      destruct (N.ltb_spec x0 x1); destruct (N.ltb_spec x0 w);
        destruct (N.leb_spec n j); destruct (N.ltb_spec j (x + w)); cbn [andb]; try lia;
        rewrite ?andb_true_r, ?andb_false_r; reflexivity.
    + pose proof (div_eq_iff w j (n / w) Hw) as Hiff.
      destruct (N.leb_spec n j); destruct (N.ltb_spec j (w * (n / w) + w)); cbn [andb]; try reflexivity.
      exfalso. apply Hne, Hiff. lia.
  - unfold upd_at. assert (n / w <? lenw d = false) as -> by (apply N.ltb_ge; assumption).
    destruct (N.leb_spec n j); cbn [andb]; [|reflexivity].
    apply (div_le_iff w n (lenw d) Hw) in Hge.
    rewrite (testbit_high (raw w d) (w * lenw d) j); [destruct (j <? _); reflexivity|apply raw_lt; assumption|lia].
Qed.

Lemma mask_words_ok w d n :
  words_ok w d -> words_ok w (upd_at d (n / w) (fun l => N.land l (maskw w (n mod w)))).
Proof. intros Hd. apply words_ok_upd_at; [assumption|]. apply land_lt, getw_ok. assumption. Qed.

(* bits len .. end of the word containing len or-ed with the sign *)
Lemma or_bits_spec w d len b j :
  0 < w -> words_ok w d -> len / w < lenw d ->
  N.testbit (raw w (upd_at d (len / w)
                      (fun l => N.lor l (N.land (signw w b) (notw w (maskw w (len mod w))))))) j =
  N.testbit (raw w d) j || (negb (b =? 0) && (len <=? j) && (j <? w * (len / w) + w)).
Proof.
  intros Hw Hd Hlt.
  pose proof (div_mod_eq len w) as En. pose proof (mod_lt' len w Hw) as Hn.
  pose proof (div_mod_eq j w) as Ej. pose proof (mod_lt' j w Hw) as Hj.
  rewrite upd_word_bits; try assumption.
  2:{ apply lor_lt; [apply getw_ok; assumption|]. apply land_lt, signw_lt. }
  destruct (N.eqb_spec (j / w) (len / w)) as [He|Hne].
  - rewrite N.lor_spec, N.land_spec, signw_testbit, notw_testbit, maskw_testbit, raw_testbit, He by assumption.
    rewrite He in Ej. f_equal. clear He Hlt Hd. hide (w * (len / w)). hide (j mod w). hide (len mod w).
    destruct (N.ltb_spec x0 x1); destruct (N.ltb_spec x0 w);
      destruct (N.leb_spec len j); destruct (N.ltb_spec j (x + w)); cbn [andb xorb]; try lia;
      rewrite ?andb_true_r, ?andb_false_r; reflexivity.
  - pose proof (div_eq_iff w j (len / w) Hw) as Hiff.
    destruct (N.leb_spec len j); destruct (N.ltb_spec j (w * (len / w) + w));
      rewrite ?andb_false_r; cbn [andb]; rewrite ?andb_false_r, ?orb_false_r; try reflexivity.
    exfalso. apply Hne, Hiff. lia.
Qed.

Lemma or_words_ok w d len b :
  words_ok w d ->
  words_ok w (upd_at d (len / w) (fun l => N.lor l (N.land (signw w b) (notw w (maskw w (len mod w)))))).
Proof.
  intros Hd. apply words_ok_upd_at; [assumption|].
  apply lor_lt; [apply getw_ok; assumption|]. apply land_lt, signw_lt.
Qed.

Lemma cfbl_f_ge w n : 0 < w -> n <= w * cfbl_f w n.
Proof. intros Hw. apply (ceil_div_spec n w Hw). apply N.le_refl. Qed.

Lemma cfbl_f_le w n q : 0 < w -> n <= w * q -> cfbl_f w n <= q.
Proof. intros Hw H. apply (ceil_div_spec n w Hw). assumption. Qed.

(* the storage after a truncating resize *)
Definition sh_list (w : N) (d : list N) (n c : N) : list N :=
  upd_at (mapi (fun i x => if (n / w + 1 <=? i) && (i <? c) then 0 else x) d)
         (n / w) (fun l => N.land l (maskw w (n mod w))).

Lemma shrink_core w d len n :
  0 < w -> words_ok w d -> len <= w * lenw d -> raw w d < 2 ^ len -> n < len ->
  words_ok w (sh_list w d n (cfbl_f w len)) /\ lenw (sh_list w d n (cfbl_f w len)) = lenw d /\
  raw w (sh_list w d n (cfbl_f w len)) = raw w d mod 2 ^ n.
Proof.
  intros Hw Hd Hcap Hr Hn. unfold sh_list.
  split; [apply mask_words_ok, fill_words_ok; [assumption|apply pow2_pos]|].
  split; [rewrite lenw_upd_at, lenw_mapi; reflexivity|].
  apply N.bits_inj. intro j.
  rewrite mask_bits by (try apply fill_words_ok; try apply pow2_pos; assumption).
  rewrite fill_bits by (try apply pow2_pos; assumption).
  rewrite mod_pow2_testbit, N.bits_0.
  pose proof (cfbl_f_ge w len Hw) as Hc.
  pose proof (div_mod_eq n w) as En. pose proof (mod_lt' n w Hw) as Hnm.
  rewrite N.mul_add_distr_l, N.mul_1_r.
  assert (len <= j -> N.testbit (raw w d) j = false) as Hhigh by (intros; apply (testbit_high _ len); assumption).
  generalize dependent (n mod w). intros nr En Hnm.
  generalize dependent (w * (n / w)). intros A En.
  generalize dependent (w * cfbl_f w len). intros C Hc.
  generalize dependent (w * lenw d). intros L Hcap.
  generalize dependent (N.testbit (raw w d) j). intros tb Hhigh. clear Hr Hd.
  destruct (N.leb_spec n j); destruct (N.ltb_spec j (A + w)); destruct (N.leb_spec (A + w) j);
    destruct (N.ltb_spec j C); destruct (N.ltb_spec j L); destruct (N.ltb_spec j n);
    cbn [andb]; try lia; try reflexivity; first [apply Hhigh; lia | symmetry; apply Hhigh; lia].
Qed.

(* the storage after a growing resize *)
Definition gr_list (w : N) (d : list N) (len n c b : N) : list N :=
  upd_at (mapi (fun i x => if (len / w + 1 <=? i) && (i <? c) then signw w b else x)
               (upd_at d (len / w) (fun l => N.lor l (N.land (signw w b) (notw w (maskw w (len mod w)))))))
         (n / w) (fun l => N.land l (maskw w (n mod w))).

Lemma grow_bits w d len n b j :
  0 < w -> words_ok w d -> raw w d < 2 ^ len -> len < n -> n <= w * lenw d ->
  N.testbit (raw w (gr_list w d len n (cfbl_f w n) b)) j =
  if j <? len then N.testbit (raw w d) j else negb (b =? 0) && (j <? n).
Proof.
  intros Hw Hd Hr Hlen Hcap. unfold gr_list.
  assert (len / w < lenw d) as Hlq by (apply div_lt_iff; [assumption|lia]).
  rewrite mask_bits by (try apply fill_words_ok; try apply or_words_ok; try apply signw_lt; assumption).
  rewrite fill_bits by (try apply or_words_ok; try apply signw_lt; assumption).
  rewrite or_bits_spec by assumption. rewrite signw_testbit, lenw_upd_at.
  pose proof (cfbl_f_ge w n Hw) as Hc1.
  pose proof (cfbl_f_le w n (lenw d) Hw Hcap) as Hc2.
  pose proof (div_mod_eq n w) as En. pose proof (mod_lt' n w Hw) as Hnm.
  pose proof (div_mod_eq len w) as El. pose proof (mod_lt' len w Hw) as Hlm.
  assert (cfbl_f w n <= n / w + 1) as Hc3.
  { apply cfbl_f_le; [assumption|]. lia. }
  assert (w * (len / w) = w * (n / w) \/ w * (len / w) + w <= w * (n / w)) as HAB.
  { assert (len / w <= n / w) as Hle by (apply N.div_le_mono; lia).
    destruct (N.eq_dec (len / w) (n / w)) as [->|Hne]; [left; reflexivity|right].
    assert (len / w + 1 <= n / w) as Hle' by lia.
    apply (N.mul_le_mono_l _ _ w) in Hle'. lia. }
  apply (N.mul_le_mono_l _ _ w) in Hc2. apply (N.mul_le_mono_l _ _ w) in Hc3.
  pose proof (mod_lt' j w Hw) as Hjm. apply N.ltb_lt in Hjm. rewrite Hjm, andb_true_r. clear Hjm.
  rewrite !N.mul_add_distr_l, !N.mul_1_r in *.
  assert (len <= j -> N.testbit (raw w d) j = false) as Hhigh by (intros; apply (testbit_high _ len); assumption).
  clear Hlq Hd Hr.
  hide (n mod w). hide (len mod w). hide (w * (n / w)). hide (w * (len / w)).
  hide (w * cfbl_f w n). hide (w * lenw d). hide (N.testbit (raw w d) j).
  rename x1 into A, x2 into B, x3 into C, x4 into L, x5 into tb.
  destruct (N.ltb_spec j len) as [Hjl|Hjl].
  - assert (n <=? j = false) as -> by (apply N.leb_gt; lia).
    assert (B + w <=? j = false) as -> by (apply N.leb_gt; lia).
    assert (len <=? j = false) as -> by (apply N.leb_gt; lia).
    cbn [andb]. rewrite andb_false_r. apply orb_false_r.
  - rewrite (Hhigh Hjl). cbn [orb].
    assert (len <=? j = true) as -> by (apply N.leb_le; assumption). rewrite andb_true_r.
    destruct (b =? 0); cbn [negb andb].
    + destruct ((n <=? j) && (j <? A + w)); [reflexivity|].
      destruct ((B + w <=? j) && (j <? C) && (j <? L)); reflexivity.
    + destruct (N.ltb_spec j n) as [Hjn|Hjn].
      * assert (n <=? j = false) as -> by (apply N.leb_gt; lia). cbn [andb].
        destruct (N.leb_spec (B + w) j).
        -- assert (j <? C = true) as -> by (apply N.ltb_lt; lia).
           assert (j <? L = true) as -> by (apply N.ltb_lt; lia). reflexivity.
        -- cbn [andb]. apply N.ltb_lt. assumption.
      * assert (n <=? j = true) as -> by (apply N.leb_le; lia). cbn [andb].
        destruct (N.ltb_spec j (A + w)); [reflexivity|].
        assert (j <? C = false) as -> by (apply N.ltb_ge; lia).
        rewrite andb_false_r. apply N.ltb_ge. lia.
Qed.

Lemma grow_core w d len n b :
  0 < w -> words_ok w d -> raw w d < 2 ^ len -> len < n -> n <= w * lenw d ->
  words_ok w (gr_list w d len n (cfbl_f w n) b) /\ lenw (gr_list w d len n (cfbl_f w n) b) = lenw d /\
  raw w (gr_list w d len n (cfbl_f w n) b) = raw w d + (if b =? 0 then 0 else 2 ^ n - 2 ^ len).
Proof.
  intros Hw Hd Hr Hlen Hcap.
  split; [unfold gr_list; apply mask_words_ok, fill_words_ok; [apply or_words_ok; assumption|apply signw_lt]|].
  split; [unfold gr_list; rewrite lenw_upd_at, lenw_mapi, lenw_upd_at; reflexivity|].
  apply N.bits_inj. intro j. rewrite grow_bits by assumption.
  assert ((if b =? 0 then 0 else 2 ^ n - 2 ^ len) = 2 ^ len * (if b =? 0 then 0 else N.ones (n - len))) as ->.
  { destruct (b =? 0); [lia|]. rewrite ones_eq, (pow2_split len n) by lia. pose proof (pow2_pos (n - len)). nia. }
  rewrite concat_testbit by assumption.
  destruct (N.ltb_spec j len); [reflexivity|].
  destruct (b =? 0); cbn [negb andb]; [rewrite N.bits_0; reflexivity|].
  rewrite ones_testbit.
  destruct (N.ltb_spec j n); destruct (N.ltb_spec (j - len) (n - len)); try reflexivity; lia.
Qed.

Lemma cfbl_sel fixed w x : (fixed = false -> w = 64) -> (if fixed then cfbl_f w else cfbl_d) x = cfbl_f w x.
Proof. intros H. destruct fixed; [reflexivity|]. rewrite H by reflexivity. apply cfbl_d_f. Qed.

(* resize: truncation or extension with fill bit b *)
Lemma v_resize_spec fixed w v n b :
  0 < w -> (fixed = false -> w = 64) -> canon_wv w v -> b <= 1 ->
  (fixed = true -> n <= w * lenw (wd v)) ->
  exists v', v_resize fixed w v n b = Ok v' /\ canon_wv w v' /\ wl v' = n /\
    (fixed = true -> lenw (wd v') = lenw (wd v)) /\ lenw (wd v) <= lenw (wd v') /\
    raw w (wd v') = (if n <? wl v then raw w (wd v) mod 2 ^ n
                     else raw w (wd v) + (if b =? 0 then 0 else 2 ^ n - 2 ^ wl v)).
Proof.
  intros Hw Hfw Hc Hb Hfix. pose proof Hc as (Hd & Hcap & Hr).
  unfold v_resize. cbv zeta. rewrite !cfbl_sel by assumption.
  destruct (N.ltb_spec n (wl v)) as [Hlt|Hge].
  - (* truncation *)
    rewrite fill_range_ok by (left; apply cfbl_f_le; assumption). cbn [bind].
    destruct (shrink_core w (wd v) (wl v) n Hw Hd Hcap Hr Hlt) as (Hd' & Hl' & Hr').
    unfold sh_list in *.
    eexists. split; [reflexivity|]. cbn [wd wl].
    split; [|split; [reflexivity|split; [intros _; exact Hl'|split; [rewrite Hl'; apply N.le_refl|exact Hr']]]].
    unfold canon_wv. cbn [wd wl]. rewrite Hl', Hr'.
    split; [assumption|]. split; [|apply N.mod_lt, pow2_ne0].
    lia.
  - destruct (N.ltb_spec (wl v) n) as [Hgt|Heq].
    + (* extension *)
      assert (exists v0, (if fixed then (let! _ := assert_ (n <=? capw w (wd v)) in Ok v)
                          else Ok (d_reserve v (n - wl v))) = Ok v0 /\
                words_ok w (wd v0) /\ raw w (wd v0) = raw w (wd v) /\ n <= w * lenw (wd v0) /\
                lenw (wd v) <= lenw (wd v0) /\ (fixed = true -> lenw (wd v0) = lenw (wd v)))
        as (v0 & -> & Hd0 & Hr0 & Hcap0 & Hmono & Hsame).
      { destruct fixed.
        - exists v. unfold capw. specialize (Hfix eq_refl). apply N.leb_le in Hfix. rewrite Hfix.
          apply N.leb_le in Hfix. cbn [assert_ bind]. repeat split; try assumption; lia.
        - exists (d_reserve v (n - wl v)). split; [reflexivity|].
          rewrite (Hfw eq_refl) in *.
          destruct (d_reserve_spec v (n - wl v) Hc) as ((Hd0 & _ & _) & Hl0 & Hr0 & Hcap0 & Hmono).
          repeat split; try assumption; try lia. }
      cbn [bind]. fold (signw w b).
      destruct (grow_core w (wd v0) (wl v) n b Hw Hd0) as (Hd' & Hl' & Hr'); [rewrite Hr0; assumption|assumption|assumption|].
      rewrite fill_range_ok by (left; rewrite lenw_upd_at; apply cfbl_f_le; assumption). cbn [bind].
      unfold gr_list in *.
      eexists. split; [reflexivity|]. cbn [wd wl].
      split; [|split; [reflexivity|split; [intros Hf; rewrite Hl'; apply Hsame; assumption|split; [rewrite Hl'; assumption|rewrite Hr', Hr0; reflexivity]]]].
      apply canon_of_bits; [assumption|rewrite Hl'; assumption|].
      intros j Hj. pose proof (grow_bits w (wd v0) (wl v) n b j Hw Hd0) as Hbits. unfold gr_list in Hbits.
      rewrite Hbits by (rewrite ?Hr0; assumption).
      assert (j <? wl v = false) as -> by (apply N.ltb_ge; lia).
      assert (j <? n = false) as -> by (apply N.ltb_ge; lia). apply andb_false_r.
    + (* same length *)
      assert (n = wl v) as -> by lia.
      exists v. split; [reflexivity|]. split; [assumption|]. split; [reflexivity|].
      split; [reflexivity|]. split; [apply N.le_refl|].
      destruct (b =? 0); lia.
Qed.

Lemma f_resize_overflow_panics w v n b :
  wl v < n -> w * lenw (wd v) < n -> v_resize true w v n b = Panic.
Proof.
  intros H1 H2. unfold v_resize. cbv zeta.
  assert (n <? wl v = false) as -> by (apply N.ltb_ge; lia).
  apply N.ltb_lt in H1. rewrite H1. unfold capw. apply N.leb_gt in H2. rewrite H2. reflexivity.
Qed.
