(* Proofs/Edit.v *)
From BVA Require Import Base.Prelude Base.Result Base.Words Base.Limbs.
From BVA Require Import Model.Core Model.Ops Model.Arith Model.Conv Model.Auto Spec.Spec Proofs.Common.
From Coq Require Import ZifyBool ZifyN ZifyNat.
