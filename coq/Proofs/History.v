(* Proofs/History.v: property C03 -- no hidden state after any history of public operations. *)
From BVA Require Import Base.Prelude Base.Result Base.Words Base.Limbs.
From BVA Require Import Model.Core Model.Ops Model.Arith Model.Conv Model.Auto Model.Run Spec.Spec Spec.Prop Spec.CaseOk.
From BVA Require Import Proofs.Common Proofs.Rechunk Proofs.Lift.
From Coq Require Import ZifyBool ZifyN ZifyNat.
From BVA Require Import Proofs.Pairings Proofs.ConvP Proofs.XEdit Proofs.XObs Proofs.Append Proofs.Div Proofs.MasterB.
From BVA Require Proofs.MasterA.
From BVA Require Import Proofs.Master.

(* ------------------------------------------------------------------ reachable values *)

(* Values obtainable by finite histories of public operations: the vector items of results of
   in-scope cases whose vector operands are themselves reachable.

   The premise `spec_case c <> SFree` restricts histories to steps the properties speak about.
   It is necessary: on some in-scope cases the crate's behaviour is deliberately left
   unconstrained (`SFree`) -- e.g. a release-profile `set` with an out-of-range index, where the
   crate writes a bit beyond `len` without any check -- and there the model (like the crate)
   returns a NON-canonical vector; see `reach_unrestricted_not_canon` below.  The test harness does
   exactly the same: a history only continues from states the properties constrain.
   (Operation 37, `prop_hash_pair`, has `spec_case = SFree` and so is not a step either; this loses
   nothing because its result holds no vector at all, see `op37_no_vector`.) *)
Inductive Reach : bvx -> Prop :=
| Reach_step c items x :
    In (c_op c) all_ops -> case_okb c = true ->
    spec_case c <> SFree ->
    Forall Reach (c_vals c) ->
    run_case c = Ok items -> In (IV x) items -> Reach x.

(* ------------------------------------------------------------------ the relation never says "any item" *)

(* `SAny` (Spec/Prop.v) matches numbers and lists only, never a vector, so every specified item is strict
   in the sense needed here: a vector in the result is always checked for canonicity *)
Definition sitem_strict (s : sitem) : bool := true.
Definition sres_strict (r : sres) : bool :=
  match r with SOk l => forallb sitem_strict l | _ => true end.

Ltac split_match :=
  match goal with
  | |- context [match ?x with _ => _ end] => destruct x
  end.

Lemma spec_case_strict c : sres_strict (spec_case c) = true.
Proof.
  unfold spec_case, s_parse, dbg_or_free. cbv zeta.
  destruct (c_op c) as [|p]; [destruct (sval c 0) as [[ka a]|]; reflexivity|].
  do 8 (try (destruct p as [p|p|]));
    cbv beta iota;
    repeat first [reflexivity | split_match].
Qed.

Lemma items_ok_canon l : forall items x,
  forallb sitem_strict l = true -> items_ok l items = true -> In (IV x) items -> canonb x = true.
Proof.
  induction l as [|s l IH]; intros [|i items] x Hs Hok Hin; cbn [items_ok] in Hok;
    try discriminate Hok; try (destruct Hin; fail).
  cbn [forallb] in Hs. apply andb_true_iff in Hs. destruct Hs as [Hs1 Hs2].
  apply andb_true_iff in Hok. destruct Hok as [Hi Hok].
  destruct Hin as [->|Hin]; [|exact (IH items x Hs2 Hok Hin)].
  destruct s as [k v lo hi|n|n|m|]; cbn [item_ok sitem_strict] in Hi, Hs1; try discriminate.
  rewrite !andb_true_iff in Hi. tauto.
Qed.

(* every vector the property relation accepts in a result is canonical *)
Lemma prop_ok_items_good c items x :
  c_op c <> 37 -> prop_case c (Ok items) = true -> spec_case c <> SFree -> In (IV x) items -> canonb x = true.
Proof.
  intros H37 Hp Hfree Hin. rewrite prop_case_res in Hp by assumption.
  pose proof (spec_case_strict c) as Hs.
  destruct (spec_case c) as [l| | | |]; cbn [res_ok sres_strict] in Hp, Hs; try discriminate Hp.
  - exact (items_ok_canon l items x Hs Hp Hin).
  - exfalso. apply Hfree. reflexivity.
Qed.

Lemma spec_case_37 c : c_op c = 37 -> spec_case c = SFree.
Proof.
  intros H. unfold spec_case. rewrite H. cbv beta iota zeta.
  destruct (sval c 0) as [[ka a]|]; reflexivity.
Qed.

(* the result of operation 37 (equality and hash tokens of a pair) holds no vector *)
Lemma op37_no_vector c items x : c_op c = 37 -> run_case c = Ok items -> ~ In (IV x) items.
Proof.
  intros H Hr. unfold run_case in Hr. rewrite H in Hr. cbv beta iota zeta in Hr.
  destruct (Run.val c 0) as [a| | |]; cbn [bind] in Hr; try discriminate Hr.
  destruct (Run.val c 1) as [b| | |]; cbn [bind] in Hr; try discriminate Hr.
  destruct (x_hash (c_prof c) a) as [ha| | |]; cbn [bind] in Hr; try discriminate Hr.
  destruct (x_hash (c_prof c) b) as [hb| | |]; cbn [bind] in Hr; try discriminate Hr.
  injection Hr as <-. cbn [In]. intros [E|[E|[E|[]]]]; discriminate E.
Qed.

(* one step: whatever the operands' history, a vector in the result of an in-scope, constrained
   case is canonical (this is where the master theorem is used) *)
Lemma step_canon c items x :
  In (c_op c) all_ops -> case_okb c = true -> spec_case c <> SFree ->
  run_case c = Ok items -> In (IV x) items -> canonb x = true.
Proof.
  intros Hin Hok Hfree Hrun Hx.
  pose proof (master c Hin Hok) as Hm. rewrite Hrun in Hm.
  destruct (N.eq_dec (c_op c) 37) as [E|E].
  - exfalso. apply Hfree. apply spec_case_37. assumption.
  - exact (prop_ok_items_good c items x E Hm Hfree Hx).
Qed.

(* C03 invariant: every reachable value of a standard word width is canonical -- no stored bit at an index
   >= len, len <= capacity -- whatever history produced it *)
Theorem reach_canon x : Reach x -> canonb x = true.
Proof.
  intros [c items y Hin Hok Hfree _ Hrun Hx]. exact (step_canon c items y Hin Hok Hfree Hrun Hx).
Qed.

(* operation 12, `new(into_inner(v))`, is the identity on an in-scope operand *)
Lemma op12_identity c : c_op c = 12 -> case_okb c = true -> exists a, c_vals c = [a] /\ run_case c = Ok [IV a].
Proof.
  intros Hop Hok. args_of Hok Hop HF Hn. destruct (view1 c HF Hn) as (a & E & _).
  exists a. split; [assumption|]. unfold run_case. rewrite Hop. cbv beta iota zeta.
  rewrite (val0_of c a [] E). reflexivity.
Qed.

(* reachable values can be used as operands again: they are in the scope of the master theorem
   as soon as their word width is one of the crate's (which `case_okb` checks) *)
Lemma reach_operand x : Reach x -> std_widthb (xw x) = true -> goodb x = true.
Proof. intros H Hw. unfold goodb. rewrite (reach_canon x H), Hw. reflexivity. Qed.

(* ------------------------------------------------------------------ the unrestricted relation *)

(* the relation as first stated, without the premise `spec_case c <> SFree` *)
Inductive Reach_unrestricted : bvx -> Prop :=
| ReachU_step c items x :
    In (c_op c) all_ops -> case_okb c = true ->
    Forall Reach_unrestricted (c_vals c) ->
    run_case c = Ok items -> In (IV x) items -> Reach_unrestricted x.

Lemma in_all_ops n : existsb (N.eqb n) all_ops = true -> In n all_ops.
Proof.
  intros H. apply existsb_exists in H. destruct H as (y & Hy & E). apply N.eqb_eq in E. subst y. assumption.
Qed.

(* counterexample: zeros(3) on the heap type, then a release-profile set(5, true): the crate (and
   the model) store the bit at index 5 >= len = 3 *)
Lemma reach_unrestricted_not_canon :
  exists x, Reach_unrestricted x /\ canonb x = false.
Proof.
  exists (XD (mkwv [32] 3)). split; [|vm_compute; reflexivity].
  apply (ReachU_step (mkcase 40 0 Release KD [5; 1] [XD (mkwv [0] 3)] []) [IV (XD (mkwv [32] 3))]).
  - apply in_all_ops. vm_compute. reflexivity.
  - vm_compute. reflexivity.
  - cbn [c_vals]. constructor; [|constructor].
    apply (ReachU_step (mkcase 1 0 Release KD [3] [] []) [IV (XD (mkwv [0] 3))]).
    + apply in_all_ops. vm_compute. reflexivity.
    + vm_compute. reflexivity.
    + constructor.
    + vm_compute. reflexivity.
    + left. reflexivity.
  - vm_compute. reflexivity.
  - left. reflexivity.
Qed.

(* ------------------------------------------------------------------ indistinguishability *)

Definition same_abs (x y : bvx) : Prop := kind_of x = kind_of y /\ abs x = abs y.

Lemma nth_error_same_abs l l' : Forall2 same_abs l l' -> forall i,
  match nth_error l i, nth_error l' i with
  | Some x, Some y => same_abs x y
  | None, None => True
  | _, _ => False
  end.
Proof.
  induction 1 as [|x y l l' Hxy _ IH]; intros [|i]; cbn [nth_error]; auto.
  apply IH.
Qed.

Lemma sval_abs c c' i : Forall2 same_abs (c_vals c) (c_vals c') -> sval c i = sval c' i.
Proof.
  intros H. pose proof (nth_error_same_abs _ _ H i) as Hi. unfold sval.
  destruct (nth_error (c_vals c) i) as [x|], (nth_error (c_vals c') i) as [y|]; try contradiction; [|reflexivity].
  destruct Hi as [-> ->]. reflexivity.
Qed.

Lemma srhs_abs c c' : c_args c = c_args c' -> Forall2 same_abs (c_vals c) (c_vals c') -> srhs c = srhs c'.
Proof.
  intros Ha H. pose proof (nth_error_same_abs _ _ H 1%nat) as Hi. unfold srhs, arg. rewrite Ha.
  destruct (nth_error (c_vals c) 1) as [x|], (nth_error (c_vals c') 1) as [y|]; try contradiction; [|reflexivity].
  destruct Hi as [_ ->]. reflexivity.
Qed.

(* two reachable values with the same type, length and bits are indistinguishable by every
   in-scope operation: the results of a case and of the same case with operand i replaced satisfy
   the same specification (spec_case depends on operands only through kind_of and abs).
   No restriction is needed: `Forall2` forces the two operand lists to have the same length, so
   `srhs` chooses the same alternative (second vector / native integer) on both sides. *)
Lemma spec_case_abs c c' :
  c_op c = c_op c' -> c_form c = c_form c' -> c_prof c = c_prof c' -> c_kind c = c_kind c' ->
  c_args c = c_args c' -> c_lists c = c_lists c' ->
  Forall2 (fun x y => kind_of x = kind_of y /\ abs x = abs y) (c_vals c) (c_vals c') ->
  spec_case c = spec_case c'.
Proof.
  intros Hop _ Hprof Hkind Hargs Hlists Hvals. change (Forall2 same_abs (c_vals c) (c_vals c')) in Hvals.
  unfold spec_case.
  rewrite (srhs_abs c c' Hargs Hvals), (sval_abs c c' 0 Hvals), (sval_abs c c' 1 Hvals).
  unfold arg, lst. rewrite Hop, Hprof, Hkind, Hargs, Hlists. reflexivity.
Qed.

(* consequently the property relation itself cannot tell the two cases apart *)
Corollary prop_case_abs c c' r :
  c_op c = c_op c' -> c_form c = c_form c' -> c_prof c = c_prof c' -> c_kind c = c_kind c' ->
  c_args c = c_args c' -> c_lists c = c_lists c' ->
  Forall2 (fun x y => kind_of x = kind_of y /\ abs x = abs y) (c_vals c) (c_vals c') ->
  prop_case c r = prop_case c' r.
Proof.
  intros Hop Hform Hprof Hkind Hargs Hlists Hvals.
  unfold prop_case, prop_hash_pair.
  rewrite (spec_case_abs c c' Hop Hform Hprof Hkind Hargs Hlists Hvals).
  change (Forall2 same_abs (c_vals c) (c_vals c')) in Hvals.
  rewrite (sval_abs c c' 0 Hvals), (sval_abs c c' 1 Hvals), Hop. reflexivity.
Qed.

(* ------------------------------------------------------------------ histories with the invariant derived *)

(* The same notion with nothing assumed about the *state* of the operands: a step only requires
   that its scalar arguments are well-formed (`args_okb`, `kind_okb`, the length bound `lens_okb`)
   and that the operands have one of the crate's word types (a fact about Rust types, not about
   data).  That the operands are canonical is *derived*, by induction over the history. *)
Inductive Hist : bvx -> Prop :=
| Hist_step c items x :
    In (c_op c) all_ops ->
    kind_okb (c_kind c) = true -> args_okb c = true -> lens_okb c = true ->
    forallb (fun v => std_widthb (xw v)) (c_vals c) = true ->
    spec_case c <> SFree ->
    Forall Hist (c_vals c) ->
    run_case c = Ok items -> In (IV x) items -> Hist x.

Lemma forallb_goodb l :
  Forall (fun v => canonb v = true) l -> forallb (fun v => std_widthb (xw v)) l = true -> forallb goodb l = true.
Proof.
  induction 1 as [|v l Hv _ IH]; cbn [forallb]; [reflexivity|].
  rewrite andb_true_iff. intros [Hw Hl]. unfold goodb at 1. rewrite Hv, Hw. cbn [andb]. apply IH. exact Hl.
Qed.

Fixpoint hist_canon x (H : Hist x) {struct H} : canonb x = true.
Proof.
  destruct H as [c items x Hin Hk Ha Hl Hw Hfree Hops Hrun Hx].
  assert (Forall (fun v => canonb v = true) (c_vals c)) as Hc.
  { revert Hops. generalize (c_vals c) as l.
    refine (fix go l (Hops : Forall Hist l) {struct Hops} : Forall (fun v => canonb v = true) l :=
              match Hops with
              | Forall_nil _ => Forall_nil _
              | Forall_cons v Hv Hr => Forall_cons v (hist_canon v Hv) (go _ Hr)
              end). }
  assert (case_okb c = true) as Hok.
  { unfold case_okb. rewrite (forallb_goodb _ Hc Hw), Hk, Ha, Hl. reflexivity. }
  exact (step_canon c items x Hin Hok Hfree Hrun Hx).
Qed.

(* every step of such a history is therefore inside the master theorem *)
Lemma hist_step_in_scope c :
  kind_okb (c_kind c) = true -> args_okb c = true -> lens_okb c = true ->
  forallb (fun v => std_widthb (xw v)) (c_vals c) = true ->
  Forall Hist (c_vals c) -> case_okb c = true.
Proof.
  intros Hk Ha Hl Hw Hops. unfold case_okb.
  rewrite (forallb_goodb (c_vals c)); [rewrite Hk, Ha, Hl; reflexivity| |exact Hw].
  apply Forall_forall. intros v Hv. rewrite Forall_forall in Hops. apply hist_canon. apply Hops. exact Hv.
Qed.

(* ------------------------------------------------------------------ observers cannot tell histories apart *)

Lemma res_ok_SN_inv n r : res_ok (SOk [SN n]) r = true -> r = Ok [IN n].
Proof.
  destruct r as [items| | |]; cbn [res_ok]; try discriminate.
  destruct items as [|i [|j r]]; cbn [items_ok]; try discriminate.
  - destruct i as [x|m|l]; cbn [item_ok]; try discriminate.
    rewrite andb_true_r. intros H. apply N.eqb_eq in H. subst m. reflexivity.
  - rewrite andb_false_r. discriminate.
Qed.

(* Two cases that differ only in operands with equal type, length and bits (whatever storage,
   spare capacity or history these have): each one's result satisfies the other's specification ... *)
Theorem indistinguishable c c' :
  In (c_op c) all_ops ->
  c_op c = c_op c' -> c_form c = c_form c' -> c_prof c = c_prof c' -> c_kind c = c_kind c' ->
  c_args c = c_args c' -> c_lists c = c_lists c' ->
  Forall2 (fun x y => kind_of x = kind_of y /\ abs x = abs y) (c_vals c) (c_vals c') ->
  case_okb c = true -> case_okb c' = true ->
  prop_case c (run_case c') = true /\ prop_case c' (run_case c) = true.
Proof.
  intros Hin Hop Hform Hprof Hkind Hargs Hlists Hvals Hok Hok'.
  assert (In (c_op c') all_ops) as Hin' by (rewrite <- Hop; exact Hin).
  split.
  - rewrite (prop_case_abs c c' (run_case c') Hop Hform Hprof Hkind Hargs Hlists Hvals). apply master; assumption.
  - rewrite <- (prop_case_abs c c' (run_case c) Hop Hform Hprof Hkind Hargs Hlists Hvals). apply master; assumption.
Qed.

(* ... and an observer whose specified answer is a number gives literally the same answer on both *)
Corollary observers_agree c c' n :
  In (c_op c) all_ops -> c_op c <> 37 ->
  c_op c = c_op c' -> c_form c = c_form c' -> c_prof c = c_prof c' -> c_kind c = c_kind c' ->
  c_args c = c_args c' -> c_lists c = c_lists c' ->
  Forall2 (fun x y => kind_of x = kind_of y /\ abs x = abs y) (c_vals c) (c_vals c') ->
  case_okb c = true -> case_okb c' = true ->
  spec_case c = SOk [SN n] -> run_case c = Ok [IN n] /\ run_case c' = Ok [IN n].
Proof.
  intros Hin H37 Hop Hform Hprof Hkind Hargs Hlists Hvals Hok Hok' Hs.
  destruct (indistinguishable c c' Hin Hop Hform Hprof Hkind Hargs Hlists Hvals Hok Hok') as [H1 _].
  pose proof (master c Hin Hok) as H0.
  rewrite prop_case_res in H0, H1 by assumption. rewrite Hs in H0, H1.
  split; apply res_ok_SN_inv; assumption.
Qed.

Theorem hist_invariant x : Hist x -> canonb x = true.
Proof. exact (hist_canon x). Qed.

(* non-vacuity: Bvd::zeros(3), push(One), then `|= 0xF0u8` is such a history *)
Ltac hist_step c items Hops :=
  apply (Hist_step c items);
  [ apply in_all_ops; vm_compute; reflexivity
  | vm_compute; reflexivity | vm_compute; reflexivity | vm_compute; reflexivity | vm_compute; reflexivity
  | vm_compute; discriminate
  | Hops
  | vm_compute; reflexivity
  | left; reflexivity ].

Example hist_example : exists x, Hist x /\ xlen x = 4.
Proof.
  pose (x1 := XD (mkwv [0] 3)).
  assert (Hist x1) as H1.
  { hist_step (mkcase 1 0 Release KD [3] [] []) [IV x1] ltac:(constructor). }
  pose (x2 := XD (mkwv [8] 4)).
  assert (Hist x2) as H2.
  { hist_step (mkcase 41 0 Release KD [1] [x1] []) [IV x2] ltac:(constructor; [exact H1|constructor]). }
  exists x2. split; [|reflexivity].
  hist_step (mkcase 64 4 Release KD [8; 240] [x2] []) [IV x2] ltac:(constructor; [exact H2|constructor]).
Qed.
