(* Proofs/SpecFacts.v: laws of the specification layer (no implementation involved) *)
From BVA Require Import Base.Prelude Base.Result Base.Words Base.Limbs.
From BVA Require Import Model.Core Model.Auto Spec.Spec Proofs.Common.
From Coq Require Import ZifyBool ZifyN ZifyNat.

(* ------------------------------------------------------------------ helpers: bits of a bv *)

Lemma wf_high a i : bv_wf a -> blen a <= i -> N.testbit (bval a) i = false.
Proof. intros H Hi. apply (testbit_high _ (blen a)); assumption. Qed.

Lemma wf_of_bits n x : (forall i, n <= i -> N.testbit x i = false) -> bv_wf (mkbv n x).
Proof. intros H. unfold bv_wf. cbn [blen bval]. apply lt_pow2_of_bits. assumption. Qed.

(* two well-formed vectors of the same length with the same bits below the length are equal *)
Lemma bv_ext a b :
  bv_wf a -> bv_wf b -> blen a = blen b ->
  (forall i, i < blen a -> N.testbit (bval a) i = N.testbit (bval b) i) -> a = b.
Proof.
  destruct a as [n x], b as [m y]. unfold bv_wf. cbn [blen bval]. intros Hx Hy <- H.
  f_equal. apply N.bits_inj. intro i.
  destruct (N.lt_ge_cases i n) as [Hi|Hi]; [apply H; assumption|].
  rewrite (testbit_high x n i), (testbit_high y n i) by assumption. reflexivity.
Qed.

(* --- C04: bitwise operators act bit by bit; b counts as zero beyond its length, ignored beyond a's *)

Lemma bit_s_and a b i : bv_wf a -> bv_wf b -> bit (s_and a b) i = bit a i && bit b i.
Proof.
  intros Ha Hb. unfold bit, s_and. cbn [blen bval].
  rewrite N.land_spec, trunc_testbit.
  destruct (N.ltb_spec i (blen a)) as [H1|H1]; cbn [andb]; [|reflexivity].
  destruct (N.ltb_spec i (blen b)) as [H2|H2]; cbn [andb]; [reflexivity|].
  rewrite (wf_high b i) by assumption. reflexivity.
Qed.

Lemma bit_s_or a b i : bv_wf a -> bv_wf b -> bit (s_or a b) i = bit a i || ((i <? blen a) && bit b i).
Proof.
  intros Ha Hb. unfold bit, s_or. cbn [blen bval].
  rewrite N.lor_spec, trunc_testbit.
  destruct (N.ltb_spec i (blen a)) as [H1|H1]; cbn [andb]; [|reflexivity].
  destruct (N.ltb_spec i (blen b)) as [H2|H2]; cbn [andb]; [reflexivity|].
  rewrite (wf_high b i) by assumption. reflexivity.
Qed.

Lemma bit_s_xor a b i : bv_wf a -> bv_wf b -> bit (s_xor a b) i = xorb (bit a i) ((i <? blen a) && bit b i).
Proof.
  intros Ha Hb. unfold bit, s_xor. cbn [blen bval].
  rewrite N.lxor_spec, trunc_testbit.
  destruct (N.ltb_spec i (blen a)) as [H1|H1]; cbn [andb]; [|reflexivity].
  destruct (N.ltb_spec i (blen b)) as [H2|H2]; cbn [andb]; [reflexivity|].
  rewrite (wf_high b i) by assumption. reflexivity.
Qed.

Lemma bit_s_not a i : bv_wf a -> bit (s_not a) i = (i <? blen a) && negb (bit a i).
Proof.
  intros Ha. unfold bit, s_not. cbn [blen bval].
  rewrite N.lxor_spec, ones_testbit.
  destruct (N.ltb_spec i (blen a)) as [H1|H1]; cbn [andb]; [|reflexivity].
  apply xorb_true_r.
Qed.

Lemma wf_s_and a b : bv_wf a -> bv_wf (s_and a b).
Proof.
  intros Ha. apply wf_of_bits. intros i Hi.
  rewrite N.land_spec, (wf_high a i) by assumption. reflexivity.
Qed.

Lemma wf_s_or a b : bv_wf a -> bv_wf (s_or a b).
Proof.
  intros Ha. apply wf_of_bits. intros i Hi.
  rewrite N.lor_spec, trunc_testbit, (wf_high a i) by assumption.
  assert (i <? blen a = false) as -> by (apply N.ltb_ge; assumption). reflexivity.
Qed.

Lemma wf_s_xor a b : bv_wf a -> bv_wf (s_xor a b).
Proof.
  intros Ha. apply wf_of_bits. intros i Hi.
  rewrite N.lxor_spec, trunc_testbit, (wf_high a i) by assumption.
  assert (i <? blen a = false) as -> by (apply N.ltb_ge; assumption). reflexivity.
Qed.

(* `wf_s_not a : bv_wf (s_not a)` is FALSE as stated (no hypothesis on a): for the ill-formed
   a = mkbv 0 1 one gets s_not a = mkbv 0 (N.lxor 1 (N.ones 0)) = mkbv 0 1, and 1 < 2 ^ 0 fails.
   The statement holds for every well-formed a, which is what is proved here. *)
Lemma wf_s_not_fixed a : bv_wf a -> bv_wf (s_not a).
Proof.
  intros Ha. apply wf_of_bits. intros i Hi.
  rewrite N.lxor_spec, ones_testbit, (wf_high a i) by assumption.
  assert (i <? blen a = false) as -> by (apply N.ltb_ge; assumption). reflexivity.
Qed.

(* same statement under the name asked for by PROOF_GUIDE.md *)
Definition wf_s_not_partial := wf_s_not_fixed.

Lemma wf_s_not_counterexample : ~ bv_wf (s_not (mkbv 0 1)).
Proof. unfold bv_wf. vm_compute. discriminate. Qed.

(* --- C05: shifts *)

Lemma bit_s_shl a k i : bv_wf a -> bit (s_shl a k) i = (k <=? i) && (i <? blen a) && bit a (i - k).
Proof.
  intros Ha. unfold bit, s_shl. cbn [blen bval].
  destruct (N.ltb_spec i (blen a)) as [H1|H1]; cbn [andb]; [|rewrite andb_false_r; reflexivity].
  rewrite andb_true_r.
  destruct (N.ltb_spec k (blen a)) as [H2|H2].
  - rewrite trunc_testbit, shiftl_testbit.
    assert (i <? blen a = true) as -> by (apply N.ltb_lt; assumption).
    assert (i - k <? blen a = true) as -> by (apply N.ltb_lt; lia).
    cbn [andb]. reflexivity.
  - rewrite N.bits_0. assert (k <=? i = false) as -> by (apply N.leb_gt; lia). reflexivity.
Qed.

Lemma bit_s_shr a k i : bv_wf a -> bit (s_shr a k) i = bit a (i + k).
Proof.
  intros Ha. unfold bit, s_shr. cbn [blen bval].
  destruct (N.ltb_spec (i + k) (blen a)) as [H1|H1]; cbn [andb].
  - assert (i <? blen a = true) as -> by (apply N.ltb_lt; lia).
    assert (k <? blen a = true) as -> by (apply N.ltb_lt; lia).
    cbn [andb]. apply shiftr_testbit.
  - destruct (N.ltb_spec k (blen a)) as [H2|H2].
    + rewrite shiftr_testbit, (wf_high a (i + k)) by assumption. apply andb_false_r.
    + rewrite N.bits_0. apply andb_false_r.
Qed.

Lemma s_shl_all_out a k : blen a <= k -> bval (s_shl a k) = 0.
Proof.
  intros H. unfold s_shl. cbn [bval].
  assert (k <? blen a = false) as -> by (apply N.ltb_ge; assumption). reflexivity.
Qed.

Lemma s_shr_all_out a k : bv_wf a -> blen a <= k -> bval (s_shr a k) = 0.
Proof.
  intros _ H. unfold s_shr. cbn [bval].
  assert (k <? blen a = false) as -> by (apply N.ltb_ge; assumption). reflexivity.
Qed.

(* ------------------------------------------------------------------ helpers: lists of bits *)

Lemma nth_firstn_lt {A} (l : list A) d n i : (i < n)%nat -> nth i (firstn n l) d = nth i l d.
Proof.
  revert n i. induction l as [|x r IH]; intros [|n] [|i] H; cbn; try reflexivity; try lia.
  apply IH. lia.
Qed.

Lemma nth_skipn_add {A} (l : list A) d n i : nth i (skipn n l) d = nth (n + i) l d.
Proof.
  revert l. induction n as [|n IH]; intros [|x r]; cbn; try reflexivity.
  - destruct i; reflexivity.
  - apply IH.
Qed.

Lemma nth_repeat_lt {A} (x d : A) n i : (i < n)%nat -> nth i (repeat x n) d = x.
Proof.
  revert i. induction n as [|n IH]; intros [|i] H; cbn; try reflexivity; try lia.
  apply IH. lia.
Qed.

Lemma getw_app d1 d2 i : getw (d1 ++ d2) i = if i <? lenw d1 then getw d1 i else getw d2 (i - lenw d1).
Proof.
  unfold getw, lenw. destruct (N.ltb_spec i (N.of_nat (length d1))) as [H|H].
  - apply app_nth1. lia.
  - rewrite app_nth2 by lia. f_equal. lia.
Qed.

Lemma getw_firstn n d i : i < n -> getw (firstn (N.to_nat n) d) i = getw d i.
Proof. intros H. unfold getw. apply nth_firstn_lt. lia. Qed.

Lemma getw_skipn n d i : getw (skipn (N.to_nat n) d) i = getw d (n + i).
Proof. unfold getw. rewrite nth_skipn_add. f_equal. lia. Qed.

Lemma getw_repeat b n i : i < n -> getw (repeat b (N.to_nat n)) i = b.
Proof. intros H. unfold getw. apply nth_repeat_lt. lia. Qed.

Lemma lenw_app' (d1 d2 : list N) : lenw (d1 ++ d2) = lenw d1 + lenw d2.
Proof. unfold lenw. rewrite app_length. lia. Qed.

Lemma lenw_firstn n (d : list N) : n <= lenw d -> lenw (firstn (N.to_nat n) d) = n.
Proof. unfold lenw. intros H. rewrite firstn_length. lia. Qed.

Lemma lenw_skipn n (d : list N) : lenw (skipn (N.to_nat n) d) = lenw d - n.
Proof. unfold lenw. rewrite skipn_length. lia. Qed.

Lemma lenw_repeat (b : N) n : lenw (repeat b (N.to_nat n)) = n.
Proof. unfold lenw. rewrite repeat_length. lia. Qed.

Lemma bits_of_length a : lenw (bits_of a) = blen a.
Proof. unfold bits_of, lenw. rewrite map_length, nrange_length. lia. Qed.

Lemma getw_bits_of a i : i < blen a -> getw (bits_of a) i = N.b2n (N.testbit (bval a) i).
Proof.
  intros H. unfold bits_of, getw.
  set (g := fun j => N.b2n (N.testbit (bval a) j)).
  rewrite (nth_indep _ 0 (g 0)) by (rewrite map_length, nrange_length; lia).
  rewrite map_nth. unfold g. fold (getw (nrange (blen a)) i). rewrite getw_nrange by assumption. reflexivity.
Qed.

(* the list of bits is determined by length and bits below the length *)
Lemma bits_of_ext a l :
  lenw l = blen a -> (forall i, i < blen a -> getw l i = N.b2n (N.testbit (bval a) i)) -> bits_of a = l.
Proof.
  intros Hl H. apply list_ext_getw; rewrite bits_of_length; [symmetry; assumption|].
  intros i Hi. rewrite getw_bits_of by assumption. symmetry. apply H. assumption.
Qed.

Lemma b2n_inj x y : N.b2n x = N.b2n y -> x = y.
Proof. destruct x, y; cbn; intros H; try reflexivity; discriminate. Qed.

(* --- C06: rotations *)

Lemma wf_s_rotl a k : bv_wf (s_rotl a k).
Proof. unfold bv_wf, s_rotl. cbn [blen bval]. apply trunc_lt. Qed.

Lemma wf_s_rotr a k : bv_wf (s_rotr a k).
Proof. unfold bv_wf, s_rotr. cbn [blen bval]. apply trunc_lt. Qed.

Lemma rotl_testbit a k i : bv_wf a -> k <= blen a -> i < blen a ->
  N.testbit (bval (s_rotl a k)) i =
  if k <=? i then N.testbit (bval a) (i - k) else N.testbit (bval a) (i + blen a - k).
Proof.
  intros Ha Hk Hi. unfold s_rotl. cbn [bval blen].
  rewrite trunc_testbit, N.lor_spec, shiftl_testbit, shiftr_testbit.
  assert (i <? blen a = true) as -> by (apply N.ltb_lt; assumption). cbn [andb].
  destruct (N.leb_spec k i) as [H|H]; cbn [andb orb].
  - rewrite (wf_high a (i + (blen a - k))) by (try assumption; lia). apply orb_false_r.
  - f_equal. lia.
Qed.

Lemma rotr_testbit a k i : bv_wf a -> k <= blen a -> i < blen a ->
  N.testbit (bval (s_rotr a k)) i =
  if i + k <? blen a then N.testbit (bval a) (i + k) else N.testbit (bval a) (i + k - blen a).
Proof.
  intros Ha Hk Hi. unfold s_rotr. cbn [bval blen].
  rewrite trunc_testbit, N.lor_spec, shiftl_testbit, shiftr_testbit.
  assert (i <? blen a = true) as -> by (apply N.ltb_lt; assumption). cbn [andb].
  destruct (N.ltb_spec (i + k) (blen a)) as [H|H].
  - assert (blen a - k <=? i = false) as -> by (apply N.leb_gt; lia). cbn [andb]. apply orb_false_r.
  - rewrite (wf_high a (i + k)) by assumption.
    assert (blen a - k <=? i = true) as -> by (apply N.leb_le; lia). cbn [andb orb]. f_equal. lia.
Qed.

Lemma mod_add_split i k n : i < n -> k <= n -> (i + k) mod n = if i + k <? n then i + k else i + k - n.
Proof.
  intros Hi Hk. destruct (N.ltb_spec (i + k) n) as [H|H].
  - apply N.mod_small. assumption.
  - symmetry. apply (N.mod_unique _ _ 1); lia.
Qed.

Lemma bit_s_rotl a k i : bv_wf a -> 0 < blen a -> k <= blen a -> i < blen a ->
  bit (s_rotl a k) ((i + k) mod blen a) = bit a i.
Proof.
  intros Ha Hn Hk Hi. rewrite mod_add_split by assumption. unfold bit.
  change (blen (s_rotl a k)) with (blen a).
  assert (i <? blen a = true) as -> by (apply N.ltb_lt; assumption).
  destruct (N.ltb_spec (i + k) (blen a)) as [H|H].
  - assert (i + k <? blen a = true) as -> by (apply N.ltb_lt; assumption).
    rewrite rotl_testbit by assumption.
    assert (k <=? i + k = true) as -> by (apply N.leb_le; lia). cbn [andb]. f_equal. lia.
  - assert (i + k - blen a <? blen a = true) as -> by (apply N.ltb_lt; lia).
    rewrite rotl_testbit by (try assumption; lia).
    assert (k <=? i + k - blen a = false) as -> by (apply N.leb_gt; lia). cbn [andb]. f_equal. lia.
Qed.

Lemma bit_s_rotr a k i : bv_wf a -> 0 < blen a -> k <= blen a -> i < blen a ->
  bit (s_rotr a k) i = bit a ((i + k) mod blen a).
Proof.
  intros Ha Hn Hk Hi. rewrite mod_add_split by assumption. unfold bit.
  change (blen (s_rotr a k)) with (blen a).
  assert (i <? blen a = true) as -> by (apply N.ltb_lt; assumption).
  rewrite rotr_testbit by assumption.
  destruct (N.ltb_spec (i + k) (blen a)) as [H|H].
  - assert (i + k <? blen a = true) as -> by (apply N.ltb_lt; assumption). reflexivity.
  - assert (i + k - blen a <? blen a = true) as -> by (apply N.ltb_lt; lia). reflexivity.
Qed.

Lemma s_rotr_rotl a k : bv_wf a -> k <= blen a -> s_rotr (s_rotl a k) k = a.
Proof.
  intros Ha Hk. apply bv_ext; [apply wf_s_rotr|assumption|reflexivity|].
  change (blen (s_rotr (s_rotl a k) k)) with (blen a). intros i Hi.
  rewrite rotr_testbit by (try apply wf_s_rotl; assumption).
  change (blen (s_rotl a k)) with (blen a).
  destruct (N.ltb_spec (i + k) (blen a)) as [H|H].
  - rewrite rotl_testbit by assumption.
    assert (k <=? i + k = true) as -> by (apply N.leb_le; lia). f_equal. lia.
  - rewrite rotl_testbit by (try assumption; lia).
    assert (k <=? i + k - blen a = false) as -> by (apply N.leb_gt; lia). f_equal. lia.
Qed.

Lemma s_rotl_rotr a k : bv_wf a -> k <= blen a -> s_rotl (s_rotr a k) k = a.
Proof.
  intros Ha Hk. apply bv_ext; [apply wf_s_rotl|assumption|reflexivity|].
  change (blen (s_rotl (s_rotr a k) k)) with (blen a). intros i Hi.
  rewrite rotl_testbit by (try apply wf_s_rotr; assumption).
  change (blen (s_rotr a k)) with (blen a).
  destruct (N.leb_spec k i) as [H|H].
  - rewrite rotr_testbit by (try assumption; lia).
    assert (i - k + k <? blen a = true) as -> by (apply N.ltb_lt; lia). f_equal. lia.
  - rewrite rotr_testbit by (try assumption; lia).
    assert (i + blen a - k + k <? blen a = false) as -> by (apply N.ltb_ge; lia). f_equal. lia.
Qed.

Lemma s_rotl_as_rotr a k : bv_wf a -> k <= blen a -> s_rotl a k = s_rotr a (blen a - k).
Proof.
  intros _ Hk. unfold s_rotl, s_rotr. cbn zeta.
  replace (blen a - (blen a - k)) with k by lia. rewrite N.lor_comm. reflexivity.
Qed.

Definition popcount (a : bv) : N := fold_left N.add (bits_of a) 0.

Lemma fold_add_acc l acc : fold_left N.add l acc = acc + fold_left N.add l 0.
Proof.
  revert acc. induction l as [|x r IH]; intros acc; cbn [fold_left].
  - lia.
  - rewrite (IH (acc + x)), (IH (0 + x)). lia.
Qed.

Lemma popsum_app l1 l2 :
  fold_left N.add (l1 ++ l2) 0 = fold_left N.add l1 0 + fold_left N.add l2 0.
Proof. rewrite fold_left_app, fold_add_acc. reflexivity. Qed.

(* rotating left by k moves the top k bits to the bottom *)
Lemma bits_of_rotl a k : bv_wf a -> k <= blen a ->
  bits_of (s_rotl a k) =
  skipn (N.to_nat (blen a - k)) (bits_of a) ++ firstn (N.to_nat (blen a - k)) (bits_of a).
Proof.
  intros Ha Hk. apply bits_of_ext; change (blen (s_rotl a k)) with (blen a).
  - rewrite lenw_app', lenw_skipn, lenw_firstn, bits_of_length by (rewrite bits_of_length; lia). lia.
  - intros i Hi. rewrite rotl_testbit by assumption.
    rewrite getw_app, lenw_skipn, bits_of_length.
    replace (blen a - (blen a - k)) with k by lia.
    destruct (N.ltb_spec i k) as [H1|H1]; destruct (N.leb_spec k i) as [H2|H2]; try lia.
    + rewrite getw_skipn, getw_bits_of by lia. do 2 f_equal. lia.
    + rewrite getw_firstn, getw_bits_of by lia. reflexivity.
Qed.

Lemma popcount_rotl a k : bv_wf a -> k <= blen a -> popcount (s_rotl a k) = popcount a.
Proof.
  intros Ha Hk. unfold popcount. rewrite bits_of_rotl, popsum_app by assumption.
  pose proof (popsum_app (firstn (N.to_nat (blen a - k)) (bits_of a))
                         (skipn (N.to_nat (blen a - k)) (bits_of a))) as E.
  rewrite firstn_skipn in E. rewrite E. lia.
Qed.

Lemma popcount_rotr a k : bv_wf a -> k <= blen a -> popcount (s_rotr a k) = popcount a.
Proof.
  intros Ha Hk. pose proof (s_rotl_as_rotr a (blen a - k) Ha) as E.
  replace (blen a - (blen a - k)) with k in E by lia.
  rewrite <- E by lia. apply popcount_rotl; [assumption|lia].
Qed.

Lemma s_rot_empty a k : blen a = 0 -> bv_wf a -> s_rotl a k = a /\ s_rotr a k = a.
Proof.
  destruct a as [n x]. unfold bv_wf, s_rotl, s_rotr. cbn [blen bval]. intros -> Hx.
  rewrite N.pow_0_r in Hx. assert (x = 0) as -> by lia.
  rewrite !trunc_mod, N.pow_0_r, !N.mod_1_r. split; reflexivity.
Qed.

(* --- C07 / C08: edits and slices on the list of bits *)

Lemma bits_of_inj a b : bv_wf a -> bv_wf b -> blen a = blen b -> bits_of a = bits_of b -> a = b.
Proof.
  intros Ha Hb Hl E. apply bv_ext; try assumption. intros i Hi. apply b2n_inj.
  rewrite <- !getw_bits_of by (try assumption; lia). rewrite E. reflexivity.
Qed.

Lemma concat_bit a x i : bv_wf a ->
  N.testbit (bval (s_concat a x)) i =
  if i <? blen a then N.testbit (bval a) i else N.testbit (bval x) (i - blen a).
Proof.
  intros Ha. unfold s_concat. cbn [bval]. rewrite N.shiftl_mul_pow2, N.mul_comm.
  apply concat_testbit. assumption.
Qed.

Lemma bits_of_concat a x : bv_wf a -> bits_of (s_concat a x) = bits_of a ++ bits_of x.
Proof.
  intros Ha. apply bits_of_ext; change (blen (s_concat a x)) with (blen a + blen x).
  - rewrite lenw_app', !bits_of_length. reflexivity.
  - intros i Hi. rewrite concat_bit, getw_app, bits_of_length by assumption.
    destruct (N.ltb_spec i (blen a)) as [H|H]; rewrite getw_bits_of by lia; reflexivity.
Qed.

Lemma bits_of_push a b : bv_wf a -> b <= 1 -> bits_of (s_push a b) = bits_of a ++ [b].
Proof.
  intros Ha Hb. unfold s_push. rewrite bits_of_concat by assumption. f_equal.
  assert (b = 0 \/ b = 1) as [-> | ->] by lia; reflexivity.
Qed.

Lemma slice_bit a s e i :
  N.testbit (bval (s_slice a s e)) i = (i <? e - s) && N.testbit (bval a) (i + s).
Proof. unfold s_slice. cbn [bval]. rewrite trunc_testbit, shiftr_testbit. reflexivity. Qed.

Lemma bits_of_slice a s e : s <= e -> e <= blen a ->
  bits_of (s_slice a s e) = firstn (N.to_nat (e - s)) (skipn (N.to_nat s) (bits_of a)).
Proof.
  intros Hs He. apply bits_of_ext; change (blen (s_slice a s e)) with (e - s).
  - rewrite lenw_firstn; [reflexivity|]. rewrite lenw_skipn, bits_of_length. lia.
  - intros i Hi. rewrite slice_bit.
    assert (i <? e - s = true) as -> by (apply N.ltb_lt; assumption). cbn [andb].
    rewrite getw_firstn, getw_skipn, getw_bits_of by lia. do 2 f_equal. lia.
Qed.

Lemma bits_of_fill n b : b <= 1 -> bits_of (s_fill n b) = repeat b (N.to_nat n).
Proof.
  intros Hb. unfold s_fill. destruct (N.eqb_spec b 0) as [->|Hz].
  - apply bits_of_ext; cbn [s_zeros blen bval]; [apply lenw_repeat|].
    intros i Hi. rewrite getw_repeat, N.bits_0 by assumption. reflexivity.
  - assert (b = 1) as -> by lia.
    apply bits_of_ext; cbn [s_ones blen bval]; [apply lenw_repeat|].
    intros i Hi. rewrite getw_repeat, ones_testbit by assumption.
    assert (i <? n = true) as -> by (apply N.ltb_lt; assumption). reflexivity.
Qed.

Lemma bits_of_resize_grow a n b : bv_wf a -> b <= 1 -> blen a <= n ->
  bits_of (s_resize a n b) = bits_of a ++ repeat b (N.to_nat (n - blen a)).
Proof.
  intros Ha Hb Hn. unfold s_resize.
  assert (n <? blen a = false) as -> by (apply N.ltb_ge; assumption).
  rewrite bits_of_concat, bits_of_fill by assumption. reflexivity.
Qed.

Lemma bval_fill_0 b : s_fill 0 b = mkbv 0 0.
Proof. unfold s_fill. destruct (b =? 0); reflexivity. Qed.

Lemma bits_of_resize_shrink a n b : n <= blen a -> bits_of (s_resize a n b) = firstn (N.to_nat n) (bits_of a).
Proof.
  intros Hn. unfold s_resize. destruct (N.ltb_spec n (blen a)) as [H|H].
  - rewrite bits_of_slice by lia. rewrite N.sub_0_r. reflexivity.
  - assert (n = blen a) as -> by lia. rewrite N.sub_diag, bval_fill_0.
    unfold s_concat. cbn [blen bval]. rewrite N.shiftl_0_l, !N.add_0_r.
    rewrite firstn_all2.
    + destruct a; reflexivity.
    + pose proof (bits_of_length a) as E. unfold lenw in E. lia.
Qed.

Lemma bits_of_append a x : bv_wf a -> bits_of (s_append a x) = bits_of a ++ bits_of x.
Proof. apply bits_of_concat. Qed.

Lemma bits_of_prepend a x : bv_wf x -> bits_of (s_prepend a x) = bits_of x ++ bits_of a.
Proof. apply bits_of_concat. Qed.

Lemma wf_s_concat a x : bv_wf a -> bv_wf x -> bv_wf (s_concat a x).
Proof.
  unfold bv_wf, s_concat. cbn [blen bval]. intros Ha Hx.
  rewrite N.shiftl_mul_pow2, N.mul_comm. apply concat_lt; assumption.
Qed.

Lemma wf_s_slice a s e : bv_wf (s_slice a s e).
Proof. unfold bv_wf, s_slice. cbn [blen bval]. apply trunc_lt. Qed.

Lemma bits_of_insert a i x : bv_wf a -> bv_wf x -> i <= blen a ->
  bits_of (s_insert a i x) = firstn (N.to_nat i) (bits_of a) ++ bits_of x ++ skipn (N.to_nat i) (bits_of a).
Proof.
  intros Ha Hx Hi. unfold s_insert.
  rewrite bits_of_concat by (apply wf_s_concat; [apply wf_s_slice|assumption]).
  rewrite bits_of_concat by apply wf_s_slice.
  rewrite !bits_of_slice by lia. rewrite N.sub_0_r, <- app_assoc.
  change (skipn (N.to_nat 0) (bits_of a)) with (bits_of a).
  do 2 f_equal. apply firstn_all2.
  pose proof (lenw_skipn i (bits_of a)) as E. rewrite bits_of_length in E. unfold lenw in E. lia.
Qed.

Lemma val_of_bits_testbit l i :
  Forall (fun b => b <= 1) l -> N.b2n (N.testbit (val_of_bits l) i) = getw l i.
Proof.
  intros H. revert i. induction H as [|b r Hb Hr IH]; intros i.
  - cbn [val_of_bits]. rewrite N.bits_0, getw_nil. reflexivity.
  - cbn [val_of_bits].
    set (c := if b =? 0 then 0 else 1).
    assert (c = b) as Ec by (unfold c; destruct (N.eqb_spec b 0); lia).
    replace (c + 2 * val_of_bits r) with (c + 2 ^ 1 * val_of_bits r)
      by (rewrite N.pow_1_r; reflexivity).
    rewrite concat_testbit by (rewrite N.pow_1_r; lia).
    destruct (N.ltb_spec i 1) as [Hi|Hi].
    + assert (i = 0) as -> by lia. rewrite getw_cons_0, Ec.
      assert (b = 0 \/ b = 1) as [-> | ->] by lia; reflexivity.
    + rewrite getw_cons_S by lia. apply IH.
Qed.

Lemma bits_of_bv_of_bits l : Forall (fun b => b <= 1) l -> bits_of (bv_of_bits l) = l.
Proof.
  intros H. apply bits_of_ext; cbn [bv_of_bits blen bval]; [reflexivity|].
  intros i _. symmetry. apply val_of_bits_testbit. assumption.
Qed.

Lemma wf_bv_of_bits l : bv_wf (bv_of_bits l).
Proof.
  unfold bv_wf, bv_of_bits. cbn [blen bval]. induction l as [|b r IH].
  - cbn [val_of_bits]. rewrite lenw_nil. apply pow2_pos.
  - cbn [val_of_bits]. rewrite lenw_cons, pow2_add, N.pow_1_r.
    destruct (b =? 0); lia.
Qed.

Lemma split_concat a i : bv_wf a -> i <= blen a -> s_concat (s_slice a 0 i) (s_slice a i (blen a)) = a.
Proof.
  intros Ha Hi. apply bv_ext.
  - apply wf_s_concat; apply wf_s_slice.
  - assumption.
  - cbn [s_concat s_slice blen]. lia.
  - intros j Hj. cbn [s_concat s_slice blen] in Hj.
    rewrite concat_bit by apply wf_s_slice. rewrite !slice_bit.
    change (blen (s_slice a 0 i)) with (i - 0). rewrite N.sub_0_r.
    destruct (N.ltb_spec j i) as [H|H].
    + cbn [andb]. f_equal. lia.
    + assert (j - i <? blen a - i = true) as -> by (apply N.ltb_lt; lia).
      cbn [andb]. f_equal. lia.
Qed.

Lemma bit_s_set a i b j : bv_wf a -> i < blen a -> b <= 1 ->
  bit (s_set a i b) j = if j =? i then (b =? 1) else bit a j.
Proof.
  intros Ha Hi Hb. unfold bit, s_set. cbn [blen bval]. rewrite pow2_eq.
  assert (b = 0 \/ b = 1) as [-> | ->] by lia.
  - change (0 =? 0) with true. change (0 =? 1) with false. cbn iota.
    rewrite N.ldiff_spec, N.pow2_bits_eqb.
    destruct (N.eqb_spec j i) as [->|Hne].
    + rewrite N.eqb_refl. cbn [negb]. rewrite !andb_false_r. reflexivity.
    + assert (i =? j = false) as -> by (apply N.eqb_neq; lia). cbn [negb].
      rewrite andb_true_r. reflexivity.
  - change (1 =? 0) with false. change (1 =? 1) with true. cbn iota.
    rewrite N.lor_spec, N.pow2_bits_eqb.
    destruct (N.eqb_spec j i) as [->|Hne].
    + rewrite N.eqb_refl, orb_true_r.
      assert (i <? blen a = true) as -> by (apply N.ltb_lt; assumption). reflexivity.
    + assert (i =? j = false) as -> by (apply N.eqb_neq; lia).
      rewrite orb_false_r. reflexivity.
Qed.

Lemma s_top_le1 a : s_top a <= 1.
Proof.
  unfold s_top. destruct (blen a =? 0); [lia|].
  destruct (N.testbit (bval a) (blen a - 1)); cbn [N.b2n]; lia.
Qed.

Lemma s_sign_extend_fill a n : bv_wf a -> blen a < n ->
  bits_of (s_sign_extend a n) = bits_of a ++ repeat (s_top a) (N.to_nat (n - blen a)).
Proof.
  intros Ha Hn. unfold s_sign_extend.
  assert (blen a <? n = true) as -> by (apply N.ltb_lt; assumption).
  apply bits_of_resize_grow; [assumption|apply s_top_le1|lia].
Qed.

(* --- C01 / C02: arithmetic *)

Lemma s_add_val a b : bval (s_add a b) = (bval a + bval b) mod 2 ^ blen a.
Proof. unfold s_add. cbn [bval blen]. apply trunc_mod. Qed.

Lemma s_sub_val a b : bv_wf a -> (bval (s_sub a b) + bval b) mod 2 ^ blen a = bval a.
Proof.
  unfold bv_wf, s_sub. cbn [blen bval]. intros Ha. rewrite pow2_eq, !trunc_mod.
  rewrite N.add_mod_idemp_l by apply pow2_ne0.
  pose proof (div_mod_eq (bval b) (2 ^ blen a)) as E.
  pose proof (mod_lt' (bval b) (2 ^ blen a) (pow2_pos _)) as Hr.
  pose proof (pow2_ne0 (blen a)) as Hp.
  revert E Hr Hp Ha.
  generalize (2 ^ blen a) as P. intros P.
  generalize (bval b / P) as q. generalize (bval b mod P) as r. intros r q E Hr Hp Ha.
  replace (bval a + P - r + bval b) with (bval a + (1 + q) * P) by lia.
  rewrite N.mod_add by assumption. apply N.mod_small. assumption.
Qed.

Lemma s_mul_val a b : bval (s_mul a b) = (bval a * bval b) mod 2 ^ blen a.
Proof. unfold s_mul. cbn [bval blen]. apply trunc_mod. Qed.

Lemma s_div_rem a b : bval b <> 0 ->
  bval (s_div a b) * bval b + bval (s_rem a b) = bval a /\ bval (s_rem a b) < bval b.
Proof.
  intros Hb. unfold s_div, s_rem. cbn [bval]. split.
  - rewrite N.mul_comm. symmetry. apply N.div_mod'.
  - apply N.mod_lt. assumption.
Qed.

Lemma wf_s_div a b : bv_wf a -> bval b <> 0 -> bv_wf (s_div a b) /\ bv_wf (s_rem a b).
Proof.
  unfold bv_wf, s_div, s_rem. cbn [blen bval]. intros Ha Hb. split.
  - apply N.div_lt_upper_bound; [assumption|].
    assert (1 * 2 ^ blen a <= bval b * 2 ^ blen a) as H by (apply N.mul_le_mono_r; lia).
    lia.
  - eapply N.le_lt_trans; [apply N.mod_le; assumption|assumption].
Qed.

(* --- C09: numeric comparison is a total order *)

Lemma cmp_refl (a : N) : N.compare a a = Eq.
Proof. apply N.compare_refl. Qed.

Lemma cmp_antisym (a b : N) : N.compare b a = CompOpp (N.compare a b).
Proof. apply N.compare_antisym. Qed.

Lemma cmp_trans (a b c : N) o : N.compare a b = o -> N.compare b c = o -> N.compare a c = o.
Proof.
  destruct o; rewrite ?N.compare_eq_iff, ?N.compare_lt_iff, ?N.compare_gt_iff; lia.
Qed.

Lemma cmp_eq_iff (a b : N) : N.compare a b = Eq <-> a = b.
Proof. apply N.compare_eq_iff. Qed.

Lemma cmp_total (a b : N) : N.compare a b = Lt \/ N.compare a b = Eq \/ N.compare a b = Gt.
Proof. destruct (N.compare a b); auto. Qed.

(* --- C16: run lengths *)

Lemma lz_sig_len a : bv_wf a -> s_leading_zeros a + s_sigbits a = blen a.
Proof.
  intros Ha. unfold s_leading_zeros, s_sigbits.
  pose proof (size_le_of_lt _ _ Ha). lia.
Qed.

Lemma sig0_iff_zero a : s_sigbits a = 0 <-> bval a = 0.
Proof.
  unfold s_sigbits. split; intros H.
  - pose proof (size_lt_pow2 (bval a)) as Hs. rewrite H, N.pow_0_r in Hs. lia.
  - rewrite H. reflexivity.
Qed.

Lemma leading_zeros_le a : s_leading_zeros a <= blen a.
Proof. unfold s_leading_zeros. lia. Qed.
