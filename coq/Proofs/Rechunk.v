(* Re-chunking: get_int::<J> / set_int::<J> on storage of w-bit words read or write the j-bit
   digits of the raw value (little endian), for word widths dividing one another. *)
From BVA Require Import Base.Prelude Base.Result Base.Words Base.Limbs.
From BVA Require Import Model.Core Model.Ops Model.Arith Model.Conv Model.Auto Spec.Spec Proofs.Common.
From Coq Require Import ZifyBool ZifyN ZifyNat.

Definition digits_of (w R : N) (rhs : N -> N) : Prop := forall i, rhs i = (R / 2 ^ (w * i)) mod 2 ^ w.

(* the storage widths of the crate: multiples of 8, one dividing the other *)
Definition widths_ok (w j : N) : Prop :=
  0 < w /\ 0 < j /\ w mod 8 = 0 /\ j mod 8 = 0 /\ (w mod j = 0 \/ j mod w = 0).

Lemma mod0_mul a b : 0 < b -> a mod b = 0 -> a = b * (a / b).
Proof. intros Hb H. pose proof (div_mod_eq a b). lia. Qed.

(* bits of a fold of ORs *)
Lemma fold_lor_testbit (f : N -> N) l acc b :
  N.testbit (fold_left (fun v i => N.lor v (f i)) l acc) b
  = N.testbit acc b || existsb (fun i => N.testbit (f i) b) l.
Proof.
  revert acc. induction l as [|x r IH]; intros acc; cbn [fold_left existsb].
  - rewrite orb_false_r. reflexivity.
  - rewrite IH, N.lor_spec. rewrite orb_assoc. reflexivity.
Qed.

Lemma existsb_nrange_unique (p : N -> bool) n k :
  k < n -> (forall i, i < n -> i <> k -> p i = false) -> existsb p (nrange n) = p k.
Proof.
  intros Hk H. destruct (p k) eqn:E.
  - apply existsb_exists. exists k. split; [apply In_nrange; assumption|assumption].
  - destruct (existsb p (nrange n)) eqn:E2; [|reflexivity].
    apply existsb_exists in E2. destruct E2 as [i [Hi Hp]]. apply In_nrange in Hi.
    destruct (N.eq_dec i k) as [->|Hne]; [congruence|]. rewrite H in Hp by assumption. discriminate.
Qed.

Lemma existsb_nrange_none (p : N -> bool) n :
  (forall i, i < n -> p i = false) -> existsb p (nrange n) = false.
Proof.
  intros H. destruct (existsb p (nrange n)) eqn:E; [|reflexivity].
  apply existsb_exists in E. destruct E as [i [Hi Hp]]. apply In_nrange in Hi.
  rewrite H in Hp by assumption. discriminate.
Qed.

Lemma leb_mul_div w a b : 0 < w -> (w * a <=? b) = (a <=? b / w).
Proof.
  intros Hw. destruct (N.leb_spec (w * a) b) as [H|H]; destruct (N.leb_spec a (b / w)) as [H'|H']; try reflexivity; exfalso.
  - assert (a <= b / w) by (apply N.div_le_lower_bound; lia). lia.
  - assert (w * a <= w * (b / w)) by (apply N.mul_le_mono_l; assumption).
    pose proof (N.mul_div_le b w ltac:(lia)). lia.
Qed.

Lemma ltb_mul_div w a b : 0 < w -> (b <? w * a) = (b / w <? a).
Proof.
  intros Hw. destruct (N.ltb_spec b (w * a)) as [H|H]; destruct (N.ltb_spec (b / w) a) as [H'|H']; try reflexivity; exfalso.
  - assert (w * a <= w * (b / w)) by (apply N.mul_le_mono_l; assumption).
    pose proof (N.mul_div_le b w ltac:(lia)). lia.
  - assert (w * (b / w + 1) <= w * a) by (apply N.mul_le_mono_l; lia).
    pose proof (div_mod_eq b w). pose proof (mod_lt' b w Hw). lia.
Qed.

Section Slice.
Variables w j : N.
Hypothesis Hwj : widths_ok w j.

Let Hw : 0 < w. Proof. apply Hwj. Qed.
Let Hj : 0 < j. Proof. apply Hwj. Qed.

Lemma slice_int_len_spec d idx :
  j mod w = 0 -> (slice_int_len w j d <=? idx) = negb (idx * j <? w * lenw d).
Proof.
  intros Hd. destruct Hwj as (_ & _ & Hw8 & Hj8 & _).
  unfold slice_int_len.
  pose proof (mod0_mul w 8 ltac:(lia) Hw8) as Ew.
  pose proof (mod0_mul j 8 ltac:(lia) Hj8) as Ej.
  pose proof (mod0_mul j w Hw Hd) as Ejw.
  set (w' := w / 8) in *. set (j' := j / 8) in *. set (s := j / w) in *.
  assert (0 < w') as Hw' by lia. assert (0 < j') as Hj' by lia. assert (0 < s) as Hs by nia.
  assert (j' = w' * s) as Ej' by nia.
  destruct (N.leb_spec ((lenw d * w' + j' - 1) / j') idx) as [G1|G1];
    destruct (N.ltb_spec (idx * j) (w * lenw d)) as [G2|G2]; cbn [negb]; try reflexivity; exfalso.
  - apply (ceil_div_spec (lenw d * w') j' ltac:(lia) idx) in G1. nia.
  - assert (~ ((lenw d * w' + j' - 1) / j' <= idx)) as Hn by lia.
    apply Hn. apply (ceil_div_spec (lenw d * w') j' ltac:(lia) idx). nia.
Qed.

Lemma slice_get_int_spec d idx :
  words_ok w d ->
  slice_get_int w j d idx =
  if idx * j <? w * lenw d then Some ((raw w d / 2 ^ (j * idx)) mod 2 ^ j) else None.
Proof.
  intros Hd. unfold slice_get_int.
  destruct (N.leb_spec j w) as [Hjw|Hjw].
  - (* narrower or equal J: one word holds r = w / j digits *)
    assert (w mod j = 0) as Hdiv.
    { destruct Hwj as (_ & _ & _ & _ & [H|H]); [assumption|].
      assert (j = w) as -> by (pose proof (mod0_mul j w Hw H); destruct (j / w) as [|p]; nia).
      apply N.mod_same. lia. }
    pose proof (mod0_mul w j Hj Hdiv) as Ew. set (r := w / j) in *.
    assert (0 < r) by nia.
    assert ((idx <? lenw d * r) = (idx * j <? w * lenw d)) as ->.
    { destruct (N.ltb_spec idx (lenw d * r)); destruct (N.ltb_spec (idx * j) (w * lenw d)); try reflexivity; nia. }
    destruct (N.ltb_spec (idx * j) (w * lenw d)) as [Hin|Hin]; [|reflexivity].
    f_equal. apply N.bits_inj. intro b.
    rewrite wrap_testbit, shrw_testbit, mod_pow2_testbit, div_pow2_testbit, raw_testbit by assumption.
    destruct (N.ltb_spec b j) as [Hb|Hb]; [cbn [andb]|reflexivity].
    pose proof (div_mod_eq idx r) as Ei. pose proof (mod_lt' idx r ltac:(lia)) as Him.
    destruct (divmod_unique (b + j * idx) w (idx / r) (b + j * (idx mod r)) Hw) as [-> ->]; [nia|nia|].
    reflexivity.
  - (* wider J: s = j / w words make one digit *)
    assert (j mod w = 0) as Hdiv.
    { destruct Hwj as (_ & _ & _ & _ & [H|H]); [|assumption].
      pose proof (mod0_mul w j Hj H). destruct (w / j) as [|p]; nia. }
    rewrite slice_int_len_spec by assumption.
    pose proof (mod0_mul j w Hw Hdiv) as Ej. set (s := j / w) in *.
    assert (0 < s) by nia.
    destruct (N.ltb_spec (idx * j) (w * lenw d)) as [Hin|Hin]; cbn [negb]; [|reflexivity].
    f_equal. apply N.bits_inj. intro b.
    rewrite fold_lor_testbit, N.bits_0, orb_false_l.
    rewrite mod_pow2_testbit, div_pow2_testbit, raw_testbit by assumption.
    destruct (N.ltb_spec b j) as [Hb|Hb].
    + cbn [andb].
      pose proof (div_mod_eq b w) as Eb. pose proof (mod_lt' b w Hw) as Hbm.
      assert (b / w < s) as Hbs by (apply N.div_lt_upper_bound; lia).
      assert (existsb (fun i => N.testbit (shlw j (getw d (idx * s + i)) (w * i)) b) (nrange s)
              = N.testbit (shlw j (getw d (idx * s + b / w)) (w * (b / w))) b) as ->.
      { apply (existsb_nrange_unique (fun i => N.testbit (shlw j (getw d (idx * s + i)) (w * i)) b) s (b / w));
          [assumption|].
        intros i Hi Hne. rewrite shlw_testbit.
        destruct (N.leb_spec (w * i) b) as [Hle|Hle]; [|rewrite andb_false_r; reflexivity].
        assert (i <= b / w) as Hib by (apply N.div_le_lower_bound; lia).
        rewrite (testbit_high (getw d (idx * s + i)) w (b - w * i)); [apply andb_false_r|apply getw_ok; assumption|nia]. }
      rewrite shlw_testbit.
      assert (b <? j = true) as -> by (apply N.ltb_lt; assumption).
      assert (w * (b / w) <=? b = true) as -> by (apply N.leb_le; lia).
      cbn [andb].
      destruct (divmod_unique (b + j * idx) w (idx * s + b / w) (b mod w) Hw) as [-> ->]; [nia|assumption|].
      f_equal. lia.
    + cbn [andb]. apply existsb_nrange_none. intros i Hi. rewrite shlw_testbit.
      assert (b <? j = false) as -> by (apply N.ltb_ge; assumption). reflexivity.
Qed.

End Slice.

(* get_int on a canonical vector: the j-bit digits of its value *)
Lemma v_get_int_spec w j v idx :
  widths_ok w j -> canon_wv w v ->
  v_get_int w j v idx =
  if idx * j <? wl v then Some ((raw w (wd v) / 2 ^ (j * idx)) mod 2 ^ j) else None.
Proof.
  intros Hwj (Hd & Hl & Hr). unfold v_get_int.
  destruct (N.ltb_spec (idx * j) (wl v)) as [Hin|Hin]; [|reflexivity].
  rewrite slice_get_int_spec by assumption.
  assert (idx * j <? w * lenw (wd v) = true) as -> by (apply N.ltb_lt; lia).
  cbn [option_map]. f_equal.
  (* the mask keeps everything: the digit has no bit at or above len - idx*j *)
  apply N.bits_inj. intro b. rewrite N.land_spec, maskw_testbit.
  destruct (N.ltb_spec b (wl v - idx * j)) as [Hb|Hb].
  - rewrite mod_pow2_testbit. destruct (N.ltb_spec b j); cbn [andb]; [apply andb_true_r|reflexivity].
  - cbn [andb]. rewrite andb_false_r.
    rewrite mod_pow2_testbit, div_pow2_testbit.
    rewrite (testbit_high (raw w (wd v)) (wl v)) by (try assumption; lia).
    symmetry. apply andb_false_r.
Qed.

Lemma v_get_int_digits w j v :
  widths_ok w j -> canon_wv w v ->
  digits_of j (raw w (wd v)) (fun i => odefault (v_get_int w j v i) 0).
Proof.
  intros Hwj Hc i. rewrite v_get_int_spec by assumption.
  destruct (N.ltb_spec (i * j) (wl v)) as [H|H]; [reflexivity|].
  cbn [odefault]. destruct Hc as (_ & _ & Hr).
  symmetry. apply N.bits_inj. intro b. rewrite mod_pow2_testbit, div_pow2_testbit, N.bits_0.
  rewrite (testbit_high (raw w (wd v)) (wl v)) by (try assumption; lia). apply andb_false_r.
Qed.

Lemma v_get_int_some_iff w j v idx :
  widths_ok w j -> canon_wv w v ->
  (idx < v_int_len j v <-> exists x, v_get_int w j v idx = Some x).
Proof.
  intros Hwj Hc. rewrite v_get_int_spec by assumption.
  unfold v_int_len. destruct Hwj as (_ & Hj & _).
  destruct (N.ltb_spec (idx * j) (wl v)) as [H|H]; split; intros H'.
  - eauto.
  - destruct (N.lt_ge_cases idx ((wl v + j - 1) / j)) as [|Hge]; [assumption|exfalso].
    apply (ceil_div_spec (wl v) j Hj idx) in Hge. nia.
  - exfalso. assert (~ ((wl v + j - 1) / j <= idx)) as Hn by lia. apply Hn.
    apply (ceil_div_spec (wl v) j Hj idx). nia.
  - destruct H' as [x Hx]. discriminate.
Qed.

(* the words of the storage are the w-bit digits of the raw value *)
Lemma getw_digits w d : 0 < w -> words_ok w d -> digits_of w (raw w d) (getw d).
Proof. intros Hw Hd i. apply getw_raw; assumption. Qed.

(* the six widths the crate instantiates *)
Lemma widths_ok_cases w j :
  In w [8; 16; 32; 64; 128] -> In j [8; 16; 32; 64; 128] -> widths_ok w j.
Proof.
  intros Hw Hj. unfold widths_ok.
  cbn [In] in Hw, Hj.
  repeat (destruct Hw as [<-|Hw]; [repeat (destruct Hj as [<-|Hj]; [vm_compute; repeat split; try reflexivity; auto|]); contradiction|]);
  contradiction.
Qed.

(* ------------------------------------------------------------------ set_int *)

Lemma fold_setw_getw (f : N -> N) base d n k :
  getw (fold_left (fun d' i => setw d' (base + i) (f i)) (nrange n) d) k
  = if (base <=? k) && (k <? base + n) && (k <? lenw d) then f (k - base) else getw d k.
Proof.
  induction n as [|n IH] using N.peano_ind.
  - rewrite nrange_0. cbn [fold_left].
    destruct (N.leb_spec base k); destruct (N.ltb_spec k (base + 0)); cbn [andb]; try reflexivity; lia.
  - rewrite <- N.add_1_r, nrange_succ, fold_left_app. cbn [fold_left].
    rewrite getw_setw, IH.
    assert (lenw (fold_left (fun d' i => setw d' (base + i) (f i)) (nrange n) d) = lenw d) as ->.
    { clear. induction n as [|n IHn] using N.peano_ind; [reflexivity|].
      rewrite <- N.add_1_r, nrange_succ, fold_left_app. cbn [fold_left]. rewrite lenw_setw. assumption. }
    destruct (N.eqb_spec (base + n) k) as [<-|Hne].
    + destruct (N.ltb_spec (base + n) (lenw d)) as [Hl|Hl]; cbn [andb].
      * assert (base <=? base + n = true) as -> by (apply N.leb_le; lia).
        assert (base + n <? base + (n + 1) = true) as -> by (apply N.ltb_lt; lia).
        cbn [andb]. f_equal. lia.
      * rewrite !andb_false_r. reflexivity.
    + cbn [andb].
      destruct (N.leb_spec base k); destruct (N.ltb_spec k (base + n)); destruct (N.ltb_spec k (base + (n + 1)));
        cbn [andb]; try reflexivity; lia.
Qed.

Lemma fold_setw_lenw (f : N -> N) base d n :
  lenw (fold_left (fun d' i => setw d' (base + i) (f i)) (nrange n) d) = lenw d.
Proof.
  induction n as [|n IHn] using N.peano_ind; [reflexivity|].
  rewrite <- N.add_1_r, nrange_succ, fold_left_app. cbn [fold_left]. rewrite lenw_setw. assumption.
Qed.

Lemma fold_setw_ok w (f : N -> N) base d n :
  words_ok w d -> (forall i, f i < 2 ^ w) ->
  words_ok w (fold_left (fun d' i => setw d' (base + i) (f i)) (nrange n) d).
Proof.
  intros Hd Hf. induction n as [|n IHn] using N.peano_ind; [assumption|].
  rewrite <- N.add_1_r, nrange_succ, fold_left_app. cbn [fold_left]. apply words_ok_setw; auto.
Qed.

Lemma slice_set_int_spec w j d idx x :
  widths_ok w j -> words_ok w d -> x < 2 ^ j -> idx * j < w * lenw d ->
  exists d', slice_set_int w j d idx x = Some d' /\ words_ok w d' /\ lenw d' = lenw d /\
    forall b, N.testbit (raw w d') b =
              if (j * idx <=? b) && (b <? j * idx + j) && (b <? w * lenw d)
              then N.testbit x (b - j * idx) else N.testbit (raw w d) b.
Proof.
  intros Hwj Hd Hx Hin. pose proof Hwj as (Hw & Hj & _ & _ & Hdiv). unfold slice_set_int.
  destruct (N.leb_spec j w) as [Hjw|Hjw].
  - assert (w mod j = 0) as Hd0.
    { destruct Hdiv as [H|H]; [assumption|].
      assert (j = w) as -> by (pose proof (mod0_mul j w Hw H); destruct (j / w) as [|p]; nia).
      apply N.mod_same. lia. }
    pose proof (mod0_mul w j Hj Hd0) as Ew. set (r := w / j) in *.
    assert (0 < r) as Hr by nia.
    assert (idx <? lenw d * r = true) as -> by (apply N.ltb_lt; nia).
    pose proof (div_mod_eq idx r) as Ei. pose proof (mod_lt' idx r Hr) as Him.
    destruct (divmod_unique (j * idx) w (idx / r) (j * (idx mod r)) Hw) as [Eq Er]; [nia|nia|].
    eexists. split; [reflexivity|].
    change (setw d (idx / r) (write_word w (getw d (idx / r)) (j * (idx mod r)) j x))
      with (setw d (idx / r) (write_word w (getw d (idx / r)) (j * (idx mod r)) j x)).
    rewrite <- Eq, <- Er. fold (write_bits w d (j * idx) j x).
    split; [apply words_ok_write_bits; assumption|]. split; [apply lenw_write_bits|].
    assert (idx / r < lenw d) as Hq.
    { apply N.div_lt_upper_bound; [lia|].
      apply (N.mul_lt_mono_pos_r j); [assumption|]. rewrite Ew in Hin. lia. }
    assert (j * (idx mod r) + j <= w) as Hfit.
    { rewrite Ew. replace (j * (idx mod r) + j) with (j * (idx mod r + 1)) by lia.
      apply N.mul_le_mono_l. lia. }
    intros b. rewrite write_bits_testbit; try assumption; [|rewrite Eq; exact Hq|rewrite Er; exact Hfit].
    destruct (N.leb_spec (j * idx) b); destruct (N.ltb_spec b (j * idx + j)); cbn [andb]; try reflexivity.
    assert (j * idx + j <= w * lenw d) as Hend.
    { assert (idx < r * lenw d) as Hi2 by (apply (N.mul_lt_mono_pos_r j); [assumption|]; rewrite Ew in Hin; lia).
      rewrite Ew. replace (j * idx + j) with (j * (idx + 1)) by lia.
      rewrite <- N.mul_assoc. apply N.mul_le_mono_l. lia. }
    assert (b <? w * lenw d = true) as -> by (apply N.ltb_lt; lia). reflexivity.
  - assert (j mod w = 0) as Hd0.
    { destruct Hdiv as [H|H]; [|assumption]. pose proof (mod0_mul w j Hj H). destruct (w / j) as [|p]; nia. }
    rewrite (slice_int_len_spec w j Hwj) by assumption.
    assert (idx * j <? w * lenw d = true) as -> by (apply N.ltb_lt; assumption). cbn [negb].
    pose proof (mod0_mul j w Hw Hd0) as Ej. set (s := j / w) in *.
    assert (0 < s) as Hs by nia.
    eexists. split; [reflexivity|].
    split; [apply fold_setw_ok; [assumption|intros; apply wrap_lt]|].
    split; [apply fold_setw_lenw|].
    intros b. rewrite !raw_testbit by (try apply fold_setw_ok; try assumption; intros; apply wrap_lt).
    rewrite fold_setw_getw.
    pose proof (div_mod_eq b w) as Eb. pose proof (mod_lt' b w Hw) as Hbm.
    assert ((j * idx <=? b) = (idx * s <=? b / w)) as ->.
    { rewrite <- (leb_mul_div w) by assumption. f_equal. rewrite Ej. lia. }
    assert ((b <? j * idx + j) = (b / w <? idx * s + s)) as ->.
    { rewrite <- (ltb_mul_div w) by assumption. f_equal. rewrite Ej. lia. }
    rewrite (ltb_mul_div w (lenw d) b) by assumption.
    destruct (N.leb_spec (idx * s) (b / w)) as [H1|H1]; destruct (N.ltb_spec (b / w) (idx * s + s)) as [H2|H2];
      destruct (N.ltb_spec (b / w) (lenw d)) as [H3|H3]; cbn [andb]; try reflexivity.
    rewrite wrap_testbit, shrw_testbit.
    assert (b mod w <? w = true) as -> by (apply N.ltb_lt; assumption). cbn [andb]. f_equal.
    (* b - j*idx = b mod w + w * (b/w - idx*s) *)
    rewrite Ej.
    assert (w * (b / w) = w * (idx * s) + w * (b / w - idx * s)) as Esplit.
    { rewrite <- N.mul_add_distr_l. f_equal. lia. }
    set (t := b / w - idx * s) in *. set (q := b / w) in *. set (m := b mod w) in *.
    clearbody t q m. clear -Eb Esplit. subst b. lia.
Qed.

Lemma v_set_int_spec w j v idx x :
  widths_ok w j -> canon_wv w v -> x < 2 ^ j ->
  canon_wv w (v_set_int w j v idx x) /\ wl (v_set_int w j v idx x) = wl v /\
  lenw (wd (v_set_int w j v idx x)) = lenw (wd v) /\
  forall b, N.testbit (raw w (wd (v_set_int w j v idx x))) b =
            if (j * idx <=? b) && (b <? j * idx + j) && (b <? wl v)
            then N.testbit x (b - j * idx) else N.testbit (raw w (wd v)) b.
Proof.
  intros Hwj Hc Hx. pose proof Hc as (Hd & Hl & Hr). unfold v_set_int.
  destruct (N.ltb_spec (idx * j) (wl v)) as [Hin|Hin].
  - set (y := N.land x (maskw j (wl v - idx * j))).
    assert (y < 2 ^ j) as Hy.
    { apply lt_pow2_of_bits. intros b Hb. unfold y. rewrite N.land_spec.
      rewrite (testbit_high x j b) by assumption. reflexivity. }
    destruct (slice_set_int_spec w j (wd v) idx y Hwj Hd Hy ltac:(lia)) as (d' & -> & Hd' & Hl' & Hb').
    cbn [wd wl].
    assert (forall b, N.testbit (raw w d') b =
                      if (j * idx <=? b) && (b <? j * idx + j) && (b <? wl v)
                      then N.testbit x (b - j * idx) else N.testbit (raw w (wd v)) b) as Hbits.
    { intros b. rewrite Hb'. unfold y. rewrite N.land_spec, maskw_testbit.
      destruct (N.leb_spec (j * idx) b) as [H1|H1]; destruct (N.ltb_spec b (j * idx + j)) as [H2|H2]; cbn [andb]; try reflexivity.
      destruct (N.ltb_spec b (wl v)) as [H3|H3].
      - assert (b <? w * lenw (wd v) = true) as -> by (apply N.ltb_lt; lia).
        assert (b - j * idx <? wl v - idx * j = true) as -> by (apply N.ltb_lt; lia).
        assert (b - j * idx <? j = true) as -> by (apply N.ltb_lt; lia).
        cbn [andb]. apply andb_true_r.
      - assert (b - j * idx <? wl v - idx * j = false) as -> by (apply N.ltb_ge; lia).
        cbn [andb]. rewrite andb_false_r.
        rewrite (testbit_high (raw w (wd v)) (wl v) b) by assumption.
        destruct (b <? w * lenw (wd v)); reflexivity. }
    split; [|split; [reflexivity|split; [assumption|exact Hbits]]].
    apply canon_of_bits; [assumption|lia|].
    intros b Hb. rewrite Hbits.
    assert (b <? wl v = false) as -> by (apply N.ltb_ge; assumption). rewrite andb_false_r.
    apply (testbit_high _ (wl v)); assumption.
  - split; [assumption|]. split; [reflexivity|]. split; [reflexivity|].
    intros b. destruct (N.leb_spec (j * idx) b); destruct (N.ltb_spec b (wl v)); cbn [andb]; try reflexivity;
      try (rewrite andb_false_r; reflexivity); lia.
Qed.
