(* Proofs/Master.v: the master theorem -- on every case within the stated hypotheses the model's
   result satisfies the property relation -- assembled from MasterA, MasterB and the division /
   insert theorems. *)
From BVA Require Import Base.Prelude Base.Result Base.Words Base.Limbs.
From BVA Require Import Model.Core Model.Ops Model.Arith Model.Conv Model.Auto Model.Run Spec.Spec Spec.Prop Spec.CaseOk.
From BVA Require Import Proofs.Common Proofs.Rechunk Proofs.Lift.
From Coq Require Import ZifyBool ZifyN ZifyNat.
From BVA Require Import Proofs.Pairings Proofs.ConvP Proofs.XEdit Proofs.XObs Proofs.Append Proofs.Div Proofs.MasterB.
From BVA Require Proofs.MasterA.

(* ------------------------------------------------------------------ insert *)

Lemma master_op_48 c : c_op c = 48 -> case_okb c = true -> prop_case c (run_case c) = true.   (* insert *)
Proof.
  intros Hop Hok. args_of Hok Hop HF Ha.
  rewrite !andb_true_iff in Ha. destruct Ha as [Hn _].
  destruct (view2 c HF Hn) as (a & b & E & Ga & Gb).
  open_case Hop. rewrite (val0_of c a _ E), (val1_of c a b _ E), (sval0_of c a _ E), (sval1_of c a b _ E).
  cbn [bind]. rewrite !blen_abs.
  destruct (N.leb_spec (arg c 0) (xlen a)) as [Hle|Hgt].
  - destruct (x_insert_spec (c_prof c) a (arg c 0) b Ga Gb Hle) as [Hp Hs].
    destruct (fits (kind_of a) (xlen a + xlen b)) eqn:Ef.
    + apply ret_v_same. apply Hs. reflexivity.
    + rewrite Hp by reflexivity. reflexivity.
  - apply res_ok_dbg. intros ->. rewrite x_insert_debug_oob by assumption. reflexivity.
Qed.

(* ------------------------------------------------------------------ division operators *)

(* the two shapes of a binary operator's right operand, seen from the interpreter (`rhs_of`) and
   from the specification (`srhs`) at once *)
Lemma binop_view c :
  Forall Good (c_vals c) -> binop_okb c = true ->
  exists a l b, c_vals c = a :: l /\ Good a /\ Good b /\ rhs_of c a = Ok b /\ srhs c = Some (abs b).
Proof.
  intros HF Hb. unfold binop_okb in Hb. apply orb_true_iff in Hb. destruct Hb as [Hn|Hb].
  - destruct (view2 c HF Hn) as (a & b & E & Ga & Gb). exists a, [b], b.
    unfold srhs, rhs_of. rewrite E. cbn [nth_error]. auto.
  - rewrite !andb_true_iff in Hb. destruct Hb as [[Hn Ht] Hx].
    apply std_widthb_spec in Ht. apply N.ltb_lt in Hx. rewrite pow2_eq in Hx.
    destruct (view1 c HF Hn) as (a & E & Ga).
    destruct (lift_uint_spec a (arg c 0) (arg c 1) Ht Hx) as (b & Hl & Gb & Ab).
    exists a, [], b. unfold srhs, rhs_of. rewrite E. cbn [nth_error].
    rewrite trunc_small by assumption. rewrite Ab. auto.
Qed.

Lemma bval_abs b : Good b -> bval (abs b) = val b.
Proof. intros Gb. rewrite (abs_Good b Gb). reflexivity. Qed.

Lemma divop_args c :
  binop_okb c && (len0 c <? A1) = true -> Forall Good (c_vals c) ->
  exists a l b, c_vals c = a :: l /\ Good a /\ Good b /\ rhs_of c a = Ok b /\ srhs c = Some (abs b) /\
                xlen a < 2 ^ 62.
Proof.
  intros Ha HF. apply andb_true_iff in Ha. destruct Ha as [Hb Hl].
  destruct (binop_view c HF Hb) as (a & l & b & E & Ga & Gb & Hr & Hs).
  exists a, l, b. repeat (split; [assumption|]).
  rewrite (len0_of c a l E), A1_eq in Hl. apply N.ltb_lt. assumption.
Qed.

Lemma master_op_69 c : c_op c = 69 -> case_okb c = true -> prop_case c (run_case c) = true.   (* /  *)
Proof.
  intros Hop Hok. args_of Hok Hop HF Ha.
  destruct (divop_args c Ha HF) as (a & l & b & E & Ga & Gb & Hr & Hs & Hl).
  open_case Hop. rewrite (val0_of c a l E), (sval0_of c a l E). cbn [bind]. rewrite Hr, Hs. cbn [bind].
  rewrite (bval_abs b Gb).
  destruct (N.eqb_spec (val b) 0) as [Hz|Hnz].
  - rewrite (x_divrem_op_zero (c_prof c) a b Ga Gb Hz). reflexivity.
  - destruct (x_divrem_op_spec (c_prof c) a b Ga Gb Hl Hnz) as (q & r & -> & Gq & Gr & Kq & Kr & Aq & Ar).
    cbn [bind res_ok items_ok]. rewrite (item_ok_same a _ q Gq Kq Aq). reflexivity.
Qed.

Lemma master_op_70 c : c_op c = 70 -> case_okb c = true -> prop_case c (run_case c) = true.   (* %  *)
Proof.
  intros Hop Hok. args_of Hok Hop HF Ha.
  destruct (divop_args c Ha HF) as (a & l & b & E & Ga & Gb & Hr & Hs & Hl).
  open_case Hop. rewrite (val0_of c a l E), (sval0_of c a l E). cbn [bind]. rewrite Hr, Hs. cbn [bind].
  rewrite (bval_abs b Gb).
  destruct (N.eqb_spec (val b) 0) as [Hz|Hnz].
  - rewrite (x_divrem_op_zero (c_prof c) a b Ga Gb Hz). reflexivity.
  - destruct (x_divrem_op_spec (c_prof c) a b Ga Gb Hl Hnz) as (q & r & -> & Gq & Gr & Kq & Kr & Aq & Ar).
    cbn [bind res_ok items_ok]. rewrite (item_ok_same a _ r Gr Kr Ar). reflexivity.
Qed.

Lemma master_op_71 c : c_op c = 71 -> case_okb c = true -> prop_case c (run_case c) = true.   (* div_rem *)
Proof.
  intros Hop Hok. args_of Hok Hop HF Ha.
  apply andb_true_iff in Ha. destruct Ha as [Hn Hl].
  destruct (view2 c HF Hn) as (a & b & E & Ga & Gb).
  rewrite (len0_of c a _ E), A1_eq in Hl. apply N.ltb_lt in Hl.
  open_case Hop. rewrite (val0_of c a _ E), (val1_of c a b _ E), (sval0_of c a _ E), (sval1_of c a b _ E).
  cbn [bind]. rewrite (bval_abs b Gb).
  destruct (N.eqb_spec (val b) 0) as [Hz|Hnz].
  - rewrite (x_div_rem_zero (c_prof c) a b Ga Gb Hz). reflexivity.
  - destruct (x_div_rem_spec (c_prof c) a b Ga Gb Hl Hnz) as (q & r & -> & Gq & Gr & Kq & Kr & Aq & Ar).
    cbn [bind res_ok items_ok]. rewrite (item_ok_same a _ q Gq Kq Aq), (item_ok_same a _ r Gr Kr Ar). reflexivity.
Qed.

(* ------------------------------------------------------------------ assembly *)

Definition all_ops : list N := MasterA.ops_A ++ ops_B ++ [48; 69; 70; 71].

(* the master theorem: for every operation of the interface and every case within the hypotheses
   (canonical operands of the crate's word widths, well-formed arguments, lengths below 2^62), in
   both build profiles, the model's result satisfies the property relation *)
Theorem master c : In (c_op c) all_ops -> case_okb c = true -> prop_case c (run_case c) = true.
Proof.
  intros Hin Hok. unfold all_ops in Hin.
  apply in_app_or in Hin. destruct Hin as [H|H]; [apply MasterA.master_A; assumption|].
  apply in_app_or in H. destruct H as [H|H]; [apply master_B; assumption|].
  cbn [In] in H. destruct H as [H|[H|[H|[H|[]]]]]; symmetry in H.
  - apply master_op_48; assumption.
  - apply master_op_69; assumption.
  - apply master_op_70; assumption.
  - apply master_op_71; assumption.
Qed.

(* the verdicts the driver evaluates on trace lines (Spec/CaseOk.v) are, on every case in scope, the
   correspondence and the property relation themselves *)
Lemma verdict_in_scope c r : case_okb c = true ->
  prop_verdict c r = prop_case c r /\ (costly c = false -> corr_verdict c r = result_eqb (run_case c) r).
Proof.
  unfold case_okb, prop_verdict, corr_verdict, model_consulted. rewrite !andb_true_iff. intros [_ Hl]. rewrite Hl.
  split; [reflexivity|]. intros ->. reflexivity.
Qed.

Theorem master_verdict c : In (c_op c) all_ops -> case_okb c = true -> prop_verdict c (run_case c) = true.
Proof.
  intros Hin Hok. destruct (verdict_in_scope c (run_case c) Hok) as [-> _]. apply master; assumption.
Qed.

(* ------------------------------------------------------------------ coverage of the interpreter *)

Lemma notin_existsb (x : N) l : ~ In x l -> existsb (N.eqb x) l = false.
Proof.
  intros H. destruct (existsb (N.eqb x) l) eqn:E; [|reflexivity].
  exfalso. apply H. apply existsb_exists in E. destruct E as (y & Hy & Exy).
  apply N.eqb_eq in Exy. subst y. assumption.
Qed.

(* The interpreter also knows three codes that are NOT operations of the crate's interface but
   hooks into its private helpers (94: the four bit counts of a native word; 95 / 96: the slice
   re-chunking helpers); the specification leaves them unconstrained (`SFree`), `args_okb` puts
   them outside the scope of the master theorem, and they are proved directly at the value level
   (Base/Words.v, Proofs/Rechunk.v).  So the statement

     run_case_known c : ~ In (c_op c) all_ops -> run_case c = OutOfFuel

   is false as written (see `run_case_known_counterexample`); the correct coverage statement
   lists the three hook codes as well. *)
Definition hook_ops : list N := [94; 95; 96].
(* 99: the verdict of a harness-only oracle (see Model/Run.v); outside the master theorem *)
Definition oracle_ops : list N := [99].

(* every operation code the interpreter knows is covered *)
Lemma run_case_known_fixed c : ~ In (c_op c) (all_ops ++ hook_ops ++ oracle_ops) -> run_case c = OutOfFuel.
Proof.
  intros H. apply notin_existsb in H. unfold run_case.
  destruct (c_op c) as [|p]; [reflexivity|].
  do 8 (try (destruct p as [p|p|];
             first [reflexivity | exfalso; vm_compute in H; discriminate H | idtac])).
Qed.

Lemma run_case_known_counterexample :
  let c := mkcase 94 0 Debug KA [8; 1] [] [] in
  ~ In (c_op c) all_ops /\ run_case c <> OutOfFuel.
Proof.
  cbv zeta. split.
  - intros H.
    assert (existsb (N.eqb 94) all_ops = false) as E by (vm_compute; reflexivity).
    assert (existsb (N.eqb 94) all_ops = true) as E'.
    { apply existsb_exists. exists 94. split; [exact H|apply N.eqb_refl]. }
    rewrite E in E'. discriminate E'.
  - vm_compute. discriminate.
Qed.

(* the hook codes are unconstrained by the property relation, so the conclusion of the master
   theorem holds for them too (trivially) *)
Lemma master_hooks c r : In (c_op c) hook_ops -> prop_case c r = true.
Proof.
  intros H. unfold hook_ops in H. cbn [In] in H.
  destruct H as [H|[H|[H|[]]]]; symmetry in H;
    (rewrite prop_case_res by (rewrite H; discriminate));
    unfold spec_case; rewrite H; cbv beta iota zeta;
    destruct (sval c 0) as [[ka a]|]; reflexivity.
Qed.
