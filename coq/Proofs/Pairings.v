(* Proofs/Pairings.v *)
From BVA Require Import Base.Prelude Base.Result Base.Words Base.Limbs.
From BVA Require Import Model.Core Model.Ops Model.Arith Model.Conv Model.Auto Model.Run Spec.Spec Spec.Prop.
From BVA Require Import Proofs.Common Proofs.Rechunk Proofs.Lift.
From Coq Require Import ZifyBool ZifyN ZifyNat.
From BVA Require Import Proofs.Arith Proofs.Mul Proofs.Cmp.

(* The operators of Model/Auto.v (x_not, x_bitop, x_addsub, x_mul, x_eq, x_cmp) against the
   specification functions of Spec/Spec.v, for every pairing of operand types.

   Plan: every operator is first rewritten as a selection on the storage view
   (is_fixed, xw, xv) of its two operands (`*_sel`); the storage-level lemma `*_sel_spec`
   combines the word-list lemmas of Arith.v / Mul.v / Cmp.v with the digit lemmas of
   Rechunk.v and the two finishing steps (mod2n for arrays, mask_top64 for heap vectors);
   `x_with_good` carries the result back to the value level. *)

Definition s_bitop (o : bitop) : bv -> bv -> bv :=
  match o with OpAnd => s_and | OpOr => s_or | OpXor => s_xor end.
Definition s_addsub (o : addop) : bv -> bv -> bv :=
  match o with OpAdd => s_add | OpSub => s_sub end.

(* ------------------------------------------------------------------ the storage view of a value *)

Lemma Good_view a :
  Good a -> canon_wv (xw a) (xv a) /\ std_width (xw a) /\ (is_fixed a = false -> xw a = 64).
Proof.
  intros [Hc Hs]. split; [apply Canon_wv; assumption|]. split; [assumption|].
  destruct a as [w v|v|[|] v]; cbn [is_fixed xw]; intros H; try reflexivity; discriminate.
Qed.

Lemma x_with_good a y :
  Good a -> canon_wv (xw a) y -> wl y = xlen a ->
  (is_fixed a = true -> lenw (wd y) = lenw (xdata a)) ->
  Good (x_with a y) /\ kind_of (x_with a y) = kind_of a /\ is_fixed (x_with a y) = is_fixed a /\
  abs (x_with a y) = mkbv (xlen a) (raw (xw a) (wd y)).
Proof.
  intros [[Hc Hx] Hs] Hy Hl Hn.
  assert (Habs : abs_wv (xw a) y = mkbv (xlen a) (raw (xw a) (wd y))).
  { rewrite abs_canon by assumption. rewrite Hl. reflexivity. }
  destruct a as [w v|v|[|] v]; cbn [x_with kind_of is_fixed xw xv xlen xdata] in *.
  - split; [|split; [|split]].
    + split; [apply Canon_XF; tauto|assumption].
    + rewrite Hn by reflexivity. reflexivity.
    + reflexivity.
    + exact Habs.
  - split; [|split; [|split]]; try reflexivity; [|exact Habs].
    split; [apply Canon_XD; assumption|assumption].
  - split; [|split; [|split]]; try reflexivity; [|exact Habs].
    split; [|assumption]. apply Canon_XA_fixed; [assumption|]. rewrite Hn by reflexivity. assumption.
  - split; [|split; [|split]]; try reflexivity; [|exact Habs].
    split; [apply Canon_XA_dyn; assumption|assumption].
Qed.

Lemma Good_abs a : Good a -> abs a = mkbv (xlen a) (val a).
Proof. intros [Hc _]. apply abs_Canon. assumption. Qed.

(* ------------------------------------------------------------------ the two finishing steps *)

Lemma fixed_finish w d n :
  0 < w -> words_ok w d -> n <= w * lenw d ->
  canon_wv w (mkwv (mod2n w d n) n) /\ lenw (mod2n w d n) = lenw d /\
  raw w (mod2n w d n) = raw w d mod 2 ^ n.
Proof.
  intros Hw Hd Hn.
  assert (E : raw w (mod2n w d n) = raw w d mod 2 ^ n) by (apply raw_mod2n; assumption).
  split; [|split; [apply lenw_mod2n|exact E]].
  unfold canon_wv. cbn [wd wl]. split; [apply words_ok_mod2n; assumption|].
  split; [rewrite lenw_mod2n; assumption|]. rewrite E. apply N.mod_lt, pow2_ne0.
Qed.

Lemma raw_mask_top64 d n :
  words_ok 64 d -> (forall q, cfbl_d n <= q -> getw d q = 0) ->
  raw 64 (mask_top64 d n) = raw 64 d mod 2 ^ n.
Proof.
  intros Hd Hz. assert (H64 : 0 < 64) by lia.
  apply N.bits_inj. intro i. rewrite mod_pow2_testbit.
  rewrite (raw_testbit 64 H64) by (apply words_ok_mask_top64; assumption).
  rewrite (raw_testbit 64 H64) by assumption.
  unfold mask_top64, W64. rewrite getw_upd_at.
  rewrite Proofs.Arith.cfbl_d_eq in Hz.
  destruct ((n / 64 =? i / 64) && (n / 64 <? lenw d)) eqn:E.
  - apply andb_true_iff in E. destruct E as [E1 E2]. apply N.eqb_eq in E1.
    rewrite E1. rewrite N.land_spec, maskw_testbit.
    assert (i mod 64 <? 64 = true) as -> by (apply N.ltb_lt; lia).
    rewrite andb_true_r.
    assert ((i mod 64 <? n mod 64) = (i <? n)) as ->.
    { destruct (N.ltb_spec (i mod 64) (n mod 64)); destruct (N.ltb_spec i n); try reflexivity; lia. }
    apply andb_comm.
  - destruct (N.ltb_spec i n) as [Hi|Hi]; [reflexivity|]. cbn [andb].
    apply andb_false_iff in E. destruct E as [E|E].
    + apply N.eqb_neq in E. rewrite Hz by lia. apply N.bits_0.
    + apply N.ltb_ge in E. rewrite getw_high by lia. apply N.bits_0.
Qed.

Lemma heap_finish d n :
  words_ok 64 d -> cfbl_d n <= lenw d -> (forall q, cfbl_d n <= q -> getw d q = 0) ->
  canon_wv 64 (mkwv (mask_top64 d n) n) /\ lenw (mask_top64 d n) = lenw d /\
  raw 64 (mask_top64 d n) = raw 64 d mod 2 ^ n.
Proof.
  intros Hd Hk Hz.
  assert (E : raw 64 (mask_top64 d n) = raw 64 d mod 2 ^ n) by (apply raw_mask_top64; assumption).
  split; [|split; [apply lenw_mask_top64|exact E]].
  unfold canon_wv. cbn [wd wl]. split; [apply words_ok_mask_top64; assumption|].
  split; [rewrite lenw_mask_top64; rewrite Proofs.Arith.cfbl_d_eq in Hk; lia|].
  rewrite E. apply N.mod_lt, pow2_ne0.
Qed.

(* used words of a canonical heap vector *)
Lemma canon_high64 v q : canon_wv 64 v -> cfbl_d (wl v) <= q -> getw (wd v) q = 0.
Proof.
  intros Hc Hq. apply (canon_getw_high 64); [lia|assumption|].
  rewrite Proofs.Arith.cfbl_d_eq in Hq. lia.
Qed.

(* ------------------------------------------------------------------ Not *)

Definition not_sel (byref : bool) (fa : bool) (wa : N) (va : wv) : outcome wv :=
  if fa then Ok (f_not wa va) else if byref then d_not_ref va else d_not va.

Lemma x_not_sel byref a :
  x_not byref a = let! y := not_sel byref (is_fixed a) (xw a) (xv a) in Ok (x_with a y).
Proof.
  destruct a as [w v|v|[|] v]; cbn [x_not not_sel is_fixed xw xv x_with]; try reflexivity;
    destruct byref; reflexivity.
Qed.

Lemma not_sel_spec byref fa wa va :
  canon_wv wa va -> std_width wa -> (fa = false -> wa = 64) ->
  exists y, not_sel byref fa wa va = Ok y /\ canon_wv wa y /\ wl y = wl va /\
            (fa = true -> lenw (wd y) = lenw (wd va)) /\
            raw wa (wd y) = 2 ^ wl va - 1 - raw wa (wd va).
Proof.
  intros Hc Hs H64. unfold not_sel. destruct fa.
  - destruct (f_not_spec wa va (std_width_pos _ Hs) Hc) as (H1 & H2 & H3 & H4).
    eexists. split; [reflexivity|]. split; [assumption|]. split; [assumption|].
    split; [intros _; assumption|assumption].
  - rewrite (H64 eq_refl) in *. destruct byref.
    + destruct (d_not_ref_spec va Hc) as (r & E & H1 & H2 & H3 & H4).
      exists r. split; [assumption|]. split; [assumption|]. split; [assumption|].
      split; [intros; discriminate|assumption].
    + destruct (d_not_spec va Hc) as (r & E & H1 & H2 & H3 & H4).
      exists r. split; [assumption|]. split; [assumption|]. split; [assumption|].
      split; [intros; discriminate|assumption].
Qed.

Lemma lxor_ones_low n x : x < 2 ^ n -> N.lxor x (N.ones n) = 2 ^ n - 1 - x.
Proof. intros H. rewrite <- notw_eq by assumption. reflexivity. Qed.

Theorem x_not_spec byref a :
  Good a ->
  exists r, x_not byref a = Ok r /\ Good r /\ kind_of r = kind_of a /\ is_fixed r = is_fixed a /\
            abs r = s_not (abs a).
Proof.
  intros Ha. destruct (Good_view a Ha) as (Hc & Hs & H64).
  destruct (not_sel_spec byref (is_fixed a) (xw a) (xv a) Hc Hs H64) as (y & E & Hy & Hl & Hn & Hr).
  rewrite x_not_sel, E. cbn [bind].
  destruct (x_with_good a y Ha Hy Hl Hn) as (G1 & G2 & G3 & G4).
  exists (x_with a y). split; [reflexivity|]. split; [assumption|]. split; [assumption|].
  split; [assumption|]. rewrite G4, Hr, (Good_abs a Ha).
  unfold s_not. cbn [blen bval]. rewrite lxor_ones_low by (apply val_lt, Ha). reflexivity.
Qed.

(* ------------------------------------------------------------------ digits of the right operand *)

Lemma rhs_get_int w2 w1 r :
  std_width w2 -> std_width w1 -> canon_wv w2 r ->
  digits_of w1 (raw w2 (wd r)) (fun i => odefault (v_get_int w2 w1 r i) 0).
Proof.
  intros H2 H1 Hc i.
  apply (v_get_int_digits w2 w1 r (std_widths_ok _ _ H2 H1) Hc).
Qed.

Lemma rhs_same w r : 0 < w -> canon_wv w r -> digits_of w (raw w (wd r)) (fun i => getw (wd r) i).
Proof. intros Hw (Hd & _) i. apply getw_raw; assumption. Qed.

Lemma digits_mod w R rhs k :
  0 < w -> digits_of w R rhs -> digits_of w (R mod 2 ^ (w * k)) (fun i => if i <? k then rhs i else 0).
Proof.
  intros Hw H i. destruct (N.ltb_spec i k) as [Hi|Hi].
  - rewrite digit_mod by assumption. apply H.
  - rewrite N.div_small; [symmetry; apply N.mod_0_l, pow2_ne0|].
    eapply N.lt_le_trans; [apply N.mod_lt, pow2_ne0|]. apply pow2_le. apply N.mul_le_mono_l. assumption.
Qed.

Lemma int_len_bound j v : 0 < j -> wl v <= j * v_int_len j v.
Proof. intros Hj. unfold v_int_len. apply (ceil_div_spec (wl v) j Hj). apply N.le_refl. Qed.

Lemma int_len_64 v : v_int_len W64 v = cfbl_d (wl v).
Proof. unfold v_int_len, W64. rewrite Proofs.Arith.cfbl_d_eq. f_equal. lia. Qed.

Lemma get_int_unwrap w j r i :
  widths_ok w j -> canon_wv w r -> i < v_int_len j r ->
  unwrap (v_get_int w j r i) = Ok (odefault (v_get_int w j r i) 0).
Proof.
  intros Hwj Hc Hi. apply (v_get_int_some_iff w j r i Hwj Hc) in Hi. destruct Hi as [x ->]. reflexivity.
Qed.

Lemma get_int_none w j r i :
  widths_ok w j -> canon_wv w r -> v_int_len j r <= i -> odefault (v_get_int w j r i) 0 = 0.
Proof.
  intros Hwj Hc Hi. destruct (v_get_int w j r i) as [x|] eqn:E; [|reflexivity].
  assert (i < v_int_len j r) by (apply (v_get_int_some_iff w j r i Hwj Hc); eauto). lia.
Qed.

(* ------------------------------------------------------------------ & | ^ *)

Lemma bitop_00 o : bitop_fn o 0 0 = 0.
Proof. destruct o; reflexivity. Qed.

Lemma bitop_mod o a X R n :
  a < 2 ^ n -> X mod 2 ^ n = R mod 2 ^ n -> (bitop_fn o a X) mod 2 ^ n = bitop_fn o a (R mod 2 ^ n).
Proof.
  intros Ha HX. rewrite <- HX. apply N.bits_inj. intro i.
  rewrite mod_pow2_testbit, !bitop_testbit, mod_pow2_testbit.
  destruct (N.ltb_spec i n) as [Hi|Hi]; cbn [andb]; [reflexivity|].
  rewrite (testbit_high a n i) by assumption. symmetry. apply bitop_b_ff.
Qed.

Lemma mapi_ext f g d : (forall i, i < lenw d -> f i (getw d i) = g i (getw d i)) -> mapi f d = mapi g d.
Proof.
  intros H. apply list_ext_getw; [rewrite !lenw_mapi; reflexivity|].
  intros i Hi. rewrite lenw_mapi in Hi. rewrite !getw_mapi by assumption. apply H. assumption.
Qed.

Lemma omap_enum_mapi (g : N * N -> outcome N) (h : N -> N -> N) d :
  (forall i x, g (i, x) = Ok (h i x)) -> omap_list g (enum d) = Ok (mapi h d).
Proof.
  intros H. unfold enum, nrange, mapi, lenw. rewrite Nat2N.id. generalize 0%nat.
  induction d as [|x r IH]; intros k; cbn [length seq map combine omap_list]; [reflexivity|].
  rewrite H. cbn [bind]. rewrite IH. cbn [bind fst snd]. reflexivity.
Qed.

Lemma f_bitop_gen o w v rhs R :
  0 < w -> canon_wv w v -> digits_of w R rhs ->
  let y := mkwv (mod2n w (mapi (fun i x => bitop_fn o x (rhs i)) (wd v)) (wl v)) (wl v) in
  canon_wv w y /\ lenw (wd y) = lenw (wd v) /\
  raw w (wd y) = bitop_fn o (raw w (wd v)) (R mod 2 ^ wl v).
Proof.
  intros Hw (Hd & Hl & Hr) HR y.
  destruct (mapi_bitop_spec w o (wd v) rhs R Hw Hd HR) as [Hok Hraw].
  set (d' := mapi (fun i x => bitop_fn o x (rhs i)) (wd v)) in *.
  assert (Hlen : lenw d' = lenw (wd v)) by apply lenw_mapi.
  destruct (fixed_finish w d' (wl v) Hw Hok ltac:(rewrite Hlen; assumption)) as (F1 & F2 & F3).
  split; [exact F1|]. unfold y. cbn [wd].
  split; [rewrite F2; exact Hlen|].
  rewrite F3, Hraw. apply bitop_mod; [assumption|]. apply mod_mod_pow2. assumption.
Qed.

Lemma d_bitop_gen o v (g : N -> N -> N) rhs R :
  canon_wv 64 v -> digits_of 64 R rhs ->
  (forall i, i < lenw (wd v) ->
             g i (getw (wd v) i) = if i <? cfbl_d (wl v) then bitop_fn o (getw (wd v) i) (rhs i)
                                   else getw (wd v) i) ->
  let y := mkwv (mask_top64 (mapi g (wd v)) (wl v)) (wl v) in
  canon_wv 64 y /\ lenw (wd y) = lenw (wd v) /\
  raw 64 (wd y) = bitop_fn o (raw 64 (wd v)) (R mod 2 ^ wl v).
Proof.
  intros Hc HR Hg y. pose proof Hc as (Hd & Hl & Hr).
  assert (H64 : 0 < 64) by lia.
  pose proof (canon_cfbl_le v Hc) as Hk.
  set (ks := cfbl_d (wl v)) in *.
  assert (Hnk : wl v <= 64 * ks) by (unfold ks; rewrite Proofs.Arith.cfbl_d_eq; lia).
  set (rhs' := fun i => if i <? ks then rhs i else 0).
  assert (E : mapi g (wd v) = mapi (fun i x => bitop_fn o x (rhs' i)) (wd v)).
  { apply mapi_ext. intros i Hi. rewrite Hg by assumption. unfold rhs'.
    destruct (N.ltb_spec i ks) as [Hik|Hik]; [reflexivity|].
    rewrite (canon_high64 v i Hc Hik). symmetry. apply bitop_00. }
  pose proof (digits_mod 64 R rhs ks H64 HR) as HR'. fold rhs' in HR'.
  destruct (mapi_bitop_spec 64 o (wd v) rhs' _ H64 Hd HR') as [Hok Hraw].
  unfold y. rewrite E.
  set (d' := mapi (fun i x => bitop_fn o x (rhs' i)) (wd v)) in *.
  assert (Hlen : lenw d' = lenw (wd v)) by apply lenw_mapi.
  destruct (heap_finish d' (wl v) Hok) as (F1 & F2 & F3).
  { fold ks. rewrite Hlen. assumption. }
  { fold ks. intros q Hq. destruct (N.lt_ge_cases q (lenw (wd v))) as [Hlt|Hge].
    - unfold d'. rewrite getw_mapi by assumption. unfold rhs'.
      assert (q <? ks = false) as -> by (apply N.ltb_ge; assumption).
      rewrite (canon_high64 v q Hc Hq). apply bitop_00.
    - apply getw_high. rewrite Hlen. assumption. }
  split; [exact F1|]. cbn [wd]. split; [rewrite F2; exact Hlen|].
  rewrite F3, Hraw. apply bitop_mod; [assumption|].
  rewrite mod_mod_pow2 by assumption. apply mod_mod_pow2. assumption.
Qed.

Definition bitop_sel (o : bitop) (fa : bool) (wa : N) (va : wv) (fb : bool) (wb : N) (vb : wv)
  : outcome wv :=
  match fa, fb with
  | true, true => Ok (f_bitop_f o wa va wb vb)
  | true, false => Ok (f_bitop_d o wa va vb)
  | false, true => d_bitop_f o va wb vb
  | false, false => d_bitop_d o va vb
  end.

Lemma x_bitop_sel o a b :
  x_bitop o a b =
  let! y := bitop_sel o (is_fixed a) (xw a) (xv a) (is_fixed b) (xw b) (xv b) in Ok (x_with a y).
Proof.
  destruct a as [w v|v|[|] v]; destruct b as [w2 r|r|[|] r];
    unfold x_bitop, bitop_sel; cbn [core rewrap is_fixed xw xv x_with bind]; unfold BVP_W; try reflexivity;
    match goal with
    | |- context [d_bitop_f ?o ?v ?w ?r] => destruct (d_bitop_f o v w r)
    | |- context [d_bitop_d ?o ?v ?r] => destruct (d_bitop_d o v r)
    end; reflexivity.
Qed.

Lemma bitop_sel_spec o fa wa va fb wb vb :
  canon_wv wa va -> std_width wa -> (fa = false -> wa = 64) ->
  canon_wv wb vb -> std_width wb -> (fb = false -> wb = 64) ->
  exists y, bitop_sel o fa wa va fb wb vb = Ok y /\ canon_wv wa y /\ wl y = wl va /\
            (fa = true -> lenw (wd y) = lenw (wd va)) /\
            raw wa (wd y) = bitop_fn o (raw wa (wd va)) (raw wb (wd vb) mod 2 ^ wl va).
Proof.
  intros Hca Hsa Ha64 Hcb Hsb Hb64.
  pose proof (std_width_pos _ Hsa) as Hwa. pose proof (std_width_pos _ Hsb) as Hwb.
  unfold bitop_sel. destruct fa; destruct fb.
  - (* array, array *)
    eexists. split; [reflexivity|]. unfold f_bitop_f.
    destruct (N.eqb_spec wa wb) as [Heq|Hne].
    + subst wb.
      destruct (f_bitop_gen o wa va (fun i => getw (wd vb) i) _ Hwa Hca (rhs_same wa vb Hwa Hcb))
        as (G1 & G2 & G3).
      split; [exact G1|]. split; [reflexivity|]. split; [intros _; exact G2|exact G3].
    + destruct (f_bitop_gen o wa va _ _ Hwa Hca (rhs_get_int wb wa vb Hsb Hsa Hcb)) as (G1 & G2 & G3).
      split; [exact G1|]. split; [reflexivity|]. split; [intros _; exact G2|exact G3].
  - (* array, heap *)
    rewrite (Hb64 eq_refl) in *.
    eexists. split; [reflexivity|]. unfold f_bitop_d, W64.
    destruct (f_bitop_gen o wa va _ _ Hwa Hca (rhs_get_int 64 wa vb Hsb Hsa Hcb)) as (G1 & G2 & G3).
    split; [exact G1|]. split; [reflexivity|]. split; [intros _; exact G2|exact G3].
  - (* heap, array *)
    rewrite (Ha64 eq_refl) in *. unfold d_bitop_f.
    pose proof (canon_cfbl_le va Hca) as Hk.
    assert (lenw (wd va) <? cfbl_d (wl va) = false) as -> by (apply N.ltb_ge; assumption).
    pose proof (std_widths_ok wb 64 Hsb Hsa) as Hwj.
    set (ks := cfbl_d (wl va)) in *. set (kr := v_int_len W64 vb).
    set (f := bitop_fn o).
    rewrite (omap_enum_mapi _
               (fun i x => if i <? N.min kr ks then f x (odefault (v_get_int wb W64 vb i) 0)
                           else if i <? ks then f x 0 else x)).
    2:{ intros i x. destruct (N.ltb_spec i (N.min kr ks)) as [Hi|Hi].
        - unfold W64 in *. rewrite (get_int_unwrap wb 64 vb i Hwj Hcb) by (fold kr; lia). reflexivity.
        - destruct (i <? ks); reflexivity. }
    cbn [bind]. eexists. split; [reflexivity|].
    destruct (d_bitop_gen o va
                (fun i x => if i <? N.min kr ks then f x (odefault (v_get_int wb W64 vb i) 0)
                            else if i <? ks then f x 0 else x)
                _ _ Hca (rhs_get_int wb 64 vb Hsb Hsa Hcb)) as (G1 & G2 & G3).
    { intros i Hi. fold ks. unfold f, W64 in *.
      destruct (N.ltb_spec i (N.min kr ks)) as [H1|H1]; destruct (N.ltb_spec i ks) as [H2|H2];
        try reflexivity; try lia.
      rewrite (get_int_none wb 64 vb i Hwj Hcb) by (fold kr; lia). reflexivity. }
    split; [exact G1|]. split; [reflexivity|]. split; [intros; discriminate|exact G3].
  - (* heap, heap *)
    rewrite (Ha64 eq_refl), (Hb64 eq_refl) in *. unfold d_bitop_d.
    pose proof (canon_cfbl_le va Hca) as Hk. pose proof (canon_cfbl_le vb Hcb) as Hkb.
    set (ks := cfbl_d (wl va)) in *. set (kr := cfbl_d (wl vb)) in *.
    assert ((lenw (wd va) <? ks) || (lenw (wd vb) <? N.min ks kr) = false) as ->.
    { apply orb_false_iff. split; apply N.ltb_ge; lia. }
    eexists. split; [reflexivity|].
    destruct (d_bitop_gen o va
                (fun i x => if i <? N.min ks kr then bitop_fn o x (getw (wd vb) i)
                            else if (kr <=? i) && (i <? ks) then bitop_fn o x 0 else x)
                _ _ Hca (rhs_same 64 vb Hwb Hcb)) as (G1 & G2 & G3).
    { intros i Hi. fold ks.
      destruct (N.ltb_spec i (N.min ks kr)) as [H1|H1]; destruct (N.ltb_spec i ks) as [H2|H2];
        destruct (N.leb_spec kr i) as [H3|H3]; cbn [andb]; try reflexivity; try lia.
      rewrite (canon_high64 vb i Hcb) by (fold kr; assumption). reflexivity. }
    split; [exact G1|]. split; [reflexivity|]. split; [intros; discriminate|exact G3].
Qed.

Theorem x_bitop_spec o a b :
  Good a -> Good b ->
  exists r, x_bitop o a b = Ok r /\ Good r /\ kind_of r = kind_of a /\ is_fixed r = is_fixed a /\
            abs r = s_bitop o (abs a) (abs b).
Proof.
  intros Ha Hb. destruct (Good_view a Ha) as (Hc & Hs & H64). destruct (Good_view b Hb) as (Hcb & Hsb & Hb64).
  destruct (bitop_sel_spec o _ _ _ _ _ _ Hc Hs H64 Hcb Hsb Hb64) as (y & E & Hy & Hl & Hn & Hr).
  rewrite x_bitop_sel, E. cbn [bind].
  destruct (x_with_good a y Ha Hy Hl Hn) as (G1 & G2 & G3 & G4).
  exists (x_with a y). split; [reflexivity|]. split; [assumption|]. split; [assumption|].
  split; [assumption|]. rewrite G4, Hr, (Good_abs a Ha), (Good_abs b Hb).
  destruct o; cbn [s_bitop bitop_fn]; unfold s_and, s_or, s_xor; cbn [blen bval];
    rewrite trunc_mod; reflexivity.
Qed.

(* ------------------------------------------------------------------ + - *)

Definition addsub_val (o : addop) (n a b : N) : N :=
  match o with
  | OpAdd => (a + b) mod 2 ^ n
  | OpSub => (a + 2 ^ n - b mod 2 ^ n) mod 2 ^ n
  end.

Lemma addsub_val_mod o n a R m : n <= m -> addsub_val o n a (R mod 2 ^ m) = addsub_val o n a R.
Proof.
  intros H. destruct o; cbn [addsub_val].
  - rewrite (N.add_mod a (R mod 2 ^ m)) by apply pow2_ne0. rewrite mod_mod_pow2 by assumption.
    rewrite <- N.add_mod by apply pow2_ne0. reflexivity.
  - rewrite mod_mod_pow2 by assumption. reflexivity.
Qed.

Lemma f_chain_gen o w v rhs R :
  0 < w -> canon_wv w v -> digits_of w R rhs ->
  let y := (let '(d, _) := carry_chain (cstep o w) rhs (wd v) 0 0 in mkwv (mod2n w d (wl v)) (wl v)) in
  canon_wv w y /\ wl y = wl v /\ lenw (wd y) = lenw (wd v) /\
  raw w (wd y) = addsub_val o (wl v) (raw w (wd v)) R.
Proof.
  intros Hw (Hd & Hl & Hr) HR.
  assert (H : words_ok w (fst (carry_chain (cstep o w) rhs (wd v) 0 0)) /\
              lenw (fst (carry_chain (cstep o w) rhs (wd v) 0 0)) = lenw (wd v) /\
              raw w (fst (carry_chain (cstep o w) rhs (wd v) 0 0)) mod 2 ^ wl v
              = addsub_val o (wl v) (raw w (wd v)) R).
  { destruct o; cbn [cstep addsub_val].
    - destruct (carry_chain_add_spec w (wd v) rhs R Hw Hd HR) as (H1 & H2 & _ & _).
      split; [assumption|]. split; [assumption|]. apply add_mod_spec; assumption.
    - destruct (carry_chain_sub_spec w (wd v) rhs R Hw Hd HR) as (H1 & H2 & _ & _).
      split; [assumption|]. split; [assumption|]. apply sub_mod_spec; assumption. }
  destruct (carry_chain (cstep o w) rhs (wd v) 0 0) as [d c]. cbn [fst] in H.
  destruct H as (H1 & H2 & H3). cbv zeta.
  destruct (fixed_finish w d (wl v) Hw H1 ltac:(rewrite H2; assumption)) as (F1 & F2 & F3).
  split; [exact F1|]. cbn [wd wl]. split; [reflexivity|]. split; [rewrite F2; exact H2|].
  rewrite F3. exact H3.
Qed.

Lemma ceq_mod o n K D2 c2 D Rk :
  ceq o D2 (2 ^ n * K * c2) D Rk 0 -> D2 mod 2 ^ n = addsub_val o n D Rk.
Proof.
  pose proof (pow2_pos n) as HQ. set (Q := 2 ^ n) in *.
  destruct o; cbn [ceq addsub_val]; intros H; fold Q.
  - apply (mod_eq_of_add _ _ _ (K * c2) 0); [lia|]. rewrite N.mul_assoc. lia.
  - pose proof (div_mod_eq Rk Q) as E. pose proof (N.mod_lt Rk Q ltac:(lia)) as Hm.
    apply (mod_eq_of_add _ _ _ (Rk / Q + 1) (K * c2)); [lia|].
    rewrite N.mul_assoc, N.mul_add_distr_l.
    set (q := Rk / Q) in *. set (rm := Rk mod Q) in *. set (T := Q * K * c2) in *. set (Qq := Q * q) in *.
    clearbody Qq rm T. clear - H E Hm. lia.
Qed.

Lemma awin_low d n : Proofs.Arith.win d 0 n = raw 64 d mod 2 ^ (64 * n).
Proof.
  unfold Proofs.Arith.win. rewrite N.mul_0_r. change (2 ^ 0) with 1. rewrite N.div_1_r. reflexivity.
Qed.

Lemma awin_split d a n :
  raw 64 d mod 2 ^ (64 * (a + n)) = Proofs.Arith.win d 0 a + 2 ^ (64 * a) * Proofs.Arith.win d a n.
Proof.
  rewrite awin_low. unfold Proofs.Arith.win. replace (64 * (a + n)) with (64 * a + 64 * n) by lia.
  apply mod_pow2_split.
Qed.

Lemma chain_range_empty step rhs d a b c : b <= a -> chain_range step rhs d a b c = Ok (d, c).
Proof. intros H. unfold chain_range. replace (b - a) with 0 by lia. reflexivity. Qed.

(* the two consecutive loops of the heap-vector += / -= *)
Lemma two_ranges o d rhs R ks kr :
  words_ok 64 d -> ks <= lenw d -> R < 2 ^ (64 * kr) ->
  (forall i, i < N.min ks kr -> exists y, rhs i = Ok y /\ y = (R / 2 ^ (64 * i)) mod 2 ^ 64) ->
  exists d1 c1 d2 c2,
    chain_range (ostep o) rhs d 0 (N.min ks kr) 0 = Ok (d1, c1) /\
    chain_range (ostep o) (fun _ => Ok 0) d1 kr ks c1 = Ok (d2, c2) /\
    words_ok 64 d2 /\ lenw d2 = lenw d /\ (forall i, ks <= i -> getw d2 i = getw d i) /\
    ceq o (raw 64 d2 mod 2 ^ (64 * ks)) (2 ^ (64 * ks) * c2) (raw 64 d mod 2 ^ (64 * ks))
        (R mod 2 ^ (64 * ks)) 0.
Proof.
  intros Hd Hks HR Hrhs.
  destruct (chain_range_spec o d rhs 0 (N.min ks kr) 0 R Hd) as (d1 & c1 & E1 & Hd1 & Hl1 & Hc1 & Hout1 & Heq1);
    [lia|lia|lia| |].
  { intros i _ Hi. replace (i - 0) with i by lia. apply Hrhs. assumption. }
  rewrite N.sub_0_r in Heq1. rewrite !awin_low in Heq1.
  destruct (N.le_gt_cases ks kr) as [Hle|Hgt].
  - rewrite N.min_l in * by assumption.
    exists d1, c1, d1, c1. split; [exact E1|]. split; [apply chain_range_empty; assumption|].
    split; [assumption|]. split; [assumption|]. split; [|exact Heq1].
    intros i Hi. apply Hout1. right. assumption.
  - rewrite N.min_r in * by lia.
    destruct (chain_range_spec o d1 (fun _ => Ok 0) kr ks c1 0 Hd1) as (d2 & c2 & E2 & Hd2 & Hl2 & Hc2 & Hout2 & Heq2);
      [lia|lia|assumption| |].
    { intros i _ _. exists 0. split; [reflexivity|].
      rewrite N.div_0_l by apply pow2_ne0. rewrite N.mod_0_l by apply pow2_ne0. reflexivity. }
    exists d1, c1, d2, c2. split; [exact E1|]. split; [exact E2|].
    split; [assumption|]. split; [congruence|]. split.
    { intros i Hi. rewrite Hout2 by lia. apply Hout1. lia. }
    set (m := ks - kr) in *. assert (Eks : ks = kr + m) by lia. rewrite Eks. clearbody m.
    rewrite !awin_split.
    replace (64 * (kr + m)) with (64 * kr + 64 * m) by lia. rewrite pow2_add.
    assert (Rm1 : R mod 2 ^ (64 * kr) = R) by (apply N.mod_small; assumption).
    assert (Rm2 : R mod (2 ^ (64 * kr) * 2 ^ (64 * m)) = R).
    { apply N.mod_small. pose proof (pow2_pos (64 * m)). nia. }
    rewrite Rm1 in Heq1. rewrite Rm2.
    rewrite N.mod_0_l in Heq2 by apply pow2_ne0.
    rewrite (Proofs.Arith.win_ext d2 d1 0 kr Hd2 Hd1) by (intros i _ Hi; apply Hout2; lia).
    rewrite <- (Proofs.Arith.win_ext d1 d kr m Hd1 Hd) by (intros i Hi _; apply Hout1; lia).
    pose proof (ceq_step o _ _ _ _ _ _ _ _ _ _ _ Heq1 Heq2) as H.
    rewrite N.mul_0_r, N.add_0_r in H. rewrite !awin_low. exact H.
Qed.

Lemma d_chain_gen o v rhs R kr :
  canon_wv 64 v -> R < 2 ^ (64 * kr) ->
  (forall i, i < N.min (cfbl_d (wl v)) kr -> exists y, rhs i = Ok y /\ y = (R / 2 ^ (64 * i)) mod 2 ^ 64) ->
  exists d1 c1 d2 c2,
    chain_range (ostep o) rhs (wd v) 0 (N.min (cfbl_d (wl v)) kr) 0 = Ok (d1, c1) /\
    chain_range (ostep o) (fun _ => Ok 0) d1 kr (cfbl_d (wl v)) c1 = Ok (d2, c2) /\
    canon_wv 64 (mkwv (mask_top64 d2 (wl v)) (wl v)) /\
    lenw (mask_top64 d2 (wl v)) = lenw (wd v) /\
    raw 64 (mask_top64 d2 (wl v)) = addsub_val o (wl v) (raw 64 (wd v)) R.
Proof.
  intros Hc HR Hrhs. pose proof Hc as (Hd & Hl & Hr).
  pose proof (canon_cfbl_le v Hc) as Hk.
  assert (Hnk : wl v <= 64 * cfbl_d (wl v)) by (rewrite Proofs.Arith.cfbl_d_eq; lia).
  set (ks := cfbl_d (wl v)) in *.
  destruct (two_ranges o (wd v) rhs R ks kr Hd Hk HR Hrhs)
    as (d1 & c1 & d2 & c2 & E1 & E2 & Hd2 & Hl2 & Hout & Heq).
  exists d1, c1, d2, c2. split; [exact E1|]. split; [exact E2|].
  destruct (heap_finish d2 (wl v) Hd2) as (F1 & F2 & F3).
  { fold ks. rewrite Hl2. assumption. }
  { fold ks. intros q Hq. rewrite Hout by assumption. apply canon_high64; assumption. }
  split; [exact F1|]. split; [rewrite F2; exact Hl2|].
  rewrite F3. rewrite <- (mod_mod_pow2 (raw 64 d2) (wl v) (64 * ks) Hnk).
  rewrite (pow2_split (wl v) (64 * ks) Hnk) in Heq at 2.
  rewrite (ceq_mod o _ _ _ _ _ _ Heq).
  rewrite addsub_val_mod by assumption. f_equal.
  apply N.mod_small. eapply N.lt_le_trans; [exact Hr|]. apply pow2_le. assumption.
Qed.

Definition addsub_sel (o : addop) (fa : bool) (wa : N) (va : wv) (fb : bool) (wb : N) (vb : wv)
  : outcome wv :=
  match fa, fb with
  | true, true => Ok (f_addsub_f o wa va wb vb)
  | true, false => Ok (f_addsub_d o wa va vb)
  | false, true => d_addsub_f o va wb vb
  | false, false => d_addsub_d o va vb
  end.

Lemma x_addsub_sel o a b :
  x_addsub o a b =
  let! y := addsub_sel o (is_fixed a) (xw a) (xv a) (is_fixed b) (xw b) (xv b) in Ok (x_with a y).
Proof.
  destruct a as [w v|v|[|] v]; destruct b as [w2 r|r|[|] r];
    unfold x_addsub, addsub_sel; cbn [core rewrap is_fixed xw xv x_with bind]; unfold BVP_W; try reflexivity;
    match goal with
    | |- context [d_addsub_f ?o ?v ?w ?r] => destruct (d_addsub_f o v w r)
    | |- context [d_addsub_d ?o ?v ?r] => destruct (d_addsub_d o v r)
    end; reflexivity.
Qed.

Lemma addsub_sel_spec o fa wa va fb wb vb :
  canon_wv wa va -> std_width wa -> (fa = false -> wa = 64) ->
  canon_wv wb vb -> std_width wb -> (fb = false -> wb = 64) ->
  exists y, addsub_sel o fa wa va fb wb vb = Ok y /\ canon_wv wa y /\ wl y = wl va /\
            (fa = true -> lenw (wd y) = lenw (wd va)) /\
            raw wa (wd y) = addsub_val o (wl va) (raw wa (wd va)) (raw wb (wd vb)).
Proof.
  intros Hca Hsa Ha64 Hcb Hsb Hb64.
  pose proof (std_width_pos _ Hsa) as Hwa. pose proof (std_width_pos _ Hsb) as Hwb.
  unfold addsub_sel. destruct fa; destruct fb.
  - eexists. split; [reflexivity|]. unfold f_addsub_f.
    destruct (N.eqb_spec wa wb) as [Heq|Hne].
    + subst wb.
      destruct (f_chain_gen o wa va (fun i => getw (wd vb) i) _ Hwa Hca (rhs_same wa vb Hwa Hcb))
        as (G1 & G2 & G3 & G4).
      split; [exact G1|]. split; [exact G2|]. split; [intros _; exact G3|exact G4].
    + destruct (f_chain_gen o wa va _ _ Hwa Hca (rhs_get_int wb wa vb Hsb Hsa Hcb)) as (G1 & G2 & G3 & G4).
      split; [exact G1|]. split; [exact G2|]. split; [intros _; exact G3|exact G4].
  - rewrite (Hb64 eq_refl) in *.
    eexists. split; [reflexivity|]. unfold f_addsub_d, W64.
    destruct (f_chain_gen o wa va _ _ Hwa Hca (rhs_get_int 64 wa vb Hsb Hsa Hcb)) as (G1 & G2 & G3 & G4).
    split; [exact G1|]. split; [exact G2|]. split; [intros _; exact G3|exact G4].
  - rewrite (Ha64 eq_refl) in *. unfold d_addsub_f.
    pose proof (std_widths_ok wb 64 Hsb Hsa) as Hwj.
    assert (HR : raw wb (wd vb) < 2 ^ (64 * v_int_len W64 vb)).
    { destruct Hcb as (_ & _ & Hr). eapply N.lt_le_trans; [exact Hr|]. apply pow2_le.
      unfold W64. apply int_len_bound. lia. }
    destruct (d_chain_gen o va (fun i => unwrap (v_get_int wb W64 vb i)) _ (v_int_len W64 vb) Hca HR)
      as (d1 & c1 & d2 & c2 & E1 & E2 & G1 & G2 & G3).
    { intros i Hi. eexists. unfold W64 in *.
      split; [apply (get_int_unwrap wb 64 vb i Hwj Hcb); lia|].
      apply (rhs_get_int wb 64 vb Hsb Hsa Hcb). }
    rewrite (N.min_comm (v_int_len W64 vb)), E1. cbn [bind]. rewrite E2. cbn [bind].
    eexists. split; [reflexivity|]. split; [exact G1|]. split; [reflexivity|].
    split; [intros; discriminate|exact G3].
  - rewrite (Ha64 eq_refl), (Hb64 eq_refl) in *. unfold d_addsub_d.
    pose proof (canon_cfbl_le vb Hcb) as Hkb.
    assert (HR : raw 64 (wd vb) < 2 ^ (64 * cfbl_d (wl vb))).
    { destruct Hcb as (_ & _ & Hr). eapply N.lt_le_trans; [exact Hr|]. apply pow2_le.
      rewrite Proofs.Arith.cfbl_d_eq. lia. }
    destruct (d_chain_gen o va (fun i => geto (wd vb) i) _ (cfbl_d (wl vb)) Hca HR)
      as (d1 & c1 & d2 & c2 & E1 & E2 & G1 & G2 & G3).
    { intros i Hi. eexists. split; [apply geto_ok; lia|].
      apply (getw_raw 64); [lia|apply Hcb]. }
    rewrite E1. cbn [bind]. rewrite E2. cbn [bind].
    eexists. split; [reflexivity|]. split; [exact G1|]. split; [reflexivity|].
    split; [intros; discriminate|exact G3].
Qed.

Theorem x_addsub_spec o a b :
  Good a -> Good b ->
  exists r, x_addsub o a b = Ok r /\ Good r /\ kind_of r = kind_of a /\ is_fixed r = is_fixed a /\
            abs r = s_addsub o (abs a) (abs b).
Proof.
  intros Ha Hb. destruct (Good_view a Ha) as (Hc & Hs & H64). destruct (Good_view b Hb) as (Hcb & Hsb & Hb64).
  destruct (addsub_sel_spec o _ _ _ _ _ _ Hc Hs H64 Hcb Hsb Hb64) as (y & E & Hy & Hl & Hn & Hr).
  rewrite x_addsub_sel, E. cbn [bind].
  destruct (x_with_good a y Ha Hy Hl Hn) as (G1 & G2 & G3 & G4).
  exists (x_with a y). split; [reflexivity|]. split; [assumption|]. split; [assumption|].
  split; [assumption|]. rewrite G4, Hr, (Good_abs a Ha), (Good_abs b Hb).
  destruct o; cbn [s_addsub addsub_val]; unfold s_add, s_sub; cbn [blen bval];
    rewrite ?trunc_mod, ?pow2_eq; reflexivity.
Qed.

(* ------------------------------------------------------------------ == and < *)

Lemma raw_lt_int_len w j v n :
  0 < j -> canon_wv w v -> v_int_len j v <= n -> raw w (wd v) < 2 ^ (j * n).
Proof.
  intros Hj (_ & _ & Hr) Hn. eapply N.lt_le_trans; [exact Hr|]. apply pow2_le.
  etransitivity; [apply (int_len_bound j v Hj)|]. apply N.mul_le_mono_l. assumption.
Qed.

Lemma ff_words_spec w1 s w2 o :
  std_width w1 -> std_width w2 -> canon_wv w1 s -> canon_wv w2 o ->
  f_eq_f w1 s w2 o = (raw w1 (wd s) =? raw w2 (wd o)) /\
  f_cmp_f w1 s w2 o = N.compare (raw w1 (wd s)) (raw w2 (wd o)).
Proof.
  intros H1 H2 Hs Ho. pose proof (std_width_pos _ H2) as Hw2.
  unfold f_eq_f, f_cmp_f, ff_words.
  pose proof (rhs_get_int w1 w2 s H1 H2 Hs) as Da. pose proof (rhs_get_int w2 w2 o H2 H2 Ho) as Db.
  assert (Ba : raw w1 (wd s) < 2 ^ (w2 * N.max (v_int_len w2 s) (v_int_len w2 o)))
    by (apply raw_lt_int_len; [assumption|assumption|lia]).
  assert (Bb : raw w2 (wd o) < 2 ^ (w2 * N.max (v_int_len w2 s) (v_int_len w2 o)))
    by (apply raw_lt_int_len; [assumption|assumption|lia]).
  split; [apply (eq_words_spec w2)|apply (cmp_words_spec w2)]; assumption.
Qed.

Lemma df_words_spec s w2 o :
  std_width w2 -> canon_wv 64 s -> canon_wv w2 o ->
  d_eq_f s w2 o = (raw 64 (wd s) =? raw w2 (wd o)) /\
  d_cmp_f s w2 o = N.compare (raw 64 (wd s)) (raw w2 (wd o)).
Proof.
  intros H2 Hs Ho. assert (H64 : 0 < 64) by lia.
  unfold d_eq_f, d_cmp_f, df_words, W64.
  pose proof (rhs_same 64 s H64 Hs) as Da. pose proof (rhs_get_int w2 64 o H2 std_width_64 Ho) as Db.
  assert (Ba : raw 64 (wd s) < 2 ^ (64 * N.max (wl s) (v_int_len 64 o))).
  { destruct Hs as (_ & _ & Hr). eapply N.lt_le_trans; [exact Hr|]. apply pow2_le. lia. }
  assert (Bb : raw w2 (wd o) < 2 ^ (64 * N.max (wl s) (v_int_len 64 o)))
    by (apply raw_lt_int_len; [assumption|assumption|lia]).
  split; [apply (eq_words_spec 64)|apply (cmp_words_spec 64)]; assumption.
Qed.

Definition eq_sel (fa : bool) (wa : N) (va : wv) (fb : bool) (wb : N) (vb : wv) : bool :=
  match fa, fb with
  | true, true => f_eq_f wa va wb vb
  | true, false => d_eq_f vb wa va
  | false, true => d_eq_f va wb vb
  | false, false => d_eq_d va vb
  end.

Definition cmp_sel (fa : bool) (wa : N) (va : wv) (fb : bool) (wb : N) (vb : wv) : comparison :=
  match fa, fb with
  | true, true => f_cmp_f wa va wb vb
  | true, false => cmp_rev (d_cmp_f vb wa va)
  | false, true => d_cmp_f va wb vb
  | false, false => d_cmp_d va vb
  end.

Lemma x_eq_sel a b : x_eq a b = eq_sel (is_fixed a) (xw a) (xv a) (is_fixed b) (xw b) (xv b).
Proof. destruct a as [w v|v|[|] v]; destruct b as [w2 r|r|[|] r]; reflexivity. Qed.

Lemma x_cmp_sel a b : x_cmp a b = cmp_sel (is_fixed a) (xw a) (xv a) (is_fixed b) (xw b) (xv b).
Proof. destruct a as [w v|v|[|] v]; destruct b as [w2 r|r|[|] r]; reflexivity. Qed.

Lemma eq_cmp_sel_spec fa wa va fb wb vb :
  canon_wv wa va -> std_width wa -> (fa = false -> wa = 64) ->
  canon_wv wb vb -> std_width wb -> (fb = false -> wb = 64) ->
  eq_sel fa wa va fb wb vb = (raw wa (wd va) =? raw wb (wd vb)) /\
  cmp_sel fa wa va fb wb vb = N.compare (raw wa (wd va)) (raw wb (wd vb)).
Proof.
  intros Hca Hsa Ha64 Hcb Hsb Hb64. unfold eq_sel, cmp_sel. destruct fa; destruct fb.
  - apply ff_words_spec; assumption.
  - rewrite (Hb64 eq_refl) in *. destruct (df_words_spec vb wa va Hsa Hcb Hca) as [E1 E2].
    rewrite E1, E2. split; [apply N.eqb_sym|]. unfold cmp_rev. symmetry. apply N.compare_antisym.
  - rewrite (Ha64 eq_refl) in *. apply df_words_spec; assumption.
  - rewrite (Ha64 eq_refl), (Hb64 eq_refl) in *.
    split; [apply d_eq_d_spec|apply d_cmp_d_spec]; assumption.
Qed.

Theorem x_eq_spec a b : Good a -> Good b -> x_eq a b = (bval (abs a) =? bval (abs b)).
Proof.
  intros Ha Hb. destruct (Good_view a Ha) as (Hc & Hs & H64). destruct (Good_view b Hb) as (Hcb & Hsb & Hb64).
  rewrite x_eq_sel, (Good_abs a Ha), (Good_abs b Hb). cbn [bval].
  apply (eq_cmp_sel_spec _ _ _ _ _ _ Hc Hs H64 Hcb Hsb Hb64).
Qed.

Theorem x_cmp_spec a b : Good a -> Good b -> x_cmp a b = N.compare (bval (abs a)) (bval (abs b)).
Proof.
  intros Ha Hb. destruct (Good_view a Ha) as (Hc & Hs & H64). destruct (Good_view b Hb) as (Hcb & Hsb & Hb64).
  rewrite x_cmp_sel, (Good_abs a Ha), (Good_abs b Hb). cbn [bval].
  apply (eq_cmp_sel_spec _ _ _ _ _ _ Hc Hs H64 Hcb Hsb Hb64).
Qed.

(* ------------------------------------------------------------------ * *)

Lemma mul_mod_down X A R n m :
  n <= m -> X mod 2 ^ m = (A mod 2 ^ m * R) mod 2 ^ m -> X mod 2 ^ n = (A * R) mod 2 ^ n.
Proof.
  intros H E. rewrite <- (mod_mod_pow2 X n m H), E, (mod_mod_pow2 _ n m H).
  rewrite N.mul_mod by apply pow2_ne0. rewrite (mod_mod_pow2 A n m H).
  rewrite <- N.mul_mod by apply pow2_ne0. reflexivity.
Qed.

Lemma f_mul_gen P w v rhs R :
  0 < w -> canon_wv w v -> Proofs.Mul.digits_of w R rhs ->
  exists d, mul_rows P w (wd v) rhs (zerosw (lenw (wd v))) (v_int_len w v) = Ok d /\
    canon_wv w (mkwv (mod2n w d (wl v)) (wl v)) /\ lenw (mod2n w d (wl v)) = lenw (wd v) /\
    raw w (mod2n w d (wl v)) = (raw w (wd v) * R) mod 2 ^ wl v.
Proof.
  intros Hw (Hd & Hl & Hr) HR.
  assert (Hlen : v_int_len w v <= lenw (wd v)).
  { unfold v_int_len. apply (ceil_div_spec (wl v) w Hw). assumption. }
  destruct (mul_rows_spec P w (wd v) rhs R (v_int_len w v) Hw Hd HR Hlen) as (res & E & Hres & Hlr & Hm & _).
  exists res. split; [exact E|].
  destruct (fixed_finish w res (wl v) Hw Hres ltac:(rewrite Hlr; assumption)) as (F1 & F2 & F3).
  split; [exact F1|]. split; [rewrite F2; exact Hlr|]. rewrite F3.
  apply (mul_mod_down _ _ _ _ (w * v_int_len w v)); [apply int_len_bound; assumption|exact Hm].
Qed.

Lemma d_mul_gen P v rhs R :
  canon_wv 64 v -> Proofs.Mul.digits_of 64 R rhs ->
  exists d, mul_rows P 64 (wd v) rhs (zerosw (cfbl_d (wl v))) (cfbl_d (wl v)) = Ok d /\
    canon_wv 64 (mkwv (mask_top64 d (wl v)) (wl v)) /\
    raw 64 (mask_top64 d (wl v)) = (raw 64 (wd v) * R) mod 2 ^ wl v.
Proof.
  intros Hc HR. pose proof Hc as (Hd & Hl & Hr). assert (H64 : 0 < 64) by lia.
  pose proof (canon_cfbl_le v Hc) as Hk.
  assert (Hnk : wl v <= 64 * cfbl_d (wl v)) by (rewrite Proofs.Arith.cfbl_d_eq; lia).
  set (ks := cfbl_d (wl v)) in *.
  destruct (mul_rows_spec_gen P 64 (wd v) rhs R ks ks H64 Hd HR Hk (N.le_refl ks))
    as (res & E & Hres & Hlr & Hm & Hz).
  exists res. split; [exact E|].
  destruct (heap_finish res (wl v) Hres) as (F1 & F2 & F3).
  { fold ks. rewrite Hlr. apply N.le_refl. }
  { fold ks. exact Hz. }
  split; [exact F1|]. rewrite F3.
  apply (mul_mod_down _ _ _ _ (64 * ks)); [assumption|exact Hm].
Qed.

Definition mul_sel (P : profile) (fa : bool) (wa : N) (va : wv) (fb : bool) (wb : N) (vb : wv)
  : outcome wv :=
  match fa, fb with
  | true, _ => f_mul P wa va wb vb
  | false, true => d_mul_f P va wb vb
  | false, false => d_mul_d P va vb
  end.

Lemma x_mul_sel P a b :
  x_mul P a b =
  let! y := mul_sel P (is_fixed a) (xw a) (xv a) (is_fixed b) (xw b) (xv b) in Ok (x_with a y).
Proof.
  destruct a as [w v|v|[|] v]; destruct b as [w2 r|r|[|] r];
    unfold x_mul, mul_sel; cbn [core rewrap is_fixed xw xv x_with bind]; unfold BVP_W, W64;
    match goal with
    | |- context [f_mul ?P ?w ?v ?w2 ?r] => destruct (f_mul P w v w2 r)
    | |- context [d_mul_f ?P ?v ?w ?r] => destruct (d_mul_f P v w r)
    | |- context [d_mul_d ?P ?v ?r] => destruct (d_mul_d P v r)
    end; reflexivity.
Qed.

Lemma mul_sel_spec P fa wa va fb wb vb :
  canon_wv wa va -> std_width wa -> (fa = false -> wa = 64) ->
  canon_wv wb vb -> std_width wb -> (fb = false -> wb = 64) ->
  exists y, mul_sel P fa wa va fb wb vb = Ok y /\ canon_wv wa y /\ wl y = wl va /\
            (fa = true -> lenw (wd y) = lenw (wd va)) /\
            raw wa (wd y) = (raw wa (wd va) * raw wb (wd vb)) mod 2 ^ wl va.
Proof.
  intros Hca Hsa Ha64 Hcb Hsb Hb64.
  pose proof (std_width_pos _ Hsa) as Hwa. pose proof (std_width_pos _ Hsb) as Hwb.
  unfold mul_sel. destruct fa.
  - (* array on the left: the right operand through get_int::<I1> whatever its type *)
    unfold f_mul, f_zeros.
    assert (wl va <=? wa * lenw (wd va) = true) as -> by (apply N.leb_le; apply Hca).
    cbn [assert_ bind wd wl].
    destruct (f_mul_gen P wa va _ _ Hwa Hca (rhs_get_int wb wa vb Hsb Hsa Hcb)) as (d & E & G1 & G2 & G3).
    change (v_int_len wa {| wd := zerosw (lenw (wd va)); wl := wl va |}) with (v_int_len wa va).
    rewrite E. cbn [bind].
    eexists. split; [reflexivity|]. split; [exact G1|]. split; [reflexivity|].
    split; [intros _; exact G2|exact G3].
  - rewrite (Ha64 eq_refl) in *. destruct fb.
    + unfold d_mul_f, d_zeros. cbn [wd wl].
      change (v_int_len W64 {| wd := zerosw (cfbl_d (wl va)); wl := wl va |}) with (v_int_len W64 va).
      rewrite int_len_64. unfold W64.
      destruct (d_mul_gen P va _ _ Hca (rhs_get_int wb 64 vb Hsb Hsa Hcb)) as (d & E & G1 & G3).
      rewrite E. cbn [bind]. eexists. split; [reflexivity|]. split; [exact G1|]. split; [reflexivity|].
      split; [intros; discriminate|exact G3].
    + rewrite (Hb64 eq_refl) in *. unfold d_mul_d, d_zeros. cbn [wd wl]. unfold W64.
      destruct (d_mul_gen P va _ _ Hca (rhs_same 64 vb Hwb Hcb)) as (d & E & G1 & G3).
      rewrite E. cbn [bind]. eexists. split; [reflexivity|]. split; [exact G1|]. split; [reflexivity|].
      split; [intros; discriminate|exact G3].
Qed.

Theorem x_mul_spec P a b :
  Good a -> Good b ->
  exists r, x_mul P a b = Ok r /\ Good r /\ kind_of r = kind_of a /\ is_fixed r = is_fixed a /\
            abs r = s_mul (abs a) (abs b).
Proof.
  intros Ha Hb. destruct (Good_view a Ha) as (Hc & Hs & H64). destruct (Good_view b Hb) as (Hcb & Hsb & Hb64).
  destruct (mul_sel_spec P _ _ _ _ _ _ Hc Hs H64 Hcb Hsb Hb64) as (y & E & Hy & Hl & Hn & Hr).
  rewrite x_mul_sel, E. cbn [bind].
  destruct (x_with_good a y Ha Hy Hl Hn) as (G1 & G2 & G3 & G4).
  exists (x_with a y). split; [reflexivity|]. split; [assumption|]. split; [assumption|].
  split; [assumption|]. rewrite G4, Hr, (Good_abs a Ha), (Good_abs b Hb).
  unfold s_mul. cbn [blen bval]. rewrite trunc_mod. reflexivity.
Qed.
