(* Proofs/Pairings.v *)
From BVA Require Import Base.Prelude Base.Result Base.Words Base.Limbs.
From BVA Require Import Model.Core Model.Ops Model.Arith Model.Conv Model.Auto Model.Run Spec.Spec Spec.Prop.
From BVA Require Import Proofs.Common Proofs.Rechunk Proofs.Lift.
From Coq Require Import ZifyBool ZifyN ZifyNat.
From BVA Require Import Proofs.Arith Proofs.Mul Proofs.Cmp.

(* The operators of Model/Auto.v (x_not, x_bitop, x_addsub, x_mul, x_eq, x_cmp) against the
   specification functions of Spec/Spec.v, for every pairing of operand types.

   Plan: every operator is first rewritten as a selection on the storage view
   (is_fixed, xw, xv) of its two operands (`*_sel`); the storage-level lemma `*_sel_spec`
   combines the word-list lemmas of Arith.v / Mul.v / Cmp.v with the digit lemmas of
   Rechunk.v and the two finishing steps (mod2n for arrays, mask_top64 for heap vectors);
   `x_with_good` carries the result back to the value level. *)

Definition s_bitop (o : bitop) : bv -> bv -> bv :=
  match o with OpAnd => s_and | OpOr => s_or | OpXor => s_xor end.
Definition s_addsub (o : addop) : bv -> bv -> bv :=
  match o with OpAdd => s_add | OpSub => s_sub end.

(* ------------------------------------------------------------------ the storage view of a value *)

Lemma Good_view a :
  Good a -> canon_wv (xw a) (xv a) /\ std_width (xw a) /\ (is_fixed a = false -> xw a = 64).
Proof.
  intros [Hc Hs]. split; [apply Canon_wv; assumption|]. split; [assumption|].
  destruct a as [w v|v|[|] v]; cbn [is_fixed xw]; intros H; try reflexivity; discriminate.
Qed.

Lemma x_with_good a y :
  Good a -> canon_wv (xw a) y -> wl y = xlen a ->
  (is_fixed a = true -> lenw (wd y) = lenw (xdata a)) ->
  Good (x_with a y) /\ kind_of (x_with a y) = kind_of a /\ is_fixed (x_with a y) = is_fixed a /\
  abs (x_with a y) = mkbv (xlen a) (raw (xw a) (wd y)).
Proof.
  intros [[Hc Hx] Hs] Hy Hl Hn.
  assert (Habs : abs_wv (xw a) y = mkbv (xlen a) (raw (xw a) (wd y))).
  { rewrite abs_canon by assumption. rewrite Hl. reflexivity. }
  destruct a as [w v|v|[|] v]; cbn [x_with kind_of is_fixed xw xv xlen xdata] in *.
  - split; [|split; [|split]].
    + split; [apply Canon_XF; tauto|assumption].
    + rewrite Hn by reflexivity. reflexivity.
    + reflexivity.
    + exact Habs.
  - split; [|split; [|split]]; try reflexivity; [|exact Habs].
    split; [apply Canon_XD; assumption|assumption].
  - split; [|split; [|split]]; try reflexivity; [|exact Habs].
    split; [|assumption]. apply Canon_XA_fixed; [assumption|]. rewrite Hn by reflexivity. assumption.
  - split; [|split; [|split]]; try reflexivity; [|exact Habs].
    split; [apply Canon_XA_dyn; assumption|assumption].
Qed.

Lemma Good_abs a : Good a -> abs a = mkbv (xlen a) (val a).
Proof. intros [Hc _]. apply abs_Canon. assumption. Qed.

(* ------------------------------------------------------------------ the two finishing steps *)

Lemma fixed_finish w d n :
  0 < w -> words_ok w d -> n <= w * lenw d ->
  canon_wv w (mkwv (mod2n w d n) n) /\ lenw (mod2n w d n) = lenw d /\
  raw w (mod2n w d n) = raw w d mod 2 ^ n.
Proof.
  intros Hw Hd Hn.
  assert (E : raw w (mod2n w d n) = raw w d mod 2 ^ n) by (apply raw_mod2n; assumption).
  split; [|split; [apply lenw_mod2n|exact E]].
  unfold canon_wv. cbn [wd wl]. split; [apply words_ok_mod2n; assumption|].
  split; [rewrite lenw_mod2n; assumption|]. rewrite E. apply N.mod_lt, pow2_ne0.
Qed.

Lemma raw_mask_top64 d n :
  words_ok 64 d -> (forall q, cfbl_d n <= q -> getw d q = 0) ->
  raw 64 (mask_top64 d n) = raw 64 d mod 2 ^ n.
Proof.
  intros Hd Hz. assert (H64 : 0 < 64) by lia.
  apply N.bits_inj. intro i. rewrite mod_pow2_testbit.
  rewrite (raw_testbit 64 H64) by (apply words_ok_mask_top64; assumption).
  rewrite (raw_testbit 64 H64) by assumption.
  unfold mask_top64, W64. rewrite getw_upd_at.
  rewrite Proofs.Arith.cfbl_d_eq in Hz.
  destruct ((n / 64 =? i / 64) && (n / 64 <? lenw d)) eqn:E.
  - apply andb_true_iff in E. destruct E as [E1 E2]. apply N.eqb_eq in E1.
    rewrite E1. rewrite N.land_spec, maskw_testbit.
    assert (i mod 64 <? 64 = true) as -> by (apply N.ltb_lt; lia).
    rewrite andb_true_r.
    assert ((i mod 64 <? n mod 64) = (i <? n)) as ->.
    { destruct (N.ltb_spec (i mod 64) (n mod 64)); destruct (N.ltb_spec i n); try reflexivity; lia. }
    apply andb_comm.
  - destruct (N.ltb_spec i n) as [Hi|Hi]; [reflexivity|]. cbn [andb].
    apply andb_false_iff in E. destruct E as [E|E].
    + apply N.eqb_neq in E. rewrite Hz by lia. apply N.bits_0.
    + apply N.ltb_ge in E. rewrite getw_high by lia. apply N.bits_0.
Qed.

Lemma heap_finish d n :
  words_ok 64 d -> cfbl_d n <= lenw d -> (forall q, cfbl_d n <= q -> getw d q = 0) ->
  canon_wv 64 (mkwv (mask_top64 d n) n) /\ lenw (mask_top64 d n) = lenw d /\
  raw 64 (mask_top64 d n) = raw 64 d mod 2 ^ n.
Proof.
  intros Hd Hk Hz.
  assert (E : raw 64 (mask_top64 d n) = raw 64 d mod 2 ^ n) by (apply raw_mask_top64; assumption).
  split; [|split; [apply lenw_mask_top64|exact E]].
  unfold canon_wv. cbn [wd wl]. split; [apply words_ok_mask_top64; assumption|].
  split; [rewrite lenw_mask_top64; rewrite Proofs.Arith.cfbl_d_eq in Hk; lia|].
  rewrite E. apply N.mod_lt, pow2_ne0.
Qed.

(* used words of a canonical heap vector *)
Lemma canon_high64 v q : canon_wv 64 v -> cfbl_d (wl v) <= q -> getw (wd v) q = 0.
Proof.
  intros Hc Hq. apply (canon_getw_high 64); [lia|assumption|].
  rewrite Proofs.Arith.cfbl_d_eq in Hq. lia.
Qed.

(* ------------------------------------------------------------------ Not *)

Definition not_sel (byref : bool) (fa : bool) (wa : N) (va : wv) : outcome wv :=
  if fa then Ok (f_not wa va) else if byref then d_not_ref va else d_not va.

Lemma x_not_sel byref a :
  x_not byref a = let! y := not_sel byref (is_fixed a) (xw a) (xv a) in Ok (x_with a y).
Proof.
  destruct a as [w v|v|[|] v]; cbn [x_not not_sel is_fixed xw xv x_with]; try reflexivity;
    destruct byref; reflexivity.
Qed.

Lemma not_sel_spec byref fa wa va :
  canon_wv wa va -> std_width wa -> (fa = false -> wa = 64) ->
  exists y, not_sel byref fa wa va = Ok y /\ canon_wv wa y /\ wl y = wl va /\
            (fa = true -> lenw (wd y) = lenw (wd va)) /\
            raw wa (wd y) = 2 ^ wl va - 1 - raw wa (wd va).
Proof.
  intros Hc Hs H64. unfold not_sel. destruct fa.
  - destruct (f_not_spec wa va (std_width_pos _ Hs) Hc) as (H1 & H2 & H3 & H4).
    eexists. split; [reflexivity|]. split; [assumption|]. split; [assumption|].
    split; [intros _; assumption|assumption].
  - rewrite (H64 eq_refl) in *. destruct byref.
    + destruct (d_not_ref_spec va Hc) as (r & E & H1 & H2 & H3 & H4).
      exists r. split; [assumption|]. split; [assumption|]. split; [assumption|].
      split; [intros; discriminate|assumption].
    + destruct (d_not_spec va Hc) as (r & E & H1 & H2 & H3 & H4).
      exists r. split; [assumption|]. split; [assumption|]. split; [assumption|].
      split; [intros; discriminate|assumption].
Qed.

Lemma lxor_ones_low n x : x < 2 ^ n -> N.lxor x (N.ones n) = 2 ^ n - 1 - x.
Proof. intros H. rewrite <- notw_eq by assumption. reflexivity. Qed.

Theorem x_not_spec byref a :
  Good a ->
  exists r, x_not byref a = Ok r /\ Good r /\ kind_of r = kind_of a /\ is_fixed r = is_fixed a /\
            abs r = s_not (abs a).
Proof.
  intros Ha. destruct (Good_view a Ha) as (Hc & Hs & H64).
  destruct (not_sel_spec byref (is_fixed a) (xw a) (xv a) Hc Hs H64) as (y & E & Hy & Hl & Hn & Hr).
  rewrite x_not_sel, E. cbn [bind].
  destruct (x_with_good a y Ha Hy Hl Hn) as (G1 & G2 & G3 & G4).
  exists (x_with a y). split; [reflexivity|]. split; [assumption|]. split; [assumption|].
  split; [assumption|]. rewrite G4, Hr, (Good_abs a Ha).
  unfold s_not. cbn [blen bval]. rewrite lxor_ones_low by (apply val_lt, Ha). reflexivity.
Qed.

(* ------------------------------------------------------------------ digits of the right operand *)

Lemma rhs_get_int w2 w1 r :
  std_width w2 -> std_width w1 -> canon_wv w2 r ->
  digits_of w1 (raw w2 (wd r)) (fun i => odefault (v_get_int w2 w1 r i) 0).
Proof.
  intros H2 H1 Hc i.
  apply (v_get_int_digits w2 w1 r (std_widths_ok _ _ H2 H1) Hc).
Qed.

Lemma rhs_same w r : 0 < w -> canon_wv w r -> digits_of w (raw w (wd r)) (fun i => getw (wd r) i).
Proof. intros Hw (Hd & _) i. apply getw_raw; assumption. Qed.

Lemma digits_mod w R rhs k :
  0 < w -> digits_of w R rhs -> digits_of w (R mod 2 ^ (w * k)) (fun i => if i <? k then rhs i else 0).
Proof.
  intros Hw H i. destruct (N.ltb_spec i k) as [Hi|Hi].
  - rewrite digit_mod by assumption. apply H.
  - rewrite N.div_small; [symmetry; apply N.mod_0_l, pow2_ne0|].
    eapply N.lt_le_trans; [apply N.mod_lt, pow2_ne0|]. apply pow2_le. apply N.mul_le_mono_l. assumption.
Qed.

Lemma int_len_bound j v : 0 < j -> wl v <= j * v_int_len j v.
Proof. intros Hj. unfold v_int_len. apply (ceil_div_spec (wl v) j Hj). apply N.le_refl. Qed.

Lemma int_len_64 v : v_int_len W64 v = cfbl_d (wl v).
Proof. unfold v_int_len, W64. rewrite Proofs.Arith.cfbl_d_eq. f_equal. lia. Qed.

Lemma get_int_unwrap w j r i :
  widths_ok w j -> canon_wv w r -> i < v_int_len j r ->
  unwrap (v_get_int w j r i) = Ok (odefault (v_get_int w j r i) 0).
Proof.
  intros Hwj Hc Hi. apply (v_get_int_some_iff w j r i Hwj Hc) in Hi. destruct Hi as [x ->]. reflexivity.
Qed.

Lemma get_int_none w j r i :
  widths_ok w j -> canon_wv w r -> v_int_len j r <= i -> odefault (v_get_int w j r i) 0 = 0.
Proof.
  intros Hwj Hc Hi. destruct (v_get_int w j r i) as [x|] eqn:E; [|reflexivity].
  assert (i < v_int_len j r) by (apply (v_get_int_some_iff w j r i Hwj Hc); eauto). lia.
Qed.

(* ------------------------------------------------------------------ & | ^ *)

Lemma bitop_00 o : bitop_fn o 0 0 = 0.
Proof. destruct o; reflexivity. Qed.

Lemma bitop_mod o a X R n :
  a < 2 ^ n -> X mod 2 ^ n = R mod 2 ^ n -> (bitop_fn o a X) mod 2 ^ n = bitop_fn o a (R mod 2 ^ n).
Proof.
  intros Ha HX. rewrite <- HX. apply N.bits_inj. intro i.
  rewrite mod_pow2_testbit, !bitop_testbit, mod_pow2_testbit.
  destruct (N.ltb_spec i n) as [Hi|Hi]; cbn [andb]; [reflexivity|].
  rewrite (testbit_high a n i) by assumption. symmetry. apply bitop_b_ff.
Qed.

Lemma mapi_ext f g d : (forall i, i < lenw d -> f i (getw d i) = g i (getw d i)) -> mapi f d = mapi g d.
Proof.
  intros H. apply list_ext_getw; [rewrite !lenw_mapi; reflexivity|].
  intros i Hi. rewrite lenw_mapi in Hi. rewrite !getw_mapi by assumption. apply H. assumption.
Qed.

Lemma omap_enum_mapi (g : N * N -> outcome N) (h : N -> N -> N) d :
  (forall i x, g (i, x) = Ok (h i x)) -> omap_list g (enum d) = Ok (mapi h d).
Proof.
  intros H. unfold enum, nrange, mapi, lenw. rewrite Nat2N.id. generalize 0%nat.
  induction d as [|x r IH]; intros k; cbn [length seq map combine omap_list]; [reflexivity|].
  rewrite H. cbn [bind]. rewrite IH. cbn [bind fst snd]. reflexivity.
Qed.

Lemma f_bitop_gen o w v rhs R :
  0 < w -> canon_wv w v -> digits_of w R rhs ->
  let y := mkwv (mod2n w (mapi (fun i x => bitop_fn o x (rhs i)) (wd v)) (wl v)) (wl v) in
  canon_wv w y /\ lenw (wd y) = lenw (wd v) /\
  raw w (wd y) = bitop_fn o (raw w (wd v)) (R mod 2 ^ wl v).
Proof.
  intros Hw (Hd & Hl & Hr) HR y.
  destruct (mapi_bitop_spec w o (wd v) rhs R Hw Hd HR) as [Hok Hraw].
  set (d' := mapi (fun i x => bitop_fn o x (rhs i)) (wd v)) in *.
  assert (Hlen : lenw d' = lenw (wd v)) by apply lenw_mapi.
  destruct (fixed_finish w d' (wl v) Hw Hok ltac:(rewrite Hlen; assumption)) as (F1 & F2 & F3).
  split; [exact F1|]. unfold y. cbn [wd].
  split; [rewrite F2; exact Hlen|].
  rewrite F3, Hraw. apply bitop_mod; [assumption|]. apply mod_mod_pow2. assumption.
Qed.

Lemma d_bitop_gen o v (g : N -> N -> N) rhs R :
  canon_wv 64 v -> digits_of 64 R rhs ->
  (forall i, i < lenw (wd v) ->
             g i (getw (wd v) i) = if i <? cfbl_d (wl v) then bitop_fn o (getw (wd v) i) (rhs i)
                                   else getw (wd v) i) ->
  let y := mkwv (mask_top64 (mapi g (wd v)) (wl v)) (wl v) in
  canon_wv 64 y /\ lenw (wd y) = lenw (wd v) /\
  raw 64 (wd y) = bitop_fn o (raw 64 (wd v)) (R mod 2 ^ wl v).
Proof.
  intros Hc HR Hg y. pose proof Hc as (Hd & Hl & Hr).
  assert (H64 : 0 < 64) by lia.
  pose proof (canon_cfbl_le v Hc) as Hk.
  set (ks := cfbl_d (wl v)) in *.
  assert (Hnk : wl v <= 64 * ks) by (unfold ks; rewrite Proofs.Arith.cfbl_d_eq; lia).
  set (rhs' := fun i => if i <? ks then rhs i else 0).
  assert (E : mapi g (wd v) = mapi (fun i x => bitop_fn o x (rhs' i)) (wd v)).
  { apply mapi_ext. intros i Hi. rewrite Hg by assumption. unfold rhs'.
    destruct (N.ltb_spec i ks) as [Hik|Hik]; [reflexivity|].
    rewrite (canon_high64 v i Hc Hik). symmetry. apply bitop_00. }
  pose proof (digits_mod 64 R rhs ks H64 HR) as HR'. fold rhs' in HR'.
  destruct (mapi_bitop_spec 64 o (wd v) rhs' _ H64 Hd HR') as [Hok Hraw].
  unfold y. rewrite E.
  set (d' := mapi (fun i x => bitop_fn o x (rhs' i)) (wd v)) in *.
  assert (Hlen : lenw d' = lenw (wd v)) by apply lenw_mapi.
  destruct (heap_finish d' (wl v) Hok) as (F1 & F2 & F3).
  { fold ks. rewrite Hlen. assumption. }
  { fold ks. intros q Hq. destruct (N.lt_ge_cases q (lenw (wd v))) as [Hlt|Hge].
    - unfold d'. rewrite getw_mapi by assumption. unfold rhs'.
      assert (q <? ks = false) as -> by (apply N.ltb_ge; assumption).
      rewrite (canon_high64 v q Hc Hq). apply bitop_00.
    - apply getw_high. rewrite Hlen. assumption. }
  split; [exact F1|]. cbn [wd]. split; [rewrite F2; exact Hlen|].
  rewrite F3, Hraw. apply bitop_mod; [assumption|].
  rewrite mod_mod_pow2 by assumption. apply mod_mod_pow2. assumption.
Qed.

Definition bitop_sel (o : bitop) (fa : bool) (wa : N) (va : wv) (fb : bool) (wb : N) (vb : wv)
  : outcome wv :=
  match fa, fb with
  | true, true => Ok (f_bitop_f o wa va wb vb)
  | true, false => Ok (f_bitop_d o wa va vb)
  | false, true => d_bitop_f o va wb vb
  | false, false => d_bitop_d o va vb
  end.

Lemma x_bitop_sel o a b :
  x_bitop o a b =
  let! y := bitop_sel o (is_fixed a) (xw a) (xv a) (is_fixed b) (xw b) (xv b) in Ok (x_with a y).
Proof.
  destruct a as [w v|v|[|] v]; destruct b as [w2 r|r|[|] r];
    unfold x_bitop, bitop_sel; cbn [core rewrap is_fixed xw xv x_with bind]; try reflexivity;
    match goal with
    | |- context [d_bitop_f ?o ?v ?w ?r] => destruct (d_bitop_f o v w r)
    | |- context [d_bitop_d ?o ?v ?r] => destruct (d_bitop_d o v r)
    end; reflexivity.
Qed.

Lemma bitop_sel_spec o fa wa va fb wb vb :
  canon_wv wa va -> std_width wa -> (fa = false -> wa = 64) ->
  canon_wv wb vb -> std_width wb -> (fb = false -> wb = 64) ->
  exists y, bitop_sel o fa wa va fb wb vb = Ok y /\ canon_wv wa y /\ wl y = wl va /\
            (fa = true -> lenw (wd y) = lenw (wd va)) /\
            raw wa (wd y) = bitop_fn o (raw wa (wd va)) (raw wb (wd vb) mod 2 ^ wl va).
Proof.
  intros Hca Hsa Ha64 Hcb Hsb Hb64.
  pose proof (std_width_pos _ Hsa) as Hwa. pose proof (std_width_pos _ Hsb) as Hwb.
  unfold bitop_sel. destruct fa; destruct fb.
  - (* array, array *)
    eexists. split; [reflexivity|]. unfold f_bitop_f.
    destruct (N.eqb_spec wa wb) as [Heq|Hne].
    + subst wb.
      destruct (f_bitop_gen o wa va (fun i => getw (wd vb) i) _ Hwa Hca (rhs_same wa vb Hwa Hcb))
        as (G1 & G2 & G3).
      split; [exact G1|]. split; [reflexivity|]. split; [intros _; exact G2|exact G3].
    + destruct (f_bitop_gen o wa va _ _ Hwa Hca (rhs_get_int wb wa vb Hsb Hsa Hcb)) as (G1 & G2 & G3).
      split; [exact G1|]. split; [reflexivity|]. split; [intros _; exact G2|exact G3].
  - (* array, heap *)
    rewrite (Hb64 eq_refl) in *.
    eexists. split; [reflexivity|]. unfold f_bitop_d, W64.
    destruct (f_bitop_gen o wa va _ _ Hwa Hca (rhs_get_int 64 wa vb Hsb Hsa Hcb)) as (G1 & G2 & G3).
    split; [exact G1|]. split; [reflexivity|]. split; [intros _; exact G2|exact G3].
  - (* heap, array *)
    rewrite (Ha64 eq_refl) in *. unfold d_bitop_f.
    pose proof (canon_cfbl_le va Hca) as Hk.
    assert (lenw (wd va) <? cfbl_d (wl va) = false) as -> by (apply N.ltb_ge; assumption).
    pose proof (std_widths_ok wb 64 Hsb Hsa) as Hwj.
    set (ks := cfbl_d (wl va)) in *. set (kr := v_int_len W64 vb).
    set (f := bitop_fn o).
    rewrite (omap_enum_mapi _
               (fun i x => if i <? N.min kr ks then f x (odefault (v_get_int wb W64 vb i) 0)
                           else if i <? ks then f x 0 else x)).
    2:{ intros i x. destruct (N.ltb_spec i (N.min kr ks)) as [Hi|Hi].
        - unfold W64 in *. rewrite (get_int_unwrap wb 64 vb i Hwj Hcb) by (fold kr; lia). reflexivity.
        - destruct (i <? ks); reflexivity. }
    cbn [bind]. eexists. split; [reflexivity|].
    destruct (d_bitop_gen o va
                (fun i x => if i <? N.min kr ks then f x (odefault (v_get_int wb W64 vb i) 0)
                            else if i <? ks then f x 0 else x)
                _ _ Hca (rhs_get_int wb 64 vb Hsb Hsa Hcb)) as (G1 & G2 & G3).
    { intros i Hi. fold ks. unfold f, W64 in *.
      destruct (N.ltb_spec i (N.min kr ks)) as [H1|H1]; destruct (N.ltb_spec i ks) as [H2|H2];
        try reflexivity; try lia.
      rewrite (get_int_none wb 64 vb i Hwj Hcb) by (fold kr; lia). reflexivity. }
    split; [exact G1|]. split; [reflexivity|]. split; [intros; discriminate|exact G3].
  - (* heap, heap *)
    rewrite (Ha64 eq_refl), (Hb64 eq_refl) in *. unfold d_bitop_d.
    pose proof (canon_cfbl_le va Hca) as Hk. pose proof (canon_cfbl_le vb Hcb) as Hkb.
    set (ks := cfbl_d (wl va)) in *. set (kr := cfbl_d (wl vb)) in *.
    assert ((lenw (wd va) <? ks) || (lenw (wd vb) <? N.min ks kr) = false) as ->.
    { apply orb_false_iff. split; apply N.ltb_ge; lia. }
    eexists. split; [reflexivity|].
    destruct (d_bitop_gen o va
                (fun i x => if i <? N.min ks kr then bitop_fn o x (getw (wd vb) i)
                            else if (kr <=? i) && (i <? ks) then bitop_fn o x 0 else x)
                _ _ Hca (rhs_same 64 vb Hwb Hcb)) as (G1 & G2 & G3).
    { intros i Hi. fold ks.
      destruct (N.ltb_spec i (N.min ks kr)) as [H1|H1]; destruct (N.ltb_spec i ks) as [H2|H2];
        destruct (N.leb_spec kr i) as [H3|H3]; cbn [andb]; try reflexivity; try lia.
      rewrite (canon_high64 vb i Hcb) by (fold kr; assumption). reflexivity. }
    split; [exact G1|]. split; [reflexivity|]. split; [intros; discriminate|exact G3].
Qed.

Theorem x_bitop_spec o a b :
  Good a -> Good b ->
  exists r, x_bitop o a b = Ok r /\ Good r /\ kind_of r = kind_of a /\ is_fixed r = is_fixed a /\
            abs r = s_bitop o (abs a) (abs b).
Proof.
  intros Ha Hb. destruct (Good_view a Ha) as (Hc & Hs & H64). destruct (Good_view b Hb) as (Hcb & Hsb & Hb64).
  destruct (bitop_sel_spec o _ _ _ _ _ _ Hc Hs H64 Hcb Hsb Hb64) as (y & E & Hy & Hl & Hn & Hr).
  rewrite x_bitop_sel, E. cbn [bind].
  destruct (x_with_good a y Ha Hy Hl Hn) as (G1 & G2 & G3 & G4).
  exists (x_with a y). split; [reflexivity|]. split; [assumption|]. split; [assumption|].
  split; [assumption|]. rewrite G4, Hr, (Good_abs a Ha), (Good_abs b Hb).
  destruct o; cbn [s_bitop bitop_fn]; unfold s_and, s_or, s_xor; cbn [blen bval];
    rewrite trunc_mod; reflexivity.
Qed.
