(* Proofs/Shift.v *)
From BVA Require Import Base.Prelude Base.Result Base.Words Base.Limbs.
From BVA Require Import Model.Core Model.Ops Model.Arith Model.Conv Model.Auto Spec.Spec Proofs.Common.
From Coq Require Import ZifyBool ZifyN ZifyNat.

(* ------------------------------------------------------------------ small facts *)

Lemma wsub1_pos n : 0 < n -> wsub1 n = n - 1.
Proof. intros H. unfold wsub1. destruct (N.eqb_spec n 0); [lia|reflexivity]. Qed.

Lemma min_chunk a b : 1 <= N.min (a + 1) (b + 1) /\ N.min (a + 1) (b + 1) <= a + 1 /\ N.min (a + 1) (b + 1) <= b + 1.
Proof. lia. Qed.

Lemma b2n_testbit_le1 a i : N.b2n (N.testbit a i) <= 1.
Proof. destruct (N.testbit a i); cbn; lia. Qed.

Section S.
Variable w : N.
Hypothesis Hw : 0 < w.

(* a chunk of l bits ending just below position n, with l at most the number of bits of the
   word of bit n-1 that are below n, lies inside one word *)
Lemma down_window n l :
  0 < n -> 1 <= l -> l <= (n - 1) mod w + 1 -> l <= n /\ (n - l) mod w + l <= w.
Proof.
  intros Hn Hl Hle.
  pose proof (div_mod_eq (n - 1) w) as E. pose proof (mod_lt' (n - 1) w Hw) as Hm.
  pose proof (N.mod_le (n - 1) w) as Hle'.
  assert (l <= n) as Hln by lia. split; [assumption|].
  destruct (divmod_unique (n - l) w ((n - 1) / w) ((n - 1) mod w + 1 - l) Hw) as [_ ->]; lia.
Qed.

Lemma up_window n l : l <= w - n mod w -> n mod w + l <= w.
Proof. intros H. pose proof (mod_lt' n w Hw). lia. Qed.

Lemma up_chunk a b : 1 <= N.min (w - a mod w) (w - b mod w).
Proof. pose proof (mod_lt' a w Hw). pose proof (mod_lt' b w Hw). lia. Qed.

(* ------------------------------------------------------------------ or_bits *)

Lemma lor_lt a b n : a < 2 ^ n -> b < 2 ^ n -> N.lor a b < 2 ^ n.
Proof.
  intros Ha Hb. apply lt_pow2_of_bits. intros i Hi.
  rewrite N.lor_spec, (testbit_high a n i), (testbit_high b n i) by assumption. reflexivity.
Qed.

Lemma words_ok_or_bits d pos v : words_ok w d -> words_ok w (or_bits w d pos v).
Proof.
  intros Hd. unfold or_bits. apply words_ok_setw; [assumption|].
  apply lor_lt; [apply getw_ok; assumption|apply shlw_lt].
Qed.

Lemma lenw_or_bits d pos v : lenw (or_bits w d pos v) = lenw d.
Proof. unfold or_bits. apply lenw_setw. Qed.

Lemma or_bits_testbit d pos l v i :
  words_ok w d -> pos / w < lenw d -> pos mod w + l <= w -> v < 2 ^ l ->
  N.testbit (raw w (or_bits w d pos v)) i =
  N.testbit (raw w d) i || ((pos <=? i) && (i <? pos + l) && N.testbit v (i - pos)).
Proof.
  intros Hd Hp Hl Hv.
  rewrite !(raw_testbit w Hw) by (try apply words_ok_or_bits; assumption).
  unfold or_bits. rewrite getw_setw.
  assert (pos / w <? lenw d = true) as -> by (apply N.ltb_lt; assumption).
  rewrite andb_true_r.
  pose proof (div_mod_eq pos w) as Ep. pose proof (mod_lt' pos w Hw) as Hpm.
  pose proof (div_mod_eq i w) as Ei. pose proof (mod_lt' i w Hw) as Him.
  destruct (N.eqb_spec (pos / w) (i / w)) as [Heq|Hne].
  - rewrite N.lor_spec, shlw_testbit. rewrite Heq. f_equal.
    assert (i mod w <? w = true) as -> by (apply N.ltb_lt; assumption). cbn [andb].
    assert ((pos mod w <=? i mod w) = (pos <=? i)) as ->.
    { destruct (N.leb_spec (pos mod w) (i mod w)); destruct (N.leb_spec pos i); try reflexivity; nia. }
    destruct (N.leb_spec pos i) as [Hpi|Hpi]; cbn [andb]; [|reflexivity].
    assert (i mod w - pos mod w = i - pos) as -> by nia.
    destruct (N.ltb_spec i (pos + l)) as [Hil|Hil]; cbn [andb]; [reflexivity|].
    apply (testbit_high v l); [assumption|lia].
  - assert ((pos <=? i) && (i <? pos + l) = false) as ->; [|cbn [andb]; rewrite orb_false_r; reflexivity].
    apply andb_false_iff.
    destruct (N.lt_ge_cases (i / w) (pos / w)).
    + left. apply N.leb_gt. nia.
    + right. apply N.ltb_ge. assert (pos / w + 1 <= i / w) by lia. nia.
Qed.

(* ------------------------------------------------------------------ shl_assign *)

Definition shl_inv (d0 : list N) (len shift : N) (d : list N) (idx : N) : Prop :=
  words_ok w d /\ lenw d = lenw d0 /\ idx <= len /\
  forall i, N.testbit (raw w d) i =
            if idx <=? i then (shift <=? i) && (i <? len) && N.testbit (raw w d0) (i - shift)
            else N.testbit (raw w d0) i.

Lemma shl_step d0 len shift d idx l :
  len <= w * lenw d0 -> shl_inv d0 len shift d idx ->
  1 <= l -> shift + l <= idx -> (idx - l) mod w + l <= w -> (idx - l - shift) mod w + l <= w ->
  shl_inv d0 len shift (write_bits w d (idx - l) l (read_bits w d (idx - l - shift) l)) (idx - l).
Proof.
  intros Hlen (Hd & Hl & Hidx & Hb) Hl1 Hsl Hw1 Hw2.
  split; [apply words_ok_write_bits; assumption|].
  split; [rewrite lenw_write_bits; assumption|].
  split; [lia|]. intros i.
  rewrite (write_bits_testbit w Hw); try assumption.
  2:{ rewrite Hl. apply div_lt_of_lt_mul; [assumption|lia]. }
  2:{ apply read_bits_lt. }
  destruct (N.leb_spec (idx - l) i) as [H1|H1]; cbn [andb].
  - destruct (N.ltb_spec i (idx - l + l)) as [H2|H2].
    + rewrite (read_bits_testbit w Hw) by assumption.
      assert (i - (idx - l) <? l = true) as -> by (apply N.ltb_lt; lia). cbn [andb].
      replace (idx - l - shift + (i - (idx - l))) with (i - shift) by lia.
      rewrite Hb.
      assert (idx <=? i - shift = false) as -> by (apply N.leb_gt; lia).
      assert (shift <=? i = true) as -> by (apply N.leb_le; lia).
      assert (i <? len = true) as -> by (apply N.ltb_lt; lia).
      reflexivity.
    + rewrite Hb. assert (idx <=? i = true) as -> by (apply N.leb_le; lia). reflexivity.
  - rewrite Hb. assert (idx <=? i = false) as -> by (apply N.leb_gt; lia). reflexivity.
Qed.

Lemma shl_loop1_spec d0 len shift fuel : forall d idx,
  len <= w * lenw d0 -> shl_inv d0 len shift d idx -> (N.to_nat idx < fuel)%nat ->
  exists d' idx', shl_loop1 fuel w shift d idx = Ok (d', idx') /\
                  shl_inv d0 len shift d' idx' /\ idx' <= shift.
Proof.
  induction fuel as [|f IH]; intros d idx Hlen Hinv Hf; [lia|].
  cbn [shl_loop1].
  destruct (N.ltb_spec shift idx) as [Hs|Hs].
  - rewrite !wsub1_pos by lia.
    pose proof (min_chunk ((idx - 1) mod w) ((idx - shift - 1) mod w)) as (Hl1 & Hl2 & Hl3).
    set (l := N.min ((idx - 1) mod w + 1) ((idx - shift - 1) mod w + 1)) in *.
    destruct (down_window idx l) as [Ha1 Ha2]; [lia|assumption|assumption|].
    destruct (down_window (idx - shift) l) as [Hb1 Hb2]; [lia|assumption|assumption|].
    replace (idx - shift - l) with (idx - l - shift) in Hb2 by lia.
    apply IH; [assumption| |lia].
    apply shl_step; try assumption. lia.
  - exists d, idx. split; [reflexivity|]. split; assumption.
Qed.

Lemma shl_loop2_spec fuel : forall d idx,
  words_ok w d -> idx <= w * lenw d -> (N.to_nat idx < fuel)%nat ->
  exists d', shl_loop2 fuel w d idx = Ok d' /\ words_ok w d' /\ lenw d' = lenw d /\
             forall i, N.testbit (raw w d') i = if i <? idx then false else N.testbit (raw w d) i.
Proof.
  induction fuel as [|f IH]; intros d idx Hd Hidx Hf; [lia|].
  cbn [shl_loop2].
  destruct (N.ltb_spec 0 idx) as [Hs|Hs].
  - rewrite !wsub1_pos by lia.
    set (l := (idx - 1) mod w + 1).
    destruct (down_window idx l) as [Ha1 Ha2]; [lia|unfold l; lia|unfold l; lia|].
    assert (1 <= l) as Hl1 by (unfold l; lia).
    destruct (IH (clear_bits w d (idx - l) l) (idx - l)) as (d' & E & Hd' & Hl' & Hb').
    { apply words_ok_write_bits; assumption. }
    { unfold clear_bits. rewrite lenw_write_bits. lia. }
    { lia. }
    exists d'. split; [exact E|]. split; [assumption|].
    split; [rewrite Hl'; apply lenw_write_bits|].
    intros i. rewrite Hb'. unfold clear_bits.
    rewrite (write_bits_testbit w Hw); try assumption.
    2:{ apply div_lt_of_lt_mul; [assumption|lia]. }
    2:{ apply pow2_pos. }
    rewrite N.bits_0.
    destruct (N.ltb_spec i (idx - l)); destruct (N.ltb_spec i idx);
      destruct (N.leb_spec (idx - l) i); destruct (N.ltb_spec i (idx - l + l)); cbn [andb]; try reflexivity; lia.
  - exists d. split; [reflexivity|]. split; [assumption|]. split; [reflexivity|].
    intros i. assert (i <? idx = false) as -> by (apply N.ltb_ge; lia). reflexivity.
Qed.

End S.

Lemma shl_assign_spec w v k :
  0 < w -> canon_wv w v ->
  exists v', v_shl_assign w v k = Ok v' /\ canon_wv w v' /\ wl v' = wl v /\ lenw (wd v') = lenw (wd v) /\
    forall i, N.testbit (raw w (wd v')) i =
              (shift_amount k <=? i) && (i <? wl v) && N.testbit (raw w (wd v)) (i - shift_amount k).
Proof.
  intros Hw Hc. pose proof Hc as (Hd & Hlen & Hraw).
  unfold v_shl_assign. set (shift := shift_amount k).
  destruct (N.eqb_spec shift 0) as [Hs0|Hs0].
  - exists v. split; [reflexivity|]. split; [assumption|]. split; [reflexivity|]. split; [reflexivity|].
    intros i. rewrite Hs0, N.sub_0_r. cbn [andb N.leb].
    assert (0 <=? i = true) as -> by (apply N.leb_le; lia). cbn [andb].
    destruct (N.ltb_spec i (wl v)) as [Hi|Hi]; [reflexivity|].
    apply (canon_raw_high w v i Hc Hi).
  - destruct (shl_loop1_spec w Hw (wd v) (wl v) shift (S (N.to_nat (wl v))) (wd v) (wl v))
      as (d1 & idx & E1 & (Hd1 & Hl1 & Hidx & Hb1) & Hidx').
    { assumption. }
    { split; [assumption|]. split; [reflexivity|]. split; [lia|]. intros i.
      destruct (N.leb_spec (wl v) i) as [Hi|Hi]; [|reflexivity].
      assert (i <? wl v = false) as -> by (apply N.ltb_ge; assumption).
      rewrite andb_false_r. cbn [andb]. apply (canon_raw_high w v i Hc Hi). }
    { lia. }
    rewrite E1. cbn [bind].
    destruct (shl_loop2_spec w Hw (S (N.to_nat (wl v))) d1 idx) as (d2 & E2 & Hd2 & Hl2 & Hb2).
    { assumption. } { rewrite Hl1. lia. } { lia. }
    rewrite E2. cbn [bind].
    exists (mkwv d2 (wl v)). split; [reflexivity|].
    assert (forall i, N.testbit (raw w d2) i =
              (shift <=? i) && (i <? wl v) && N.testbit (raw w (wd v)) (i - shift)) as Hbits.
    { intros i. rewrite Hb2, Hb1.
      destruct (N.ltb_spec i idx) as [Hi|Hi].
      - assert (shift <=? i = false) as -> by (apply N.leb_gt; lia). reflexivity.
      - assert (idx <=? i = true) as -> by (apply N.leb_le; lia). reflexivity. }
    split.
    { apply canon_of_bits; [assumption|rewrite Hl2, Hl1; assumption|].
      intros i Hi. rewrite Hbits.
      assert (i <? wl v = false) as -> by (apply N.ltb_ge; assumption).
      rewrite andb_false_r. reflexivity. }
    cbn [wl wd]. split; [reflexivity|]. split; [rewrite Hl2, Hl1; reflexivity|]. exact Hbits.
Qed.

(* ------------------------------------------------------------------ shr_assign *)

Section S2.
Variable w : N.
Hypothesis Hw : 0 < w.

Definition shr_inv (d0 : list N) (shift : N) (d : list N) (idx : N) : Prop :=
  words_ok w d /\ lenw d = lenw d0 /\
  forall i, N.testbit (raw w d) i =
            if i <? idx then N.testbit (raw w d0) (i + shift) else N.testbit (raw w d0) i.

Lemma shr_step d0 len shift d idx l :
  len <= w * lenw d0 -> shr_inv d0 shift d idx -> idx < len ->
  idx mod w + l <= w -> (idx + shift) mod w + l <= w ->
  shr_inv d0 shift (write_bits w d idx l (read_bits w d (idx + shift) l)) (idx + l).
Proof.
  intros Hlen (Hd & Hl & Hb) Hidx Hw1 Hw2.
  split; [apply words_ok_write_bits; assumption|].
  split; [rewrite lenw_write_bits; assumption|].
  intros i.
  rewrite (write_bits_testbit w Hw); try assumption.
  2:{ rewrite Hl. apply div_lt_of_lt_mul; [assumption|lia]. }
  2:{ apply read_bits_lt. }
  destruct (N.leb_spec idx i) as [H1|H1]; cbn [andb].
  - destruct (N.ltb_spec i (idx + l)) as [H2|H2].
    + rewrite (read_bits_testbit w Hw) by assumption.
      assert (i - idx <? l = true) as -> by (apply N.ltb_lt; lia). cbn [andb].
      replace (idx + shift + (i - idx)) with (i + shift) by lia.
      rewrite Hb.
      assert (i + shift <? idx = false) as -> by (apply N.ltb_ge; lia). reflexivity.
    + rewrite Hb. assert (i <? idx = false) as -> by (apply N.ltb_ge; lia). reflexivity.
  - rewrite Hb.
    assert (i <? idx = true) as -> by (apply N.ltb_lt; lia).
    assert (i <? idx + l = true) as -> by (apply N.ltb_lt; lia). reflexivity.
Qed.

Lemma shr_loop1_spec d0 len shift fuel : forall d idx,
  len <= w * lenw d0 -> shr_inv d0 shift d idx -> (N.to_nat (len - idx) < fuel)%nat ->
  exists d' idx', shr_loop1 fuel w shift len d idx = Ok (d', idx') /\
                  shr_inv d0 shift d' idx' /\ len <= idx' + shift.
Proof.
  induction fuel as [|f IH]; intros d idx Hlen Hinv Hf.
  - lia.
  - cbn [shr_loop1].
    destruct (N.ltb_spec (idx + shift) len) as [Hs|Hs].
    + pose proof (up_chunk w Hw idx (idx + shift)) as Hl1.
      set (l := N.min (w - idx mod w) (w - (idx + shift) mod w)) in *.
      apply IH; [assumption| |lia].
      apply (shr_step d0 len); try assumption; [lia| |]; apply up_window; try assumption; unfold l; lia.
    + exists d, idx. split; [reflexivity|]. split; assumption.
Qed.

Lemma shr_loop2_spec len fuel : forall d idx,
  words_ok w d -> len <= w * lenw d -> (N.to_nat (len - idx) < fuel)%nat ->
  exists d' idx2, shr_loop2 fuel w len d idx = Ok d' /\ words_ok w d' /\ lenw d' = lenw d /\
             idx <= idx2 /\ len <= idx2 /\
             forall i, N.testbit (raw w d') i =
                       if (idx <=? i) && (i <? idx2) then false else N.testbit (raw w d) i.
Proof.
  induction fuel as [|f IH]; intros d idx Hd Hlen Hf.
  - lia.
  - cbn [shr_loop2].
    destruct (N.ltb_spec idx len) as [Hs|Hs].
    + pose proof (mod_lt' idx w Hw) as Hm.
      set (l := w - idx mod w).
      assert (1 <= l) as Hl1 by (unfold l; lia).
      assert (idx mod w + l <= w) as Hwin by (unfold l; lia).
      destruct (IH (clear_bits w d idx l) (idx + l)) as (d' & idx2 & E & Hd' & Hl' & Hi1 & Hi2 & Hb').
      { apply words_ok_write_bits; assumption. }
      { unfold clear_bits. rewrite lenw_write_bits. lia. }
      { lia. }
      exists d', idx2. split; [exact E|]. split; [assumption|].
      split; [rewrite Hl'; apply lenw_write_bits|].
      split; [lia|]. split; [assumption|].
      intros i. rewrite Hb'. unfold clear_bits.
      rewrite (write_bits_testbit w Hw); try assumption.
      2:{ apply div_lt_of_lt_mul; [assumption|lia]. }
      2:{ apply pow2_pos. }
      rewrite N.bits_0.
      destruct (N.leb_spec (idx + l) i); destruct (N.ltb_spec i idx2);
        destruct (N.leb_spec idx i); destruct (N.ltb_spec i (idx + l)); cbn [andb]; try reflexivity; lia.
    + exists d, idx. split; [reflexivity|]. split; [assumption|]. split; [reflexivity|].
      split; [lia|]. split; [assumption|].
      intros i. destruct (N.leb_spec idx i); destruct (N.ltb_spec i idx); cbn [andb]; try reflexivity; lia.
Qed.

End S2.

Lemma shr_assign_spec w v k :
  0 < w -> canon_wv w v ->
  exists v', v_shr_assign w v k = Ok v' /\ canon_wv w v' /\ wl v' = wl v /\ lenw (wd v') = lenw (wd v) /\
    forall i, N.testbit (raw w (wd v')) i = N.testbit (raw w (wd v)) (i + shift_amount k).
Proof.
  intros Hw Hc. pose proof Hc as (Hd & Hlen & Hraw).
  unfold v_shr_assign. set (shift := shift_amount k).
  destruct (N.eqb_spec shift 0) as [Hs0|Hs0].
  - exists v. split; [reflexivity|]. split; [assumption|]. split; [reflexivity|]. split; [reflexivity|].
    intros i. rewrite Hs0, N.add_0_r. reflexivity.
  - destruct (shr_loop1_spec w Hw (wd v) (wl v) shift (S (N.to_nat (wl v))) (wd v) 0)
      as (d1 & idx & E1 & (Hd1 & Hl1 & Hb1) & Hidx').
    { assumption. }
    { split; [assumption|]. split; [reflexivity|]. intros i.
      assert (i <? 0 = false) as -> by (apply N.ltb_ge; lia). reflexivity. }
    { lia. }
    rewrite E1. cbn [bind].
    destruct (shr_loop2_spec w Hw (wl v) (S (N.to_nat (wl v))) d1 idx)
      as (d2 & idx2 & E2 & Hd2 & Hl2 & Hi1 & Hi2 & Hb2).
    { assumption. } { rewrite Hl1. lia. } { lia. }
    rewrite E2. cbn [bind].
    exists (mkwv d2 (wl v)). split; [reflexivity|].
    assert (forall i, N.testbit (raw w d2) i = N.testbit (raw w (wd v)) (i + shift)) as Hbits.
    { intros i. rewrite Hb2, Hb1.
      destruct (N.leb_spec idx i) as [Hi|Hi]; cbn [andb].
      - assert (i <? idx = false) as -> by (apply N.ltb_ge; lia).
        rewrite (canon_raw_high w v (i + shift) Hc) by lia.
        destruct (N.ltb_spec i idx2) as [Hj|Hj]; [reflexivity|].
        apply (canon_raw_high w v i Hc). lia.
      - assert (i <? idx = true) as -> by (apply N.ltb_lt; lia). reflexivity. }
    split.
    { apply canon_of_bits; [assumption|rewrite Hl2, Hl1; assumption|].
      intros i Hi. rewrite Hbits. apply (canon_raw_high w v _ Hc). lia. }
    cbn [wl wd]. split; [reflexivity|]. split; [rewrite Hl2, Hl1; reflexivity|]. exact Hbits.
Qed.

(* ------------------------------------------------------------------ shifts by one *)

Lemma land_1 a : N.land a 1 = N.b2n (N.testbit a 0).
Proof. change 1 with (N.ones 1) at 1. rewrite N.land_ones, N.bit0_mod, N.pow_1_r. reflexivity. Qed.

Lemma land_1_le a : N.land a 1 <= 1.
Proof. rewrite land_1. apply b2n_testbit_le1. Qed.

Lemma le1_testbit b i : b <= 1 -> N.testbit b i = (i =? 0) && N.testbit b 0.
Proof.
  intros Hb. destruct (N.eqb_spec i 0) as [->|Hi]; [reflexivity|].
  apply (testbit_high b 1); [change (2 ^ 1) with 2; lia|lia].
Qed.

Lemma b2n_testbit0 b : b <= 1 -> N.b2n (N.testbit b 0) = b.
Proof. intros Hb. assert (b = 0 \/ b = 1) as [-> | ->] by lia; reflexivity. Qed.

(* 2a + b as a concatenation *)
Lemma dbl_testbit a b i : b <= 1 ->
  N.testbit (2 * a + b) i = if i =? 0 then N.testbit b 0 else N.testbit a (i - 1).
Proof.
  intros Hb. replace (2 * a + b) with (b + 2 ^ 1 * a) by (change (2 ^ 1) with 2; lia).
  rewrite concat_testbit by (change (2 ^ 1) with 2; lia).
  destruct (N.eqb_spec i 0) as [->|Hi]; [reflexivity|].
  assert (i <? 1 = false) as -> by (apply N.ltb_ge; lia). reflexivity.
Qed.

Section Sin.
Variable w : N.
Hypothesis Hw : 0 < w.

Lemma le1_lt_word b : b <= 1 -> b < 2 ^ w.
Proof. intros Hb. pose proof (pow2_le 1 w ltac:(lia)) as H. change (2 ^ 1) with 2 in H. lia. Qed.

Definition shl_f (st : list N * N) (i : N) : list N * N :=
  let '(d, carry) := st in
  let x := getw d i in
  (setw d i (N.lor (shlw w x 1) carry), N.land (shrw x (w - 1)) 1).

(* carry into word j *)
Definition shl_cin (d0 : list N) (b j : N) : N :=
  if j =? 0 then b else N.land (shrw (getw d0 (j - 1)) (w - 1)) 1.

Lemma shl_in_loop d0 b n : forall d1 c1,
  n <= lenw d0 -> fold_left shl_f (nrange n) (d0, b) = (d1, c1) ->
  lenw d1 = lenw d0 /\ c1 = shl_cin d0 b n /\
  forall j, getw d1 j = if j <? n then N.lor (shlw w (getw d0 j) 1) (shl_cin d0 b j) else getw d0 j.
Proof.
  induction n as [|n IH] using N.peano_ind; intros d1 c1 Hn E.
  - rewrite nrange_0 in E. cbn [fold_left] in E. injection E as <- <-.
    split; [reflexivity|]. split; [reflexivity|]. intros j.
    assert (j <? 0 = false) as -> by (apply N.ltb_ge; lia). reflexivity.
  - rewrite <- N.add_1_r in *. rewrite nrange_succ, fold_left_app in E.
    destruct (fold_left shl_f (nrange n) (d0, b)) as [d c] eqn:E0.
    destruct (IH d c ltac:(lia) eq_refl) as (Hl & Hc & Hg).
    cbn [fold_left shl_f] in E. injection E as <- <-.
    split; [rewrite lenw_setw; assumption|].
    assert (getw d n = getw d0 n) as Hgn.
    { rewrite Hg. assert (n <? n = false) as -> by (apply N.ltb_ge; lia). reflexivity. }
    split.
    { unfold shl_cin. assert (n + 1 =? 0 = false) as -> by (apply N.eqb_neq; lia).
      replace (n + 1 - 1) with n by lia. rewrite Hgn. reflexivity. }
    intros j. rewrite getw_setw, Hl.
    assert (n <? lenw d0 = true) as -> by (apply N.ltb_lt; lia). rewrite andb_true_r.
    destruct (N.eqb_spec n j) as [<-|Hne].
    + assert (n <? n + 1 = true) as -> by (apply N.ltb_lt; lia). rewrite Hgn, Hc. reflexivity.
    + rewrite Hg. destruct (N.ltb_spec j n); destruct (N.ltb_spec j (n + 1)); try reflexivity; lia.
Qed.

Lemma shl_cin_le1 d0 b j : b <= 1 -> shl_cin d0 b j <= 1.
Proof. intros Hb. unfold shl_cin. destruct (j =? 0); [assumption|apply land_1_le]. Qed.

(* the new word j holds bits [w*j, w*j + w) of 2 * raw + b *)
Lemma shl_word_testbit d0 b j r :
  words_ok w d0 -> b <= 1 -> r < w ->
  N.testbit (N.lor (shlw w (getw d0 j) 1) (shl_cin d0 b j)) r = N.testbit (2 * raw w d0 + b) (w * j + r).
Proof.
  intros Hd Hb Hr.
  rewrite N.lor_spec, shlw_testbit, dbl_testbit by assumption.
  rewrite (le1_testbit (shl_cin d0 b j) r) by (apply shl_cin_le1; assumption).
  assert (r <? w = true) as -> by (apply N.ltb_lt; assumption). cbn [andb].
  destruct (N.eqb_spec r 0) as [->|Hr0].
  - assert (1 <=? 0 = false) as -> by reflexivity. cbn [andb orb].
    unfold shl_cin. destruct (N.eqb_spec j 0) as [->|Hj].
    + assert (w * 0 + 0 =? 0 = true) as -> by (apply N.eqb_eq; lia). reflexivity.
    + assert (w * j + 0 =? 0 = false) as -> by (apply N.eqb_neq; nia).
      rewrite land_1, N.b2n_bit0, shrw_testbit, N.add_0_l, (raw_testbit w Hw) by assumption.
      destruct (divmod_unique (w * j + 0 - 1) w (j - 1) (w - 1) Hw) as [-> ->]; try reflexivity; nia.
  - assert (1 <=? r = true) as -> by (apply N.leb_le; lia). cbn [andb]. rewrite orb_false_r.
    assert (w * j + r =? 0 = false) as -> by (apply N.eqb_neq; lia).
    rewrite (raw_testbit w Hw) by assumption.
    destruct (divmod_unique (w * j + r - 1) w j (r - 1) Hw) as [-> ->]; try reflexivity; lia.
Qed.

Lemma shl_word_lt d0 b j : b <= 1 -> N.lor (shlw w (getw d0 j) 1) (shl_cin d0 b j) < 2 ^ w.
Proof.
  intros Hb. apply lor_lt; [apply shlw_lt|]. apply le1_lt_word. apply shl_cin_le1. assumption.
Qed.

Lemma shl_cin_bit d0 b j : words_ok w d0 -> 0 < j ->
  shl_cin d0 b j = N.b2n (N.testbit (raw w d0) (w * j - 1)).
Proof.
  intros Hd Hj. unfold shl_cin. assert (j =? 0 = false) as -> by (apply N.eqb_neq; lia).
  rewrite land_1, shrw_testbit, N.add_0_l, (raw_testbit w Hw) by assumption.
  destruct (divmod_unique (w * j - 1) w (j - 1) (w - 1) Hw) as [-> ->]; try reflexivity; nia.
Qed.

End Sin.

Lemma land_lt a b n : a < 2 ^ n -> N.land a b < 2 ^ n.
Proof.
  intros Ha. apply lt_pow2_of_bits. intros i Hi.
  rewrite N.land_spec, (testbit_high a n i) by assumption. reflexivity.
Qed.

Lemma shl_in_aux w v b :
  0 < w -> canon_wv w v -> b <= 1 ->
  exists d2 c, v_shl_in w v b = (mkwv d2 (wl v), c) /\ words_ok w d2 /\ lenw d2 = lenw (wd v) /\
    (forall i, N.testbit (raw w d2) i = (i <? wl v) && N.testbit (2 * raw w (wd v) + b) i) /\
    c = (if wl v =? 0 then b else N.b2n (N.testbit (raw w (wd v)) (wl v - 1))).
Proof.
  intros Hw Hc Hb. pose proof Hc as (Hd & Hlen & Hraw).
  unfold v_shl_in.
  pose proof (div_mod_eq (wl v) w) as Eq. pose proof (mod_lt' (wl v) w Hw) as Hr.
  set (q := wl v / w) in *. set (r := wl v mod w) in *.
  assert (q <= lenw (wd v)) as Hq by nia.
  destruct (fold_left _ (nrange q) (wd v, b)) as [d1 c1] eqn:E.
  change (fold_left (shl_f w) (nrange q) (wd v, b) = (d1, c1)) in E.
  apply (shl_in_loop w Hw (wd v) b q d1 c1 Hq) in E. destruct E as (Hl1 & Hc1 & Hg1).
  assert (words_ok w d1) as Hd1.
  { apply words_ok_getw. intros j _. rewrite Hg1.
    destruct (j <? q); [apply shl_word_lt; assumption|apply getw_ok; assumption]. }
  assert (forall i, N.testbit (raw w d1) i =
                    if i <? w * q then N.testbit (2 * raw w (wd v) + b) i else N.testbit (raw w (wd v)) i) as Hb1.
  { intros i. rewrite (raw_testbit w Hw d1) by assumption. rewrite Hg1.
    pose proof (div_mod_eq i w) as Ei. pose proof (mod_lt' i w Hw) as Him.
    assert ((i / w <? q) = (i <? w * q)) as ->.
    { destruct (N.ltb_spec (i / w) q); destruct (N.ltb_spec i (w * q)); try reflexivity; nia. }
    destruct (i <? w * q).
    - rewrite shl_word_testbit by assumption. rewrite <- Ei. reflexivity.
    - rewrite <- (raw_testbit w Hw) by assumption. reflexivity. }
  destruct (N.eqb_spec r 0) as [Hr0|Hr0].
  - exists d1, c1. split; [reflexivity|]. split; [assumption|]. split; [assumption|].
    assert (wl v = w * q) as Hwl by lia.
    split.
    + intros i. rewrite Hb1, <- Hwl.
      destruct (N.ltb_spec i (wl v)) as [Hi|Hi]; [reflexivity|].
      apply (canon_raw_high w v i Hc Hi).
    + rewrite Hc1. destruct (N.eqb_spec (wl v) 0) as [H0|H0].
      * assert (q = 0) as -> by nia. reflexivity.
      * rewrite shl_cin_bit by (assumption || nia). rewrite <- Hwl. reflexivity.
  - assert (q < lenw (wd v)) as Hq' by nia.
    assert (getw d1 q = getw (wd v) q) as Hgq.
    { rewrite Hg1. assert (q <? q = false) as -> by (apply N.ltb_ge; lia). reflexivity. }
    rewrite Hgq.
    eexists. eexists. split; [reflexivity|].
    split.
    { apply words_ok_setw; [assumption|]. apply land_lt. rewrite Hc1. apply shl_word_lt; assumption. }
    split; [rewrite lenw_setw; assumption|].
    split.
    + intros i.
      rewrite (raw_testbit w Hw).
      2:{ apply words_ok_setw; [assumption|]. apply land_lt. rewrite Hc1. apply shl_word_lt; assumption. }
      rewrite getw_setw, Hl1.
      assert (q <? lenw (wd v) = true) as -> by (apply N.ltb_lt; assumption). rewrite andb_true_r.
      pose proof (div_mod_eq i w) as Ei. pose proof (mod_lt' i w Hw) as Him.
      destruct (N.eqb_spec q (i / w)) as [Heq|Hne].
      * rewrite N.land_spec, maskw_testbit, Hc1, Heq, shl_word_testbit by assumption.
        rewrite <- Ei.
        assert (i mod w <? w = true) as -> by (apply N.ltb_lt; assumption). rewrite andb_true_r.
        assert ((i mod w <? r) = (i <? wl v)) as ->.
        { destruct (N.ltb_spec (i mod w) r); destruct (N.ltb_spec i (wl v)); try reflexivity; nia. }
        apply andb_comm.
      * rewrite <- (raw_testbit w Hw) by assumption. rewrite Hb1.
        destruct (N.ltb_spec i (w * q)) as [Hi|Hi].
        -- assert (i <? wl v = true) as -> by (apply N.ltb_lt; lia). reflexivity.
        -- assert (i <? wl v = false) as -> by (apply N.ltb_ge; nia). cbn [andb].
           apply (canon_raw_high w v i Hc). nia.
    + assert (wl v =? 0 = false) as -> by (apply N.eqb_neq; lia).
      rewrite land_1, shrw_testbit, N.add_0_l, (raw_testbit w Hw) by assumption.
      destruct (divmod_unique (wl v - 1) w q (r - 1) Hw) as [-> ->]; try reflexivity; lia.
Qed.

Lemma shl_in_spec w v b :
  0 < w -> canon_wv w v -> b <= 1 ->
  canon_wv w (fst (v_shl_in w v b)) /\ wl (fst (v_shl_in w v b)) = wl v /\
  lenw (wd (fst (v_shl_in w v b))) = lenw (wd v) /\
  raw w (wd (fst (v_shl_in w v b))) = (if wl v =? 0 then 0 else (2 * raw w (wd v) + b) mod 2 ^ wl v) /\
  snd (v_shl_in w v b) = (if wl v =? 0 then b else N.b2n (N.testbit (raw w (wd v)) (wl v - 1))).
Proof.
  intros Hw Hc Hb. pose proof Hc as (Hd & Hlen & Hraw).
  destruct (shl_in_aux w v b Hw Hc Hb) as (d2 & c & E & Hd2 & Hl2 & Hb2 & Hc2).
  rewrite E. cbn [fst snd wd wl].
  assert (raw w d2 = (2 * raw w (wd v) + b) mod 2 ^ wl v) as Hr2.
  { apply N.bits_inj. intro i. rewrite Hb2, mod_pow2_testbit. reflexivity. }
  split.
  { split; [assumption|]. cbn [wd wl]. split; [rewrite Hl2; assumption|].
    rewrite Hr2. apply N.mod_lt, pow2_ne0. }
  split; [reflexivity|]. split; [assumption|]. split; [|assumption].
  rewrite Hr2. destruct (N.eqb_spec (wl v) 0) as [->|]; [|reflexivity].
  change (2 ^ 0) with 1. apply N.mod_1_r.
Qed.

(* raw / 2 + b * 2^(len-1), bit by bit *)
Lemma shr_tgt_testbit a b len i :
  len <> 0 -> a < 2 ^ len -> b <= 1 ->
  N.testbit (a / 2 + b * 2 ^ (len - 1)) i =
  if i <? len - 1 then N.testbit a (i + 1) else (i =? len - 1) && N.testbit b 0.
Proof.
  intros Hlen Ha Hb.
  assert (a / 2 < 2 ^ (len - 1)) as Hlt.
  { apply N.div_lt_upper_bound; [lia|].
    replace (2 * 2 ^ (len - 1)) with (2 ^ len); [assumption|].
    rewrite (pow2_split 1 len) by lia. reflexivity. }
  replace (a / 2 + b * 2 ^ (len - 1)) with (a / 2 + 2 ^ (len - 1) * b) by lia.
  rewrite concat_testbit by assumption.
  destruct (N.ltb_spec i (len - 1)) as [Hi|Hi].
  - change 2 with (2 ^ 1) at 1. apply div_pow2_testbit.
  - rewrite (le1_testbit b (i - (len - 1))) by assumption. f_equal.
    destruct (N.eqb_spec (i - (len - 1)) 0); destruct (N.eqb_spec i (len - 1)); try reflexivity; lia.
Qed.

Section Sin2.
Variable w : N.
Hypothesis Hw : 0 < w.

Definition shr_f (st : list N * N) (i : N) : list N * N :=
  let '(d, carry) := st in
  let x := getw d i in
  (setw d i (N.lor (shrw x 1) (shlw w carry (w - 1))), N.land x 1).

Lemma shr_in_loop n : forall da c d1 c1,
  n <= lenw da -> fold_left shr_f (rev (nrange n)) (da, c) = (d1, c1) ->
  lenw d1 = lenw da /\ c1 = (if n =? 0 then c else N.land (getw da 0) 1) /\
  forall j, getw d1 j =
            if j <? n
            then N.lor (shrw (getw da j) 1)
                       (shlw w (if j + 1 =? n then c else N.land (getw da (j + 1)) 1) (w - 1))
            else getw da j.
Proof.
  induction n as [|n IH] using N.peano_ind; intros da c d1 c1 Hn E.
  - rewrite nrange_0 in E. cbn [rev fold_left] in E. injection E as <- <-.
    split; [reflexivity|]. split; [reflexivity|]. intros j.
    assert (j <? 0 = false) as -> by (apply N.ltb_ge; lia). reflexivity.
  - rewrite <- N.add_1_r in *. rewrite nrange_succ, rev_app_distr in E.
    cbn [rev app fold_left shr_f] in E.
    apply IH in E; [|rewrite lenw_setw; lia].
    destruct E as (Hl & Hc & Hg).
    rewrite lenw_setw in Hl.
    split; [assumption|].
    split.
    { rewrite Hc. assert (n + 1 =? 0 = false) as -> by (apply N.eqb_neq; lia).
      rewrite getw_setw.
      destruct (N.eqb_spec n 0) as [Hn0|Hn0]; cbn [andb]; [|reflexivity].
      rewrite Hn0. destruct (0 <? lenw da); reflexivity. }
    intros j. rewrite Hg, !getw_setw.
    assert (n <? lenw da = true) as -> by (apply N.ltb_lt; lia). rewrite !andb_true_r.
    destruct (N.ltb_spec j n) as [Hj|Hj].
    + assert (j <? n + 1 = true) as -> by (apply N.ltb_lt; lia).
      assert (n =? j = false) as -> by (apply N.eqb_neq; lia).
      assert (j + 1 =? n + 1 = false) as -> by (apply N.eqb_neq; lia).
      destruct (N.eqb_spec (j + 1) n) as [Hjn|Hjn].
      * rewrite Hjn. reflexivity.
      * assert (n =? j + 1 = false) as -> by (apply N.eqb_neq; lia). reflexivity.
    + destruct (N.eqb_spec n j) as [<-|Hne].
      * assert (n <? n + 1 = true) as -> by (apply N.ltb_lt; lia).
        assert (n + 1 =? n + 1 = true) as -> by (apply N.eqb_eq; lia). reflexivity.
      * assert (j <? n + 1 = false) as -> by (apply N.ltb_ge; lia). reflexivity.
Qed.

Lemma shr_word_testbit x c p r :
  c <= 1 -> p < w -> x < 2 ^ (p + 1) ->
  N.testbit (N.lor (shrw x 1) (shlw w c p)) r =
  if r <? p then N.testbit x (r + 1) else (r =? p) && N.testbit c 0.
Proof.
  intros Hc Hp Hx.
  rewrite N.lor_spec, shrw_testbit, shlw_testbit, (le1_testbit c (r - p)) by assumption.
  destruct (N.ltb_spec r p) as [Hr|Hr].
  - assert (p <=? r = false) as -> by (apply N.leb_gt; assumption).
    rewrite andb_false_r. cbn [andb]. apply orb_false_r.
  - rewrite (testbit_high x (p + 1) (r + 1)) by (assumption || lia). cbn [orb].
    destruct (N.eqb_spec r p) as [->|Hne].
    + assert (p <? w = true) as -> by (apply N.ltb_lt; assumption).
      assert (p <=? p = true) as -> by (apply N.leb_le; lia).
      assert (p - p =? 0 = true) as -> by (apply N.eqb_eq; lia). reflexivity.
    + assert (r - p =? 0 = false) as -> by (apply N.eqb_neq; lia).
      cbn [andb]. apply andb_false_r.
Qed.

Lemma shr_word_lt x c p : x < 2 ^ w -> N.lor (shrw x 1) (shlw w c p) < 2 ^ w.
Proof. intros Hx. apply lor_lt; [apply shrw_lt; assumption|apply shlw_lt]. Qed.

(* a word lying entirely inside the vector *)
Lemma shr_full_word d0 len b c j r :
  words_ok w d0 -> len <> 0 -> raw w d0 < 2 ^ len -> b <= 1 -> r < w ->
  w * (j + 1) <= len ->
  (w * (j + 1) = len -> c = b) -> (w * (j + 1) < len -> c = N.land (getw d0 (j + 1)) 1) ->
  N.testbit (N.lor (shrw (getw d0 j) 1) (shlw w c (w - 1))) r =
  N.testbit (raw w d0 / 2 + b * 2 ^ (len - 1)) (w * j + r).
Proof.
  intros Hd Hlen Hraw Hb Hr Hj Hc1 Hc2.
  assert (c <= 1) as Hc.
  { destruct (N.eq_dec (w * (j + 1)) len) as [He|He]; [rewrite Hc1 by assumption; assumption|].
    rewrite Hc2 by lia. apply land_1_le. }
  rewrite shr_word_testbit; [|assumption|lia|].
  2:{ replace (w - 1 + 1) with w by lia. apply getw_ok. assumption. }
  rewrite shr_tgt_testbit by assumption.
  destruct (N.ltb_spec r (w - 1)) as [Hr1|Hr1].
  - assert (w * j + r <? len - 1 = true) as -> by (apply N.ltb_lt; nia).
    rewrite (raw_testbit w Hw) by assumption.
    destruct (divmod_unique (w * j + r + 1) w j (r + 1) Hw) as [-> ->]; try reflexivity; lia.
  - assert (r = w - 1) as -> by lia.
    assert (w - 1 =? w - 1 = true) as -> by (apply N.eqb_eq; reflexivity). cbn [andb].
    destruct (N.eq_dec (w * (j + 1)) len) as [He|He].
    + rewrite Hc1 by assumption.
      assert (w * j + (w - 1) <? len - 1 = false) as -> by (apply N.ltb_ge; nia).
      assert (w * j + (w - 1) =? len - 1 = true) as -> by (apply N.eqb_eq; nia). reflexivity.
    + rewrite Hc2 by lia.
      assert (w * j + (w - 1) <? len - 1 = true) as -> by (apply N.ltb_lt; nia).
      rewrite land_1, N.b2n_bit0, (raw_testbit w Hw) by assumption.
      destruct (divmod_unique (w * j + (w - 1) + 1) w (j + 1) 0 Hw) as [-> ->]; try reflexivity; nia.
Qed.

End Sin2.

Lemma getw0_bit w d : 0 < w -> words_ok w d -> N.land (getw d 0) 1 = N.b2n (N.testbit (raw w d) 0).
Proof.
  intros Hw Hd. rewrite land_1, (raw_testbit w Hw) by assumption.
  rewrite N.div_0_l, N.mod_0_l by lia. reflexivity.
Qed.

Lemma shr_in_aux w v b :
  0 < w -> canon_wv w v -> b <= 1 -> wl v <> 0 ->
  exists d1 c, v_shr_in w v b = (mkwv d1 (wl v), c) /\ words_ok w d1 /\ lenw d1 = lenw (wd v) /\
    (forall i, N.testbit (raw w d1) i = N.testbit (raw w (wd v) / 2 + b * 2 ^ (wl v - 1)) i) /\
    c = N.b2n (N.testbit (raw w (wd v)) 0).
Proof.
  intros Hw Hc Hb Hwl. pose proof Hc as (Hd & Hlen & Hraw).
  unfold v_shr_in.
  pose proof (div_mod_eq (wl v) w) as Eq. pose proof (mod_lt' (wl v) w Hw) as Hr.
  set (q := wl v / w) in *. set (r := wl v mod w) in *.
  assert (q <= lenw (wd v)) as Hq by nia.
  destruct (N.eqb_spec r 0) as [Hr0|Hr0].
  - assert (wl v = w * q) as Hwq by lia. assert (q <> 0) as Hq0 by nia.
    destruct (fold_left _ (rev (nrange q)) (wd v, b)) as [d1 c1] eqn:E.
    change (fold_left (shr_f w) (rev (nrange q)) (wd v, b) = (d1, c1)) in E.
    apply (shr_in_loop w Hw q (wd v) b d1 c1 Hq) in E. destruct E as (Hl1 & Hc1 & Hg1).
    assert (words_ok w d1) as Hd1.
    { apply words_ok_getw. intros j _. rewrite Hg1.
      destruct (j <? q); [apply shr_word_lt|]; apply getw_ok; assumption. }
    exists d1, c1. split; [reflexivity|]. split; [assumption|]. split; [assumption|].
    split.
    + intros i. rewrite (raw_testbit w Hw d1) by assumption. rewrite Hg1.
      pose proof (div_mod_eq i w) as Ei. pose proof (mod_lt' i w Hw) as Him.
      destruct (N.ltb_spec (i / w) q) as [Hj|Hj].
      * rewrite (shr_full_word w Hw (wd v) (wl v) b); try assumption.
        -- rewrite <- Ei. reflexivity.
        -- nia.
        -- intros He. assert (i / w + 1 =? q = true) as -> by (apply N.eqb_eq; nia). reflexivity.
        -- intros He. assert (i / w + 1 =? q = false) as -> by (apply N.eqb_neq; nia). reflexivity.
      * rewrite <- (raw_testbit w Hw) by assumption.
        rewrite (canon_raw_high w v i Hc) by nia.
        rewrite shr_tgt_testbit by assumption.
        assert (i <? wl v - 1 = false) as -> by (apply N.ltb_ge; nia).
        assert (i =? wl v - 1 = false) as -> by (apply N.eqb_neq; nia). reflexivity.
    + rewrite Hc1. assert (q =? 0 = false) as -> by (apply N.eqb_neq; assumption).
      apply getw0_bit; assumption.
  - cbv beta iota.
    assert (q < lenw (wd v)) as Hq' by nia.
    set (x := getw (wd v) q).
    set (da := setw (wd v) q (N.lor (shrw x 1) (shlw w b (r - 1)))).
    assert (x < 2 ^ r) as Hx.
    { apply lt_pow2_of_bits. intros i Hi. unfold x.
      destruct (N.ltb_spec i w) as [Hiw|Hiw].
      - pose proof (raw_testbit w Hw (wd v) (w * q + i) Hd) as Hrt.
        destruct (divmod_unique (w * q + i) w q i Hw) as [Hq1 Hq2]; [reflexivity|assumption|].
        rewrite Hq1, Hq2 in Hrt. rewrite <- Hrt. apply (canon_raw_high w v _ Hc). lia.
      - apply (testbit_high _ w); [apply getw_ok; assumption|assumption]. }
    destruct (fold_left _ (rev (nrange q)) (da, N.land x 1)) as [d1 c1] eqn:E.
    change (fold_left (shr_f w) (rev (nrange q)) (da, N.land x 1) = (d1, c1)) in E.
    apply (shr_in_loop w Hw q da (N.land x 1) d1 c1) in E; [|unfold da; rewrite lenw_setw; assumption].
    destruct E as (Hl1 & Hc1 & Hg1).
    unfold da in Hl1. rewrite lenw_setw in Hl1.
    assert (forall j, j <> q -> getw da j = getw (wd v) j) as Hda.
    { intros j Hj. unfold da. rewrite getw_setw.
      assert (q =? j = false) as -> by (apply N.eqb_neq; lia). reflexivity. }
    assert (getw da q = N.lor (shrw x 1) (shlw w b (r - 1))) as Hdaq.
    { unfold da. rewrite getw_setw.
      assert (q =? q = true) as -> by (apply N.eqb_eq; reflexivity).
      assert (q <? lenw (wd v) = true) as -> by (apply N.ltb_lt; assumption). reflexivity. }
    assert (forall j, j < q -> getw d1 j =
              N.lor (shrw (getw (wd v) j) 1) (shlw w (N.land (getw (wd v) (j + 1)) 1) (w - 1))) as Hlo.
    { intros j Hj. rewrite Hg1. assert (j <? q = true) as -> by (apply N.ltb_lt; assumption).
      rewrite Hda by lia.
      destruct (N.eqb_spec (j + 1) q) as [He|He].
      - unfold x. rewrite He. reflexivity.
      - rewrite Hda by assumption. reflexivity. }
    assert (forall j, q <= j -> getw d1 j = getw da j) as Hhi.
    { intros j Hj. rewrite Hg1. assert (j <? q = false) as -> by (apply N.ltb_ge; assumption). reflexivity. }
    assert (words_ok w d1) as Hd1.
    { apply words_ok_getw. intros j _.
      destruct (N.lt_ge_cases j q) as [Hj|Hj].
      - rewrite Hlo by assumption. apply shr_word_lt, getw_ok. assumption.
      - rewrite Hhi by assumption. destruct (N.eq_dec j q) as [->|Hne].
        + rewrite Hdaq. apply shr_word_lt. apply getw_ok. assumption.
        + rewrite Hda by assumption. apply getw_ok. assumption. }
    exists d1, c1. split; [reflexivity|]. split; [assumption|]. split; [assumption|].
    split.
    + intros i. rewrite (raw_testbit w Hw d1) by assumption.
      pose proof (div_mod_eq i w) as Ei. pose proof (mod_lt' i w Hw) as Him.
      destruct (N.lt_ge_cases (i / w) q) as [Hj|Hj].
      * rewrite Hlo by assumption.
        rewrite (shr_full_word w Hw (wd v) (wl v) b); try assumption.
        -- rewrite <- Ei. reflexivity.
        -- nia.
        -- intros He. exfalso. nia.
        -- intros _. reflexivity.
      * rewrite Hhi by assumption. rewrite shr_tgt_testbit by assumption.
        destruct (N.eq_dec (i / w) q) as [He|Hne].
        -- rewrite He, Hdaq.
           rewrite (shr_word_testbit w Hw x b (r - 1) (i mod w)); [|assumption|lia|].
           2:{ replace (r - 1 + 1) with r by lia. assumption. }
           assert ((i mod w <? r - 1) = (i <? wl v - 1)) as ->.
           { destruct (N.ltb_spec (i mod w) (r - 1)); destruct (N.ltb_spec i (wl v - 1)); try reflexivity; nia. }
           assert ((i mod w =? r - 1) = (i =? wl v - 1)) as ->.
           { destruct (N.eqb_spec (i mod w) (r - 1)); destruct (N.eqb_spec i (wl v - 1)); try reflexivity; nia. }
           destruct (N.ltb_spec i (wl v - 1)) as [Hi|Hi]; [|reflexivity].
           rewrite (raw_testbit w Hw (wd v)) by assumption. unfold x.
           destruct (divmod_unique (i + 1) w q (i mod w + 1) Hw) as [-> ->]; try reflexivity; nia.
        -- rewrite Hda by assumption. rewrite <- (raw_testbit w Hw) by assumption.
           rewrite (canon_raw_high w v i Hc) by nia.
           assert (i <? wl v - 1 = false) as -> by (apply N.ltb_ge; nia).
           assert (i =? wl v - 1 = false) as -> by (apply N.eqb_neq; nia). reflexivity.
    + rewrite Hc1. destruct (N.eqb_spec q 0) as [Hq0|Hq0].
      * unfold x. rewrite Hq0. apply getw0_bit; assumption.
      * rewrite Hda by lia. apply getw0_bit; assumption.
Qed.

Lemma shr_in_spec w v b :
  0 < w -> canon_wv w v -> b <= 1 ->
  canon_wv w (fst (v_shr_in w v b)) /\ wl (fst (v_shr_in w v b)) = wl v /\
  lenw (wd (fst (v_shr_in w v b))) = lenw (wd v) /\
  raw w (wd (fst (v_shr_in w v b))) = (if wl v =? 0 then 0 else raw w (wd v) / 2 + b * 2 ^ (wl v - 1)) /\
  snd (v_shr_in w v b) = (if wl v =? 0 then b else N.b2n (N.testbit (raw w (wd v)) 0)).
Proof.
  intros Hw Hc Hb. pose proof Hc as (Hd & Hlen & Hraw).
  destruct (N.eqb_spec (wl v) 0) as [H0|H0].
  - assert (v_shr_in w v b = (mkwv (wd v) (wl v), b)) as E.
    { unfold v_shr_in. rewrite H0, N.div_0_l, N.mod_0_l by lia. reflexivity. }
    rewrite E. cbn [fst snd wd wl].
    split; [exact Hc|]. split; [reflexivity|]. split; [reflexivity|]. split; [|reflexivity].
    rewrite H0 in Hraw. change (2 ^ 0) with 1 in Hraw. lia.
  - destruct (shr_in_aux w v b Hw Hc Hb H0) as (d1 & c & E & Hd1 & Hl1 & Hb1 & Hc1).
    rewrite E. cbn [fst snd wd wl].
    assert (raw w d1 = raw w (wd v) / 2 + b * 2 ^ (wl v - 1)) as Hr1 by (apply N.bits_inj; exact Hb1).
    split.
    { apply canon_of_bits; [assumption|rewrite Hl1; assumption|].
      intros i Hi. rewrite Hb1, shr_tgt_testbit by assumption.
      assert (i <? wl v - 1 = false) as -> by (apply N.ltb_ge; lia).
      assert (i =? wl v - 1 = false) as -> by (apply N.eqb_neq; lia). reflexivity. }
    split; [reflexivity|]. split; [assumption|]. split; assumption.
Qed.

(* ------------------------------------------------------------------ Shl / Shr for &Bvd *)

Lemma W64_pos : 0 < W64.
Proof. reflexivity. Qed.

Lemma cfbl_d_cap len : len <= W64 * cfbl_d len.
Proof. unfold cfbl_d, cfbyl_d, W64. lia. Qed.

(* the loops are written with the constant W64; to keep lia away from it the invariants are
   proved for an abstract width w with a sealed equation w = W64 *)
Definition is64 (w : N) : Prop := w = W64.

Section Ref.
Variable w : N.
Hypothesis Hw : 0 < w.
Hypothesis H64 : is64 w.

Lemma shl_chunk_facts shift idx :
  shift < idx ->
  let l := N.min (wsub1 idx mod w + 1) (wsub1 (idx - shift) mod w + 1) in
  1 <= l /\ shift + l <= idx /\ (idx - l) mod w + l <= w /\ (idx - l - shift) mod w + l <= w.
Proof.
  intros Hs. rewrite !wsub1_pos by lia.
  pose proof (min_chunk ((idx - 1) mod w) ((idx - shift - 1) mod w)) as (Hl1 & Hl2 & Hl3).
  set (l := N.min ((idx - 1) mod w + 1) ((idx - shift - 1) mod w + 1)) in *. clearbody l.
  destruct (down_window w Hw idx l) as [Ha1 Ha2]; [lia|assumption|assumption|].
  destruct (down_window w Hw (idx - shift) l) as [Hb1 Hb2]; [lia|assumption|assumption|].
  assert (idx - shift - l = idx - l - shift) as Heq by (clear - Ha1 Hb1 Hs; lia).
  rewrite Heq in Hb2. cbv zeta.
  split; [assumption|]. split; [clear - Ha1 Hb1 Hs; lia|]. split; assumption.
Qed.

Lemma shr_chunk_facts shift idx :
  let l := N.min (w - idx mod w) (w - (idx + shift) mod w) in
  1 <= l /\ idx mod w + l <= w /\ (idx + shift) mod w + l <= w.
Proof.
  cbv zeta. split; [apply up_chunk; assumption|].
  split; apply (up_window w Hw); lia.
Qed.

Definition shlr_inv (src : list N) (n len shift : N) (dst : list N) (idx : N) : Prop :=
  words_ok w dst /\ lenw dst = n /\ idx <= len /\
  forall i, N.testbit (raw w dst) i =
            (idx <=? i) && ((shift <=? i) && (i <? len) && N.testbit (raw w src) (i - shift)).

Lemma shlr_step src n len shift dst idx l :
  words_ok w src -> len <= w * n -> shlr_inv src n len shift dst idx ->
  1 <= l -> shift + l <= idx -> (idx - l) mod w + l <= w -> (idx - l - shift) mod w + l <= w ->
  shlr_inv src n len shift (or_bits w dst (idx - l) (read_bits w src (idx - l - shift) l)) (idx - l).
Proof.
  intros Hsrc Hlen (Hd & Hl & Hidx & Hb) Hl1 Hsl Hw1 Hw2.
  split; [apply words_ok_or_bits; assumption|].
  split; [rewrite lenw_or_bits; assumption|].
  split; [lia|]. intros i.
  rewrite (or_bits_testbit w Hw dst (idx - l) l); try assumption.
  2:{ rewrite Hl. apply div_lt_of_lt_mul; [assumption|lia]. }
  2:{ apply read_bits_lt. }
  rewrite Hb, (read_bits_testbit w Hw) by assumption.
  destruct (N.leb_spec (idx - l) i) as [H1|H1]; cbn [andb].
  - destruct (N.ltb_spec i (idx - l + l)) as [H2|H2]; cbn [andb].
    + assert (idx <=? i = false) as -> by (apply N.leb_gt; lia). cbn [andb orb].
      assert (i - (idx - l) <? l = true) as -> by (apply N.ltb_lt; lia). cbn [andb].
      replace (idx - l - shift + (i - (idx - l))) with (i - shift) by lia.
      assert (shift <=? i = true) as -> by (apply N.leb_le; lia).
      assert (i <? len = true) as -> by (apply N.ltb_lt; lia).
      reflexivity.
    + assert (idx <=? i = true) as -> by (apply N.leb_le; lia). cbn [andb]. apply orb_false_r.
  - assert (idx <=? i = false) as -> by (apply N.leb_gt; lia). reflexivity.
Qed.

Lemma shl_ref_loop_spec src n len shift fuel : forall dst idx,
  words_ok w src -> len <= w * n -> shlr_inv src n len shift dst idx -> (N.to_nat idx < fuel)%nat ->
  exists dst' idx', shl_ref_loop fuel shift src dst idx = Ok dst' /\
                    shlr_inv src n len shift dst' idx' /\ idx' <= shift.
Proof.
  induction fuel as [|f IH]; intros dst idx Hsrc Hlen Hinv Hf; [lia|].
  cbn [shl_ref_loop].
  pose proof H64 as E64. unfold is64 in E64. rewrite <- E64. clear E64.
  destruct (N.ltb_spec shift idx) as [Hs|Hs].
  - pose proof (shl_chunk_facts shift idx Hs) as Hfacts. cbv zeta in Hfacts.
    set (l := N.min (wsub1 idx mod w + 1) (wsub1 (idx - shift) mod w + 1)) in *. clearbody l.
    destruct Hfacts as (Hl1 & Hl2 & Hl3 & Hl4).
    apply IH; [assumption|assumption| |clear - Hf Hl1 Hl2; lia].
    apply shlr_step; assumption.
  - exists dst, idx. split; [reflexivity|]. split; assumption.
Qed.

Definition shrr_inv (src : list N) (n shift : N) (dst : list N) (idx : N) : Prop :=
  words_ok w dst /\ lenw dst = n /\
  forall i, N.testbit (raw w dst) i = (i <? idx) && N.testbit (raw w src) (i + shift).

Lemma shrr_step src n len shift dst idx l :
  words_ok w src -> len <= w * n -> shrr_inv src n shift dst idx -> idx < len ->
  idx mod w + l <= w -> (idx + shift) mod w + l <= w ->
  shrr_inv src n shift (or_bits w dst idx (read_bits w src (idx + shift) l)) (idx + l).
Proof.
  intros Hsrc Hlen (Hd & Hl & Hb) Hidx Hw1 Hw2.
  split; [apply words_ok_or_bits; assumption|].
  split; [rewrite lenw_or_bits; assumption|].
  intros i.
  rewrite (or_bits_testbit w Hw dst idx l); try assumption.
  2:{ rewrite Hl. apply div_lt_of_lt_mul; [assumption|lia]. }
  2:{ apply read_bits_lt. }
  rewrite Hb, (read_bits_testbit w Hw) by assumption.
  destruct (N.leb_spec idx i) as [H1|H1]; cbn [andb].
  - assert (i <? idx = false) as -> by (apply N.ltb_ge; lia). cbn [andb orb].
    destruct (N.ltb_spec i (idx + l)) as [H2|H2]; cbn [andb]; [|reflexivity].
    assert (i - idx <? l = true) as -> by (apply N.ltb_lt; lia). cbn [andb].
    replace (idx + shift + (i - idx)) with (i + shift) by lia. reflexivity.
  - assert (i <? idx = true) as -> by (apply N.ltb_lt; lia).
    assert (i <? idx + l = true) as -> by (apply N.ltb_lt; lia). cbn [andb]. apply orb_false_r.
Qed.

Lemma shr_ref_loop_spec src n len shift fuel : forall dst idx,
  words_ok w src -> len <= w * n -> shrr_inv src n shift dst idx -> (N.to_nat (len - idx) < fuel)%nat ->
  exists dst' idx', shr_ref_loop fuel shift len src dst idx = Ok dst' /\
                    shrr_inv src n shift dst' idx' /\ len <= idx' + shift.
Proof.
  induction fuel as [|f IH]; intros dst idx Hsrc Hlen Hinv Hf; [lia|].
  cbn [shr_ref_loop].
  pose proof H64 as E64. unfold is64 in E64. rewrite <- E64. clear E64.
  destruct (N.ltb_spec (idx + shift) len) as [Hs|Hs].
  - pose proof (shr_chunk_facts shift idx) as Hfacts. cbv zeta in Hfacts.
    set (l := N.min (w - idx mod w) (w - (idx + shift) mod w)) in *. clearbody l.
    destruct Hfacts as (Hl1 & Hl2 & Hl3).
    apply IH; [assumption|assumption| |clear - Hf Hl1 Hs; lia].
    apply (shrr_step src n len); try assumption. clear - Hs. lia.
  - exists dst, idx. split; [reflexivity|]. split; assumption.
Qed.

End Ref.

Lemma d_shl_ref_spec v k :
  canon_wv 64 v ->
  exists v', d_shl_ref v k = Ok v' /\ canon_wv 64 v' /\ wl v' = wl v /\ lenw (wd v') = cfbl_d (wl v) /\
    forall i, N.testbit (raw 64 (wd v')) i =
              (shift_amount k <=? i) && (i <? wl v) && N.testbit (raw 64 (wd v)) (i - shift_amount k).
Proof.
  change 64 with W64.
  intros Hc. pose proof Hc as (Hd & Hlen & Hraw).
  unfold d_shl_ref. set (shift := shift_amount k).
  destruct (shl_ref_loop_spec W64 W64_pos eq_refl (wd v) (cfbl_d (wl v)) (wl v) shift (S (N.to_nat (wl v)))
              (zerosw (cfbl_d (wl v))) (wl v))
    as (d1 & idx & E1 & (Hd1 & Hl1 & Hidx & Hb1) & Hidx').
  { assumption. }
  { apply cfbl_d_cap. }
  { split; [apply words_ok_zerosw|]. split; [apply lenw_zerosw|]. split; [apply N.le_refl|]. intros i.
    rewrite raw_zerosw, N.bits_0.
    destruct (N.leb_spec (wl v) i) as [Hi|Hi]; [|reflexivity].
    assert (i <? wl v = false) as -> by (apply N.ltb_ge; assumption).
    rewrite andb_false_r. reflexivity. }
  { clear. lia. }
  rewrite E1. cbn [bind].
  exists (mkwv d1 (wl v)). split; [reflexivity|].
  assert (forall i, N.testbit (raw W64 d1) i =
            (shift <=? i) && (i <? wl v) && N.testbit (raw W64 (wd v)) (i - shift)) as Hbits.
  { intros i. rewrite Hb1.
    destruct (N.leb_spec shift i) as [Hi|Hi].
    - assert (idx <=? i = true) as -> by (apply N.leb_le; clear - Hi Hidx'; lia). reflexivity.
    - cbn [andb]. apply andb_false_r. }
  split.
  { apply canon_of_bits; [assumption|rewrite Hl1; apply cfbl_d_cap|].
    intros i Hi. rewrite Hbits.
    assert (i <? wl v = false) as -> by (apply N.ltb_ge; assumption).
    rewrite andb_false_r. reflexivity. }
  cbn [wl wd]. split; [reflexivity|]. split; [assumption|]. exact Hbits.
Qed.

Lemma d_shr_ref_spec v k :
  canon_wv 64 v ->
  exists v', d_shr_ref v k = Ok v' /\ canon_wv 64 v' /\ wl v' = wl v /\ lenw (wd v') = cfbl_d (wl v) /\
    forall i, N.testbit (raw 64 (wd v')) i = N.testbit (raw 64 (wd v)) (i + shift_amount k).
Proof.
  change 64 with W64.
  intros Hc. pose proof Hc as (Hd & Hlen & Hraw).
  unfold d_shr_ref. set (shift := shift_amount k).
  destruct (shr_ref_loop_spec W64 W64_pos eq_refl (wd v) (cfbl_d (wl v)) (wl v) shift (S (N.to_nat (wl v)))
              (zerosw (cfbl_d (wl v))) 0)
    as (d1 & idx & E1 & (Hd1 & Hl1 & Hb1) & Hidx').
  { assumption. }
  { apply cfbl_d_cap. }
  { split; [apply words_ok_zerosw|]. split; [apply lenw_zerosw|]. intros i.
    rewrite raw_zerosw, N.bits_0.
    assert (i <? 0 = false) as -> by (apply N.ltb_ge; clear; lia). reflexivity. }
  { clear. lia. }
  rewrite E1. cbn [bind].
  exists (mkwv d1 (wl v)). split; [reflexivity|].
  assert (forall i, N.testbit (raw W64 d1) i = N.testbit (raw W64 (wd v)) (i + shift)) as Hbits.
  { intros i. rewrite Hb1.
    destruct (N.ltb_spec i idx) as [Hi|Hi]; [reflexivity|]. cbn [andb].
    symmetry. apply (canon_raw_high W64 v _ Hc). clear - Hi Hidx'. lia. }
  split.
  { apply canon_of_bits; [assumption|rewrite Hl1; apply cfbl_d_cap|].
    intros i Hi. rewrite Hbits. apply (canon_raw_high W64 v _ Hc). clear - Hi. lia. }
  cbn [wl wd]. split; [reflexivity|]. split; [assumption|]. exact Hbits.
Qed.
