(* Proofs/Mul.v *)
From BVA Require Import Base.Prelude Base.Result Base.Words Base.Limbs.
From BVA Require Import Model.Core Model.Ops Model.Arith Model.Conv Model.Auto Spec.Spec Proofs.Common.
From Coq Require Import ZifyBool ZifyN ZifyNat.

(* Schoolbook multiplication truncated to `len` words (mul_row / mul_rows of Model/Arith.v):
   the u128 widening multiply agrees with the generic one, the running carry `cadd(..) + hi`
   never overflows a word (so Debug and Release agree and nothing panics), and the rows compute
   the product modulo 2^(w*len).
   Note: in mul_rows_inv plain `lia` diverges when both the fold_left equation and the `mod`
   invariant are in the context; every `lia` there is preceded by a `clear -`. *)

(* ------------------------------------------------------------------ numeric helpers *)

Lemma concat_mod y B C T : y < B -> 0 < C -> (y + B * T) mod (B * C) = y + B * (T mod C).
Proof.
  intros Hy HC.
  assert (0 < B) as HB by lia.
  pose proof (N.div_mod' T C) as E. pose proof (N.mod_lt T C ltac:(lia)) as Hm.
  symmetry. apply (N.mod_unique _ _ (T / C)).
  - assert (B * (T mod C + 1) <= B * C) as H by (apply N.mul_le_mono_l; lia). lia.
  - rewrite E at 1. lia.
Qed.

Lemma mod_split x B C : 0 < B -> 0 < C -> x mod (B * C) = x mod B + B * ((x / B) mod C).
Proof. intros HB HC. apply N.mod_mul_r; lia. Qed.

Lemma row_acc M Bt C X ai R :
  M = Bt * C -> 0 < Bt -> 0 < C ->
  (X mod M + Bt * (ai * (R mod C))) mod M = (X + Bt * ai * R) mod M.
Proof.
  intros -> HB HC.
  rewrite N.add_mod_idemp_l by lia.
  pose proof (N.div_mod' R C) as E.
  replace (X + Bt * ai * R) with (X + Bt * (ai * (R mod C)) + (ai * (R / C)) * (Bt * C)).
  - rewrite N.mod_add by lia. reflexivity.
  - rewrite E at 3. lia.
Qed.

(* ------------------------------------------------------------------ wmul *)

Lemma wmul128_eq a b : a < 2 ^ 128 -> b < 2 ^ 128 -> wmul128 a b = wmul_gen 128 a b.
Proof.
  intros Ha Hb. unfold wmul128, wmul_gen. cbv zeta.
  rewrite pow2_eq, <- ones_eq, !N.land_ones, !N.shiftr_div_pow2.
  set (B := 2 ^ 64) in *.
  assert (HBB : 2 ^ 128 = B * B) by (unfold B; rewrite <- pow2_add; reflexivity).
  assert (HB : 0 < B) by apply pow2_pos.
  pose proof (N.div_mod' a B) as Ea. pose proof (N.mod_lt a B ltac:(lia)) as Ha0.
  pose proof (N.div_mod' b B) as Eb. pose proof (N.mod_lt b B ltac:(lia)) as Hb0.
  set (a0 := a mod B) in *. set (a1 := a / B) in *.
  set (b0 := b mod B) in *. set (b1 := b / B) in *.
  assert (Ha1 : a1 < B) by nia. assert (Hb1 : b1 < B) by nia.
  assert (Hmul : forall x y, x < B -> y < B -> x * y < 2 ^ 128) by (intros; rewrite HBB; nia).
  rewrite !wrap_small by (apply Hmul; assumption).
  set (p0 := a0 * b0). set (p1 := a1 * b0). set (p2 := a0 * b1). set (p3 := a1 * b1).
  assert (Hshl : forall p, shlw 128 p 64 = B * (p mod B)).
  { intros p. unfold shlw. rewrite wrap_mod, N.shiftl_mul_pow2. fold B. rewrite HBB.
    rewrite (N.mul_comm p B). rewrite N.mul_mod_distr_l by lia. reflexivity. }
  rewrite !Hshl.
  destruct (cadd 128 p0 (B * (p1 mod B)) (B * (p2 mod B))) as [p0' c] eqn:Ec.
  pose proof (N.mod_lt p1 B ltac:(lia)) as Hp1. pose proof (N.mod_lt p2 B ltac:(lia)) as Hp2.
  pose proof (N.div_mod' p1 B) as Ep1. pose proof (N.div_mod' p2 B) as Ep2.
  apply cadd_spec in Ec; [|apply Hmul; assumption|rewrite HBB; nia|rewrite HBB; nia].
  destruct Ec as [Ec Hp0'].
  assert (Eab : a * b = 2 ^ 128 * (p3 + p1 / B + p2 / B + c) + p0').
  { rewrite Ea, Eb. fold a0 a1 b0 b1.
    transitivity (p0 + B * p1 + B * p2 + B * B * p3); [unfold p0, p1, p2, p3; ring|].
    rewrite Ep1 at 1. rewrite Ep2 at 1. rewrite HBB in *. 
    set (q1 := p1 / B) in *. set (q2 := p2 / B) in *. set (r1 := p1 mod B) in *. set (r2 := p2 mod B) in *.
    clearbody p0 p1 p2 p3 q1 q2 r1 r2. clear -Ec. nia. }
  rewrite wrap_mod.
  f_equal.
  - apply (N.mod_unique _ _ (p3 + p1 / B + p2 / B + c)); assumption.
  - apply (N.div_unique _ _ _ p0'); assumption.
Qed.

Lemma wmul_spec w a b lo hi :
  0 < w -> a < 2 ^ w -> b < 2 ^ w -> wmul w a b = (lo, hi) ->
  lo + 2 ^ w * hi = a * b /\ lo < 2 ^ w /\ hi < 2 ^ w.
Proof.
  intros Hw Ha Hb E. unfold wmul in E.
  destruct (N.eqb_spec w 128) as [->|Hne].
  - rewrite wmul128_eq in E by assumption. apply wmul_gen_spec; assumption.
  - apply wmul_gen_spec; assumption.
Qed.

Definition digits_of (w R : N) (rhs : N -> N) : Prop := forall i, rhs i = (R / 2 ^ (w * i)) mod 2 ^ w.

(* ------------------------------------------------------------------ windows of words *)

(* the value of the n words starting at word p *)
Definition win (w : N) (d : list N) (p n : N) : N := (raw w d / 2 ^ (w * p)) mod 2 ^ (w * n).

(* digits j .. j+n-1 of a number *)
Definition digs (w R j n : N) : N := (R / 2 ^ (w * j)) mod 2 ^ (w * n).

Lemma digs_0 w R j : digs w R j 0 = 0.
Proof. unfold digs. rewrite N.mul_0_r. cbn. apply N.mod_1_r. Qed.

Lemma digs_succ w R j n : digs w R j (n + 1) = digs w R j 1 + 2 ^ w * digs w R (j + 1) n.
Proof.
  unfold digs. rewrite N.mul_1_r.
  replace (w * (n + 1)) with (w + w * n) by lia. rewrite pow2_add.
  rewrite mod_split by apply pow2_pos.
  rewrite N.div_div by apply pow2_ne0. rewrite <- pow2_add.
  replace (w * j + w) with (w * (j + 1)) by lia. reflexivity.
Qed.

Lemma win_digs w d p n : win w d p n = digs w (raw w d) p n.
Proof. reflexivity. Qed.

Lemma win_0 w d p : win w d p 0 = 0.
Proof. apply digs_0. Qed.

Lemma win_succ w d p n : 0 < w -> words_ok w d -> win w d p (n + 1) = getw d p + 2 ^ w * win w d (p + 1) n.
Proof.
  intros Hw Hd. rewrite !win_digs, digs_succ. f_equal.
  unfold digs. rewrite N.mul_1_r. symmetry. apply getw_raw; assumption.
Qed.

Lemma win_ext w d1 d2 p n :
  0 < w -> words_ok w d1 -> words_ok w d2 ->
  (forall k, p <= k -> k < p + N.of_nat n -> getw d1 k = getw d2 k) ->
  win w d1 p (N.of_nat n) = win w d2 p (N.of_nat n).
Proof.
  intros Hw H1 H2. revert p. induction n as [|n IH]; intros p H.
  - change (N.of_nat 0) with 0. rewrite !win_0. reflexivity.
  - replace (N.of_nat (S n)) with (N.of_nat n + 1) by lia.
    rewrite !win_succ by assumption. rewrite (H p) by lia. rewrite (IH (p + 1)); [reflexivity|].
    intros k Hk1 Hk2. apply H; lia.
Qed.

Lemma win_lt w d p n : win w d p n < 2 ^ (w * n).
Proof. unfold win. apply N.mod_lt, pow2_ne0. Qed.

Lemma win_low w d n : win w d 0 n = raw w d mod 2 ^ (w * n).
Proof. unfold win. rewrite N.mul_0_r. change (2 ^ 0) with 1. rewrite N.div_1_r. reflexivity. Qed.

(* ------------------------------------------------------------------ one row *)

Lemma wadd_ok P w a b : a + b < 2 ^ w -> wadd P w a b = Ok (a + b).
Proof. intros H. unfold wadd. rewrite pow2_eq. apply N.ltb_lt in H. rewrite H. reflexivity. Qed.

(* the carry never overflows a word *)
Lemma carry_bound B a b x c y c1 lo hi :
  a < B -> b < B -> x < B -> c < B -> y + B * c1 = x + lo + c -> lo + B * hi = a * b -> c1 + hi < B.
Proof.
  intros Ha Hb Hx Hc E1 E2.
  assert (y + B * (c1 + hi) = x + a * b + c) as E by lia.
  assert (a * b <= (B - 1) * (B - 1)) as Hab by (apply N.mul_le_mono; lia).
  assert (B * (c1 + hi) < B * B) as H by nia.
  apply N.mul_lt_mono_pos_l in H; lia.
Qed.

Lemma mul_row_spec P w a rhs R res i j n carry :
  0 < w -> a < 2 ^ w -> words_ok w res -> digits_of w R rhs -> carry < 2 ^ w ->
  i + j + N.of_nat n <= lenw res ->
  exists res', mul_row P w a rhs res i j n carry = Ok res' /\ words_ok w res' /\ lenw res' = lenw res /\
    (forall k, k < i + j -> getw res' k = getw res k) /\
    (forall k, i + j + N.of_nat n <= k -> getw res' k = getw res k) /\
    (raw w res' / 2 ^ (w * (i + j))) mod 2 ^ (w * N.of_nat n)
      = ((raw w res / 2 ^ (w * (i + j))) mod 2 ^ (w * N.of_nat n)
         + a * ((R / 2 ^ (w * j)) mod 2 ^ (w * N.of_nat n)) + carry) mod 2 ^ (w * N.of_nat n).
Proof.
  intros Hw Ha Hres HR. revert j res carry Hres.
  change (forall j res carry, words_ok w res -> carry < 2 ^ w -> i + j + N.of_nat n <= lenw res ->
    exists res', mul_row P w a rhs res i j n carry = Ok res' /\ words_ok w res' /\ lenw res' = lenw res /\
    (forall k, k < i + j -> getw res' k = getw res k) /\
    (forall k, i + j + N.of_nat n <= k -> getw res' k = getw res k) /\
    win w res' (i + j) (N.of_nat n)
      = (win w res (i + j) (N.of_nat n) + a * digs w R j (N.of_nat n) + carry) mod 2 ^ (w * N.of_nat n)).
  induction n as [|n IH]; intros j res carry Hres Hc Hlen.
  - exists res. cbn [mul_row]. repeat split; try assumption; try reflexivity.
    change (N.of_nat 0) with 0. rewrite !win_0, N.mul_0_r. change (2 ^ 0) with 1. rewrite N.mod_1_r. reflexivity.
  - cbn [mul_row].
    destruct (wmul w a (rhs j)) as [lo hi] eqn:Em.
    assert (Hb : rhs j < 2 ^ w) by (rewrite HR; apply N.mod_lt, pow2_ne0).
    destruct (wmul_spec w a (rhs j) lo hi Hw Ha Hb Em) as (Elo & Hlo & Hhi).
    rewrite geto_ok by lia. cbn [bind].
    pose proof (getw_ok w res (i + j) Hres) as Hx.
    destruct (cadd w (getw res (i + j)) lo carry) as [y c1] eqn:Ec.
    destruct (cadd_spec w _ _ _ _ _ Hx Hlo Hc Ec) as (Ey & Hy).
    rewrite seto_ok by lia. cbn [bind].
    assert (Hcar : c1 + hi < 2 ^ w) by (apply (carry_bound (2 ^ w) a (rhs j) (getw res (i + j)) carry y c1 lo hi); assumption).
    rewrite wadd_ok by assumption. cbn [bind].
    set (res1 := setw res (i + j) y).
    assert (Hres1 : words_ok w res1) by (apply words_ok_setw; assumption).
    assert (Hl1 : lenw res1 = lenw res) by apply lenw_setw.
    destruct (IH (j + 1) res1 (c1 + hi) Hres1 Hcar ltac:(lia)) as (res' & Erun & Hok & Hl & Hlow & Hhigh & Hwin).
    exists res'. split; [assumption|]. split; [assumption|]. split; [lia|].
    assert (Hg1 : forall k, k <> i + j -> getw res1 k = getw res k).
    { intros k Hk. unfold res1. rewrite getw_setw.
      destruct (N.eqb_spec (i + j) k); [lia|reflexivity]. }
    assert (Hgy : getw res1 (i + j) = y).
    { unfold res1. rewrite getw_setw, N.eqb_refl.
      assert (i + j <? lenw res = true) as -> by (apply N.ltb_lt; lia). reflexivity. }
    split; [|split].
    + intros k Hk. rewrite Hlow by lia. apply Hg1. lia.
    + intros k Hk. rewrite Hhigh by lia. apply Hg1. lia.
    + replace (N.of_nat (S n)) with (N.of_nat n + 1) by lia.
      rewrite !win_succ by assumption. rewrite digs_succ.
      replace (i + j + 1) with (i + (j + 1)) by lia.
      rewrite Hwin. rewrite (Hlow (i + j)) by lia. rewrite Hgy.
      rewrite (win_ext w res1 res (i + (j + 1)) n Hw Hres1 Hres) by (intros k Hk1 Hk2; apply Hg1; lia).
      assert (Hd1 : digs w R j 1 = rhs j) by (rewrite HR; unfold digs; rewrite N.mul_1_r; reflexivity).
      rewrite Hd1.
      set (W := win w res (i + (j + 1)) (N.of_nat n)).
      set (D := digs w R (j + 1) (N.of_nat n)).
      replace (w * (N.of_nat n + 1)) with (w + w * N.of_nat n) by lia. rewrite pow2_add.
      replace (getw res (i + j) + 2 ^ w * W + a * (rhs j + 2 ^ w * D) + carry)
        with (y + 2 ^ w * (W + a * D + (c1 + hi))).
      * rewrite concat_mod by (assumption || apply pow2_pos). reflexivity.
      * clearbody W D. clear -Ey Elo. nia.
Qed.

(* ------------------------------------------------------------------ all rows *)

Lemma mul_rows_inv P w a rhs R m len t :
  0 < w -> words_ok w a -> digits_of w R rhs -> len <= lenw a -> len <= m -> N.of_nat t <= len ->
  exists res,
    fold_left (fun acc i =>
                 let! res := acc in
                 let! ai := geto a i in
                 mul_row P w ai rhs res i 0 (N.to_nat (len - i)) 0)
              (nrange (N.of_nat t)) (Ok (zerosw m)) = Ok res /\
    words_ok w res /\ lenw res = m /\
    raw w res mod 2 ^ (w * len) = (raw w a mod 2 ^ (w * N.of_nat t) * R) mod 2 ^ (w * len) /\
    (forall k, len <= k -> getw res k = 0).
Proof.
  intros Hw Ha HR Hla Hlm. induction t as [|t IH]; intros Ht.
  - exists (zerosw m). change (N.of_nat 0) with 0. rewrite nrange_0. cbn [fold_left].
    split; [reflexivity|]. split; [apply words_ok_zerosw|]. split; [apply lenw_zerosw|]. split.
    + rewrite raw_zerosw, N.mul_0_r. change (2 ^ 0) with 1. rewrite N.mod_1_r, N.mul_0_l.
      rewrite N.mod_0_l by apply pow2_ne0. reflexivity.
    + intros k _. apply getw_zerosw.
  - destruct IH as (res & Erun & Hres & Hl & Hinv & Hz); [lia|].
    replace (N.of_nat (S t)) with (N.of_nat t + 1) in * by lia.
    remember (N.of_nat t) as T eqn:ET.
    assert (HTa : T < lenw a) by (clear -Hla Ht; lia).
    assert (HTr : T + 0 + N.of_nat (N.to_nat (len - T)) <= lenw res) by (clear -Ht Hlm Hl; lia).
    rewrite nrange_succ, fold_left_app, Erun. cbn [fold_left bind].
    rewrite (geto_ok a T HTa). cbn [bind].
    pose proof (getw_ok w a T Ha) as Hai.
    destruct (mul_row_spec P w (getw a T) rhs R res T 0 (N.to_nat (len - T)) 0 Hw Hai Hres HR
                (pow2_pos w) HTr) as (res' & Erow & Hres' & Hl' & Hlow & Hhigh & Hwin).
    exists res'. split; [assumption|]. split; [assumption|]. split; [congruence|]. split.
    + rewrite N2Nat.id, N.add_0_r, N.mul_0_r in Hwin. change (2 ^ 0) with 1 in Hwin.
      rewrite N.div_1_r, N.add_0_r in Hwin.
      assert (EA : raw w a mod 2 ^ (w * (T + 1)) = raw w a mod 2 ^ (w * T) + 2 ^ (w * T) * getw a T).
      { replace (w * (T + 1)) with (w * T + w) by (clear; lia). rewrite pow2_add.
        rewrite (mod_split (raw w a) _ _ (pow2_pos _) (pow2_pos w)).
        rewrite <- (getw_raw w Hw a T Ha). reflexivity. }
      rewrite EA. clear EA.
      assert (Elow : raw w res' mod 2 ^ (w * T) = raw w res mod 2 ^ (w * T)).
      { rewrite <- !win_low. rewrite ET. apply win_ext; try assumption.
        intros k _ Hk. apply Hlow. clear -Hk ET. lia. }
      replace (w * len) with (w * T + w * (len - T)) in * by (clear -Ht; lia).
      rewrite pow2_add in *.
      set (Bt := 2 ^ (w * T)) in *. set (C := 2 ^ (w * (len - T))) in *.
      assert (HBt : 0 < Bt) by apply pow2_pos. assert (HC : 0 < C) by apply pow2_pos.
      rewrite (mod_split (raw w res') Bt C HBt HC). rewrite Elow, Hwin.
      rewrite <- concat_mod by (try assumption; apply N.mod_lt; lia).
      rewrite !N.mul_add_distr_l, N.add_assoc.
      rewrite <- (mod_split (raw w res) Bt C HBt HC). rewrite Hinv.
      rewrite row_acc by (reflexivity || assumption).
      f_equal.
      clear. lia.
    + intros k Hk. rewrite Hhigh by (clear -Hk Ht; lia). apply Hz. assumption.
Qed.

Lemma mul_rows_spec_gen P w a rhs R m len :
  0 < w -> words_ok w a -> digits_of w R rhs -> len <= lenw a -> len <= m ->
  exists res, mul_rows P w a rhs (zerosw m) len = Ok res /\ words_ok w res /\ lenw res = m /\
    raw w res mod 2 ^ (w * len) = (raw w a mod 2 ^ (w * len) * R) mod 2 ^ (w * len) /\
    (forall k, len <= k -> getw res k = 0).
Proof.
  intros Hw Ha HR Hla Hlm.
  destruct (mul_rows_inv P w a rhs R m len (N.to_nat len) Hw Ha HR Hla Hlm ltac:(lia)) as (res & H).
  rewrite N2Nat.id in H. exists res. exact H.
Qed.

Lemma mul_rows_spec P w a rhs R len :
  0 < w -> words_ok w a -> digits_of w R rhs -> len <= lenw a ->
  exists res, mul_rows P w a rhs (zerosw (lenw a)) len = Ok res /\ words_ok w res /\ lenw res = lenw a /\
    raw w res mod 2 ^ (w * len) = (raw w a mod 2 ^ (w * len) * R) mod 2 ^ (w * len) /\
    (forall k, len <= k -> getw res k = 0).
Proof. intros Hw Ha HR Hla. apply mul_rows_spec_gen; assumption. Qed.
