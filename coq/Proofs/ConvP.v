(* Proofs/ConvP.v *)
From BVA Require Import Base.Prelude Base.Result Base.Words Base.Limbs.
From BVA Require Import Model.Core Model.Ops Model.Arith Model.Conv Model.Auto Model.Run Spec.Spec Spec.Prop.
From BVA Require Import Proofs.Common Proofs.Rechunk Proofs.Lift.
From Coq Require Import ZifyBool ZifyN ZifyNat.
From BVA Require Import Proofs.Counts Proofs.Edit.

(* Conversions between native integers, integer slices and the three bit-vector types
   (properties C11 and C12). *)

Definition kind_ok (k : kind) : Prop :=
  match k with KF w n => std_width w /\ 0 <= n | _ => True end.

(* ------------------------------------------------------------------ general helpers *)

Lemma std_width_le128 t : std_width t -> t <= 128.
Proof. unfold std_width. cbn [In]. intros [<-|[<-|[<-|[<-|[<-|[]]]]]]; lia. Qed.

Lemma std_width_ge8 t : std_width t -> 8 <= t.
Proof. unfold std_width. cbn [In]. intros [<-|[<-|[<-|[<-|[<-|[]]]]]]; lia. Qed.

Lemma lt_pow2_size x n : N.size x <= n -> x < 2 ^ n.
Proof.
  intros H. apply N.lt_le_trans with (2 ^ N.size x); [apply size_lt_pow2|apply pow2_le; assumption].
Qed.

(* a word list whose words are the w-bit digits of R *)
Lemma raw_of_digits w d R :
  0 < w -> R < 2 ^ (w * lenw d) ->
  (forall i, i < lenw d -> getw d i = (R / 2 ^ (w * i)) mod 2 ^ w) ->
  words_ok w d /\ raw w d = R.
Proof.
  intros Hw HR Hg.
  assert (words_ok w d) as Hd.
  { apply words_ok_getw. intros i Hi. rewrite Hg by assumption. apply N.mod_lt, pow2_ne0. }
  split; [assumption|].
  apply N.bits_inj. intro b. rewrite raw_testbit by assumption.
  pose proof (div_mod_eq b w) as Eb. pose proof (mod_lt' b w Hw) as Hbm.
  destruct (N.lt_ge_cases (b / w) (lenw d)) as [Hlt|Hge].
  - rewrite Hg by assumption. rewrite mod_pow2_testbit, div_pow2_testbit.
    assert (b mod w <? w = true) as -> by (apply N.ltb_lt; assumption). cbn [andb].
    f_equal. lia.
  - rewrite getw_high by assumption. rewrite N.bits_0. symmetry.
    apply (testbit_high R (w * lenw d)); [assumption|].
    assert (w * lenw d <= w * (b / w)) by (apply N.mul_le_mono_l; assumption). lia.
Qed.

Lemma getw_map_nrange (f : N -> N) k i : i < k -> getw (map f (nrange k)) i = f i.
Proof.
  intros H. unfold getw.
  rewrite (nth_indep _ 0 (f 0)) by (rewrite map_length, nrange_length; lia).
  rewrite map_nth. f_equal. apply getw_nrange. assumption.
Qed.

Lemma lenw_map_nrange (f : N -> N) k : lenw (map f (nrange k)) = k.
Proof. unfold lenw. rewrite map_length, nrange_length. lia. Qed.

(* `(0..k).map(|i| g(i).unwrap()).collect()` *)
Lemma omap_list_unwrap (g : N -> option N) l :
  (forall i, In i l -> exists x, g i = Some x) ->
  omap_list (fun i => unwrap (g i)) l = Ok (map (fun i => odefault (g i) 0) l).
Proof.
  induction l as [|a r IH]; intros H; [reflexivity|].
  cbn [omap_list map]. destruct (H a (or_introl eq_refl)) as [x Hx]. rewrite Hx.
  cbn [unwrap bind odefault]. rewrite IH by (intros i Hi; apply H; right; assumption).
  reflexivity.
Qed.

(* `for i in 0..k { d[i] = g(i).unwrap() }` *)
Lemma fold_seto_unwrap (g : N -> option N) k d0 :
  k <= lenw d0 -> (forall i, i < k -> exists x, g i = Some x) ->
  exists d,
    fold_left (fun acc i => let! d := acc in let! x := unwrap (g i) in seto d i x) (nrange k) (Ok d0) = Ok d /\
    lenw d = lenw d0 /\
    forall i, getw d i = if i <? k then odefault (g i) 0 else getw d0 i.
Proof.
  induction k as [|k IH] using N.peano_ind; intros Hk Hg.
  - exists d0. rewrite nrange_0. cbn [fold_left]. split; [reflexivity|]. split; [reflexivity|].
    intros i. destruct (N.ltb_spec i 0); [lia|reflexivity].
  - rewrite <- N.add_1_r in *. destruct IH as (d & E & Hl & Hd); [lia|intros i Hi; apply Hg; lia|].
    rewrite nrange_succ, fold_left_app, E. cbn [fold_left bind].
    destruct (Hg k ltac:(lia)) as [x Hx]. rewrite Hx. cbn [unwrap bind].
    rewrite seto_ok by lia. eexists. split; [reflexivity|]. split; [rewrite lenw_setw; assumption|].
    intros i. rewrite getw_setw, Hd, Hl.
    assert (k <? lenw d0 = true) as -> by (apply N.ltb_lt; lia). rewrite andb_true_r.
    destruct (N.eqb_spec k i) as [<-|Hne].
    + assert (k <? k + 1 = true) as -> by (apply N.ltb_lt; lia). rewrite Hx. reflexivity.
    + destruct (N.ltb_spec i k); destruct (N.ltb_spec i (k + 1)); try reflexivity; lia.
Qed.

Lemma abs_eq_of x y : Canon x -> Canon y -> xlen y = xlen x -> val y = val x -> abs y = abs x.
Proof. intros Hx Hy Hl Hv. rewrite !abs_Canon by assumption. rewrite Hl, Hv. reflexivity. Qed.

Lemma Good_XF w v : std_width w -> canon_wv w v -> Good (XF w v).
Proof.
  intros Hw Hc. split; [|exact Hw].
  apply Canon_XF; [assumption|apply std_width_pos; assumption|apply std_width_mod8; assumption].
Qed.
Lemma Good_XD v : canon_wv 64 v -> Good (XD v).
Proof. intros Hc. apply Good_of_Canon_D, Canon_XD. assumption. Qed.
Lemma Good_XA_fixed v : canon_wv 64 v -> lenw (wd v) = 2 -> Good (XA true v).
Proof. intros Hc Hl. apply Good_of_Canon_A, Canon_XA_fixed; assumption. Qed.
Lemma Good_XA_dyn v : canon_wv 64 v -> Good (XA false v).
Proof. intros Hc. apply Good_of_Canon_A, Canon_XA_dyn. assumption. Qed.

(* ------------------------------------------------------------------ significant bits *)

Lemma v_leading_cfbl_ext ones cf1 cf2 w v :
  cf1 (wl v) = cf2 (wl v) -> v_leading ones cf1 w v = v_leading ones cf2 w v.
Proof. intros H. unfold v_leading. rewrite H. reflexivity. Qed.

Lemma x_count0_spec a : Good a -> x_count 0 a + N.size (val a) = xlen a.
Proof.
  intros [Hc Hw]. unfold x_count.
  rewrite (v_leading_cfbl_ext false _ (cfbl_f (xw a))).
  - apply lz_plus_sigbits; [apply std_width_pos; assumption|apply Canon_wv; assumption].
  - destruct a as [w v|v|[|] v]; cbn [is_fixed xw xv]; try reflexivity; apply Counts.cfbl_d_eq.
Qed.

(* x_sigbits is the number of significant bits, in both profiles *)
Theorem x_sigbits_spec P a : Good a -> x_sigbits P a = Ok (N.size (val a)).
Proof.
  intros H. pose proof (x_count0_spec a H) as E.
  unfold x_sigbits, v_sigbits. fold (xlen a). rewrite usub_ok by lia. f_equal. lia.
Qed.

(* ------------------------------------------------------------------ between implementations *)

(* a word list built from the w2-bit digits read through get_int::<I2> *)
Lemma conv_core w1 w2 src d :
  widths_ok w1 w2 -> canon_wv w1 src -> wl src <= w2 * lenw d ->
  (forall i, i < lenw d -> getw d i = odefault (v_get_int w1 w2 src i) 0) ->
  canon_wv w2 (mkwv d (wl src)) /\ raw w2 d = raw w1 (wd src).
Proof.
  intros Hww Hc Hl Hg. pose proof Hww as (_ & Hw2 & _).
  pose proof Hc as (_ & _ & Hr).
  destruct (raw_of_digits w2 d (raw w1 (wd src)) Hw2) as [Hd HR].
  - apply N.lt_le_trans with (2 ^ wl src); [assumption|apply pow2_le; assumption].
  - intros i Hi. rewrite Hg by assumption. apply (v_get_int_digits w1 w2 src Hww Hc).
  - split; [|assumption]. unfold canon_wv. cbn [wd wl]. rewrite HR. auto.
Qed.

Lemma v_int_len_le j v n : 0 < j -> wl v <= j * n -> v_int_len j v <= n.
Proof. intros Hj H. unfold v_int_len. apply ceil_div_spec; assumption. Qed.

Lemma v_get_int_none w j v i :
  widths_ok w j -> canon_wv w v -> v_int_len j v <= i -> v_get_int w j v i = None.
Proof.
  intros Hww Hc Hi. destruct (v_get_int w j v i) eqn:E; [|reflexivity].
  assert (i < v_int_len j v) by (apply (v_get_int_some_iff w j v i Hww Hc); eauto). lia.
Qed.

Lemma f_from_f_spec w2 n2 w1 src :
  widths_ok w1 w2 -> canon_wv w1 src -> wl src <= w2 * n2 ->
  exists r, f_from_f w2 n2 w1 src = Ok r /\ canon_wv w2 r /\ wl r = wl src /\ lenw (wd r) = n2 /\
            raw w2 (wd r) = raw w1 (wd src).
Proof.
  intros Hww Hc Hl. pose proof Hww as (_ & Hw2 & _). unfold f_from_f.
  assert (w2 * n2 <? wl src = false) as -> by (apply N.ltb_ge; assumption).
  pose proof (v_int_len_le w2 src n2 Hw2 Hl) as Hk. rewrite N.min_r by assumption.
  destruct (fold_seto_unwrap (fun i => v_get_int w1 w2 src i) (v_int_len w2 src) (zerosw n2)) as (d & E & Hd & Hg).
  - rewrite lenw_zerosw. assumption.
  - intros i Hi. apply (v_get_int_some_iff w1 w2 src i Hww Hc). assumption.
  - rewrite E. cbn [bind]. eexists. split; [reflexivity|]. cbn [wd wl].
    rewrite lenw_zerosw in Hd.
    destruct (conv_core w1 w2 src d Hww Hc) as [Hcd HR]; [rewrite Hd; assumption| |auto].
    intros i _. rewrite Hg. destruct (N.ltb_spec i (v_int_len w2 src)) as [Hi|Hi]; [reflexivity|].
    rewrite getw_zerosw, v_get_int_none by assumption. reflexivity.
Qed.

Lemma f_from_d_spec w n src :
  widths_ok 64 w -> canon_wv 64 src -> wl src <= w * n ->
  exists r, f_from_d w n src = Ok r /\ canon_wv w r /\ wl r = wl src /\ lenw (wd r) = n /\
            raw w (wd r) = raw 64 (wd src).
Proof.
  intros Hww Hc Hl. unfold f_from_d, W64.
  assert (w * n <? wl src = false) as -> by (apply N.ltb_ge; assumption).
  eexists. split; [reflexivity|]. cbn [wd wl].
  set (d := mapi _ _).
  assert (lenw d = n) as Hd by (unfold d; rewrite lenw_mapi, lenw_zerosw; reflexivity).
  destruct (conv_core 64 w src d Hww Hc) as [Hcd HR]; [rewrite Hd; assumption| |auto].
  intros i Hi. unfold d. rewrite getw_mapi by (rewrite lenw_zerosw; lia). reflexivity.
Qed.

Lemma f_from_a_spec w n src :
  widths_ok 64 w -> canon_wv 64 src -> wl src <= w * n ->
  exists r, f_from_a w n src = Ok r /\ canon_wv w r /\ wl r = wl src /\ lenw (wd r) = n /\
            raw w (wd r) = raw 64 (wd src).
Proof.
  intros Hww Hc Hl. pose proof Hww as (_ & Hw2 & _). unfold f_from_a, W64.
  assert (w * n <? wl src = false) as -> by (apply N.ltb_ge; assumption).
  pose proof (v_int_len_le w src n Hw2 Hl) as Hk.
  destruct (fold_seto_unwrap (fun i => v_get_int 64 w src i) (v_int_len w src) (zerosw n)) as (d & E & Hd & Hg).
  - rewrite lenw_zerosw. assumption.
  - intros i Hi. apply (v_get_int_some_iff 64 w src i Hww Hc). assumption.
  - rewrite E. cbn [bind]. eexists. split; [reflexivity|]. cbn [wd wl].
    rewrite lenw_zerosw in Hd.
    destruct (conv_core 64 w src d Hww Hc) as [Hcd HR]; [rewrite Hd; assumption| |auto].
    intros i _. rewrite Hg. destruct (N.ltb_spec i (v_int_len w src)) as [Hi|Hi]; [reflexivity|].
    rewrite getw_zerosw, v_get_int_none by assumption. reflexivity.
Qed.

Lemma d_from_f_spec w src :
  widths_ok w 64 -> canon_wv w src ->
  exists r, d_from_f w src = Ok r /\ canon_wv 64 r /\ wl r = wl src /\ raw 64 (wd r) = raw w (wd src).
Proof.
  intros Hww Hc. unfold d_from_f, W64.
  rewrite (omap_list_unwrap (fun i => v_get_int w 64 src i)).
  - cbn [bind]. eexists. split; [reflexivity|]. cbn [wd wl].
    set (d := map _ _).
    assert (lenw d = v_int_len 64 src) as Hd by (unfold d; apply lenw_map_nrange).
    destruct (conv_core w 64 src d Hww Hc) as [Hcd HR]; [| |auto].
    + rewrite Hd. unfold v_int_len. apply (ceil_div_spec (wl src) 64 eq_refl). lia.
    + intros i Hi. unfold d. rewrite getw_map_nrange by lia. reflexivity.
  - intros i Hi. apply In_nrange in Hi. apply (v_get_int_some_iff w 64 src i Hww Hc). assumption.
Qed.

Lemma to_fixed_spec w n src :
  std_width w -> Good src ->
  (w * n < xlen src -> to_fixed w n src = Err ECap) /\
  (xlen src <= w * n ->
   exists r, to_fixed w n src = Ok r /\ canon_wv w r /\ wl r = xlen src /\ lenw (wd r) = n /\
             raw w (wd r) = val src).
Proof.
  intros Hw [Hc Hs]. pose proof (Canon_wv src Hc) as Hcv.
  split.
  - intros H. apply N.ltb_lt in H.
    destruct src as [w1 v|v|fx v]; unfold xlen in *; cbn [to_fixed xv] in *; unfold f_from_f, f_from_d, f_from_a;
      rewrite H; reflexivity.
  - intros H. destruct src as [w1 v|v|fx v]; unfold xlen, val, xdata in *; cbn [to_fixed xv xw] in *.
    + apply f_from_f_spec; [apply std_widths_ok|..]; assumption.
    + apply f_from_d_spec; [apply std_widths_ok|..]; assumption.
    + apply f_from_a_spec; [apply std_widths_ok|..]; assumption.
Qed.

Lemma to_dyn_spec src :
  Good src ->
  exists r, to_dyn src = Ok r /\ canon_wv 64 r /\ wl r = xlen src /\ raw 64 (wd r) = val src.
Proof.
  intros [Hc Hs]. pose proof (Canon_wv src Hc) as Hcv.
  destruct src as [w v|v|[|] v]; unfold xlen, val, xdata in *; cbn [to_dyn xv xw] in *.
  - apply d_from_f_spec; [apply std_widths_ok; [assumption|apply std_width_64]|assumption].
  - exists v. auto.
  - apply d_from_f_spec; [apply std_widths_ok; apply std_width_64|assumption].
  - exists v. auto.
Qed.

Lemma to_auto_spec src :
  Good src ->
  exists r, to_auto src = Ok r /\ Good r /\ kind_matches KA r = true /\ xlen r = xlen src /\ val r = val src.
Proof.
  intros [Hc Hs]. pose proof (Canon_wv src Hc) as Hcv.
  destruct src as [w v|v|fx v]; unfold xlen, val, xdata in *; cbn [to_auto xv xw] in *.
  - unfold BVP_CAP, BVP_W, BVP_N, capw. pose proof Hcv as (_ & Hl & _).
    destruct (N.leb_spec (w * lenw (wd v)) 128) as [Hcap|Hcap].
    + destruct (f_from_f_spec 64 2 w v) as (r & -> & Hcr & Hlr & Hnr & Hr);
        [apply std_widths_ok; [assumption|apply std_width_64]|assumption|lia|].
      exists (XA true r). split; [reflexivity|]. split; [apply Good_XA_fixed; assumption|].
      split; [reflexivity|]. split; assumption.
    + destruct (d_from_f_spec w v) as (r & -> & Hcr & Hlr & Hr);
        [apply std_widths_ok; [assumption|apply std_width_64]|assumption|].
      cbn [bind]. exists (XA false r). split; [reflexivity|]. split; [apply Good_XA_dyn; assumption|].
      split; [reflexivity|]. split; assumption.
  - unfold BVP_W, BVP_N.
    destruct (N.le_gt_cases (wl v) (64 * 2)) as [Hcap|Hcap].
    + destruct (f_from_d_spec 64 2 v) as (r & -> & Hcr & Hlr & Hnr & Hr);
        [apply std_widths_ok; apply std_width_64|assumption|assumption|].
      exists (XA true r). split; [reflexivity|]. split; [apply Good_XA_fixed; assumption|].
      split; [reflexivity|]. split; assumption.
    + unfold f_from_d. assert (64 * 2 <? wl v = true) as -> by (apply N.ltb_lt; assumption).
      exists (XA false v). split; [reflexivity|]. split; [apply Good_XA_dyn; assumption|].
      split; [reflexivity|]. split; reflexivity.
  - exists (XA fx v). split; [reflexivity|]. split; [split; assumption|].
    split; [reflexivity|]. split; reflexivity.
Qed.

Theorem convert_spec k src :
  kind_ok k -> Good src ->
  (fits k (xlen src) = false -> convert k src = Err ECap) /\
  (fits k (xlen src) = true ->
   exists r, convert k src = Ok r /\ Good r /\ kind_matches k r = true /\ abs r = abs src).
Proof.
  intros Hk Hs. pose proof Hs as [Hcs _].
  destruct k as [w n| |]; cbn [kind_ok fits kind_fixed kind_cap negb orb convert] in *.
  - destruct Hk as [Hw Hn]. destruct (to_fixed_spec w n src Hw Hs) as [HE HO].
    split; intros H.
    + rewrite HE by lia. reflexivity.
    + destruct HO as (r & -> & Hcr & Hlr & Hnr & Hr); [lia|]. cbn [bind].
      pose proof (Good_XF w r Hw Hcr) as Hg.
      exists (XF w r). split; [reflexivity|]. split; [assumption|].
      split; [cbn [kind_matches]; rewrite Hnr, !N.eqb_refl; reflexivity|].
      apply abs_eq_of; try assumption; apply Hg.
  - split; intros H; [discriminate|].
    destruct (to_dyn_spec src Hs) as (r & -> & Hcr & Hlr & Hr). cbn [bind].
    pose proof (Good_XD r Hcr) as Hg.
    exists (XD r). split; [reflexivity|]. split; [assumption|]. split; [reflexivity|].
    apply abs_eq_of; try assumption; apply Hg.
  - split; intros H; [discriminate|].
    destruct (to_auto_spec src Hs) as (r & -> & Hg & Hm & Hlr & Hr).
    exists r. split; [reflexivity|]. split; [assumption|]. split; [assumption|].
    apply abs_eq_of; try assumption; apply Hg.
Qed.

(* ------------------------------------------------------------------ to native integers *)

Lemma f_to_uint_spec w t v :
  widths_ok w t -> canon_wv w v ->
  f_to_uint w t (N.size (raw w (wd v))) v =
  if N.size (raw w (wd v)) <=? t then Ok (raw w (wd v)) else Err ECap.
Proof.
  intros Hww Hc. unfold f_to_uint.
  destruct (N.ltb_spec t (N.size (raw w (wd v)))) as [H|H];
    destruct (N.leb_spec (N.size (raw w (wd v))) t) as [H'|H']; try lia; [reflexivity|].
  f_equal. rewrite (v_get_int_digits w t v Hww Hc 0).
  rewrite N.mul_0_r. change (2 ^ 0) with 1. rewrite N.div_1_r.
  apply N.mod_small, lt_pow2_size. assumption.
Qed.

(* t <= 64: every iteration overwrites the accumulator with the current word *)
Lemma d_to_uint_fold_small t d k r :
  k <= lenw d ->
  fold_left (fun acc i => let! r := acc in let! x := geto d i in Ok (N.lor 0 (wrap t x)))
            (rev (nrange k)) (Ok r)
  = Ok (if k =? 0 then r else wrap t (getw d 0)).
Proof.
  revert r. induction k as [|k IH] using N.peano_ind; intros r Hk; [reflexivity|].
  rewrite <- N.add_1_r in *. rewrite nrange_succ, rev_app_distr. cbn [rev app fold_left bind].
  rewrite geto_ok by lia. cbn [bind]. rewrite IH by lia. rewrite N.lor_0_l.
  assert (k + 1 =? 0 = false) as -> by (apply N.eqb_neq; lia).
  destruct (N.eqb_spec k 0) as [E|E]; [rewrite E|]; reflexivity.
Qed.

(* t > 64: r = (r << 64) | word, from the top word down *)
Lemma d_to_uint_fold_big t d k :
  64 < t -> words_ok 64 d -> k <= lenw d -> forall r, r < 2 ^ t ->
  exists r',
    fold_left (fun acc i => let! r := acc in let! x := geto d i in Ok (N.lor (shlw t r 64) (wrap t x)))
              (rev (nrange k)) (Ok r) = Ok r' /\
    forall b, N.testbit r' b =
              (b <? t) && (if b <? 64 * k then N.testbit (getw d (b / 64)) (b mod 64)
                           else N.testbit r (b - 64 * k)).
Proof.
  intros Ht Hd. induction k as [|k IH] using N.peano_ind; intros Hk r Hr.
  - exists r. split; [reflexivity|]. intros b.
    destruct (N.ltb_spec b (64 * 0)); [lia|]. replace (b - 64 * 0) with b by lia.
    destruct (N.ltb_spec b t); [reflexivity|]. cbn [andb]. apply (testbit_high r t); assumption.
  - rewrite <- N.add_1_r in *. rewrite nrange_succ, rev_app_distr. cbn [rev app fold_left bind].
    rewrite geto_ok by lia. cbn [bind].
    set (r1 := N.lor (shlw t r 64) (wrap t (getw d k))).
    assert (r1 < 2 ^ t) as Hr1.
    { apply lt_pow2_of_bits. intros b Hb. unfold r1. rewrite N.lor_spec, shlw_testbit, wrap_testbit.
      assert (b <? t = false) as -> by (apply N.ltb_ge; assumption). reflexivity. }
    destruct (IH ltac:(lia) r1 Hr1) as (r' & E & Hb). exists r'. split; [exact E|].
    intros b. rewrite Hb. destruct (N.ltb_spec b t) as [Hbt|Hbt]; [cbn [andb]|reflexivity].
    destruct (N.ltb_spec b (64 * k)) as [H1|H1].
    + assert (b <? 64 * (k + 1) = true) as -> by (apply N.ltb_lt; lia). reflexivity.
    + unfold r1. rewrite N.lor_spec, shlw_testbit, wrap_testbit.
      assert (b - 64 * k <? t = true) as -> by (apply N.ltb_lt; lia). cbn [andb].
      destruct (N.ltb_spec b (64 * (k + 1))) as [H2|H2].
      * assert (64 <=? b - 64 * k = false) as -> by (apply N.leb_gt; lia). cbn [andb orb].
        f_equal; [f_equal|]; lia.
      * assert (64 <=? b - 64 * k = true) as -> by (apply N.leb_le; lia). cbn [andb].
        rewrite (testbit_high (getw d k) 64 (b - 64 * k)); [|apply getw_ok; assumption|lia].
        rewrite orb_false_r. f_equal. lia.
Qed.

Lemma d_to_uint_spec t v :
  std_width t -> canon_wv 64 v ->
  d_to_uint t (N.size (raw 64 (wd v))) v =
  if N.size (raw 64 (wd v)) <=? t then Ok (raw 64 (wd v)) else Err ECap.
Proof.
  intros Hst Hc. unfold d_to_uint, W64. pose proof Hc as (Hd & Hl & Hr).
  set (R := raw 64 (wd v)) in *.
  destruct (N.ltb_spec t (N.size R)) as [H|H];
    destruct (N.leb_spec (N.size R) t) as [H'|H']; try lia; [reflexivity|].
  pose proof (lt_pow2_size R t H') as HRt.
  assert (cfbl_d (wl v) <= lenw (wd v)) as Hk by (apply Edit.cfbl_d_le; assumption).
  pose proof (Edit.cfbl_d_ge (wl v)) as Hge.
  destruct (N.ltb_spec 64 t) as [Ht|Ht].
  - destruct (d_to_uint_fold_big t (wd v) (cfbl_d (wl v)) Ht Hd Hk 0 (pow2_pos t)) as (r' & -> & Hb).
    f_equal. apply N.bits_inj. intro b. rewrite Hb. unfold R. rewrite raw_testbit by (try assumption; lia).
    destruct (N.ltb_spec b t) as [Hbt|Hbt]; cbn [andb].
    + destruct (N.ltb_spec b (64 * cfbl_d (wl v))) as [H1|H1]; [reflexivity|].
      rewrite N.bits_0. symmetry. rewrite <- raw_testbit by (try assumption; lia).
      apply (testbit_high _ (wl v)); [assumption|lia].
    + symmetry. rewrite <- raw_testbit by (try assumption; lia).
      apply (testbit_high _ t); assumption.
  - rewrite d_to_uint_fold_small by assumption. f_equal.
    destruct (N.eqb_spec (cfbl_d (wl v)) 0) as [E|E].
    + assert (wl v = 0) as E0 by lia. rewrite E0 in Hr. change (2 ^ 0) with 1 in Hr. lia.
    + rewrite (getw_raw 64 eq_refl (wd v) 0 Hd). fold R.
      rewrite N.mul_0_r. change (2 ^ 0) with 1. rewrite N.div_1_r.
      rewrite wrap_small.
      * apply N.mod_small. apply N.lt_le_trans with (2 ^ t); [assumption|apply pow2_le; assumption].
      * apply N.lt_le_trans with (2 ^ t); [|lia].
        rewrite N.mod_small; [assumption|]. apply N.lt_le_trans with (2 ^ t); [assumption|apply pow2_le; assumption].
Qed.

Theorem x_to_uint_spec P a t :
  Good a -> std_width t ->
  x_to_uint P a t = if N.size (val a) <=? t then Ok (val a) else Err ECap.
Proof.
  intros Ha Ht. unfold x_to_uint. rewrite x_sigbits_spec by assumption. cbn [bind].
  destruct Ha as [Hc Hs]. pose proof (Canon_wv a Hc) as Hcv.
  destruct a as [w v|v|[|] v]; unfold val, xdata in *; cbn [is_fixed xw xv] in *.
  - apply f_to_uint_spec; [apply std_widths_ok|]; assumption.
  - apply d_to_uint_spec; assumption.
  - apply f_to_uint_spec; [apply std_widths_ok|]; assumption.
  - apply d_to_uint_spec; assumption.
Qed.

(* ------------------------------------------------------------------ from native integers *)

Lemma digit_high x w i t : x < 2 ^ t -> t <= w * i -> (x / 2 ^ (w * i)) mod 2 ^ w = 0.
Proof.
  intros Hx Ht. rewrite N.div_small; [apply N.mod_0_l, pow2_ne0|].
  apply N.lt_le_trans with (2 ^ t); [assumption|apply pow2_le; assumption].
Qed.

Lemma f_from_uint_spec_pos w n t x :
  0 < w -> 0 < n -> x < 2 ^ t ->
  (w * n < N.size x -> f_from_uint w n t x = Err ECap) /\
  (N.size x <= w * n ->
   exists r, f_from_uint w n t x = Ok r /\ canon_wv w r /\ lenw (wd r) = n /\
             wl r = N.min t (w * n) /\ raw w (wd r) = x).
Proof.
  intros Hw Hn Hx. pose proof (size_le_of_lt x t Hx) as Hsz.
  assert (w <= w * n) as Hwn by nia.
  unfold f_from_uint. destruct (N.leb_spec t w) as [Htw|Htw].
  - split; [lia|]. intros _.
    assert (0 <? n = true) as -> by (apply N.ltb_lt; assumption).
    eexists. split; [reflexivity|]. cbn [wd wl].
    set (d := setw (zerosw n) 0 x).
    assert (lenw d = n) as Hd by (unfold d; rewrite lenw_setw, lenw_zerosw; reflexivity).
    destruct (raw_of_digits w d x Hw) as [Hok HR].
    + rewrite Hd. apply N.lt_le_trans with (2 ^ t); [assumption|apply pow2_le; lia].
    + intros i Hi. unfold d. rewrite getw_setw, lenw_zerosw.
      assert (0 <? n = true) as -> by (apply N.ltb_lt; assumption). rewrite andb_true_r.
      destruct (N.eqb_spec 0 i) as [<-|Hne].
      * rewrite N.mul_0_r. change (2 ^ 0) with 1. rewrite N.div_1_r. symmetry. apply N.mod_small.
        apply N.lt_le_trans with (2 ^ t); [assumption|apply pow2_le; assumption].
      * rewrite getw_zerosw. symmetry. apply (digit_high x w i t); [assumption|].
        assert (w * 1 <= w * i) by (apply N.mul_le_mono_l; lia). lia.
    + rewrite N.min_l by lia. split; [|auto]. unfold canon_wv. cbn [wd wl]. rewrite HR, Hd.
      split; [assumption|]. split; [lia|assumption].
  - split.
    + intros H. apply N.ltb_lt in H. rewrite H. reflexivity.
    + intros H. assert (w * n <? N.size x = false) as -> by (apply N.ltb_ge; assumption).
      eexists. split; [reflexivity|]. cbn [wd wl].
      set (d := mapi _ _).
      assert (lenw d = n) as Hd by (unfold d; rewrite lenw_mapi, lenw_zerosw; reflexivity).
      pose proof (lt_pow2_size x (w * n) H) as Hxc.
      destruct (raw_of_digits w d x Hw) as [Hok HR].
      * rewrite Hd. assumption.
      * intros i Hi. unfold d. rewrite getw_mapi by (rewrite lenw_zerosw; lia).
        destruct (N.ltb_spec (i * w) t) as [Hit|Hit].
        -- rewrite wrap_mod. unfold shrw. rewrite N.shiftr_div_pow2. rewrite (N.mul_comm i w). reflexivity.
        -- symmetry. apply (digit_high x w i t); [assumption|lia].
      * split; [|auto]. unfold canon_wv. cbn [wd wl]. rewrite HR, Hd.
        split; [assumption|]. split; [lia|].
        destruct (N.min_spec t (w * n)) as [[_ ->]|[_ ->]]; assumption.
Qed.

Lemma size_0_iff x : N.size x <= 0 <-> x = 0.
Proof. destruct x as [|p]; split; intros H; try reflexivity; try discriminate; unfold N.size in *; lia. Qed.

Lemma canon_wv_empty w : canon_wv w (mkwv [] 0).
Proof.
  unfold canon_wv. cbn [wd wl]. split; [constructor|]. rewrite raw_nil. change (lenw []) with 0.
  change (2 ^ 0) with 1. lia.
Qed.

Lemma f_from_uint_spec w n t x :
  0 < w -> x < 2 ^ t ->
  (w * n < N.size x -> f_from_uint w n t x = Err ECap) /\
  (N.size x <= w * n ->
   exists r, f_from_uint w n t x = Ok r /\ canon_wv w r /\ lenw (wd r) = n /\
             wl r = N.min t (w * n) /\ raw w (wd r) = x).
Proof.
  intros Hw Hx. destruct (N.eq_dec n 0) as [->|Hn].
  - assert (f_from_uint w 0 t x = if x =? 0 then Ok (mkwv [] 0) else Err ECap) as E.
    { unfold f_from_uint. rewrite N.mul_0_r, N.min_0_r.
      change (0 <? 0) with false. change (zerosw 0) with (@nil N). change (mapi _ []) with (@nil N).
      cbv iota.
      destruct x as [|p].
      - change (0 =? 0) with true. change (0 <? N.size 0) with false. cbv iota.
        destruct (t <=? w); reflexivity.
      - change (N.pos p =? 0) with false. change (0 <? N.size (N.pos p)) with true. cbv iota.
        destruct (t <=? w); reflexivity. }
    rewrite E, N.mul_0_r, N.min_0_r. split.
    + intros H. destruct (N.eqb_spec x 0) as [->|Hne]; [|reflexivity]. unfold N.size in H. lia.
    + intros H. apply size_0_iff in H. subst x. change (0 =? 0) with true. cbv iota.
      eexists. split; [reflexivity|]. split; [apply canon_wv_empty|]. cbn [wd wl].
      rewrite raw_nil. auto.
  - apply f_from_uint_spec_pos; [assumption|lia|assumption].
Qed.

(* a fixed type without storage words accepts exactly the integer 0, as the empty vector *)
Lemma f_from_uint_zero_words w t x :
  std_width w -> std_width t -> x < 2 ^ t ->
  f_from_uint w 0 t x = if x =? 0 then Ok (mkwv [] 0) else Err ECap.
Proof.
  intros _ _ _. unfold f_from_uint. rewrite N.mul_0_r, N.min_0_r.
  change (0 <? 0) with false. change (zerosw 0) with (@nil N). change (mapi _ []) with (@nil N).
  cbv iota.
  destruct x as [|p].
  - change (0 =? 0) with true. change (0 <? N.size 0) with false. cbv iota.
    destruct (t <=? w); reflexivity.
  - change (N.pos p =? 0) with false. change (0 <? N.size (N.pos p)) with true. cbv iota.
    destruct (t <=? w); reflexivity.
Qed.

Lemma slice_int_len_one t x : std_width t -> slice_int_len t 64 [x] = (t + 63) / 64.
Proof. unfold std_width. cbn [In]. intros [<-|[<-|[<-|[<-|[<-|[]]]]]]; reflexivity. Qed.

Lemma d_from_uint_spec t x :
  std_width t -> x < 2 ^ t ->
  exists r, d_from_uint t x = Ok r /\ canon_wv 64 r /\ wl r = t /\ raw 64 (wd r) = x.
Proof.
  intros Ht Hx. unfold d_from_uint, W64. rewrite slice_int_len_one by assumption.
  pose proof (std_widths_ok t 64 Ht std_width_64) as Hww.
  assert (words_ok t [x]) as Hox by (constructor; [assumption|constructor]).
  assert (raw t [x] = x) as Hrx by (rewrite raw_cons, raw_nil; lia).
  assert (forall i, slice_get_int t 64 [x] i =
                    if i <? (t + 63) / 64 then Some ((x / 2 ^ (64 * i)) mod 2 ^ 64) else None) as Hg.
  { intros i. rewrite (slice_get_int_spec t 64 Hww [x] i Hox), Hrx.
    change (lenw [x]) with 1.
    destruct (N.ltb_spec (i * 64) (t * 1)); destruct (N.ltb_spec i ((t + 63) / 64)); try reflexivity; lia. }
  rewrite (omap_list_unwrap (fun i => slice_get_int t 64 [x] i)).
  - cbn [bind]. eexists. split; [reflexivity|]. cbn [wd wl].
    set (d := map _ _).
    assert (lenw d = (t + 63) / 64) as Hd by (unfold d; apply lenw_map_nrange).
    destruct (raw_of_digits 64 d x eq_refl) as [Hok HR].
    + rewrite Hd. apply N.lt_le_trans with (2 ^ t); [assumption|apply pow2_le; lia].
    + intros i Hi. unfold d. rewrite getw_map_nrange by lia. rewrite Hg.
      assert (i <? (t + 63) / 64 = true) as -> by (apply N.ltb_lt; lia). reflexivity.
    + split; [|auto]. unfold canon_wv. cbn [wd wl]. rewrite HR, Hd.
      split; [assumption|]. split; [lia|assumption].
  - intros i Hi. apply In_nrange in Hi. rewrite Hg.
    assert (i <? (t + 63) / 64 = true) as -> by (apply N.ltb_lt; lia). eauto.
Qed.

(* the inline variant of Bv / the Bvp operand holds every native integer *)
Lemma bvp_from_uint t x :
  std_width t -> x < 2 ^ t ->
  exists r, f_from_uint 64 2 t x = Ok r /\ canon_wv 64 r /\ lenw (wd r) = 2 /\ wl r = t /\ raw 64 (wd r) = x.
Proof.
  intros Ht Hx. pose proof (std_width_le128 t Ht) as Ht128. pose proof (size_le_of_lt x t Hx) as Hsz.
  destruct (f_from_uint_spec 64 2 t x eq_refl Hx) as [_ HO].
  destruct HO as (r & E & Hc & Hn & Hl & Hr); [lia|].
  exists r. rewrite N.min_l in Hl by lia. auto.
Qed.

Theorem k_from_uint_spec k t x :
  kind_ok k -> std_width t -> x < 2 ^ t ->
  (kind_fixed k = true -> kind_cap k < N.size x -> k_from_uint k t x = Err ECap) /\
  (kind_fixed k = false \/ N.size x <= kind_cap k ->
   exists r, k_from_uint k t x = Ok r /\ Good r /\ kind_matches k r = true /\
             abs r = mkbv (if kind_fixed k then N.min t (kind_cap k) else t) x).
Proof.
  intros Hk Ht Hx.
  destruct k as [w n| |]; cbn [kind_ok kind_fixed kind_cap k_from_uint] in *.
  - destruct Hk as [Hw Hn].
    destruct (f_from_uint_spec w n t x (std_width_pos w Hw) Hx) as [HE HO].
    split.
    + intros _ H. rewrite HE by assumption. reflexivity.
    + intros [H|H]; [discriminate|].
      destruct (HO H) as (r & -> & Hc & Hnr & Hl & Hr). cbn [bind].
      pose proof (Good_XF w r Hw Hc) as Hg.
      exists (XF w r). split; [reflexivity|]. split; [assumption|].
      split; [cbn [kind_matches]; rewrite Hnr, !N.eqb_refl; reflexivity|].
      rewrite abs_Canon by apply Hg. unfold xlen, val, xdata. cbn [xv xw]. rewrite Hl, Hr. reflexivity.
  - split; [discriminate|]. intros _.
    destruct (d_from_uint_spec t x Ht Hx) as (r & -> & Hc & Hl & Hr). cbn [bind].
    pose proof (Good_XD r Hc) as Hg.
    exists (XD r). split; [reflexivity|]. split; [assumption|]. split; [reflexivity|].
    rewrite abs_Canon by apply Hg. unfold xlen, val, xdata. cbn [xv xw]. rewrite Hl, Hr. reflexivity.
  - split; [discriminate|]. intros _.
    unfold BVP_CAP, BVP_W, BVP_N.
    assert (t <=? 128 = true) as -> by (apply N.leb_le, std_width_le128; assumption).
    destruct (bvp_from_uint t x Ht Hx) as (r & -> & Hc & Hn & Hl & Hr).
    pose proof (Good_XA_fixed r Hc Hn) as Hg.
    exists (XA true r). split; [reflexivity|]. split; [assumption|]. split; [reflexivity|].
    rewrite abs_Canon by apply Hg. unfold xlen, val, xdata. cbn [xv xw]. rewrite Hl, Hr. reflexivity.
Qed.

Theorem lift_uint_spec lhs t x :
  std_width t -> x < 2 ^ t ->
  exists r, lift_uint lhs t x = Ok r /\ Good r /\ abs r = mkbv t x.
Proof.
  intros Ht Hx. unfold lift_uint, BVP_W, BVP_N. destruct (is_fixed lhs).
  - destruct (bvp_from_uint t x Ht Hx) as (r & -> & Hc & Hn & Hl & Hr).
    pose proof (Good_XF 64 r std_width_64 Hc) as Hg.
    exists (XF 64 r). split; [reflexivity|]. split; [assumption|].
    rewrite abs_Canon by apply Hg. unfold xlen, val, xdata. cbn [xv xw]. rewrite Hl, Hr. reflexivity.
  - destruct (d_from_uint_spec t x Ht Hx) as (r & -> & Hc & Hl & Hr). cbn [bind].
    pose proof (Good_XD r Hc) as Hg.
    exists (XD r). split; [reflexivity|]. split; [assumption|].
    rewrite abs_Canon by apply Hg. unfold xlen, val, xdata. cbn [xv xw]. rewrite Hl, Hr. reflexivity.
Qed.

(* ------------------------------------------------------------------ from slices of integers *)

Lemma combine_snoc {A B} (l1 : list A) (l2 : list B) a b :
  length l1 = length l2 -> combine (l1 ++ [a]) (l2 ++ [b]) = combine l1 l2 ++ [(a, b)].
Proof.
  revert l2. induction l1 as [|x r IH]; intros [|y r2] H; cbn [length] in H; try discriminate; [reflexivity|].
  cbn [app combine]. rewrite IH by lia. reflexivity.
Qed.

Lemma lenw_snoc (s : list N) x : lenw (s ++ [x]) = lenw s + 1.
Proof. unfold lenw. rewrite app_length. cbn [length]. lia. Qed.

Lemma enum_snoc s x : enum (s ++ [x]) = enum s ++ [(lenw s, x)].
Proof.
  unfold enum. rewrite lenw_snoc, nrange_succ. apply combine_snoc.
  rewrite nrange_length. unfold lenw. lia.
Qed.

(* `for (i, x) in slice.iter().enumerate() { v.set_int::<J>(i, x) }` *)
Lemma set_ints_spec w j v0 :
  widths_ok w j -> canon_wv w v0 -> forall s, Forall (fun x => x < 2 ^ j) s ->
  let v := fold_left (fun v p => v_set_int w j v (fst p) (snd p)) (enum s) v0 in
  canon_wv w v /\ wl v = wl v0 /\ lenw (wd v) = lenw (wd v0) /\
  forall b, N.testbit (raw w (wd v)) b =
            if (b <? j * lenw s) && (b <? wl v0) then N.testbit (raw j s) b
            else N.testbit (raw w (wd v0)) b.
Proof.
  intros Hww Hc0. pose proof Hww as (_ & Hj & _).
  induction s as [|x s IH] using rev_ind; intros Hs v.
  - subst v. cbn [enum fold_left]. split; [assumption|]. split; [reflexivity|]. split; [reflexivity|].
    intros b. rewrite lenw_nil. destruct (N.ltb_spec b (j * 0)); [lia|reflexivity].
  - apply Forall_app in Hs. destruct Hs as [Hs Hx]. inversion Hx as [|? ? Hxj _]; subst.
    specialize (IH Hs). cbv zeta in IH. subst v. rewrite enum_snoc, fold_left_app. cbn [fold_left fst snd].
    set (v1 := fold_left _ (enum s) v0) in *. destruct IH as (Hc1 & Hl1 & Hn1 & Hb1).
    destruct (v_set_int_spec w j v1 (lenw s) x Hww Hc1 Hxj) as (Hc2 & Hl2 & Hn2 & Hb2).
    split; [assumption|]. split; [congruence|]. split; [congruence|].
    intros b. rewrite Hb2, Hb1, Hl1, lenw_snoc.
    assert (words_ok j s) as Hos by exact Hs.
    pose proof (raw_lt j s Hos) as Hrs.
    rewrite (raw_app j Hj s [x]), raw_cons, raw_nil, N.mul_0_r, N.add_0_r.
    rewrite concat_testbit by assumption.
    replace (j * (lenw s + 1)) with (j * lenw s + j) by lia.
    destruct (N.leb_spec (j * lenw s) b); destruct (N.ltb_spec b (j * lenw s + j));
      destruct (N.ltb_spec b (wl v0)); destruct (N.ltb_spec b (j * lenw s)); cbn [andb]; try reflexivity; lia.
Qed.

Lemma set_ints_zero w j v0 s :
  widths_ok w j -> canon_wv w v0 -> raw w (wd v0) = 0 -> wl v0 = lenw s * j ->
  Forall (fun x => x < 2 ^ j) s ->
  let v := fold_left (fun v p => v_set_int w j v (fst p) (snd p)) (enum s) v0 in
  canon_wv w v /\ wl v = lenw s * j /\ lenw (wd v) = lenw (wd v0) /\ raw w (wd v) = raw j s.
Proof.
  intros Hww Hc0 Hr0 Hl0 Hs v.
  destruct (set_ints_spec w j v0 Hww Hc0 s Hs) as (Hc & Hl & Hn & Hb). fold v in Hc, Hl, Hn, Hb.
  split; [assumption|]. split; [congruence|]. split; [assumption|].
  apply N.bits_inj. intro b. rewrite Hb, Hr0, Hl0, N.bits_0.
  replace (lenw s * j) with (j * lenw s) by lia.
  destruct (N.ltb_spec b (j * lenw s)) as [H|H]; cbn [andb]; [reflexivity|].
  symmetry. apply (testbit_high _ (j * lenw s)); [apply raw_lt; exact Hs|assumption].
Qed.

Lemma fold_x_with (f : wv -> N * N -> wv) l z :
  fold_left (fun x p => x_with x (f (xv x) p)) l z = x_with z (fold_left f l (xv z)).
Proof.
  revert z. induction l as [|p r IH]; intros z; cbn [fold_left].
  - destruct z; reflexivity.
  - rewrite IH. destruct z; reflexivity.
Qed.

Theorem k_from_slice_spec k j s :
  kind_ok k -> std_width j -> Forall (fun x => x < 2 ^ j) s ->
  (fits k (lenw s * j) = false -> k_from_slice k j s = Err ECap) /\
  (fits k (lenw s * j) = true ->
   exists r, k_from_slice k j s = Ok r /\ Good r /\ kind_matches k r = true /\
             abs r = mkbv (lenw s * j) (raw j s)).
Proof.
  intros Hk Hj Hs.
  destruct k as [w n| |]; cbn [kind_ok fits kind_fixed kind_cap negb orb k_from_slice] in *.
  - destruct Hk as [Hw Hn]. unfold f_from_slice. split; intros H.
    + rewrite H. reflexivity.
    + rewrite H. apply N.leb_le in H.
      destruct (f_zeros_spec w n (lenw s * j) H) as (z & -> & Hcz & Hlz & Hnz & Hrz). cbn [bind].
      destruct (set_ints_zero w j z s (std_widths_ok w j Hw Hj) Hcz Hrz Hlz Hs) as (Hc & Hl & Hnr & Hr).
      set (v := fold_left _ (enum s) z) in *.
      pose proof (Good_XF w v Hw Hc) as Hg.
      exists (XF w v). split; [reflexivity|]. split; [assumption|].
      split; [cbn [kind_matches]; rewrite Hnr, Hnz, !N.eqb_refl; reflexivity|].
      rewrite abs_Canon by apply Hg. unfold xlen, val, xdata. cbn [xv xw]. rewrite Hl, Hr. reflexivity.
  - split; intros H; [discriminate|]. unfold d_from_slice, W64.
    destruct (d_zeros_spec (lenw s * j)) as (Hcz & Hlz & Hrz & _).
    destruct (set_ints_zero 64 j (d_zeros (lenw s * j)) s (std_widths_ok 64 j std_width_64 Hj) Hcz Hrz Hlz Hs)
      as (Hc & Hl & Hnr & Hr).
    set (v := fold_left _ (enum s) _) in *.
    pose proof (Good_XD v Hc) as Hg.
    exists (XD v). split; [reflexivity|]. split; [assumption|]. split; [reflexivity|].
    rewrite abs_Canon by apply Hg. unfold xlen, val, xdata. cbn [xv xw]. rewrite Hl, Hr. reflexivity.
  - split; intros H; [discriminate|]. unfold k_zeros, BVP_CAP, BVP_W, BVP_N, W64.
    pose proof (std_widths_ok 64 j std_width_64 Hj) as Hww.
    destruct (N.leb_spec (lenw s * j) 128) as [Hcap|Hcap].
    + destruct (f_zeros_spec 64 2 (lenw s * j) ltac:(lia)) as (z & -> & Hcz & Hlz & Hnz & Hrz). cbn [bind].
      rewrite (fold_x_with (fun v p => v_set_int 64 j v (fst p) (snd p))). cbn [xv x_with].
      destruct (set_ints_zero 64 j z s Hww Hcz Hrz Hlz Hs) as (Hc & Hl & Hnr & Hr).
      set (v := fold_left _ (enum s) z) in *.
      pose proof (Good_XA_fixed v Hc ltac:(congruence)) as Hg.
      exists (XA true v). split; [reflexivity|]. split; [assumption|]. split; [reflexivity|].
      rewrite abs_Canon by apply Hg. unfold xlen, val, xdata. cbn [xv xw]. rewrite Hl, Hr. reflexivity.
    + cbn [bind].
      rewrite (fold_x_with (fun v p => v_set_int 64 j v (fst p) (snd p))). cbn [xv x_with].
      destruct (d_zeros_spec (lenw s * j)) as (Hcz & Hlz & Hrz & _).
      destruct (set_ints_zero 64 j (d_zeros (lenw s * j)) s Hww Hcz Hrz Hlz Hs) as (Hc & Hl & Hnr & Hr).
      set (v := fold_left _ (enum s) _) in *.
      pose proof (Good_XA_dyn v Hc) as Hg.
      exists (XA false v). split; [reflexivity|]. split; [assumption|]. split; [reflexivity|].
      rewrite abs_Canon by apply Hg. unfold xlen, val, xdata. cbn [xv xw]. rewrite Hl, Hr. reflexivity.
Qed.
