(* Proofs/ConvP.v *)
From BVA Require Import Base.Prelude Base.Result Base.Words Base.Limbs.
From BVA Require Import Model.Core Model.Ops Model.Arith Model.Conv Model.Auto Model.Run Spec.Spec Spec.Prop.
From BVA Require Import Proofs.Common Proofs.Rechunk Proofs.Lift.
From Coq Require Import ZifyBool ZifyN ZifyNat.
From BVA Require Import Proofs.Counts Proofs.Edit.

(* Conversions between native integers, integer slices and the three bit-vector types
   (properties C11 and C12). *)

Definition kind_ok (k : kind) : Prop :=
  match k with KF w n => std_width w /\ 0 < n | _ => True end.

(* ------------------------------------------------------------------ general helpers *)

Lemma std_width_le128 t : std_width t -> t <= 128.
Proof. unfold std_width. cbn [In]. intros [<-|[<-|[<-|[<-|[<-|[]]]]]]; lia. Qed.

Lemma std_width_ge8 t : std_width t -> 8 <= t.
Proof. unfold std_width. cbn [In]. intros [<-|[<-|[<-|[<-|[<-|[]]]]]]; lia. Qed.

Lemma lt_pow2_size x n : N.size x <= n -> x < 2 ^ n.
Proof.
  intros H. apply N.lt_le_trans with (2 ^ N.size x); [apply size_lt_pow2|apply pow2_le; assumption].
Qed.

(* a word list whose words are the w-bit digits of R *)
Lemma raw_of_digits w d R :
  0 < w -> R < 2 ^ (w * lenw d) ->
  (forall i, i < lenw d -> getw d i = (R / 2 ^ (w * i)) mod 2 ^ w) ->
  words_ok w d /\ raw w d = R.
Proof.
  intros Hw HR Hg.
  assert (words_ok w d) as Hd.
  { apply words_ok_getw. intros i Hi. rewrite Hg by assumption. apply N.mod_lt, pow2_ne0. }
  split; [assumption|].
  apply N.bits_inj. intro b. rewrite raw_testbit by assumption.
  pose proof (div_mod_eq b w) as Eb. pose proof (mod_lt' b w Hw) as Hbm.
  destruct (N.lt_ge_cases (b / w) (lenw d)) as [Hlt|Hge].
  - rewrite Hg by assumption. rewrite mod_pow2_testbit, div_pow2_testbit.
    assert (b mod w <? w = true) as -> by (apply N.ltb_lt; assumption). cbn [andb].
    f_equal. lia.
  - rewrite getw_high by assumption. rewrite N.bits_0. symmetry.
    apply (testbit_high R (w * lenw d)); [assumption|].
    assert (w * lenw d <= w * (b / w)) by (apply N.mul_le_mono_l; assumption). lia.
Qed.

Lemma getw_map_nrange (f : N -> N) k i : i < k -> getw (map f (nrange k)) i = f i.
Proof.
  intros H. unfold getw.
  rewrite (nth_indep _ 0 (f 0)) by (rewrite map_length, nrange_length; lia).
  rewrite map_nth. f_equal. apply getw_nrange. assumption.
Qed.

Lemma lenw_map_nrange (f : N -> N) k : lenw (map f (nrange k)) = k.
Proof. unfold lenw. rewrite map_length, nrange_length. lia. Qed.

(* `(0..k).map(|i| g(i).unwrap()).collect()` *)
Lemma omap_list_unwrap (g : N -> option N) l :
  (forall i, In i l -> exists x, g i = Some x) ->
  omap_list (fun i => unwrap (g i)) l = Ok (map (fun i => odefault (g i) 0) l).
Proof.
  induction l as [|a r IH]; intros H; [reflexivity|].
  cbn [omap_list map]. destruct (H a (or_introl eq_refl)) as [x Hx]. rewrite Hx.
  cbn [unwrap bind odefault]. rewrite IH by (intros i Hi; apply H; right; assumption).
  reflexivity.
Qed.

(* `for i in 0..k { d[i] = g(i).unwrap() }` *)
Lemma fold_seto_unwrap (g : N -> option N) k d0 :
  k <= lenw d0 -> (forall i, i < k -> exists x, g i = Some x) ->
  exists d,
    fold_left (fun acc i => let! d := acc in let! x := unwrap (g i) in seto d i x) (nrange k) (Ok d0) = Ok d /\
    lenw d = lenw d0 /\
    forall i, getw d i = if i <? k then odefault (g i) 0 else getw d0 i.
Proof.
  induction k as [|k IH] using N.peano_ind; intros Hk Hg.
  - exists d0. rewrite nrange_0. cbn [fold_left]. split; [reflexivity|]. split; [reflexivity|].
    intros i. destruct (N.ltb_spec i 0); [lia|reflexivity].
  - rewrite <- N.add_1_r in *. destruct IH as (d & E & Hl & Hd); [lia|intros i Hi; apply Hg; lia|].
    rewrite nrange_succ, fold_left_app, E. cbn [fold_left bind].
    destruct (Hg k ltac:(lia)) as [x Hx]. rewrite Hx. cbn [unwrap bind].
    rewrite seto_ok by lia. eexists. split; [reflexivity|]. split; [rewrite lenw_setw; assumption|].
    intros i. rewrite getw_setw, Hd, Hl.
    assert (k <? lenw d0 = true) as -> by (apply N.ltb_lt; lia). rewrite andb_true_r.
    destruct (N.eqb_spec k i) as [<-|Hne].
    + assert (k <? k + 1 = true) as -> by (apply N.ltb_lt; lia). rewrite Hx. reflexivity.
    + destruct (N.ltb_spec i k); destruct (N.ltb_spec i (k + 1)); try reflexivity; lia.
Qed.

Lemma abs_eq_of x y : Canon x -> Canon y -> xlen y = xlen x -> val y = val x -> abs y = abs x.
Proof. intros Hx Hy Hl Hv. rewrite !abs_Canon by assumption. rewrite Hl, Hv. reflexivity. Qed.

Lemma Good_XF w v : std_width w -> canon_wv w v -> Good (XF w v).
Proof.
  intros Hw Hc. split; [|exact Hw].
  apply Canon_XF; [assumption|apply std_width_pos; assumption|apply std_width_mod8; assumption].
Qed.
Lemma Good_XD v : canon_wv 64 v -> Good (XD v).
Proof. intros Hc. apply Good_of_Canon_D, Canon_XD. assumption. Qed.
Lemma Good_XA_fixed v : canon_wv 64 v -> lenw (wd v) = 2 -> Good (XA true v).
Proof. intros Hc Hl. apply Good_of_Canon_A, Canon_XA_fixed; assumption. Qed.
Lemma Good_XA_dyn v : canon_wv 64 v -> Good (XA false v).
Proof. intros Hc. apply Good_of_Canon_A, Canon_XA_dyn. assumption. Qed.

(* ------------------------------------------------------------------ significant bits *)

Lemma v_leading_cfbl_ext ones cf1 cf2 w v :
  cf1 (wl v) = cf2 (wl v) -> v_leading ones cf1 w v = v_leading ones cf2 w v.
Proof. intros H. unfold v_leading. rewrite H. reflexivity. Qed.

Lemma x_count0_spec a : Good a -> x_count 0 a + N.size (val a) = xlen a.
Proof.
  intros [Hc Hw]. unfold x_count.
  rewrite (v_leading_cfbl_ext false _ (cfbl_f (xw a))).
  - apply lz_plus_sigbits; [apply std_width_pos; assumption|apply Canon_wv; assumption].
  - destruct a as [w v|v|[|] v]; cbn [is_fixed xw xv]; try reflexivity; apply Counts.cfbl_d_eq.
Qed.

(* x_sigbits is the number of significant bits, in both profiles *)
Theorem x_sigbits_spec P a : Good a -> x_sigbits P a = Ok (N.size (val a)).
Proof.
  intros H. pose proof (x_count0_spec a H) as E.
  unfold x_sigbits, v_sigbits. fold (xlen a). rewrite usub_ok by lia. f_equal. lia.
Qed.

(* ------------------------------------------------------------------ between implementations *)

(* a word list built from the w2-bit digits read through get_int::<I2> *)
Lemma conv_core w1 w2 src d :
  widths_ok w1 w2 -> canon_wv w1 src -> wl src <= w2 * lenw d ->
  (forall i, i < lenw d -> getw d i = odefault (v_get_int w1 w2 src i) 0) ->
  canon_wv w2 (mkwv d (wl src)) /\ raw w2 d = raw w1 (wd src).
Proof.
  intros Hww Hc Hl Hg. pose proof Hww as (_ & Hw2 & _).
  pose proof Hc as (_ & _ & Hr).
  destruct (raw_of_digits w2 d (raw w1 (wd src)) Hw2) as [Hd HR].
  - apply N.lt_le_trans with (2 ^ wl src); [assumption|apply pow2_le; assumption].
  - intros i Hi. rewrite Hg by assumption. apply (v_get_int_digits w1 w2 src Hww Hc).
  - split; [|assumption]. unfold canon_wv. cbn [wd wl]. rewrite HR. auto.
Qed.

Lemma v_int_len_le j v n : 0 < j -> wl v <= j * n -> v_int_len j v <= n.
Proof. intros Hj H. unfold v_int_len. apply ceil_div_spec; assumption. Qed.

Lemma v_get_int_none w j v i :
  widths_ok w j -> canon_wv w v -> v_int_len j v <= i -> v_get_int w j v i = None.
Proof.
  intros Hww Hc Hi. destruct (v_get_int w j v i) eqn:E; [|reflexivity].
  assert (i < v_int_len j v) by (apply (v_get_int_some_iff w j v i Hww Hc); eauto). lia.
Qed.

Lemma f_from_f_spec w2 n2 w1 src :
  widths_ok w1 w2 -> canon_wv w1 src -> wl src <= w2 * n2 ->
  exists r, f_from_f w2 n2 w1 src = Ok r /\ canon_wv w2 r /\ wl r = wl src /\ lenw (wd r) = n2 /\
            raw w2 (wd r) = raw w1 (wd src).
Proof.
  intros Hww Hc Hl. pose proof Hww as (_ & Hw2 & _). unfold f_from_f.
  assert (w2 * n2 <? wl src = false) as -> by (apply N.ltb_ge; assumption).
  pose proof (v_int_len_le w2 src n2 Hw2 Hl) as Hk. rewrite N.min_r by assumption.
  destruct (fold_seto_unwrap (fun i => v_get_int w1 w2 src i) (v_int_len w2 src) (zerosw n2)) as (d & E & Hd & Hg).
  - rewrite lenw_zerosw. assumption.
  - intros i Hi. apply (v_get_int_some_iff w1 w2 src i Hww Hc). assumption.
  - rewrite E. cbn [bind]. eexists. split; [reflexivity|]. cbn [wd wl].
    rewrite lenw_zerosw in Hd.
    destruct (conv_core w1 w2 src d Hww Hc) as [Hcd HR]; [rewrite Hd; assumption| |auto].
    intros i _. rewrite Hg. destruct (N.ltb_spec i (v_int_len w2 src)) as [Hi|Hi]; [reflexivity|].
    rewrite getw_zerosw, v_get_int_none by assumption. reflexivity.
Qed.

Lemma f_from_d_spec w n src :
  widths_ok 64 w -> canon_wv 64 src -> wl src <= w * n ->
  exists r, f_from_d w n src = Ok r /\ canon_wv w r /\ wl r = wl src /\ lenw (wd r) = n /\
            raw w (wd r) = raw 64 (wd src).
Proof.
  intros Hww Hc Hl. unfold f_from_d, W64.
  assert (w * n <? wl src = false) as -> by (apply N.ltb_ge; assumption).
  eexists. split; [reflexivity|]. cbn [wd wl].
  set (d := mapi _ _).
  assert (lenw d = n) as Hd by (unfold d; rewrite lenw_mapi, lenw_zerosw; reflexivity).
  destruct (conv_core 64 w src d Hww Hc) as [Hcd HR]; [rewrite Hd; assumption| |auto].
  intros i Hi. unfold d. rewrite getw_mapi by (rewrite lenw_zerosw; lia). reflexivity.
Qed.

Lemma f_from_a_spec w n src :
  widths_ok 64 w -> canon_wv 64 src -> wl src <= w * n ->
  exists r, f_from_a w n src = Ok r /\ canon_wv w r /\ wl r = wl src /\ lenw (wd r) = n /\
            raw w (wd r) = raw 64 (wd src).
Proof.
  intros Hww Hc Hl. pose proof Hww as (_ & Hw2 & _). unfold f_from_a, W64.
  assert (w * n <? wl src = false) as -> by (apply N.ltb_ge; assumption).
  pose proof (v_int_len_le w src n Hw2 Hl) as Hk.
  destruct (fold_seto_unwrap (fun i => v_get_int 64 w src i) (v_int_len w src) (zerosw n)) as (d & E & Hd & Hg).
  - rewrite lenw_zerosw. assumption.
  - intros i Hi. apply (v_get_int_some_iff 64 w src i Hww Hc). assumption.
  - rewrite E. cbn [bind]. eexists. split; [reflexivity|]. cbn [wd wl].
    rewrite lenw_zerosw in Hd.
    destruct (conv_core 64 w src d Hww Hc) as [Hcd HR]; [rewrite Hd; assumption| |auto].
    intros i _. rewrite Hg. destruct (N.ltb_spec i (v_int_len w src)) as [Hi|Hi]; [reflexivity|].
    rewrite getw_zerosw, v_get_int_none by assumption. reflexivity.
Qed.

Lemma d_from_f_spec w src :
  widths_ok w 64 -> canon_wv w src ->
  exists r, d_from_f w src = Ok r /\ canon_wv 64 r /\ wl r = wl src /\ raw 64 (wd r) = raw w (wd src).
Proof.
  intros Hww Hc. unfold d_from_f, W64.
  rewrite (omap_list_unwrap (fun i => v_get_int w 64 src i)).
  - cbn [bind]. eexists. split; [reflexivity|]. cbn [wd wl].
    set (d := map _ _).
    assert (lenw d = v_int_len 64 src) as Hd by (unfold d; apply lenw_map_nrange).
    destruct (conv_core w 64 src d Hww Hc) as [Hcd HR]; [| |auto].
    + rewrite Hd. unfold v_int_len. apply (ceil_div_spec (wl src) 64 eq_refl). lia.
    + intros i Hi. unfold d. rewrite getw_map_nrange by lia. reflexivity.
  - intros i Hi. apply In_nrange in Hi. apply (v_get_int_some_iff w 64 src i Hww Hc). assumption.
Qed.

Lemma to_fixed_spec w n src :
  std_width w -> Good src ->
  (w * n < xlen src -> to_fixed w n src = Err ECap) /\
  (xlen src <= w * n ->
   exists r, to_fixed w n src = Ok r /\ canon_wv w r /\ wl r = xlen src /\ lenw (wd r) = n /\
             raw w (wd r) = val src).
Proof.
  intros Hw [Hc Hs]. pose proof (Canon_wv src Hc) as Hcv.
  split.
  - intros H. apply N.ltb_lt in H.
    destruct src as [w1 v|v|fx v]; unfold xlen in *; cbn [to_fixed xv] in *; unfold f_from_f, f_from_d, f_from_a;
      rewrite H; reflexivity.
  - intros H. destruct src as [w1 v|v|fx v]; unfold xlen, val, xdata in *; cbn [to_fixed xv xw] in *.
    + apply f_from_f_spec; [apply std_widths_ok|..]; assumption.
    + apply f_from_d_spec; [apply std_widths_ok|..]; assumption.
    + apply f_from_a_spec; [apply std_widths_ok|..]; assumption.
Qed.

Lemma to_dyn_spec src :
  Good src ->
  exists r, to_dyn src = Ok r /\ canon_wv 64 r /\ wl r = xlen src /\ raw 64 (wd r) = val src.
Proof.
  intros [Hc Hs]. pose proof (Canon_wv src Hc) as Hcv.
  destruct src as [w v|v|[|] v]; unfold xlen, val, xdata in *; cbn [to_dyn xv xw] in *.
  - apply d_from_f_spec; [apply std_widths_ok; [assumption|apply std_width_64]|assumption].
  - exists v. auto.
  - apply d_from_f_spec; [apply std_widths_ok; apply std_width_64|assumption].
  - exists v. auto.
Qed.

Lemma to_auto_spec src :
  Good src ->
  exists r, to_auto src = Ok r /\ Good r /\ kind_matches KA r = true /\ xlen r = xlen src /\ val r = val src.
Proof.
  intros [Hc Hs]. pose proof (Canon_wv src Hc) as Hcv.
  destruct src as [w v|v|fx v]; unfold xlen, val, xdata in *; cbn [to_auto xv xw] in *.
  - unfold BVP_CAP, BVP_W, BVP_N, capw. pose proof Hcv as (_ & Hl & _).
    destruct (N.leb_spec (w * lenw (wd v)) 128) as [Hcap|Hcap].
    + destruct (f_from_f_spec 64 2 w v) as (r & -> & Hcr & Hlr & Hnr & Hr);
        [apply std_widths_ok; [assumption|apply std_width_64]|assumption|lia|].
      exists (XA true r). split; [reflexivity|]. split; [apply Good_XA_fixed; assumption|].
      split; [reflexivity|]. split; assumption.
    + destruct (d_from_f_spec w v) as (r & -> & Hcr & Hlr & Hr);
        [apply std_widths_ok; [assumption|apply std_width_64]|assumption|].
      cbn [bind]. exists (XA false r). split; [reflexivity|]. split; [apply Good_XA_dyn; assumption|].
      split; [reflexivity|]. split; assumption.
  - unfold BVP_W, BVP_N.
    destruct (N.le_gt_cases (wl v) (64 * 2)) as [Hcap|Hcap].
    + destruct (f_from_d_spec 64 2 v) as (r & -> & Hcr & Hlr & Hnr & Hr);
        [apply std_widths_ok; apply std_width_64|assumption|assumption|].
      exists (XA true r). split; [reflexivity|]. split; [apply Good_XA_fixed; assumption|].
      split; [reflexivity|]. split; assumption.
    + unfold f_from_d. assert (64 * 2 <? wl v = true) as -> by (apply N.ltb_lt; assumption).
      exists (XA false v). split; [reflexivity|]. split; [apply Good_XA_dyn; assumption|].
      split; [reflexivity|]. split; reflexivity.
  - exists (XA fx v). split; [reflexivity|]. split; [split; assumption|].
    split; [reflexivity|]. split; reflexivity.
Qed.

Theorem convert_spec k src :
  kind_ok k -> Good src ->
  (fits k (xlen src) = false -> convert k src = Err ECap) /\
  (fits k (xlen src) = true ->
   exists r, convert k src = Ok r /\ Good r /\ kind_matches k r = true /\ abs r = abs src).
Proof.
  intros Hk Hs. pose proof Hs as [Hcs _].
  destruct k as [w n| |]; cbn [kind_ok fits kind_fixed kind_cap negb orb convert] in *.
  - destruct Hk as [Hw Hn]. destruct (to_fixed_spec w n src Hw Hs) as [HE HO].
    split; intros H.
    + rewrite HE by lia. reflexivity.
    + destruct HO as (r & -> & Hcr & Hlr & Hnr & Hr); [lia|]. cbn [bind].
      pose proof (Good_XF w r Hw Hcr) as Hg.
      exists (XF w r). split; [reflexivity|]. split; [assumption|].
      split; [cbn [kind_matches]; rewrite Hnr, !N.eqb_refl; reflexivity|].
      apply abs_eq_of; try assumption; apply Hg.
  - split; intros H; [discriminate|].
    destruct (to_dyn_spec src Hs) as (r & -> & Hcr & Hlr & Hr). cbn [bind].
    pose proof (Good_XD r Hcr) as Hg.
    exists (XD r). split; [reflexivity|]. split; [assumption|]. split; [reflexivity|].
    apply abs_eq_of; try assumption; apply Hg.
  - split; intros H; [discriminate|].
    destruct (to_auto_spec src Hs) as (r & -> & Hg & Hm & Hlr & Hr).
    exists r. split; [reflexivity|]. split; [assumption|]. split; [assumption|].
    apply abs_eq_of; try assumption; apply Hg.
Qed.

(* ------------------------------------------------------------------ to native integers *)

Lemma f_to_uint_spec w t v :
  widths_ok w t -> canon_wv w v ->
  f_to_uint w t (N.size (raw w (wd v))) v =
  if N.size (raw w (wd v)) <=? t then Ok (raw w (wd v)) else Err ECap.
Proof.
  intros Hww Hc. unfold f_to_uint.
  destruct (N.ltb_spec t (N.size (raw w (wd v)))) as [H|H];
    destruct (N.leb_spec (N.size (raw w (wd v))) t) as [H'|H']; try lia; [reflexivity|].
  f_equal. rewrite (v_get_int_digits w t v Hww Hc 0).
  rewrite N.mul_0_r. change (2 ^ 0) with 1. rewrite N.div_1_r.
  apply N.mod_small, lt_pow2_size. assumption.
Qed.

(* t <= 64: every iteration overwrites the accumulator with the current word *)
Lemma d_to_uint_fold_small t d k r :
  k <= lenw d ->
  fold_left (fun acc i => let! r := acc in let! x := geto d i in Ok (N.lor 0 (wrap t x)))
            (rev (nrange k)) (Ok r)
  = Ok (if k =? 0 then r else wrap t (getw d 0)).
Proof.
  revert r. induction k as [|k IH] using N.peano_ind; intros r Hk; [reflexivity|].
  rewrite <- N.add_1_r in *. rewrite nrange_succ, rev_app_distr. cbn [rev app fold_left bind].
  rewrite geto_ok by lia. cbn [bind]. rewrite IH by lia. rewrite N.lor_0_l.
  assert (k + 1 =? 0 = false) as -> by (apply N.eqb_neq; lia).
  destruct (N.eqb_spec k 0) as [E|E]; [rewrite E|]; reflexivity.
Qed.

(* t > 64: r = (r << 64) | word, from the top word down *)
Lemma d_to_uint_fold_big t d k :
  64 < t -> words_ok 64 d -> k <= lenw d -> forall r, r < 2 ^ t ->
  exists r',
    fold_left (fun acc i => let! r := acc in let! x := geto d i in Ok (N.lor (shlw t r 64) (wrap t x)))
              (rev (nrange k)) (Ok r) = Ok r' /\
    forall b, N.testbit r' b =
              (b <? t) && (if b <? 64 * k then N.testbit (getw d (b / 64)) (b mod 64)
                           else N.testbit r (b - 64 * k)).
Proof.
  intros Ht Hd. induction k as [|k IH] using N.peano_ind; intros Hk r Hr.
  - exists r. split; [reflexivity|]. intros b.
    destruct (N.ltb_spec b (64 * 0)); [lia|]. replace (b - 64 * 0) with b by lia.
    destruct (N.ltb_spec b t); [reflexivity|]. cbn [andb]. apply (testbit_high r t); assumption.
  - rewrite <- N.add_1_r in *. rewrite nrange_succ, rev_app_distr. cbn [rev app fold_left bind].
    rewrite geto_ok by lia. cbn [bind].
    set (r1 := N.lor (shlw t r 64) (wrap t (getw d k))).
    assert (r1 < 2 ^ t) as Hr1.
    { apply lt_pow2_of_bits. intros b Hb. unfold r1. rewrite N.lor_spec, shlw_testbit, wrap_testbit.
      assert (b <? t = false) as -> by (apply N.ltb_ge; assumption). reflexivity. }
    destruct (IH ltac:(lia) r1 Hr1) as (r' & E & Hb). exists r'. split; [exact E|].
    intros b. rewrite Hb. destruct (N.ltb_spec b t) as [Hbt|Hbt]; [cbn [andb]|reflexivity].
    destruct (N.ltb_spec b (64 * k)) as [H1|H1].
    + assert (b <? 64 * (k + 1) = true) as -> by (apply N.ltb_lt; lia). reflexivity.
    + unfold r1. rewrite N.lor_spec, shlw_testbit, wrap_testbit.
      assert (b - 64 * k <? t = true) as -> by (apply N.ltb_lt; lia). cbn [andb].
      destruct (N.ltb_spec b (64 * (k + 1))) as [H2|H2].
      * assert (64 <=? b - 64 * k = false) as -> by (apply N.leb_gt; lia). cbn [andb orb].
        f_equal; [f_equal|]; lia.
      * assert (64 <=? b - 64 * k = true) as -> by (apply N.leb_le; lia). cbn [andb].
        rewrite (testbit_high (getw d k) 64 (b - 64 * k)); [|apply getw_ok; assumption|lia].
        rewrite orb_false_r. f_equal. lia.
Qed.

Lemma d_to_uint_spec t v :
  std_width t -> canon_wv 64 v ->
  d_to_uint t (N.size (raw 64 (wd v))) v =
  if N.size (raw 64 (wd v)) <=? t then Ok (raw 64 (wd v)) else Err ECap.
Proof.
  intros Hst Hc. unfold d_to_uint, W64. pose proof Hc as (Hd & Hl & Hr).
  set (R := raw 64 (wd v)) in *.
  destruct (N.ltb_spec t (N.size R)) as [H|H];
    destruct (N.leb_spec (N.size R) t) as [H'|H']; try lia; [reflexivity|].
  pose proof (lt_pow2_size R t H') as HRt.
  assert (cfbl_d (wl v) <= lenw (wd v)) as Hk by (apply Edit.cfbl_d_le; assumption).
  pose proof (Edit.cfbl_d_ge (wl v)) as Hge.
  destruct (N.ltb_spec 64 t) as [Ht|Ht].
  - destruct (d_to_uint_fold_big t (wd v) (cfbl_d (wl v)) Ht Hd Hk 0 (pow2_pos t)) as (r' & -> & Hb).
    f_equal. apply N.bits_inj. intro b. rewrite Hb. unfold R. rewrite raw_testbit by (try assumption; lia).
    destruct (N.ltb_spec b t) as [Hbt|Hbt]; cbn [andb].
    + destruct (N.ltb_spec b (64 * cfbl_d (wl v))) as [H1|H1]; [reflexivity|].
      rewrite N.bits_0. symmetry. rewrite <- raw_testbit by (try assumption; lia).
      apply (testbit_high _ (wl v)); [assumption|lia].
    + symmetry. rewrite <- raw_testbit by (try assumption; lia).
      apply (testbit_high _ t); assumption.
  - rewrite d_to_uint_fold_small by assumption. f_equal.
    destruct (N.eqb_spec (cfbl_d (wl v)) 0) as [E|E].
    + assert (wl v = 0) as E0 by lia. rewrite E0 in Hr. change (2 ^ 0) with 1 in Hr. lia.
    + rewrite (getw_raw 64 eq_refl (wd v) 0 Hd). fold R.
      rewrite N.mul_0_r. change (2 ^ 0) with 1. rewrite N.div_1_r.
      rewrite wrap_small.
      * apply N.mod_small. apply N.lt_le_trans with (2 ^ t); [assumption|apply pow2_le; assumption].
      * apply N.lt_le_trans with (2 ^ t); [|lia].
        rewrite N.mod_small; [assumption|]. apply N.lt_le_trans with (2 ^ t); [assumption|apply pow2_le; assumption].
Qed.

Theorem x_to_uint_spec P a t :
  Good a -> std_width t ->
  x_to_uint P a t = if N.size (val a) <=? t then Ok (val a) else Err ECap.
Proof.
  intros Ha Ht. unfold x_to_uint. rewrite x_sigbits_spec by assumption. cbn [bind].
  destruct Ha as [Hc Hs]. pose proof (Canon_wv a Hc) as Hcv.
  destruct a as [w v|v|[|] v]; unfold val, xdata in *; cbn [is_fixed xw xv] in *.
  - apply f_to_uint_spec; [apply std_widths_ok|]; assumption.
  - apply d_to_uint_spec; assumption.
  - apply f_to_uint_spec; [apply std_widths_ok|]; assumption.
  - apply d_to_uint_spec; assumption.
Qed.
