(* Proofs/RoundTrip.v: C13's closing sentence as one statement -- whatever `write` hands to a sink with room for it,
   `read` of the vector's own length from those bytes (followed by anything) gives back the same type, length and bits,
   and leaves exactly what followed.  Composition of x_to_vec_spec, write_all_sink_fits and k_read_spec. *)
From BVA Require Import Base.Prelude Base.Result Base.Words Base.Limbs.
From BVA Require Import Model.Core Model.Ops Model.Arith Model.Conv Model.Auto Model.Run Spec.Spec Spec.Prop.
From BVA Require Import Proofs.Common Proofs.Rechunk Proofs.Lift.
From Coq Require Import ZifyBool ZifyN ZifyNat.
From BVA Require Import Proofs.Bytes Proofs.XObs Proofs.Sink.
From BVA Require Proofs.XEdit.

Lemma bytes_le_ok a : bytes_ok (bytes_le a).
Proof.
  unfold bytes_ok, bytes_le. apply Forall_forall. intros b Hb. apply in_map_iff in Hb.
  destruct Hb as (j & <- & _). unfold trunc. rewrite N.land_ones. apply N.mod_upper_bound. discriminate.
Qed.

Lemma bytes_ok_rev l : bytes_ok l -> bytes_ok (rev l).
Proof. unfold bytes_ok. intros H. apply Forall_forall. intros b Hb. apply in_rev in Hb. revert b Hb. apply Forall_forall. exact H. Qed.

Lemma bytes_ok_app a b : bytes_ok a -> bytes_ok b -> bytes_ok (a ++ b).
Proof. unfold bytes_ok. intros Ha Hb. apply Forall_app. split; assumption. Qed.

Lemma Good_kind_ok x : Good x -> kind_ok (kind_of x).
Proof.
  intros [Hc Hw]. destruct x as [w v|v|fx v]; cbn [kind_of kind_ok]; try exact I.
  split; [exact Hw|lia].
Qed.

Lemma Good_fits x : Good x -> fits (kind_of x) (xlen x) = true.
Proof.
  intros [[(_ & Hl & _) _] _]. destruct x as [w v|v|fx v]; cbn [kind_of fits kind_fixed kind_cap negb orb]; try reflexivity.
  apply N.leb_le. exact Hl.
Qed.

Theorem write_read_roundtrip x e chunk cap tail :
  Good x -> 0 < chunk -> bytes_ok tail -> (xlen x + 7) / 8 <= cap ->
  exists bytes, x_to_vec x e = Ok bytes /\
    write_all_sink (S (length bytes)) chunk cap bytes [] = (bytes, 0) /\
    exists y, k_read (kind_of x) (bytes ++ tail) (xlen x) e = Ok (y, tail) /\
              Good y /\ kind_matches (kind_of x) y = true /\ abs y = abs x.
Proof.
  intros Hg Hc Ht Hcap.
  set (bytes := match e with Little => bytes_le (abs x) | Big => rev (bytes_le (abs x)) end).
  assert (lenw bytes = (xlen x + 7) / 8) as Hlen.
  { unfold bytes. destruct e; unfold lenw; rewrite ?rev_length; fold (lenw (bytes_le (abs x)));
      rewrite bytes_le_length, XEdit.blen_abs; reflexivity. }
  assert (bytes_ok bytes) as Hb.
  { unfold bytes. destruct e; [|apply bytes_ok_rev]; apply bytes_le_ok. }
  exists bytes. split; [apply x_to_vec_spec; exact Hg|].
  split; [apply write_all_sink_fits; [exact Hc|lia]|].
  destruct (k_read_spec (kind_of x) (bytes ++ tail) (xlen x) e (Good_kind_ok x Hg) (bytes_ok_app _ _ Hb Ht)) as [_ Hok].
  assert (N.to_nat ((xlen x + 7) / 8) = length bytes) as Hn by (unfold lenw in Hlen; lia).
  destruct (Hok (Good_fits x Hg)) as (y & Ey & Gy & Ky & Ay).
  { unfold lenw. rewrite app_length. unfold lenw in Hlen. lia. }
  rewrite Hn, skipn_app, skipn_all, Nat.sub_diag in Ey. cbn [skipn app] in Ey.
  rewrite Hn, firstn_app, firstn_all, Nat.sub_diag in Ay. cbn [firstn] in Ay. rewrite app_nil_r in Ay.
  exists y. repeat (split; [assumption|]).
  rewrite Ay, (Good_abs x Hg). f_equal.
  pose proof (to_vec_from_bytes_value (abs x) e) as Hv. rewrite (Good_abs x Hg) in Hv. cbn [bval blen] in Hv.
  unfold bytes. rewrite (Good_abs x Hg). rewrite Hv by (apply XEdit.Good_val_lt; exact Hg).
  apply N.mod_small. apply XEdit.Good_val_lt. exact Hg.
Qed.

(* ... "and from_bytes(to_vec(v)) is v zero-extended to a whole number of bytes": same type, length 8 * ceil(len/8),
   the same value (so the same bits below len and zeros above).  For a fixed type the whole bytes always fit, because
   its capacity is a whole number of bytes (word widths are multiples of 8). *)
Lemma Good_fits_bytes x : Good x -> fits (kind_of x) (8 * ((xlen x + 7) / 8)) = true.
Proof.
  intros Hg. pose proof Hg as [[(_ & Hl & _) _] Hw].
  destruct x as [w v|v|fx v]; cbn [kind_of fits kind_fixed kind_cap negb orb]; try reflexivity.
  apply N.leb_le. cbn [xlen xv xw] in *.
  pose proof (std_width_mod8 w Hw) as H8. pose proof (std_width_pos w Hw) as Hpos.
  assert (w = 8 * (w / 8)) as Ew by (apply N.div_exact; [discriminate|exact H8]).
  set (q := w / 8) in *. rewrite Ew in Hl |- *.
  rewrite <- N.mul_assoc in Hl |- *. set (m := q * lenw (wd v)) in *.
  change (xlen (XF (8 * q) v)) with (wl v).
  assert ((wl v + 7) / 8 <= m); [|lia].
  apply N.lt_succ_r. apply N.div_lt_upper_bound; [discriminate|]. lia.
Qed.

Theorem to_vec_from_bytes_roundtrip x e :
  Good x ->
  exists bytes, x_to_vec x e = Ok bytes /\
    exists y, k_from_bytes (kind_of x) bytes e = Ok y /\ Good y /\ kind_matches (kind_of x) y = true /\
              abs y = mkbv (8 * ((xlen x + 7) / 8)) (bval (abs x)).
Proof.
  intros Hg.
  set (bytes := match e with Little => bytes_le (abs x) | Big => rev (bytes_le (abs x)) end).
  assert (lenw bytes = (xlen x + 7) / 8) as Hlen.
  { unfold bytes. destruct e; unfold lenw; rewrite ?rev_length; fold (lenw (bytes_le (abs x)));
      rewrite bytes_le_length, XEdit.blen_abs; reflexivity. }
  assert (bytes_ok bytes) as Hb.
  { unfold bytes. destruct e; [|apply bytes_ok_rev]; apply bytes_le_ok. }
  exists bytes. split; [apply x_to_vec_spec; exact Hg|].
  destruct (k_from_bytes_spec (kind_of x) bytes e (Good_kind_ok x Hg) Hb) as [_ Hok].
  rewrite Hlen in Hok. destruct (Hok (Good_fits_bytes x Hg)) as (y & Ey & Gy & Ky & Ay).
  exists y. repeat (split; [assumption|]). rewrite Ay. f_equal.
  unfold bytes. apply to_vec_from_bytes_value.
  rewrite (Good_abs x Hg). cbn [bval blen]. apply XEdit.Good_val_lt. exact Hg.
Qed.

(* non-vacuity: a 9-bit vector in two u8 words, written big-endian through a two-bytes-per-call sink with room for
   three bytes, then read back from those bytes followed by a stray byte *)
Example roundtrip_concrete :
  let x := XF 8 (mkwv [0xAB; 0x01] 9) in
  x_to_vec x Big = Ok [0x01; 0xAB] /\
  write_all_sink 3 2 3 [0x01; 0xAB] [] = ([0x01; 0xAB], 0) /\
  k_read (kind_of x) ([0x01; 0xAB] ++ [7]) 9 Big = Ok (x, [7]) /\
  k_from_bytes (kind_of x) [0x01; 0xAB] Big = Ok (XF 8 (mkwv [0xAB; 0x01] 16)).
Proof. vm_compute. repeat split; reflexivity. Qed.
