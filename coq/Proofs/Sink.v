(* Proofs/Sink.v: `write_all` over a bounded sink (Model/Run.v: write_all_sink) -- for every buffer, every
   sink capacity and every positive number of bytes accepted per call, the loop terminates within its fuel,
   reports success exactly when the whole buffer fits, and the sink then holds exactly the buffer; when it
   does not fit the sink holds the first `cap` bytes and the status is the error. *)
From BVA Require Import Base.Prelude Base.Result Base.Words Base.Limbs.
From BVA Require Import Model.Core Model.Ops Model.Arith Model.Conv Model.Auto Model.Run.
From Coq Require Import ZifyBool ZifyN ZifyNat.

Lemma firstn_add_skipn {A} (n m : nat) (l : list A) :
  firstn (n + m) l = firstn n l ++ firstn m (skipn n l).
Proof.
  revert l. induction n as [|n IH]; intros l; [reflexivity|].
  destruct l as [|x l]; cbn [Nat.add firstn skipn app].
  - rewrite firstn_nil. reflexivity.
  - rewrite IH. reflexivity.
Qed.

Lemma lenw_skipn (n : nat) (l : list N) : lenw (skipn n l) = lenw l - N.of_nat n.
Proof. unfold lenw. rewrite skipn_length. lia. Qed.

Theorem write_all_sink_spec fuel chunk cap buf acc :
  0 < chunk -> (length buf < fuel)%nat ->
  write_all_sink fuel chunk cap buf acc =
    (acc ++ firstn (N.to_nat (N.min cap (lenw buf))) buf, if lenw buf <=? cap then 0 else 1).
Proof.
  intros Hc. revert cap buf acc. induction fuel as [|f IH]; intros cap buf acc Hf; [lia|].
  cbn [write_all_sink]. destruct buf as [|b buf'] eqn:Eb.
  - rewrite firstn_nil, app_nil_r, lenw_nil.
    destruct (N.leb_spec 0 cap) as [H|H]; [reflexivity|lia].
  - rewrite <- Eb in *. assert (0 < lenw buf) as Hpos by (rewrite Eb, lenw_cons; lia).
    clear Eb b buf'.
    set (n := N.min (N.min chunk cap) (lenw buf)).
    destruct (N.eqb_spec n 0) as [Hz|Hnz].
    + assert (cap = 0) as -> by lia.
      rewrite N.min_0_l. cbn [N.to_nat firstn]. rewrite app_nil_r.
      destruct (N.leb_spec (lenw buf) 0) as [H|H]; [lia|reflexivity].
    + assert (n <= cap /\ n <= lenw buf /\ 0 < n) as (Hn1 & Hn2 & Hn3) by lia.
      rewrite IH.
      2:{ rewrite skipn_length. unfold lenw in *. lia. }
      rewrite lenw_skipn, N2Nat.id, <- app_assoc. f_equal.
      * f_equal. rewrite <- firstn_add_skipn. f_equal. lia.
      * destruct (N.leb_spec (lenw buf - n) (cap - n)), (N.leb_spec (lenw buf) cap); try reflexivity; lia.
Qed.

(* in the words of C13: with room for everything, `write` succeeds and emits exactly the buffer ... *)
Corollary write_all_sink_fits chunk cap buf :
  0 < chunk -> lenw buf <= cap -> write_all_sink (S (length buf)) chunk cap buf [] = (buf, 0).
Proof.
  intros Hc Hle. rewrite write_all_sink_spec by (try assumption; lia).
  apply N.leb_le in Hle as Hb. rewrite Hb. rewrite N.min_r by assumption.
  unfold lenw. rewrite Nat2N.id, firstn_all. reflexivity.
Qed.

(* ... and without it reports the error, having handed over a prefix and never more than the sink takes *)
Corollary write_all_sink_full chunk cap buf :
  0 < chunk -> cap < lenw buf ->
  write_all_sink (S (length buf)) chunk cap buf [] = (firstn (N.to_nat cap) buf, 1).
Proof.
  intros Hc Hlt. rewrite write_all_sink_spec by (try assumption; lia).
  apply N.leb_gt in Hlt as Hb. rewrite Hb. rewrite N.min_l by lia. reflexivity.
Qed.
