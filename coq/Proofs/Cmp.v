(* Proofs/Cmp.v *)
From BVA Require Import Base.Prelude Base.Result Base.Words Base.Limbs.
From BVA Require Import Model.Core Model.Ops Model.Arith Model.Conv Model.Auto Spec.Spec Proofs.Common.
From Coq Require Import ZifyBool ZifyN ZifyNat.

(* ------------------------------------------------------------------ digits of a number *)

Definition digits_of (w R : N) (rhs : N -> N) : Prop := forall i, rhs i = (R / 2 ^ (w * i)) mod 2 ^ w.

(* only the digits below n matter for numbers below 2^(w*n) *)
Definition digits_below (w R : N) (rhs : N -> N) (n : N) : Prop :=
  forall i, i < n -> rhs i = (R / 2 ^ (w * i)) mod 2 ^ w.

Lemma digits_of_below w R rhs n : digits_of w R rhs -> digits_below w R rhs n.
Proof. intros H i _. apply H. Qed.

Lemma digit_mod w n A i :
  i < n -> ((A mod 2 ^ (w * n)) / 2 ^ (w * i)) mod 2 ^ w = (A / 2 ^ (w * i)) mod 2 ^ w.
Proof.
  intros Hi. apply N.bits_inj. intro b.
  rewrite !mod_pow2_testbit, !div_pow2_testbit, mod_pow2_testbit.
  destruct (N.ltb_spec b w) as [Hb|Hb]; [|reflexivity].
  destruct (N.ltb_spec (b + w * i) (w * n)) as [H|H]; [reflexivity|]. nia.
Qed.

Lemma digits_below_mod w A a n : digits_below w A a (n + 1) -> digits_below w (A mod 2 ^ (w * n)) a n.
Proof. intros H i Hi. rewrite digit_mod by assumption. apply H. lia. Qed.

Lemma top_digit w A a n :
  A < 2 ^ (w * (n + 1)) -> digits_below w A a (n + 1) -> a n = A / 2 ^ (w * n).
Proof.
  intros HA Hd. rewrite (Hd n) by lia. apply N.mod_small.
  apply N.div_lt_upper_bound; [apply pow2_ne0|].
  rewrite <- pow2_add. replace (w * n + w) with (w * (n + 1)) by lia. assumption.
Qed.

(* comparing P*qa+ra with P*qb+rb, ra rb < P *)
Lemma compare_split_eq P q ra rb : N.compare (P * q + ra) (P * q + rb) = N.compare ra rb.
Proof.
  destruct (N.compare_spec ra rb) as [H|H|H].
  - subst. apply N.compare_refl.
  - apply N.compare_lt_iff. lia.
  - apply N.compare_gt_iff. lia.
Qed.

Lemma split_lt P qa qb ra rb : ra < P -> qa < qb -> P * qa + ra < P * qb + rb.
Proof.
  intros Hr Hq. assert (P * (qa + 1) <= P * qb) by (apply N.mul_le_mono_l; lia). lia.
Qed.

(* ------------------------------------------------------------------ cmp_words *)

Definition cmp_f (a b : N -> N) := fun (acc : comparison) (i : N) =>
  match acc with Eq => N.compare (a i) (b i) | o => o end.

Lemma fold_decided a b l c : c <> Eq -> fold_left (cmp_f a b) l c = c.
Proof.
  intros Hc. induction l as [|x r IH]; [reflexivity|].
  cbn [fold_left]. unfold cmp_f at 2. destruct c; [congruence|exact IH|exact IH].
Qed.

Lemma cmp_words_succ a b n :
  cmp_words a b (n + 1) = fold_left (cmp_f a b) (rev (nrange n)) (N.compare (a n) (b n)).
Proof.
  unfold cmp_words. rewrite nrange_succ, rev_app_distr. reflexivity.
Qed.

Lemma cmp_words_below w a b n :
  0 < w -> forall A B, digits_below w A a n -> digits_below w B b n ->
  A < 2 ^ (w * n) -> B < 2 ^ (w * n) ->
  cmp_words a b n = N.compare A B.
Proof.
  intros Hw. induction n as [|n IH] using N.peano_ind; intros A B Ha Hb HA HB.
  - rewrite N.mul_0_r in *. change (2 ^ 0) with 1 in *.
    assert (A = 0) by lia. assert (B = 0) by lia. subst. reflexivity.
  - rewrite <- N.add_1_r in *.
    pose proof (top_digit w A a n HA Ha) as Ta. pose proof (top_digit w B b n HB Hb) as Tb.
    set (P := 2 ^ (w * n)) in *.
    assert (HP : 0 < P) by apply pow2_pos.
    pose proof (div_mod_eq A P) as EA. pose proof (div_mod_eq B P) as EB.
    assert (A mod P < P) as RA by (apply N.mod_lt; lia).
    assert (B mod P < P) as RB by (apply N.mod_lt; lia).
    rewrite cmp_words_succ.
    destruct (N.compare_spec (a n) (b n)) as [H|H|H].
    + change (fold_left (cmp_f a b) (rev (nrange n)) Eq) with (cmp_words a b n).
      rewrite (IH (A mod P) (B mod P)); try assumption;
        try (apply digits_below_mod; assumption).
      rewrite EA, EB at 2. rewrite <- Tb, <- H, <- Ta. symmetry. apply compare_split_eq.
    + rewrite fold_decided by discriminate. symmetry. apply N.compare_lt_iff.
      rewrite EA, EB. apply split_lt; [assumption|]. rewrite <- Ta, <- Tb. assumption.
    + rewrite fold_decided by discriminate. symmetry. apply N.compare_gt_iff.
      rewrite EA, EB. apply split_lt; [assumption|]. rewrite <- Ta, <- Tb. assumption.
Qed.

Lemma cmp_words_spec w a b A B n :
  0 < w -> digits_of w A a -> digits_of w B b -> A < 2 ^ (w * n) -> B < 2 ^ (w * n) ->
  cmp_words a b n = N.compare A B.
Proof.
  intros Hw Ha Hb HA HB.
  apply (cmp_words_below w a b n Hw A B); try assumption; apply digits_of_below; assumption.
Qed.

(* ------------------------------------------------------------------ eq_words *)

Lemma eq_words_succ a b n : eq_words a b (n + 1) = eq_words a b n && (a n =? b n).
Proof.
  unfold eq_words. rewrite nrange_succ, forallb_app. cbn [forallb]. rewrite andb_true_r. reflexivity.
Qed.

Lemma eq_words_below w a b n :
  0 < w -> forall A B, digits_below w A a n -> digits_below w B b n ->
  A < 2 ^ (w * n) -> B < 2 ^ (w * n) ->
  eq_words a b n = (A =? B).
Proof.
  intros Hw. induction n as [|n IH] using N.peano_ind; intros A B Ha Hb HA HB.
  - rewrite N.mul_0_r in *. change (2 ^ 0) with 1 in *.
    assert (A = 0) by lia. assert (B = 0) by lia. subst. reflexivity.
  - rewrite <- N.add_1_r in *.
    pose proof (top_digit w A a n HA Ha) as Ta. pose proof (top_digit w B b n HB Hb) as Tb.
    set (P := 2 ^ (w * n)) in *.
    assert (HP : 0 < P) by apply pow2_pos.
    pose proof (div_mod_eq A P) as EA. pose proof (div_mod_eq B P) as EB.
    assert (A mod P < P) as RA by (apply N.mod_lt; lia).
    assert (B mod P < P) as RB by (apply N.mod_lt; lia).
    rewrite eq_words_succ.
    rewrite (IH (A mod P) (B mod P)); try assumption;
      try (apply digits_below_mod; assumption).
    rewrite Ta, Tb.
    destruct (N.eqb_spec (A / P) (B / P)) as [Hq|Hq].
    + rewrite andb_true_r. rewrite EA, EB at 2. rewrite Hq.
      destruct (N.eqb_spec (A mod P) (B mod P)) as [Hr|Hr];
        destruct (N.eqb_spec (P * (B / P) + A mod P) (P * (B / P) + B mod P)); try reflexivity; lia.
    + rewrite andb_false_r. symmetry. apply N.eqb_neq. intros E. apply Hq. rewrite E. reflexivity.
Qed.

Lemma eq_words_spec w a b A B n :
  0 < w -> digits_of w A a -> digits_of w B b -> A < 2 ^ (w * n) -> B < 2 ^ (w * n) ->
  eq_words a b n = (A =? B).
Proof.
  intros Hw Ha Hb HA HB.
  apply (eq_words_below w a b n Hw A B); try assumption; apply digits_of_below; assumption.
Qed.

(* ------------------------------------------------------------------ Bvd against Bvd *)

Lemma digits_of_getw w d : 0 < w -> words_ok w d -> digits_of w (raw w d) (fun i => getw d i).
Proof. intros Hw Hd i. apply getw_raw; assumption. Qed.

Lemma raw_lt_max w d n : words_ok w d -> lenw d <= n -> raw w d < 2 ^ (w * n).
Proof.
  intros Hd Hn. eapply N.lt_le_trans; [apply raw_lt; assumption|].
  apply pow2_le. apply N.mul_le_mono_l. assumption.
Qed.

Lemma d_cmp_d_spec s o :
  canon_wv 64 s -> canon_wv 64 o -> d_cmp_d s o = N.compare (raw 64 (wd s)) (raw 64 (wd o)).
Proof.
  intros (Hs & _ & _) (Ho & _ & _). unfold d_cmp_d, dd_words.
  apply (cmp_words_spec 64); try (apply digits_of_getw; [lia|assumption]);
    [lia| |]; apply raw_lt_max; try assumption; lia.
Qed.

Lemma d_eq_d_spec s o :
  canon_wv 64 s -> canon_wv 64 o -> d_eq_d s o = (raw 64 (wd s) =? raw 64 (wd o)).
Proof.
  intros (Hs & _ & _) (Ho & _ & _). unfold d_eq_d, dd_words.
  apply (eq_words_spec 64); try (apply digits_of_getw; [lia|assumption]);
    [lia| |]; apply raw_lt_max; try assumption; lia.
Qed.

(* ------------------------------------------------------------------ order-theoretic corollaries *)

Lemma compare_refl_N a : N.compare a a = Eq.
Proof. apply N.compare_refl. Qed.

Lemma compare_antisym_N a b : N.compare b a = CompOpp (N.compare a b).
Proof. apply N.compare_antisym. Qed.

Lemma compare_trans_lt a b c : N.compare a b = Lt -> N.compare b c = Lt -> N.compare a c = Lt.
Proof. rewrite !N.compare_lt_iff. lia. Qed.

Lemma compare_eq_iff_eqb a b : (N.compare a b = Eq) <-> (a =? b) = true.
Proof. rewrite N.compare_eq_iff, N.eqb_eq. reflexivity. Qed.
