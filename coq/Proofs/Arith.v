(* Proofs/Arith.v *)
From BVA Require Import Base.Prelude Base.Result Base.Words Base.Limbs.
From BVA Require Import Model.Core Model.Ops Model.Arith Model.Conv Model.Auto Spec.Spec Proofs.Common.
From Coq Require Import ZifyBool ZifyN ZifyNat.

(* ------------------------------------------------------------------ generic N helpers *)

Lemma mod_pow2_split a n m : a mod 2 ^ (n + m) = a mod 2 ^ n + 2 ^ n * ((a / 2 ^ n) mod 2 ^ m).
Proof. rewrite pow2_add. apply N.mod_mul_r; apply pow2_ne0. Qed.

Lemma mod_mod_pow2 a n m : n <= m -> (a mod 2 ^ m) mod 2 ^ n = a mod 2 ^ n.
Proof.
  intros H. apply N.bits_inj. intro i. rewrite !mod_pow2_testbit.
  destruct (N.ltb_spec i n); destruct (N.ltb_spec i m); try reflexivity; lia.
Qed.

Lemma div_div_pow2 a n m : a / 2 ^ n / 2 ^ m = a / 2 ^ (n + m).
Proof. rewrite pow2_add. apply N.div_div; apply pow2_ne0. Qed.

Lemma mod_eq_of_add a b Q k1 k2 : Q <> 0 -> a + Q * k1 = b + Q * k2 -> a mod Q = b mod Q.
Proof.
  intros HQ H.
  rewrite <- (N.mod_add a k1 Q) by assumption. rewrite <- (N.mod_add b k2 Q) by assumption.
  f_equal. lia.
Qed.

Definition digits_of (w R : N) (rhs : N -> N) : Prop := forall i, rhs i = (R / 2 ^ (w * i)) mod 2 ^ w.

Lemma digits_lt w R rhs i : digits_of w R rhs -> rhs i < 2 ^ w.
Proof. intros H. rewrite H. apply N.mod_lt, pow2_ne0. Qed.

(* ------------------------------------------------------------------ & | ^ *)

Definition bitop_b (o : bitop) : bool -> bool -> bool :=
  match o with OpAnd => andb | OpOr => orb | OpXor => xorb end.

Lemma bitop_testbit o a b i : N.testbit (bitop_fn o a b) i = bitop_b o (N.testbit a i) (N.testbit b i).
Proof. destruct o; cbn [bitop_fn bitop_b]; [apply N.land_spec|apply N.lor_spec|apply N.lxor_spec]. Qed.

Lemma bitop_b_ff o : bitop_b o false false = false.
Proof. destruct o; reflexivity. Qed.

Lemma bitop_lt o w a b : a < 2 ^ w -> b < 2 ^ w -> bitop_fn o a b < 2 ^ w.
Proof.
  intros Ha Hb. apply lt_pow2_of_bits. intros i Hi.
  rewrite bitop_testbit, (testbit_high a w i), (testbit_high b w i) by assumption.
  apply bitop_b_ff.
Qed.

Lemma mapi_bitop_spec w o d rhs R :
  0 < w -> words_ok w d -> digits_of w R rhs ->
  words_ok w (mapi (fun i x => bitop_fn o x (rhs i)) d) /\
  raw w (mapi (fun i x => bitop_fn o x (rhs i)) d) = bitop_fn o (raw w d) (R mod 2 ^ (w * lenw d)).
Proof.
  intros Hw Hd HR.
  assert (Hok : words_ok w (mapi (fun i x => bitop_fn o x (rhs i)) d)).
  { apply words_ok_mapi. intros i _. apply bitop_lt; [apply getw_ok; assumption|eapply digits_lt; eassumption]. }
  split; [assumption|].
  apply N.bits_inj. intro i.
  rewrite bitop_testbit, mod_pow2_testbit, !raw_testbit by assumption.
  pose proof (div_mod_eq i w) as Ei. pose proof (mod_lt' i w Hw) as Him.
  destruct (N.lt_ge_cases (i / w) (lenw d)) as [Hlt|Hge].
  - rewrite getw_mapi by assumption. rewrite bitop_testbit. f_equal.
    rewrite HR, mod_pow2_testbit, div_pow2_testbit.
    assert (i mod w <? w = true) as -> by (apply N.ltb_lt; assumption).
    assert (i <? w * lenw d = true) as -> by (apply N.ltb_lt; nia).
    cbn [andb]. f_equal. lia.
  - rewrite getw_mapi_high by assumption. rewrite (getw_high d) by assumption.
    rewrite !N.bits_0.
    assert (i <? w * lenw d = false) as -> by (apply N.ltb_ge; nia).
    cbn [andb]. symmetry. apply bitop_b_ff.
Qed.

(* ------------------------------------------------------------------ carry chains *)

Lemma carry_chain_add_gen w : 0 < w -> forall d, words_ok w d -> forall rhs i c R,
  c <= 1 -> (forall k, rhs (i + k) = (R / 2 ^ (w * k)) mod 2 ^ w) ->
  words_ok w (fst (carry_chain (cadd w) rhs d i c)) /\
  lenw (fst (carry_chain (cadd w) rhs d i c)) = lenw d /\
  snd (carry_chain (cadd w) rhs d i c) <= 1 /\
  raw w (fst (carry_chain (cadd w) rhs d i c)) + 2 ^ (w * lenw d) * snd (carry_chain (cadd w) rhs d i c)
    = raw w d + R mod 2 ^ (w * lenw d) + c.
Proof.
  intros Hw d Hd. induction Hd as [|x r Hx Hr IH]; intros rhs i c R Hc HR.
  - cbn [carry_chain fst snd]. rewrite lenw_nil, N.mul_0_r, raw_nil. cbn.
    split; [constructor|]. split; [reflexivity|]. split; [assumption|].
    rewrite N.mod_1_r. lia.
  - cbn [carry_chain].
    assert (Hy : rhs i = R mod 2 ^ w).
    { specialize (HR 0). rewrite N.add_0_r, N.mul_0_r in HR. rewrite HR. cbn. rewrite N.div_1_r. reflexivity. }
    destruct (cadd w x (rhs i) c) as [y c1] eqn:E1.
    assert (Hyl : rhs i < 2 ^ w) by (rewrite Hy; apply N.mod_lt, pow2_ne0).
    destruct (cadd_spec1 w x (rhs i) c y c1 Hx Hyl Hc E1) as (S1 & S2 & S3).
    specialize (IH rhs (i + 1) c1 (R / 2 ^ w) S3).
    destruct IH as (I1 & I2 & I3 & I4).
    { intros k. replace (i + 1 + k) with (i + (1 + k)) by lia. rewrite HR.
      rewrite div_div_pow2. f_equal. f_equal. f_equal. lia. }
    destruct (carry_chain (cadd w) rhs r (i + 1) c1) as [r' c2] eqn:E2.
    cbn [fst snd] in *.
    split; [constructor; assumption|].
    split; [rewrite !lenw_cons, I2; reflexivity|]. split; [assumption|].
    rewrite !raw_cons, lenw_cons.
    replace (w * (lenw r + 1)) with (w + w * lenw r) by lia.
    rewrite mod_pow2_split, pow2_add. rewrite <- Hy.
    set (B := 2 ^ w) in *. set (P := 2 ^ (w * lenw r)) in *.
    set (M := (R / B) mod P) in *.
    assert (B * (raw w r' + P * c2) = B * (raw w r + M + c1)) as HB by (f_equal; exact I4).
    rewrite !N.mul_add_distr_l in HB.
    clearbody B P M. clear - HB S1. lia.
Qed.

Lemma carry_chain_sub_gen w : 0 < w -> forall d, words_ok w d -> forall rhs i c R,
  c <= 1 -> (forall k, rhs (i + k) = (R / 2 ^ (w * k)) mod 2 ^ w) ->
  words_ok w (fst (carry_chain (csub w) rhs d i c)) /\
  lenw (fst (carry_chain (csub w) rhs d i c)) = lenw d /\
  snd (carry_chain (csub w) rhs d i c) <= 1 /\
  raw w (fst (carry_chain (csub w) rhs d i c)) + R mod 2 ^ (w * lenw d) + c
    = raw w d + 2 ^ (w * lenw d) * snd (carry_chain (csub w) rhs d i c).
Proof.
  intros Hw d Hd. induction Hd as [|x r Hx Hr IH]; intros rhs i c R Hc HR.
  - cbn [carry_chain fst snd]. rewrite lenw_nil, N.mul_0_r, raw_nil. cbn.
    split; [constructor|]. split; [reflexivity|]. split; [assumption|].
    rewrite N.mod_1_r. lia.
  - cbn [carry_chain].
    assert (Hy : rhs i = R mod 2 ^ w).
    { specialize (HR 0). rewrite N.add_0_r, N.mul_0_r in HR. rewrite HR. cbn. rewrite N.div_1_r. reflexivity. }
    destruct (csub w x (rhs i) c) as [y c1] eqn:E1.
    assert (Hyl : rhs i < 2 ^ w) by (rewrite Hy; apply N.mod_lt, pow2_ne0).
    assert (Hc2 : c < 2 ^ w).
    { assert (2 ^ 1 <= 2 ^ w) by (apply pow2_le; lia). change (2 ^ 1) with 2 in *. lia. }
    destruct (csub_spec1 w x (rhs i) c y c1 Hx Hyl Hc Hc2 E1) as (S1 & S2 & S3).
    specialize (IH rhs (i + 1) c1 (R / 2 ^ w) S3).
    destruct IH as (I1 & I2 & I3 & I4).
    { intros k. replace (i + 1 + k) with (i + (1 + k)) by lia. rewrite HR.
      rewrite div_div_pow2. f_equal. f_equal. f_equal. lia. }
    destruct (carry_chain (csub w) rhs r (i + 1) c1) as [r' c2] eqn:E2.
    cbn [fst snd] in *.
    split; [constructor; assumption|].
    split; [rewrite !lenw_cons, I2; reflexivity|]. split; [assumption|].
    rewrite !raw_cons, lenw_cons.
    replace (w * (lenw r + 1)) with (w + w * lenw r) by lia.
    rewrite mod_pow2_split, pow2_add. rewrite <- Hy.
    set (B := 2 ^ w) in *. set (P := 2 ^ (w * lenw r)) in *.
    set (M := (R / B) mod P) in *.
    assert (B * (raw w r' + M + c1) = B * (raw w r + P * c2)) as HB by (f_equal; exact I4).
    rewrite !N.mul_add_distr_l in HB.
    clearbody B P M. clear - HB S1. lia.
Qed.

Lemma digits_of_gen w R rhs : digits_of w R rhs -> forall k, rhs (0 + k) = (R / 2 ^ (w * k)) mod 2 ^ w.
Proof. intros H k. rewrite N.add_0_l. apply H. Qed.

Lemma carry_chain_add_spec w d rhs R :
  0 < w -> words_ok w d -> digits_of w R rhs ->
  words_ok w (fst (carry_chain (cadd w) rhs d 0 0)) /\
  lenw (fst (carry_chain (cadd w) rhs d 0 0)) = lenw d /\
  snd (carry_chain (cadd w) rhs d 0 0) <= 1 /\
  raw w (fst (carry_chain (cadd w) rhs d 0 0)) + 2 ^ (w * lenw d) * snd (carry_chain (cadd w) rhs d 0 0)
    = raw w d + R mod 2 ^ (w * lenw d).
Proof.
  intros Hw Hd HR.
  destruct (carry_chain_add_gen w Hw d Hd rhs 0 0 R) as (H1 & H2 & H3 & H4);
    [lia|apply digits_of_gen; assumption|].
  repeat split; try assumption. rewrite H4. lia.
Qed.

Lemma carry_chain_sub_spec w d rhs R :
  0 < w -> words_ok w d -> digits_of w R rhs ->
  words_ok w (fst (carry_chain (csub w) rhs d 0 0)) /\
  lenw (fst (carry_chain (csub w) rhs d 0 0)) = lenw d /\
  snd (carry_chain (csub w) rhs d 0 0) <= 1 /\
  raw w (fst (carry_chain (csub w) rhs d 0 0)) + R mod 2 ^ (w * lenw d)
    = raw w d + 2 ^ (w * lenw d) * snd (carry_chain (csub w) rhs d 0 0).
Proof.
  intros Hw Hd HR.
  destruct (carry_chain_sub_gen w Hw d Hd rhs 0 0 R) as (H1 & H2 & H3 & H4);
    [lia|apply digits_of_gen; assumption|].
  repeat split; try assumption. rewrite <- H4. lia.
Qed.

Lemma add_mod_spec w d rhs R n :
  0 < w -> words_ok w d -> digits_of w R rhs -> n <= w * lenw d ->
  raw w (fst (carry_chain (cadd w) rhs d 0 0)) mod 2 ^ n = (raw w d + R) mod 2 ^ n.
Proof.
  intros Hw Hd HR Hn.
  destruct (carry_chain_add_spec w d rhs R Hw Hd HR) as (_ & _ & _ & H4).
  rewrite (pow2_split n (w * lenw d) Hn) in H4.
  rewrite (N.add_mod (raw w d) R) by apply pow2_ne0.
  rewrite <- (mod_mod_pow2 R n (w * lenw d) Hn).
  rewrite <- N.add_mod by apply pow2_ne0.
  apply (mod_eq_of_add _ _ _ (2 ^ (w * lenw d - n) * snd (carry_chain (cadd w) rhs d 0 0)) 0); [apply pow2_ne0|].
  rewrite (pow2_split n (w * lenw d) Hn). lia.
Qed.

Lemma sub_mod_spec w d rhs R n :
  0 < w -> words_ok w d -> digits_of w R rhs -> n <= w * lenw d -> raw w d < 2 ^ n ->
  raw w (fst (carry_chain (csub w) rhs d 0 0)) mod 2 ^ n = (raw w d + 2 ^ n - R mod 2 ^ n) mod 2 ^ n.
Proof.
  intros Hw Hd HR Hn _.
  destruct (carry_chain_sub_spec w d rhs R Hw Hd HR) as (_ & _ & _ & H4).
  set (T := R mod 2 ^ (w * lenw d)) in *.
  pose proof (div_mod_eq T (2 ^ n)) as ET.
  assert (T mod 2 ^ n = R mod 2 ^ n) as ETm by (apply mod_mod_pow2; assumption).
  rewrite ETm in ET.
  pose proof (N.mod_lt R (2 ^ n) (pow2_ne0 n)) as Hlt.
  rewrite (pow2_split n (w * lenw d) Hn) in H4.
  apply (mod_eq_of_add _ _ _ (T / 2 ^ n + 1) (2 ^ (w * lenw d - n) * snd (carry_chain (csub w) rhs d 0 0)));
    [apply pow2_ne0|].
  set (Q := 2 ^ n) in *. set (K := 2 ^ (w * lenw d - n)) in *.
  set (res := raw w (fst (carry_chain (csub w) rhs d 0 0))) in *.
  set (cc := snd (carry_chain (csub w) rhs d 0 0)) in *.
  set (rm := R mod Q) in *. set (tq := T / Q) in *.
  clearbody rm tq cc res K Q T. clear - H4 ET Hlt.
  rewrite N.mul_add_distr_l, N.mul_1_r, N.mul_assoc. lia.
Qed.

(* ------------------------------------------------------------------ ostep *)

Lemma lor_01 a b : a <= 1 -> b <= 1 -> a + b <= 1 -> N.lor a b = a + b.
Proof.
  intros Ha Hb Hab.
  assert (a = 0 \/ a = 1) as [-> | ->] by lia; assert (b = 0 \/ b = 1) as [-> | ->] by lia;
    try reflexivity; lia.
Qed.

Lemma pow2_64_gt1 : 1 < 2 ^ 64.
Proof. reflexivity. Qed.

Lemma ostep_add_spec x y c v c' :
  x < 2 ^ 64 -> y < 2 ^ 64 -> c <= 1 -> ostep OpAdd x y c = (v, c') ->
  v + 2 ^ 64 * c' = x + y + c /\ v < 2 ^ 64 /\ c' <= 1.
Proof.
  intros Hx Hy Hc E. unfold ostep, W64 in E.
  destruct (oadd 64 x c) as [d1 c1] eqn:E1.
  destruct (oadd 64 d1 y) as [d2 c2] eqn:E2.
  injection E as <- <-.
  pose proof pow2_64_gt1 as H64.
  assert (Hc' : c < 2 ^ 64) by lia.
  destruct (oadd_spec 64 x c d1 c1 Hx Hc' E1) as (A1 & A2 & A3).
  destruct (oadd_spec 64 d1 y d2 c2 A2 Hy E2) as (B1 & B2 & B3).
  set (B := 2 ^ 64) in *. clearbody B.
  assert (c1 + c2 <= 1) as Hs.
  { clear - A1 A3 B1 B3 Hx Hy Hc B2 H64.
    assert (c1 = 0 \/ c1 = 1) as [-> | ->] by lia; assert (c2 = 0 \/ c2 = 1) as [-> | ->] by lia; lia. }
  rewrite lor_01 by assumption.
  split; [|split; [assumption|assumption]].
  rewrite N.mul_add_distr_l. lia.
Qed.

Lemma ostep_sub_spec x y c v c' :
  x < 2 ^ 64 -> y < 2 ^ 64 -> c <= 1 -> ostep OpSub x y c = (v, c') ->
  v + y + c = x + 2 ^ 64 * c' /\ v < 2 ^ 64 /\ c' <= 1.
Proof.
  intros Hx Hy Hc E. unfold ostep, W64 in E.
  destruct (osub 64 x c) as [d1 c1] eqn:E1.
  destruct (osub 64 d1 y) as [d2 c2] eqn:E2.
  injection E as <- <-.
  pose proof pow2_64_gt1 as H64.
  assert (Hc' : c < 2 ^ 64) by lia.
  destruct (osub_spec 64 x c d1 c1 Hx Hc' E1) as (A1 & A2 & A3).
  destruct (osub_spec 64 d1 y d2 c2 A2 Hy E2) as (B1 & B2 & B3).
  set (B := 2 ^ 64) in *. clearbody B.
  assert (c1 + c2 <= 1) as Hs.
  { clear - A1 A3 B1 B3 Hx Hy Hc B2 A2 H64.
    assert (c1 = 0 \/ c1 = 1) as [-> | ->] by lia; assert (c2 = 0 \/ c2 = 1) as [-> | ->] by lia; lia. }
  rewrite lor_01 by assumption.
  split; [|split; [assumption|assumption]].
  rewrite N.mul_add_distr_l. lia.
Qed.

(* ------------------------------------------------------------------ Not *)

Lemma not_bits n x i : x < 2 ^ n -> N.testbit (2 ^ n - 1 - x) i = xorb (N.testbit x i) (i <? n).
Proof. intros H. rewrite <- notw_eq by assumption. apply notw_testbit. Qed.

Lemma words_ok_map_notw w d : words_ok w d -> words_ok w (map (notw w) d).
Proof.
  intros H. unfold words_ok in *. apply Forall_map.
  eapply Forall_impl; [|exact H]. intros a Ha. apply notw_lt. assumption.
Qed.

Lemma lenw_map (f : N -> N) d : lenw (map f d) = lenw d.
Proof. unfold lenw. rewrite map_length. reflexivity. Qed.

Lemma raw_map_notw w d : words_ok w d -> raw w d + raw w (map (notw w) d) + 1 = 2 ^ (w * lenw d).
Proof.
  induction 1 as [|x r Hx Hr IH].
  - cbn [map]. rewrite raw_nil, lenw_nil, N.mul_0_r. reflexivity.
  - cbn [map]. rewrite !raw_cons, lenw_cons.
    replace (w * (lenw r + 1)) with (w + w * lenw r) by lia. rewrite pow2_add, <- IH.
    pose proof (notw_add w x Hx) as Hn. pose proof (pow2_pos w) as Hp.
    set (B := 2 ^ w) in *. clearbody B.
    rewrite !N.mul_add_distr_l. lia.
Qed.

Lemma f_not_spec w v :
  0 < w -> canon_wv w v ->
  canon_wv w (f_not w v) /\ wl (f_not w v) = wl v /\ lenw (wd (f_not w v)) = lenw (wd v) /\
  raw w (wd (f_not w v)) = 2 ^ wl v - 1 - raw w (wd v).
Proof.
  intros Hw (Hd & Hl & Hr). unfold f_not. cbn [wd wl].
  pose proof (words_ok_map_notw w _ Hd) as Hm.
  assert (Hraw : raw w (mod2n w (map (notw w) (wd v)) (wl v)) = 2 ^ wl v - 1 - raw w (wd v)).
  { rewrite raw_mod2n by assumption.
    pose proof (raw_map_notw w _ Hd) as E.
    rewrite (pow2_split (wl v) _ Hl) in E.
    pose proof (pow2_pos (w * lenw (wd v) - wl v)) as HK.
    pose proof (pow2_pos (wl v)) as HQ.
    set (Q := 2 ^ wl v) in *. set (K := 2 ^ (w * lenw (wd v) - wl v)) in *.
    symmetry. apply (N.mod_unique _ _ (K - 1)); [lia|].
    set (x := raw w (wd v)) in *. set (y := raw w (map (notw w) (wd v))) in *.
    clearbody Q K x y. clear - E HK HQ Hr.
    assert (Q * K = Q * (K - 1) + Q) as E2.
    { rewrite N.mul_sub_distr_l, N.mul_1_r. assert (Q * 1 <= Q * K) by (apply N.mul_le_mono_l; lia). lia. }
    lia. }
  split.
  - unfold canon_wv. cbn [wd wl]. split; [apply words_ok_mod2n; assumption|].
    split; [rewrite lenw_mod2n, lenw_map; assumption|].
    rewrite Hraw. pose proof (pow2_pos (wl v)). lia.
  - split; [reflexivity|]. split; [rewrite lenw_mod2n, lenw_map; reflexivity|exact Hraw].
Qed.

(* words of a canonical value beyond the used ones are zero *)
Lemma canon_getw_high w v q : 0 < w -> canon_wv w v -> wl v <= w * q -> getw (wd v) q = 0.
Proof.
  intros Hw (Hd & Hl & Hr) Hq. rewrite (getw_raw w Hw) by assumption.
  rewrite N.div_small; [apply N.mod_0_l, pow2_ne0|].
  eapply N.lt_le_trans; [exact Hr|]. apply pow2_le. assumption.
Qed.

Lemma words_ok_mask_top64 d len : words_ok 64 d -> words_ok 64 (mask_top64 d len).
Proof.
  intros Hd. unfold mask_top64. apply words_ok_upd_at; [assumption|].
  apply lt_pow2_of_bits. intros i Hi. rewrite N.land_spec.
  rewrite (testbit_high (getw d (len / W64)) 64 i); [reflexivity|apply getw_ok; assumption|assumption].
Qed.

Lemma lenw_mask_top64 d len : lenw (mask_top64 d len) = lenw d.
Proof. apply lenw_upd_at. Qed.

Lemma cfbl_d_eq len : cfbl_d len = (len + 63) / 64.
Proof. unfold cfbl_d, cfbyl_d. lia. Qed.

(* both Not variants: d' holds the complemented used words and zeros above *)
Lemma not_words_spec v d' :
  canon_wv 64 v -> words_ok 64 d' -> cfbl_d (wl v) <= lenw d' ->
  (forall q, q < cfbl_d (wl v) -> getw d' q = notw 64 (getw (wd v) q)) ->
  (forall q, cfbl_d (wl v) <= q -> getw d' q = 0) ->
  raw 64 (mask_top64 d' (wl v)) = 2 ^ wl v - 1 - raw 64 (wd v).
Proof.
  intros Hc Hd' Hk H1 H2. pose proof Hc as (Hd & Hl & Hr).
  assert (H64 : 0 < 64) by lia.
  apply N.bits_inj. intro i.
  rewrite not_bits by assumption.
  rewrite (raw_testbit 64 H64) by (apply words_ok_mask_top64; assumption).
  unfold mask_top64, W64. rewrite getw_upd_at.
  rewrite cfbl_d_eq in *.
  set (len := wl v) in *.
  destruct (N.ltb_spec (i / 64) ((len + 63) / 64)) as [Hq|Hq].
  - (* a used word *)
    assert (Hb : N.testbit (raw 64 (wd v)) i = N.testbit (getw (wd v) (i / 64)) (i mod 64))
      by (apply (raw_testbit 64 H64); assumption).
    destruct ((len / 64 =? i / 64) && (len / 64 <? lenw d')) eqn:E.
    + apply andb_true_iff in E. destruct E as [E1 E2]. apply N.eqb_eq in E1. apply N.ltb_lt in E2.
      rewrite E1, H1 by assumption.
      rewrite N.land_spec, notw_testbit, maskw_testbit, Hb.
      assert (i mod 64 <? 64 = true) as -> by (apply N.ltb_lt; lia).
      rewrite andb_true_r, xorb_true_r.
      destruct (N.ltb_spec (i mod 64) (len mod 64)) as [Hm|Hm]; destruct (N.ltb_spec i len) as [Hi|Hi].
      * rewrite andb_true_r, xorb_true_r. reflexivity.
      * exfalso. lia.
      * exfalso. lia.
      * rewrite andb_false_r, xorb_false_r. rewrite <- Hb. symmetry.
        apply (testbit_high _ len); assumption.
    + rewrite H1 by assumption. rewrite notw_testbit, Hb.
      assert (i mod 64 <? 64 = true) as -> by (apply N.ltb_lt; lia).
      assert (i <? len = true) as ->; [|reflexivity].
      apply N.ltb_lt. apply andb_false_iff in E. destruct E as [E|E].
      * apply N.eqb_neq in E. lia.
      * apply N.ltb_ge in E. lia.
  - (* above the used words: everything is zero *)
    assert (Hz : N.testbit (raw 64 (wd v)) i = false) by (apply (testbit_high _ len); [assumption|lia]).
    assert (i <? len = false) as -> by (apply N.ltb_ge; lia).
    rewrite Hz. cbn [xorb].
    destruct ((len / 64 =? i / 64) && (len / 64 <? lenw d')) eqn:E.
    + apply andb_true_iff in E. destruct E as [E1 E2]. apply N.eqb_eq in E1.
      rewrite E1, H2 by assumption. rewrite N.land_0_l. apply N.bits_0.
    + rewrite H2 by assumption. apply N.bits_0.
Qed.

Lemma not_words_canon v d' :
  canon_wv 64 v -> words_ok 64 d' -> cfbl_d (wl v) <= lenw d' ->
  raw 64 (mask_top64 d' (wl v)) = 2 ^ wl v - 1 - raw 64 (wd v) ->
  canon_wv 64 (mkwv (mask_top64 d' (wl v)) (wl v)).
Proof.
  intros (Hd & Hl & Hr) Hd' Hk E. unfold canon_wv. cbn [wd wl].
  split; [apply words_ok_mask_top64; assumption|].
  split; [rewrite lenw_mask_top64; rewrite cfbl_d_eq in Hk; lia|].
  rewrite E. pose proof (pow2_pos (wl v)). lia.
Qed.

Lemma canon_cfbl_le v : canon_wv 64 v -> cfbl_d (wl v) <= lenw (wd v).
Proof. intros (_ & Hl & _). rewrite cfbl_d_eq. lia. Qed.

Lemma d_not_spec v :
  canon_wv 64 v ->
  exists r, d_not v = Ok r /\ canon_wv 64 r /\ wl r = wl v /\ lenw (wd r) = lenw (wd v) /\
            raw 64 (wd r) = 2 ^ wl v - 1 - raw 64 (wd v).
Proof.
  intros Hc. pose proof Hc as (Hd & Hl & Hr). pose proof (canon_cfbl_le v Hc) as Hk.
  unfold d_not. assert (lenw (wd v) <? cfbl_d (wl v) = false) as -> by (apply N.ltb_ge; assumption).
  eexists. split; [reflexivity|]. cbn [wd wl].
  set (d' := mapi (fun i x => if i <? cfbl_d (wl v) then notw W64 x else x) (wd v)).
  assert (Hd' : words_ok 64 d').
  { apply words_ok_mapi. intros i _. destruct (i <? cfbl_d (wl v)).
    - apply notw_lt, getw_ok; assumption.
    - apply getw_ok; assumption. }
  assert (Hlen : lenw d' = lenw (wd v)) by apply lenw_mapi.
  assert (E : raw 64 (mask_top64 d' (wl v)) = 2 ^ wl v - 1 - raw 64 (wd v)).
  { apply not_words_spec; try assumption; [lia| |].
    - intros q Hq. unfold d'. rewrite getw_mapi by lia.
      apply N.ltb_lt in Hq. rewrite Hq. reflexivity.
    - intros q Hq. destruct (N.lt_ge_cases q (lenw (wd v))) as [Hlt|Hge].
      + unfold d'. rewrite getw_mapi by assumption.
        assert (q <? cfbl_d (wl v) = false) as -> by (apply N.ltb_ge; assumption).
        apply (canon_getw_high 64); [lia|assumption|]. rewrite cfbl_d_eq in Hq. lia.
      + apply getw_high. lia. }
  split; [apply not_words_canon; try assumption; lia|].
  split; [reflexivity|]. split; [rewrite lenw_mask_top64; assumption|exact E].
Qed.

Lemma getw_map_lt (f : N -> N) d q : q < lenw d -> getw (map f d) q = f (getw d q).
Proof.
  intros H. unfold getw, lenw in *.
  rewrite (nth_indep _ 0 (f 0)) by (rewrite map_length; lia). apply map_nth.
Qed.

Lemma lenw_firstn k d : k <= lenw d -> lenw (firstn (N.to_nat k) d) = k.
Proof. intros H. unfold lenw in *. rewrite firstn_length. lia. Qed.

Lemma getw_firstn k d q : q < k -> getw (firstn (N.to_nat k) d) q = getw d q.
Proof.
  intros H. unfold getw. assert (Hab : (N.to_nat q < N.to_nat k)%nat) by lia.
  revert d. revert Hab. generalize (N.to_nat q) (N.to_nat k).
  clear. intros a b. revert a. induction b as [|b IH]; intros a Hab d; [lia|].
  destruct d as [|x r]; [destruct a; reflexivity|]. cbn [firstn].
  destruct a as [|a]; [reflexivity|]. cbn [nth]. apply IH. lia.
Qed.

Lemma d_not_ref_spec v :
  canon_wv 64 v ->
  exists r, d_not_ref v = Ok r /\ canon_wv 64 r /\ wl r = wl v /\ lenw (wd r) = cfbl_d (wl v) /\
            raw 64 (wd r) = 2 ^ wl v - 1 - raw 64 (wd v).
Proof.
  intros Hc. pose proof Hc as (Hd & Hl & Hr). pose proof (canon_cfbl_le v Hc) as Hk.
  unfold d_not_ref. assert (lenw (wd v) <? cfbl_d (wl v) = false) as -> by (apply N.ltb_ge; assumption).
  eexists. split; [reflexivity|]. cbn [wd wl].
  set (k := cfbl_d (wl v)) in *.
  set (d' := map (notw W64) (firstn (N.to_nat k) (wd v))).
  assert (Hlen : lenw d' = k) by (unfold d'; rewrite lenw_map; apply lenw_firstn; assumption).
  assert (Hd' : words_ok 64 d').
  { apply words_ok_getw. intros i Hi. rewrite Hlen in Hi. unfold d'.
    rewrite getw_map_lt by (rewrite lenw_firstn; assumption).
    apply notw_lt. rewrite getw_firstn by assumption. apply getw_ok; assumption. }
  assert (E : raw 64 (mask_top64 d' (wl v)) = 2 ^ wl v - 1 - raw 64 (wd v)).
  { apply not_words_spec; try assumption; fold k; [lia| |].
    - intros q Hq. unfold d'. rewrite getw_map_lt by (rewrite lenw_firstn; assumption).
      rewrite getw_firstn by assumption. reflexivity.
    - intros q Hq. apply getw_high. lia. }
  split; [apply not_words_canon; try assumption; fold k; lia|].
  split; [reflexivity|]. split; [rewrite lenw_mask_top64; assumption|exact E].
Qed.

(* ------------------------------------------------------------------ chain_range *)

(* the carry equation of both operators: new + carry-out term vs old + right operand + carry-in *)
Definition ceq (o : addop) (nw co old r c : N) : Prop :=
  match o with
  | OpAdd => nw + co = old + r + c
  | OpSub => nw + r + c = old + co
  end.

Lemma ostep_spec o x y c v c' :
  x < 2 ^ 64 -> y < 2 ^ 64 -> c <= 1 -> ostep o x y c = (v, c') ->
  ceq o v (2 ^ 64 * c') x y c /\ v < 2 ^ 64 /\ c' <= 1.
Proof. destruct o; cbn [ceq]; [apply ostep_add_spec|apply ostep_sub_spec]. Qed.

Lemma ceq_step o P B W1 c1 W Rm c z c2 x y :
  ceq o W1 (P * c1) W Rm c -> ceq o z (B * c2) x y c1 ->
  ceq o (W1 + P * z) (P * B * c2) (W + P * x) (Rm + P * y) c.
Proof.
  destruct o; cbn [ceq]; intros H1 H2.
  - assert (P * (z + B * c2) = P * (x + y + c1)) as E by (f_equal; exact H2).
    rewrite !N.mul_add_distr_l, N.mul_assoc in E. lia.
  - assert (P * (z + y + c1) = P * (x + B * c2)) as E by (f_equal; exact H2).
    rewrite !N.mul_add_distr_l, N.mul_assoc in E. lia.
Qed.

(* value of the words [a, a+n) *)
Definition win (d : list N) (a n : N) : N := (raw 64 d / 2 ^ (64 * a)) mod 2 ^ (64 * n).

Lemma win_0 d a : win d a 0 = 0.
Proof. unfold win. rewrite N.mul_0_r. cbn. apply N.mod_1_r. Qed.

Lemma win_succ d a n : words_ok 64 d -> win d a (n + 1) = win d a n + 2 ^ (64 * n) * getw d (a + n).
Proof.
  intros Hd. unfold win.
  replace (64 * (n + 1)) with (64 * n + 64) by lia.
  rewrite mod_pow2_split, div_div_pow2.
  rewrite (getw_raw 64) by (assumption || lia).
  replace (64 * (a + n)) with (64 * a + 64 * n) by lia. reflexivity.
Qed.

Lemma win_ext d1 d2 a n :
  words_ok 64 d1 -> words_ok 64 d2 ->
  (forall i, a <= i -> i < a + n -> getw d1 i = getw d2 i) -> win d1 a n = win d2 a n.
Proof.
  intros H1 H2 Hg. unfold win. apply N.bits_inj. intro j.
  rewrite !mod_pow2_testbit, !div_pow2_testbit.
  destruct (N.ltb_spec j (64 * n)) as [Hj|Hj]; [|reflexivity]. cbn [andb].
  assert (H64 : 0 < 64) by lia.
  rewrite !(raw_testbit 64 H64) by assumption.
  rewrite Hg by lia. reflexivity.
Qed.

Lemma rmod_succ R n : R mod 2 ^ (64 * (n + 1)) = R mod 2 ^ (64 * n) + 2 ^ (64 * n) * ((R / 2 ^ (64 * n)) mod 2 ^ 64).
Proof. replace (64 * (n + 1)) with (64 * n + 64) by lia. apply mod_pow2_split. Qed.

Definition chain_body (step : N -> N -> N -> N * N) (rhs : N -> outcome N) :=
  fun (acc : outcome (list N * N)) (i : N) =>
    let! (d, c) := acc in
    let! x := geto d i in
    let! y := rhs i in
    let '(z, c') := step x y c in
    let! d' := seto d i z in
    Ok (d', c').

Lemma chain_range_unfold step rhs d a b c :
  chain_range step rhs d a b c =
  fold_left (chain_body step rhs) (map (fun i => a + i) (nrange (b - a))) (Ok (d, c)).
Proof. reflexivity. Qed.

Lemma chain_fold_spec o d rhs a c R :
  words_ok 64 d -> c <= 1 ->
  forall n, a + n <= lenw d ->
  (forall i, a <= i -> i < a + n -> exists y, rhs i = Ok y /\ y = (R / 2 ^ (64 * (i - a))) mod 2 ^ 64) ->
  exists d' c',
    fold_left (chain_body (ostep o) rhs) (map (fun i => a + i) (nrange n)) (Ok (d, c)) = Ok (d', c') /\
    words_ok 64 d' /\ lenw d' = lenw d /\ c' <= 1 /\
    (forall i, i < a \/ a + n <= i -> getw d' i = getw d i) /\
    ceq o (win d' a n) (2 ^ (64 * n) * c') (win d a n) (R mod 2 ^ (64 * n)) c.
Proof.
  intros Hd Hc n. induction n as [|n IH] using N.peano_ind; intros Hn Hrhs.
  - exists d, c. rewrite nrange_0. cbn [map fold_left].
    split; [reflexivity|]. split; [assumption|]. split; [reflexivity|]. split; [assumption|].
    split; [reflexivity|].
    rewrite !win_0, N.mul_0_r. cbn. rewrite N.mod_1_r. destruct o; cbn [ceq]; lia.
  - rewrite <- N.add_1_r in *.
    destruct IH as (d1 & c1 & E1 & Hd1 & Hl1 & Hc1 & Hout & Heq).
    { lia. }
    { intros i Hi1 Hi2. apply Hrhs; lia. }
    rewrite nrange_succ, map_app, fold_left_app, E1. cbn [map fold_left].
    destruct (Hrhs (a + n)) as (y & Ey & Hy); [lia|lia|].
    replace (a + n - a) with n in Hy by lia.
    unfold chain_body at 1. cbn [bind].
    rewrite geto_ok by lia. cbn [bind]. rewrite Ey. cbn [bind].
    assert (Hx : getw d1 (a + n) < 2 ^ 64) by (apply getw_ok; assumption).
    assert (Hyl : y < 2 ^ 64) by (rewrite Hy; apply N.mod_lt, pow2_ne0).
    destruct (ostep o (getw d1 (a + n)) y c1) as [z c2] eqn:Es.
    destruct (ostep_spec o _ _ _ _ _ Hx Hyl Hc1 Es) as (S1 & S2 & S3).
    rewrite seto_ok by lia. cbn [bind].
    exists (setw d1 (a + n) z), c2.
    assert (Hd2 : words_ok 64 (setw d1 (a + n) z)) by (apply words_ok_setw; assumption).
    split; [reflexivity|]. split; [assumption|].
    split; [rewrite lenw_setw; assumption|]. split; [assumption|].
    split.
    + intros i Hi. rewrite getw_setw.
      destruct (N.eqb_spec (a + n) i) as [Hei|Hei]; [lia|]. cbn [andb]. apply Hout. lia.
    + rewrite !win_succ by assumption. rewrite rmod_succ, <- Hy.
      rewrite getw_setw. rewrite N.eqb_refl.
      assert (a + n <? lenw d1 = true) as -> by (apply N.ltb_lt; lia). cbn [andb].
      rewrite (win_ext (setw d1 (a + n) z) d1 a n Hd2 Hd1).
      2:{ intros i Hi1 Hi2. rewrite getw_setw.
          destruct (N.eqb_spec (a + n) i) as [Hei|Hei]; [lia|]. reflexivity. }
      rewrite <- (Hout (a + n)) by lia.
      replace (64 * (n + 1)) with (64 * n + 64) by lia. rewrite pow2_add.
      apply (ceq_step o _ _ _ c1); assumption.
Qed.

Lemma chain_range_spec o d rhs a b c R :
  words_ok 64 d -> a <= b -> b <= lenw d -> c <= 1 ->
  (forall i, a <= i -> i < b -> exists y, rhs i = Ok y /\ y = (R / 2 ^ (64 * (i - a))) mod 2 ^ 64) ->
  exists d' c', chain_range (ostep o) rhs d a b c = Ok (d', c') /\
    words_ok 64 d' /\ lenw d' = lenw d /\ c' <= 1 /\
    (forall i, i < a \/ b <= i -> getw d' i = getw d i) /\
    ceq o (win d' a (b - a)) (2 ^ (64 * (b - a)) * c') (win d a (b - a)) (R mod 2 ^ (64 * (b - a))) c.
Proof.
  intros Hd Hab Hb Hc Hrhs.
  destruct (chain_fold_spec o d rhs a c R Hd Hc (b - a)) as (d' & c' & E & H1 & H2 & H3 & H4 & H5).
  { lia. }
  { intros i Hi1 Hi2. apply Hrhs; lia. }
  exists d', c'. rewrite chain_range_unfold.
  split; [exact E|]. split; [assumption|]. split; [assumption|]. split; [assumption|].
  split; [|exact H5]. intros i Hi. apply H4. lia.
Qed.

Lemma chain_range_add_spec d rhs a b c R :
  words_ok 64 d -> a <= b -> b <= lenw d -> c <= 1 ->
  (forall i, a <= i -> i < b -> exists y, rhs i = Ok y /\ y = (R / 2 ^ (64 * (i - a))) mod 2 ^ 64) ->
  exists d' c', chain_range (ostep OpAdd) rhs d a b c = Ok (d', c') /\
    words_ok 64 d' /\ lenw d' = lenw d /\ c' <= 1 /\
    (forall i, i < a \/ b <= i -> getw d' i = getw d i) /\
    (raw 64 d' / 2 ^ (64 * a)) mod 2 ^ (64 * (b - a)) + 2 ^ (64 * (b - a)) * c'
      = (raw 64 d / 2 ^ (64 * a)) mod 2 ^ (64 * (b - a)) + R mod 2 ^ (64 * (b - a)) + c.
Proof. apply (chain_range_spec OpAdd). Qed.

Lemma chain_range_sub_spec d rhs a b c R :
  words_ok 64 d -> a <= b -> b <= lenw d -> c <= 1 ->
  (forall i, a <= i -> i < b -> exists y, rhs i = Ok y /\ y = (R / 2 ^ (64 * (i - a))) mod 2 ^ 64) ->
  exists d' c', chain_range (ostep OpSub) rhs d a b c = Ok (d', c') /\
    words_ok 64 d' /\ lenw d' = lenw d /\ c' <= 1 /\
    (forall i, i < a \/ b <= i -> getw d' i = getw d i) /\
    (raw 64 d' / 2 ^ (64 * a)) mod 2 ^ (64 * (b - a)) + R mod 2 ^ (64 * (b - a)) + c
      = (raw 64 d / 2 ^ (64 * a)) mod 2 ^ (64 * (b - a)) + 2 ^ (64 * (b - a)) * c'.
Proof. apply (chain_range_spec OpSub). Qed.
