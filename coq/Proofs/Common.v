(* Lemmas shared by all proof files: list combinators of the model (mapi, nrange, upd_at,
   upd_last, fill_range), mod2n, raw of appended / truncated storage, the Canon invariant and
   the abstraction function. *)
From BVA Require Import Base.Prelude Base.Result Base.Words Base.Limbs.
From BVA Require Import Model.Core Model.Ops Model.Auto Spec.Spec.
From Coq Require Import ZifyBool ZifyN ZifyNat.

(* ------------------------------------------------------------------ trunc *)

Lemma trunc_mod n x : trunc n x = x mod 2 ^ n.
Proof. apply N.land_ones. Qed.

Lemma trunc_small n x : x < 2 ^ n -> trunc n x = x.
Proof. intros. rewrite trunc_mod. apply N.mod_small. assumption. Qed.

Lemma trunc_lt n x : trunc n x < 2 ^ n.
Proof. rewrite trunc_mod. apply N.mod_lt, pow2_ne0. Qed.

Lemma trunc_testbit n x i : N.testbit (trunc n x) i = (i <? n) && N.testbit x i.
Proof. apply land_ones_testbit. Qed.

(* ------------------------------------------------------------------ nrange / mapi *)

Lemma nrange_length n : length (nrange n) = N.to_nat n.
Proof. unfold nrange. rewrite map_length, seq_length. reflexivity. Qed.

Lemma lenw_nrange n : lenw (nrange n) = n.
Proof. unfold lenw. rewrite nrange_length. lia. Qed.

Lemma In_nrange n i : In i (nrange n) <-> i < n.
Proof.
  unfold nrange. rewrite in_map_iff. split.
  - intros [k [<- Hk]]. apply in_seq in Hk. lia.
  - intros H. exists (N.to_nat i). split; [lia|]. apply in_seq. lia.
Qed.

Lemma nrange_succ n : nrange (n + 1) = nrange n ++ [n].
Proof.
  unfold nrange. replace (N.to_nat (n + 1)) with (S (N.to_nat n)) by lia.
  rewrite seq_S, map_app. cbn. f_equal. f_equal. lia.
Qed.

Lemma nrange_0 : nrange 0 = [].
Proof. reflexivity. Qed.

Lemma getw_nrange n i : i < n -> getw (nrange n) i = i.
Proof.
  intros H. unfold getw, nrange.
  rewrite (nth_indep _ 0 (N.of_nat 0)) by (rewrite map_length, seq_length; lia).
  rewrite map_nth, seq_nth by lia. lia.
Qed.

Lemma mapi_length f d : length (mapi f d) = length d.
Proof. unfold mapi. rewrite map_length, combine_length, seq_length. lia. Qed.

Lemma lenw_mapi f d : lenw (mapi f d) = lenw d.
Proof. unfold lenw. rewrite mapi_length. reflexivity. Qed.

Lemma mapi_nth f d k : (k < length d)%nat -> nth k (mapi f d) 0 = f (N.of_nat k) (nth k d 0).
Proof.
  intros H. unfold mapi.
  set (g := fun p : nat * N => f (N.of_nat (fst p)) (snd p)).
  rewrite (nth_indep _ 0 (g (O, 0))) by (rewrite map_length, combine_length, seq_length; lia).
  rewrite map_nth, combine_nth by (rewrite seq_length; reflexivity).
  rewrite seq_nth by assumption. reflexivity.
Qed.

Lemma getw_mapi f d i : i < lenw d -> getw (mapi f d) i = f i (getw d i).
Proof.
  intros H. unfold getw, lenw in *. rewrite mapi_nth by lia. f_equal. lia.
Qed.

Lemma getw_mapi_high f d i : lenw d <= i -> getw (mapi f d) i = 0.
Proof. intros H. apply getw_high. rewrite lenw_mapi. assumption. Qed.

Lemma words_ok_mapi w f d :
  (forall i, i < lenw d -> f i (getw d i) < 2 ^ w) -> words_ok w (mapi f d).
Proof.
  intros H. unfold words_ok. apply Forall_forall. intros x Hx.
  apply (In_nth _ _ 0) in Hx. destruct Hx as [k [Hk <-]]. rewrite mapi_length in Hk.
  rewrite mapi_nth by assumption.
  specialize (H (N.of_nat k)). unfold getw, lenw in H.
  rewrite Nat2N.id in H. apply H. lia.
Qed.

Lemma words_ok_getw w d : (forall i, i < lenw d -> getw d i < 2 ^ w) -> words_ok w d.
Proof.
  intros H. unfold words_ok. apply Forall_forall. intros x Hx.
  apply (In_nth _ _ 0) in Hx. destruct Hx as [k [Hk <-]].
  specialize (H (N.of_nat k)). unfold getw, lenw in H. rewrite Nat2N.id in H. apply H. lia.
Qed.

(* two word lists with the same length and the same words are equal *)
Lemma list_ext_getw d1 d2 : lenw d1 = lenw d2 -> (forall i, i < lenw d1 -> getw d1 i = getw d2 i) -> d1 = d2.
Proof.
  revert d2. induction d1 as [|x r IH]; intros [|y r2] Hl Hg; try reflexivity;
    rewrite ?lenw_nil, ?lenw_cons in *; try lia.
  f_equal.
  - apply (Hg 0). lia.
  - apply IH; [lia|]. intros i Hi. specialize (Hg (i + 1)).
    rewrite !getw_cons_S in Hg by lia. replace (i + 1 - 1) with i in Hg by lia. apply Hg. lia.
Qed.

(* ------------------------------------------------------------------ raw, word by word *)

Section W.
Variable w : N.
Hypothesis Hw : 0 < w.

Lemma getw_raw d i : words_ok w d -> getw d i = (raw w d / 2 ^ (w * i)) mod 2 ^ w.
Proof.
  intros Hd. apply N.bits_inj. intro b.
  rewrite mod_pow2_testbit, div_pow2_testbit, raw_testbit by assumption.
  destruct (N.ltb_spec b w) as [Hb|Hb].
  - destruct (divmod_unique (b + w * i) w i b Hw) as [-> ->]; [lia|assumption|]. reflexivity.
  - cbn. apply (testbit_high _ w); [apply getw_ok; assumption|assumption].
Qed.

Lemma raw_app d1 d2 : raw w (d1 ++ d2) = raw w d1 + 2 ^ (w * lenw d1) * raw w d2.
Proof.
  induction d1 as [|x r IH].
  - cbn [app]. rewrite raw_nil, lenw_nil, N.mul_0_r. cbn. lia.
  - cbn [app]. rewrite !raw_cons, IH, lenw_cons.
    replace (w * (lenw r + 1)) with (w + w * lenw r) by lia. rewrite pow2_add. lia.
Qed.

Lemma words_ok_app d1 d2 : words_ok w d1 -> words_ok w d2 -> words_ok w (d1 ++ d2).
Proof. intros H1 H2. unfold words_ok. apply Forall_app. split; assumption. Qed.

Lemma lenw_app d1 d2 : lenw (d1 ++ d2) = lenw d1 + lenw d2.
Proof. unfold lenw. rewrite app_length. lia. Qed.

Lemma raw_app_zeros d n : raw w (d ++ zerosw n) = raw w d.
Proof. rewrite raw_app, raw_zerosw. lia. Qed.

(* the raw values of two well-formed lists agree iff all their bits agree *)
Lemma raw_eq_bits d1 d2 :
  (forall i, N.testbit (raw w d1) i = N.testbit (raw w d2) i) -> raw w d1 = raw w d2.
Proof. apply N.bits_inj. Qed.

Lemma list_eq_of_raw d1 d2 :
  words_ok w d1 -> words_ok w d2 -> lenw d1 = lenw d2 -> raw w d1 = raw w d2 -> d1 = d2.
Proof.
  intros H1 H2 Hl Hr. apply list_ext_getw; [assumption|]. intros i _.
  rewrite !getw_raw by assumption. rewrite Hr. reflexivity.
Qed.

(* ------------------------------------------------------------------ mod2n *)

Lemma mod2n_getw d n i :
  i < lenw d -> getw (mod2n w d n) i = N.land (getw d i) (maskw w (N.min (n - N.min n (i * w)) w)).
Proof. intros H. unfold mod2n. rewrite getw_mapi by assumption. reflexivity. Qed.

Lemma lenw_mod2n d n : lenw (mod2n w d n) = lenw d.
Proof. apply lenw_mapi. Qed.

Lemma words_ok_mod2n d n : words_ok w d -> words_ok w (mod2n w d n).
Proof.
  intros Hd. apply words_ok_mapi. intros i Hi.
  apply lt_pow2_of_bits. intros b Hb. rewrite N.land_spec.
  rewrite (testbit_high (getw d i) w b); [reflexivity|apply getw_ok; assumption|assumption].
Qed.

Lemma raw_mod2n_testbit d n i :
  words_ok w d -> N.testbit (raw w (mod2n w d n)) i = (i <? n) && N.testbit (raw w d) i.
Proof.
  intros Hd. rewrite !raw_testbit by (try apply words_ok_mod2n; assumption).
  pose proof (div_mod_eq i w) as Ei. pose proof (mod_lt' i w Hw) as Him.
  destruct (N.lt_ge_cases (i / w) (lenw d)) as [Hlt|Hge].
  - rewrite mod2n_getw by assumption. rewrite N.land_spec, maskw_testbit.
    assert (i mod w <? w = true) as -> by (apply N.ltb_lt; assumption).
    rewrite andb_true_r.
    assert ((i mod w <? N.min (n - N.min n (i / w * w)) w) = (i <? n)) as ->.
    { destruct (N.ltb_spec i n); destruct (N.ltb_spec (i mod w) (N.min (n - N.min n (i / w * w)) w)); try reflexivity; nia. }
    apply andb_comm.
  - rewrite !getw_high by (rewrite ?lenw_mod2n; assumption). rewrite N.bits_0. symmetry. apply andb_false_r.
Qed.

Lemma raw_mod2n d n : words_ok w d -> raw w (mod2n w d n) = raw w d mod 2 ^ n.
Proof.
  intros Hd. apply N.bits_inj. intro i. rewrite raw_mod2n_testbit, mod_pow2_testbit by assumption. reflexivity.
Qed.

End W.

(* ------------------------------------------------------------------ small list updates *)

Lemma lenw_upd_at d i f : lenw (upd_at d i f) = lenw d.
Proof. unfold upd_at. destruct (i <? lenw d); [apply lenw_setw|reflexivity]. Qed.

Lemma getw_upd_at d i f j : getw (upd_at d i f) j = if (i =? j) && (i <? lenw d) then f (getw d i) else getw d j.
Proof.
  unfold upd_at. destruct (N.ltb_spec i (lenw d)) as [H|H].
  - rewrite getw_setw. apply N.ltb_lt in H. rewrite H. reflexivity.
  - rewrite andb_false_r. reflexivity.
Qed.

Lemma words_ok_upd_at w d i f : words_ok w d -> f (getw d i) < 2 ^ w -> words_ok w (upd_at d i f).
Proof. intros Hd Hf. unfold upd_at. destruct (i <? lenw d); [apply words_ok_setw; assumption|assumption]. Qed.

Lemma fill_range_ok d a b c : b <= lenw d \/ b <= a ->
  fill_range d a b c = Ok (mapi (fun i x => if (a <=? i) && (i <? b) then c else x) d).
Proof.
  intros H. unfold fill_range.
  destruct (N.ltb_spec a b); destruct (N.ltb_spec (lenw d) b); cbn [andb]; try reflexivity; lia.
Qed.

(* ------------------------------------------------------------------ Canon *)

Lemma canon_wvb_spec w v : canon_wvb w v = true <-> canon_wv w v.
Proof.
  unfold canon_wvb, canon_wv. rewrite !andb_true_iff, words_okb_spec, pow2_eq.
  rewrite N.leb_le, N.ltb_lt. tauto.
Qed.

Lemma canonb_spec x : canonb x = true <-> Canon x.
Proof.
  unfold canonb, Canon. rewrite andb_true_iff, canon_wvb_spec.
  destruct x as [w v|v|[|] v]; cbn [xw xv]; rewrite ?andb_true_iff, ?N.ltb_lt, ?N.eqb_eq; tauto.
Qed.

Lemma abs_canon w v : canon_wv w v -> abs_wv w v = mkbv (wl v) (raw w (wd v)).
Proof. intros (_ & _ & H). unfold abs_wv. rewrite trunc_small by assumption. reflexivity. Qed.

Lemma canon_zeros w n len : len <= w * n -> canon_wv w (mkwv (zerosw n) len).
Proof.
  intros H. unfold canon_wv. cbn [wd wl]. rewrite lenw_zerosw, raw_zerosw.
  split; [apply words_ok_zerosw|]. split; [assumption|apply pow2_pos].
Qed.

(* build Canon from a bit-level description of the storage *)
Lemma canon_of_bits w d len :
  words_ok w d -> len <= w * lenw d -> (forall i, len <= i -> N.testbit (raw w d) i = false) ->
  canon_wv w (mkwv d len).
Proof.
  intros Hd Hl Hb. unfold canon_wv. cbn [wd wl]. split; [assumption|]. split; [assumption|].
  apply lt_pow2_of_bits. assumption.
Qed.

Lemma canon_raw_high w v i : canon_wv w v -> wl v <= i -> N.testbit (raw w (wd v)) i = false.
Proof. intros (_ & _ & H) Hi. apply (testbit_high _ (wl v)); assumption. Qed.
