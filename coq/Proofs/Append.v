(* Proofs/Append.v *)
From BVA Require Import Base.Prelude Base.Result Base.Words Base.Limbs.
From BVA Require Import Model.Core Model.Ops Model.Arith Model.Conv Model.Auto Model.Run Spec.Spec Spec.Prop.
From BVA Require Import Proofs.Common Proofs.Rechunk Proofs.Lift.
From Coq Require Import ZifyBool ZifyN ZifyNat.
From BVA Require Import Proofs.Edit Proofs.Shift.

(* Splice operations (append / prepend) of the three vector types.

   The storage-level proofs are bit-level: a sequence of granule stores (set_int::<u8> for the
   fixed type, direct u64 word stores for the heap type) turns the storage value R0 into a value
   R whose bits inside a growing window [lo, hi) (cut at a limit L: the vector length for set_int,
   the storage size for word stores) are those of the target number T, the others still those of
   R0 (`spl`).  When the window covers everything that differs between R0 and T, R = T. *)

(* ------------------------------------------------------------------ generic helpers *)

Lemma fold_left_map' {A B C} (f : A -> B -> A) (g : C -> B) l a :
  fold_left f (map g l) a = fold_left (fun a x => f a (g x)) l a.
Proof. revert a. induction l as [|x r IH]; intros a; cbn [map fold_left]; [reflexivity|apply IH]. Qed.

Lemma fold_left_ext_in {A B} (f g : A -> B -> A) l a :
  (forall a x, In x l -> f a x = g a x) -> fold_left f l a = fold_left g l a.
Proof.
  revert a. induction l as [|x r IH]; intros a H; cbn [fold_left]; [reflexivity|].
  rewrite H by (left; reflexivity). apply IH. intros a' y Hy. apply H. right. assumption.
Qed.

Lemma fold_left_ok {A B} (g : A -> B -> A) l a :
  fold_left (fun acc i => let! x := acc in Ok (g x i)) l (Ok a) = Ok (fold_left g l a).
Proof. revert a. induction l as [|x r IH]; intros a; cbn [fold_left bind]; [reflexivity|apply IH]. Qed.

Definition spl (R0 R T lo hi L : N) : Prop :=
  forall b, N.testbit R b = if (lo <=? b) && (b <? hi) && (b <? L) then N.testbit T b else N.testbit R0 b.

Lemma spl_init R0 T lo L : spl R0 R0 T lo lo L.
Proof.
  intros b. destruct (N.leb_spec lo b); destruct (N.ltb_spec b lo); cbn [andb]; try reflexivity. lia.
Qed.

Lemma spl_step R0 R R' T lo hi L j x :
  lo <= hi -> spl R0 R T lo hi L ->
  (forall b, N.testbit R' b = if (hi <=? b) && (b <? hi + j) && (b <? L)
                              then N.testbit x (b - hi) else N.testbit R b) ->
  (forall t, t < j -> N.testbit x t = N.testbit T (hi + t)) ->
  spl R0 R' T lo (hi + j) L.
Proof.
  intros Hlo H1 H2 H3 b. rewrite H2, H1.
  destruct (N.leb_spec hi b) as [A|A]; destruct (N.ltb_spec b (hi + j)) as [B|B];
    destruct (N.ltb_spec b L) as [C|C]; destruct (N.leb_spec lo b) as [D|D];
    destruct (N.ltb_spec b hi) as [E|E]; cbn [andb]; try reflexivity; try (exfalso; lia).
  rewrite H3 by lia. f_equal. lia.
Qed.

Lemma spl_final R0 R T lo hi L :
  spl R0 R T lo hi L ->
  (forall b, b < lo \/ hi <= b \/ L <= b -> N.testbit R0 b = N.testbit T b) -> R = T.
Proof.
  intros H1 H2. apply N.bits_inj. intro b. rewrite H1.
  destruct (N.leb_spec lo b) as [A|A]; destruct (N.ltb_spec b hi) as [B|B];
    destruct (N.ltb_spec b L) as [C|C]; cbn [andb]; try reflexivity; apply H2; lia.
Qed.

(* state of a vector being spliced through set_int::<J> *)
Definition fst' (w : N) (v0 : wv) (T lo hi : N) (r : wv) : Prop :=
  canon_wv w r /\ wl r = wl v0 /\ lenw (wd r) = lenw (wd v0) /\
  spl (raw w (wd v0)) (raw w (wd r)) T lo hi (wl v0).

Lemma fst_init w v0 T lo : canon_wv w v0 -> fst' w v0 T lo lo v0.
Proof. intros H. split; [assumption|]. split; [reflexivity|]. split; [reflexivity|apply spl_init]. Qed.

Lemma fst_step w j v0 T lo idx x r :
  widths_ok w j -> fst' w v0 T lo (j * idx) r -> lo <= j * idx -> x < 2 ^ j ->
  (forall t, t < j -> N.testbit x t = N.testbit T (j * idx + t)) ->
  fst' w v0 T lo (j * idx + j) (v_set_int w j r idx x).
Proof.
  intros Hwj (Hc & Hl & Hn & Hs) Hlo Hx Hb.
  destruct (v_set_int_spec w j r idx x Hwj Hc Hx) as (Hc' & Hl' & Hn' & Hb').
  split; [assumption|]. split; [congruence|]. split; [congruence|].
  apply (spl_step _ (raw w (wd r)) _ T lo (j * idx) _ j x); try assumption.
  intros b. rewrite Hb', Hl. reflexivity.
Qed.

Lemma fst_fold w j v0 T lo base (idx val : N -> N) k :
  widths_ok w j -> lo <= j * base ->
  (forall i, i < k -> idx i = base + i) ->
  (forall i, i < k -> val i < 2 ^ j) ->
  (forall i t, i < k -> t < j -> N.testbit (val i) t = N.testbit T (j * (base + i) + t)) ->
  forall r, fst' w v0 T lo (j * base) r ->
  fst' w v0 T lo (j * (base + k)) (fold_left (fun acc i => v_set_int w j acc (idx i) (val i)) (nrange k) r).
Proof.
  intros Hwj Hlo. induction k as [|k IH] using N.peano_ind; intros Hi Hv Hb r Hr.
  - rewrite nrange_0, N.add_0_r. exact Hr.
  - rewrite <- N.add_1_r, nrange_succ, fold_left_app. cbn [fold_left].
    rewrite (Hi k) by lia.
    replace (j * (base + (k + 1))) with (j * (base + k) + j) by lia.
    apply fst_step; try assumption.
    + apply IH; try assumption; intros; [apply Hi|apply Hv|apply Hb]; lia.
    + lia.
    + apply Hv. lia.
    + intros t Ht. apply Hb; lia.
Qed.

(* ------------------------------------------------------------------ granules of the operand *)

Section Gran.
Variables (j S : N) (gb : N -> N).
Hypothesis Hgb : forall i, gb i = (S / 2 ^ (j * i)) mod 2 ^ j.

Lemma gb_lt i : gb i < 2 ^ j.
Proof. rewrite Hgb. apply N.mod_lt, pow2_ne0. Qed.

Lemma gb_bit i t : N.testbit (gb i) t = (t <? j) && N.testbit S (t + j * i).
Proof. rewrite Hgb, mod_pow2_testbit, div_pow2_testbit. reflexivity. Qed.

(* a stored granule made of the top of one operand granule and the bottom of the next *)
Lemma comb_lt i off : N.lor (shrw (gb i) (j - off)) (shlw j (gb (i + 1)) off) < 2 ^ j.
Proof. apply Shift.lor_lt; [apply shrw_lt, gb_lt|apply shlw_lt]. Qed.

Lemma comb_bit i off t :
  0 < off -> off < j -> t < j ->
  N.testbit (N.lor (shrw (gb i) (j - off)) (shlw j (gb (i + 1)) off)) t = N.testbit S (j * (i + 1) + t - off).
Proof.
  intros H0 H1 Ht. rewrite N.lor_spec, shrw_testbit, shlw_testbit, !gb_bit.
  assert (t <? j = true) as -> by (apply N.ltb_lt; assumption).
  destruct (N.leb_spec off t) as [A|A]; cbn [andb].
  - assert (t + (j - off) <? j = false) as -> by (apply N.ltb_ge; lia).
    assert (t - off <? j = true) as -> by (apply N.ltb_lt; lia). cbn [andb orb]. f_equal. lia.
  - assert (t + (j - off) <? j = true) as -> by (apply N.ltb_lt; lia).
    cbn [andb]. rewrite orb_false_r. f_equal. lia.
Qed.

(* the last stored granule: the top of the last operand granule *)
Lemma last_bit k off m t :
  0 < off -> off < j -> t < j -> S < 2 ^ m -> m <= j * (k + 1) ->
  N.testbit (shrw (gb k) (j - off)) t = N.testbit S (j * (k + 1) + t - off).
Proof.
  intros H0 H1 Ht HS Hm. rewrite shrw_testbit, gb_bit.
  destruct (N.ltb_spec (t + (j - off)) j) as [A|A]; cbn [andb].
  - f_equal. lia.
  - symmetry. apply (testbit_high S m); [assumption|lia].
Qed.

End Gran.

(* the target of an append: old value below position n, operand above *)
Lemma cat_bit Rv S n b :
  Rv < 2 ^ n -> N.testbit (Rv + 2 ^ n * S) b = if b <? n then N.testbit Rv b else N.testbit S (b - n).
Proof. apply concat_testbit. Qed.

(* the first stored granule when the old length is not a multiple of the granule *)
Lemma first_bit j S gb Rv n slide off t :
  (forall i, gb i = (S / 2 ^ (j * i)) mod 2 ^ j) ->
  Rv < 2 ^ n -> n = j * slide + off -> off < j -> t < j ->
  N.testbit (N.lor ((Rv / 2 ^ (j * slide)) mod 2 ^ j) (shlw j (gb 0) off)) t
  = N.testbit (Rv + 2 ^ n * S) (j * slide + t).
Proof.
  intros Hgb HR Hn Ho Ht.
  rewrite cat_bit, N.lor_spec, mod_pow2_testbit, div_pow2_testbit, shlw_testbit, (gb_bit j S gb Hgb) by assumption.
  assert (t <? j = true) as -> by (apply N.ltb_lt; assumption). cbn [andb].
  destruct (N.leb_spec off t) as [A|A]; cbn [andb].
  - assert (j * slide + t <? n = false) as -> by (apply N.ltb_ge; lia).
    rewrite (testbit_high Rv n) by (try assumption; lia).
    assert (t - off <? j = true) as -> by (apply N.ltb_lt; lia). cbn [andb orb]. f_equal. lia.
  - assert (j * slide + t <? n = true) as -> by (apply N.ltb_lt; lia).
    rewrite orb_false_r. f_equal. lia.
Qed.

(* what the window has to cover for an append *)
Lemma cat_outside Rv S n m lo hi L b :
  Rv < 2 ^ n -> S < 2 ^ m -> lo <= n -> n + m <= hi -> n + m <= L ->
  b < lo \/ hi <= b \/ L <= b -> N.testbit Rv b = N.testbit (Rv + 2 ^ n * S) b.
Proof.
  intros HR HS Hlo Hhi HL Hb. rewrite cat_bit by assumption.
  destruct (N.ltb_spec b n) as [A|A]; [reflexivity|].
  rewrite (testbit_high Rv n), (testbit_high S m) by (try assumption; lia). reflexivity.
Qed.

Lemma x_gb_digits j sfx :
  Good sfx -> std_width j -> forall i, odefault (x_get_int j sfx i) 0 = (val sfx / 2 ^ (j * i)) mod 2 ^ j.
Proof.
  intros [Hc Hs] Hj i. unfold x_get_int.
  apply (v_get_int_digits (xw sfx) j (xv sfx)); [apply std_widths_ok; assumption|apply Canon_wv; assumption].
Qed.

Lemma x_get_int_some j sfx i :
  Good sfx -> std_width j -> i * j < xlen sfx ->
  x_get_int j sfx i = Some ((val sfx / 2 ^ (j * i)) mod 2 ^ j).
Proof.
  intros [Hc Hs] Hj Hi. unfold x_get_int.
  rewrite v_get_int_spec by (try apply std_widths_ok; try apply Canon_wv; assumption).
  apply N.ltb_lt in Hi. unfold xlen in Hi. rewrite Hi. reflexivity.
Qed.

(* ------------------------------------------------------------------ Bvf::append *)

Definition fa_core (w : N) (v1 : wv) (slide offset nb : N) (gb : N -> N) : outcome wv :=
  if offset =? 0 then
    Ok (fold_left (fun acc i => v_set_int w 8 acc (i + slide) (gb i)) (nrange nb) v1)
  else if 0 <? nb then
    let v2 := v_set_int w 8 v1 slide
                (N.lor (odefault (v_get_int w 8 v1 slide) 0) (shlw 8 (gb 0) offset)) in
    let rev_offset := 8 - offset in
    let v3 := fold_left (fun acc i =>
                           v_set_int w 8 acc (i + slide)
                             (N.lor (shrw (gb (i - 1)) rev_offset) (shlw 8 (gb i) offset)))
                        (map (fun i => i + 1) (nrange (nb - 1))) v2 in
    Ok (v_set_int w 8 v3 (nb + slide) (shrw (gb (nb - 1)) rev_offset))
  else Ok v1.

Lemma f_append_unfold w v sfx :
  f_append w v sfx =
  let! v1 := f_resize w v (wl v + xlen sfx) 0 in
  fa_core w v1 (wl v / 8) (wl v mod 8) (x_int_len 8 sfx) (fun i => odefault (x_get_int 8 sfx i) 0).
Proof. reflexivity. Qed.

Lemma fa_core_spec w v1 n m Rv S slide off nb gb :
  widths_ok w 8 -> canon_wv w v1 -> wl v1 = n + m -> raw w (wd v1) = Rv -> Rv < 2 ^ n -> S < 2 ^ m ->
  (forall i, gb i = (S / 2 ^ (8 * i)) mod 2 ^ 8) -> n = 8 * slide + off -> off < 8 -> m <= 8 * nb ->
  exists r, fa_core w v1 slide off nb gb = Ok r /\ canon_wv w r /\ wl r = n + m /\
            lenw (wd r) = lenw (wd v1) /\ raw w (wd r) = Rv + 2 ^ n * S.
Proof.
  intros Hw8 Hc Hl HRv HR HS Hgb Hn Hoff Hm. unfold fa_core.
  set (T := Rv + 2 ^ n * S).
  pose proof (fst_init w v1 T (8 * slide) Hc) as H0.
  assert (forall r hi, fst' w v1 T (8 * slide) hi r -> n + m <= hi ->
            canon_wv w r /\ wl r = n + m /\ lenw (wd r) = lenw (wd v1) /\ raw w (wd r) = T) as Hfin.
  { intros r hi (Hcr & Hlr & Hnr & Hs) Hhi. split; [assumption|]. split; [congruence|]. split; [assumption|].
    apply (spl_final _ _ _ _ _ _ Hs). intros b Hb. rewrite HRv.
    apply (cat_outside Rv S n m (8 * slide) hi (wl v1)); try assumption; lia. }
  destruct (N.eqb_spec off 0) as [Ho|Ho].
  - (* byte aligned *)
    eexists. split; [reflexivity|].
    apply (Hfin _ (8 * (slide + nb))); [|lia].
    apply (fst_fold w 8 v1 T (8 * slide) slide (fun i => i + slide) gb nb); try assumption.
    + lia.
    + intros; lia.
    + intros i _. apply (gb_lt 8 S gb Hgb).
    + intros i t _ Ht. unfold T. rewrite cat_bit, (gb_bit 8 S gb Hgb) by assumption.
      assert (t <? 8 = true) as -> by (apply N.ltb_lt; assumption).
      assert (8 * (slide + i) + t <? n = false) as -> by (apply N.ltb_ge; lia).
      cbn [andb]. f_equal. lia.
  - destruct (N.ltb_spec 0 nb) as [Hnb|Hnb].
    + cbv zeta. eexists. split; [reflexivity|].
      apply (Hfin _ (8 * (nb + slide) + 8)); [|lia].
      apply fst_step; try assumption.
      * (* the middle granules *)
        rewrite fold_left_map'.
        replace (8 * (nb + slide)) with (8 * (slide + 1 + (nb - 1))) by lia.
        apply (fst_fold w 8 v1 T (8 * slide) (slide + 1) (fun i => i + 1 + slide)
                 (fun i => N.lor (shrw (gb (i + 1 - 1)) (8 - off)) (shlw 8 (gb (i + 1)) off)) (nb - 1));
          try assumption.
        -- lia.
        -- intros; lia.
        -- intros i _. rewrite N.add_sub. apply (comb_lt 8 S gb Hgb).
        -- intros i t _ Ht. rewrite N.add_sub, (comb_bit 8 S gb Hgb) by lia.
           unfold T. rewrite cat_bit by assumption.
           assert (8 * (slide + 1 + i) + t <? n = false) as -> by (apply N.ltb_ge; lia).
           f_equal. lia.
        -- (* the first granule *)
           replace (8 * (slide + 1)) with (8 * slide + 8) by lia.
           apply fst_step; try assumption; [lia| |].
           ++ apply Shift.lor_lt; [|apply shlw_lt].
              rewrite v_get_int_spec by assumption.
              destruct (slide * 8 <? wl v1); cbn [odefault]; [apply N.mod_lt, pow2_ne0|reflexivity].
           ++ intros t Ht. rewrite v_get_int_spec by assumption.
              assert (slide * 8 <? wl v1 = true) as -> by (apply N.ltb_lt; lia).
              cbn [odefault]. rewrite HRv. apply (first_bit 8 S gb Rv n slide off t); assumption.
      * lia.
      * apply shrw_lt, (gb_lt 8 S gb Hgb).
      * intros t Ht. replace nb with (nb - 1 + 1) at 2 by lia.
        rewrite (last_bit 8 S gb Hgb (nb - 1) off m) by (try assumption; lia).
        unfold T. rewrite cat_bit by assumption.
        assert (8 * (nb - 1 + 1 + slide) + t <? n = false) as -> by (apply N.ltb_ge; lia).
        f_equal. lia.
    + (* empty operand *)
      exists v1. split; [reflexivity|].
      apply (Hfin _ (n + m)); [|lia].
      assert (m = 0) as -> by lia. rewrite N.add_0_r.
      destruct H0 as (A & B & C & D). split; [assumption|]. split; [assumption|]. split; [assumption|].
      intros b. rewrite (D b).
      destruct (N.leb_spec (8 * slide) b); destruct (N.ltb_spec b (8 * slide)); destruct (N.ltb_spec b n);
        cbn [andb]; try reflexivity; try lia.
      destruct (N.ltb_spec b (wl v1)); cbn [andb]; [|reflexivity].
      unfold T. rewrite cat_bit by assumption.
      assert (b <? n = true) as -> by (apply N.ltb_lt; assumption). rewrite HRv. reflexivity.
Qed.

Lemma resize_grow fixed w v k :
  0 < w -> (fixed = false -> w = 64) -> canon_wv w v -> (fixed = true -> wl v + k <= w * lenw (wd v)) ->
  exists v1, v_resize fixed w v (wl v + k) 0 = Ok v1 /\ canon_wv w v1 /\ wl v1 = wl v + k /\
             (fixed = true -> lenw (wd v1) = lenw (wd v)) /\ raw w (wd v1) = raw w (wd v).
Proof.
  intros Hw Hf Hc Hcap.
  destruct (v_resize_spec fixed w v (wl v + k) 0 Hw Hf Hc ltac:(lia) Hcap) as (v1 & E & Hc1 & Hl1 & Hn1 & _ & Hr1).
  exists v1. split; [assumption|]. split; [assumption|]. split; [assumption|]. split; [assumption|].
  rewrite Hr1. assert (wl v + k <? wl v = false) as -> by (apply N.ltb_ge; lia).
  cbn [N.eqb]. apply N.add_0_r.
Qed.

Lemma f_append_spec w v sfx :
  std_width w -> canon_wv w v -> Good sfx -> wl v + xlen sfx <= w * lenw (wd v) ->
  exists r, f_append w v sfx = Ok r /\ canon_wv w r /\ lenw (wd r) = lenw (wd v) /\
            wl r = wl v + xlen sfx /\ raw w (wd r) = raw w (wd v) + 2 ^ wl v * val sfx.
Proof.
  intros Hw Hc Hg Hcap. rewrite f_append_unfold. unfold f_resize.
  destruct (resize_grow true w v (xlen sfx) (std_width_pos w Hw) ltac:(discriminate) Hc (fun _ => Hcap))
    as (v1 & E & Hc1 & Hl1 & Hn1 & Hr1).
  rewrite E. cbn [bind].
  destruct (fa_core_spec w v1 (wl v) (xlen sfx) (raw w (wd v)) (val sfx) (wl v / 8) (wl v mod 8)
              (x_int_len 8 sfx) (fun i => odefault (x_get_int 8 sfx i) 0)) as (r & Er & Hcr & Hlr & Hnr & Hrr);
    try assumption.
  - apply std_widths_ok; [assumption|]. unfold std_width. cbn [In]. auto.
  - apply Hc.
  - apply val_lt, Hg.
  - apply x_gb_digits; [assumption|]. unfold std_width. cbn [In]. auto.
  - apply (div_mod_eq (wl v) 8).
  - apply mod_lt'. lia.
  - unfold x_int_len, v_int_len. fold (xlen sfx). generalize (xlen sfx). intros m.
    apply (ceil_div_spec m 8 eq_refl). apply N.le_refl.
  - exists r. split; [assumption|]. split; [assumption|]. split; [rewrite Hnr; apply Hn1; reflexivity|].
    split; assumption.
Qed.

(* `f_append_overflow` as assigned,
     w * lenw (wd v) < wl v + xlen sfx -> f_append w v sfx = Panic,
   is FALSE when v violates the length invariant and the suffix is empty: resize to the
   unchanged length does nothing and no granule is stored, e.g.
     f_append 8 (mkwv [] 1) (XD (mkwv [] 0)) = Ok (mkwv [] 1)      (8 * 0 < 1 + 0)
     f_append 8 (mkwv [0] 9) (XD (mkwv [] 0)) = Ok (mkwv [0] 9)
   (both checked with Eval vm_compute).  It holds as soon as the resize really grows the
   vector, in particular for every v with wl v <= capacity (part of canon_wv). *)
Lemma f_append_overflow_grow w v sfx :
  0 < xlen sfx \/ wl v <= w * lenw (wd v) ->
  w * lenw (wd v) < wl v + xlen sfx -> f_append w v sfx = Panic.
Proof.
  intros H1 H2. rewrite f_append_unfold. unfold f_resize.
  rewrite f_resize_overflow_panics by lia. reflexivity.
Qed.

Lemma f_append_overflow_fixed w v sfx :
  wl v <= w * lenw (wd v) ->
  w * lenw (wd v) < wl v + xlen sfx -> f_append w v sfx = Panic.
Proof. intros H. apply f_append_overflow_grow. right. assumption. Qed.

(* same statement under the name asked for by PROOF_GUIDE.md *)
Lemma f_append_overflow_partial w v sfx :
  wl v <= w * lenw (wd v) ->
  w * lenw (wd v) < wl v + xlen sfx -> f_append w v sfx = Panic.
Proof. apply f_append_overflow_fixed. Qed.

Lemma f_append_overflow_counterexample :
  8 * lenw (wd (mkwv [] 1)) < wl (mkwv [] 1) + xlen (XD (mkwv [] 0)) /\
  f_append 8 (mkwv [] 1) (XD (mkwv [] 0)) = Ok (mkwv [] 1).
Proof. split; reflexivity. Qed.

(* ------------------------------------------------------------------ Bvd::append *)

(* state of u64 storage being spliced by direct word stores *)
Definition dst (d0 : list N) (T lo hi : N) (d : list N) : Prop :=
  words_ok 64 d /\ lenw d = lenw d0 /\ spl (raw 64 d0) (raw 64 d) T lo hi (64 * lenw d0).

Lemma dst_init d0 T lo : words_ok 64 d0 -> dst d0 T lo lo d0.
Proof. intros H. split; [assumption|]. split; [reflexivity|apply spl_init]. Qed.

Lemma setw_bits d idx x b :
  words_ok 64 d -> x < 2 ^ 64 ->
  N.testbit (raw 64 (setw d idx x)) b =
  if (64 * idx <=? b) && (b <? 64 * idx + 64) && (b <? 64 * lenw d)
  then N.testbit x (b - 64 * idx) else N.testbit (raw 64 d) b.
Proof.
  intros Hd Hx. rewrite !(raw_testbit 64 eq_refl) by (try apply words_ok_setw; assumption).
  rewrite getw_setw.
  destruct (N.eqb_spec idx (b / 64)) as [A|A]; destruct (N.ltb_spec idx (lenw d)) as [B|B];
    destruct (N.leb_spec (64 * idx) b) as [C|C]; destruct (N.ltb_spec b (64 * idx + 64)) as [D|D];
    destruct (N.ltb_spec b (64 * lenw d)) as [E|E]; cbn [andb]; try reflexivity; try (exfalso; lia).
  f_equal. lia.
Qed.

Lemma dst_step d0 T lo idx x d :
  dst d0 T lo (64 * idx) d -> lo <= 64 * idx -> x < 2 ^ 64 ->
  (forall t, t < 64 -> N.testbit x t = N.testbit T (64 * idx + t)) ->
  dst d0 T lo (64 * idx + 64) (setw d idx x).
Proof.
  intros (Hd & Hn & Hs) Hlo Hx Hb.
  split; [apply words_ok_setw; assumption|]. split; [rewrite lenw_setw; assumption|].
  apply (spl_step _ (raw 64 d) _ T lo (64 * idx) _ 64 x); try assumption.
  intros b. rewrite setw_bits, Hn by assumption. reflexivity.
Qed.

Lemma dst_fold d0 T lo base (idx val : N -> N) k :
  lo <= 64 * base -> base + k <= lenw d0 ->
  (forall i, i < k -> idx i = base + i) ->
  (forall i, i < k -> val i < 2 ^ 64) ->
  (forall i t, i < k -> t < 64 -> N.testbit (val i) t = N.testbit T (64 * (base + i) + t)) ->
  forall d, dst d0 T lo (64 * base) d ->
  exists d', fold_left (fun acc i => let! d := acc in seto d (idx i) (val i)) (nrange k) (Ok d) = Ok d' /\
             dst d0 T lo (64 * (base + k)) d'.
Proof.
  intros Hlo. induction k as [|k IH] using N.peano_ind; intros Hk Hi Hv Hb d Hd.
  - exists d. rewrite nrange_0, N.add_0_r. split; [reflexivity|exact Hd].
  - rewrite <- N.add_1_r in *. rewrite nrange_succ, fold_left_app. cbn [fold_left].
    destruct (IH ltac:(lia) ltac:(intros; apply Hi; lia) ltac:(intros; apply Hv; lia)
                 ltac:(intros; apply Hb; lia) d Hd) as (d1 & -> & H1).
    cbn [bind]. rewrite (Hi k) by lia.
    rewrite seto_ok by (destruct H1 as (_ & -> & _); lia).
    eexists. split; [reflexivity|].
    replace (64 * (base + (k + 1))) with (64 * (base + k) + 64) by lia.
    apply dst_step; [assumption|lia|apply Hv; lia|].
    intros t Ht. apply Hb; lia.
Qed.

Definition da_core (v1 : wv) (slide offset nb : N) (gb : N -> N) : outcome wv :=
  if offset =? 0 then
    let! d := fold_left (fun acc i => let! d := acc in seto d (i + slide) (gb i)) (nrange nb) (Ok (wd v1)) in
    Ok (mkwv d (wl v1))
  else if 0 <? nb then
    let! x0 := geto (wd v1) slide in
    let! d0 := seto (wd v1) slide (N.lor x0 (shlw W64 (gb 0) offset)) in
    let rev_offset := W64 - offset in
    let! d1 := fold_left (fun acc i =>
                            let! d := acc in
                            seto d (i + slide) (N.lor (shrw (gb (i - 1)) rev_offset) (shlw W64 (gb i) offset)))
                         (map (fun i => i + 1) (nrange (nb - 1))) (Ok d0) in
    Ok (mkwv (upd_at d1 (nb + slide) (fun _ => shrw (gb (nb - 1)) rev_offset)) (wl v1))
  else Ok v1.

Lemma d_append_unfold v sfx :
  d_append v sfx =
  let! v1 := d_resize v (wl v + xlen sfx) 0 in
  da_core v1 (wl v / W64) (wl v mod W64) (x_int_len W64 sfx) (fun i => odefault (x_get_int W64 sfx i) 0).
Proof. reflexivity. Qed.

Lemma da_core_spec v1 n m Rv S slide off nb gb :
  canon_wv 64 v1 -> wl v1 = n + m -> raw 64 (wd v1) = Rv -> Rv < 2 ^ n -> S < 2 ^ m ->
  (forall i, gb i = (S / 2 ^ (64 * i)) mod 2 ^ 64) -> n = 64 * slide + off -> off < 64 ->
  m <= 64 * nb -> (nb = 0 \/ 64 * (nb - 1) < m) ->
  exists r, da_core v1 slide off nb gb = Ok r /\ canon_wv 64 r /\ wl r = n + m /\
            raw 64 (wd r) = Rv + 2 ^ n * S.
Proof.
  intros Hc Hl HRv HR HS Hgb Hn Hoff Hm Hnb'. unfold da_core, W64.
  pose proof Hc as (Hd1 & Hcap & _). rewrite Hl in Hcap.
  set (T := Rv + 2 ^ n * S).
  pose proof (dst_init (wd v1) T (64 * slide) Hd1) as H0.
  assert (forall d hi, dst (wd v1) T (64 * slide) hi d -> n + m <= hi ->
            canon_wv 64 (mkwv d (wl v1)) /\ wl (mkwv d (wl v1)) = n + m /\ raw 64 (wd (mkwv d (wl v1))) = T) as Hfin.
  { intros d hi (Hdr & Hnr & Hs) Hhi. cbn [wd wl].
    assert (raw 64 d = T) as HT.
    { apply (spl_final _ _ _ _ _ _ Hs). intros b Hb. rewrite HRv.
      apply (cat_outside Rv S n m (64 * slide) hi (64 * lenw (wd v1))); try assumption; lia. }
    split; [|split; assumption].
    split; [assumption|]. cbn [wd wl]. split; [lia|].
    rewrite HT, Hl. unfold T. apply concat_lt; assumption. }
  destruct (N.eqb_spec off 0) as [Ho|Ho].
  - (* word aligned *)
    destruct (dst_fold (wd v1) T (64 * slide) slide (fun i => i + slide) gb nb) with (d := wd v1)
      as (d' & E & Hd'); try assumption.
    + lia.
    + lia.
    + intros; lia.
    + intros i _. apply (gb_lt 64 S gb Hgb).
    + intros i t _ Ht. unfold T. rewrite cat_bit, (gb_bit 64 S gb Hgb) by assumption.
      assert (t <? 64 = true) as -> by (apply N.ltb_lt; assumption).
      assert (64 * (slide + i) + t <? n = false) as -> by (apply N.ltb_ge; lia).
      cbn [andb]. f_equal. lia.
    + cbv beta in E. rewrite E. cbn [bind]. eexists. split; [reflexivity|].
      apply (Hfin _ (64 * (slide + nb))); [assumption|lia].
  - destruct (N.ltb_spec 0 nb) as [Hnb|Hnb].
    + assert (slide + nb <= lenw (wd v1)) as Hin by lia.
      rewrite geto_ok by lia. cbn [bind]. rewrite seto_ok by lia. cbn [bind]. cbv zeta.
      rewrite fold_left_map'.
      (* the first word *)
      assert (dst (wd v1) T (64 * slide) (64 * (slide + 1))
                (setw (wd v1) slide (N.lor (getw (wd v1) slide) (shlw 64 (gb 0) off)))) as H1.
      { replace (64 * (slide + 1)) with (64 * slide + 64) by lia.
        rewrite (getw_raw 64 eq_refl (wd v1) slide Hd1), HRv.
        apply dst_step; [assumption|lia| |].
        - apply Shift.lor_lt; [apply N.mod_lt, pow2_ne0|apply shlw_lt].
        - intros t Ht. apply (first_bit 64 S gb Rv n slide off t); assumption. }
      (* the middle words *)
      destruct (dst_fold (wd v1) T (64 * slide) (slide + 1) (fun i => i + 1 + slide)
                  (fun i => N.lor (shrw (gb (i + 1 - 1)) (64 - off)) (shlw 64 (gb (i + 1)) off)) (nb - 1))
        with (d := setw (wd v1) slide (N.lor (getw (wd v1) slide) (shlw 64 (gb 0) off)))
        as (d' & E & Hd'); try assumption.
      * lia.
      * lia.
      * intros; lia.
      * intros i _. rewrite N.add_sub. apply (comb_lt 64 S gb Hgb).
      * intros i t _ Ht. rewrite N.add_sub, (comb_bit 64 S gb Hgb) by lia.
        unfold T. rewrite cat_bit by assumption.
        assert (64 * (slide + 1 + i) + t <? n = false) as -> by (apply N.ltb_ge; lia).
        f_equal. lia.
      * cbv beta in E. rewrite E. cbn [bind]. eexists. split; [reflexivity|].
        apply (Hfin _ (64 * (nb + slide) + 64)); [|lia].
        (* the last word, stored only if it exists *)
        replace (64 * (slide + 1 + (nb - 1))) with (64 * (nb + slide)) in Hd' by lia.
        assert (shrw (gb (nb - 1)) (64 - off) < 2 ^ 64) as Hlt by apply shrw_lt, (gb_lt 64 S gb Hgb).
        assert (forall t, t < 64 -> N.testbit (shrw (gb (nb - 1)) (64 - off)) t = N.testbit T (64 * (nb + slide) + t)) as Hlb.
        { intros t Ht. replace nb with (nb - 1 + 1) at 2 by lia.
          rewrite (last_bit 64 S gb Hgb (nb - 1) off m) by (try assumption; lia).
          unfold T. rewrite cat_bit by assumption.
          assert (64 * (nb - 1 + 1 + slide) + t <? n = false) as -> by (apply N.ltb_ge; lia).
          f_equal. lia. }
        unfold upd_at. destruct (N.ltb_spec (nb + slide) (lenw d')) as [Hi|Hi].
        -- apply dst_step; [assumption|lia|assumption|assumption].
        -- destruct Hd' as (A & B & C). split; [assumption|]. split; [assumption|].
           intros b. rewrite (C b).
           destruct (N.leb_spec (64 * slide) b); destruct (N.ltb_spec b (64 * (nb + slide)));
             destruct (N.ltb_spec b (64 * (nb + slide) + 64)); destruct (N.ltb_spec b (64 * lenw (wd v1)));
             cbn [andb]; try reflexivity; exfalso; lia.
    + (* empty operand *)
      exists v1. split; [reflexivity|]. assert (m = 0) as -> by lia.
      split; [assumption|]. split; [assumption|].
      assert (S = 0) as -> by (rewrite N.pow_0_r in HS; lia). lia.
Qed.

Lemma d_append_spec v sfx :
  canon_wv 64 v -> Good sfx ->
  exists r, d_append v sfx = Ok r /\ canon_wv 64 r /\
            wl r = wl v + xlen sfx /\ raw 64 (wd r) = raw 64 (wd v) + 2 ^ wl v * val sfx.
Proof.
  intros Hc Hg. rewrite d_append_unfold. unfold d_resize, W64.
  destruct (resize_grow false 64 v (xlen sfx) eq_refl ltac:(reflexivity) Hc ltac:(discriminate))
    as (v1 & E & Hc1 & Hl1 & _ & Hr1).
  rewrite E. cbn [bind].
  apply (da_core_spec v1 (wl v) (xlen sfx) (raw 64 (wd v)) (val sfx)); try assumption.
  - apply Hc.
  - apply val_lt, Hg.
  - apply x_gb_digits; [assumption|apply std_width_64].
  - apply (div_mod_eq (wl v) 64).
  - apply mod_lt'. lia.
  - unfold x_int_len, v_int_len. fold (xlen sfx). generalize (xlen sfx). intros m.
    apply (ceil_div_spec m 64 eq_refl). apply N.le_refl.
  - unfold x_int_len, v_int_len. fold (xlen sfx). generalize (xlen sfx). intros m. lia.
Qed.

(* ------------------------------------------------------------------ promotion of the inline variant *)

Lemma omap_list_ok' {A B} (f : A -> outcome B) (g : A -> B) l :
  (forall a, In a l -> f a = Ok (g a)) -> omap_list f l = Ok (map g l).
Proof.
  induction l as [|a r IH]; intros H; [reflexivity|].
  cbn [omap_list map]. rewrite (H a) by (left; reflexivity). cbn [bind].
  rewrite IH by (intros; apply H; right; assumption). reflexivity.
Qed.

Lemma getw_map_nrange' (f : N -> N) k i : i < k -> getw (map f (nrange k)) i = f i.
Proof.
  intros H. unfold getw.
  rewrite (nth_indep _ 0 (f 0)) by (rewrite map_length, nrange_length; lia).
  rewrite map_nth. f_equal. apply getw_nrange. assumption.
Qed.

Lemma lenw_map_nrange' (f : N -> N) k : lenw (map f (nrange k)) = k.
Proof. unfold lenw. rewrite map_length, nrange_length. lia. Qed.

(* Bvd::from(&Bvf<u64,N>): the used words are copied *)
Lemma d_from_f64 v :
  canon_wv 64 v ->
  exists r, d_from_f 64 v = Ok r /\ canon_wv 64 r /\ wl r = wl v /\ raw 64 (wd r) = raw 64 (wd v).
Proof.
  intros Hc. pose proof Hc as (Hd & Hcap & Hr). unfold d_from_f, W64.
  set (g := fun i => (raw 64 (wd v) / 2 ^ (64 * i)) mod 2 ^ 64).
  set (nb := v_int_len 64 v).
  assert (wl v <= 64 * nb) as Hnb.
  { unfold nb, v_int_len. apply (ceil_div_spec (wl v) 64 eq_refl). apply N.le_refl. }
  assert (forall i, i < nb -> i * 64 < wl v) as Hin.
  { unfold nb, v_int_len. generalize (wl v). intros n i Hi. lia. }
  rewrite (omap_list_ok' _ g).
  2:{ intros i Hi. apply In_nrange in Hi.
      rewrite v_get_int_spec by (try assumption; apply std_widths_ok; apply std_width_64).
      assert (i * 64 <? wl v = true) as -> by (apply N.ltb_lt; apply Hin; assumption). reflexivity. }
  cbn [bind]. eexists. split; [reflexivity|]. cbn [wd wl].
  assert (words_ok 64 (map g (nrange nb))) as Hd'.
  { apply words_ok_getw. intros i Hi. rewrite lenw_map_nrange' in Hi. rewrite getw_map_nrange' by assumption.
    apply N.mod_lt, pow2_ne0. }
  assert (raw 64 (map g (nrange nb)) = raw 64 (wd v)) as HR.
  { apply N.bits_inj. intro b. rewrite (raw_testbit 64 eq_refl _ b Hd').
    destruct (N.ltb_spec (b / 64) nb) as [A|A].
    - rewrite getw_map_nrange' by assumption. unfold g. rewrite mod_pow2_testbit, div_pow2_testbit.
      assert (b mod 64 <? 64 = true) as -> by (apply N.ltb_lt; lia). cbn [andb]. f_equal. lia.
    - rewrite getw_high by (rewrite lenw_map_nrange'; assumption). rewrite N.bits_0.
      symmetry. apply (testbit_high _ (wl v)); [assumption|lia]. }
  split; [|split; [reflexivity|assumption]].
  split; [assumption|]. cbn [wd wl]. rewrite lenw_map_nrange', HR. split; assumption.
Qed.

(* ------------------------------------------------------------------ value level: append *)

Lemma abs_concat_eq lo hi x :
  Canon lo -> Canon hi -> Canon x -> xlen x = xlen lo + xlen hi -> val x = val lo + 2 ^ xlen lo * val hi ->
  abs x = s_concat (abs lo) (abs hi).
Proof.
  intros H1 H2 H3 Hl Hv. rewrite !abs_Canon by assumption. unfold s_concat. cbn [blen bval].
  rewrite N.shiftl_mul_pow2, Hl, Hv. f_equal. lia.
Qed.

Lemma std_width_XF w v : Good (XF w v) -> std_width w /\ canon_wv w v /\ 0 < w /\ w mod 8 = 0.
Proof. intros [[Hc [H0 H8]] Hs]. split; [exact Hs|]. split; [exact Hc|]. split; assumption. Qed.

Theorem x_append_spec a sfx : Good a -> Good sfx ->
  (fits (kind_of a) (xlen a + xlen sfx) = false -> x_append a sfx = Panic) /\
  (fits (kind_of a) (xlen a + xlen sfx) = true ->
   exists r, x_append a sfx = Ok r /\ Good r /\ kind_of r = kind_of a /\ abs r = s_append (abs a) (abs sfx)).
Proof.
  intros Ha Hs. pose proof Ha as [Hca Hwa]. pose proof Hs as [Hcs Hws].
  destruct a as [w v|v|[|] v]; cbn [kind_of x_append].
  - (* Bvf *)
    change (xlen (XF w v)) with (wl v).
    destruct (std_width_XF w v Ha) as (Hw & Hc & H0 & H8).
    unfold fits. cbn [kind_fixed kind_cap negb orb]. split; intros Hf.
    + apply N.leb_gt in Hf. rewrite f_append_overflow_fixed; [reflexivity|apply Hc|exact Hf].
    + apply N.leb_le in Hf.
      destruct (f_append_spec w v sfx Hw Hc Hs Hf) as (r & -> & Hcr & Hnr & Hlr & Hrr). cbn [bind].
      assert (Canon (XF w r)) as HC by (apply Canon_XF; assumption).
      eexists. split; [reflexivity|]. split; [split; [exact HC|exact Hw]|].
      split; [cbn [kind_of]; rewrite Hnr; reflexivity|].
      apply abs_concat_eq; try assumption.
  - (* Bvd *)
    split; [intros Hf; discriminate Hf|intros _].
    destruct (d_append_spec v sfx (Canon_wv _ Hca) Hs) as (r & -> & Hcr & Hlr & Hrr). cbn [bind].
    assert (Canon (XD r)) as HC by (apply Canon_XD; assumption).
    eexists. split; [reflexivity|]. split; [apply Good_of_Canon_D; exact HC|].
    split; [reflexivity|]. apply abs_concat_eq; try assumption.
  - (* Bv, inline *)
    split; [intros Hf; discriminate Hf|intros _].
    pose proof (Canon_wv _ Hca) as Hc. cbn [xw xv] in Hc. destruct Hca as [_ Hn2].
    unfold BVP_CAP, BVP_W. destruct (N.leb_spec (wl v + xlen sfx) 128) as [Hle|Hgt].
    + destruct (f_append_spec 64 v sfx std_width_64 Hc Hs) as (r & -> & Hcr & Hnr & Hlr & Hrr).
      { rewrite Hn2. lia. }
      cbn [bind].
      assert (Canon (XA true r)) as HC by (apply Canon_XA_fixed; [assumption|congruence]).
      eexists. split; [reflexivity|]. split; [apply Good_of_Canon_A; exact HC|].
      split; [reflexivity|]. apply abs_concat_eq; try assumption. apply Ha.
    + destruct (d_from_f64 v Hc) as (d & -> & Hcd & Hld & Hrd). cbn [bind].
      destruct (d_append_spec d sfx Hcd Hs) as (r & -> & Hcr & Hlr & Hrr). cbn [bind].
      assert (Canon (XA false r)) as HC by (apply Canon_XA_dyn; assumption).
      eexists. split; [reflexivity|]. split; [apply Good_of_Canon_A; exact HC|].
      split; [reflexivity|]. apply abs_concat_eq; try assumption; [apply Ha| |].
      * unfold xlen in *. cbn [xv]. congruence.
      * unfold val, xlen, xdata. cbn [xv xw]. rewrite Hrr, Hrd, Hld. reflexivity.
  - (* Bv, heap *)
    split; [intros Hf; discriminate Hf|intros _].
    destruct (d_append_spec v sfx (Canon_wv _ Hca) Hs) as (r & -> & Hcr & Hlr & Hrr). cbn [bind].
    assert (Canon (XA false r)) as HC by (apply Canon_XA_dyn; assumption).
    eexists. split; [reflexivity|]. split; [apply Good_of_Canon_A; exact HC|].
    split; [reflexivity|]. apply abs_concat_eq; try assumption.
Qed.

(* ------------------------------------------------------------------ prepend: shared facts *)

Lemma shift_amount_id k : k < 2 ^ 62 -> shift_amount k = k.
Proof.
  intros Hk. unfold shift_amount. rewrite pow2_eq.
  assert (2 ^ 62 < 2 ^ 64) by (apply pow2_lt; lia).
  destruct (N.ltb_spec k (2 ^ 64)); [reflexivity|lia].
Qed.

(* the target of a prepend: operand below position m, old value above *)
Lemma pre_bit P Rv m b :
  P < 2 ^ m -> N.testbit (P + 2 ^ m * Rv) b = if b <? m then N.testbit P b else N.testbit Rv (b - m).
Proof. apply concat_testbit. Qed.

Lemma pre_high P Rv m b :
  P < 2 ^ m -> m <= b -> N.testbit (Rv * 2 ^ m) b = N.testbit (P + 2 ^ m * Rv) b.
Proof.
  intros HP Hb. rewrite pre_bit, mul_pow2_testbit by assumption.
  assert (b <? m = false) as -> by (apply N.ltb_ge; assumption).
  assert (m <=? b = true) as -> by (apply N.leb_le; assumption). reflexivity.
Qed.

(* a granule entirely inside the operand *)
Lemma pre_low_bit j P Rv m i t :
  P < 2 ^ m -> t < j -> j * i + j <= m ->
  N.testbit ((P / 2 ^ (j * i)) mod 2 ^ j) t = N.testbit (P + 2 ^ m * Rv) (j * i + t).
Proof.
  intros HP Ht Hi. rewrite pre_bit, mod_pow2_testbit, div_pow2_testbit by assumption.
  assert (t <? j = true) as -> by (apply N.ltb_lt; assumption).
  assert (j * i + t <? m = true) as -> by (apply N.ltb_lt; lia).
  cbn [andb]. f_equal. lia.
Qed.

(* the last granule: the shifted old value OR the top of the operand *)
Lemma pre_last_bit j P Rv m R3 last t :
  P < 2 ^ m -> t < j ->
  (forall b, j * last <= b -> N.testbit R3 b = N.testbit (Rv * 2 ^ m) b) ->
  N.testbit (N.lor ((R3 / 2 ^ (j * last)) mod 2 ^ j) ((P / 2 ^ (j * last)) mod 2 ^ j)) t
  = N.testbit (P + 2 ^ m * Rv) (j * last + t).
Proof.
  intros HP Ht H3. rewrite pre_bit, N.lor_spec, !mod_pow2_testbit, !div_pow2_testbit by assumption.
  assert (t <? j = true) as -> by (apply N.ltb_lt; assumption). cbn [andb].
  rewrite H3 by lia. rewrite mul_pow2_testbit.
  replace (t + j * last) with (j * last + t) by lia.
  destruct (N.ltb_spec (j * last + t) m) as [A|A].
  - assert (m <=? j * last + t = false) as -> by (apply N.leb_gt; assumption). reflexivity.
  - assert (m <=? j * last + t = true) as -> by (apply N.leb_le; assumption).
    rewrite (testbit_high P m) by assumption. cbn [andb]. apply orb_false_r.
Qed.

(* raw value after resize and shift *)
Lemma shl_raw w v1 v2 n m Rv :
  canon_wv w v1 -> wl v1 = n + m -> raw w (wd v1) = Rv -> Rv < 2 ^ n ->
  (forall i, N.testbit (raw w (wd v2)) i = (m <=? i) && (i <? wl v1) && N.testbit (raw w (wd v1)) (i - m)) ->
  raw w (wd v2) = Rv * 2 ^ m.
Proof.
  intros Hc Hl HRv HR Hb. apply N.bits_inj. intro i. rewrite Hb, mul_pow2_testbit, HRv, Hl.
  destruct (N.leb_spec m i) as [A|A]; cbn [andb]; [|reflexivity].
  destruct (N.ltb_spec i (n + m)) as [B|B]; cbn [andb]; [reflexivity|].
  symmetry. apply (testbit_high Rv n); [assumption|lia].
Qed.

(* ------------------------------------------------------------------ Bvf::prepend *)

Definition fp_core (w : N) (v2 : wv) (last : N) (gi : N -> option N) : outcome wv :=
  let! v3 := fold_left (fun acc i => let! a := acc in
                                     let! b := unwrap (gi i) in
                                     Ok (v_set_int w 8 a i b))
                       (nrange last) (Ok v2) in
  let! a := unwrap (v_get_int w 8 v3 last) in
  let! b := unwrap (gi last) in
  Ok (v_set_int w 8 v3 last (N.lor a b)).

Lemma f_prepend_unfold w v pfx :
  f_prepend w v pfx =
  if xlen pfx =? 0 then Ok v
  else let! v1 := f_resize w v (wl v + xlen pfx) 0 in
       let! v2 := v_shl_assign w v1 (xlen pfx) in
       fp_core w v2 (x_int_len 8 pfx - 1) (x_get_int 8 pfx).
Proof. reflexivity. Qed.

Lemma fp_core_spec w v2 n m Rv P last gi :
  widths_ok w 8 -> canon_wv w v2 -> wl v2 = n + m -> raw w (wd v2) = Rv * 2 ^ m -> P < 2 ^ m ->
  (forall i, i * 8 < m -> gi i = Some ((P / 2 ^ (8 * i)) mod 2 ^ 8)) ->
  8 * last < m -> m <= 8 * last + 8 ->
  exists r, fp_core w v2 last gi = Ok r /\ canon_wv w r /\ wl r = n + m /\
            lenw (wd r) = lenw (wd v2) /\ raw w (wd r) = P + 2 ^ m * Rv.
Proof.
  intros Hw8 Hc Hl HR2 HP Hgi Hlo Hhi. unfold fp_core.
  set (T := P + 2 ^ m * Rv). set (g := fun i => (P / 2 ^ (8 * i)) mod 2 ^ 8).
  rewrite (fold_left_ext_in _ (fun acc i => let! a := acc in Ok (v_set_int w 8 a i (g i)))).
  2:{ intros acc i Hi. apply In_nrange in Hi. rewrite Hgi by lia. destruct acc; reflexivity. }
  rewrite fold_left_ok. cbn [bind].
  set (v3 := fold_left _ _ _).
  assert (fst' w v2 T 0 (8 * last) v3) as H3.
  { replace (8 * last) with (8 * (0 + last)) by lia.
    apply (fst_fold w 8 v2 T 0 0 (fun i => i) g last); try assumption.
    - lia.
    - intros; lia.
    - intros i _. apply N.mod_lt, pow2_ne0.
    - intros i t Hi Ht. rewrite N.add_0_l. apply pre_low_bit; [assumption|assumption|lia].
    - rewrite N.mul_0_r. apply fst_init. assumption. }
  pose proof H3 as (Hc3 & Hl3 & Hn3 & Hs3).
  rewrite v_get_int_spec by assumption.
  assert (last * 8 <? wl v3 = true) as -> by (apply N.ltb_lt; lia).
  rewrite Hgi by lia. cbn [unwrap bind].
  eexists. split; [reflexivity|].
  assert (fst' w v2 T 0 (8 * last + 8) (v_set_int w 8 v3 last
            (N.lor ((raw w (wd v3) / 2 ^ (8 * last)) mod 2 ^ 8) ((P / 2 ^ (8 * last)) mod 2 ^ 8)))) as H4.
  { apply fst_step; try assumption; [lia| |].
    - apply Shift.lor_lt; apply N.mod_lt, pow2_ne0.
    - intros t Ht. apply pre_last_bit; [assumption|assumption|].
      intros b Hb. rewrite (Hs3 b), HR2.
      assert (b <? 8 * last = false) as -> by (apply N.ltb_ge; assumption).
      rewrite andb_false_r. reflexivity. }
  destruct H4 as (Hc4 & Hl4 & Hn4 & Hs4).
  split; [assumption|]. split; [congruence|]. split; [assumption|].
  apply (spl_final _ _ _ _ _ _ Hs4). intros b Hb. rewrite HR2. apply pre_high; [assumption|lia].
Qed.

Lemma x_int_len_last j pfx :
  0 < j -> 0 < xlen pfx ->
  j * (x_int_len j pfx - 1) < xlen pfx /\ xlen pfx <= j * (x_int_len j pfx - 1) + j.
Proof.
  intros Hj Hm. unfold x_int_len, v_int_len. fold (xlen pfx). generalize dependent (xlen pfx). intros m Hm.
  pose proof (proj1 (ceil_div_spec m j Hj ((m + j - 1) / j)) (N.le_refl _)) as H1.
  assert (~ (m + j - 1) / j <= (m + j - 1) / j - 1 \/ (m + j - 1) / j = 0) as H2 by lia.
  destruct H2 as [H2|H2].
  - rewrite (ceil_div_spec m j Hj) in H2.
    set (q := (m + j - 1) / j) in *. clearbody q. split; [lia|].
    assert (0 < q) by (destruct q; [rewrite N.mul_0_r in H1; lia|lia]).
    replace (j * (q - 1) + j) with (j * q); [assumption|]. replace q with (q - 1 + 1) at 1 by lia. lia.
  - rewrite H2, N.mul_0_r in H1. lia.
Qed.

Lemma f_prepend_spec w v pfx :
  std_width w -> canon_wv w v -> Good pfx -> wl v + xlen pfx <= w * lenw (wd v) -> wl v + xlen pfx < 2 ^ 62 ->
  exists r, f_prepend w v pfx = Ok r /\ canon_wv w r /\ lenw (wd r) = lenw (wd v) /\
            wl r = wl v + xlen pfx /\ raw w (wd r) = val pfx + 2 ^ xlen pfx * raw w (wd v).
Proof.
  intros Hw Hc Hg Hcap H62. rewrite f_prepend_unfold. pose proof (val_lt pfx (proj1 Hg)) as HP.
  assert (std_width 8) as Hs8 by (unfold std_width; cbn [In]; auto).
  destruct (N.eqb_spec (xlen pfx) 0) as [Hm|Hm].
  - exists v. rewrite Hm in *. split; [reflexivity|]. split; [assumption|]. split; [reflexivity|].
    split; [lia|]. rewrite N.pow_0_r in *. lia.
  - unfold f_resize.
    destruct (resize_grow true w v (xlen pfx) (std_width_pos w Hw) ltac:(discriminate) Hc (fun _ => Hcap))
      as (v1 & E & Hc1 & Hl1 & Hn1 & Hr1).
    rewrite E. cbn [bind].
    destruct (shl_assign_spec w v1 (xlen pfx) (std_width_pos w Hw) Hc1) as (v2 & E2 & Hc2 & Hl2 & Hn2 & Hb2).
    rewrite E2. cbn [bind]. rewrite shift_amount_id in Hb2 by lia.
    pose proof (shl_raw w v1 v2 (wl v) (xlen pfx) (raw w (wd v)) Hc1 Hl1 Hr1 (proj2 (proj2 Hc)) Hb2) as HR2.
    destruct (x_int_len_last 8 pfx eq_refl ltac:(lia)) as [Hlo Hhi].
    destruct (fp_core_spec w v2 (wl v) (xlen pfx) (raw w (wd v)) (val pfx) (x_int_len 8 pfx - 1) (x_get_int 8 pfx))
      as (r & Er & Hcr & Hlr & Hnr & Hrr); try assumption.
    + apply std_widths_ok; assumption.
    + congruence.
    + intros i Hi. apply x_get_int_some; assumption.
    + exists r. split; [assumption|]. split; [assumption|]. split; [rewrite Hnr, Hn2; apply Hn1; reflexivity|].
      split; assumption.
Qed.

Lemma f_prepend_overflow w v pfx :
  0 < xlen pfx -> w * lenw (wd v) < wl v + xlen pfx -> f_prepend w v pfx = Panic.
Proof.
  intros H1 H2. rewrite f_prepend_unfold.
  assert (xlen pfx =? 0 = false) as -> by (apply N.eqb_neq; lia).
  unfold f_resize. rewrite f_resize_overflow_panics by lia. reflexivity.
Qed.

(* ------------------------------------------------------------------ Bvd::prepend *)

Definition dp_core (v2 : wv) (last : N) (gi : N -> option N) : outcome wv :=
  let! d3 := fold_left (fun acc i => let! d := acc in
                                     let! b := unwrap (gi i) in
                                     seto d i b)
                       (nrange last) (Ok (wd v2)) in
  let! b := unwrap (gi last) in
  Ok (mkwv (upd_at d3 last (fun a => N.lor a b)) (wl v2)).

Lemma d_prepend_unfold v pfx :
  d_prepend v pfx =
  if xlen pfx =? 0 then Ok v
  else let! v1 := d_resize v (wl v + xlen pfx) 0 in
       let! v2 := v_shl_assign W64 v1 (xlen pfx) in
       dp_core v2 (x_int_len W64 pfx - 1) (x_get_int W64 pfx).
Proof. reflexivity. Qed.

Lemma dp_core_spec v2 n m Rv P last gi :
  canon_wv 64 v2 -> wl v2 = n + m -> raw 64 (wd v2) = Rv * 2 ^ m -> Rv < 2 ^ n -> P < 2 ^ m ->
  (forall i, i * 64 < m -> gi i = Some ((P / 2 ^ (64 * i)) mod 2 ^ 64)) ->
  64 * last < m -> m <= 64 * last + 64 ->
  exists r, dp_core v2 last gi = Ok r /\ canon_wv 64 r /\ wl r = n + m /\ raw 64 (wd r) = P + 2 ^ m * Rv.
Proof.
  intros Hc Hl HR2 HRv HP Hgi Hlo Hhi. unfold dp_core.
  pose proof Hc as (Hd2 & Hcap & _). rewrite Hl in Hcap.
  set (T := P + 2 ^ m * Rv). set (g := fun i => (P / 2 ^ (64 * i)) mod 2 ^ 64).
  rewrite (fold_left_ext_in _ (fun acc i => let! d := acc in seto d i (g i))).
  2:{ intros acc i Hi. apply In_nrange in Hi. rewrite Hgi by lia. destruct acc; reflexivity. }
  destruct (dst_fold (wd v2) T 0 0 (fun i => i) g last) with (d := wd v2) as (d3 & E & H3).
  - lia.
  - lia.
  - intros; lia.
  - intros i _. apply N.mod_lt, pow2_ne0.
  - intros i t Hi Ht. rewrite N.add_0_l. apply pre_low_bit; [assumption|assumption|lia].
  - rewrite N.mul_0_r. apply dst_init. assumption.
  - cbv beta in E. rewrite E. cbn [bind]. rewrite Hgi by lia. cbn [unwrap bind].
    eexists. split; [reflexivity|]. cbn [wd wl].
    rewrite N.add_0_l in H3. pose proof H3 as (Hd3 & Hn3 & Hs3).
    unfold upd_at. assert (last <? lenw d3 = true) as -> by (apply N.ltb_lt; lia).
    assert (dst (wd v2) T 0 (64 * last + 64) (setw d3 last (N.lor (getw d3 last) ((P / 2 ^ (64 * last)) mod 2 ^ 64)))) as H4.
    { rewrite (getw_raw 64 eq_refl d3 last Hd3).
      apply dst_step; try assumption; [lia| |].
      - apply Shift.lor_lt; apply N.mod_lt, pow2_ne0.
      - intros t Ht. apply pre_last_bit; [assumption|assumption|].
        intros b Hb. rewrite (Hs3 b), HR2.
        assert (b <? 64 * last = false) as -> by (apply N.ltb_ge; assumption).
        rewrite andb_false_r. reflexivity. }
    destruct H4 as (Hd4 & Hn4 & Hs4).
    assert (raw 64 (setw d3 last (N.lor (getw d3 last) ((P / 2 ^ (64 * last)) mod 2 ^ 64))) = T) as HT.
    { apply (spl_final _ _ _ _ _ _ Hs4). intros b Hb. rewrite HR2. apply pre_high; [assumption|lia]. }
    split; [|split; assumption].
    split; [assumption|]. cbn [wd wl]. split; [lia|].
    rewrite HT, Hl. unfold T. rewrite (N.add_comm n m). apply concat_lt; assumption.
Qed.

Lemma d_prepend_spec v pfx :
  canon_wv 64 v -> Good pfx -> wl v + xlen pfx < 2 ^ 62 ->
  exists r, d_prepend v pfx = Ok r /\ canon_wv 64 r /\
            wl r = wl v + xlen pfx /\ raw 64 (wd r) = val pfx + 2 ^ xlen pfx * raw 64 (wd v).
Proof.
  intros Hc Hg H62. rewrite d_prepend_unfold. pose proof (val_lt pfx (proj1 Hg)) as HP.
  destruct (N.eqb_spec (xlen pfx) 0) as [Hm|Hm].
  - exists v. rewrite Hm in *. split; [reflexivity|]. split; [assumption|].
    split; [lia|]. rewrite N.pow_0_r in *. lia.
  - unfold d_resize, W64.
    destruct (resize_grow false 64 v (xlen pfx) eq_refl ltac:(reflexivity) Hc ltac:(discriminate))
      as (v1 & E & Hc1 & Hl1 & _ & Hr1).
    rewrite E. cbn [bind].
    destruct (shl_assign_spec 64 v1 (xlen pfx) eq_refl Hc1) as (v2 & E2 & Hc2 & Hl2 & Hn2 & Hb2).
    rewrite E2. cbn [bind]. rewrite shift_amount_id in Hb2 by lia.
    pose proof (shl_raw 64 v1 v2 (wl v) (xlen pfx) (raw 64 (wd v)) Hc1 Hl1 Hr1 (proj2 (proj2 Hc)) Hb2) as HR2.
    destruct (x_int_len_last 64 pfx eq_refl ltac:(lia)) as [Hlo Hhi].
    apply (dp_core_spec v2 (wl v) (xlen pfx) (raw 64 (wd v)) (val pfx)); try assumption.
    + congruence.
    + apply Hc.
    + intros i Hi. apply x_get_int_some; [assumption|apply std_width_64|assumption].
Qed.

(* ------------------------------------------------------------------ value level: prepend *)

Lemma abs_concat_eq' lo hi x :
  Canon lo -> Canon hi -> Canon x -> xlen x = xlen hi + xlen lo -> val x = val lo + 2 ^ xlen lo * val hi ->
  abs x = s_concat (abs lo) (abs hi).
Proof. intros H1 H2 H3 Hl Hv. apply abs_concat_eq; try assumption. lia. Qed.

Theorem x_prepend_spec a pfx : Good a -> Good pfx -> xlen a + xlen pfx < 2 ^ 62 ->
  (fits (kind_of a) (xlen a + xlen pfx) = false -> x_prepend a pfx = Panic) /\
  (fits (kind_of a) (xlen a + xlen pfx) = true ->
   exists r, x_prepend a pfx = Ok r /\ Good r /\ kind_of r = kind_of a /\ abs r = s_prepend (abs a) (abs pfx)).
Proof.
  intros Ha Hs H62. pose proof Ha as [Hca Hwa]. pose proof Hs as [Hcs Hws]. unfold s_prepend.
  destruct a as [w v|v|[|] v]; cbn [kind_of x_prepend].
  - (* Bvf *)
    change (xlen (XF w v)) with (wl v) in *.
    destruct (std_width_XF w v Ha) as (Hw & Hc & H0 & H8).
    unfold fits. cbn [kind_fixed kind_cap negb orb]. split; intros Hf.
    + apply N.leb_gt in Hf. rewrite f_prepend_overflow; [reflexivity| |exact Hf].
      destruct Hc as (_ & Hcap & _). lia.
    + apply N.leb_le in Hf.
      destruct (f_prepend_spec w v pfx Hw Hc Hs Hf H62) as (r & -> & Hcr & Hnr & Hlr & Hrr). cbn [bind].
      assert (Canon (XF w r)) as HC by (apply Canon_XF; assumption).
      eexists. split; [reflexivity|]. split; [split; [exact HC|exact Hw]|].
      split; [cbn [kind_of]; rewrite Hnr; reflexivity|].
      apply abs_concat_eq'; try assumption.
  - (* Bvd *)
    change (xlen (XD v)) with (wl v) in *.
    split; [intros Hf; discriminate Hf|intros _].
    destruct (d_prepend_spec v pfx (Canon_wv _ Hca) Hs H62) as (r & -> & Hcr & Hlr & Hrr). cbn [bind].
    assert (Canon (XD r)) as HC by (apply Canon_XD; assumption).
    eexists. split; [reflexivity|]. split; [apply Good_of_Canon_D; exact HC|].
    split; [reflexivity|]. apply abs_concat_eq'; try assumption.
  - (* Bv, inline *)
    change (xlen (XA true v)) with (wl v) in *.
    split; [intros Hf; discriminate Hf|intros _].
    pose proof (Canon_wv _ Hca) as Hc. cbn [xw xv] in Hc. destruct Hca as [_ Hn2].
    unfold BVP_CAP, BVP_W. destruct (N.leb_spec (wl v + xlen pfx) 128) as [Hle|Hgt].
    + destruct (f_prepend_spec 64 v pfx std_width_64 Hc Hs) as (r & -> & Hcr & Hnr & Hlr & Hrr).
      { rewrite Hn2. lia. }
      { assumption. }
      cbn [bind].
      assert (Canon (XA true r)) as HC by (apply Canon_XA_fixed; [assumption|congruence]).
      eexists. split; [reflexivity|]. split; [apply Good_of_Canon_A; exact HC|].
      split; [reflexivity|]. apply abs_concat_eq'; try assumption. apply Ha.
    + destruct (d_from_f64 v Hc) as (d & -> & Hcd & Hld & Hrd). cbn [bind].
      destruct (d_prepend_spec d pfx Hcd Hs) as (r & -> & Hcr & Hlr & Hrr); [rewrite Hld; assumption|].
      cbn [bind].
      assert (Canon (XA false r)) as HC by (apply Canon_XA_dyn; assumption).
      eexists. split; [reflexivity|]. split; [apply Good_of_Canon_A; exact HC|].
      split; [reflexivity|]. apply abs_concat_eq'; try assumption; [apply Ha| |].
      * unfold xlen in *. cbn [xv]. congruence.
      * unfold val, xlen, xdata. cbn [xv xw]. rewrite Hrr, Hrd. reflexivity.
  - (* Bv, heap *)
    change (xlen (XA false v)) with (wl v) in *.
    split; [intros Hf; discriminate Hf|intros _].
    destruct (d_prepend_spec v pfx (Canon_wv _ Hca) Hs H62) as (r & -> & Hcr & Hlr & Hrr). cbn [bind].
    assert (Canon (XA false r)) as HC by (apply Canon_XA_dyn; assumption).
    eexists. split; [reflexivity|]. split; [apply Good_of_Canon_A; exact HC|].
    split; [reflexivity|]. apply abs_concat_eq'; try assumption.
Qed.
