(* Proofs/XEdit.v *)
From BVA Require Import Base.Prelude Base.Result Base.Words Base.Limbs.
From BVA Require Import Model.Core Model.Ops Model.Arith Model.Conv Model.Auto Model.Run Spec.Spec Spec.Prop.
From BVA Require Import Proofs.Common Proofs.Rechunk Proofs.Lift.
From Coq Require Import ZifyBool ZifyN ZifyNat.
From BVA Require Import Proofs.Edit Proofs.Slice Proofs.Shift Proofs.Rot.

(* Value-level (bvx) theorems for the editing operations of Model/Auto.v: constructors, get/set,
   push/pop/resize, reserve/shrink, copy_range/split_off, shifts, rotations, Extend/FromIterator. *)

Definition kind_ok (k : kind) : Prop := match k with KF w n => std_width w /\ 0 <= n | _ => True end.

(* ------------------------------------------------------------------ infrastructure *)

Lemma Good_pos a : Good a -> 0 < xw a.
Proof. intros [_ H]. apply std_width_pos. assumption. Qed.

Lemma Good_wv a : Good a -> canon_wv (xw a) (xv a).
Proof. intros [H _]. apply Canon_wv. assumption. Qed.

Lemma xw_with a v : xw (x_with a v) = xw a.
Proof. destruct a; reflexivity. Qed.
Lemma xv_with a v : xv (x_with a v) = v.
Proof. destruct a; reflexivity. Qed.
Lemma xlen_with a v : xlen (x_with a v) = wl v.
Proof. destruct a; reflexivity. Qed.
Lemma x_with_id a : x_with a (xv a) = a.
Proof. destruct a; reflexivity. Qed.
Lemma blen_abs a : blen (abs a) = xlen a.
Proof. reflexivity. Qed.

Lemma abs_of r n x : Canon r -> xlen r = n -> val r = x -> abs r = mkbv n x.
Proof. intros H <- <-. apply abs_Canon. assumption. Qed.

Lemma abs_Good a : Good a -> abs a = mkbv (xlen a) (val a).
Proof. intros [H _]. apply abs_Canon. assumption. Qed.

Lemma Good_val_lt a : Good a -> val a < 2 ^ xlen a.
Proof. intros [H _]. apply val_lt. assumption. Qed.

(* capacity in terms of the storage *)
Lemma cap_eq a : Canon a -> x_capacity a = xw a * lenw (xdata a).
Proof.
  intros [_ Hx]. destruct a as [w v|v|[|] v]; cbn [x_capacity xw xdata xv]; unfold capw, xdata; cbn [xv]; try reflexivity.
  rewrite Hx. reflexivity.
Qed.

(* rebuilding a value of the same type around new canonical storage *)
Lemma Good_with a v (s : bv) :
  Good a -> canon_wv (xw a) v -> (lenw (wd v) = lenw (xdata a) \/ is_fixed a = false) ->
  mkbv (wl v) (raw (xw a) (wd v)) = s ->
  Good (x_with a v) /\ kind_of (x_with a v) = kind_of a /\ abs (x_with a v) = s.
Proof.
  intros [[Hc Hx] Hs] Hv Hl <-.
  assert (Canon (x_with a v)) as HC.
  { destruct a as [w u|u|[|] u]; cbn [x_with xw xv is_fixed xdata] in *; (split; [exact Hv|]); try exact Hx; try exact I.
    destruct Hl as [Hl|Hl]; [|discriminate]. rewrite Hl. exact Hx. }
  split; [split; [exact HC|rewrite xw_with; exact Hs]|]. split.
  - destruct a as [w u|u|[|] u]; cbn [x_with kind_of is_fixed xdata xv] in *; try reflexivity.
    destruct Hl as [Hl|Hl]; [|discriminate]. rewrite Hl. reflexivity.
  - apply abs_of; [exact HC|apply xlen_with|]. unfold val, xdata. rewrite xw_with, xv_with. reflexivity.
Qed.

(* values of the three types from canonical storage *)
Lemma make_F w n v s : std_width w -> canon_wv w v -> lenw (wd v) = n -> mkbv (wl v) (raw w (wd v)) = s ->
  Good (XF w v) /\ kind_matches (KF w n) (XF w v) = true /\ abs (XF w v) = s.
Proof.
  intros Hs Hv Hn <-.
  assert (Canon (XF w v)) as HC by (apply Canon_XF; [assumption|apply std_width_pos; assumption|apply std_width_mod8; assumption]).
  split; [split; assumption|]. split.
  - cbn [kind_matches]. rewrite Hn, !N.eqb_refl. reflexivity.
  - apply abs_of; [assumption|reflexivity|reflexivity].
Qed.

Lemma make_D v s : canon_wv 64 v -> mkbv (wl v) (raw 64 (wd v)) = s ->
  Good (XD v) /\ kind_matches KD (XD v) = true /\ abs (XD v) = s.
Proof.
  intros Hv <-. assert (Canon (XD v)) as HC by (apply Canon_XD; assumption).
  split; [apply Good_of_Canon_D; assumption|]. split; [reflexivity|].
  apply abs_of; [assumption|reflexivity|reflexivity].
Qed.

Lemma make_A fx v s : canon_wv 64 v -> (fx = true -> lenw (wd v) = 2) -> mkbv (wl v) (raw 64 (wd v)) = s ->
  Good (XA fx v) /\ kind_matches KA (XA fx v) = true /\ abs (XA fx v) = s.
Proof.
  intros Hv Hl <-.
  assert (Canon (XA fx v)) as HC.
  { destruct fx; [apply Canon_XA_fixed; [assumption|apply Hl; reflexivity]|apply Canon_XA_dyn; assumption]. }
  split; [apply Good_of_Canon_A; assumption|]. split; [reflexivity|].
  apply abs_of; [assumption|reflexivity|reflexivity].
Qed.

(* ------------------------------------------------------------------ constructors *)

Theorem k_zeros_spec k len : kind_ok k ->
  (fits k len = false -> k_zeros k len = Panic) /\
  (fits k len = true -> exists r, k_zeros k len = Ok r /\ Good r /\ kind_matches k r = true /\ abs r = s_zeros len).
Proof.
  intros Hk. destruct k as [w n| |]; unfold fits; cbn [kind_fixed kind_cap negb orb k_zeros].
  - destruct Hk as [Hs _]. split; intros H.
    + apply N.leb_gt in H. rewrite f_zeros_panics by assumption. reflexivity.
    + apply N.leb_le in H. destruct (f_zeros_spec w n len H) as (v & -> & Hc & Hl & Hn & Hr). cbn [bind].
      eexists. split; [reflexivity|]. apply make_F; try assumption. rewrite Hl, Hr. reflexivity.
  - split; [discriminate|]. intros _. destruct (d_zeros_spec len) as (Hc & Hl & Hr & _).
    eexists. split; [reflexivity|]. apply make_D; [assumption|]. rewrite Hl, Hr. reflexivity.
  - split; [discriminate|]. intros _. unfold BVP_CAP, BVP_W, BVP_N. destruct (N.leb_spec len 128) as [H|H].
    + destruct (f_zeros_spec 64 2 len) as (v & -> & Hc & Hl & Hn & Hr); [lia|]. cbn [bind].
      eexists. split; [reflexivity|]. apply make_A; [assumption|intros _; assumption|]. rewrite Hl, Hr. reflexivity.
    + destruct (d_zeros_spec len) as (Hc & Hl & Hr & _).
      eexists. split; [reflexivity|]. apply make_A; [assumption|discriminate|]. rewrite Hl, Hr. reflexivity.
Qed.

Theorem k_ones_spec k len : kind_ok k ->
  (fits k len = false -> k_ones k len = Panic) /\
  (fits k len = true -> exists r, k_ones k len = Ok r /\ Good r /\ kind_matches k r = true /\ abs r = s_ones len).
Proof.
  intros Hk. destruct k as [w n| |]; unfold fits; cbn [kind_fixed kind_cap negb orb k_ones].
  - destruct Hk as [Hs _]. split; intros H.
    + apply N.leb_gt in H. rewrite f_ones_panics by assumption. reflexivity.
    + apply N.leb_le in H.
      destruct (f_ones_spec w n len (std_width_pos w Hs) H) as (v & -> & Hc & Hl & Hn & Hr). cbn [bind].
      eexists. split; [reflexivity|]. apply make_F; try assumption. rewrite Hl, Hr. reflexivity.
  - split; [discriminate|]. intros _. destruct (d_ones_spec len) as (Hc & Hl & Hr & _).
    eexists. split; [reflexivity|]. apply make_D; [assumption|]. rewrite Hl, Hr. reflexivity.
  - split; [discriminate|]. intros _. unfold BVP_CAP, BVP_W, BVP_N. destruct (N.leb_spec len 128) as [H|H].
    + destruct (f_ones_spec 64 2 len) as (v & -> & Hc & Hl & Hn & Hr); [lia|lia|]. cbn [bind].
      eexists. split; [reflexivity|]. apply make_A; [assumption|intros _; assumption|]. rewrite Hl, Hr. reflexivity.
    + destruct (d_ones_spec len) as (Hc & Hl & Hr & _).
      eexists. split; [reflexivity|]. apply make_A; [assumption|discriminate|]. rewrite Hl, Hr. reflexivity.
Qed.

Lemma d_with_capacity_spec c :
  canon_wv 64 (d_with_capacity c) /\ wl (d_with_capacity c) = 0 /\ raw 64 (wd (d_with_capacity c)) = 0 /\
  c <= 64 * lenw (wd (d_with_capacity c)).
Proof.
  unfold d_with_capacity. cbn [wd wl]. rewrite raw_zerosw, lenw_zerosw.
  split; [apply canon_zeros; lia|]. split; [reflexivity|]. split; [reflexivity|apply cfbl_d_ge].
Qed.

Theorem k_with_capacity_spec k c : kind_ok k ->
  exists r, k_with_capacity k c = Ok r /\ Good r /\ kind_matches k r = true /\ abs r = s_zeros 0 /\
            (kind_fixed k = false -> c <= x_capacity r).
Proof.
  intros Hk. destruct k as [w n| |]; cbn [kind_fixed k_with_capacity]; unfold f_with_capacity.
  - destruct Hk as [Hs _].
    destruct (f_zeros_spec w n 0) as (v & -> & Hc & Hl & Hn & Hr); [lia|]. cbn [bind].
    eexists. split; [reflexivity|]. rewrite <- !and_assoc. split; [|discriminate]. rewrite !and_assoc.
    apply make_F; try assumption. rewrite Hl, Hr. reflexivity.
  - destruct (d_with_capacity_spec c) as (Hc & Hl & Hr & Hcap).
    eexists. split; [reflexivity|]. rewrite <- !and_assoc. split; [|intros _; exact Hcap]. rewrite !and_assoc.
    apply make_D; [assumption|]. rewrite Hl, Hr. reflexivity.
  - unfold BVP_CAP, BVP_W, BVP_N. destruct (N.leb_spec c 128) as [H|H].
    + destruct (f_zeros_spec 64 2 0) as (v & -> & Hc & Hl & Hn & Hr); [lia|]. cbn [bind].
      eexists. split; [reflexivity|]. rewrite <- !and_assoc. split; [|intros _; exact H]. rewrite !and_assoc.
      apply make_A; [assumption|intros _; assumption|]. rewrite Hl, Hr. reflexivity.
    + destruct (d_with_capacity_spec c) as (Hc & Hl & Hr & Hcap).
      eexists. split; [reflexivity|]. rewrite <- !and_assoc. split; [|intros _; exact Hcap]. rewrite !and_assoc.
      apply make_A; [assumption|discriminate|]. rewrite Hl, Hr. reflexivity.
Qed.

(* ------------------------------------------------------------------ get / set *)

Theorem x_get_spec P a i : Good a -> i < xlen a -> x_get P a i = Ok (N.b2n (N.testbit (val a) i)).
Proof.
  intros Ha Hi. unfold x_get. apply v_get_spec; [apply Good_pos|apply Good_wv|]; assumption.
Qed.

Theorem x_get_debug_oob a i : xlen a <= i -> x_get Debug a i = Panic.
Proof. intros H. apply v_get_debug_oob. assumption. Qed.

Lemma pow2_testbit i j : N.testbit (pow2 i) j = (i =? j).
Proof. rewrite pow2_eq. apply N.pow2_bits_eqb. Qed.

Lemma set_val r r' i b :
  b <= 1 -> (forall j, N.testbit r' j = if j =? i then (b =? 1) else N.testbit r j) ->
  r' = if b =? 0 then N.ldiff r (pow2 i) else N.lor r (pow2 i).
Proof.
  intros Hb H. apply N.bits_inj. intro j. rewrite H.
  destruct (N.eqb_spec b 0) as [->|Hb0].
  - rewrite N.ldiff_spec, pow2_testbit. rewrite (N.eqb_sym i j).
    destruct (j =? i); cbn [negb]; [rewrite andb_false_r|rewrite andb_true_r]; reflexivity.
  - assert (b = 1) as -> by lia. rewrite N.lor_spec, pow2_testbit, (N.eqb_sym i j).
    destruct (j =? i); [rewrite orb_true_r|rewrite orb_false_r]; reflexivity.
Qed.

Theorem x_set_spec P a i b : Good a -> i < xlen a -> b <= 1 ->
  exists r, x_set P a i b = Ok r /\ Good r /\ kind_of r = kind_of a /\ abs r = s_set (abs a) i b.
Proof.
  intros Ha Hi Hb. unfold x_set.
  destruct (v_set_spec P (xw a) (xv a) i b (Good_pos a Ha) (Good_wv a Ha) Hi Hb) as (v' & -> & Hc & Hl & Hn & Hbits).
  cbn [bind]. eexists. split; [reflexivity|].
  apply Good_with; [assumption|assumption|left; exact Hn|].
  rewrite (abs_Good a Ha). unfold s_set. cbn [blen bval]. rewrite Hl. f_equal.
  apply set_val; assumption.
Qed.

Theorem x_set_debug_oob a i b : xlen a <= i -> x_set Debug a i b = Panic.
Proof. intros H. unfold x_set. rewrite v_set_debug_oob by assumption. reflexivity. Qed.

(* ------------------------------------------------------------------ promotion / demotion of Bv *)

(* a list whose words are the w-bit digits of R (and R fits) has raw value R *)
Lemma raw_of_digits w d R :
  0 < w -> (forall i, i < lenw d -> getw d i = (R / 2 ^ (w * i)) mod 2 ^ w) -> R < 2 ^ (w * lenw d) ->
  words_ok w d /\ raw w d = R.
Proof.
  intros Hw Hg HR.
  assert (words_ok w d) as Hd.
  { apply words_ok_getw. intros i Hi. rewrite Hg by assumption. apply N.mod_lt, pow2_ne0. }
  split; [assumption|]. apply N.bits_inj. intro b. rewrite (raw_testbit w Hw) by assumption.
  pose proof (div_mod_eq b w) as Eb. pose proof (mod_lt' b w Hw) as Hm.
  destruct (N.lt_ge_cases (b / w) (lenw d)) as [Hlt|Hge].
  - rewrite Hg by assumption. rewrite mod_pow2_testbit, div_pow2_testbit.
    apply N.ltb_lt in Hm. rewrite Hm. cbn [andb]. f_equal. lia.
  - rewrite getw_high by assumption. rewrite N.bits_0. symmetry.
    apply (testbit_high R (w * lenw d)); [assumption|].
    assert (w * lenw d <= w * (b / w)) by (apply N.mul_le_mono_l; assumption). lia.
Qed.

Lemma widths_64 : widths_ok 64 64.
Proof. apply std_widths_ok; apply std_width_64. Qed.

(* From<&Bvf<u64,N>> for Bvd: copies the used words *)
Lemma d_from_f_spec v : canon_wv 64 v ->
  exists d, d_from_f 64 v = Ok d /\ canon_wv 64 d /\ wl d = wl v /\ raw 64 (wd d) = raw 64 (wd v).
Proof.
  intros Hc. pose proof Hc as (Hd & Hl & Hr). unfold d_from_f, W64.
  set (g := fun i => (raw 64 (wd v) / 2 ^ (64 * i)) mod 2 ^ 64).
  rewrite (omap_list_ok _ g).
  2:{ intros i Hi. apply In_nrange in Hi. rewrite (v_get_int_spec 64 64 v i widths_64 Hc).
      assert (i * 64 <? wl v = true) as ->; [|reflexivity].
      apply N.ltb_lt. unfold v_int_len in Hi.
      destruct (N.lt_ge_cases (i * 64) (wl v)) as [|Hge]; [assumption|exfalso].
      assert ((wl v + 64 - 1) / 64 <= i) by (apply (ceil_div_spec (wl v) 64); lia). lia. }
  cbn [bind]. eexists. split; [reflexivity|]. cbn [wd wl].
  set (k := v_int_len 64 v).
  assert (wl v <= 64 * k) as Hk by (unfold k, v_int_len; apply (ceil_div_spec (wl v) 64); lia).
  destruct (raw_of_digits 64 (map g (nrange k)) (raw 64 (wd v))) as [Hd' Hr']; [lia| | |].
  - intros i Hi. rewrite lenw_map_nrange in Hi. rewrite getw_map_nrange.
    apply N.ltb_lt in Hi. rewrite Hi. reflexivity.
  - rewrite lenw_map_nrange. eapply N.lt_le_trans; [exact Hr|]. apply pow2_le. assumption.
  - split; [|split; [reflexivity|assumption]].
    split; [assumption|]. cbn [wd wl]. rewrite lenw_map_nrange, Hr'. split; assumption.
Qed.

(* TryFrom<&Bvd> for Bvf<u64,2> when the length fits *)
Lemma f_from_d_spec v : canon_wv 64 v -> wl v <= 128 ->
  exists r, f_from_d 64 2 v = Ok r /\ canon_wv 64 r /\ wl r = wl v /\ lenw (wd r) = 2 /\ raw 64 (wd r) = raw 64 (wd v).
Proof.
  intros Hc Hle. pose proof Hc as (Hd & Hl & Hr). unfold f_from_d.
  assert (64 * 2 <? wl v = false) as -> by (apply N.ltb_ge; lia).
  eexists. split; [reflexivity|]. cbn [wd wl].
  set (d := mapi _ _).
  assert (lenw d = 2) as Hl2 by (unfold d; rewrite lenw_mapi; apply lenw_zerosw).
  destruct (raw_of_digits 64 d (raw 64 (wd v))) as [Hd' Hr']; [lia| | |].
  - intros i Hi. unfold d. rewrite getw_mapi by (rewrite lenw_zerosw; lia).
    apply (v_get_int_digits 64 64 v widths_64 Hc).
  - rewrite Hl2. eapply N.lt_le_trans; [exact Hr|]. apply pow2_le. lia.
  - split; [|split; [reflexivity|split; assumption]].
    split; [assumption|]. cbn [wd wl]. rewrite Hl2, Hr'. split; [lia|assumption].
Qed.

(* ------------------------------------------------------------------ reserve *)

Lemma x_reserve_gen a k : Good a ->
  exists r, x_reserve a k = Ok r /\ Good r /\ kind_of r = kind_of a /\ abs r = abs a /\
            (kind_fixed (kind_of a) = false -> xlen a + k <= x_capacity r).
Proof.
  intros Ha. pose proof (Good_wv a Ha) as Hc. pose proof (abs_Good a Ha) as Eabs.
  destruct a as [w v|v|[|] v]; cbn [x_reserve xw xv kind_of kind_fixed] in *.
  - exists (XF w v). split; [reflexivity|]. split; [assumption|]. split; [reflexivity|]. split; [reflexivity|discriminate].
  - destruct (d_reserve_spec v k Hc) as (Hc' & Hl' & Hr' & Hcap & _).
    eexists. split; [reflexivity|].
    destruct (make_D (d_reserve v k) (abs (XD v)) Hc') as (HG & _ & Habs); [rewrite Hl', Hr', Eabs; reflexivity|].
    split; [assumption|]. split; [reflexivity|]. split; [assumption|]. intros _. exact Hcap.
  - unfold BVP_CAP, BVP_W. destruct (N.ltb_spec 128 (wl v + k)) as [Hlt|Hge].
    + destruct (d_from_f_spec v Hc) as (d & -> & Hcd & Hld & Hrd). cbn [bind].
      destruct (d_reserve_spec d k Hcd) as (Hc' & Hl' & Hr' & Hcap & _).
      eexists. split; [reflexivity|].
      destruct (make_A false (d_reserve d k) (abs (XA true v)) Hc') as (HG & _ & Habs);
        [discriminate|rewrite Hl', Hr', Hld, Hrd, Eabs; reflexivity|].
      split; [assumption|]. split; [reflexivity|]. split; [assumption|]. intros _.
      cbn [x_capacity xw xdata xv]. unfold capw, xdata, xlen. cbn [xv]. rewrite <- Hld. exact Hcap.
    + exists (XA true v). split; [reflexivity|]. split; [assumption|]. split; [reflexivity|]. split; [reflexivity|].
      intros _. exact Hge.
  - destruct (d_reserve_spec v k Hc) as (Hc' & Hl' & Hr' & Hcap & _).
    eexists. split; [reflexivity|].
    destruct (make_A false (d_reserve v k) (abs (XA false v)) Hc') as (HG & _ & Habs);
      [discriminate|rewrite Hl', Hr', Eabs; reflexivity|].
    split; [assumption|]. split; [reflexivity|]. split; [assumption|]. intros _. exact Hcap.
Qed.

Theorem x_reserve_spec a k : Good a -> is_fixed a = false \/ (exists fx v, a = XA fx v) ->
  exists r, x_reserve a k = Ok r /\ Good r /\ kind_of r = kind_of a /\ abs r = abs a /\
            (kind_fixed (kind_of a) = false -> xlen a + k <= x_capacity r).
Proof. intros Ha _. apply x_reserve_gen. assumption. Qed.

Lemma xlen_of_abs r a : abs r = abs a -> xlen r = xlen a.
Proof. intros H. rewrite <- !blen_abs, H. reflexivity. Qed.

(* ------------------------------------------------------------------ push / pop *)

Lemma fits_fixed a n : is_fixed a = true -> Canon a -> n <= x_capacity a -> fits (kind_of a) n = true.
Proof.
  intros Hf Hc Hn. rewrite (cap_eq a Hc) in Hn. unfold fits.
  destruct a as [w v|v|[|] v]; cbn [kind_of kind_fixed kind_cap negb orb xw xdata xv] in *; try reflexivity.
  apply N.leb_le. exact Hn.
Qed.

Lemma fits_false_inv a n : fits (kind_of a) n = false -> is_fixed a = true /\ xw a * lenw (xdata a) < n.
Proof.
  unfold fits. destruct a as [w v|v|fx v]; cbn [kind_of kind_fixed kind_cap negb orb]; try discriminate.
  intros H. apply N.leb_gt in H. split; [reflexivity|exact H].
Qed.



Lemma push_val va b len : b <= 1 -> va + b * 2 ^ len = va + N.shiftl (if b =? 0 then 0 else 1) len.
Proof.
  intros Hb. rewrite N.shiftl_mul_pow2. destruct (N.eqb_spec b 0) as [->|]; [reflexivity|].
  assert (b = 1) as -> by lia. reflexivity.
Qed.

Lemma core_push_dyn P x b : Good x -> is_fixed x = false -> b <= 1 ->
  exists r, core_push P x b = Ok r /\ Good r /\ kind_of r = kind_of x /\ abs r = s_push (abs x) b.
Proof.
  intros Hx Hf Hb. unfold core_push. rewrite Hf.
  assert (xw x = 64) as Ew by (destruct x as [w v|v|[|] v]; try reflexivity; discriminate).
  pose proof (Good_wv x Hx) as Hc. rewrite Ew in Hc.
  destruct (d_push_spec P (xv x) b Hc Hb) as (v' & -> & Hc' & Hl' & Hr'). cbn [bind].
  eexists. split; [reflexivity|].
  apply Good_with; [assumption|rewrite Ew; assumption|right; assumption|].
  rewrite (abs_Good x Hx). unfold s_push, s_concat. cbn [blen bval]. rewrite Ew, Hl', Hr'.
  unfold val, xlen, xdata. rewrite Ew. f_equal. apply push_val. assumption.
Qed.

Lemma core_push_fix P x b : Good x -> is_fixed x = true -> b <= 1 -> xlen x < x_capacity x ->
  exists r, core_push P x b = Ok r /\ Good r /\ kind_of r = kind_of x /\ abs r = s_push (abs x) b.
Proof.
  intros Hx Hf Hb Hcap. unfold core_push. rewrite Hf. rewrite (cap_eq x (proj1 Hx)) in Hcap.
  destruct (f_push_spec P (xw x) (xv x) b (Good_pos x Hx) (Good_wv x Hx) Hb Hcap) as (v' & -> & Hc' & Hl' & Hn' & Hr').
  cbn [bind]. eexists. split; [reflexivity|].
  apply Good_with; [assumption|assumption|left; exact Hn'|].
  rewrite (abs_Good x Hx). unfold s_push, s_concat. cbn [blen bval]. rewrite Hl', Hr'.
  unfold val, xlen, xdata. f_equal. apply push_val. assumption.
Qed.

Lemma core_push_full P x b : is_fixed x = true -> xw x * lenw (xdata x) <= xlen x -> core_push P x b = Panic.
Proof.
  intros Hf H. unfold core_push. rewrite Hf. rewrite f_push_full_panics by exact H. reflexivity.
Qed.

Theorem x_push_spec P a b : Good a -> b <= 1 ->
  (fits (kind_of a) (xlen a + 1) = false -> x_push P a b = Panic) /\
  (fits (kind_of a) (xlen a + 1) = true ->
   exists r, x_push P a b = Ok r /\ Good r /\ kind_of r = kind_of a /\ abs r = s_push (abs a) b).
Proof.
  intros Ha Hb. split.
  - intros H. destruct a as [w v|v|fx v]; [|discriminate H|discriminate H].
    apply fits_false_inv in H. destruct H as [Hf H].
    cbn [x_push]. apply core_push_full; [assumption|lia].
  - intros H. destruct a as [w v|v|fx v]; cbn [x_push].
    + apply core_push_fix; [assumption|reflexivity|assumption|].
      unfold fits in H. cbn [kind_of kind_fixed kind_cap negb orb] in H. apply N.leb_le in H.
      cbn [x_capacity xw xdata xv]. unfold capw, xdata, xlen in *. cbn [xv] in *. lia.
    + apply core_push_dyn; [assumption|reflexivity|assumption].
    + destruct (x_reserve_gen (XA fx v) 1 Ha) as (x1 & -> & H1 & Hk1 & Habs1 & Hcap1). cbn [bind].
      specialize (Hcap1 eq_refl). pose proof (xlen_of_abs _ _ Habs1) as El.
      rewrite <- Hk1, <- Habs1.
      destruct (is_fixed x1) eqn:Hf1.
      * apply core_push_fix; [assumption|assumption|assumption|lia].
      * apply core_push_dyn; assumption.
Qed.

Theorem x_pop_spec P a : Good a ->
  exists r o, x_pop P a = Ok (r, o) /\ Good r /\ kind_of r = kind_of a /\
    (xlen a = 0 -> abs r = abs a /\ o = None) /\
    (0 < xlen a -> abs r = s_slice (abs a) 0 (xlen a - 1) /\ o = Some (N.b2n (N.testbit (val a) (xlen a - 1)))).
Proof.
  intros Ha. unfold x_pop.
  destruct (v_pop_spec P (xw a) (xv a) (Good_pos a Ha) (Good_wv a Ha)) as (v' & o & -> & Hc' & Hn' & H0 & H1).
  cbn [bind]. eexists _, _. split; [reflexivity|].
  destruct (Good_with a v' _ Ha Hc' (or_introl Hn') eq_refl) as (HG & HK & Habs).
  split; [assumption|]. split; [assumption|]. split.
  - intros Hz. destruct (H0 Hz) as [-> ->]. rewrite x_with_id. split; reflexivity.
  - intros Hp. destruct (H1 Hp) as (Hl' & Hr' & ->). split; [|reflexivity].
    rewrite Habs, (abs_Good a Ha). unfold s_slice. cbn [blen bval].
    rewrite N.sub_0_r, N.shiftr_0_r, trunc_mod, Hl', Hr'. reflexivity.
Qed.

(* ------------------------------------------------------------------ resize / truncate / sign_extend *)

Lemma resize_val len n b va :
  mkbv n (if n <? len then va mod 2 ^ n else va + (if b =? 0 then 0 else 2 ^ n - 2 ^ len)) = s_resize (mkbv len va) n b.
Proof.
  unfold s_resize, s_slice, s_concat, s_fill. cbn [blen bval].
  destruct (N.ltb_spec n len) as [H|H].
  - rewrite N.sub_0_r, N.shiftr_0_r, trunc_mod. reflexivity.
  - destruct (N.eqb_spec b 0) as [_|_]; unfold s_zeros, s_ones; cbn [blen bval].
    + rewrite N.shiftl_0_l. f_equal; lia.
    + rewrite N.shiftl_mul_pow2, ones_eq, (pow2_split len n H).
      pose proof (pow2_pos (n - len)). pose proof (pow2_pos len). f_equal; [lia|]. nia.
Qed.

Lemma nonfixed_w64 x : is_fixed x = false -> xw x = 64.
Proof. destruct x as [w v|v|[|] v]; try reflexivity; discriminate. Qed.

Lemma core_resize_spec x n b : Good x -> b <= 1 -> (is_fixed x = true -> n <= x_capacity x) ->
  exists r, core_resize x n b = Ok r /\ Good r /\ kind_of r = kind_of x /\ abs r = s_resize (abs x) n b.
Proof.
  intros Hx Hb Hcap. unfold core_resize. rewrite (cap_eq x (proj1 Hx)) in Hcap.
  destruct (v_resize_spec (is_fixed x) (xw x) (xv x) n b (Good_pos x Hx)) as (v' & -> & Hc' & Hl' & Hn' & _ & Hr');
    [apply nonfixed_w64|apply Good_wv; assumption|assumption|exact Hcap|].
  cbn [bind]. eexists. split; [reflexivity|].
  apply Good_with; [assumption|assumption| |].
  - destruct (is_fixed x); [left; apply Hn'; reflexivity|right; reflexivity].
  - rewrite (abs_Good x Hx), Hl', Hr'. apply resize_val.
Qed.

Lemma core_resize_panic x n b : is_fixed x = true -> xlen x < n -> xw x * lenw (xdata x) < n -> core_resize x n b = Panic.
Proof.
  intros Hf H1 H2. unfold core_resize. rewrite Hf, f_resize_overflow_panics by assumption. reflexivity.
Qed.

Theorem x_resize_spec a n b : Good a -> b <= 1 ->
  (fits (kind_of a) n = false -> xlen a < n -> x_resize a n b = Panic) /\
  (fits (kind_of a) n = true \/ n <= xlen a ->
   exists r, x_resize a n b = Ok r /\ Good r /\ kind_of r = kind_of a /\ abs r = s_resize (abs a) n b).
Proof.
  intros Ha Hb. pose proof (len_le_capacity a (proj1 Ha)) as Hlc. split.
  - intros H Hlt. destruct a as [w v|v|fx v]; [|discriminate H|discriminate H].
    apply fits_false_inv in H. destruct H as [Hf H]. cbn [x_resize]. apply core_resize_panic; assumption.
  - intros H. destruct a as [w v|v|fx v]; cbn [x_resize].
    + apply core_resize_spec; [assumption|assumption|]. intros _.
      destruct H as [H|H]; [|lia].
      unfold fits in H. cbn [kind_of kind_fixed kind_cap negb orb] in H. apply N.leb_le in H.
      cbn [x_capacity xw xdata xv]. unfold capw, xdata. cbn [xv]. exact H.
    + apply core_resize_spec; [assumption|assumption|discriminate].
    + destruct (N.ltb_spec (xlen (XA fx v)) n) as [Hlt|Hge].
      * destruct (x_reserve_gen (XA fx v) (n - xlen (XA fx v)) Ha) as (x1 & -> & H1 & Hk1 & Habs1 & Hcap1). cbn [bind].
        specialize (Hcap1 eq_refl). rewrite <- Hk1, <- Habs1.
        apply core_resize_spec; [assumption|assumption|]. intros _. lia.
      * cbn [bind]. apply core_resize_spec; [assumption|assumption|]. intros _. lia.
Qed.

Theorem x_truncate_spec a n : Good a ->
  exists r, x_truncate a n = Ok r /\ Good r /\ kind_of r = kind_of a /\ abs r = s_truncate (abs a) n.
Proof.
  intros Ha. unfold x_truncate, s_truncate. rewrite blen_abs.
  destruct (N.ltb_spec n (xlen a)) as [H|H].
  - destruct (x_resize_spec a n 0 Ha) as [_ Hr]; [lia|].
    destruct Hr as (r & E & HG & HK & Habs); [right; lia|].
    exists r. split; [assumption|]. split; [assumption|]. split; [assumption|].
    rewrite Habs. unfold s_resize. rewrite blen_abs. apply N.ltb_lt in H. rewrite H. reflexivity.
  - exists a. repeat split; try reflexivity; apply Ha.
Qed.

Lemma b2n_le1 (c : bool) : N.b2n c <= 1.
Proof. destruct c; cbn; lia. Qed.

Theorem x_sign_extend_spec P a n : Good a ->
  (fits (kind_of a) n = false -> xlen a < n -> x_sign_extend P a n = Panic) /\
  (fits (kind_of a) n = true \/ n <= xlen a ->
   exists r, x_sign_extend P a n = Ok r /\ Good r /\ kind_of r = kind_of a /\ abs r = s_sign_extend (abs a) n).
Proof.
  intros Ha. unfold x_sign_extend, s_sign_extend. rewrite blen_abs.
  assert ((if xlen a =? 0 then Ok 0 else x_get P a (xlen a - 1)) = Ok (s_top (abs a))) as Esign.
  { unfold s_top. rewrite blen_abs. destruct (N.eqb_spec (xlen a) 0) as [H0|H0]; [reflexivity|].
    rewrite x_get_spec by (assumption || lia). rewrite (abs_Good a Ha). reflexivity. }
  assert (s_top (abs a) <= 1) as Htop.
  { unfold s_top. destruct (blen (abs a) =? 0); [lia|apply b2n_le1]. }
  destruct (x_resize_spec a n (s_top (abs a)) Ha Htop) as [Hp Hr].
  destruct (N.ltb_spec (xlen a) n) as [H|H].
  - rewrite Esign. cbn [bind]. split.
    + intros Hf _. apply Hp; assumption.
    + exact Hr.
  - split; [intros _ Hlt; lia|]. intros _. exists a. repeat split; try reflexivity; apply Ha.
Qed.

(* ------------------------------------------------------------------ shrink_to_fit *)

Lemma cfbl_d_cap64 len : 64 * cfbl_d len = 64 * ((len + 63) / 64).
Proof. rewrite cfbl_d_eq'. reflexivity. Qed.

(* the intended reading: every component holds, also for the fixed type *)
Lemma x_shrink_to_fit_strong a : Good a ->
  exists r, x_shrink_to_fit a = Ok r /\ Good r /\ kind_of r = kind_of a /\ abs r = abs a /\
            x_capacity r <= fresh_cap (kind_of a) (xlen a).
Proof.
  intros Ha. pose proof (Good_wv a Ha) as Hc. pose proof (abs_Good a Ha) as Eabs.
  pose proof (len_le_capacity a (proj1 Ha)) as Hlc.
  destruct a as [w v|v|[|] v]; cbn [x_shrink_to_fit xw xv kind_of fresh_cap] in *.
  - exists (XF w v). split; [reflexivity|]. split; [assumption|]. split; [reflexivity|]. split; [reflexivity|].
    cbn [x_capacity xw xdata xv]. unfold capw, xdata. cbn [xv]. apply N.le_refl.
  - destruct (d_shrink_spec v Hc) as (Hc' & Hl' & Hr' & _ & Hn').
    eexists. split; [reflexivity|].
    destruct (make_D (d_shrink_to_fit v) (abs (XD v)) Hc') as (HG & _ & Habs); [rewrite Hl', Hr', Eabs; reflexivity|].
    split; [assumption|]. split; [reflexivity|]. split; [assumption|].
    cbn [x_capacity xw xdata xv]. unfold capw, xdata, xlen. cbn [xv].
    rewrite Hn' by (apply cfbl_d_le; apply Hc). rewrite cfbl_d_cap64. apply N.le_refl.
  - exists (XA true v). split; [reflexivity|]. split; [assumption|]. split; [reflexivity|]. split; [reflexivity|].
    cbn [x_capacity] in *. unfold BVP_CAP in *. apply N.leb_le in Hlc. rewrite Hlc. apply N.le_refl.
  - unfold BVP_CAP, BVP_W, BVP_N. unfold xlen. cbn [xv]. destruct (N.leb_spec (wl v) 128) as [Hle|Hgt].
    + destruct (f_from_d_spec v Hc Hle) as (r & -> & Hcr & Hlr & Hnr & Hrr).
      eexists. split; [reflexivity|].
      destruct (make_A true r (abs (XA false v)) Hcr) as (HG & _ & Habs);
        [intros _; assumption|rewrite Hlr, Hrr, Eabs; reflexivity|].
      split; [assumption|]. split; [reflexivity|]. split; [assumption|].
      cbn [x_capacity]. unfold BVP_CAP. apply N.le_refl.
    + destruct (d_shrink_spec v Hc) as (Hc' & Hl' & Hr' & _ & Hn').
      eexists. split; [reflexivity|].
      destruct (make_A false (d_shrink_to_fit v) (abs (XA false v)) Hc') as (HG & _ & Habs);
        [discriminate|rewrite Hl', Hr', Eabs; reflexivity|].
      split; [assumption|]. split; [reflexivity|]. split; [assumption|].
      cbn [x_capacity xw xdata xv]. unfold capw, xdata. cbn [xv].
      rewrite Hn' by (apply cfbl_d_le; apply Hc). rewrite cfbl_d_cap64. apply N.le_refl.
Qed.

(* As written the statement parses as  exists r, (.. /\ .. /\ capacity bound) \/ (a is fixed); it is
   true (and implied by the strong form above, whose left disjunct holds for all three types). *)
Theorem x_shrink_to_fit_spec a : Good a ->
  exists r, x_shrink_to_fit a = Ok r /\ Good r /\ kind_of r = kind_of a /\ abs r = abs a /\
            x_capacity r <= fresh_cap (kind_of a) (xlen a) \/ (exists w v, a = XF w v).
Proof.
  intros Ha. destruct (x_shrink_to_fit_strong a Ha) as (r & H). exists r. left. exact H.
Qed.

(* ------------------------------------------------------------------ copy_range / split_off *)

Lemma slice_val len va s e : mkbv (e - s) ((va / 2 ^ s) mod 2 ^ (e - s)) = s_slice (mkbv len va) s e.
Proof. unfold s_slice. cbn [blen bval]. rewrite trunc_mod, N.shiftr_div_pow2. reflexivity. Qed.

Theorem x_copy_range_spec P a s e : Good a -> s <= e -> e <= xlen a ->
  exists r, x_copy_range P a s e = Ok r /\ Good r /\ kind_of r = kind_of a /\ abs r = s_slice (abs a) s e.
Proof.
  intros Ha Hse He. pose proof (Good_wv a Ha) as Hc. pose proof (abs_Good a Ha) as Eabs.
  rewrite Eabs, <- slice_val. unfold val, xdata, xlen in *.
  destruct a as [w v|v|[|] v]; cbn [x_copy_range xw xv kind_of] in *.
  - destruct (f_copy_range_spec P w v s e (Good_pos _ Ha) Hc Hse He) as (r & -> & Hcr & Hlr & Hnr & Hrr). cbn [bind].
    eexists. split; [reflexivity|].
    destruct (make_F w (lenw (wd r)) r (mkbv (e - s) ((raw w (wd v) / 2 ^ s) mod 2 ^ (e - s))) (proj2 Ha) Hcr eq_refl)
      as (HG & _ & Habs); [rewrite Hlr, Hrr; reflexivity|].
    split; [assumption|]. split; [cbn [kind_of]; rewrite Hnr; reflexivity|assumption].
  - destruct (d_copy_range_spec P v s e Hc Hse He) as (r & -> & Hcr & Hlr & Hnr & Hrr). cbn [bind].
    eexists. split; [reflexivity|].
    destruct (make_D r (mkbv (e - s) ((raw 64 (wd v) / 2 ^ s) mod 2 ^ (e - s))) Hcr) as (HG & _ & Habs);
      [rewrite Hlr, Hrr; reflexivity|].
    split; [assumption|]. split; [reflexivity|assumption].
  - unfold BVP_W.
    destruct (f_copy_range_spec P 64 v s e ltac:(lia) Hc Hse He) as (r & -> & Hcr & Hlr & Hnr & Hrr). cbn [bind].
    eexists. split; [reflexivity|].
    destruct (make_A true r (mkbv (e - s) ((raw 64 (wd v) / 2 ^ s) mod 2 ^ (e - s))) Hcr) as (HG & _ & Habs);
      [intros _; rewrite Hnr; apply Ha|rewrite Hlr, Hrr; reflexivity|].
    split; [assumption|]. split; [reflexivity|assumption].
  - destruct (d_copy_range_spec P v s e Hc Hse He) as (r & -> & Hcr & Hlr & Hnr & Hrr). cbn [bind].
    unfold BVP_CAP, BVP_W, BVP_N. destruct (N.leb_spec (wl r) 128) as [Hle|Hgt].
    + destruct (f_from_d_spec r Hcr Hle) as (f & -> & Hcf & Hlf & Hnf & Hrf).
      eexists. split; [reflexivity|].
      destruct (make_A true f (mkbv (e - s) ((raw 64 (wd v) / 2 ^ s) mod 2 ^ (e - s))) Hcf) as (HG & _ & Habs);
        [intros _; assumption|rewrite Hlf, Hrf, Hlr, Hrr; reflexivity|].
      split; [assumption|]. split; [reflexivity|assumption].
    + eexists. split; [reflexivity|].
      destruct (make_A false r (mkbv (e - s) ((raw 64 (wd v) / 2 ^ s) mod 2 ^ (e - s))) Hcr) as (HG & _ & Habs);
        [discriminate|rewrite Hlr, Hrr; reflexivity|].
      split; [assumption|]. split; [reflexivity|assumption].
Qed.

Theorem x_copy_range_debug_oob a s e : xlen a < s \/ xlen a < e -> x_copy_range Debug a s e = Panic.
Proof.
  intros H. destruct a as [w v|v|[|] v]; cbn [x_copy_range];
    rewrite ?f_copy_range_debug_oob, ?d_copy_range_debug_oob by exact H; reflexivity.
Qed.

Lemma resize_down_val len va i : va < 2 ^ len -> i <= len -> s_resize (mkbv len va) i 0 = s_slice (mkbv len va) 0 i.
Proof.
  intros Hv Hi. unfold s_resize. cbn [blen]. destruct (N.ltb_spec i len) as [H|H]; [reflexivity|].
  assert (i = len) as -> by lia.
  unfold s_concat, s_slice, s_fill, s_zeros. change (0 =? 0) with true. cbn [blen bval].
  rewrite N.sub_diag, N.shiftl_0_l, N.shiftr_0_r, N.sub_0_r, trunc_small by assumption. f_equal; lia.
Qed.

Theorem x_split_off_spec P a i : Good a -> i <= xlen a ->
  exists lo hi, x_split_off P a i = Ok (lo, hi) /\ Good lo /\ Good hi /\ kind_of lo = kind_of a /\ kind_of hi = kind_of a /\
    abs lo = s_slice (abs a) 0 i /\ abs hi = s_slice (abs a) i (xlen a).
Proof.
  intros Ha Hi. unfold x_split_off.
  destruct (x_copy_range_spec P a i (xlen a) Ha Hi (N.le_refl _)) as (hi & -> & HGh & HKh & Hah). cbn [bind].
  destruct (x_resize_spec a i 0 Ha) as [_ Hr]; [lia|].
  destruct Hr as (lo & -> & HGl & HKl & Hal); [right; assumption|]. cbn [bind].
  exists lo, hi. split; [reflexivity|]. repeat (split; [assumption|]). split; [|assumption].
  rewrite Hal, (abs_Good a Ha). apply resize_down_val; [apply Good_val_lt; assumption|assumption].
Qed.

Theorem x_split_off_debug_oob a i : xlen a < i -> x_split_off Debug a i = Panic.
Proof.
  intros H. unfold x_split_off. rewrite x_copy_range_debug_oob by (left; assumption). reflexivity.
Qed.

(* ------------------------------------------------------------------ shifts by k *)

Lemma shift_amount_small k len : len < 2 ^ 62 -> k < len -> shift_amount k = k.
Proof.
  intros Hl Hk. unfold shift_amount. rewrite pow2_eq.
  assert (2 ^ 62 < 2 ^ 64) by (apply pow2_lt; lia).
  destruct (N.ltb_spec k (2 ^ 64)); [reflexivity|lia].
Qed.

Lemma shift_amount_big k len : len < 2 ^ 62 -> len <= k -> len <= shift_amount k.
Proof.
  intros Hl Hk. unfold shift_amount. rewrite pow2_eq, ones_eq.
  assert (2 ^ 62 < 2 ^ 64) by (apply pow2_lt; lia).
  destruct (N.ltb_spec k (2 ^ 64)); lia.
Qed.

Lemma shl_val len va r k : len < 2 ^ 62 ->
  (forall i, N.testbit r i = (shift_amount k <=? i) && (i <? len) && N.testbit va (i - shift_amount k)) ->
  r = if k <? len then trunc len (N.shiftl va k) else 0.
Proof.
  intros Hl H. apply N.bits_inj. intro i. rewrite H. destruct (N.ltb_spec k len) as [Hk|Hk].
  - rewrite (shift_amount_small k len Hl Hk), trunc_testbit, shiftl_testbit.
    destruct (k <=? i); destruct (i <? len); reflexivity.
  - pose proof (shift_amount_big k len Hl Hk) as Hb. rewrite N.bits_0.
    destruct (N.leb_spec (shift_amount k) i); destruct (N.ltb_spec i len); cbn [andb]; try reflexivity; lia.
Qed.

Lemma shr_val len va r k : len < 2 ^ 62 -> va < 2 ^ len ->
  (forall i, N.testbit r i = N.testbit va (i + shift_amount k)) ->
  r = if k <? len then N.shiftr va k else 0.
Proof.
  intros Hl Hv H. apply N.bits_inj. intro i. rewrite H. destruct (N.ltb_spec k len) as [Hk|Hk].
  - rewrite (shift_amount_small k len Hl Hk), shiftr_testbit. reflexivity.
  - pose proof (shift_amount_big k len Hl Hk) as Hb. rewrite N.bits_0.
    apply (testbit_high va len); [assumption|lia].
Qed.

Lemma x_shl_assign_spec a k : Good a -> xlen a < 2 ^ 62 ->
  exists r, x_shl_assign a k = Ok r /\ Good r /\ kind_of r = kind_of a /\ abs r = s_shl (abs a) k.
Proof.
  intros Ha Hl. unfold x_shl_assign.
  destruct (shl_assign_spec (xw a) (xv a) k (Good_pos a Ha) (Good_wv a Ha)) as (v' & -> & Hc' & Hl' & Hn' & Hb').
  cbn [bind]. eexists. split; [reflexivity|].
  apply Good_with; [assumption|assumption|left; exact Hn'|].
  rewrite (abs_Good a Ha). unfold s_shl. cbn [blen bval]. rewrite Hl'. f_equal.
  apply shl_val; assumption.
Qed.

Lemma x_shr_assign_spec a k : Good a -> xlen a < 2 ^ 62 ->
  exists r, x_shr_assign a k = Ok r /\ Good r /\ kind_of r = kind_of a /\ abs r = s_shr (abs a) k.
Proof.
  intros Ha Hl. unfold x_shr_assign.
  destruct (shr_assign_spec (xw a) (xv a) k (Good_pos a Ha) (Good_wv a Ha)) as (v' & -> & Hc' & Hl' & Hn' & Hb').
  cbn [bind]. eexists. split; [reflexivity|].
  apply Good_with; [assumption|assumption|left; exact Hn'|].
  rewrite (abs_Good a Ha). unfold s_shr. cbn [blen bval]. rewrite Hl'. f_equal.
  apply (shr_val (xlen a)); [assumption|apply Good_val_lt; assumption|assumption].
Qed.

(* shifts: k is the amount as passed by the caller (any native type), A1: lengths are below 2^62 *)
Theorem x_shl_spec byref a k : Good a -> xlen a < 2 ^ 62 ->
  exists r, x_shl byref a k = Ok r /\ Good r /\ kind_of r = kind_of a /\ abs r = s_shl (abs a) k.
Proof.
  intros Ha Hl. destruct a as [w v|v|fx v]; cbn [x_shl]; try (apply x_shl_assign_spec; assumption).
  destruct byref; [|apply x_shl_assign_spec; assumption].
  destruct (d_shl_ref_spec v k (Good_wv _ Ha)) as (v' & -> & Hc' & Hl' & _ & Hb'). cbn [bind].
  eexists. split; [reflexivity|].
  destruct (make_D v' (s_shl (abs (XD v)) k) Hc') as (HG & _ & Habs); [|split; [assumption|split; [reflexivity|assumption]]].
  rewrite (abs_Good _ Ha). unfold s_shl. cbn [blen bval]. rewrite Hl'. f_equal.
  apply shl_val; assumption.
Qed.

Theorem x_shr_spec byref a k : Good a -> xlen a < 2 ^ 62 ->
  exists r, x_shr byref a k = Ok r /\ Good r /\ kind_of r = kind_of a /\ abs r = s_shr (abs a) k.
Proof.
  intros Ha Hl. destruct a as [w v|v|fx v]; cbn [x_shr]; try (apply x_shr_assign_spec; assumption).
  destruct byref; [|apply x_shr_assign_spec; assumption].
  destruct (d_shr_ref_spec v k (Good_wv _ Ha)) as (v' & -> & Hc' & Hl' & _ & Hb'). cbn [bind].
  eexists. split; [reflexivity|].
  destruct (make_D v' (s_shr (abs (XD v)) k) Hc') as (HG & _ & Habs); [|split; [assumption|split; [reflexivity|assumption]]].
  rewrite (abs_Good _ Ha). unfold s_shr. cbn [blen bval]. rewrite Hl'. f_equal.
  apply (shr_val (xlen (XD v))); [assumption|apply Good_val_lt; assumption|assumption].
Qed.

(* ------------------------------------------------------------------ shifts by one *)

Lemma x_shl_in_eq a b :
  x_shl_in a b = (x_with a (fst (v_shl_in (xw a) (xv a) b)), snd (v_shl_in (xw a) (xv a) b)).
Proof. unfold x_shl_in. destruct (v_shl_in (xw a) (xv a) b). reflexivity. Qed.

Lemma x_shr_in_eq a b :
  x_shr_in a b = (x_with a (fst (v_shr_in (xw a) (xv a) b)), snd (v_shr_in (xw a) (xv a) b)).
Proof. unfold x_shr_in. destruct (v_shr_in (xw a) (xv a) b). reflexivity. Qed.

Lemma lt_pow2_0 x : x < 2 ^ 0 -> x = 0.
Proof. change (2 ^ 0) with 1. lia. Qed.

Theorem x_shl_in_spec a b : Good a -> b <= 1 ->
  Good (fst (x_shl_in a b)) /\ kind_of (fst (x_shl_in a b)) = kind_of a /\
  (abs (fst (x_shl_in a b)), snd (x_shl_in a b)) = s_shl_in (abs a) b.
Proof.
  intros Ha Hb. rewrite x_shl_in_eq. cbn [fst snd].
  destruct (shl_in_spec (xw a) (xv a) b (Good_pos a Ha) (Good_wv a Ha) Hb) as (Hc' & Hl' & Hn' & Hr' & Hs').
  destruct (Good_with a _ _ Ha Hc' (or_introl Hn') eq_refl) as (HG & HK & Habs).
  split; [assumption|]. split; [assumption|].
  rewrite Habs, Hs', Hl', Hr', (abs_Good a Ha). unfold s_shl_in. cbn [blen bval]. fold (xlen a).
  pose proof (Good_val_lt a Ha) as Hv.
  destruct (N.eqb_spec (xlen a) 0) as [H0|H0].
  - rewrite H0 in Hv. rewrite (lt_pow2_0 _ Hv). reflexivity.
  - rewrite trunc_mod. reflexivity.
Qed.

Theorem x_shr_in_spec a b : Good a -> b <= 1 ->
  Good (fst (x_shr_in a b)) /\ kind_of (fst (x_shr_in a b)) = kind_of a /\
  (abs (fst (x_shr_in a b)), snd (x_shr_in a b)) = s_shr_in (abs a) b.
Proof.
  intros Ha Hb. rewrite x_shr_in_eq. cbn [fst snd].
  destruct (shr_in_spec (xw a) (xv a) b (Good_pos a Ha) (Good_wv a Ha) Hb) as (Hc' & Hl' & Hn' & Hr' & Hs').
  destruct (Good_with a _ _ Ha Hc' (or_introl Hn') eq_refl) as (HG & HK & Habs).
  split; [assumption|]. split; [assumption|].
  rewrite Habs, Hs', Hl', Hr', (abs_Good a Ha). unfold s_shr_in. cbn [blen bval]. fold (xlen a).
  pose proof (Good_val_lt a Ha) as Hv.
  destruct (N.eqb_spec (xlen a) 0) as [H0|H0].
  - rewrite H0 in Hv. rewrite (lt_pow2_0 _ Hv). reflexivity.
  - rewrite N.shiftr_div_pow2, N.shiftl_mul_pow2. reflexivity.
Qed.

(* ------------------------------------------------------------------ rotations *)

Lemma rotl_val len va r k : va < 2 ^ len -> r < 2 ^ len -> k <= len ->
  (forall i, i < len -> N.testbit r ((i + k) mod len) = N.testbit va i) ->
  r = trunc len (N.lor (N.shiftl va k) (N.shiftr va (len - k))).
Proof.
  intros Hv Hr Hk H. apply N.bits_inj. intro j.
  rewrite trunc_testbit, N.lor_spec, shiftl_testbit, shiftr_testbit.
  destruct (N.ltb_spec j len) as [Hj|Hj]; [|apply (testbit_high r len); assumption].
  cbn [andb]. destruct (N.leb_spec k j) as [Hkj|Hkj]; cbn [andb].
  - rewrite (testbit_high va len (j + (len - k))) by (assumption || lia). rewrite orb_false_r.
    rewrite <- (H (j - k)) by lia. f_equal. replace (j - k + k) with j by lia. symmetry. apply N.mod_small. assumption.
  - cbn [orb]. rewrite <- (H (j + (len - k))) by lia. f_equal.
    replace (j + (len - k) + k) with (j + 1 * len) by lia. rewrite N.mod_add by lia. symmetry. apply N.mod_small. assumption.
Qed.

Lemma rotr_val len va r k : va < 2 ^ len -> r < 2 ^ len -> k <= len ->
  (forall i, i < len -> N.testbit r i = N.testbit va ((i + k) mod len)) ->
  r = trunc len (N.lor (N.shiftr va k) (N.shiftl va (len - k))).
Proof.
  intros Hv Hr Hk H. apply N.bits_inj. intro j.
  rewrite trunc_testbit, N.lor_spec, shiftl_testbit, shiftr_testbit.
  destruct (N.ltb_spec j len) as [Hj|Hj]; [|apply (testbit_high r len); assumption].
  cbn [andb]. rewrite (H j Hj). destruct (N.leb_spec (len - k) j) as [Hkj|Hkj]; cbn [andb].
  - rewrite (testbit_high va len (j + k)) by (assumption || lia). cbn [orb]. f_equal.
    replace (j + k) with (j - (len - k) + 1 * len) by lia. rewrite N.mod_add by lia. apply N.mod_small. lia.
  - rewrite orb_false_r. f_equal. apply N.mod_small. lia.
Qed.

Theorem x_rotl_spec a r : Good a -> r <= xlen a ->
  exists x, x_rotl a r = Ok x /\ Good x /\ kind_of x = kind_of a /\ abs x = s_rotl (abs a) r.
Proof.
  intros Ha Hr. unfold x_rotl.
  destruct (rotl_spec (xw a) (xv a) r (Good_pos a Ha) (Good_wv a Ha) Hr) as (v' & -> & Hc' & Hl' & Hn' & Hb').
  cbn [bind]. eexists. split; [reflexivity|].
  apply Good_with; [assumption|assumption|left; exact Hn'|].
  rewrite (abs_Good a Ha). unfold s_rotl. cbn [blen bval]. rewrite Hl'. f_equal.
  apply rotl_val; [apply Good_val_lt; assumption| |assumption|exact Hb'].
  destruct Hc' as (_ & _ & H). rewrite Hl' in H. exact H.
Qed.

Theorem x_rotr_spec a r : Good a -> r <= xlen a ->
  exists x, x_rotr a r = Ok x /\ Good x /\ kind_of x = kind_of a /\ abs x = s_rotr (abs a) r.
Proof.
  intros Ha Hr. unfold x_rotr.
  destruct (rotr_spec (xw a) (xv a) r (Good_pos a Ha) (Good_wv a Ha) Hr) as (v' & -> & Hc' & Hl' & Hn' & Hb').
  cbn [bind]. eexists. split; [reflexivity|].
  apply Good_with; [assumption|assumption|left; exact Hn'|].
  rewrite (abs_Good a Ha). unfold s_rotr. cbn [blen bval]. rewrite Hl'. f_equal.
  apply rotr_val; [apply Good_val_lt; assumption| |assumption|exact Hb'].
  destruct Hc' as (_ & _ & H). rewrite Hl' in H. exact H.
Qed.

(* rotating an empty vector does nothing, whatever the amount (the loop does not run) *)
Theorem x_rotl_empty a r : Good a -> xlen a = 0 ->
  exists x, x_rotl a r = Ok x /\ Good x /\ kind_of x = kind_of a /\ abs x = abs a.
Proof.
  intros Ha H0. unfold x_rotl, v_rotl. unfold xlen in H0. rewrite H0.
  cbn [N.to_nat rotl_loop]. change (0 <? 0) with false. cbv beta iota. cbn [bind].
  eexists. split; [reflexivity|].
  apply Good_with; [assumption| |left; cbn [wd]; apply lenw_zerosw|].
  - apply canon_zeros. lia.
  - cbn [wl wd]. rewrite raw_zerosw. rewrite (abs_Good a Ha). unfold xlen. rewrite H0. f_equal.
    pose proof (Good_val_lt a Ha) as Hv. unfold xlen in Hv. rewrite H0 in Hv. change (2 ^ 0) with 1 in Hv. lia.
Qed.

Theorem x_rotr_empty a r : Good a -> xlen a = 0 ->
  exists x, x_rotr a r = Ok x /\ Good x /\ kind_of x = kind_of a /\ abs x = abs a.
Proof.
  intros Ha H0. unfold x_rotr, v_rotr. unfold xlen in H0. rewrite H0.
  cbn [N.to_nat rotr_loop]. change (0 <? 0) with false. cbv beta iota. cbn [bind].
  eexists. split; [reflexivity|].
  apply Good_with; [assumption| |left; cbn [wd]; apply lenw_zerosw|].
  - apply canon_zeros. lia.
  - cbn [wl wd]. rewrite raw_zerosw. rewrite (abs_Good a Ha). unfold xlen. rewrite H0. f_equal.
    pose proof (Good_val_lt a Ha) as Hv. unfold xlen in Hv. rewrite H0 in Hv. change (2 ^ 0) with 1 in Hv. lia.
Qed.

(* ------------------------------------------------------------------ Extend / FromIterator *)

Lemma fold_push_panic P bits :
  fold_left (fun acc b => let! x := acc in x_push P x b) bits Panic = Panic.
Proof. induction bits as [|b r IH]; [reflexivity|]. cbn [fold_left bind]. exact IH. Qed.

Lemma fits_mono k m m' : m <= m' -> fits k m' = true -> fits k m = true.
Proof.
  intros Hm. unfold fits. destruct k as [w n| |]; cbn [kind_fixed kind_cap negb orb]; try reflexivity.
  intros H. apply N.leb_le in H. apply N.leb_le. lia.
Qed.

Lemma fits_self a : Good a -> fits (kind_of a) (xlen a) = true.
Proof.
  intros [[(_ & Hl & _) _] _]. unfold fits.
  destruct a as [w v|v|fx v]; cbn [kind_of kind_fixed kind_cap negb orb]; try reflexivity.
  apply N.leb_le. exact Hl.
Qed.

Lemma concat_nil x : s_concat x (bv_of_bits []) = x.
Proof.
  destruct x as [n v]. unfold s_concat, bv_of_bits. cbn [blen bval val_of_bits].
  rewrite lenw_nil, N.shiftl_0_l, !N.add_0_r. reflexivity.
Qed.

Lemma concat_push x b bits : s_concat (s_push x b) (bv_of_bits bits) = s_concat x (bv_of_bits (b :: bits)).
Proof.
  destruct x as [n v]. unfold s_push, s_concat, bv_of_bits. cbn [blen bval val_of_bits].
  rewrite lenw_cons. f_equal; [lia|].
  rewrite !N.shiftl_mul_pow2, pow2_add. change (2 ^ 1) with 2.
  generalize (2 ^ n) as p. generalize (val_of_bits bits) as V. generalize (if b =? 0 then 0 else 1) as c.
  intros c V p. lia.
Qed.

Lemma push_fold P bits : forall a, Good a -> Forall (fun b => b <= 1) bits ->
  (fits (kind_of a) (xlen a + lenw bits) = false ->
   fold_left (fun acc b => let! x := acc in x_push P x b) bits (Ok a) = Panic) /\
  (fits (kind_of a) (xlen a + lenw bits) = true ->
   exists r, fold_left (fun acc b => let! x := acc in x_push P x b) bits (Ok a) = Ok r /\ Good r /\
             kind_of r = kind_of a /\ abs r = s_concat (abs a) (bv_of_bits bits)).
Proof.
  induction bits as [|b bits IH]; intros a Ha Hbits.
  - rewrite lenw_nil, N.add_0_r, (fits_self a Ha). split; [discriminate|]. intros _.
    exists a. split; [reflexivity|]. split; [assumption|]. split; [reflexivity|]. symmetry. apply concat_nil.
  - inversion Hbits as [|b' r' Hb Hr]; subst b' r'. cbn [fold_left bind].
    destruct (x_push_spec P a b Ha Hb) as [Hp Ho].
    destruct (fits (kind_of a) (xlen a + 1)) eqn:E1.
    + destruct (Ho eq_refl) as (r & -> & HG & HK & Habs).
      assert (xlen r = xlen a + 1) as El.
      { rewrite <- !blen_abs, Habs. reflexivity. }
      destruct (IH r HG Hr) as [IP IO]. rewrite HK, El in IP, IO.
      replace (xlen a + 1 + lenw bits) with (xlen a + lenw (b :: bits)) in IP, IO by (rewrite lenw_cons; lia).
      split; [exact IP|]. intros Hf. destruct (IO Hf) as (r' & E & HG' & HK' & Habs').
      exists r'. split; [exact E|]. split; [assumption|]. split; [assumption|].
      rewrite Habs', Habs. apply concat_push.
    + rewrite (Hp eq_refl), fold_push_panic. split; [reflexivity|]. intros Hf. exfalso.
      rewrite (fits_mono (kind_of a) (xlen a + 1) (xlen a + lenw (b :: bits))) in E1; [discriminate| |assumption].
      rewrite lenw_cons. lia.
Qed.

(* Extend / FromIterator: bits is the list of pushed bits (each 0 or 1) *)
Theorem x_extend_spec P a hint bits : Good a -> Forall (fun b => b <= 1) bits ->
  (fits (kind_of a) (xlen a + lenw bits) = false -> x_extend P a hint bits = Panic) /\
  (fits (kind_of a) (xlen a + lenw bits) = true ->
   exists r, x_extend P a hint bits = Ok r /\ Good r /\ kind_of r = kind_of a /\ abs r = s_concat (abs a) (bv_of_bits bits)).
Proof.
  intros Ha Hbits. unfold x_extend.
  assert (exists x0, match a with XF _ _ => Ok a | _ => x_reserve a hint end = Ok x0 /\ Good x0 /\
                     kind_of x0 = kind_of a /\ abs x0 = abs a) as (x0 & -> & H0 & HK0 & Habs0).
  { destruct (x_reserve_gen a hint Ha) as (x1 & E & H1 & HK1 & Habs1 & _).
    destruct a as [w v|v|fx v]; [exists (XF w v); repeat split; try reflexivity; apply Ha| |]; exists x1; auto. }
  cbn [bind]. rewrite <- HK0, <- Habs0, <- (xlen_of_abs _ _ Habs0). apply push_fold; assumption.
Qed.

Lemma kind_of_matches k r : kind_matches k r = true -> kind_of r = k.
Proof.
  destruct k as [w n| |]; destruct r as [w' v|v|fx v]; cbn [kind_matches kind_of]; try discriminate; try reflexivity.
  intros H. apply andb_true_iff in H. destruct H as [H1 H2]. apply N.eqb_eq in H1, H2. subst. reflexivity.
Qed.

Lemma kind_matches_of r : kind_matches (kind_of r) r = true.
Proof. destruct r as [w v|v|fx v]; cbn [kind_matches kind_of]; try reflexivity. rewrite !N.eqb_refl. reflexivity. Qed.

Lemma concat_empty x : s_concat (s_zeros 0) x = x.
Proof.
  destruct x as [n v]. unfold s_concat, s_zeros. cbn [blen bval].
  rewrite N.shiftl_0_r, !N.add_0_l. reflexivity.
Qed.

Theorem k_from_iter_spec P k hint bits : kind_ok k -> Forall (fun b => b <= 1) bits ->
  (fits k (lenw bits) = false -> k_from_iter P k hint bits = Panic) /\
  (fits k (lenw bits) = true ->
   exists r, k_from_iter P k hint bits = Ok r /\ Good r /\ kind_matches k r = true /\ abs r = bv_of_bits bits).
Proof.
  intros Hk Hbits. unfold k_from_iter.
  destruct (k_with_capacity_spec k hint Hk) as (z & -> & Hz & HKz & Habsz & _). cbn [bind].
  apply kind_of_matches in HKz.
  assert (xlen z = 0) as Elz by (rewrite <- blen_abs, Habsz; reflexivity).
  destruct (push_fold P bits z Hz Hbits) as [IP IO]. rewrite HKz, Elz, N.add_0_l in IP, IO.
  split; [exact IP|]. intros Hf. destruct (IO Hf) as (r & E & HG & HK & Habs).
  exists r. split; [exact E|]. split; [assumption|]. split.
  - rewrite <- HK. apply kind_matches_of.
  - rewrite Habs, Habsz. apply concat_empty.
Qed.
