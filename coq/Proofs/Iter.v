(* Proofs/Iter.v *)
From BVA Require Import Base.Prelude Base.Result Base.Words Base.Limbs.
From BVA Require Import Model.Core Model.Ops Model.Arith Model.Conv Model.Auto Spec.Spec Proofs.Common.
From Coq Require Import ZifyBool ZifyN ZifyNat.
From BVA Require Import Spec.Prop Model.Run.

(* ------------------------------------------------------------------ one step of the specification *)

Definition s_step (a : bv) (rv : bool) (s e : N) (c : icall) : N * N * N :=
  let front := fun n => if n <? e - s then (s + n + 1, e, sbit a (s + n)) else (e, e, 2) in
  let back := fun n => if n <? e - s then (s, e - (n + 1), sbit a (e - (n + 1))) else (s, s, 2) in
  match c with
  | INext => if rv then back 0 else front 0
  | INextBack => if rv then front 0 else back 0
  | INth n => if rv then back n else front n
  | INthBack n => if rv then front n else back n
  | ISizeHint | ICount => (s, e, e - s)
  | ILast => if s <? e then (s, e, sbit a (if rv then s else e - 1)) else (s, e, 2)
  | IRev => (s, e, 3)
  end.

Definition rv_next (rv : bool) (c : icall) : bool :=
  match c with IRev => negb rv | _ => rv end.

Lemma s_iter_cons a rv s e c r :
  s_iter a rv s e (c :: r) =
  let '(s', e', ans) := s_step a rv s e c in ans :: s_iter a (rv_next rv c) s' e' r.
Proof. reflexivity. Qed.

Lemma iter_run_cons getb (rv : bool) st c r :
  iter_run getb rv st (c :: r) =
  (let! (s, e, a) := (if rv then rev_call else iter_step) getb st c in
   let! rest := iter_run getb (rv_next rv c) (s, e) r in
   Ok (a :: rest)).
Proof. reflexivity. Qed.

(* the cursor invariant s <= e <= blen a is preserved by every call *)
Lemma s_step_inv a rv s e c s' e' ans :
  s <= e -> e <= blen a -> s_step a rv s e c = (s', e', ans) -> s' <= e' /\ e' <= blen a.
Proof.
  intros Hse He H. unfold s_step in H.
  destruct c as [| |n|n| | | |]; destruct rv;
    try (destruct (N.ltb_spec 0 (e - s)); inversion H; subst; lia);
    try (destruct (N.ltb_spec n (e - s)); inversion H; subst; lia);
    try (destruct (N.ltb_spec s e); inversion H; subst; lia);
    try (inversion H; subst; lia).
Qed.

(* the model step computes the specification step *)
Lemma step_refines getb a (rv : bool) s e c :
  s <= e -> e <= blen a ->
  (forall i, i < blen a -> getb i = Ok (sbit a i)) ->
  (if rv then rev_call else iter_step) getb (s, e) c = Ok (s_step a rv s e c).
Proof.
  intros Hse He Hg. unfold s_step.
  destruct c as [| |n|n| | | |]; destruct rv; cbn [rev_call iter_step];
    try reflexivity.
  (* INext *)
  - destruct (N.ltb_spec s e); destruct (N.ltb_spec 0 (e - s)); try lia; [|assert (e = s) by lia; subst e; reflexivity].
    rewrite Hg by lia. rewrite bind_Ok_l. replace (e - (0 + 1)) with (e - 1) by lia. reflexivity.
  - destruct (N.ltb_spec s e); destruct (N.ltb_spec 0 (e - s)); try lia; [|assert (e = s) by lia; subst e; reflexivity].
    rewrite Hg by lia. rewrite bind_Ok_l. replace (s + 0) with s by lia. reflexivity.
  (* INextBack *)
  - destruct (N.ltb_spec s e); destruct (N.ltb_spec 0 (e - s)); try lia; [|assert (e = s) by lia; subst e; reflexivity].
    rewrite Hg by lia. rewrite bind_Ok_l. replace (s + 0) with s by lia. reflexivity.
  - destruct (N.ltb_spec s e); destruct (N.ltb_spec 0 (e - s)); try lia; [|assert (e = s) by lia; subst e; reflexivity].
    rewrite Hg by lia. rewrite bind_Ok_l. replace (e - (0 + 1)) with (e - 1) by lia. reflexivity.
  (* INth *)
  - destruct (N.ltb_spec n (e - s)); [|reflexivity]. rewrite Hg by lia. reflexivity.
  - destruct (N.ltb_spec n (e - s)); [|reflexivity]. rewrite Hg by lia. reflexivity.
  (* INthBack *)
  - destruct (N.ltb_spec n (e - s)); [|reflexivity]. rewrite Hg by lia. reflexivity.
  - destruct (N.ltb_spec n (e - s)); [|reflexivity]. rewrite Hg by lia. reflexivity.
  (* ILast *)
  - destruct (N.ltb_spec s e); [|reflexivity]. rewrite Hg by lia. reflexivity.
  - destruct (N.ltb_spec s e); [|reflexivity]. rewrite Hg by lia. reflexivity.
Qed.

Lemma iter_refines getb a rv s e cs :
  s <= e -> e <= blen a ->
  (forall i, i < blen a -> getb i = Ok (sbit a i)) ->
  iter_run getb rv (s, e) cs = Ok (s_iter a rv s e cs).
Proof.
  intros Hse He Hg. revert rv s e Hse He.
  induction cs as [|c r IH]; intros rv s e Hse He; [reflexivity|].
  rewrite iter_run_cons, s_iter_cons.
  rewrite (step_refines getb a rv s e c Hse He Hg), bind_Ok_l.
  destruct (s_step a rv s e c) as [[s' e'] ans] eqn:Hs.
  destruct (s_step_inv a rv s e c s' e' ans Hse He Hs) as [Hse' He'].
  rewrite (IH _ s' e' Hse' He'), bind_Ok_l. reflexivity.
Qed.

(* the cursor invariant and absorption of exhaustion, stated on the spec side *)
Lemma s_iter_exhausted a rv s cs :
  Forall (fun c => match c with INext | INextBack | INth _ | INthBack _ | ILast => True | _ => False end) cs ->
  s_iter a rv s s cs = map (fun _ => 2) cs.
Proof.
  intros H. induction H as [|c r Hc Hr IH]; [reflexivity|].
  rewrite s_iter_cons. cbn [map].
  assert (s_step a rv s s c = (s, s, 2) /\ rv_next rv c = rv) as [E1 E2].
  { unfold s_step, rv_next. destruct c as [| |n|n| | | |]; try contradiction; destruct rv;
      rewrite ?N.sub_diag, ?N.ltb_irrefl;
      try (destruct (N.ltb_spec 0 0); [lia|]); try (destruct (N.ltb_spec n 0); [lia|]);
      split; reflexivity. }
  rewrite E1, E2, IH. reflexivity.
Qed.
