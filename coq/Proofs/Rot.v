(* Proofs/Rot.v *)
From BVA Require Import Base.Prelude Base.Result Base.Words Base.Limbs.
From BVA Require Import Model.Core Model.Ops Model.Arith Model.Conv Model.Auto Spec.Spec Proofs.Common.
From Coq Require Import ZifyBool ZifyN ZifyNat.

(* Rotations: v_rotl / v_rotr copy chunks of l bits from the source into a fresh zeroed storage
   with or_bits; every destination bit is written exactly once, so OR acts as assignment. *)

(* ------------------------------------------------------------------ rotated index *)

(* (a + r) mod len, kept folded so that lia treats it as an atom *)
Definition ridx (a r len : N) : N := (a + r) mod len.

Lemma ridx_case a r len : a < len -> r <= len ->
  ridx a r len = if a + r <? len then a + r else a + r - len.
Proof.
  intros Ha Hr. unfold ridx. destruct (N.ltb_spec (a + r) len) as [H|H].
  - apply N.mod_small. assumption.
  - symmetry. apply (N.mod_unique _ _ 1); lia.
Qed.

Lemma ridx_lt a r len : 0 < len -> ridx a r len < len.
Proof. intros H. unfold ridx. apply mod_lt'. assumption. Qed.

(* inside one chunk the rotated index moves in lock step *)
Lemma ridx_chunk a r len t : a + t < len -> r <= len -> ridx a r len + t < len ->
  ridx (a + t) r len = ridx a r len + t.
Proof.
  intros H1 H2.
  rewrite (ridx_case a r len), (ridx_case (a + t) r len) by lia.
  destruct (N.ltb_spec (a + r) len); destruct (N.ltb_spec (a + t + r) len); lia.
Qed.

Lemma ridx_post_pre a r len : a < len -> r <= len -> ridx (ridx a r len) (len - r) len = a.
Proof.
  intros Ha Hr. rewrite (ridx_case a r len) by assumption.
  destruct (N.ltb_spec (a + r) len).
  - rewrite ridx_case by lia. destruct (N.ltb_spec (a + r + (len - r)) len); lia.
  - rewrite ridx_case by lia. destruct (N.ltb_spec (a + r - len + (len - r)) len); lia.
Qed.

Lemma ridx_pre_post a r len : a < len -> r <= len -> ridx (ridx a (len - r) len) r len = a.
Proof.
  intros Ha Hr. pose proof (ridx_post_pre a (len - r) len Ha) as H.
  replace (len - (len - r)) with r in H by lia. apply H. lia.
Qed.

(* the chunk length chosen by the loops *)
Lemma chunk_len w a b len : 0 < w -> a < len -> b < len ->
  exists l, min4 (w - a mod w) (w - b mod w) (len - a) (len - b) = l /\
    0 < l /\ a mod w + l <= w /\ b mod w + l <= w /\ a + l <= len /\ b + l <= len.
Proof.
  intros Hw Ha Hb. pose proof (mod_lt' a w Hw) as H1. pose proof (mod_lt' b w Hw) as H2.
  eexists. split; [reflexivity|]. unfold min4.
  revert H1 H2. generalize (a mod w) (b mod w). intros x y H1 H2. lia.
Qed.

(* ------------------------------------------------------------------ or_bits *)

Section W.
Variable w : N.
Hypothesis Hw : 0 < w.

Lemma words_ok_or_bits d pos v : words_ok w d -> words_ok w (or_bits w d pos v).
Proof.
  intros Hd. unfold or_bits. apply words_ok_setw; [assumption|].
  apply lt_pow2_of_bits. intros i Hi. rewrite N.lor_spec, shlw_testbit.
  rewrite (testbit_high (getw d (pos / w)) w i) by (try apply getw_ok; assumption).
  assert (i <? w = false) as -> by (apply N.ltb_ge; assumption). reflexivity.
Qed.

Lemma lenw_or_bits d pos v : lenw (or_bits w d pos v) = lenw d.
Proof. unfold or_bits. apply lenw_setw. Qed.

Lemma or_bits_testbit d pos l v i :
  words_ok w d -> pos / w < lenw d -> pos mod w + l <= w -> v < 2 ^ l ->
  N.testbit (raw w (or_bits w d pos v)) i =
  N.testbit (raw w d) i || ((pos <=? i) && (i <? pos + l) && N.testbit v (i - pos)).
Proof.
  intros Hd Hp Hl Hv.
  rewrite !(raw_testbit w Hw) by (try apply words_ok_or_bits; assumption).
  unfold or_bits. rewrite getw_setw.
  assert (pos / w <? lenw d = true) as -> by (apply N.ltb_lt; assumption).
  rewrite andb_true_r.
  pose proof (div_mod_eq pos w) as Ep. pose proof (mod_lt' pos w Hw) as Hpm.
  pose proof (div_mod_eq i w) as Ei. pose proof (mod_lt' i w Hw) as Him.
  clear Hd Hp.
  destruct (N.eqb_spec (pos / w) (i / w)) as [Heq|Hne].
  - rewrite N.lor_spec, shlw_testbit. rewrite Heq. f_equal.
    assert (i mod w <? w = true) as -> by (apply N.ltb_lt; assumption). cbn [andb].
    rewrite Heq in Ep. revert Ep Hpm Ei Him Hl.
    generalize (pos mod w) (i mod w) (i / w). intros pm im q Ep Hpm Ei Him Hl.
    assert ((pm <=? im) = (pos <=? i)) as ->.
    { destruct (N.leb_spec pm im); destruct (N.leb_spec pos i); try reflexivity; lia. }
    destruct (N.leb_spec pos i) as [Hle|Hgt]; cbn [andb]; [|reflexivity].
    replace (im - pm) with (i - pos) by lia.
    destruct (N.ltb_spec i (pos + l)); cbn [andb]; [reflexivity|].
    apply (testbit_high v l); [assumption|lia].
  - assert ((pos <=? i) && (i <? pos + l) = false) as ->; [|cbn [andb]; rewrite orb_false_r; reflexivity].
    apply andb_false_iff.
    destruct (N.lt_ge_cases (i / w) (pos / w)).
    + left. apply N.leb_gt. nia.
    + right. apply N.ltb_ge. assert (pos / w + 1 <= i / w) by lia. nia.
Qed.

(* copying one chunk of l bits from src[spos..] to dst[dpos..] *)
Lemma copy_chunk_testbit src dst spos dpos l i :
  words_ok w src -> words_ok w dst -> dpos / w < lenw dst ->
  dpos mod w + l <= w -> spos mod w + l <= w ->
  N.testbit (raw w (or_bits w dst dpos (read_bits w src spos l))) i =
  N.testbit (raw w dst) i ||
  ((dpos <=? i) && (i <? dpos + l) && N.testbit (raw w src) (spos + (i - dpos))).
Proof.
  intros Hs Hd Hp Hdl Hsl.
  rewrite (or_bits_testbit dst dpos l) by (assumption || apply read_bits_lt).
  rewrite (read_bits_testbit w Hw) by assumption.
  f_equal.
  destruct (N.leb_spec dpos i) as [H1|H1]; cbn [andb]; [|reflexivity].
  destruct (N.ltb_spec i (dpos + l)) as [H2|H2]; cbn [andb]; [|reflexivity].
  assert (i - dpos <? l = true) as -> by (apply N.ltb_lt; lia). reflexivity.
Qed.

(* ------------------------------------------------------------------ rotr *)

Lemma rotr_loop_inv rot len src :
  words_ok w src -> len <= w * lenw src -> rot <= len ->
  forall fuel dst idx,
    words_ok w dst -> lenw dst = lenw src -> idx <= len -> (N.to_nat (len - idx) < fuel)%nat ->
    (forall i, N.testbit (raw w dst) i = (i <? idx) && N.testbit (raw w src) (ridx i rot len)) ->
    exists d', rotr_loop fuel w rot len src dst idx = Ok d' /\ words_ok w d' /\ lenw d' = lenw src /\
      (forall i, N.testbit (raw w d') i = (i <? len) && N.testbit (raw w src) (ridx i rot len)).
Proof.
  intros Hs Hlen Hrot. induction fuel as [|f IH]; intros dst idx Hd Hld Hidx Hfuel Hinv; [lia|].
  cbn [rotr_loop].
  destruct (N.ltb_spec idx len) as [Hlt|Hge].
  - change ((idx + rot) mod len) with (ridx idx rot len).
    assert (Hold : ridx idx rot len < len) by (apply ridx_lt; lia).
    destruct (chunk_len w idx (ridx idx rot len) len Hw Hlt Hold) as (l & -> & Hl0 & Hl1 & Hl2 & Hl3 & Hl4).
    assert (Hdiv : idx / w < lenw dst).
    { apply div_lt_of_lt_mul; [assumption|]. rewrite Hld. lia. }
    apply IH.
    + apply words_ok_or_bits; assumption.
    + rewrite lenw_or_bits. assumption.
    + lia.
    + clear - Hl0 Hl3 Hfuel. lia.
    + intros i. rewrite copy_chunk_testbit by assumption. rewrite Hinv.
      clear - Hl0 Hl3 Hl4 Hlt Hrot.
      destruct (N.ltb_spec i idx) as [H1|H1].
      * assert (idx <=? i = false) as -> by (apply N.leb_gt; assumption).
        assert (i <? idx + l = true) as -> by (apply N.ltb_lt; lia).
        cbn [andb]. apply orb_false_r.
      * assert (idx <=? i = true) as -> by (apply N.leb_le; assumption).
        cbn [andb orb].
        destruct (N.ltb_spec i (idx + l)) as [H3|H3]; cbn [andb]; [|reflexivity].
        f_equal. replace i with (idx + (i - idx)) at 2 by lia.
        symmetry. apply ridx_chunk; lia.
  - exists dst. split; [reflexivity|]. split; [assumption|]. split; [assumption|].
    assert (idx = len) by lia. subst idx. assumption.
Qed.

(* ------------------------------------------------------------------ rotl *)

(* the source index of destination bit i is ridx i (len - rot) len *)
Lemma rotl_loop_inv rot len src :
  words_ok w src -> len <= w * lenw src -> rot <= len ->
  forall fuel dst idx,
    words_ok w dst -> lenw dst = lenw src -> idx <= len -> (N.to_nat (len - idx) < fuel)%nat ->
    (forall i, N.testbit (raw w dst) i =
               (i <? len) && (ridx i (len - rot) len <? idx) && N.testbit (raw w src) (ridx i (len - rot) len)) ->
    exists d', rotl_loop fuel w rot len src dst idx = Ok d' /\ words_ok w d' /\ lenw d' = lenw src /\
      (forall i, N.testbit (raw w d') i = (i <? len) && N.testbit (raw w src) (ridx i (len - rot) len)).
Proof.
  intros Hs Hlen Hrot. induction fuel as [|f IH]; intros dst idx Hd Hld Hidx Hfuel Hinv; [lia|].
  cbn [rotl_loop].
  destruct (N.ltb_spec idx len) as [Hlt|Hge].
  - change ((idx + rot) mod len) with (ridx idx rot len).
    assert (Hnew : ridx idx rot len < len) by (apply ridx_lt; lia).
    assert (Hpre : ridx (ridx idx rot len) (len - rot) len = idx) by (apply ridx_post_pre; lia).
    remember (ridx idx rot len) as new eqn:Enew.
    destruct (chunk_len w new idx len Hw Hnew Hlt) as (l & -> & Hl0 & Hl1 & Hl2 & Hl3 & Hl4).
    assert (Hdiv : new / w < lenw dst).
    { apply div_lt_of_lt_mul; [assumption|]. rewrite Hld. lia. }
    apply IH.
    + apply words_ok_or_bits; assumption.
    + rewrite lenw_or_bits. assumption.
    + lia.
    + clear - Hl0 Hl4 Hfuel. lia.
    + intros i. rewrite copy_chunk_testbit by assumption. rewrite Hinv.
      clear - Hl0 Hl3 Hl4 Hlt Hrot Hnew Hpre Enew.
      assert (Hout : i < len -> idx <= ridx i (len - rot) len -> ridx i (len - rot) len < idx + l ->
                     new <= i < new + l).
      { intros Hil Hp1 Hp2.
        assert (E : ridx (ridx i (len - rot) len) rot len = i) by (apply ridx_pre_post; lia).
        remember (ridx i (len - rot) len) as p eqn:Ep. clear Ep.
        replace p with (idx + (p - idx)) in E by lia.
        rewrite ridx_chunk in E by lia. lia. }
      destruct (N.leb_spec new i) as [H2|H2]; [destruct (N.ltb_spec i (new + l)) as [H3|H3]|]; cbn [andb].
      * (* i inside the destination chunk *)
        assert (ridx i (len - rot) len = idx + (i - new)) as ->.
        { replace i with (new + (i - new)) at 1 by lia. rewrite ridx_chunk; lia. }
        assert (i <? len = true) as -> by (apply N.ltb_lt; lia).
        assert (idx + (i - new) <? idx = false) as -> by (apply N.ltb_ge; lia).
        assert (idx + (i - new) <? idx + l = true) as -> by (apply N.ltb_lt; lia).
        reflexivity.
      * rewrite orb_false_r.
        destruct (N.ltb_spec i len) as [Hil|Hil]; cbn [andb]; [|reflexivity].
        f_equal. specialize (Hout Hil).
        destruct (N.ltb_spec (ridx i (len - rot) len) idx);
          destruct (N.ltb_spec (ridx i (len - rot) len) (idx + l)); try reflexivity; lia.
      * rewrite orb_false_r.
        destruct (N.ltb_spec i len) as [Hil|Hil]; cbn [andb]; [|reflexivity].
        f_equal. specialize (Hout Hil).
        destruct (N.ltb_spec (ridx i (len - rot) len) idx);
          destruct (N.ltb_spec (ridx i (len - rot) len) (idx + l)); try reflexivity; lia.
  - exists dst. split; [reflexivity|]. split; [assumption|]. split; [assumption|].
    assert (idx = len) by lia. subst idx. intros i. rewrite Hinv.
    destruct (N.ltb_spec i len) as [Hil|Hil]; cbn [andb]; [|reflexivity].
    assert (ridx i (len - rot) len <? len = true) as -> by (apply N.ltb_lt, ridx_lt; lia).
    reflexivity.
Qed.

End W.

(* ------------------------------------------------------------------ main statements *)

Lemma rotl_spec w v r :
  0 < w -> canon_wv w v -> r <= wl v ->
  exists v', v_rotl w v r = Ok v' /\ canon_wv w v' /\ wl v' = wl v /\ lenw (wd v') = lenw (wd v) /\
    forall i, i < wl v -> N.testbit (raw w (wd v')) ((i + r) mod wl v) = N.testbit (raw w (wd v)) i.
Proof.
  intros Hw (Hok & Hlen & Hraw) Hr.
  destruct (rotl_loop_inv w Hw r (wl v) (wd v) Hok Hlen Hr (S (N.to_nat (wl v))) (zerosw (lenw (wd v))) 0)
    as (d' & E & Hd' & Hl' & Hb).
  - apply words_ok_zerosw.
  - apply lenw_zerosw.
  - lia.
  - lia.
  - intros i. rewrite raw_zerosw, N.bits_0.
    assert (ridx i (wl v - r) (wl v) <? 0 = false) as -> by (apply N.ltb_ge; lia).
    rewrite andb_false_r. reflexivity.
  - exists (mkwv d' (wl v)). unfold v_rotl. rewrite E. cbn [bind wd wl].
    split; [reflexivity|]. split; [|split; [reflexivity|split; [assumption|]]].
    + apply canon_of_bits; [assumption|rewrite Hl'; assumption|].
      intros i Hi. rewrite Hb. assert (i <? wl v = false) as -> by (apply N.ltb_ge; assumption). reflexivity.
    + intros i Hi. change ((i + r) mod wl v) with (ridx i r (wl v)). rewrite Hb.
      assert (ridx i r (wl v) <? wl v = true) as -> by (apply N.ltb_lt, ridx_lt; lia).
      cbn [andb]. f_equal. apply ridx_post_pre; assumption.
Qed.

Lemma rotr_spec w v r :
  0 < w -> canon_wv w v -> r <= wl v ->
  exists v', v_rotr w v r = Ok v' /\ canon_wv w v' /\ wl v' = wl v /\ lenw (wd v') = lenw (wd v) /\
    forall i, i < wl v -> N.testbit (raw w (wd v')) i = N.testbit (raw w (wd v)) ((i + r) mod wl v).
Proof.
  intros Hw (Hok & Hlen & Hraw) Hr.
  destruct (rotr_loop_inv w Hw r (wl v) (wd v) Hok Hlen Hr (S (N.to_nat (wl v))) (zerosw (lenw (wd v))) 0)
    as (d' & E & Hd' & Hl' & Hb).
  - apply words_ok_zerosw.
  - apply lenw_zerosw.
  - lia.
  - lia.
  - intros i. rewrite raw_zerosw, N.bits_0.
    assert (i <? 0 = false) as -> by (apply N.ltb_ge; lia). reflexivity.
  - exists (mkwv d' (wl v)). unfold v_rotr. rewrite E. cbn [bind wd wl].
    split; [reflexivity|]. split; [|split; [reflexivity|split; [assumption|]]].
    + apply canon_of_bits; [assumption|rewrite Hl'; assumption|].
      intros i Hi. rewrite Hb. assert (i <? wl v = false) as -> by (apply N.ltb_ge; assumption). reflexivity.
    + intros i Hi. rewrite Hb.
      assert (i <? wl v = true) as -> by (apply N.ltb_lt; assumption). reflexivity.
Qed.
