(* Proofs/Facts2.v: decimal digits, run-length facts, and parsing of formatted output *)
From BVA Require Import Base.Prelude Base.Result Base.Words Base.Limbs.
From BVA Require Import Model.Core Model.Ops Model.Arith Model.Conv Model.Auto Model.Run Spec.Spec Spec.Prop.
From BVA Require Import Proofs.Common Proofs.Rechunk Proofs.Lift Proofs.Counts Proofs.FmtParse.
From Coq Require Import ZifyBool ZifyN ZifyNat.

(* ================================================================== Part 1: decimal digits *)

Lemma div10_lt_pow2 x f : x < 2 ^ (N.of_nat (S f)) -> x / 10 < 2 ^ (N.of_nat f).
Proof.
  intros Hx. replace (N.of_nat (S f)) with (N.of_nat f + 1) in Hx by lia.
  rewrite N.pow_add_r, N.pow_1_r in Hx. set (P := 2 ^ N.of_nat f) in *. clearbody P.
  apply N.div_lt_upper_bound; lia.
Qed.

Lemma digits_dec_fuel_value : forall f x acc, x < 2 ^ (N.of_nat f) ->
  val_of_digits 10 (digits_dec_fuel f x acc) = x * 10 ^ lenw acc + val_of_digits 10 acc.
Proof.
  induction f as [|f IH]; intros x acc Hx.
  - cbn [digits_dec_fuel]. change (2 ^ N.of_nat 0) with 1 in Hx.
    assert (x = 0) as -> by lia. lia.
  - cbn [digits_dec_fuel]. destruct (N.eqb_spec x 0) as [->|Hnz]; [lia|].
    rewrite IH by (apply div10_lt_pow2; assumption).
    rewrite vod_cons, lenw_cons, N.pow_add_r, N.pow_1_r.
    set (P := 10 ^ lenw acc). clearbody P. set (v := val_of_digits 10 acc). clearbody v.
    assert (x = 10 * (x / 10) + x mod 10) as E by lia.
    set (q := x / 10) in *. set (r := x mod 10) in *. clearbody q r. subst x. lia.
Qed.

Lemma digits_dec_fuel_lt10 : forall f x acc, Forall (fun d => d < 10) acc ->
  Forall (fun d => d < 10) (digits_dec_fuel f x acc).
Proof.
  induction f as [|f IH]; intros x acc Ha; cbn [digits_dec_fuel]; [assumption|].
  destruct (x =? 0); [assumption|]. apply IH. constructor; [lia|assumption].
Qed.

Lemma digits_dec_fuel_hd : forall f x acc, x < 2 ^ (N.of_nat f) ->
  x <> 0 \/ hd 0 acc <> 0 -> hd 0 (digits_dec_fuel f x acc) <> 0.
Proof.
  induction f as [|f IH]; intros x acc Hx Hd.
  - cbn [digits_dec_fuel]. change (2 ^ N.of_nat 0) with 1 in Hx. destruct Hd as [Hd|Hd]; [lia|assumption].
  - cbn [digits_dec_fuel]. destruct (N.eqb_spec x 0) as [->|Hnz].
    + destruct Hd as [Hd|Hd]; [lia|assumption].
    + apply IH; [apply div10_lt_pow2; assumption|]. cbn [hd]. lia.
Qed.

Lemma dec_fuel_enough x : x < 2 ^ N.of_nat (S (N.to_nat (N.size x))).
Proof.
  eapply N.lt_le_trans; [apply size_lt_pow2|]. apply pow2_le. lia.
Qed.

Lemma digits_dec_value x : val_of_digits 10 (digits_dec x) = x.
Proof.
  unfold digits_dec. destruct (N.eqb_spec x 0) as [->|Hnz]; [reflexivity|].
  rewrite digits_dec_fuel_value by apply dec_fuel_enough.
  rewrite vod_nil. change (lenw []) with 0. rewrite N.pow_0_r. lia.
Qed.

Lemma digits_dec_lt10 x : Forall (fun d => d < 10) (digits_dec x).
Proof.
  unfold digits_dec. destruct (x =? 0).
  - constructor; [lia|constructor].
  - apply digits_dec_fuel_lt10. constructor.
Qed.

Lemma digits_dec_minimal x : x <> 0 -> hd 0 (digits_dec x) <> 0.
Proof.
  intros Hnz. unfold digits_dec. destruct (N.eqb_spec x 0) as [E|_]; [contradiction|].
  apply digits_dec_fuel_hd; [apply dec_fuel_enough|left; assumption].
Qed.

(* ================================================================== Part 2: run lengths *)

Lemma count_run_le b l : count_run b l <= N.of_nat (length l).
Proof.
  induction l as [|x r IH]; [cbn [count_run length]; lia|].
  cbn [count_run length]. destruct (Bool.eqb x b); lia.
Qed.

(* the run has length exactly k iff the first k entries are b and the run stops at k *)
Lemma count_run_exact b l : forall k : nat, (k <= length l)%nat ->
  (count_run b l = N.of_nat k <->
   (forall i, (i < k)%nat -> nth i l (negb b) = b) /\ (k = length l \/ nth k l b = negb b)).
Proof.
  induction l as [|x r IH]; intros k Hk.
  - cbn [length] in Hk. assert (k = 0%nat) as -> by lia. cbn [count_run length].
    split; [intros _; split; [intros i Hi; lia|left; reflexivity]|intros _; reflexivity].
  - cbn [length] in Hk. cbn [count_run]. destruct k as [|k].
    + cbn [nth length]. destruct x, b; cbn [Bool.eqb negb]; split.
      all: try (intros Hc; exfalso; lia).
      all: try (intros [_ [Hc|Hc]]; exfalso; [lia|discriminate]).
      all: try (intros _; split; [intros i Hi; lia|right; reflexivity]).
      all: intros _; reflexivity.
    + destruct (Bool.eqb x b) eqn:Exb.
      * apply Bool.eqb_prop in Exb. subst x.
        assert (k <= length r)%nat as Hk' by lia. specialize (IH k Hk').
        cbn [length]. split.
        -- intros Hc. assert (count_run b r = N.of_nat k) as Hc' by lia.
           apply IH in Hc'. destruct Hc' as [Hall Hstop]. split.
           ++ intros [|i] Hi; cbn [nth]; [reflexivity|apply Hall; lia].
           ++ cbn [nth]. destruct Hstop as [->|Hs]; [left; reflexivity|right; assumption].
        -- intros [Hall Hstop].
           assert (count_run b r = N.of_nat k) as Hc'; [|lia].
           apply IH. split.
           ++ intros i Hi. apply (Hall (S i)). lia.
           ++ cbn [nth] in Hstop. destruct Hstop as [Hs|Hs]; [left; lia|right; assumption].
      * split; [intros Hc; exfalso; lia|].
        intros [Hall _]. specialize (Hall 0%nat ltac:(lia)). cbn [nth] in Hall. subst x.
        rewrite Bool.eqb_reflx in Exb. discriminate.
Qed.

Lemma nth_bools (f : N -> bool) n i d : (i < N.to_nat n)%nat ->
  nth i (map f (nrange n)) d = f (N.of_nat i).
Proof.
  intros Hi. unfold nrange. rewrite map_map.
  rewrite (nth_indep _ d (f (N.of_nat 0))) by (rewrite map_length, seq_length; assumption).
  rewrite (map_nth (fun x => f (N.of_nat x)) (seq 0 (N.to_nat n)) 0%nat i).
  rewrite seq_nth by assumption. reflexivity.
Qed.

Lemma nth_bools_rev (f : N -> bool) n i d : (i < N.to_nat n)%nat ->
  nth i (rev (map f (nrange n))) d = f (n - 1 - N.of_nat i).
Proof.
  intros Hi. rewrite rev_nth by (rewrite map_length, nrange_length; assumption).
  rewrite map_length, nrange_length. rewrite nth_bools by lia. f_equal. lia.
Qed.

Lemma bools_length a : length (bools_of a) = N.to_nat (blen a).
Proof. unfold bools_of. rewrite map_length. apply nrange_length. Qed.

Lemma lenw_bools a : N.of_nat (length (bools_of a)) = blen a.
Proof. rewrite bools_length. lia. Qed.

Lemma lenw_rev_bools a : N.of_nat (length (rev (bools_of a))) = blen a.
Proof. rewrite rev_length, bools_length. lia. Qed.

(* run from index 0 upwards *)
Lemma run_up_exact b a k : k <= blen a ->
  (count_run b (bools_of a) = k <->
   (forall i, i < k -> N.testbit (bval a) i = b) /\ (k = blen a \/ N.testbit (bval a) k = negb b)).
Proof.
  intros Hk. pose proof (count_run_exact b (bools_of a) (N.to_nat k)) as H.
  rewrite bools_length, N2Nat.id in H. specialize (H ltac:(lia)). rewrite H. clear H.
  unfold bools_of. split; intros [Hall Hstop]; split.
  - intros i Hi. specialize (Hall (N.to_nat i) ltac:(lia)).
    rewrite nth_bools, N2Nat.id in Hall by lia. exact Hall.
  - destruct (N.eq_dec k (blen a)) as [E|Hne]; [left; exact E|right].
    destruct Hstop as [Hs|Hs]; [lia|]. rewrite nth_bools, N2Nat.id in Hs by lia. exact Hs.
  - intros i Hi. rewrite nth_bools by lia. apply Hall. lia.
  - destruct (N.eq_dec k (blen a)) as [E|Hne]; [left; lia|right].
    destruct Hstop as [Hs|Hs]; [lia|]. rewrite nth_bools, N2Nat.id by lia. exact Hs.
Qed.

(* run from index len - 1 downwards *)
Lemma run_down_exact b a k : k <= blen a ->
  (count_run b (rev (bools_of a)) = k <->
   (forall i, i < k -> N.testbit (bval a) (blen a - 1 - i) = b) /\
   (k = blen a \/ N.testbit (bval a) (blen a - 1 - k) = negb b)).
Proof.
  intros Hk. pose proof (count_run_exact b (rev (bools_of a)) (N.to_nat k)) as H.
  rewrite rev_length, bools_length, N2Nat.id in H. specialize (H ltac:(lia)). rewrite H. clear H.
  unfold bools_of. split; intros [Hall Hstop]; split.
  - intros i Hi. specialize (Hall (N.to_nat i) ltac:(lia)).
    rewrite nth_bools_rev, N2Nat.id in Hall by lia. exact Hall.
  - destruct (N.eq_dec k (blen a)) as [E|Hne]; [left; exact E|right].
    destruct Hstop as [Hs|Hs]; [lia|]. rewrite nth_bools_rev, N2Nat.id in Hs by lia. exact Hs.
  - intros i Hi. rewrite nth_bools_rev by lia. apply Hall. lia.
  - destruct (N.eq_dec k (blen a)) as [E|Hne]; [left; lia|right].
    destruct Hstop as [Hs|Hs]; [lia|]. rewrite nth_bools_rev, N2Nat.id by lia. exact Hs.
Qed.

Lemma leading_zeros_run a : bval a < 2 ^ blen a ->
  s_leading_zeros a = count_run false (rev (bools_of a)).
Proof.
  intros Hwf. unfold s_leading_zeros, bools_of. symmetry. apply lead_zeros_list. assumption.
Qed.

Lemma leading_zeros_le a : s_leading_zeros a <= blen a.
Proof. unfold s_leading_zeros. lia. Qed.

Lemma leading_ones_le a : s_leading_ones a <= blen a.
Proof. unfold s_leading_ones. rewrite <- (lenw_rev_bools a). apply count_run_le. Qed.

Lemma trailing_zeros_le a : s_trailing_zeros a <= blen a.
Proof. unfold s_trailing_zeros. rewrite <- (lenw_bools a). apply count_run_le. Qed.

Lemma trailing_ones_le a : s_trailing_ones a <= blen a.
Proof. unfold s_trailing_ones. rewrite <- (lenw_bools a). apply count_run_le. Qed.

Lemma counts_empty a : blen a = 0 ->
  s_leading_zeros a = 0 /\ s_leading_ones a = 0 /\ s_trailing_zeros a = 0 /\ s_trailing_ones a = 0.
Proof.
  intros H0. pose proof (leading_zeros_le a). pose proof (leading_ones_le a).
  pose proof (trailing_zeros_le a). pose proof (trailing_ones_le a). lia.
Qed.

Lemma trailing_zeros_exact a k : k <= blen a ->
  (s_trailing_zeros a = k <->
   (forall i, i < k -> N.testbit (bval a) i = false) /\ (k = blen a \/ N.testbit (bval a) k = true)).
Proof. apply (run_up_exact false). Qed.

Lemma trailing_ones_exact a k : k <= blen a ->
  (s_trailing_ones a = k <->
   (forall i, i < k -> N.testbit (bval a) i = true) /\ (k = blen a \/ N.testbit (bval a) k = false)).
Proof. apply (run_up_exact true). Qed.

Lemma leading_ones_exact a k : k <= blen a ->
  (s_leading_ones a = k <->
   (forall i, i < k -> N.testbit (bval a) (blen a - 1 - i) = true) /\
   (k = blen a \/ N.testbit (bval a) (blen a - 1 - k) = false)).
Proof. apply (run_down_exact true). Qed.

Lemma leading_zeros_exact a k : bval a < 2 ^ blen a -> k <= blen a ->
  (s_leading_zeros a = k <->
   (forall i, i < k -> N.testbit (bval a) (blen a - 1 - i) = false) /\
   (k = blen a \/ N.testbit (bval a) (blen a - 1 - k) = true)).
Proof. intros Hwf. rewrite leading_zeros_run by assumption. apply (run_down_exact false). Qed.

Lemma counts_all_zero n : s_leading_zeros (mkbv n 0) = n /\ s_trailing_zeros (mkbv n 0) = n.
Proof.
  split.
  - unfold s_leading_zeros. cbn [blen bval]. rewrite size_0. lia.
  - apply trailing_zeros_exact; cbn [blen bval]; [lia|].
    split; [intros i _; apply N.bits_0|left; reflexivity].
Qed.

Lemma counts_all_ones n : s_leading_ones (mkbv n (N.ones n)) = n /\ s_trailing_ones (mkbv n (N.ones n)) = n.
Proof.
  split.
  - apply leading_ones_exact; cbn [blen bval]; [lia|].
    split; [intros i Hi; rewrite ones_testbit; lia|left; reflexivity].
  - apply trailing_ones_exact; cbn [blen bval]; [lia|].
    split; [intros i Hi; rewrite ones_testbit; lia|left; reflexivity].
Qed.

(* ================================================================== Part 3: parsing the formatted output *)

Lemma all_valid_map (digit : N -> option N) (ch : N -> N) ds (P : N -> Prop) :
  (forall d, P d -> digit (ch d) = Some d) -> Forall P ds ->
  all_valid digit (map ch ds) = true /\ digit_vals digit (map ch ds) = ds.
Proof.
  intros Hd Hf. induction Hf as [|d r Hp Hr [IH1 IH2]]; [split; reflexivity|].
  unfold all_valid, digit_vals in *. cbn [map forallb]. rewrite (Hd d Hp), IH1, IH2. split; reflexivity.
Qed.

Theorem from_binary_of_binary_format P k a : Good a -> kind_ok k ->
  exists s, fmt_binary P (xw a) (xv a) = Ok s /\
   (if fits k (lenw s)
    then exists r, k_from_binary k s = Ok r /\ Good r /\ kind_matches k r = true /\ bval (abs r) = bval (abs a)
    else k_from_binary k s = Err ECap).
Proof.
  intros Hg Hk. eexists. split; [apply fmt_binary_spec; assumption|].
  set (s := map (fun d => 48 + d) (digits_pow2 1 (val a))).
  destruct (all_valid_map bin_digit (fun d => 48 + d) (digits_pow2 1 (val a)) (fun d => d < 2 ^ 1)) as [Hv Hdv].
  { intros d Hd. apply bin_digit_char. change (2 ^ 1) with 2 in Hd. exact Hd. }
  { apply digits_pow2_range. lia. }
  fold s in Hv, Hdv. pose proof (k_from_binary_spec k s Hk) as H.
  unfold s_parse, sv in H. rewrite Hv, N.mul_1_r in H. destruct (fits k (lenw s)); [|exact H].
  destruct H as (r & Er & Hgr & Hm & Ha). exists r. split; [exact Er|]. split; [exact Hgr|]. split; [exact Hm|].
  rewrite Ha, Hdv. cbn [bval]. rewrite pow2_eq. change (2 ^ 1) with 2.
  rewrite parse_format_binary. destruct Hg as [Hc _]. rewrite (abs_Canon a Hc). reflexivity.
Qed.

Theorem from_hex_of_hex_format upper k a : Good a -> kind_ok k ->
  exists s, fmt_hex (xw a) (xv a) upper = Ok s /\
   (if fits k (4 * lenw s)
    then exists r, k_from_hex k s = Ok r /\ Good r /\ kind_matches k r = true /\ bval (abs r) = bval (abs a)
    else k_from_hex k s = Err ECap).
Proof.
  intros Hg Hk. eexists. split; [apply fmt_hex_spec; assumption|].
  set (s := map (digit_char upper) (digits_pow2 4 (val a))).
  destruct (all_valid_map hex_digit (digit_char upper) (digits_pow2 4 (val a)) (fun d => d < 2 ^ 4)) as [Hv Hdv].
  { intros d Hd. apply hex_digit_digit_char. change (2 ^ 4) with 16 in Hd. exact Hd. }
  { apply digits_pow2_range. lia. }
  fold s in Hv, Hdv. pose proof (k_from_hex_spec k s Hk) as H.
  unfold s_parse, sv in H. rewrite Hv, (N.mul_comm (lenw s) 4) in H. destruct (fits k (4 * lenw s)); [|exact H].
  destruct H as (r & Er & Hgr & Hm & Ha). exists r. split; [exact Er|]. split; [exact Hgr|]. split; [exact Hm|].
  rewrite Ha, Hdv. cbn [bval]. rewrite pow2_eq. change (2 ^ 4) with 16.
  rewrite parse_format_hex. destruct Hg as [Hc _]. rewrite (abs_Canon a Hc). reflexivity.
Qed.

Print Assumptions digits_dec_value.
Print Assumptions from_binary_of_binary_format.
Print Assumptions from_hex_of_hex_format.

(* ------------------------------------------------------------------ padding (C14: "standard prefixes and padding") *)

Definition natural_text (f : fspec) (prefix digits : list N) : list N :=
  (if f_plus f then [43] else []) ++ (if f_alt f then prefix else []) ++ digits.

Lemma lenw_app (a b : list N) : lenw (a ++ b) = lenw a + lenw b.
Proof. unfold lenw. rewrite app_length. lia. Qed.

Lemma lenw_repeatc c n : lenw (repeatc c n) = n.
Proof. unfold lenw, repeatc. rewrite repeat_length. lia. Qed.

(* the output is exactly as long as the larger of the requested width and the unpadded text *)
Lemma pad_integral_length f prefix digits :
  lenw (pad_integral f prefix digits) = N.max (f_width f) (lenw (natural_text f prefix digits)).
Proof.
  unfold pad_integral, natural_text.
  set (sign := if f_plus f then [43] else []). set (pre := if f_alt f then prefix else []).
  destruct (N.leb_spec (f_width f) (lenw (sign ++ pre ++ digits))) as [Hle|Hgt].
  - lia.
  - destruct (f_zero f).
    + rewrite !lenw_app, lenw_repeatc. rewrite !lenw_app in Hgt. lia.
    + destruct (f_align f) as [|[p|p|]]; try destruct p;
        rewrite ?lenw_app, ?lenw_repeatc; rewrite ?lenw_app in Hgt;
        try (pose proof (div_mod_eq (f_width f - (lenw sign + (lenw pre + lenw digits))) 2);
             pose proof (div_mod_eq (f_width f - (lenw sign + (lenw pre + lenw digits)) + 1) 2);
             pose proof (N.mod_upper_bound (f_width f - (lenw sign + (lenw pre + lenw digits))) 2);
             pose proof (N.mod_upper_bound (f_width f - (lenw sign + (lenw pre + lenw digits)) + 1) 2)); lia.
Qed.

(* no width, or a width the text already fills: sign, prefix (with #) and digits, nothing else *)
Lemma pad_integral_no_padding f prefix digits :
  f_width f <= lenw (natural_text f prefix digits) -> pad_integral f prefix digits = natural_text f prefix digits.
Proof.
  unfold pad_integral, natural_text. intros H.
  destruct (N.leb_spec (f_width f) (lenw ((if f_plus f then [43] else []) ++ (if f_alt f then prefix else []) ++ digits))); [reflexivity|lia].
Qed.

(* with the 0 flag the zeros go between the prefix and the digits, whatever fill and alignment say *)
Lemma pad_integral_zero_flag f prefix digits :
  f_zero f = true -> lenw (natural_text f prefix digits) < f_width f ->
  pad_integral f prefix digits =
  (if f_plus f then [43] else []) ++ (if f_alt f then prefix else []) ++
  repeatc 48 (f_width f - lenw (natural_text f prefix digits)) ++ digits.
Proof.
  unfold pad_integral, natural_text. intros Hz H.
  destruct (N.leb_spec (f_width f) (lenw ((if f_plus f then [43] else []) ++ (if f_alt f then prefix else []) ++ digits))); [lia|].
  rewrite Hz. reflexivity.
Qed.

(* without it the text is surrounded by the fill character: all on the right for <, split for ^ (the odd one on the
   right), all on the left for > and for no alignment (numbers are right-aligned by default) *)
Lemma pad_integral_fill f prefix digits :
  f_zero f = false -> lenw (natural_text f prefix digits) < f_width f ->
  let pad := f_width f - lenw (natural_text f prefix digits) in
  let l := match f_align f with 1 => 0 | 2 => pad / 2 | _ => pad end in
  pad_integral f prefix digits =
  repeatc (f_fill f) l ++ natural_text f prefix digits ++ repeatc (f_fill f) (pad - l).
Proof.
  unfold pad_integral, natural_text. intros Hz H. cbv zeta.
  set (body := (if f_plus f then [43] else []) ++ (if f_alt f then prefix else []) ++ digits) in *.
  destruct (N.leb_spec (f_width f) (lenw body)); [lia|]. rewrite Hz.
  set (pad := f_width f - lenw body).
  assert (forall c, repeatc c 0 = []) as R0 by reflexivity.
  destruct (f_align f) as [|[p|p|]]; try destruct p; rewrite ?R0, ?N.sub_0_r, ?N.sub_diag, ?R0, ?app_nil_r; cbn [app]; try reflexivity.
  replace (pad - pad / 2) with ((pad + 1) / 2); [reflexivity|].
  pose proof (div_mod_eq pad 2). pose proof (div_mod_eq (pad + 1) 2).
  pose proof (N.mod_upper_bound pad 2). pose proof (N.mod_upper_bound (pad + 1) 2). lia.
Qed.
