(* Proofs/Bytes.v *)
From BVA Require Import Base.Prelude Base.Result Base.Words Base.Limbs.
From BVA Require Import Model.Core Model.Ops Model.Arith Model.Conv Model.Auto Spec.Spec Proofs.Common.
From Coq Require Import ZifyBool ZifyN ZifyNat.
From BVA Require Import Spec.Prop.

Local Ltac Zify.zify_post_hook ::= Z.div_mod_to_equations.

Definition bytes_ok (l : list N) : Prop := Forall (fun b => b < 256) l.

(* ------------------------------------------------------------------ error paths *)

Lemma f_from_bytes_overflow w n bytes e :
  w * n < 8 * lenw bytes -> f_from_bytes w n bytes e = Err ECap.
Proof.
  intros H. unfold f_from_bytes.
  assert (w * n <? lenw bytes * 8 = true) as -> by (apply N.ltb_lt; lia). reflexivity.
Qed.

Lemma f_read_overflow w n reader len e : w * n < len -> f_read w n reader len e = Err EInvalidInput.
Proof.
  intros H. unfold f_read. apply N.ltb_lt in H. rewrite H. reflexivity.
Qed.

Lemma f_read_short w n reader len e :
  len <= w * n -> lenw reader < (len + 7) / 8 -> f_read w n reader len e = Err EEof.
Proof.
  intros H1 H2. unfold f_read.
  assert (w * n <? len = false) as -> by (apply N.ltb_ge; assumption).
  apply N.ltb_lt in H2. rewrite H2. reflexivity.
Qed.

Lemma d_read_short reader len e : lenw reader < (len + 7) / 8 -> d_read reader len e = Err EEof.
Proof.
  intros H. unfold d_read. apply N.ltb_lt in H. rewrite H. reflexivity.
Qed.

(* ------------------------------------------------------------------ powers of 256 *)

Lemma pow256 x : 256 ^ x = 2 ^ (8 * x).
Proof. rewrite N.pow_mul_r. reflexivity. Qed.

Lemma pow256_pos x : 0 < 256 ^ x.
Proof. rewrite pow256. apply pow2_pos. Qed.

Lemma pow256_succ x : 256 ^ (x + 1) = 256 * 256 ^ x.
Proof. rewrite N.add_1_r. apply N.pow_succ_r'. Qed.

(* ------------------------------------------------------------------ val_of_bytes_le *)

Lemma val_app l1 l2 :
  val_of_bytes_le (l1 ++ l2) = val_of_bytes_le l1 + 256 ^ lenw l1 * val_of_bytes_le l2.
Proof.
  induction l1 as [|b r IH].
  - cbn [app val_of_bytes_le]. rewrite lenw_nil. change (256 ^ 0) with 1. lia.
  - cbn [app val_of_bytes_le]. rewrite IH, lenw_cons, pow256_succ. lia.
Qed.

Lemma val_lt l : bytes_ok l -> val_of_bytes_le l < 256 ^ lenw l.
Proof.
  induction 1 as [|b r Hb Hr IH].
  - cbn. lia.
  - cbn [val_of_bytes_le]. rewrite lenw_cons, pow256_succ. lia.
Qed.

(* the k low bytes of x *)
Lemma val_bytes_of x k :
  val_of_bytes_le (map (fun j => trunc 8 (N.shiftr x (8 * j))) (nrange k)) = x mod 256 ^ k.
Proof.
  induction k as [|k IH] using N.peano_ind.
  - rewrite nrange_0. cbn [map val_of_bytes_le]. change (256 ^ 0) with 1. rewrite N.mod_1_r. reflexivity.
  - rewrite <- N.add_1_r, nrange_succ, map_app, val_app, IH. cbn [map val_of_bytes_le].
    assert (lenw (map (fun j => trunc 8 (N.shiftr x (8 * j))) (nrange k)) = k) as ->.
    { unfold lenw. rewrite map_length, nrange_length. lia. }
    rewrite N.pow_add_r, N.pow_1_r, N.mod_mul_r by (try apply N.neq_0_lt_0, pow256_pos; lia).
    rewrite trunc_mod, N.shiftr_div_pow2, <- pow256. change (2 ^ 8) with 256. lia.
Qed.

Lemma bytes_le_length a : lenw (bytes_le a) = (blen a + 7) / 8.
Proof. unfold bytes_le, lenw. rewrite map_length, nrange_length. lia. Qed.

Lemma val_of_bytes_le_bytes_le a : bval a < 2 ^ blen a -> val_of_bytes_le (bytes_le a) = bval a.
Proof.
  intros H. unfold bytes_le. rewrite val_bytes_of. apply N.mod_small.
  eapply N.lt_le_trans; [exact H|]. rewrite pow256. apply pow2_le. lia.
Qed.

Lemma to_vec_from_bytes_value a e : bval a < 2 ^ blen a ->
  bytes_value (match e with Little => bytes_le a | Big => rev (bytes_le a) end) e = bval a.
Proof.
  intros H. unfold bytes_value. destruct e; rewrite ?rev_involutive; apply val_of_bytes_le_bytes_le; assumption.
Qed.

(* ------------------------------------------------------------------ to_vec *)

Lemma omap_list_ok {A B} (f : A -> outcome B) (g : A -> B) l :
  (forall a, In a l -> f a = Ok (g a)) -> omap_list f l = Ok (map g l).
Proof.
  induction l as [|a r IH]; intros H.
  - reflexivity.
  - cbn [omap_list map]. rewrite (H a) by (left; reflexivity). cbn [bind].
    rewrite IH by (intros; apply H; right; assumption). reflexivity.
Qed.

Lemma byte_of_raw w bu d i :
  0 < bu -> w = 8 * bu -> words_ok w d ->
  wrap 8 (shrw (getw d (i / bu)) ((i mod bu) * 8)) = trunc 8 (N.shiftr (raw w d) (8 * i)).
Proof.
  intros Hbu Hw Hd. assert (0 < w) as Hw0 by lia.
  apply N.bits_inj. intro b.
  rewrite wrap_testbit, trunc_testbit, shrw_testbit, shiftr_testbit.
  destruct (N.ltb_spec b 8) as [Hb|Hb]; [|reflexivity]. cbn [andb].
  rewrite raw_testbit by assumption.
  pose proof (div_mod_eq i bu) as Ei. pose proof (mod_lt' i bu Hbu) as Hm.
  destruct (divmod_unique (b + 8 * i) w (i / bu) (b + i mod bu * 8) Hw0) as [-> ->]; [nia|lia|reflexivity].
Qed.

Lemma v_to_vec_spec w v e :
  0 < w -> w mod 8 = 0 -> canon_wv w v ->
  v_to_vec w v e = Ok (match e with
                       | Little => bytes_le (mkbv (wl v) (raw w (wd v)))
                       | Big => rev (bytes_le (mkbv (wl v) (raw w (wd v))))
                       end).
Proof.
  intros Hw H8 (Hd & Hl & _). unfold v_to_vec.
  set (bu := w / 8). assert (w = 8 * bu) as Ew by (unfold bu; lia). assert (0 < bu) as Hbu by lia.
  rewrite (omap_list_ok _ (fun i => wrap 8 (shrw (getw (wd v) (i / bu)) ((i mod bu) * 8)))).
  - cbn [bind]. unfold bytes_le. cbn [blen bval].
    assert (map (fun i => wrap 8 (shrw (getw (wd v) (i / bu)) (i mod bu * 8))) (nrange ((wl v + 7) / 8)) =
            map (fun j => trunc 8 (N.shiftr (raw w (wd v)) (8 * j))) (nrange ((wl v + 7) / 8))) as ->.
    { apply map_ext. intros i. apply byte_of_raw; assumption. }
    reflexivity.
  - intros i Hi. apply In_nrange in Hi. rewrite geto_ok; [reflexivity|].
    apply N.div_lt_upper_bound; [lia|]. nia.
Qed.

(* ------------------------------------------------------------------ enumerations and folds *)

Fixpoint enumf (k : N) (l : list N) : list (N * N) :=
  match l with [] => [] | b :: r => (k, b) :: enumf (k + 1) r end.

Lemma enum_enumf_gen l : forall k : nat,
  combine (map N.of_nat (seq k (length l))) l = enumf (N.of_nat k) l.
Proof.
  induction l as [|b r IH]; intros k; [reflexivity|].
  cbn [length seq map combine enumf]. f_equal. rewrite IH. f_equal. lia.
Qed.

Lemma enum_enumf l : enum l = enumf 0 l.
Proof. unfold enum, nrange, lenw. rewrite Nat2N.id. apply (enum_enumf_gen l 0). Qed.

Lemma enumf_shift l : forall k, enumf (k + 1) l = map (fun p => (fst p + 1, snd p)) (enumf k l).
Proof.
  induction l as [|b r IH]; intros k; [reflexivity|].
  cbn [enumf map fst snd]. f_equal. apply IH.
Qed.

Lemma enumf_app l1 l2 : forall k, enumf k (l1 ++ l2) = enumf k l1 ++ enumf (k + lenw l1) l2.
Proof.
  induction l1 as [|b r IH]; intros k.
  - cbn [app enumf]. rewrite lenw_nil, N.add_0_r. reflexivity.
  - cbn [app enumf]. rewrite IH, lenw_cons. f_equal. f_equal. f_equal. lia.
Qed.

Lemma In_enumf l : forall k p, In p (enumf k l) -> k <= fst p /\ fst p < k + lenw l.
Proof.
  induction l as [|b r IH]; intros k p H; [destruct H|].
  cbn [enumf] in H. rewrite lenw_cons. destruct H as [<-|H].
  - cbn [fst]. lia.
  - apply IH in H. lia.
Qed.

Lemma lenw_rev l : lenw (rev l) = lenw l.
Proof. unfold lenw. rewrite rev_length. reflexivity. Qed.

Lemma rev_enumf l :
  rev (enumf 0 l) = map (fun p => (lenw l - 1 - fst p, snd p)) (enumf 0 (rev l)).
Proof.
  induction l as [|b r IH]; [reflexivity|].
  cbn [enumf rev]. rewrite enumf_shift, <- map_rev, IH.
  rewrite enumf_app, map_app, map_map. cbn [enumf map fst snd]. rewrite N.add_0_l, lenw_rev.
  f_equal.
  - apply map_ext_in. intros p Hp. apply In_enumf in Hp. rewrite lenw_rev in Hp. rewrite lenw_cons.
    cbn [fst snd]. f_equal. lia.
  - rewrite lenw_cons. f_equal. f_equal. lia.
Qed.

Lemma fold_left_rev {A B} (f : A -> B -> A) l a :
  fold_left f (rev l) a = fold_right (fun b a => f a b) a l.
Proof.
  induction l as [|x r IH]; [reflexivity|].
  cbn [rev fold_right]. rewrite fold_left_app, IH. reflexivity.
Qed.

Lemma fold_left_as_right {A B} (f : A -> B -> A) l a :
  fold_left f l a = fold_right (fun b a => f a b) a (rev l).
Proof. rewrite <- fold_left_rev, rev_involutive. reflexivity. Qed.

Lemma fold_right_map' {A B C} (f : B -> C -> C) (g : A -> B) l c :
  fold_right f c (map g l) = fold_right (fun a c => f (g a) c) c l.
Proof. induction l as [|x r IH]; [reflexivity|]. cbn [map fold_right]. rewrite IH. reflexivity. Qed.

Lemma fold_right_ext_in {A B} (f g : A -> B -> B) l b :
  (forall a, In a l -> forall x, f a x = g a x) -> fold_right f b l = fold_right g b l.
Proof.
  induction l as [|x r IH]; intros H; [reflexivity|].
  cbn [fold_right]. rewrite IH by (intros; apply H; right; assumption).
  apply H. left. reflexivity.
Qed.

(* ------------------------------------------------------------------ bytes shifted into words *)

Lemma div256 b V : b < 256 -> (b + 256 * V) / 256 = V /\ (b + 256 * V) mod 256 = b.
Proof. intros H. apply divmod_unique; lia. Qed.

Lemma val_div_succ b V m : b < 256 -> (b + 256 * V) / 256 ^ (m + 1) = V / 256 ^ m.
Proof.
  intros H. pose proof (pow256_pos m).
  rewrite pow256_succ, <- N.div_div by lia. destruct (div256 b V H) as [-> _]. reflexivity.
Qed.

Lemma val_mod_succ b V m : b < 256 -> (b + 256 * V) mod 256 ^ (m + 1) = b + 256 * (V mod 256 ^ m).
Proof.
  intros H. pose proof (pow256_pos m).
  rewrite pow256_succ, N.mod_mul_r by lia. destruct (div256 b V H) as [-> ->]. reflexivity.
Qed.

Section Core.
Variables w bu : N.
Hypothesis Hbu : 0 < bu.
Hypothesis Ew : w = 8 * bu.

Definition pushw (x b : N) : N := N.lor (shlw w x 8) b.

Lemma pushw_spec x b : x < 256 ^ (bu - 1) -> b < 256 -> pushw x b = 256 * x + b.
Proof.
  intros Hx Hb. unfold pushw, shlw. rewrite N.shiftl_mul_pow2. change (2 ^ 8) with 256.
  rewrite wrap_small.
  - rewrite N.lor_comm. change 256 with (2 ^ 8) at 1. rewrite (N.mul_comm x).
    rewrite lor_disjoint_add by assumption. lia.
  - replace w with (8 * (bu - 1 + 1)) by lia. rewrite <- pow256, pow256_succ. lia.
Qed.

Lemma lenw_fold_push (h : N -> N) ps d :
  lenw (fold_right (fun (p : N * N) acc => push_byte w acc (h (fst p)) (snd p)) d ps) = lenw d.
Proof.
  induction ps as [|p r IH]; [reflexivity|]. cbn [fold_right]. unfold push_byte at 1.
  rewrite lenw_setw. assumption.
Qed.

Lemma getw_fold_push (h : N -> N) ps d j :
  j < lenw d ->
  getw (fold_right (fun (p : N * N) acc => push_byte w acc (h (fst p)) (snd p)) d ps) j =
  fold_right (fun (p : N * N) x => if h (fst p) =? j then pushw x (snd p) else x) (getw d j) ps.
Proof.
  intros Hj. induction ps as [|p r IH]; [reflexivity|]. cbn [fold_right]. unfold push_byte at 1.
  rewrite getw_setw, lenw_fold_push.
  destruct (N.eqb_spec (h (fst p)) j) as [->|Hne]; cbn [andb].
  - apply N.ltb_lt in Hj. rewrite Hj, IH. reflexivity.
  - assumption.
Qed.

Lemma wordfold lo (c : N -> bool) l : bytes_ok l -> forall k,
  (forall i, k <= i -> i < k + lenw l -> c i = (lo <=? i) && (i <? lo + bu)) ->
  fold_right (fun (p : N * N) x => if c (fst p) then pushw x (snd p) else x) 0 (enumf k l) =
  (val_of_bytes_le l / 256 ^ (lo - k)) mod 256 ^ (lo + bu - N.max k lo).
Proof.
  induction 1 as [|b r Hb Hr IH]; intros k Hc.
  - cbn [enumf fold_right val_of_bytes_le].
    pose proof (pow256_pos (lo - k)). pose proof (pow256_pos (lo + bu - N.max k lo)).
    rewrite N.div_0_l, N.mod_0_l by lia. reflexivity.
  - cbn [enumf fold_right fst snd val_of_bytes_le]. rewrite lenw_cons in Hc.
    rewrite IH by (intros; apply Hc; lia).
    rewrite (Hc k) by lia.
    destruct (N.leb_spec lo k) as [H1|H1]; cbn [andb].
    + destruct (N.ltb_spec k (lo + bu)) as [H2|H2].
      * replace (lo - (k + 1)) with 0 by lia. replace (lo - k) with 0 by lia.
        change (256 ^ 0) with 1. rewrite !N.div_1_r.
        replace (N.max (k + 1) lo) with (k + 1) by lia. replace (N.max k lo) with k by lia.
        replace (lo + bu - k) with (lo + bu - (k + 1) + 1) by lia.
        rewrite val_mod_succ by assumption. rewrite pushw_spec; [lia| |assumption].
        pose proof (pow256_pos (lo + bu - (k + 1))).
        eapply N.lt_le_trans; [apply N.mod_lt; lia|]. apply N.pow_le_mono_r; lia.
      * replace (lo + bu - N.max (k + 1) lo) with 0 by lia.
        replace (lo + bu - N.max k lo) with 0 by lia.
        change (256 ^ 0) with 1. rewrite !N.mod_1_r. reflexivity.
    + replace (N.max (k + 1) lo) with lo by lia. replace (N.max k lo) with lo by lia.
      replace (lo - k) with (lo - (k + 1) + 1) by lia.
      rewrite val_div_succ by assumption. reflexivity.
Qed.

Lemma div_eqb_window i j : (i / bu =? j) = (j * bu <=? i) && (i <? j * bu + bu).
Proof.
  pose proof (div_mod_eq i bu) as E. pose proof (mod_lt' i bu Hbu) as Hm.
  destruct (N.eqb_spec (i / bu) j) as [Heq|Hne].
  - subst j. symmetry. apply andb_true_iff. split; [apply N.leb_le|apply N.ltb_lt]; nia.
  - symmetry. apply andb_false_iff.
    destruct (N.lt_ge_cases (i / bu) j).
    + left. apply N.leb_gt. nia.
    + right. apply N.ltb_ge. assert (j + 1 <= i / bu) by lia. nia.
Qed.

Lemma core n (h : N -> N) l :
  bytes_ok l -> lenw l <= bu * n -> (forall i, i < lenw l -> h i = i / bu) ->
  let D := fold_right (fun (p : N * N) acc => push_byte w acc (h (fst p)) (snd p)) (zerosw n) (enumf 0 l) in
  words_ok w D /\ lenw D = n /\ raw w D = val_of_bytes_le l.
Proof.
  intros Hl Hn Hh D. assert (0 < w) as Hw by lia.
  assert (lenw D = n) as HL by (unfold D; rewrite lenw_fold_push; apply lenw_zerosw).
  assert (forall j, j < n -> getw D j = (val_of_bytes_le l / 2 ^ (w * j)) mod 2 ^ w) as HG.
  { intros j Hj. unfold D. rewrite getw_fold_push by (rewrite lenw_zerosw; assumption).
    rewrite getw_zerosw.
    rewrite (wordfold (j * bu) (fun i => h i =? j) l Hl 0).
    - rewrite N.sub_0_r. replace (j * bu + bu - N.max 0 (j * bu)) with bu by lia.
      rewrite !pow256, Ew. replace (8 * (j * bu)) with (8 * bu * j) by lia. reflexivity.
    - intros i _ Hi. rewrite Hh by lia. apply div_eqb_window. }
  assert (words_ok w D) as HD.
  { apply words_ok_getw. intros j Hj. rewrite HG by lia. apply N.mod_lt, pow2_ne0. }
  split; [assumption|]. split; [assumption|].
  apply N.bits_inj. intro i. rewrite raw_testbit by assumption.
  pose proof (div_mod_eq i w) as Ei. pose proof (mod_lt' i w Hw) as Hm.
  destruct (N.lt_ge_cases (i / w) n) as [Hlt|Hge].
  - rewrite HG by assumption. rewrite mod_pow2_testbit, div_pow2_testbit.
    apply N.ltb_lt in Hm. rewrite Hm. cbn [andb]. f_equal. lia.
  - rewrite getw_high by lia. rewrite N.bits_0. symmetry.
    apply (testbit_high _ (8 * lenw l)).
    + rewrite <- pow256. apply val_lt. assumption.
    + nia.
Qed.

(* little-endian style loop: bytes taken last to first, byte i goes to word i / bu *)
Lemma fold_little n (h : N -> N) l :
  bytes_ok l -> lenw l <= bu * n -> (forall i, i < lenw l -> h i = i / bu) ->
  let D := fold_left (fun d (p : N * N) => push_byte w d (h (fst p)) (snd p)) (rev (enum l)) (zerosw n) in
  words_ok w D /\ lenw D = n /\ raw w D = val_of_bytes_le l.
Proof.
  intros Hl Hn Hh. rewrite fold_left_rev, enum_enumf. apply core; assumption.
Qed.

(* big-endian style loop: bytes taken first to last, byte i goes to word (len - 1 - i) / bu *)
Lemma fold_big n (g : N -> N) l :
  bytes_ok l -> lenw l <= bu * n -> (forall i, i < lenw l -> g i = (lenw l - 1 - i) / bu) ->
  let D := fold_left (fun d (p : N * N) => push_byte w d (g (fst p)) (snd p)) (enum l) (zerosw n) in
  words_ok w D /\ lenw D = n /\ raw w D = val_of_bytes_le (rev l).
Proof.
  intros Hl Hn Hg. rewrite fold_left_as_right, enum_enumf, rev_enumf, fold_right_map'. cbn [fst snd].
  apply (core n (fun i => g (lenw l - 1 - i)) (rev l)).
  - apply Forall_rev. assumption.
  - rewrite lenw_rev. assumption.
  - intros i Hi. rewrite lenw_rev in Hi. rewrite Hg by lia. f_equal. lia.
Qed.

End Core.

(* ------------------------------------------------------------------ from_bytes *)

Lemma shlw8_8 x : shlw 8 x 8 = 0.
Proof.
  apply N.bits_inj. intro i. rewrite shlw_testbit, N.bits_0.
  destruct (N.ltb_spec i 8); destruct (N.leb_spec 8 i); try reflexivity; lia.
Qed.

Lemma push_byte8 d j b : push_byte 8 d j b = setw d j b.
Proof. unfold push_byte. rewrite shlw8_8, N.lor_0_l. reflexivity. Qed.

Lemma fold_left_ext {A B} (f g : A -> B -> A) l a :
  (forall a b, f a b = g a b) -> fold_left f l a = fold_left g l a.
Proof.
  intros H. revert a. induction l as [|x r IH]; intros a; [reflexivity|].
  cbn [fold_left]. rewrite H. apply IH.
Qed.

Lemma bytes_value_lt l e : bytes_ok l -> bytes_value l e < 2 ^ (8 * lenw l).
Proof.
  intros H. rewrite <- pow256. unfold bytes_value. destruct e.
  - apply val_lt. assumption.
  - rewrite <- lenw_rev. apply val_lt. apply Forall_rev. assumption.
Qed.

Lemma f_from_bytes_spec w n bytes e :
  0 < w -> w mod 8 = 0 -> bytes_ok bytes -> 8 * lenw bytes <= w * n ->
  exists v, f_from_bytes w n bytes e = Ok v /\ canon_wv w v /\ lenw (wd v) = n /\
            wl v = 8 * lenw bytes /\ raw w (wd v) = bytes_value bytes e.
Proof.
  intros Hw H8 Hb Hn. unfold f_from_bytes.
  assert (w * n <? lenw bytes * 8 = false) as -> by (apply N.ltb_ge; lia).
  set (bu := w / 8). assert (w = 8 * bu) as Ew by (unfold bu; lia). assert (0 < bu) as Hbu by lia.
  assert (lenw bytes <= bu * n) as Hn' by nia.
  eexists. split; [reflexivity|]. cbn [wd wl].
  match goal with |- canon_wv w (mkwv ?d _) /\ _ => set (D := d) end.
  assert (words_ok w D /\ lenw D = n /\ raw w D = bytes_value bytes e) as (HD & HL & HR).
  { unfold D, bytes_value. destruct e.
    - assert ((if bu =? 1
               then fold_left (fun d (p : N * N) => setw d (fst p) (snd p)) (rev (enum bytes)) (zerosw n)
               else fold_left (fun d (p : N * N) => push_byte w d (fst p / bu) (snd p)) (rev (enum bytes)) (zerosw n))
              = fold_left (fun d (p : N * N) => push_byte w d (fst p / bu) (snd p)) (rev (enum bytes)) (zerosw n)) as ->.
      { destruct (N.eqb_spec bu 1) as [E1|_]; [|reflexivity].
        assert (w = 8) as -> by lia. rewrite E1. apply fold_left_ext. intros d p.
        rewrite push_byte8, N.div_1_r. reflexivity. }
      apply (fold_little w bu Hbu Ew n (fun i => i / bu)); auto.
    - assert ((if bu =? 1
               then fold_left (fun d (p : N * N) => setw d (lenw bytes - 1 - fst p) (snd p)) (enum bytes) (zerosw n)
               else fold_left (fun d (p : N * N) => push_byte w d ((lenw bytes - 1 - fst p) / bu) (snd p)) (enum bytes) (zerosw n))
              = fold_left (fun d (p : N * N) => push_byte w d ((lenw bytes - 1 - fst p) / bu) (snd p)) (enum bytes) (zerosw n)) as ->.
      { destruct (N.eqb_spec bu 1) as [E1|_]; [|reflexivity].
        assert (w = 8) as -> by lia. rewrite E1. apply fold_left_ext. intros d p.
        rewrite push_byte8, N.div_1_r. reflexivity. }
      apply (fold_big w bu Hbu Ew n (fun i => (lenw bytes - 1 - i) / bu)); auto. }
  split; [|split; [assumption|split; [lia|assumption]]].
  unfold canon_wv. cbn [wd wl]. split; [assumption|]. split; [lia|].
  rewrite HR. replace (lenw bytes * 8) with (8 * lenw bytes) by lia. apply bytes_value_lt. assumption.
Qed.

Lemma d_fold l :
  bytes_ok l ->
  words_ok 64 (fold_left (fun d (p : N * N) =>
                 push_byte 64 d (cfbyl_d (lenw l) - 1 - (fst p + (8 - lenw l mod 8) mod 8) / 8) (snd p))
               (enum l) (zerosw (cfbyl_d (lenw l)))) /\
  lenw (fold_left (fun d (p : N * N) =>
                 push_byte 64 d (cfbyl_d (lenw l) - 1 - (fst p + (8 - lenw l mod 8) mod 8) / 8) (snd p))
               (enum l) (zerosw (cfbyl_d (lenw l)))) = cfbyl_d (lenw l) /\
  raw 64 (fold_left (fun d (p : N * N) =>
                 push_byte 64 d (cfbyl_d (lenw l) - 1 - (fst p + (8 - lenw l mod 8) mod 8) / 8) (snd p))
               (enum l) (zerosw (cfbyl_d (lenw l)))) = val_of_bytes_le (rev l).
Proof.
  intros Hl.
  apply (fold_big 64 8 ltac:(lia) eq_refl (cfbyl_d (lenw l))
           (fun i => cfbyl_d (lenw l) - 1 - (i + (8 - lenw l mod 8) mod 8) / 8)); [assumption| |].
  - unfold cfbyl_d. lia.
  - intros i Hi. unfold cfbyl_d. lia.
Qed.

Lemma d_from_bytes_spec bytes e :
  bytes_ok bytes ->
  canon_wv 64 (d_from_bytes bytes e) /\ wl (d_from_bytes bytes e) = 8 * lenw bytes /\
  lenw (wd (d_from_bytes bytes e)) = cfbyl_d (lenw bytes) /\
  raw 64 (wd (d_from_bytes bytes e)) = bytes_value bytes e.
Proof.
  intros Hb.
  assert (words_ok 64 (wd (d_from_bytes bytes e)) /\
          lenw (wd (d_from_bytes bytes e)) = cfbyl_d (lenw bytes) /\
          raw 64 (wd (d_from_bytes bytes e)) = bytes_value bytes e) as (HD & HL & HR).
  { unfold d_from_bytes, W64, bytes_value. cbn [wd]. destruct e.
    - pose proof (d_fold (rev bytes) (Forall_rev Hb)) as H.
      rewrite lenw_rev, rev_involutive in H. exact H.
    - exact (d_fold bytes Hb). }
  assert (wl (d_from_bytes bytes e) = 8 * lenw bytes) as HW by (unfold d_from_bytes; cbn [wl]; lia).
  split; [|split; [assumption|split; assumption]].
  unfold canon_wv. split; [assumption|]. rewrite HL, HW, HR. split.
  - unfold cfbyl_d. lia.
  - apply bytes_value_lt. assumption.
Qed.

(* ------------------------------------------------------------------ read *)

Lemma lenw_firstn k l : k <= lenw l -> lenw (firstn (N.to_nat k) l) = k.
Proof. unfold lenw. rewrite firstn_length. lia. Qed.

Lemma bytes_ok_firstn k l : bytes_ok l -> bytes_ok (firstn k l).
Proof.
  intros H. rewrite <- (firstn_skipn k l) in H. apply Forall_app in H. apply H.
Qed.

Lemma f_read_spec w n reader len e :
  0 < w -> w mod 8 = 0 -> bytes_ok reader -> len <= w * n -> (len + 7) / 8 <= lenw reader ->
  exists v, f_read w n reader len e = Ok (v, skipn (N.to_nat ((len + 7) / 8)) reader) /\
            canon_wv w v /\ lenw (wd v) = n /\ wl v = len /\
            raw w (wd v) = bytes_value (firstn (N.to_nat ((len + 7) / 8)) reader) e mod 2 ^ len.
Proof.
  intros Hw H8 Hr Hlen Hnb. unfold f_read.
  assert (w * n <? len = false) as -> by (apply N.ltb_ge; assumption).
  assert (lenw reader <? (len + 7) / 8 = false) as -> by (apply N.ltb_ge; assumption).
  destruct (f_from_bytes_spec w n (firstn (N.to_nat ((len + 7) / 8)) reader) e Hw H8)
    as (bv & E & (Hd & _ & _) & HL & _ & HR).
  - apply bytes_ok_firstn. assumption.
  - rewrite lenw_firstn by assumption.
    assert (w = 8 * (w / 8)) as Ew by lia. rewrite Ew in Hlen |- *. lia.
  - rewrite E. eexists. split; [reflexivity|]. cbn [wd wl].
    assert (raw w (mod2n w (wd bv) len) =
            bytes_value (firstn (N.to_nat ((len + 7) / 8)) reader) e mod 2 ^ len) as HM.
    { rewrite raw_mod2n by assumption. rewrite HR. reflexivity. }
    split; [|split; [rewrite lenw_mod2n; assumption|split; [reflexivity|assumption]]].
    unfold canon_wv. cbn [wd wl]. split; [apply words_ok_mod2n; assumption|].
    split; [rewrite lenw_mod2n, HL; assumption|].
    rewrite HM. apply N.mod_lt, pow2_ne0.
Qed.

Lemma lenw_upd_last f d : lenw (upd_last f d) = lenw d.
Proof.
  induction d as [|x r IH]; [reflexivity|].
  destruct r as [|y r]; [reflexivity|].
  change (upd_last f (x :: y :: r)) with (x :: upd_last f (y :: r)).
  rewrite !lenw_cons in *. rewrite IH. reflexivity.
Qed.

Lemma getw_upd_last f d i :
  getw (upd_last f d) i = if i + 1 =? lenw d then f (getw d i) else getw d i.
Proof.
  revert i. induction d as [|x r IH]; intros i.
  - cbn [upd_last]. rewrite getw_nil, lenw_nil. destruct (N.eqb_spec (i + 1) 0); [lia|reflexivity].
  - destruct r as [|y r].
    + cbn [upd_last]. rewrite lenw_cons, lenw_nil.
      destruct (N.eqb_spec (i + 1) (0 + 1)) as [Hi|Hi].
      * assert (i = 0) as -> by lia. reflexivity.
      * rewrite !getw_cons_S by lia. rewrite !getw_nil. reflexivity.
    + change (upd_last f (x :: y :: r)) with (x :: upd_last f (y :: r)).
      rewrite (lenw_cons x).
      destruct (N.eq_dec i 0) as [->|Hi0].
      * rewrite !getw_cons_0. rewrite lenw_cons.
        destruct (N.eqb_spec (0 + 1) (lenw r + 1 + 1)); [lia|reflexivity].
      * rewrite !(getw_cons_S x) by lia. rewrite IH.
        destruct (N.eqb_spec (i - 1 + 1) (lenw (y :: r))); destruct (N.eqb_spec (i + 1) (lenw (y :: r) + 1));
          try reflexivity; lia.
Qed.

Lemma raw_mask_last d len :
  words_ok 64 d -> lenw d = cfbl_d len ->
  raw 64 (upd_last (fun l => N.land l (maskw 64 (lastbits 64 len))) d) = raw 64 d mod 2 ^ len.
Proof.
  intros Hd HL.
  assert (words_ok 64 (upd_last (fun l => N.land l (maskw 64 (lastbits 64 len))) d)) as Hd'.
  { apply words_ok_getw. intros i _. rewrite getw_upd_last.
    destruct (i + 1 =? lenw d); [|apply getw_ok; assumption].
    apply lt_pow2_of_bits. intros b Hb. rewrite N.land_spec.
    rewrite (testbit_high (getw d i) 64 b); [reflexivity|apply getw_ok; assumption|assumption]. }
  apply N.bits_inj. intro i.
  rewrite mod_pow2_testbit, !raw_testbit by (assumption || lia).
  rewrite getw_upd_last. unfold cfbl_d, cfbyl_d in HL.
  destruct (N.eqb_spec (i / 64 + 1) (lenw d)) as [He|Hne].
  - rewrite N.land_spec, maskw_testbit.
    assert (i mod 64 <? 64 = true) as -> by (apply N.ltb_lt; lia). rewrite andb_true_r.
    assert (len <> 0) as Hl0 by lia.
    unfold lastbits, wsub1. apply N.eqb_neq in Hl0. rewrite Hl0. apply N.eqb_neq in Hl0.
    assert ((i mod 64 <? (len - 1) mod 64 + 1) = (i <? len)) as ->.
    { destruct (N.ltb_spec (i mod 64) ((len - 1) mod 64 + 1)); destruct (N.ltb_spec i len); try reflexivity; lia. }
    apply andb_comm.
  - destruct (N.lt_ge_cases (i / 64 + 1) (lenw d)) as [Hlt|Hge].
    + assert (i <? len = true) as -> by (apply N.ltb_lt; lia). reflexivity.
    + rewrite getw_high by lia. rewrite N.bits_0. symmetry. apply andb_false_r.
Qed.

Lemma d_read_spec reader len e :
  bytes_ok reader -> (len + 7) / 8 <= lenw reader ->
  exists v, d_read reader len e = Ok (v, skipn (N.to_nat ((len + 7) / 8)) reader) /\
            canon_wv 64 v /\ wl v = len /\
            raw 64 (wd v) = bytes_value (firstn (N.to_nat ((len + 7) / 8)) reader) e mod 2 ^ len.
Proof.
  intros Hr Hnb. unfold d_read.
  assert (lenw reader <? (len + 7) / 8 = false) as -> by (apply N.ltb_ge; assumption).
  destruct (d_from_bytes_spec (firstn (N.to_nat ((len + 7) / 8)) reader) e (bytes_ok_firstn _ _ Hr))
    as ((Hd & _ & _) & _ & HL & HR).
  rewrite lenw_firstn in HL by assumption.
  eexists. split; [reflexivity|]. cbn [wd wl]. unfold W64.
  pose proof (raw_mask_last _ len Hd HL) as HM. rewrite HR in HM.
  split; [|split; [reflexivity|assumption]].
  unfold canon_wv. cbn [wd wl]. split; [|split].
  - apply words_ok_getw. intros i _. rewrite getw_upd_last.
    destruct (i + 1 =? _); [|apply getw_ok; assumption].
    apply lt_pow2_of_bits. intros b Hb. rewrite N.land_spec.
    rewrite (testbit_high (getw _ i) 64 b); [reflexivity|apply getw_ok; assumption|assumption].
  - rewrite lenw_upd_last, HL. unfold cfbyl_d. lia.
  - rewrite HM. apply N.mod_lt, pow2_ne0.
Qed.
