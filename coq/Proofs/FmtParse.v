(* Proofs/FmtParse.v *)
From BVA Require Import Base.Prelude Base.Result Base.Words Base.Limbs.
From BVA Require Import Model.Core Model.Ops Model.Arith Model.Conv Model.Auto Model.Run Spec.Spec Spec.Prop.
From BVA Require Import Proofs.Common Proofs.Rechunk Proofs.Lift Proofs.Edit.
From Coq Require Import ZifyBool ZifyN ZifyNat.

(* ------------------------------------------------------------------ digits of a number in base 2^sh *)

(* digit number p (p = 0 is the least significant one) *)
Definition dig (sh V p : N) : N := (V / 2 ^ (sh * p)) mod 2 ^ sh.

(* the k low digits, most significant first *)
Fixpoint full (sh V : N) (k : nat) : list N :=
  match k with O => [] | S k' => dig sh V (N.of_nat k') :: full sh V k' end.

(* drop leading zeros *)
Fixpoint strip (l : list N) : list N :=
  match l with [] => [] | d :: r => if d =? 0 then strip r else l end.

Definition nz0 (l : list N) : list N := match l with [] => [0] | _ => l end.

Lemma dig_lt sh V p : dig sh V p < 2 ^ sh.
Proof. unfold dig. apply N.mod_lt, pow2_ne0. Qed.

Lemma dig_0 sh V : dig sh V 0 = V mod 2 ^ sh.
Proof. unfold dig. rewrite N.mul_0_r. change (2 ^ 0) with 1. rewrite N.div_1_r. reflexivity. Qed.

Lemma dig_shift sh V p : dig sh V (p + 1) = dig sh (V / 2 ^ sh) p.
Proof.
  unfold dig. rewrite N.div_div by apply pow2_ne0. rewrite <- pow2_add.
  replace (sh * (p + 1)) with (sh + sh * p) by lia. reflexivity.
Qed.

Lemma dig_testbit sh V p b : N.testbit (dig sh V p) b = (b <? sh) && N.testbit V (b + sh * p).
Proof. unfold dig. rewrite mod_pow2_testbit, div_pow2_testbit. reflexivity. Qed.

Lemma dig_top sh V k : V < 2 ^ (sh * (k + 1)) -> dig sh V k = V / 2 ^ (sh * k).
Proof.
  intros H. unfold dig. apply N.mod_small. apply N.div_lt_upper_bound; [apply pow2_ne0|].
  rewrite <- pow2_add. replace (sh * k + sh) with (sh * (k + 1)) by lia. assumption.
Qed.

Lemma full_length sh V k : length (full sh V k) = k.
Proof. induction k; cbn [full length]; auto. Qed.

Lemma full_snoc sh V k : full sh V (S k) = full sh (V / 2 ^ sh) k ++ [V mod 2 ^ sh].
Proof.
  induction k as [|k IH].
  - cbn [full app]. change (N.of_nat 0) with 0. rewrite dig_0. reflexivity.
  - change (full sh V (S (S k))) with (dig sh V (N.of_nat (S k)) :: full sh V (S k)).
    rewrite IH. cbn [full app]. f_equal.
    replace (N.of_nat (S k)) with (N.of_nat k + 1) by lia. apply dig_shift.
Qed.

Lemma full_range sh V k : Forall (fun d => d < 2 ^ sh) (full sh V k).
Proof. induction k; cbn [full]; constructor; auto using dig_lt. Qed.

Lemma strip_range (P : N -> Prop) l : Forall P l -> Forall P (strip l).
Proof.
  induction 1 as [|d r Hd Hr IH]; cbn [strip]; [constructor|].
  destruct (d =? 0); [assumption|constructor; assumption].
Qed.

Lemma strip_hd l : strip l <> [] -> hd 0 (strip l) <> 0.
Proof.
  induction l as [|d r IH]; cbn [strip]; [congruence|].
  destruct (N.eqb_spec d 0); [assumption|]. intros _. cbn [hd]. assumption.
Qed.

(* ------------------------------------------------------------------ val_of_digits *)

Lemma vod_gen B ds a : fold_left (fun acc d => acc * B + d) ds a = a * B ^ lenw ds + val_of_digits B ds.
Proof.
  unfold val_of_digits. revert a. induction ds as [|d r IH]; intros a.
  - cbn [fold_left]. rewrite lenw_nil. change (B ^ 0) with 1. lia.
  - cbn [fold_left]. rewrite IH, (IH (0 * B + d)), lenw_cons.
    rewrite N.pow_add_r, N.pow_1_r, N.mul_0_l, N.add_0_l. ring.
Qed.

Lemma vod_nil B : val_of_digits B [] = 0.
Proof. reflexivity. Qed.

Lemma vod_cons B d r : val_of_digits B (d :: r) = d * B ^ lenw r + val_of_digits B r.
Proof. unfold val_of_digits at 1. cbn [fold_left]. rewrite vod_gen, N.mul_0_l, N.add_0_l. reflexivity. Qed.

Lemma vod_snoc B l d : val_of_digits B (l ++ [d]) = val_of_digits B l * B + d.
Proof. unfold val_of_digits. rewrite fold_left_app. reflexivity. Qed.

Lemma vod_lt B ds : Forall (fun d => d < B) ds -> val_of_digits B ds < B ^ lenw ds.
Proof.
  induction 1 as [|d r Hd Hr IH].
  - rewrite vod_nil, lenw_nil, N.pow_0_r. lia.
  - rewrite vod_cons, lenw_cons, N.pow_add_r, N.pow_1_r.
    assert ((d + 1) * B ^ lenw r <= B * B ^ lenw r) by (apply N.mul_le_mono_r; lia). lia.
Qed.

Lemma vod_strip B l : val_of_digits B (strip l) = val_of_digits B l.
Proof.
  induction l as [|d r IH]; [reflexivity|]. cbn [strip].
  destruct (N.eqb_spec d 0) as [->|]; [|reflexivity]. rewrite IH, vod_cons. lia.
Qed.

Lemma pow_pow2 sh k : (2 ^ sh) ^ k = 2 ^ (sh * k).
Proof. symmetry. apply N.pow_mul_r. Qed.

Lemma mod_pow2_succ V sh k :
  V mod 2 ^ (sh + k) = V mod 2 ^ sh + 2 ^ sh * ((V / 2 ^ sh) mod 2 ^ k).
Proof. rewrite pow2_add. apply N.mod_mul_r; apply pow2_ne0. Qed.

Lemma vod_full sh V k : val_of_digits (2 ^ sh) (full sh V k) = V mod 2 ^ (sh * N.of_nat k).
Proof.
  revert V. induction k as [|k IH]; intros V.
  - cbn [full]. rewrite vod_nil. change (N.of_nat 0) with 0. rewrite N.mul_0_r. change (2 ^ 0) with 1.
    rewrite N.mod_1_r. reflexivity.
  - rewrite full_snoc, vod_snoc, IH.
    replace (sh * N.of_nat (S k)) with (sh + sh * N.of_nat k) by lia.
    rewrite mod_pow2_succ. lia.
Qed.

(* ------------------------------------------------------------------ digits_pow2 *)

Lemma fuel_full sh : 0 < sh -> forall (k f : nat) x acc,
  2 ^ (sh * N.of_nat k) <= x -> x < 2 ^ (sh * N.of_nat (S k)) -> (k < f)%nat ->
  digits_pow2_fuel f sh x acc = full sh x (S k) ++ acc.
Proof.
  intros Hsh. induction k as [|k IH]; intros f x acc Hlo Hhi Hf.
  - destruct f as [|f]; [lia|]. cbn [digits_pow2_fuel].
    change (N.of_nat 0) with 0 in Hlo. rewrite N.mul_0_r in Hlo. change (2 ^ 0) with 1 in Hlo.
    destruct (N.eqb_spec x 0) as [->|Hx]; [lia|].
    replace (sh * N.of_nat 1) with sh in Hhi by lia.
    rewrite N.shiftr_div_pow2, N.div_small by assumption.
    destruct f; cbn [digits_pow2_fuel]; rewrite ?N.eqb_refl;
      cbn [full app]; change (N.of_nat 0) with 0; rewrite dig_0, trunc_mod; reflexivity.
  - destruct f as [|f]; [lia|]. cbn [digits_pow2_fuel].
    pose proof (pow2_pos (sh * N.of_nat (S k))).
    destruct (N.eqb_spec x 0) as [->|Hx]; [lia|].
    rewrite N.shiftr_div_pow2, trunc_mod.
    rewrite (IH f (x / 2 ^ sh)).
    + rewrite (full_snoc sh x (S k)). rewrite <- app_assoc. reflexivity.
    + apply N.div_le_lower_bound; [apply pow2_ne0|]. rewrite <- pow2_add.
      replace (sh + sh * N.of_nat k) with (sh * N.of_nat (S k)) by lia. assumption.
    + apply N.div_lt_upper_bound; [apply pow2_ne0|]. rewrite <- pow2_add.
      replace (sh + sh * N.of_nat (S k)) with (sh * N.of_nat (S (S k))) by lia. assumption.
    + lia.
Qed.

Lemma strip_full_digits sh V n : 0 < sh -> V < 2 ^ (sh * N.of_nat n) ->
  nz0 (strip (full sh V n)) = digits_pow2 sh V.
Proof.
  intros Hsh. induction n as [|n IH]; intros HV.
  - change (N.of_nat 0) with 0 in HV. rewrite N.mul_0_r in HV. change (2 ^ 0) with 1 in HV.
    assert (V = 0) as -> by lia. reflexivity.
  - cbn [full strip].
    rewrite (dig_top sh V (N.of_nat n)) by (replace (N.of_nat n + 1) with (N.of_nat (S n)) by lia; assumption).
    destruct (N.eqb_spec (V / 2 ^ (sh * N.of_nat n)) 0) as [E|E].
    + apply IH. apply N.div_small_iff in E; [assumption|apply pow2_ne0].
    + assert (2 ^ (sh * N.of_nat n) <= V) as Hlo.
      { destruct (N.le_gt_cases (2 ^ (sh * N.of_nat n)) V) as [|Hlt]; [assumption|].
        apply N.div_small in Hlt. contradiction. }
      unfold digits_pow2. pose proof (pow2_pos (sh * N.of_nat n)).
      destruct (N.eqb_spec V 0) as [->|HV0]; [lia|].
      rewrite (fuel_full sh Hsh n) ; [| assumption | assumption |].
      * rewrite app_nil_r. cbn [full nz0].
        rewrite (dig_top sh V (N.of_nat n)) by (replace (N.of_nat n + 1) with (N.of_nat (S n)) by lia; assumption).
        reflexivity.
      * (* fuel *)
        pose proof (size_lt_pow2 V) as Hs.
        assert (sh * N.of_nat n < N.size V) as Hlt.
        { destruct (N.lt_ge_cases (sh * N.of_nat n) (N.size V)) as [|Hge]; [assumption|].
          apply pow2_le in Hge. lia. }
        assert (N.of_nat n <= sh * N.of_nat n) by nia. lia.
Qed.

Lemma digits_pow2_strip sh x : 0 < sh ->
  digits_pow2 sh x = nz0 (strip (full sh x (N.to_nat (N.size x)))).
Proof.
  intros Hsh. symmetry. apply strip_full_digits; [assumption|].
  eapply N.lt_le_trans; [apply size_lt_pow2|]. apply pow2_le. nia.
Qed.

Lemma digits_pow2_value sh x : 0 < sh -> val_of_digits (2 ^ sh) (digits_pow2 sh x) = x.
Proof.
  intros Hsh. rewrite digits_pow2_strip by assumption.
  set (n := N.to_nat (N.size x)).
  assert (val_of_digits (2 ^ sh) (strip (full sh x n)) = x) as E.
  { rewrite vod_strip, vod_full. apply N.mod_small.
    eapply N.lt_le_trans; [apply size_lt_pow2|]. apply pow2_le. subst n. nia. }
  destruct (strip (full sh x n)); [|exact E]. rewrite vod_nil in E. subst x. reflexivity.
Qed.

Lemma digits_pow2_range sh x : 0 < sh -> Forall (fun d => d < 2 ^ sh) (digits_pow2 sh x).
Proof.
  intros Hsh. rewrite digits_pow2_strip by assumption.
  pose proof (strip_range (fun d => d < 2 ^ sh) _ (full_range sh x (N.to_nat (N.size x)))) as H.
  destruct (strip (full sh x (N.to_nat (N.size x)))); [|exact H].
  constructor; [apply pow2_pos|constructor].
Qed.

Lemma digits_pow2_minimal sh x : 0 < sh -> x <> 0 -> hd 0 (digits_pow2 sh x) <> 0.
Proof.
  intros Hsh Hx. pose proof (digits_pow2_value sh x Hsh) as Hv.
  rewrite digits_pow2_strip in * by assumption.
  pose proof (strip_hd (full sh x (N.to_nat (N.size x)))) as H.
  destruct (strip (full sh x (N.to_nat (N.size x)))) as [|d r].
  - cbn [nz0] in Hv. unfold val_of_digits in Hv. cbn in Hv. lia.
  - apply H. discriminate.
Qed.

Lemma parse_format_binary x : val_of_digits 2 (digits_pow2 1 x) = x.
Proof. apply (digits_pow2_value 1 x). lia. Qed.

Lemma parse_format_hex x : val_of_digits 16 (digits_pow2 4 x) = x.
Proof. apply (digits_pow2_value 4 x). lia. Qed.

Lemma hex_digit_digit_char upper d : d < 16 -> hex_digit (digit_char upper d) = Some d.
Proof.
  intros H. unfold digit_char, hex_digit.
  destruct (N.ltb_spec d 10) as [H10|H10].
  - assert ((48 <=? 48 + d) && (48 + d <=? 57) = true) as -> by lia. f_equal. lia.
  - destruct upper.
    + assert ((48 <=? 55 + d) && (55 + d <=? 57) = false) as -> by lia.
      assert ((97 <=? 55 + d) && (55 + d <=? 102) = false) as -> by lia.
      assert ((65 <=? 55 + d) && (55 + d <=? 70) = true) as -> by lia. f_equal. lia.
    + assert ((48 <=? 87 + d) && (87 + d <=? 57) = false) as -> by lia.
      assert ((97 <=? 87 + d) && (87 + d <=? 102) = true) as -> by lia. f_equal. lia.
Qed.

Lemma bin_digit_char d : d < 2 -> bin_digit (48 + d) = Some d.
Proof.
  intros H. unfold bin_digit. assert (d = 0 \/ d = 1) as [-> | ->] by lia; reflexivity.
Qed.

(* ------------------------------------------------------------------ formatting loops *)

Lemma nz0_lenw (f : N -> N) z l : f 0 = z ->
  (if lenw (map f l) =? 0 then [z] else map f l) = map f (nz0 l).
Proof.
  intros <-. destruct l as [|x r]; [reflexivity|].
  cbn [map nz0]. rewrite lenw_cons. destruct (N.eqb_spec (lenw (map f r) + 1) 0); [lia|reflexivity].
Qed.

Lemma bin_loop_spec getb V : forall n started acc,
  (forall k, (k < n)%nat -> getb (N.of_nat k) = Ok (dig 1 V (N.of_nat k))) ->
  bin_digits_loop getb n started acc =
  Ok (rev acc ++ map (fun d => 48 + d) (if started then full 1 V n else strip (full 1 V n))).
Proof.
  induction n as [|n IH]; intros started acc H.
  - cbn [bin_digits_loop full strip map]. destruct started; rewrite app_nil_r; reflexivity.
  - cbn [bin_digits_loop]. rewrite H by lia. cbn [bind].
    assert (forall k, (k < n)%nat -> getb (N.of_nat k) = Ok (dig 1 V (N.of_nat k))) as H' by (intros; apply H; lia).
    destruct started; cbn [negb andb].
    + rewrite IH by assumption. cbn [rev full map]. rewrite <- app_assoc. reflexivity.
    + cbn [full strip]. destruct (dig 1 V (N.of_nat n) =? 0).
      * apply IH; assumption.
      * rewrite IH by assumption. cbn [rev map]. rewrite <- app_assoc. reflexivity.
Qed.

Lemma hex_loop_spec w d upper V : forall n started acc,
  (forall k, (k < n)%nat ->
     geto d (N.of_nat k / (w / 4)) = Ok (getw d (N.of_nat k / (w / 4))) /\
     N.land (wrap 8 (shrw (getw d (N.of_nat k / (w / 4))) ((N.of_nat k mod (w / 4)) * 4))) 15 = dig 4 V (N.of_nat k)) ->
  hex_digits_loop w d upper n started acc =
  Ok (rev acc ++ map (digit_char upper) (if started then full 4 V n else strip (full 4 V n))).
Proof.
  induction n as [|n IH]; intros started acc H.
  - cbn [hex_digits_loop full strip map]. destruct started; rewrite app_nil_r; reflexivity.
  - cbn [hex_digits_loop]. destruct (H n) as [E1 E2]; [lia|]. rewrite E1. cbn [bind]. rewrite E2.
    assert (forall k, (k < n)%nat ->
     geto d (N.of_nat k / (w / 4)) = Ok (getw d (N.of_nat k / (w / 4))) /\
     N.land (wrap 8 (shrw (getw d (N.of_nat k / (w / 4))) ((N.of_nat k mod (w / 4)) * 4))) 15 = dig 4 V (N.of_nat k))
      as H' by (intros; apply H; lia).
    destruct started; cbn [negb andb].
    + rewrite IH by assumption. cbn [rev full map]. rewrite <- app_assoc. reflexivity.
    + cbn [full strip]. destruct (dig 4 V (N.of_nat n) =? 0).
      * apply IH; assumption.
      * rewrite IH by assumption. cbn [rev map]. rewrite <- app_assoc. reflexivity.
Qed.

Lemma bit_dig V i : N.b2n (N.testbit V i) = dig 1 V i.
Proof. unfold dig. rewrite N.mul_1_l. apply N.testbit_spec'. Qed.

(* a nibble read from the storage words *)
Lemma nibble_of_raw w nu d i :
  0 < nu -> w = 4 * nu -> words_ok w d ->
  N.land (wrap 8 (shrw (getw d (i / nu)) ((i mod nu) * 4))) 15 = dig 4 (raw w d) i.
Proof.
  intros Hnu Hw Hd. assert (0 < w) as Hw0 by lia.
  apply N.bits_inj. intro b.
  rewrite N.land_spec, wrap_testbit, shrw_testbit, dig_testbit.
  change 15 with (N.ones 4). rewrite ones_testbit.
  destruct (N.ltb_spec b 4) as [Hb|Hb]; [|apply andb_false_r].
  rewrite andb_true_r. cbn [andb].
  assert (b <? 8 = true) as -> by (apply N.ltb_lt; lia). cbn [andb].
  rewrite raw_testbit by assumption.
  pose proof (div_mod_eq i nu) as Ei. pose proof (mod_lt' i nu Hnu) as Hm.
  destruct (divmod_unique (b + 4 * i) w (i / nu) (b + i mod nu * 4) Hw0) as [-> ->]; [nia|lia|reflexivity].
Qed.

Lemma omap_list_ok' {A B} (f : A -> outcome B) (g : A -> B) l :
  (forall a, In a l -> f a = Ok (g a)) -> omap_list f l = Ok (map g l).
Proof.
  induction l as [|a r IH]; intros H.
  - reflexivity.
  - cbn [omap_list map]. rewrite (H a) by (left; reflexivity). cbn [bind].
    rewrite IH by (intros; apply H; right; assumption). reflexivity.
Qed.

(* --- octal *)

Fixpoint bitsval (l : list N) : N := match l with [] => 0 | b :: r => b + 2 * bitsval r end.
Fixpoint glen (l : list N) : nat :=
  match l with
  | [] => O
  | _ :: [] => 1%nat
  | _ :: _ :: [] => 1%nat
  | _ :: _ :: _ :: r => S (glen r)
  end.
(* k digits, least significant first *)
Fixpoint ledigs (sh X : N) (k : nat) : list N :=
  match k with O => [] | S k' => X mod 2 ^ sh :: ledigs sh (X / 2 ^ sh) k' end.

Lemma list_ind3 (P : list N -> Prop) :
  P [] -> (forall a, P [a]) -> (forall a b, P [a; b]) ->
  (forall a b c r, P r -> P (a :: b :: c :: r)) -> forall l, P l.
Proof.
  intros H0 H1 H2 H3. fix IH 1. intros [|a [|b [|c r]]]; [exact H0|apply H1|apply H2|apply H3, IH].
Qed.

Lemma ledigs_full sh X k : ledigs sh X k = rev (full sh X k).
Proof.
  revert X. induction k as [|k IH]; intros X; [reflexivity|].
  rewrite full_snoc, rev_app_distr. cbn [ledigs rev app]. rewrite IH. reflexivity.
Qed.

Lemma oct_groups_spec l : Forall (fun b => b <= 1) l -> oct_groups l = ledigs 3 (bitsval l) (glen l).
Proof.
  induction l as [|a|a b|a b c r IH] using list_ind3; intros H.
  - reflexivity.
  - inversion H as [|? ? Ha _]; subst. cbn [oct_groups glen ledigs bitsval]. change (2 ^ 3) with 8.
    f_equal. rewrite N.mod_small; lia.
  - inversion H as [|? ? Ha H']; subst. inversion H' as [|? ? Hb _]; subst.
    cbn [oct_groups glen ledigs bitsval]. change (2 ^ 3) with 8. f_equal. rewrite N.mod_small; lia.
  - inversion H as [|? ? Ha H']; subst. inversion H' as [|? ? Hb H'']; subst.
    inversion H'' as [|? ? Hc Hr]; subst.
    cbn [oct_groups glen ledigs bitsval]. change (2 ^ 3) with 8.
    assert (a + 2 * (b + 2 * (c + 2 * bitsval r)) = 8 * bitsval r + (4 * c + 2 * b + a)) as E by lia.
    destruct (divmod_unique _ 8 (bitsval r) (4 * c + 2 * b + a) ltac:(lia) E ltac:(lia)) as [-> ->].
    rewrite IH by assumption. reflexivity.
Qed.

Lemma glen_ge l : (length l <= 3 * glen l)%nat.
Proof.
  induction l as [|a|a b|a b c r IH] using list_ind3; cbn [length glen]; lia.
Qed.

Lemma bitsval_seq V n : forall a,
  bitsval (map (fun i => N.b2n (N.testbit V i)) (map N.of_nat (seq a n))) = (V / 2 ^ N.of_nat a) mod 2 ^ N.of_nat n.
Proof.
  induction n as [|n IH]; intros a.
  - cbn [seq map bitsval]. change (N.of_nat 0) with 0. change (2 ^ 0) with 1. rewrite N.mod_1_r. reflexivity.
  - cbn [seq map bitsval]. rewrite IH.
    replace (N.of_nat (S n)) with (1 + N.of_nat n) by lia.
    rewrite mod_pow2_succ. rewrite N.div_div by apply pow2_ne0. rewrite <- pow2_add.
    replace (N.of_nat (S a)) with (N.of_nat a + 1) by lia.
    rewrite N.testbit_spec'. change (2 ^ 1) with 2. reflexivity.
Qed.

Lemma bitsval_bits V len : V < 2 ^ len ->
  bitsval (map (fun i => N.b2n (N.testbit V i)) (nrange len)) = V.
Proof.
  intros H. unfold nrange. rewrite bitsval_seq. change (N.of_nat 0) with 0. change (2 ^ 0) with 1.
  rewrite N.div_1_r, N2Nat.id. apply N.mod_small. assumption.
Qed.

Definition lnz_step (st : N * N) (x : N) : N * N :=
  let '(nz, i) := st in ((if x =? 0 then nz else i), i + 1).

Lemma lnz_snd l : forall st, snd (fold_left lnz_step l st) = snd st + lenw l.
Proof.
  induction l as [|x r IH]; intros [nz i].
  - cbn [fold_left snd]. rewrite lenw_nil. lia.
  - cbn [fold_left]. rewrite IH. cbn [lnz_step snd]. rewrite lenw_cons. lia.
Qed.

Lemma last_nz_snoc l x : last_nz (l ++ [x]) = if x =? 0 then last_nz l else lenw l.
Proof.
  unfold last_nz. change (fun (st : N * N) x => let '(nz, i) := st in ((if x =? 0 then nz else i), i + 1)) with lnz_step.
  rewrite fold_left_app. cbn [fold_left].
  pose proof (lnz_snd l (0, 0)) as Hs. destruct (fold_left lnz_step l (0, 0)) as [nz i].
  cbn [snd fst lnz_step] in *. destruct (x =? 0); [reflexivity|lia].
Qed.

Lemma last_nz_nil : last_nz [] = 0.
Proof. reflexivity. Qed.

Lemma last_nz_lt l : l <> [] -> last_nz l + 1 <= lenw l.
Proof.
  induction l as [|x l IH] using rev_ind; [congruence|]. intros _.
  rewrite last_nz_snoc, lenw_app', lenw_cons, lenw_nil.
  destruct (x =? 0); [|lia].
  destruct l as [|y l']; [rewrite last_nz_nil; lia|].
  assert (y :: l' <> []) as Hn by discriminate. specialize (IH Hn). lia.
Qed.

Lemma oct_trunc_spec t : t <> [] ->
  rev (firstn (N.to_nat (last_nz (rev t) + 1)) (rev t)) = nz0 (strip t).
Proof.
  induction t as [|d t IH]; [congruence|]. intros _.
  cbn [rev strip]. rewrite last_nz_snoc.
  destruct (N.eqb_spec d 0) as [->|Hd].
  - destruct t as [|e t'].
    + reflexivity.
    + assert (e :: t' <> []) as Hn by discriminate.
      assert (rev (e :: t') <> []) as Hn'.
      { intros E. apply (f_equal (@length N)) in E. rewrite rev_length in E. cbn in E. lia. }
      pose proof (last_nz_lt _ Hn') as Hlt.
      rewrite firstn_app.
      replace (N.to_nat (last_nz (rev (e :: t')) + 1) - length (rev (e :: t')))%nat with O
        by (unfold lenw in Hlt; lia).
      cbn [firstn]. rewrite app_nil_r. apply IH. assumption.
  - rewrite firstn_all2.
    + rewrite rev_app_distr, rev_involutive. reflexivity.
    + rewrite app_length. unfold lenw. cbn [length]. lia.
Qed.

(* ------------------------------------------------------------------ the formatting theorems *)

Theorem fmt_binary_spec P a : Good a ->
  fmt_binary P (xw a) (xv a) = Ok (map (fun d => 48 + d) (digits_pow2 1 (val a))).
Proof.
  intros [Hc Hw]. pose proof (Canon_wv a Hc) as Hcw. pose proof (std_width_pos _ Hw) as Hw0.
  unfold fmt_binary, val, xdata. set (V := raw (xw a) (wd (xv a))).
  rewrite (bin_loop_spec _ V).
  - cbn [bind rev app]. rewrite nz0_lenw by reflexivity.
    rewrite (strip_full_digits 1 V); [reflexivity|lia|].
    rewrite N2Nat.id, N.mul_1_l. destruct Hcw as (_ & _ & H). exact H.
  - intros k Hk. rewrite v_get_spec by (assumption || lia). rewrite bit_dig. reflexivity.
Qed.

Theorem fmt_hex_spec a upper : Good a ->
  fmt_hex (xw a) (xv a) upper = Ok (map (digit_char upper) (digits_pow2 4 (val a))).
Proof.
  intros [Hc Hw]. pose proof (Canon_wv a Hc) as Hcw. pose proof (std_width_pos _ Hw) as Hw0.
  pose proof (std_width_mod8 _ Hw) as H8.
  unfold fmt_hex, val, xdata. set (V := raw (xw a) (wd (xv a))).
  destruct Hcw as (Hd & Hl & HV). fold V in HV.
  set (w := xw a) in *. set (nu := w / 4).
  assert (w = 4 * nu) as Ew by (unfold nu; lia). assert (0 < nu) as Hnu by lia.
  rewrite (hex_loop_spec _ _ _ V).
  - cbn [bind rev app]. rewrite nz0_lenw by reflexivity.
    rewrite (strip_full_digits 4 V); [reflexivity|lia|].
    rewrite N2Nat.id. eapply N.lt_le_trans; [exact HV|]. apply pow2_le. lia.
  - intros k Hk. fold nu. split.
    + apply geto_ok. apply N.div_lt_upper_bound; [lia|].
      assert (N.of_nat k < (wl (xv a) + 3) / 4) as Hk' by lia.
      assert (4 * N.of_nat k < 4 * (nu * lenw (wd (xv a)))); [|lia].
      replace (4 * (nu * lenw (wd (xv a)))) with (w * lenw (wd (xv a))) by (rewrite Ew; lia). lia.
    + unfold V. apply nibble_of_raw; assumption.
Qed.

Theorem fmt_octal_spec P a : Good a ->
  fmt_octal P (xw a) (xv a) = Ok (map (fun d => 48 + d) (digits_pow2 3 (val a))).
Proof.
  intros [Hc Hw]. pose proof (Canon_wv a Hc) as Hcw. pose proof (std_width_pos _ Hw) as Hw0.
  unfold fmt_octal, val, xdata. set (V := raw (xw a) (wd (xv a))).
  assert (V < 2 ^ wl (xv a)) as HV by (destruct Hcw as (_ & _ & H); exact H).
  rewrite (omap_list_ok' _ (fun i => N.b2n (N.testbit V i))).
  2:{ intros i Hi. apply In_nrange in Hi. apply v_get_spec; assumption. }
  cbn [bind]. cbv zeta. set (bits := map (fun i => N.b2n (N.testbit V i)) (nrange (wl (xv a)))).
  rewrite oct_groups_spec.
  2:{ apply Forall_forall. intros b Hb. apply in_map_iff in Hb. destruct Hb as [i [<- _]].
      destruct (N.testbit V i); cbn; lia. }
  assert (bitsval bits = V) as -> by (apply bitsval_bits; assumption). rewrite ledigs_full.
  assert (V < 2 ^ (3 * N.of_nat (glen bits))) as HV3.
  { eapply N.lt_le_trans; [exact HV|]. apply pow2_le. pose proof (glen_ge bits) as Hg.
    unfold bits in Hg at 1. rewrite map_length, nrange_length in Hg. lia. }
  rewrite <- (strip_full_digits 3 V (glen bits)) by (lia || assumption).
  destruct (glen bits) as [|g] eqn:Eg.
  - reflexivity.
  - assert (full 3 V (S g) <> []) as Hn by (cbn [full]; discriminate).
    assert (lenw (rev (full 3 V (S g))) =? 0 = false) as ->.
    { unfold lenw. rewrite rev_length, full_length. lia. }
    rewrite oct_trunc_spec by assumption. reflexivity.
Qed.

Theorem x_fmt_digits_spec P which a : Good a -> 1 <= which ->
  x_fmt_digits P which a = Ok (s_fmt which (abs a)).
Proof.
  intros Hg Hwh. rewrite (abs_Canon a) by (destruct Hg; assumption).
  unfold x_fmt_digits, s_fmt. cbn [bval].
  destruct which as [|[[[|[]|]|[[]|[]|]|]|[[|[]|]|[|[]|]|]|]];
    try lia; rewrite ?fmt_binary_spec, ?fmt_octal_spec, ?fmt_hex_spec by assumption; reflexivity.
Qed.

(* ------------------------------------------------------------------ the parsing loop *)

Lemma parse_loop_ext w sh digit idx idx' s : forall i d,
  (forall k, i <= k -> k < i + lenw s -> idx k = idx' k) ->
  parse_loop w sh digit idx s i d = parse_loop w sh digit idx' s i d.
Proof.
  induction s as [|c r IH]; intros i d H; [reflexivity|].
  rewrite lenw_cons in H. cbn [parse_loop]. destruct (digit c) as [x|]; [|reflexivity].
  rewrite (H i) by lia. destruct (geto d (idx' i)) as [y| | |]; cbn [bind]; try reflexivity.
  destruct (seto d (idx' i) (N.lor (shlw w y sh) x)) as [d'| | |]; cbn [bind]; try reflexivity.
  apply IH. intros k Hk1 Hk2. apply H; lia.
Qed.

Lemma all_valid_cons digit c r :
  all_valid digit (c :: r) = match digit c with Some _ => all_valid digit r | None => false end.
Proof. unfold all_valid. cbn [forallb]. destruct (digit c); reflexivity. Qed.

Lemma parse_loop_err w sh digit idx n s : forall i d,
  lenw d = n -> (forall k, i <= k -> k < i + lenw s -> idx k < n) ->
  all_valid digit s = false ->
  parse_loop w sh digit idx s i d = Err (EFmt (first_invalid digit s i)).
Proof.
  induction s as [|c r IH]; intros i d Hn H Hv; [discriminate Hv|].
  rewrite all_valid_cons in Hv. rewrite lenw_cons in H. cbn [parse_loop first_invalid].
  destruct (digit c) as [x|]; [|reflexivity].
  assert (idx i < lenw d) as Hi by (rewrite Hn; apply H; lia).
  rewrite geto_ok by assumption. cbn [bind]. rewrite seto_ok by assumption. cbn [bind].
  apply IH; [rewrite lenw_setw; assumption| |assumption].
  intros k Hk1 Hk2. apply H; lia.
Qed.

Lemma lenw_digit_vals digit s : lenw (digit_vals digit s) = lenw s.
Proof. unfold digit_vals, lenw. rewrite map_length. reflexivity. Qed.

Section Parse.
Variables (w sh m n L D : N) (digit : N -> option N) (idx : N -> N).
Hypothesis Hsh : 0 < sh.
Hypothesis Hm : 0 < m.
Hypothesis Hw : w = sh * m.
Hypothesis HL : L <= m * n.
Hypothesis Hidx : forall k, k < L -> idx k = (L - 1 - k) / m.
Hypothesis Hdig : forall c x, digit c = Some x -> x < 2 ^ sh.

(* word j after i characters: the digits at positions max(j*m, L-i) .. (j+1)*m - 1 *)
Definition winv (i j : N) : N :=
  (D / 2 ^ (sh * N.max (j * m) (L - i))) mod 2 ^ (sh * ((j + 1) * m - N.max (j * m) (L - i))).

Lemma pos_word i : i < L ->
  m * ((L - 1 - i) / m) <= L - 1 - i /\ L - 1 - i < m * ((L - 1 - i) / m) + m /\ (L - 1 - i) / m < n.
Proof.
  intros Hi. pose proof (div_mod_eq (L - 1 - i) m) as E. pose proof (mod_lt' (L - 1 - i) m Hm) as Hlt.
  split; [lia|]. split; [lia|]. apply div_lt_of_lt_mul; [assumption|lia].
Qed.

Lemma winv_other i j : i < L -> j <> (L - 1 - i) / m -> winv (i + 1) j = winv i j.
Proof.
  intros Hi Hj. destruct (pos_word i Hi) as (H1 & H2 & _).
  set (j0 := (L - 1 - i) / m) in *. unfold winv.
  destruct (N.lt_ge_cases j j0) as [Hlt|Hge].
  - assert ((j + 1) * m <= j0 * m) as Hle by (apply N.mul_le_mono_r; lia).
    replace ((j + 1) * m - N.max (j * m) (L - (i + 1))) with 0 by lia.
    replace ((j + 1) * m - N.max (j * m) (L - i)) with 0 by lia.
    rewrite N.mul_0_r. change (2 ^ 0) with 1. rewrite !N.mod_1_r. reflexivity.
  - assert ((j0 + 1) * m <= j * m) as Hle by (apply N.mul_le_mono_r; lia).
    replace (N.max (j * m) (L - (i + 1))) with (j * m) by lia.
    replace (N.max (j * m) (L - i)) with (j * m) by lia. reflexivity.
Qed.

Lemma winv_step i : i < L ->
  N.lor (shlw w (winv i ((L - 1 - i) / m)) sh) (dig sh D (L - 1 - i)) = winv (i + 1) ((L - 1 - i) / m).
Proof.
  intros Hi. destruct (pos_word i Hi) as (H1 & H2 & _).
  set (p := L - 1 - i) in *. set (j0 := p / m) in *. unfold winv.
  replace (N.max (j0 * m) (L - i)) with (p + 1) by lia.
  replace (N.max (j0 * m) (L - (i + 1))) with p by lia.
  set (k := (j0 + 1) * m - (p + 1)).
  assert (k + 1 <= m) as Hkm by (subst k; clearbody j0; clearbody p; clear - H1 H2; lia).
  replace ((j0 + 1) * m - p) with (k + 1) by (subst k; clearbody j0; clearbody p; clear - H1 H2; lia).
  set (y := (D / 2 ^ (sh * (p + 1))) mod 2 ^ (sh * k)).
  assert (y < 2 ^ (sh * k)) as Hy by (apply N.mod_lt, pow2_ne0).
  assert (y * 2 ^ sh < 2 ^ w) as Hyw.
  { eapply N.lt_le_trans; [apply N.mul_lt_mono_pos_r; [apply pow2_pos|exact Hy]|].
    rewrite <- pow2_add. apply pow2_le. rewrite Hw.
    replace (sh * k + sh) with (sh * (k + 1)) by (clear; lia). apply N.mul_le_mono_l. exact Hkm. }
  unfold shlw. rewrite N.shiftl_mul_pow2, wrap_small by assumption.
  rewrite N.lor_comm, (N.mul_comm y), lor_disjoint_add by apply dig_lt.
  replace (sh * (k + 1)) with (sh + sh * k) by lia.
  rewrite mod_pow2_succ. rewrite N.div_div by apply pow2_ne0. rewrite <- pow2_add.
  replace (sh * p + sh) with (sh * (p + 1)) by lia. reflexivity.
Qed.

(* the head digit and the rest of the value *)
Lemma head_digit p x v :
  D mod 2 ^ (sh * (p + 1)) = x * 2 ^ (sh * p) + v -> v < 2 ^ (sh * p) ->
  dig sh D p = x /\ D mod 2 ^ (sh * p) = v.
Proof.
  intros E Hv.
  replace (sh * (p + 1)) with (sh * p + sh) in E by lia. rewrite mod_pow2_succ in E.
  pose proof (pow2_pos (sh * p)) as Hp.
  assert (D mod 2 ^ (sh * p) < 2 ^ (sh * p)) as Hlo by (apply N.mod_lt; lia).
  fold (dig sh D p) in E.
  set (N0 := x * 2 ^ (sh * p) + v) in *.
  destruct (divmod_unique N0 (2 ^ (sh * p)) x v Hp) as [Q1 R1]; [unfold N0; lia|assumption|].
  destruct (divmod_unique N0 (2 ^ (sh * p)) (dig sh D p) (D mod 2 ^ (sh * p)) Hp) as [Q2 R2]; [lia|assumption|].
  split; congruence.
Qed.

Lemma parse_loop_ok s : forall i d,
  lenw d = n -> i + lenw s = L ->
  all_valid digit s = true ->
  D mod 2 ^ (sh * (L - i)) = val_of_digits (2 ^ sh) (digit_vals digit s) ->
  (forall j, j < n -> getw d j = winv i j) ->
  exists d', parse_loop w sh digit idx s i d = Ok d' /\ lenw d' = n /\
             forall j, j < n -> getw d' j = winv L j.
Proof.
  induction s as [|c r IH]; intros i d Hn Hi Hv HD Hinv.
  - rewrite lenw_nil in Hi. assert (i = L) as -> by lia. exists d. cbn [parse_loop]. auto.
  - rewrite lenw_cons in Hi. rewrite all_valid_cons in Hv. cbn [parse_loop].
    unfold digit_vals in HD. cbn [map] in HD. fold (digit_vals digit r) in HD.
    destruct (digit c) as [x|] eqn:Ec; [|discriminate Hv].
    assert (i < L) as HiL by lia.
    destruct (pos_word i HiL) as (H1 & H2 & H3).
    rewrite Hidx by assumption. set (j0 := (L - 1 - i) / m) in *.
    rewrite geto_ok by (rewrite Hn; assumption). cbn [bind].
    rewrite seto_ok by (rewrite Hn; assumption). cbn [bind].
    (* the head digit *)
    rewrite vod_cons, lenw_digit_vals, pow_pow2 in HD.
    assert (lenw r = L - 1 - i) as Er by (clear - Hi HiL; lia). rewrite Er in HD.
    replace (L - i) with (L - 1 - i + 1) in HD by (clear - HiL; lia).
    apply head_digit in HD.
    2:{ rewrite <- Er, <- pow_pow2, <- (lenw_digit_vals digit r). apply vod_lt.
        unfold digit_vals. apply Forall_forall. intros y Hy. apply in_map_iff in Hy.
        destruct Hy as [c' [<- _]]. destruct (digit c') eqn:E'; [eapply Hdig; eassumption|apply pow2_pos]. }
    destruct HD as [Hx HD'].
    apply IH.
    + rewrite lenw_setw. assumption.
    + clear - Hi. lia.
    + assumption.
    + replace (L - (i + 1)) with (L - 1 - i) by (clear - HiL; lia). assumption.
    + intros j Hj. rewrite getw_setw.
      destruct (N.eqb_spec j0 j) as [<-|Hne].
      * assert (j0 <? lenw d = true) as -> by (apply N.ltb_lt; rewrite Hn; assumption). cbn [andb].
        rewrite Hinv by assumption. rewrite <- Hx. apply winv_step. assumption.
      * cbn [andb]. rewrite Hinv by assumption. symmetry. apply winv_other; [assumption|].
        fold j0. congruence.
Qed.

End Parse.

Lemma digit_vals_range digit sh s : (forall c x, digit c = Some x -> x < 2 ^ sh) ->
  val_of_digits (2 ^ sh) (digit_vals digit s) < 2 ^ (sh * lenw s).
Proof.
  intros Hdig. rewrite <- pow_pow2, <- (lenw_digit_vals digit s). apply vod_lt.
  unfold digit_vals. apply Forall_forall. intros y Hy. apply in_map_iff in Hy.
  destruct Hy as [c' [<- _]]. destruct (digit c') eqn:E'; [eapply Hdig; eassumption|apply pow2_pos].
Qed.

Lemma parse_core w sh m n digit idx s :
  0 < sh -> 0 < m -> w = sh * m -> lenw s <= m * n ->
  (forall k, k < lenw s -> idx k = (lenw s - 1 - k) / m) ->
  (forall c x, digit c = Some x -> x < 2 ^ sh) ->
  all_valid digit s = true ->
  exists d', parse_loop w sh digit idx s 0 (zerosw n) = Ok d' /\ lenw d' = n /\ words_ok w d' /\
             raw w d' = val_of_digits (2 ^ sh) (digit_vals digit s).
Proof.
  intros Hsh Hm Hw HL Hidx Hdig Hv.
  set (L := lenw s) in *. set (D := val_of_digits (2 ^ sh) (digit_vals digit s)).
  assert (D < 2 ^ (sh * L)) as HD by (apply digit_vals_range; assumption).
  assert (0 < w) as Hw0 by nia.
  destruct (parse_loop_ok w sh m n L D digit idx Hsh Hm Hw HL Hidx Hdig s 0 (zerosw n))
    as (d' & E & Hl & Hg).
  - apply lenw_zerosw.
  - reflexivity.
  - assumption.
  - rewrite N.sub_0_r. apply N.mod_small. assumption.
  - intros j Hj. rewrite getw_zerosw. unfold winv. rewrite N.sub_0_r.
    rewrite N.div_small; [rewrite N.mod_0_l by apply pow2_ne0; reflexivity|].
    eapply N.lt_le_trans; [exact HD|]. apply pow2_le. apply N.mul_le_mono_l. lia.
  - exists d'. split; [exact E|]. split; [exact Hl|].
    assert (forall j, j < n -> getw d' j = (D / 2 ^ (w * j)) mod 2 ^ w) as Hg'.
    { intros j Hj. rewrite Hg by assumption. unfold winv.
      replace (N.max (j * m) (L - L)) with (j * m) by lia.
      replace ((j + 1) * m - j * m) with m by lia.
      rewrite <- Hw. replace (sh * (j * m)) with (w * j) by (rewrite Hw; lia). reflexivity. }
    assert (words_ok w d') as Hok.
    { apply words_ok_getw. intros j Hj. rewrite Hg' by lia. apply N.mod_lt, pow2_ne0. }
    split; [exact Hok|].
    apply N.bits_inj. intro b. rewrite raw_testbit by assumption.
    destruct (N.lt_ge_cases (b / w) n) as [Hlt|Hge].
    + rewrite Hg' by assumption. rewrite mod_pow2_testbit, div_pow2_testbit.
      assert (b mod w <? w = true) as -> by (apply N.ltb_lt, mod_lt'; assumption). cbn [andb].
      f_equal. pose proof (div_mod_eq b w). lia.
    + rewrite getw_high by lia. rewrite N.bits_0. symmetry.
      apply (testbit_high D (sh * L)); [assumption|].
      assert (w * n <= b).
      { pose proof (div_mod_eq b w). assert (w * n <= w * (b / w)) by (apply N.mul_le_mono_l; assumption). lia. }
      assert (sh * L <= sh * (m * n)) by (apply N.mul_le_mono_l; assumption).
      rewrite Hw in *. lia.
Qed.

(* range of the word index, for the error case *)
Lemma idx_range m n L k : 0 < m -> L <= m * n -> k < L -> (L - 1 - k) / m < n.
Proof. intros Hm HL Hk. apply div_lt_of_lt_mul; [assumption|lia]. Qed.

Lemma parse_core_err w sh m n digit idx s :
  0 < m -> lenw s <= m * n ->
  (forall k, k < lenw s -> idx k = (lenw s - 1 - k) / m) ->
  all_valid digit s = false ->
  parse_loop w sh digit idx s 0 (zerosw n) = Err (EFmt (first_invalid digit s 0)).
Proof.
  intros Hm HL Hidx Hv. apply (parse_loop_err w sh digit idx n); [apply lenw_zerosw| |assumption].
  intros k _ Hk. rewrite Hidx by lia. apply idx_range; [assumption|assumption|lia].
Qed.

Lemma bin_digit_lt c x : bin_digit c = Some x -> x < 2 ^ 1.
Proof.
  unfold bin_digit. destruct (c =? 48); [intros [= <-]; reflexivity|].
  destruct (c =? 49); [intros [= <-]; reflexivity|discriminate].
Qed.

Lemma hex_digit_lt c x : hex_digit c = Some x -> x < 2 ^ 4.
Proof.
  unfold hex_digit. change (2 ^ 4) with 16.
  destruct ((48 <=? c) && (c <=? 57)) eqn:E1; [intros [= <-]; lia|].
  destruct ((97 <=? c) && (c <=? 102)) eqn:E2; [intros [= <-]; lia|].
  destruct ((65 <=? c) && (c <=? 70)) eqn:E3; [intros [= <-]; lia|discriminate].
Qed.

(* --- the four parsers, storage level *)

Definition parsed (w n sh : N) (digit : N -> option N) (s : list N) (v : wv) : Prop :=
  canon_wv w v /\ lenw (wd v) = n /\ wl v = lenw s * sh /\
  raw w (wd v) = val_of_digits (2 ^ sh) (digit_vals digit s).

Lemma parsed_intro w n sh m digit s d :
  w = sh * m -> lenw s <= m * n -> (forall c x, digit c = Some x -> x < 2 ^ sh) ->
  lenw d = n -> words_ok w d -> raw w d = val_of_digits (2 ^ sh) (digit_vals digit s) ->
  parsed w n sh digit s (mkwv d (lenw s * sh)).
Proof.
  intros Hw HL Hdig Hn Hok Hr. unfold parsed, canon_wv. cbn [wd wl]. rewrite Hr, Hn.
  split; [|auto]. split; [assumption|]. split.
  - rewrite Hw. assert (sh * lenw s <= sh * (m * n)) by (apply N.mul_le_mono_l; assumption). lia.
  - rewrite (N.mul_comm (lenw s)). apply digit_vals_range. assumption.
Qed.

Lemma f_from_binary_spec w n s : 0 < w ->
  if w * n <? lenw s then f_from_binary w n s = Err ECap
  else if all_valid bin_digit s
       then exists v, f_from_binary w n s = Ok v /\ parsed w n 1 bin_digit s v
       else f_from_binary w n s = Err (EFmt (first_invalid bin_digit s 0)).
Proof.
  intros Hw. unfold f_from_binary. destruct (N.ltb_spec (w * n) (lenw s)) as [Hc|Hc]; [reflexivity|].
  destruct (all_valid bin_digit s) eqn:Hv.
  - destruct (parse_core w 1 w n bin_digit (fun i => (lenw s - 1 - i) / w) s
                ltac:(lia) Hw ltac:(lia) Hc (fun k _ => eq_refl) bin_digit_lt Hv) as (d & E & Hl & Hok & Hr).
    rewrite E. cbn [bind]. eexists. split; [reflexivity|].
    replace (mkwv d (lenw s)) with (mkwv d (lenw s * 1)) by (rewrite N.mul_1_r; reflexivity).
    apply (parsed_intro w n 1 w); try assumption; [lia|apply bin_digit_lt].
  - rewrite (parse_core_err w 1 w n _ _ _ Hw Hc (fun k _ => eq_refl) Hv). reflexivity.
Qed.

Lemma f_from_hex_spec w n s : 0 < w -> w mod 4 = 0 ->
  if w * n <? lenw s * 4 then f_from_hex w n s = Err ECap
  else if all_valid hex_digit s
       then exists v, f_from_hex w n s = Ok v /\ parsed w n 4 hex_digit s v
       else f_from_hex w n s = Err (EFmt (first_invalid hex_digit s 0)).
Proof.
  intros Hw H4. unfold f_from_hex. destruct (N.ltb_spec (w * n) (lenw s * 4)) as [Hc|Hc]; [reflexivity|].
  set (m := w / 4). assert (w = 4 * m) as Ew by (unfold m; lia). assert (0 < m) as Hm by lia.
  assert (lenw s <= m * n) as HL by nia.
  destruct (all_valid hex_digit s) eqn:Hv.
  - destruct (parse_core w 4 m n hex_digit (fun i => (lenw s - 1 - i) / m) s
                ltac:(lia) Hm Ew HL (fun k _ => eq_refl) hex_digit_lt Hv) as (d & E & Hl & Hok & Hr).
    rewrite E. cbn [bind]. eexists. split; [reflexivity|].
    apply (parsed_intro w n 4 m); try assumption. apply hex_digit_lt.
  - fold m. rewrite (parse_core_err w 4 m n _ _ _ Hm HL (fun k _ => eq_refl) Hv). reflexivity.
Qed.

Lemma d_idx_binary L i : i < L ->
  cfbl_d L - 1 - (i + (W64 - L mod W64) mod W64) / W64 = (L - 1 - i) / 64.
Proof. intros H. unfold cfbl_d, cfbyl_d, W64. lia. Qed.

Lemma d_idx_hex L i : i < L ->
  cfbyl_d ((L + 1) / 2) - 1 - (i + (16 - L mod 16) mod 16) / 16 = (L - 1 - i) / 16.
Proof. intros H. unfold cfbyl_d. lia. Qed.

Lemma d_from_binary_spec s :
  if all_valid bin_digit s
  then exists v, d_from_binary s = Ok v /\ parsed 64 (cfbl_d (lenw s)) 1 bin_digit s v
  else d_from_binary s = Err (EFmt (first_invalid bin_digit s 0)).
Proof.
  unfold d_from_binary.
  assert (lenw s <= 64 * cfbl_d (lenw s)) as HL by (unfold cfbl_d, cfbyl_d; lia).
  destruct (all_valid bin_digit s) eqn:Hv.
  - destruct (parse_core W64 1 64 (cfbl_d (lenw s)) bin_digit
               (fun i => cfbl_d (lenw s) - 1 - (i + (W64 - lenw s mod W64) mod W64) / W64) s
               ltac:(lia) ltac:(lia) eq_refl HL (fun k Hk => d_idx_binary _ _ Hk) bin_digit_lt Hv)
      as (d & E & Hl & Hok & Hr).
    rewrite E. cbn [bind]. eexists. split; [reflexivity|].
    replace (mkwv d (lenw s)) with (mkwv d (lenw s * 1)) by (rewrite N.mul_1_r; reflexivity).
    apply (parsed_intro 64 _ 1 64); try assumption; [reflexivity|apply bin_digit_lt].
  - rewrite (parse_core_err W64 1 64 (cfbl_d (lenw s)) _ _ _ ltac:(lia) HL (fun k Hk => d_idx_binary _ _ Hk) Hv).
    reflexivity.
Qed.

Lemma d_from_hex_spec s :
  if all_valid hex_digit s
  then exists v, d_from_hex s = Ok v /\ parsed 64 (cfbyl_d ((lenw s + 1) / 2)) 4 hex_digit s v
  else d_from_hex s = Err (EFmt (first_invalid hex_digit s 0)).
Proof.
  unfold d_from_hex.
  assert (lenw s <= 16 * cfbyl_d ((lenw s + 1) / 2)) as HL by (unfold cfbyl_d; lia).
  destruct (all_valid hex_digit s) eqn:Hv.
  - destruct (parse_core W64 4 16 (cfbyl_d ((lenw s + 1) / 2)) hex_digit
               (fun i => cfbyl_d ((lenw s + 1) / 2) - 1 - (i + (16 - lenw s mod 16) mod 16) / 16) s
               ltac:(lia) ltac:(lia) eq_refl HL (fun k Hk => d_idx_hex _ _ Hk) hex_digit_lt Hv)
      as (d & E & Hl & Hok & Hr).
    rewrite E. cbn [bind]. eexists. split; [reflexivity|].
    apply (parsed_intro 64 _ 4 16); try assumption; [reflexivity|apply hex_digit_lt].
  - rewrite (parse_core_err W64 4 16 (cfbyl_d ((lenw s + 1) / 2)) _ _ _ ltac:(lia) HL (fun k Hk => d_idx_hex _ _ Hk) Hv).
    reflexivity.
Qed.

(* ------------------------------------------------------------------ the constructors of the three types *)

Lemma utf8_fold s : forall a, fold_left (fun a c => a + utf8_len1 c) s a = a + utf8_len s.
Proof.
  unfold utf8_len. induction s as [|c r IH]; intros a; cbn [fold_left]; [lia|].
  rewrite IH, (IH (0 + utf8_len1 c)). lia.
Qed.

Lemma utf8_len_cons c r : utf8_len (c :: r) = utf8_len1 c + utf8_len r.
Proof. unfold utf8_len at 1. cbn [fold_left]. rewrite utf8_fold. lia. Qed.

Lemma utf8_len_ge s : lenw s <= utf8_len s.
Proof.
  induction s as [|c r IH]; [reflexivity|]. rewrite utf8_len_cons, lenw_cons.
  assert (1 <= utf8_len1 c); [|lia]. unfold utf8_len1.
  destruct (c <? 128); [lia|]. destruct (c <? 2048); [lia|]. destruct (c <? 65536); lia.
Qed.

Lemma utf8_len_ascii digit s : (forall c x, digit c = Some x -> c < 128) ->
  all_valid digit s = true -> utf8_len s = lenw s.
Proof.
  intros Hd. induction s as [|c r IH]; intros Hv; [reflexivity|].
  rewrite all_valid_cons in Hv. rewrite utf8_len_cons, lenw_cons.
  destruct (digit c) as [x|] eqn:E; [|discriminate].
  rewrite IH by assumption. unfold utf8_len1.
  assert (c <? 128 = true) as -> by (apply N.ltb_lt; eapply Hd; eassumption). lia.
Qed.

Lemma bin_digit_ascii c x : bin_digit c = Some x -> c < 128.
Proof.
  unfold bin_digit. destruct (N.eqb_spec c 48); [lia|]. destruct (N.eqb_spec c 49); [lia|discriminate].
Qed.

Lemma hex_digit_ascii c x : hex_digit c = Some x -> c < 128.
Proof.
  unfold hex_digit.
  destruct ((48 <=? c) && (c <=? 57)) eqn:E1; [lia|].
  destruct ((97 <=? c) && (c <=? 102)) eqn:E2; [lia|].
  destruct ((65 <=? c) && (c <=? 70)) eqn:E3; [lia|discriminate].
Qed.

Definition kind_ok (k : kind) : Prop := match k with KF w n => std_width w /\ 0 <= n | _ => True end.

Lemma parsed_abs w n sh digit s v : parsed w n sh digit s v ->
  abs_wv w v = mkbv (lenw s * sh) (val_of_digits (pow2 sh) (digit_vals digit s)).
Proof.
  intros (Hc & _ & Hl & Hr). rewrite abs_canon by assumption. rewrite Hl, Hr, pow2_eq. reflexivity.
Qed.

Section KParse.
Variables (ff : N -> N -> list N -> outcome wv) (fd : list N -> outcome wv).
Variables (digit : N -> option N) (sh : N) (nd : list N -> N).
Hypothesis Hff : forall w n s, std_width w ->
  if w * n <? lenw s * sh then ff w n s = Err ECap
  else if all_valid digit s
       then exists v, ff w n s = Ok v /\ parsed w n sh digit s v
       else ff w n s = Err (EFmt (first_invalid digit s 0)).
Hypothesis Hfd : forall s,
  if all_valid digit s
  then exists v, fd s = Ok v /\ parsed 64 (nd s) sh digit s v
  else fd s = Err (EFmt (first_invalid digit s 0)).
Hypothesis Hascii : forall c x, digit c = Some x -> c < 128.

Definition kf (k : kind) (s : list N) : outcome bvx :=
  match k with
  | KF w n => let! v := ff w n s in Ok (XF w v)
  | KD => let! v := fd s in Ok (XD v)
  | KA => if utf8_len s * sh <=? 128 then let! v := ff 64 2 s in Ok (XA true v)
          else let! v := fd s in Ok (XA false v)
  end.

Lemma kf_spec k s : kind_ok k ->
  match s_parse k digit sh s with
  | SOk [SV k' v _ _] => exists r, kf k s = Ok r /\ Good r /\ kind_matches k r = true /\ abs r = v
  | SErr e => kf k s = Err e
  | _ => True
  end.
Proof.
  intros Hk. unfold s_parse, sv. destruct k as [w n| |].
  - destruct Hk as [Hw Hn]. specialize (Hff w n s Hw).
    cbn [fits kind_fixed kind_cap negb orb kf].
    destruct (N.ltb_spec (w * n) (lenw s * sh)) as [Hc|Hc].
    + assert (lenw s * sh <=? w * n = false) as -> by (apply N.leb_gt; assumption).
      rewrite Hff. destruct (all_valid digit s); [reflexivity|exact I].
    + assert (lenw s * sh <=? w * n = true) as -> by (apply N.leb_le; assumption).
      destruct (all_valid digit s).
      * destruct Hff as (v & E & Hp). exists (XF w v). rewrite E. split; [reflexivity|].
        pose proof Hp as (Hcan & Hlen & _ & _).
        split; [split; [apply Canon_XF; [assumption|apply std_width_pos; assumption|apply std_width_mod8; assumption]|exact Hw]|].
        split; [cbn [kind_matches]; rewrite Hlen, !N.eqb_refl; reflexivity|].
        apply (parsed_abs _ _ _ _ _ _ Hp).
      * rewrite Hff. reflexivity.
  - specialize (Hfd s). cbn [fits kind_fixed negb orb kf].
    destruct (all_valid digit s).
    + destruct Hfd as (v & E & Hp). exists (XD v). rewrite E. split; [reflexivity|].
      pose proof Hp as (Hcan & _).
      split; [apply Good_of_Canon_D, Canon_XD; assumption|].
      split; [reflexivity|]. apply (parsed_abs _ _ _ _ _ _ Hp).
    + rewrite Hfd. reflexivity.
  - specialize (Hfd s). specialize (Hff 64 2 s std_width_64).
    cbn [fits kind_fixed negb orb kf].
    destruct (all_valid digit s) eqn:Hv.
    + rewrite (utf8_len_ascii digit s Hascii Hv).
      destruct (N.leb_spec (lenw s * sh) 128) as [Hc|Hc].
      * assert (64 * 2 <? lenw s * sh = false) as Hc' by (apply N.ltb_ge; lia). rewrite Hc' in Hff.
        destruct Hff as (v & E & Hp). exists (XA true v). rewrite E. split; [reflexivity|].
        pose proof Hp as (Hcan & Hlen & _ & _).
        split; [apply Good_of_Canon_A, Canon_XA_fixed; assumption|].
        split; [reflexivity|]. apply (parsed_abs _ _ _ _ _ _ Hp).
      * destruct Hfd as (v & E & Hp). exists (XA false v). rewrite E. split; [reflexivity|].
        pose proof Hp as (Hcan & _).
        split; [apply Good_of_Canon_A, Canon_XA_dyn; assumption|].
        split; [reflexivity|]. apply (parsed_abs _ _ _ _ _ _ Hp).
    + destruct (N.leb_spec (utf8_len s * sh) 128) as [Hc|Hc].
      * assert (64 * 2 <? lenw s * sh = false) as Hc'.
        { apply N.ltb_ge. pose proof (utf8_len_ge s).
          assert (lenw s * sh <= utf8_len s * sh) by (apply N.mul_le_mono_r; assumption). lia. }
        rewrite Hc' in Hff. rewrite Hff. reflexivity.
      * rewrite Hfd. reflexivity.
Qed.

End KParse.

Theorem k_from_binary_spec k s : kind_ok k ->
  match s_parse k bin_digit 1 s with
  | SOk [SV k' v _ _] => exists r, k_from_binary k s = Ok r /\ Good r /\ kind_matches k r = true /\ abs r = v
  | SErr e => k_from_binary k s = Err e
  | _ => True
  end.
Proof.
  intros Hk.
  assert (k_from_binary k s = kf f_from_binary d_from_binary 1 k s) as ->.
  { destruct k; cbn [k_from_binary kf]; rewrite ?N.mul_1_r; reflexivity. }
  apply (kf_spec f_from_binary d_from_binary bin_digit 1 (fun s => cfbl_d (lenw s))); [| |exact bin_digit_ascii|exact Hk].
  - intros w n s' Hw. rewrite N.mul_1_r. apply f_from_binary_spec, std_width_pos, Hw.
  - intros s'. apply d_from_binary_spec.
Qed.

Theorem k_from_hex_spec k s : kind_ok k ->
  match s_parse k hex_digit 4 s with
  | SOk [SV k' v _ _] => exists r, k_from_hex k s = Ok r /\ Good r /\ kind_matches k r = true /\ abs r = v
  | SErr e => k_from_hex k s = Err e
  | _ => True
  end.
Proof.
  intros Hk.
  assert (k_from_hex k s = kf f_from_hex d_from_hex 4 k s) as -> by (destruct k; reflexivity).
  apply (kf_spec f_from_hex d_from_hex hex_digit 4 (fun s => cfbyl_d ((lenw s + 1) / 2))); [| |exact hex_digit_ascii|exact Hk].
  - intros w n s' Hw. apply f_from_hex_spec; [apply std_width_pos, Hw|].
    pose proof (std_width_mod8 _ Hw). lia.
  - intros s'. apply d_from_hex_spec.
Qed.
