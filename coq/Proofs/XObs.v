(* Proofs/XObs.v *)
From BVA Require Import Base.Prelude Base.Result Base.Words Base.Limbs.
From BVA Require Import Model.Core Model.Ops Model.Arith Model.Conv Model.Auto Model.Run Spec.Spec Spec.Prop.
From BVA Require Import Proofs.Common Proofs.Rechunk Proofs.Lift.
From Coq Require Import ZifyBool ZifyN ZifyNat.
From BVA Require Import Proofs.Counts Proofs.Bytes Proofs.Edit Proofs.Iter.

(* ------------------------------------------------------------------ basics *)

Lemma Good_parts a : Good a -> 0 < xw a /\ xw a mod 8 = 0 /\ canon_wv (xw a) (xv a).
Proof.
  intros [Hc Hw]. split; [apply std_width_pos; assumption|].
  split; [apply std_width_mod8; assumption|]. apply Canon_wv. assumption.
Qed.

Lemma Good_abs a : Good a -> abs a = mkbv (xlen a) (val a).
Proof. intros [Hc _]. apply abs_Canon. assumption. Qed.

(* the capacity function selected by x_count agrees with cfbl_f (xw a) *)
Lemma x_cf_eq a len : (if is_fixed a then cfbl_f (xw a) else cfbl_d) len = cfbl_f (xw a) len.
Proof.
  destruct a as [w v|v|[|] v]; cbn [is_fixed xw]; try reflexivity; apply Counts.cfbl_d_eq.
Qed.

Lemma v_leading_cf o cf1 cf2 w v : cf1 (wl v) = cf2 (wl v) -> v_leading o cf1 w v = v_leading o cf2 w v.
Proof. intros H. unfold v_leading. rewrite H. reflexivity. Qed.

Lemma v_trailing_cf o cf1 cf2 w v : cf1 (wl v) = cf2 (wl v) -> v_trailing o cf1 w v = v_trailing o cf2 w v.
Proof. intros H. unfold v_trailing. rewrite H. reflexivity. Qed.

(* ------------------------------------------------------------------ counts *)

Theorem x_count_spec which a : Good a ->
  x_count which a = match which with
                    | 0 => s_leading_zeros (abs a) | 1 => s_leading_ones (abs a)
                    | 2 => s_trailing_zeros (abs a) | _ => s_trailing_ones (abs a) end.
Proof.
  intros Hg. destruct (Good_parts a Hg) as (Hw & _ & Hc). rewrite (Good_abs a Hg).
  unfold x_count, val, xlen, xdata.
  destruct which as [|[[|[]|]|[|[]|]|]];
    (rewrite (v_leading_cf _ _ (cfbl_f (xw a))) by apply x_cf_eq)
    || (rewrite (v_trailing_cf _ _ (cfbl_f (xw a))) by apply x_cf_eq);
    first [ apply leading_zeros_spec | apply leading_ones_spec
          | apply trailing_zeros_spec | apply trailing_ones_spec ]; assumption.
Qed.

Lemma x_count0_eq a : Good a -> x_count 0 a = xlen a - N.size (val a).
Proof.
  intros Hg. rewrite (x_count_spec 0 a Hg), (Good_abs a Hg). reflexivity.
Qed.

Lemma size_val_le a : Good a -> N.size (val a) <= xlen a.
Proof. intros [Hc _]. apply size_le_of_lt. apply Lift.val_lt. assumption. Qed.

Theorem x_sigbits_spec' P a : Good a -> x_sigbits P a = Ok (s_sigbits (abs a)).
Proof.
  intros Hg. unfold x_sigbits, v_sigbits. rewrite (x_count0_eq a Hg), (Good_abs a Hg).
  unfold s_sigbits. cbn [bval]. pose proof (size_val_le a Hg) as Hs. fold (xlen a).
  rewrite usub_ok by lia. f_equal. lia.
Qed.

Lemma x_sigbits_val P a : Good a -> x_sigbits P a = Ok (N.size (val a)).
Proof. intros Hg. rewrite (x_sigbits_spec' P a Hg), (Good_abs a Hg). reflexivity. Qed.

Theorem x_is_zero_spec a : Good a -> x_is_zero a = Ok (bval (abs a) =? 0).
Proof.
  intros Hg. destruct (Good_parts a Hg) as (Hw & _ & Hc). rewrite (Good_abs a Hg). cbn [bval].
  unfold x_is_zero, val, xdata.
  destruct a as [w v|v|[|] v]; cbn [is_fixed xw xv] in *.
  - f_equal. apply f_is_zero_spec; assumption.
  - apply d_is_zero_spec. assumption.
  - f_equal. apply f_is_zero_spec; assumption.
  - apply d_is_zero_spec. assumption.
Qed.

Theorem x_first_spec P a : Good a -> x_first P a = Ok (if 0 <? xlen a then sbit (abs a) 0 else 2).
Proof.
  intros Hg. destruct (Good_parts a Hg) as (Hw & _ & Hc). rewrite (Good_abs a Hg).
  unfold x_first, x_get, sbit. cbn [bval].
  destruct (N.ltb_spec 0 (xlen a)) as [H|H]; [|reflexivity].
  apply v_get_spec; assumption.
Qed.

Theorem x_last_spec P a : Good a -> x_last P a = Ok (if 0 <? xlen a then sbit (abs a) (xlen a - 1) else 2).
Proof.
  intros Hg. destruct (Good_parts a Hg) as (Hw & _ & Hc). rewrite (Good_abs a Hg).
  unfold x_last, x_get, sbit. cbn [bval].
  destruct (N.ltb_spec 0 (xlen a)) as [H|H]; [|reflexivity].
  apply v_get_spec; try assumption. unfold xlen in *. lia.
Qed.

Theorem x_to_vec_spec a e : Good a ->
  x_to_vec a e = Ok (match e with Little => bytes_le (abs a) | Big => rev (bytes_le (abs a)) end).
Proof.
  intros Hg. destruct (Good_parts a Hg) as (Hw & H8 & Hc). rewrite (Good_abs a Hg).
  unfold x_to_vec. apply v_to_vec_spec; assumption.
Qed.

Theorem x_capacity_ge_len a : Good a -> xlen a <= x_capacity a.
Proof. intros [Hc _]. apply len_le_capacity. assumption. Qed.

(* the iterator over a vector refines the slice iterator over its bits *)
Theorem x_iter_spec P a cs : Good a ->
  iter_run (x_get P a) false (0, xlen a) cs = Ok (s_iter (abs a) false 0 (xlen a) cs).
Proof.
  intros Hg. destruct (Good_parts a Hg) as (Hw & _ & Hc).
  apply iter_refines.
  - lia.
  - rewrite (Good_abs a Hg). cbn [blen]. lia.
  - rewrite (Good_abs a Hg). cbn [blen]. intros i Hi. unfold x_get, sbit. cbn [bval].
    apply v_get_spec; assumption.
Qed.

(* corollaries named in C16 *)
Theorem lz_plus_sig a P : Good a ->
  exists s, x_sigbits P a = Ok s /\ x_count 0 a + s = xlen a.
Proof.
  intros Hg. exists (N.size (val a)). split; [apply x_sigbits_val; assumption|].
  rewrite (x_count0_eq a Hg). pose proof (size_val_le a Hg). lia.
Qed.

Lemma size_eq0 x : N.size x = 0 <-> x = 0.
Proof. destruct x as [|p]; cbn; [tauto|]. split; intros H; [destruct p; discriminate|discriminate]. Qed.

Theorem is_zero_iff_sig0 a P : Good a ->
  exists s z, x_sigbits P a = Ok s /\ x_is_zero a = Ok z /\ (z = true <-> s = 0).
Proof.
  intros Hg. exists (N.size (val a)), (val a =? 0).
  split; [apply x_sigbits_val; assumption|].
  split; [rewrite (x_is_zero_spec a Hg), (Good_abs a Hg); reflexivity|].
  rewrite size_eq0. apply N.eqb_eq.
Qed.

(* ------------------------------------------------------------------ C10: Hash *)

(* the tokens fed to the Hasher, as a function of the word width and the value alone *)
Definition htok (w R : N) : list (N * N) :=
  (64, N.size R) :: map (fun i => (w, (R / 2 ^ (w * i)) mod 2 ^ w)) (nrange (cfbl_f w (N.size R))).

Lemma omap_geto_tokens (w : N) d k : k <= lenw d ->
  omap_list (fun i => let! x := geto d i in Ok (w, x)) (nrange k)
  = Ok (map (fun i => (w, getw d i)) (nrange k)).
Proof.
  intros Hk. apply omap_list_ok. intros i Hi. apply In_nrange in Hi.
  rewrite geto_ok by lia. reflexivity.
Qed.

Lemma sig_words_le w v : 0 < w -> canon_wv w v -> cfbl_f w (N.size (raw w (wd v))) <= lenw (wd v).
Proof.
  intros Hw (_ & Hl & Hr). apply cfbl_f_le; [assumption|].
  pose proof (size_le_of_lt _ _ Hr). lia.
Qed.

Lemma word_tokens w v : 0 < w -> canon_wv w v ->
  omap_list (fun i => let! x := geto (wd v) i in Ok (w, x)) (nrange (cfbl_f w (N.size (raw w (wd v)))))
  = Ok (map (fun i => (w, (raw w (wd v) / 2 ^ (w * i)) mod 2 ^ w)) (nrange (cfbl_f w (N.size (raw w (wd v)))))).
Proof.
  intros Hw Hc. rewrite omap_geto_tokens by (apply sig_words_le; assumption).
  f_equal. apply map_ext. intros i. f_equal. apply getw_raw; [assumption|apply Hc].
Qed.

Lemma int_tokens v : canon_wv 64 v ->
  omap_list (fun i => let! x := unwrap (v_get_int 64 64 v i) in Ok (64, x))
            (nrange ((N.size (raw 64 (wd v)) + 63) / 64))
  = Ok (map (fun i => (64, (raw 64 (wd v) / 2 ^ (64 * i)) mod 2 ^ 64))
            (nrange (cfbl_f 64 (N.size (raw 64 (wd v)))))).
Proof.
  intros Hc. unfold cfbl_f. replace (N.size (raw 64 (wd v)) + 64 - 1) with (N.size (raw 64 (wd v)) + 63) by lia.
  apply omap_list_ok. intros i Hi. apply In_nrange in Hi.
  rewrite v_get_int_spec by (try assumption; apply std_widths_ok; apply std_width_64).
  destruct Hc as (_ & _ & Hr). pose proof (size_le_of_lt _ _ Hr) as Hs.
  revert Hi Hs. generalize (N.size (raw 64 (wd v))). intros s Hi Hs.
  destruct (N.ltb_spec (i * 64) (wl v)) as [H|H]; [reflexivity|exfalso].
  clear -Hi Hs H. lia.
Qed.

Lemma x_hash_val P a : Good a -> x_hash P a = Ok (htok (xw a) (val a)).
Proof.
  intros Hg. destruct (Good_parts a Hg) as (Hw & _ & Hc).
  unfold x_hash. rewrite (x_sigbits_val P a Hg), bind_Ok_l. unfold htok, val, xdata.
  destruct a as [w v|v|fx v]; cbn [xw xv] in *.
  - unfold f_hash. rewrite word_tokens by assumption. reflexivity.
  - unfold d_hash. rewrite Counts.cfbl_d_eq. unfold W64. rewrite word_tokens by assumption. reflexivity.
  - unfold a_hash. unfold W64. rewrite int_tokens by assumption. reflexivity.
Qed.

(* C10: within one type, equal values feed identical data to the Hasher, whatever their lengths,
   spare capacity or (for the auto type) storage mode *)
Definition same_type (a b : bvx) : Prop :=
  match a, b with
  | XF w1 _, XF w2 _ => w1 = w2
  | XD _, XD _ => True
  | XA _ _, XA _ _ => True
  | _, _ => False
  end.

Lemma same_type_xw a b : same_type a b -> xw a = xw b.
Proof. destruct a, b; cbn; intros H; try contradiction; auto. Qed.

Theorem x_hash_eq P a b : Good a -> Good b -> same_type a b -> val a = val b -> x_hash P a = x_hash P b.
Proof.
  intros Ha Hb Ht Hv. rewrite (x_hash_val P a Ha), (x_hash_val P b Hb), (same_type_xw a b Ht), Hv.
  reflexivity.
Qed.

Theorem x_hash_ok P a : Good a -> exists h, x_hash P a = Ok h.
Proof. intros Hg. eexists. apply x_hash_val. assumption. Qed.

(* ------------------------------------------------------------------ C13: byte constructors *)

Definition kind_ok (k : kind) : Prop := match k with KF w n => std_width w /\ 0 <= n | _ => True end.
Definition bytes_ok (l : list N) : Prop := Forall (fun b => b < 256) l.

Lemma abs_of_parts r len R : Canon r -> xlen r = len -> val r = R -> abs r = mkbv len R.
Proof. intros Hc <- <-. apply abs_Canon. assumption. Qed.

Lemma Good_XF w v : std_width w -> canon_wv w v -> Good (XF w v).
Proof.
  intros Hw Hc. split; [|exact Hw].
  apply Canon_XF; [assumption|apply std_width_pos; assumption|apply std_width_mod8; assumption].
Qed.

Lemma Good_XD v : canon_wv 64 v -> Good (XD v).
Proof. intros Hc. apply Good_of_Canon_D, Canon_XD. assumption. Qed.

Lemma Good_XA_fixed v : canon_wv 64 v -> lenw (wd v) = 2 -> Good (XA true v).
Proof. intros Hc Hl. apply Good_of_Canon_A, Canon_XA_fixed; assumption. Qed.

Lemma Good_XA_dyn v : canon_wv 64 v -> Good (XA false v).
Proof. intros Hc. apply Good_of_Canon_A, Canon_XA_dyn. assumption. Qed.

Lemma kind_matches_KF w n v : lenw (wd v) = n -> kind_matches (KF w n) (XF w v) = true.
Proof. intros <-. cbn [kind_matches]. rewrite !N.eqb_refl. reflexivity. Qed.

Theorem k_from_bytes_spec k bytes e : kind_ok k -> bytes_ok bytes ->
  (fits k (8 * lenw bytes) = false -> k_from_bytes k bytes e = Err ECap) /\
  (fits k (8 * lenw bytes) = true ->
   exists r, k_from_bytes k bytes e = Ok r /\ Good r /\ kind_matches k r = true /\
             abs r = mkbv (8 * lenw bytes) (bytes_value bytes e)).
Proof.
  intros Hk Hb. destruct k as [w n| |]; cbn [fits kind_fixed kind_cap negb orb k_from_bytes].
  - destruct Hk as [Hw Hn]. split; intros H.
    + apply N.leb_gt in H. rewrite f_from_bytes_overflow by assumption. reflexivity.
    + apply N.leb_le in H.
      destruct (f_from_bytes_spec w n bytes e (std_width_pos w Hw) (std_width_mod8 w Hw) Hb H)
        as (v & E & Hc & Hl & Hlen & Hr).
      exists (XF w v). rewrite E. split; [reflexivity|].
      pose proof (Good_XF w v Hw Hc) as Hg. split; [exact Hg|].
      split; [apply kind_matches_KF; assumption|].
      apply abs_of_parts; [apply Hg|exact Hlen|exact Hr].
  - split; intros H; [discriminate|].
    destruct (d_from_bytes_spec bytes e Hb) as (Hc & Hlen & _ & Hr).
    exists (XD (d_from_bytes bytes e)). split; [reflexivity|].
    pose proof (Good_XD _ Hc) as Hg. split; [exact Hg|]. split; [reflexivity|].
    apply abs_of_parts; [apply Hg|exact Hlen|exact Hr].
  - split; intros H; [discriminate|]. unfold BVP_CAP, BVP_W, BVP_N.
    destruct (N.leb_spec (lenw bytes * 8) 128) as [Hle|Hgt].
    + assert (8 * lenw bytes <= 64 * 2) as Hfit by lia.
      destruct (f_from_bytes_spec 64 2 bytes e eq_refl eq_refl Hb Hfit) as (v & E & Hc & Hl & Hlen & Hr).
      exists (XA true v). rewrite E. split; [reflexivity|].
      pose proof (Good_XA_fixed v Hc Hl) as Hg. split; [exact Hg|]. split; [reflexivity|].
      apply abs_of_parts; [apply Hg|exact Hlen|exact Hr].
    + destruct (d_from_bytes_spec bytes e Hb) as (Hc & Hlen & _ & Hr).
      exists (XA false (d_from_bytes bytes e)). split; [reflexivity|].
      pose proof (Good_XA_dyn _ Hc) as Hg. split; [exact Hg|]. split; [reflexivity|].
      apply abs_of_parts; [apply Hg|exact Hlen|exact Hr].
Qed.

Theorem k_read_spec k reader len e : kind_ok k -> bytes_ok reader ->
  (fits k len = false \/ lenw reader < (len + 7) / 8 -> exists err, k_read k reader len e = Err err) /\
  (fits k len = true -> (len + 7) / 8 <= lenw reader ->
   exists r, k_read k reader len e = Ok (r, skipn (N.to_nat ((len + 7) / 8)) reader) /\ Good r /\
             kind_matches k r = true /\
             abs r = mkbv len (bytes_value (firstn (N.to_nat ((len + 7) / 8)) reader) e mod 2 ^ len)).
Proof.
  intros Hk Hb. destruct k as [w n| |]; cbn [fits kind_fixed kind_cap negb orb k_read].
  - destruct Hk as [Hw Hn]. split.
    + intros H. destruct (N.leb_spec len (w * n)) as [Hle|Hgt].
      * destruct H as [H|H]; [discriminate|].
        rewrite f_read_short by assumption. eexists. reflexivity.
      * rewrite f_read_overflow by assumption. eexists. reflexivity.
    + intros H Hrd. apply N.leb_le in H.
      destruct (f_read_spec w n reader len e (std_width_pos w Hw) (std_width_mod8 w Hw) Hb H Hrd)
        as (v & E & Hc & Hl & Hlen & Hr).
      exists (XF w v). rewrite E. split; [reflexivity|].
      pose proof (Good_XF w v Hw Hc) as Hg. split; [exact Hg|].
      split; [apply kind_matches_KF; assumption|].
      apply abs_of_parts; [apply Hg|exact Hlen|exact Hr].
  - split.
    + intros [H|H]; [discriminate|]. rewrite d_read_short by assumption. eexists. reflexivity.
    + intros _ Hrd. destruct (d_read_spec reader len e Hb Hrd) as (v & E & Hc & Hlen & Hr).
      exists (XD v). rewrite E. split; [reflexivity|].
      pose proof (Good_XD _ Hc) as Hg. split; [exact Hg|]. split; [reflexivity|].
      apply abs_of_parts; [apply Hg|exact Hlen|exact Hr].
  - unfold BVP_CAP, BVP_W, BVP_N. split.
    + intros [H|H]; [discriminate|]. destruct (N.leb_spec len 128) as [Hle|Hgt].
      * rewrite f_read_short by (assumption || lia). eexists. reflexivity.
      * rewrite d_read_short by assumption. eexists. reflexivity.
    + intros _ Hrd. destruct (N.leb_spec len 128) as [Hle|Hgt].
      * assert (len <= 64 * 2) as Hfit by lia.
        destruct (f_read_spec 64 2 reader len e eq_refl eq_refl Hb Hfit Hrd) as (v & E & Hc & Hl & Hlen & Hr).
        exists (XA true v). rewrite E. split; [reflexivity|].
        pose proof (Good_XA_fixed v Hc Hl) as Hg. split; [exact Hg|]. split; [reflexivity|].
        apply abs_of_parts; [apply Hg|exact Hlen|exact Hr].
      * destruct (d_read_spec reader len e Hb Hrd) as (v & E & Hc & Hlen & Hr).
        exists (XA false v). rewrite E. split; [reflexivity|].
        pose proof (Good_XA_dyn _ Hc) as Hg. split; [exact Hg|]. split; [reflexivity|].
        apply abs_of_parts; [apply Hg|exact Hlen|exact Hr].
Qed.
