(* Proofs/Slice.v *)
From BVA Require Import Base.Prelude Base.Result Base.Words Base.Limbs.
From BVA Require Import Model.Core Model.Ops Model.Arith Model.Conv Model.Auto Spec.Spec Proofs.Common.
From Coq Require Import ZifyBool ZifyN ZifyNat.

(* copy_range: the slice s..e of a vector, as a fresh vector.

   Proof plan: the storage before masking has, as word j (j < K = cfbl (e - s)), the w source bits
   starting at bit s + w * j, and zero words above; masking the top word then keeps exactly the low
   e - s bits.  Everything is stated bit-wise and concluded with N.bits_inj. *)

(* ------------------------------------------------------------------ width-independent helpers *)

Lemma land_lt_l a b n : a < 2 ^ n -> N.land a b < 2 ^ n.
Proof.
  intros H. apply lt_pow2_of_bits. intros i Hi. rewrite N.land_spec.
  rewrite (testbit_high a n i) by assumption. reflexivity.
Qed.

Lemma lor_lt a b n : a < 2 ^ n -> b < 2 ^ n -> N.lor a b < 2 ^ n.
Proof.
  intros Ha Hb. apply lt_pow2_of_bits. intros i Hi. rewrite N.lor_spec.
  rewrite (testbit_high a n i), (testbit_high b n i) by assumption. reflexivity.
Qed.

Lemma nth_skipn_nat (d : list N) o j : nth j (skipn o d) 0 = nth (o + j) d 0.
Proof.
  revert d. induction o as [|o IH]; intros d; [reflexivity|].
  destruct d as [|x r]; cbn [skipn Nat.add nth]; [destruct j; reflexivity|apply IH].
Qed.

Lemma nth_firstn_nat (d : list N) k j :
  nth j (firstn k d) 0 = if (j <? k)%nat then nth j d 0 else 0.
Proof.
  revert d j. induction k as [|k IH]; intros d j.
  - cbn [firstn]. destruct j; reflexivity.
  - destruct d as [|x r]; cbn [firstn].
    + destruct j; cbn [nth]; destruct (_ <? _)%nat; reflexivity.
    + destruct j as [|j]; cbn [nth]; [reflexivity|]. rewrite IH. reflexivity.
Qed.

Lemma getw_skipn d o j : getw (skipn (N.to_nat o) d) j = getw d (j + o).
Proof.
  unfold getw. rewrite nth_skipn_nat. f_equal. lia.
Qed.

Lemma getw_firstn d k j : getw (firstn (N.to_nat k) d) j = if j <? k then getw d j else 0.
Proof.
  unfold getw. rewrite nth_firstn_nat.
  destruct (Nat.ltb_spec (N.to_nat j) (N.to_nat k)); destruct (N.ltb_spec j k); try reflexivity; lia.
Qed.

Lemma lenw_firstn d k : lenw (firstn (N.to_nat k) d) = N.min k (lenw d).
Proof. unfold lenw. rewrite firstn_length. lia. Qed.

Lemma lenw_skipn d o : lenw (skipn (N.to_nat o) d) = lenw d - o.
Proof. unfold lenw. rewrite skipn_length. lia. Qed.

Lemma getw_app d1 d2 j :
  getw (d1 ++ d2) j = if j <? lenw d1 then getw d1 j else getw d2 (j - lenw d1).
Proof.
  unfold getw, lenw. destruct (N.ltb_spec j (N.of_nat (length d1))).
  - apply app_nth1. lia.
  - rewrite app_nth2 by lia. f_equal. lia.
Qed.

Lemma getw_map_nrange (g : N -> N) k j : getw (map g (nrange k)) j = if j <? k then g j else 0.
Proof.
  destruct (N.ltb_spec j k) as [H|H].
  - unfold getw. rewrite (nth_indep _ 0 (g 0)) by (rewrite map_length, nrange_length; lia).
    rewrite map_nth. f_equal. apply getw_nrange. assumption.
  - apply getw_high. unfold lenw. rewrite map_length, nrange_length. lia.
Qed.

Lemma lenw_map_nrange (g : N -> N) k : lenw (map g (nrange k)) = k.
Proof. unfold lenw. rewrite map_length, nrange_length. lia. Qed.

Lemma omap_list_ok {A B} (f : A -> outcome B) (g : A -> B) l :
  (forall a, In a l -> f a = Ok (g a)) -> omap_list f l = Ok (map g l).
Proof.
  induction l as [|a r IH]; intros H; [reflexivity|].
  cbn [omap_list map]. rewrite (H a) by (left; reflexivity). cbn [bind].
  rewrite IH by (intros; apply H; right; assumption). reflexivity.
Qed.

Lemma getw_upd_last f d j :
  getw (upd_last f d) j = if (j =? lenw d - 1) && (0 <? lenw d) then f (getw d j) else getw d j.
Proof.
  revert j. induction d as [|x r IH]; intros j.
  - cbn [upd_last]. rewrite lenw_nil. rewrite andb_false_r. reflexivity.
  - destruct r as [|y r'].
    + cbn [upd_last]. rewrite lenw_cons, lenw_nil.
      destruct (N.eqb_spec j (0 + 1 - 1)) as [->|Hj]; [reflexivity|].
      cbn [andb]. rewrite !getw_cons_S, !getw_nil by lia. reflexivity.
    + change (upd_last f (x :: y :: r')) with (x :: upd_last f (y :: r')).
      rewrite (lenw_cons x). rewrite (lenw_cons y) in *.
      destruct (N.eq_dec j 0) as [->|Hj].
      * rewrite !getw_cons_0.
        destruct (N.eqb_spec 0 (lenw r' + 1 + 1 - 1)); [lia|reflexivity].
      * rewrite !(getw_cons_S x) by lia. rewrite IH.
        assert (0 <? lenw r' + 1 = true) as -> by (apply N.ltb_lt; lia).
        assert (0 <? lenw r' + 1 + 1 = true) as -> by (apply N.ltb_lt; lia).
        destruct (N.eqb_spec (j - 1) (lenw r' + 1 - 1)); destruct (N.eqb_spec j (lenw r' + 1 + 1 - 1));
          try lia; reflexivity.
Qed.

Lemma lenw_upd_last f d : lenw (upd_last f d) = lenw d.
Proof.
  induction d as [|x r IH]; [reflexivity|].
  destruct r as [|y r']; [reflexivity|].
  change (upd_last f (x :: y :: r')) with (x :: upd_last f (y :: r')).
  rewrite !(lenw_cons x), IH. reflexivity.
Qed.

Lemma upd_last_upd_at f d : upd_last f d = upd_at d (lenw d - 1) f.
Proof.
  apply list_ext_getw.
  - rewrite lenw_upd_last, lenw_upd_at. reflexivity.
  - intros j _. rewrite getw_upd_last, getw_upd_at.
    destruct (N.eqb_spec j (lenw d - 1)) as [->|Hj].
    + rewrite N.eqb_refl.
      destruct (N.ltb_spec 0 (lenw d)); destruct (N.ltb_spec (lenw d - 1) (lenw d)); try reflexivity; lia.
    + destruct (N.eqb_spec (lenw d - 1) j); [lia|reflexivity].
Qed.

Lemma cfbl_d_eq L : cfbl_d L = cfbl_f 64 L.
Proof.
  unfold cfbl_d, cfbyl_d, cfbl_f.
  pose proof (N.div_mod' L 8) as E1. pose proof (N.mod_lt L 8).
  pose proof (N.div_mod' (L + 7) 8) as E2. pose proof (N.mod_lt (L + 7) 8).
  pose proof (N.div_mod' ((L + 7) / 8 + 8 - 1) 8) as E3. pose proof (N.mod_lt ((L + 7) / 8 + 8 - 1) 8).
  pose proof (N.div_mod' (L + 64 - 1) 64) as E4. pose proof (N.mod_lt (L + 64 - 1) 64).
  lia.
Qed.

(* ------------------------------------------------------------------ width-generic core *)

Section W.
Variable w : N.
Hypothesis Hw : 0 < w.

Lemma cfbl_f_eq L : cfbl_f w L = L / w + (if L mod w =? 0 then 0 else 1).
Proof.
  unfold cfbl_f. pose proof (div_mod_eq L w) as E. pose proof (mod_lt' L w Hw) as Hm.
  destruct (N.eqb_spec (L mod w) 0) as [H0|H0]; symmetry.
  - apply (N.div_unique _ w _ (w - 1)); lia.
  - apply (N.div_unique _ w _ (L mod w - 1)); lia.
Qed.

Lemma lastbits_spec L : 0 < L -> lastbits w L = if L mod w =? 0 then w else L mod w.
Proof.
  intros HL. unfold lastbits, wsub1.
  destruct (N.eqb_spec L 0) as [|_]; [lia|].
  pose proof (div_mod_eq L w) as E. pose proof (mod_lt' L w Hw) as Hm.
  destruct (N.eqb_spec (L mod w) 0) as [H0|H0].
  - assert (L / w <> 0) as Hq by (intro Z; rewrite Z in E; lia).
    replace (L / w) with (L / w - 1 + 1) in E by lia. rewrite N.mul_add_distr_l in E.
    rewrite <- (N.mod_unique (L - 1) w (L / w - 1) (w - 1)); lia.
  - rewrite <- (N.mod_unique (L - 1) w (L / w) (L mod w - 1)); lia.
Qed.

(* which bits survive: word j (below K) is kept, except that the word at index p is masked *)
Lemma mask_arith L p n j b :
  b < w -> cfbl_f w L <= n -> (L mod w <> 0 -> p = L / w) ->
  (j <? cfbl_f w L) && (negb ((p =? j) && (p <? n)) || (b <? lastbits w L)) = (w * j + b <? L).
Proof.
  intros Hb HK Hp. rewrite cfbl_f_eq in *.
  pose proof (div_mod_eq L w) as E. pose proof (mod_lt' L w Hw) as Hm.
  destruct (N.eqb_spec (L mod w) 0) as [H0|H0].
  - destruct (N.eq_dec L 0) as [HL|HL].
    + assert (L / w = 0) as -> by (rewrite HL; apply N.div_0_l; lia).
      destruct (N.ltb_spec j (0 + 0)); [lia|]. cbn [andb].
      destruct (N.ltb_spec (w * j + b) L); [lia|reflexivity].
    + rewrite lastbits_spec by lia. apply N.eqb_eq in H0. rewrite H0. apply N.eqb_eq in H0.
      assert (b <? w = true) as -> by (apply N.ltb_lt; assumption).
      rewrite orb_true_r, andb_true_r.
      destruct (N.ltb_spec j (L / w + 0)); destruct (N.ltb_spec (w * j + b) L); try reflexivity; nia.
  - specialize (Hp H0). subst p. rewrite lastbits_spec by lia.
    destruct (N.eqb_spec (L mod w) 0) as [|_]; [contradiction|].
    assert (L / w <? n = true) as -> by (apply N.ltb_lt; lia). rewrite andb_true_r.
    destruct (N.eqb_spec (L / w) j) as [<-|Hj]; cbn [negb orb].
    + assert (L / w <? L / w + 1 = true) as -> by (apply N.ltb_lt; lia). cbn [andb].
      destruct (N.ltb_spec (L mod w) (L mod w)); [lia|].
      destruct (N.ltb_spec b (L mod w)); destruct (N.ltb_spec (w * (L / w) + b) L); try reflexivity; lia.
    + rewrite andb_true_r.
      destruct (N.ltb_spec j (L / w + 1)); destruct (N.ltb_spec (w * j + b) L); try reflexivity; nia.
Qed.

Lemma masked_bits (B : N -> bool) L p d :
  words_ok w d -> cfbl_f w L <= lenw d -> (L mod w <> 0 -> p = L / w) ->
  (forall j b, b < w -> N.testbit (getw d j) b = (j <? cfbl_f w L) && B (w * j + b)) ->
  words_ok w (upd_at d p (fun l => N.land l (maskw w (lastbits w L)))) /\
  forall i, N.testbit (raw w (upd_at d p (fun l => N.land l (maskw w (lastbits w L))))) i =
            (i <? L) && B i.
Proof.
  intros Hd HK Hp HB.
  assert (words_ok w (upd_at d p (fun l => N.land l (maskw w (lastbits w L))))) as Hd'.
  { apply words_ok_upd_at; [assumption|]. apply land_lt_l, getw_ok. assumption. }
  split; [assumption|]. intro i.
  rewrite raw_testbit by assumption. rewrite getw_upd_at.
  pose proof (div_mod_eq i w) as Ei. pose proof (mod_lt' i w Hw) as Hb.
  transitivity (N.testbit (getw d (i / w)) (i mod w) &&
                (negb ((p =? i / w) && (p <? lenw d)) || (i mod w <? lastbits w L))).
  - destruct ((p =? i / w) && (p <? lenw d)) eqn:C.
    + apply andb_true_iff in C. destruct C as [C _]. apply N.eqb_eq in C. subst p.
      rewrite N.land_spec, maskw_testbit.
      assert (i mod w <? w = true) as -> by (apply N.ltb_lt; assumption).
      cbn [negb orb]. rewrite andb_true_r. reflexivity.
    + cbn [negb orb]. rewrite andb_true_r. reflexivity.
  - rewrite HB by assumption.
    rewrite <- andb_assoc, (andb_comm (B _)), andb_assoc.
    rewrite mask_arith by assumption. rewrite <- Ei. reflexivity.
Qed.

(* one word of the shifted copy *)
Lemma slide_word_bits src off sl k b :
  words_ok w src -> 0 < sl -> sl < w -> b < w ->
  N.testbit (N.lor (shrw (getw src (k + off)) sl) (shlw w (getw src (k + off + 1)) (w - sl))) b =
  N.testbit (raw w src) (w * off + sl + (w * k + b)).
Proof.
  intros Hs H0 Hsl Hb.
  rewrite N.lor_spec, shrw_testbit, shlw_testbit, raw_testbit by assumption.
  assert (b <? w = true) as -> by (apply N.ltb_lt; assumption). cbn [andb].
  destruct (N.lt_ge_cases (b + sl) w) as [Hlt|Hge].
  - destruct (divmod_unique (w * off + sl + (w * k + b)) w (k + off) (b + sl) Hw) as [-> ->]; [lia|assumption|].
    assert (w - sl <=? b = false) as -> by (apply N.leb_gt; lia). cbn [andb]. apply orb_false_r.
  - destruct (divmod_unique (w * off + sl + (w * k + b)) w (k + off + 1) (b + sl - w) Hw) as [-> ->]; [lia|lia|].
    rewrite (testbit_high (getw src (k + off)) w (b + sl)) by (try apply getw_ok; assumption).
    assert (w - sl <=? b = true) as -> by (apply N.leb_le; lia). cbn [andb orb].
    f_equal. lia.
Qed.

Lemma slide_word_lt src off sl k :
  words_ok w src ->
  N.lor (shrw (getw src (k + off)) sl) (shlw w (getw src (k + off + 1)) (w - sl)) < 2 ^ w.
Proof.
  intros Hs. apply lor_lt; [apply shrw_lt, getw_ok; assumption|apply shlw_lt].
Qed.

Lemma plain_word_bits src off k b :
  words_ok w src -> b < w ->
  N.testbit (getw src (k + off)) b = N.testbit (raw w src) (w * off + 0 + (w * k + b)).
Proof.
  intros Hs Hb. rewrite raw_testbit by assumption.
  destruct (divmod_unique (w * off + 0 + (w * k + b)) w (k + off) b Hw) as [-> ->]; [lia|assumption|].
  reflexivity.
Qed.

(* the accesses of the copy loop are in range *)
Lemma copy_in_range s L n i :
  s + L <= w * n -> i < cfbl_f w L -> i + s / w < n.
Proof.
  intros Hn Hi. rewrite cfbl_f_eq in Hi.
  pose proof (div_mod_eq L w) as E. pose proof (mod_lt' L w Hw) as Hm.
  pose proof (div_mod_eq s w) as Es. pose proof (mod_lt' s w Hw) as Hsm.
  apply (N.mul_lt_mono_pos_l w); [assumption|].
  destruct (N.eqb_spec (L mod w) 0); nia.
Qed.

End W.

Lemma cfbl_f_ge w L : 0 < w -> L <= w * cfbl_f w L.
Proof. intros Hw. apply (ceil_div_spec L w Hw). unfold cfbl_f. lia. Qed.

Lemma cfbl_f_le w L n : 0 < w -> L <= w * n -> cfbl_f w L <= n.
Proof. intros Hw H. apply (ceil_div_spec L w Hw). assumption. Qed.

Lemma cfbl_off_le w s L n : 0 < w -> s + L <= w * n -> cfbl_f w L + s / w <= n.
Proof.
  intros Hw H. destruct (N.eq_dec (cfbl_f w L) 0) as [E|E].
  - rewrite E. pose proof (div_mod_eq s w).
    apply (N.mul_le_mono_pos_l _ _ w); [assumption|]. lia.
  - pose proof (copy_in_range w Hw s L n (cfbl_f w L - 1) H). lia.
Qed.

Lemma cfbl_f_last w L : 0 < w -> L mod w <> 0 -> cfbl_f w L - 1 = L / w.
Proof.
  intros Hw H. rewrite cfbl_f_eq by assumption.
  destruct (N.eqb_spec (L mod w) 0); [contradiction|apply N.add_sub].
Qed.

(* ------------------------------------------------------------------ debug assertions *)

Lemma copy_range_assert_false v s e :
  wl v < s \/ wl v < e -> (s <=? wl v) && (e <=? wl v) = false.
Proof.
  intros H. destruct (N.leb_spec s (wl v)); destruct (N.leb_spec e (wl v)); try reflexivity; lia.
Qed.

Lemma copy_range_assert_ok P v s e :
  s <= e -> e <= wl v -> dassert P ((s <=? wl v) && (e <=? wl v)) = Ok tt.
Proof.
  intros H1 H2.
  assert ((s <=? wl v) && (e <=? wl v) = true) as ->
    by (apply andb_true_iff; split; apply N.leb_le; lia).
  destruct P; reflexivity.
Qed.

Lemma f_copy_range_debug_oob w v s e :
  wl v < s \/ wl v < e -> f_copy_range Debug w v s e = Panic.
Proof.
  intros H. unfold f_copy_range. rewrite copy_range_assert_false by assumption. reflexivity.
Qed.

Lemma d_copy_range_debug_oob v s e :
  wl v < s \/ wl v < e -> d_copy_range Debug v s e = Panic.
Proof.
  intros H. unfold d_copy_range. rewrite copy_range_assert_false by assumption. reflexivity.
Qed.

(* ------------------------------------------------------------------ Bvd *)

Definition d_word (src : list N) (s i : N) : N :=
  N.lor (shrw (getw src (i + s / 64)) (s mod 64))
        (if 64 - s mod 64 <? 64 then shlw 64 (getw src (i + s / 64 + 1)) (64 - s mod 64) else 0).

Lemma d_word_lt src s i : words_ok 64 src -> d_word src s i < 2 ^ 64.
Proof.
  intros Hs. unfold d_word. apply lor_lt; [apply shrw_lt, getw_ok; assumption|].
  destruct (_ <? _); [apply shlw_lt|apply pow2_pos].
Qed.

Lemma d_word_bits src s i b :
  words_ok 64 src -> b < 64 ->
  N.testbit (d_word src s i) b = N.testbit (raw 64 src) (s + (64 * i + b)).
Proof.
  intros Hs Hb. unfold d_word.
  pose proof (div_mod_eq s 64) as Es. pose proof (mod_lt' s 64 ltac:(lia)) as Hm.
  destruct (N.eq_dec (s mod 64) 0) as [E0|E0].
  - rewrite E0 in *. change (64 - 0 <? 64) with false. cbv iota.
    unfold shrw. rewrite N.shiftr_0_r, N.lor_0_r.
    rewrite (plain_word_bits 64) by (assumption || lia). f_equal. lia.
  - assert (64 - s mod 64 <? 64 = true) as -> by (apply N.ltb_lt; lia).
    rewrite (slide_word_bits 64) by (assumption || lia). f_equal. lia.
Qed.

Lemma d_copy_range_spec P v s e :
  canon_wv 64 v -> s <= e -> e <= wl v ->
  exists r, d_copy_range P v s e = Ok r /\ canon_wv 64 r /\ wl r = e - s /\
            lenw (wd r) = cfbl_d (e - s) /\
            raw 64 (wd r) = (raw 64 (wd v) / 2 ^ s) mod 2 ^ (e - s).
Proof.
  intros (Hok & Hcap & Hlt) Hse He.
  assert (0 < 64) as H64 by lia.
  unfold d_copy_range. cbv zeta. rewrite copy_range_assert_ok by assumption. cbn [bind].
  replace (e - N.min s e) with (e - s) by lia.
  unfold W64. rewrite cfbl_d_eq.
  set (L := e - s). set (K := cfbl_f 64 L).
  rewrite (omap_list_ok _ (d_word (wd v) s)).
  2:{ intros i Hi. apply In_nrange in Hi.
      rewrite geto_ok by (apply (copy_in_range 64 H64 s L); [lia|assumption]).
      reflexivity. }
  cbn [bind]. rewrite upd_last_upd_at.
  set (d := map (d_word (wd v) s) (nrange K)).
  assert (lenw d = K) as Hlen by apply lenw_map_nrange.
  assert (words_ok 64 d) as Hd.
  { apply words_ok_getw. intros i _. unfold d. rewrite getw_map_nrange.
    destruct (i <? K); [apply d_word_lt; assumption|apply pow2_pos]. }
  destruct (masked_bits 64 H64 (fun x => N.testbit (raw 64 (wd v)) (s + x)) L (lenw d - 1) d)
    as [Hd' Hbits].
  - assumption.
  - fold K. lia.
  - intros Hm. rewrite Hlen. apply cfbl_f_last; assumption.
  - intros j b Hb. fold K. unfold d. rewrite getw_map_nrange.
    destruct (j <? K); [apply d_word_bits; assumption|apply N.bits_0].
  - eexists. split; [reflexivity|]. cbn [wd wl].
    split; [|split; [reflexivity|split]].
    + apply canon_of_bits.
      * assumption.
      * rewrite lenw_upd_at, Hlen. apply cfbl_f_ge. assumption.
      * intros i Hi. rewrite Hbits. assert (i <? L = false) as -> by (apply N.ltb_ge; assumption). reflexivity.
    + rewrite lenw_upd_at. assumption.
    + apply N.bits_inj. intro i.
      rewrite Hbits, mod_pow2_testbit, div_pow2_testbit. f_equal. f_equal. lia.
Qed.

(* ------------------------------------------------------------------ Bvf *)

Lemma fold_copy_ok src off (G : N -> N -> N) n k :
  k <= n -> (forall i, i < k -> i + off < lenw src) ->
  exists d,
    fold_left (fun acc i => let! d := acc in let! x := geto src (i + off) in seto d i (G i x))
              (nrange k) (Ok (zerosw n)) = Ok d /\
    lenw d = n /\ forall j, getw d j = if j <? k then G j (getw src (j + off)) else 0.
Proof.
  induction k as [|k IH] using N.peano_ind; intros Hk Hr.
  - exists (zerosw n). rewrite nrange_0. cbn [fold_left].
    split; [reflexivity|]. split; [apply lenw_zerosw|].
    intros j. rewrite getw_zerosw. destruct (N.ltb_spec j 0); [lia|reflexivity].
  - destruct IH as (d & Hd & Hl & Hg); [lia|intros; apply Hr; lia|].
    rewrite <- N.add_1_r, nrange_succ, fold_left_app, Hd. cbn [fold_left bind].
    rewrite geto_ok by (apply Hr; lia). cbn [bind]. rewrite seto_ok by lia.
    eexists. split; [reflexivity|]. split; [rewrite lenw_setw; assumption|].
    intros j. rewrite getw_setw, Hg, Hl.
    destruct (N.eqb_spec k j) as [<-|Hj].
    + assert (k <? n = true) as -> by (apply N.ltb_lt; lia).
      assert (k <? k + 1 = true) as -> by (apply N.ltb_lt; lia). reflexivity.
    + cbn [andb].
      destruct (N.ltb_spec j k); destruct (N.ltb_spec j (k + 1)); try reflexivity; lia.
Qed.

Lemma f_copy_range_spec P w v s e :
  0 < w -> canon_wv w v -> s <= e -> e <= wl v ->
  exists r, f_copy_range P w v s e = Ok r /\ canon_wv w r /\ wl r = e - s /\
            lenw (wd r) = lenw (wd v) /\
            raw w (wd r) = (raw w (wd v) / 2 ^ s) mod 2 ^ (e - s).
Proof.
  intros Hw (Hok & Hcap & Hlt) Hse He.
  unfold f_copy_range. cbv zeta. rewrite copy_range_assert_ok by assumption. cbn [bind].
  replace (e - N.min s e) with (e - s) by lia.
  set (L := e - s). set (K := cfbl_f w L). set (n := lenw (wd v)).
  pose proof (div_mod_eq s w) as Es. pose proof (mod_lt' s w Hw) as Hsm.
  assert (s + L <= w * n) as HsL by (unfold L, n; lia).
  assert (K <= n) as HKn by (apply cfbl_f_le; [assumption|lia]).
  assert (K + s / w <= n) as HKo by (apply cfbl_off_le; assumption).
  (* the storage before masking *)
  assert (exists d,
    (if 0 <? s mod w
     then fold_left (fun acc i =>
                       let! d := acc in
                       let! x := geto (wd v) (i + s / w) in
                       seto d i (N.lor (shrw x (s mod w))
                                       (shlw w (getw (wd v) (i + s / w + 1)) (w - s mod w))))
                    (nrange K) (Ok (zerosw n))
     else if (K <=? n) && (K + s / w <=? n)
          then Ok (firstn (N.to_nat K) (skipn (N.to_nat (s / w)) (wd v)) ++ zerosw (n - K))
          else Panic) = Ok d /\
    lenw d = n /\ words_ok w d /\
    forall j b, b < w ->
      N.testbit (getw d j) b = (j <? K) && N.testbit (raw w (wd v)) (s + (w * j + b)))
    as (d & -> & Hlen & Hd & HB).
  { destruct (N.ltb_spec 0 (s mod w)) as [Hsl|Hsl].
    - destruct (fold_copy_ok (wd v) (s / w)
                  (fun i x => N.lor (shrw x (s mod w))
                                    (shlw w (getw (wd v) (i + s / w + 1)) (w - s mod w))) n K)
        as (d & Hfold & Hlen & Hg).
      + assumption.
      + intros i Hi. fold n. lia.
      + cbv beta in Hfold, Hg. exists d. split; [exact Hfold|]. split; [assumption|]. split.
        * apply words_ok_getw. intros j _. rewrite Hg.
          destruct (j <? K); [apply slide_word_lt; assumption|apply pow2_pos].
        * intros j b Hb. rewrite Hg. destruct (j <? K); [|apply N.bits_0]. cbn [andb].
          rewrite slide_word_bits by assumption. f_equal. lia.
    - assert (K <=? n = true) as -> by (apply N.leb_le; assumption).
      assert (K + s / w <=? n = true) as -> by (apply N.leb_le; assumption). cbn [andb].
      eexists. split; [reflexivity|].
      assert (lenw (firstn (N.to_nat K) (skipn (N.to_nat (s / w)) (wd v))) = K) as Hl1.
      { rewrite lenw_firstn, lenw_skipn. fold n. lia. }
      assert (forall j, getw (firstn (N.to_nat K) (skipn (N.to_nat (s / w)) (wd v)) ++ zerosw (n - K)) j =
                        if j <? K then getw (wd v) (j + s / w) else 0) as Hg.
      { intros j. rewrite getw_app, Hl1, getw_firstn, getw_skipn, getw_zerosw.
        destruct (j <? K); reflexivity. }
      split; [rewrite (lenw_app w), Hl1, lenw_zerosw; lia|]. split.
      + apply words_ok_getw. intros j _. rewrite Hg.
        destruct (j <? K); [apply getw_ok; assumption|apply pow2_pos].
      + intros j b Hb. rewrite Hg. destruct (j <? K); [|apply N.bits_0]. cbn [andb].
        rewrite (plain_word_bits w Hw) by assumption. f_equal. lia. }
  cbn [bind].
  destruct (masked_bits w Hw (fun x => N.testbit (raw w (wd v)) (s + x)) L (L / w) d)
    as [Hd' Hbits].
  - assumption.
  - fold K. lia.
  - reflexivity.
  - exact HB.
  - eexists. split; [reflexivity|]. cbn [wd wl].
    split; [|split; [reflexivity|split]].
    + apply canon_of_bits.
      * assumption.
      * rewrite lenw_upd_at, Hlen. lia.
      * intros i Hi. rewrite Hbits. assert (i <? L = false) as -> by (apply N.ltb_ge; assumption). reflexivity.
    + rewrite lenw_upd_at. assumption.
    + apply N.bits_inj. intro i.
      rewrite Hbits, mod_pow2_testbit, div_pow2_testbit. f_equal. f_equal. lia.
Qed.
