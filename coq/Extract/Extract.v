(* Extraction of the executable model for the OCaml driver.  ExtrOcamlBasic only: bool, option,
   unit, list, prod, sumbool map to OCaml's; N, positive, nat stay Coq inductives. *)
From Coq Require Extraction ExtrOcamlBasic.
From BVA Require Import Base.Prelude Base.Result Model.Core Model.Run Spec.Prop Spec.CaseOk.
Extraction Language OCaml.
Extraction "../ocaml/model.ml" run_case decode_case decode_result corr_line result_eqb prop_case spec_show case_okb lens_okb model_consulted prop_verdict corr_verdict.
