(* Outcome monad: every model function that can panic / fail returns an outcome. *)
From BVA Require Import Base.Prelude.

Inductive profile := Debug | Release.

(* ConvertionError and the io::ErrorKind values the crate produces, as a small enum *)
Inductive err :=
| ECap                 (* ConvertionError::NotEnoughCapacity *)
| EFmt (i : N)         (* ConvertionError::InvalidFormat(i) *)
| EEof                 (* io::ErrorKind::UnexpectedEof (read_exact on a short reader) *)
| EInvalidInput        (* io::ErrorKind::InvalidInput wrapping NotEnoughCapacity (Bvf::read) *)
| EInvalidData.        (* io::ErrorKind::InvalidData wrapping a from_bytes error *)

Inductive outcome (A : Type) :=
| Ok (a : A)
| Panic
| Err (e : err)
| OutOfFuel.
Arguments Ok {A} a.
Arguments Panic {A}.
Arguments Err {A} e.
Arguments OutOfFuel {A}.

Definition bind {A B} (m : outcome A) (f : A -> outcome B) : outcome B :=
  match m with
  | Ok a => f a
  | Panic => Panic
  | Err e => Err e
  | OutOfFuel => OutOfFuel
  end.

Definition omap {A B} (f : A -> B) (m : outcome A) : outcome B := bind m (fun a => Ok (f a)).

Declare Scope outcome_scope.
Delimit Scope outcome_scope with outcome.
Notation "'let!' x ':=' m 'in' f" := (bind m (fun x => f))
  (at level 200, x pattern, m at level 100, f at level 200, right associativity) : outcome_scope.
Open Scope outcome_scope.

(* assert!(c) *)
Definition assert_ (c : bool) : outcome unit := if c then Ok tt else Panic.
(* debug_assert!(c): only with debug assertions *)
Definition dassert (P : profile) (c : bool) : outcome unit :=
  match P with Debug => assert_ c | Release => Ok tt end.
(* Option::unwrap / expect *)
Definition unwrap {A} (o : option A) : outcome A :=
  match o with Some a => Ok a | None => Panic end.

(* usize subtraction a - b: overflow check panics in Debug, wraps modulo 2^64 in Release *)
Definition usub (P : profile) (a b : N) : outcome N :=
  if b <=? a then Ok (a - b)
  else match P with Debug => Panic | Release => Ok (a + N.shiftl 1 64 - b) end.
(* usize addition of two values < 2^64 *)
Definition uadd (P : profile) (a b : N) : outcome N :=
  if a + b <? N.shiftl 1 64 then Ok (a + b)
  else match P with Debug => Panic | Release => Ok (a + b - N.shiftl 1 64) end.

Lemma bind_ok {A B} (m : outcome A) (f : A -> outcome B) b :
  bind m f = Ok b -> exists a, m = Ok a /\ f a = Ok b.
Proof. destruct m; cbn; intros H; try discriminate. eauto. Qed.

Lemma bind_Ok_l {A B} (a : A) (f : A -> outcome B) : bind (Ok a) f = f a.
Proof. reflexivity. Qed.

Lemma assert_ok c : assert_ c = Ok tt <-> c = true.
Proof. destruct c; cbn; split; intros; congruence. Qed.

Lemma usub_ok P a b : b <= a -> usub P a b = Ok (a - b).
Proof. intros H. unfold usub. apply N.leb_le in H. rewrite H. reflexivity. Qed.

(* invert hypotheses of the form  bind m f = Ok r *)
Ltac inv_ok :=
  repeat match goal with
  | H : bind ?m ?f = Ok ?r |- _ =>
      let a := fresh "a" in let Ha := fresh "Ha" in
      apply bind_ok in H; destruct H as [a [Ha H]]
  | H : Ok ?a = Ok ?b |- _ => injection H as H; try subst
  | H : Panic = Ok _ |- _ => discriminate H
  | H : Err _ = Ok _ |- _ => discriminate H
  | H : OutOfFuel = Ok _ |- _ => discriminate H
  end.
